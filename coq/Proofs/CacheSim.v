(** C03 — with an LRU or Random cache the rd = 1 reader with store objects
    behaves exactly like the reader on block values (which ignores SetCache):
    simulation through the ownership invariant. *)
From Coq Require Import ZArith List Bool Lia.
From Hts Require Import Base.Prim Model.Flat Model.Reader Proofs.FlatLemmas Proofs.ReaderFlat Proofs.ReaderStore.
Import ListNotations.
Open Scope Z_scope.

Ltac Zify.zify_post_hook ::= Z.div_mod_to_equations.

(** ---- blocks *)

(** Equality of blocks up to [used]. *)
Definition beq (b b' : block) : Prop :=
  b_base b = b_base b' /\ b_hsize b = b_hsize b' /\ b_data b = b_data b' /\
  b_pos b = b_pos b' /\ b_oblk b = b_oblk b' /\ b_has b = b_has b'.

Lemma beq_refl b : beq b b. Proof. unfold beq; auto 10. Qed.

(** The block holds the member that starts at file offset [k]. *)
Definition good (F : file) (b : block) (k : Z) : Prop :=
  exists pre m post, split_at F pre m post /\ m_base m = k /\
    b_base b = k /\ b_hsize b = m_size m /\ b_data b = m_data m /\ b_has b = true.

Definition vgood (F : file) (b : block) : Prop := b_has b = true -> good F b (b_base b).

Lemma good_beq {F b b' k} : good F b k -> beq b b' -> good F b' k.
Proof.
  intros (pre & m & post & S & Hk & H1 & H2 & H3 & H4) (E1 & E2 & E3 & _ & _ & E6).
  exists pre, m, post. split; [exact S|]. split; [exact Hk|].
  split; [congruence|]. split; [congruence|]. split; congruence.
Qed.

Lemma good_seek {F b k} o : good F b k -> good F (b_seek b o) k.
Proof. intros (pre & m & post & H). exists pre, m, post. exact H. Qed.

Lemma good_next {F b k} : good F b k -> b_next b <> k /\ 0 <= b_next b.
Proof.
  intros (pre & m & post & S & Hk & H1 & H2 & _). unfold b_next. rewrite H1, H2.
  pose proof (split_size_pos S). pose proof (split_base_nonneg S).
  destruct (Z.eqb_spec (m_size m) (-1)); lia.
Qed.

(** The result of a fetch does not depend on the block it is put into (up to used). *)
Lemma fill_beq (F : file) (b1 b2 : block) (k : Z) : wf_file F = true -> 0 <= k ->
  beq (fst (b_fill F b1 k)) (fst (b_fill F b2 k)) /\ snd (b_fill F b1 k) = snd (b_fill F b2 k) /\
  vgood F (fst (b_fill F b1 k)) /\ b_base (fst (b_fill F b1 k)) = k /\
  (snd (b_fill F b1 k) = eNil -> b_has (fst (b_fill F b1 k)) = true).
Proof.
  intros W Hk. unfold b_fill, fetch. destruct (Z.ltb_spec k 0); [lia|].
  destruct (find_member F k) as [m|] eqn:Hf.
  - simpl. split; [unfold beq; simpl; auto 10|]. split; [reflexivity|]. split; [|split; reflexivity].
    intros _. simpl.
    unfold find_member in Hf. apply find_some in Hf. destruct Hf as [Hin Hb]. apply Z.eqb_eq in Hb.
    apply in_split in Hin. destruct Hin as (pre & post & E).
    exists pre, m, post. repeat split; try assumption; try reflexivity.
  - destruct (fsize F <=? k); simpl; (split; [apply beq_refl|]); (split; [reflexivity|]);
      (split; [intros H0; discriminate|split; [reflexivity|intros H0; discriminate]]).
Qed.

(** ---- the cache invariant *)

(** (key, block id) pairs held by the cache. *)
Definition c_entries (c : cstate) : list (Z * nat) :=
  match c_kind c with
  | KRandom => c_table c
  | _ => map (fun kv => (fst kv, nth (snd kv) (c_nodes c) O)) (c_table c)
  end.
Definition bids (c : cstate) : list nat := map snd (c_entries c).

(** LRU and FIFO: table, nodes and list agree. *)
Definition lru_ok (c : cstate) : Prop :=
  NoDup (map snd (c_table c)) /\ NoDup (c_order c) /\
  (forall nid, In nid (c_order c) <-> In nid (map snd (c_table c))) /\
  (forall nid, In nid (map snd (c_table c)) -> (nid < length (c_nodes c))%nat).

Record cache_ok (F : file) (st : store) (c : cstate) : Prop := {
  co_cap : 1 <= c_cap c;
  co_keys : NoDup (map fst (c_entries c));
  co_bids : NoDup (bids c);
  co_good : forall k bid, In (k, bid) (c_entries c) -> (bid < length st)%nat /\ good F (sget st bid) k;
  co_lru : c_kind c <> KRandom -> lru_ok c }.

(** What the reader needs from a cache (proved for LRU and Random below). *)
Definition get_contract (F : file) : Prop :=
  forall st c k, cache_ok F st c ->
    match c_get st c k with
    | Ok (c', Some bid) =>
        In (k, bid) (c_entries c) /\ cache_ok F st c' /\ c_kind c' = c_kind c /\
        (forall e, In e (c_entries c') -> In e (c_entries c)) /\
        (c_kind c <> KFIFO -> forall e, In e (c_entries c') -> e <> (k, bid))
    | Ok (c', None) => c' = c /\ (forall bid, ~ In (k, bid) (c_entries c))
    | _ => False
    end.

Definition put_contract (F : file) : Prop :=
  forall st c bid kb, cache_ok F st c -> (bid < length st)%nat -> good F (sget st bid) kb ->
    (~ In bid (bids c) \/ c_kind c = KFIFO) ->
    match c_put st c bid with
    | Ok (c', back, false) =>
        c' = c /\ ((back = Some bid /\ ~ In bid (bids c)) \/ (back = None /\ In bid (bids c)))
    | Ok (c', back, true) =>
        ~ In bid (bids c) /\ cache_ok F st c' /\ c_kind c' = c_kind c /\
        (forall e, In e (c_entries c') -> e = (kb, bid) \/ In e (c_entries c))
    | _ => False
    end.

Definition peek_contract : Prop :=
  forall st c k, (forall bid, ~ In (k, bid) (c_entries c)) -> c_peek st c k = (false, -1).

(** The invariant survives any change of the store that keeps the cached blocks good. *)
Lemma frame_holds (F : file) (st st' : store) (c : cstate) :
  cache_ok F st c -> (length st <= length st')%nat ->
  (forall bid k, In (k, bid) (c_entries c) -> good F (sget st bid) k -> good F (sget st' bid) k) -> cache_ok F st' c.
Proof.
  intros [C Nk Nb G L] Hlen Hsame. constructor; auto.
  intros k bid Hin. destruct (G k bid Hin) as [Hl Hg]. split; [lia|]. apply (Hsame bid k Hin Hg).
Qed.

Lemma frame_same (F : file) (st st' : store) (c : cstate) :
  cache_ok F st c -> (length st <= length st')%nat ->
  (forall bid, In bid (bids c) -> sget st' bid = sget st bid) -> cache_ok F st' c.
Proof.
  intros Hok Hlen Hsame. apply (frame_holds F st st' c Hok Hlen).
  intros bid k Hin Hg. rewrite Hsame; [exact Hg|]. unfold bids. apply in_map_iff. exists (k, bid). auto.
Qed.

Lemma ckind_eq_dec (a b : ckind) : {a = b} + {a <> b}.
Proof. decide equality. Qed.

(** ---- the simulation relation *)

Section WithContracts.
Variable F : file.
Hypothesis W : wf_file F = true.
Hypothesis HGet : get_contract F.
Hypothesis HPut : put_contract F.
Hypothesis HPeek : peek_contract.

Definition cache_rel (st : store) (i : nat) (oc : option cstate) : Prop :=
  match oc with None => True | Some c => cache_ok F st c /\ (c_kind c <> KFIFO -> ~ In i (bids c)) end.

Record csr (s : rstate) (v : vstate) : Prop := {
  cs_err : r_err s = v_err v;
  cs_lc : r_lc s = v_lc v;
  cs_bl : r_blocked s = v_blocked v;
  cs_vgood : vgood F (v_cur v);
  cs_cur : exists i, r_cur s = Some i /\ (i < length (r_st s))%nat /\ beq (sget (r_st s) i) (v_cur v) /\
                     cache_rel (r_st s) i (r_cache s) }.

Lemma sget_sset_same (st : store) (i : nat) (b : block) : (i < length st)%nat -> sget (sset st i b) i = b.
Proof.
  unfold sget, sset. revert i. induction st as [|x st IH]; intros i Hi; [simpl in Hi; lia|].
  destruct i; simpl; [reflexivity|]. apply IH. simpl in Hi. lia.
Qed.

Lemma sget_sset_other (st : store) (i j : nat) (b : block) : i <> j -> sget (sset st i b) j = sget st j.
Proof.
  unfold sget, sset. revert i j. induction st as [|x st IH]; intros i j Hij; [destruct i; reflexivity|].
  destruct i, j; simpl; try reflexivity; try lia. apply IH. lia.
Qed.

Lemma sset_length (st : store) (i : nat) (b : block) : length (sset st i b) = length st.
Proof.
  unfold sset. revert i. induction st as [|x st IH]; intros i; [destruct i; reflexivity|].
  destruct i; simpl; [reflexivity|]. rewrite IH. reflexivity.
Qed.

Lemma sget_app_old (st : store) (b : block) (j : nat) : (j < length st)%nat -> sget (st ++ [b]) j = sget st j.
Proof. intros. unfold sget. apply app_nth1. exact H. Qed.

Lemma entry_of_bid (st : store) (c : cstate) (bid : nat) (kb : Z) :
  cache_ok F st c -> In bid (bids c) -> good F (sget st bid) kb -> In (kb, bid) (c_entries c).
Proof.
  intros Hok Hin Hg. unfold bids in Hin. apply in_map_iff in Hin. destruct Hin as ([k' b'] & E & Hin). simpl in E. subst b'.
  destruct (co_good _ _ _ Hok k' bid Hin) as [_ Hg'].
  destruct Hg as (_ & _ & _ & _ & _ & B1 & _). destruct Hg' as (_ & _ & _ & _ & _ & B2 & _). congruence.
Qed.

Lemma entries_same_bid (st : store) (c : cstate) (k k' : Z) (bid : nat) :
  cache_ok F st c -> In (k, bid) (c_entries c) -> In (k', bid) (c_entries c) -> k = k'.
Proof.
  intros Hok H1 H2. destruct (co_good _ _ _ Hok _ _ H1) as [_ (_ & _ & _ & _ & _ & B1 & _)].
  destruct (co_good _ _ _ Hok _ _ H2) as [_ (_ & _ & _ & _ & _ & B2 & _)]. congruence.
Qed.

Lemma good_seek0 {b k} o : good F b k -> good F (b_seek b o) k.
Proof. intros (pre & m & post & H). exists pre, m, post. exact H. Qed.

(** cacheSwap for a key that is not the current block's, on a reader whose
    current block (if it has data) is good. *)
Lemma cacheSwap_sim (s : rstate) (v : vstate) (k : Z) :
  csr s v -> (b_has (v_cur v) = true -> b_base (v_cur v) <> k) -> 0 <= k ->
  (exists s', r_cacheSwap s k = Ok (s', true) /\
     csr s' (set_cur v (fst (b_fill F (v_cur v) k))) /\ snd (b_fill F (v_cur v) k) = eNil)
  \/
  (exists s', r_cacheSwap s k = Ok (s', false) /\
     r_err s' = r_err s /\ r_lc s' = r_lc s /\ r_blocked s' = r_blocked s /\
     (length (r_st s) <= length (r_st s'))%nat /\
     match r_cache s' with
     | None => r_cur s' = r_cur s /\ r_st s' = r_st s
     | Some c' => cache_ok F (r_st s') c' /\ (forall bid, ~ In (k, bid) (c_entries c')) /\ r_st s' = r_st s /\
                  ((r_cur s' = r_cur s /\ (forall i, r_cur s = Some i -> ~ In i (bids c'))) \/ r_cur s' = None)
     end).
Proof.
  intros [He Hlc Hbl Hvg (i & Hci & Hil & Hbeq & Hcr)] Hne Hk.
  unfold r_cacheSwap. destruct (r_cache s) as [c|] eqn:Hc.
  2:{ right. exists s. split; [reflexivity|]. rewrite Hc. auto 10. }
  simpl in Hcr. destruct Hcr as [Hok Hnin].
  assert (Hgcur : b_has (sget (r_st s) i) = true -> good F (sget (r_st s) i) (b_base (v_cur v))).
  { intros Hh. destruct Hbeq as (B1 & B2 & B3 & B4 & B5 & B6).
    assert (Hhv : b_has (v_cur v) = true) by congruence.
    apply (good_beq (Hvg Hhv)). unfold beq. repeat split; congruence. }
  assert (Hpre : forall c0, c_kind c0 = c_kind c -> (forall e, In e (c_entries c0) -> In e (c_entries c)) ->
                 ~ In i (bids c0) \/ c_kind c0 = KFIFO).
  { intros c0 Hk0 Hsub0. destruct (ckind_eq_dec (c_kind c) KFIFO) as [Ef|Nf]; [right; congruence|].
    left. intros Hx. apply (Hnin Nf). unfold bids in *. apply in_map_iff in Hx. destruct Hx as (e & E1 & E2).
    apply in_map_iff. exists e. split; [exact E1|apply Hsub0; exact E2]. }
  pose proof (HGet (r_st s) c k Hok) as HG.
  destruct (c_get (r_st s) c k) as [[c1 [bid|]]| | |] eqn:Hget; try contradiction.
  - (* hit *)
    left. destruct HG as (Hin & Hok1 & Hkind1 & Hsub & Hrem).
    destruct (co_good _ _ _ Hok k bid Hin) as [Hbl1 Hgood].
    pose proof Hgood as (pre & m & post & S & Hmk & G1 & G2 & G3 & G4).
    rewrite G4. simpl negb. cbv iota.
    assert (Hbi : bid <> i).
    { intros ->. destruct Hbeq as (B1 & _ & _ & _ & _ & B6). apply Hne; congruence. }
    set (st1 := sset (r_st s) bid (b_seek (sget (r_st s) bid) 0)).
    assert (Hok1' : cache_ok F st1 c1).
    { apply (frame_holds F (r_st s) st1 c1 Hok1); [unfold st1; rewrite sset_length; lia|].
      intros b kk Hb Hg. unfold st1. destruct (Nat.eq_dec b bid) as [->|Hnb].
      - rewrite sget_sset_same by exact Hbl1. apply good_seek0. exact Hg.
      - rewrite sget_sset_other by (intros E; subst; congruence). exact Hg. }
    (* cachePut(current) *)
    unfold r_cachePut. simpl r_cur. rewrite Hci. simpl r_st.
    assert (Hsgi : sget st1 i = sget (r_st s) i) by (unfold st1; apply sget_sset_other; exact Hbi).
    rewrite Hsgi.
    assert (Hfill : fetch F k = FOk m) by (rewrite <- Hmk; apply (fetch_at S)).
    assert (Hres : beq (b_seek (sget (r_st s) bid) 0) (fst (b_fill F (v_cur v) k)) /\ snd (b_fill F (v_cur v) k) = eNil).
    { unfold b_fill. rewrite Hfill. simpl. split; [|reflexivity]. unfold beq, b_seek; simpl.
      rewrite G1, G2, G3, G4. repeat split; reflexivity. }
    destruct Hres as [Hres1 Hres2].
    assert (Hvg' : vgood F (fst (b_fill F (v_cur v) k))).
    { destruct (fill_beq F (v_cur v) (v_cur v) k W Hk) as (_ & _ & Hv & _). exact Hv. }
    (* the new current block is not in the cache unless the cache is a FIFO *)
    assert (Hnb1 : c_kind c1 <> KFIFO -> ~ In bid (bids c1)).
    { intros Hkf Hx. unfold bids in Hx. apply in_map_iff in Hx. destruct Hx as ([k' b'] & Hb' & Hin').
      simpl in Hb'. subst b'. pose proof (Hsub _ Hin') as Hin0.
      rewrite (entries_same_bid _ _ _ _ _ Hok Hin0 Hin) in Hin'.
      apply (Hrem ltac:(congruence) _ Hin'). reflexivity. }
    destruct (b_has (sget (r_st s) i)) eqn:Hhas.
    + simpl negb. cbv iota.
      assert (Hgi : good F (sget st1 i) (b_base (v_cur v))) by (rewrite Hsgi; apply Hgcur; reflexivity).
      pose proof (HPut st1 c1 i (b_base (v_cur v)) Hok1' ltac:(unfold st1; rewrite sset_length; exact Hil) Hgi (Hpre c1 Hkind1 Hsub)) as HP.
      destruct (c_put st1 c1 i) as [[[c2 back] ret]| | |]; try contradiction.
      eexists. split; [reflexivity|]. split; [|exact Hres2].
      constructor; simpl; auto.
      exists bid. split; [reflexivity|]. split; [unfold st1; rewrite sset_length; exact Hbl1|].
      split; [unfold st1; rewrite sget_sset_same by exact Hbl1; exact Hres1|].
      destruct ret.
      * destruct HP as (Hni & Hok2 & Hk2 & Hsub2). split; [exact Hok2|].
        intros Hkf Hx. unfold bids in Hx. apply in_map_iff in Hx. destruct Hx as ([k' b'] & Hb' & Hin').
        simpl in Hb'. subst b'. destruct (Hsub2 _ Hin') as [E|I2].
        -- inversion E. congruence.
        --            apply (Hnb1 ltac:(congruence)). unfold bids. apply in_map_iff. exists (k', bid). auto.
      * destruct HP as [-> _]. split; [exact Hok1'|exact Hnb1].
    + simpl negb. cbv iota.
      eexists. split; [reflexivity|]. split; [|exact Hres2].
      constructor; simpl; auto.
      exists bid. split; [reflexivity|]. split; [unfold st1; rewrite sset_length; exact Hbl1|].
      split; [unfold st1; rewrite sget_sset_same by exact Hbl1; exact Hres1|].
      split; [exact Hok1'|exact Hnb1].
  - (* miss *)
    right. destruct HG as [-> Hmiss].
    unfold r_cachePut. rewrite Hci.
    destruct (b_has (sget (r_st s) i)) eqn:Hhas.
    + simpl negb. cbv iota.
      assert (Hhv : b_has (v_cur v) = true) by (destruct Hbeq as (_ & _ & _ & _ & _ & B6); congruence).
      pose proof (HPut (r_st s) c i (b_base (v_cur v)) Hok Hil (Hgcur eq_refl) (Hpre c eq_refl ltac:(auto))) as HP.
      destruct (c_put (r_st s) c i) as [[[c2 back] ret]| | |]; try contradiction.
      eexists. split; [reflexivity|]. simpl.
      split; [reflexivity|]. split; [reflexivity|]. split; [reflexivity|]. split; [lia|].
      destruct ret.
      * destruct HP as (_ & Hok2 & _ & Hsub2). split; [exact Hok2|]. split.
        -- intros b Hx. destruct (Hsub2 _ Hx) as [E|I2]; [inversion E; specialize (Hne Hhv); congruence|exact (Hmiss _ I2)].
        -- split; [reflexivity|]. right. reflexivity.
      * destruct HP as [-> [[-> Hni]|[-> Hi]]]; (split; [exact Hok|]); (split; [exact Hmiss|]); (split; [reflexivity|]).
        -- left. split; [reflexivity|]. intros i' Hi'. inversion Hi'; subst. exact Hni.
        -- right. reflexivity.
    + simpl negb. cbv iota.
      eexists. split; [reflexivity|]. simpl.
      split; [reflexivity|]. split; [reflexivity|]. split; [reflexivity|]. split; [lia|].
      split; [exact Hok|]. split; [exact Hmiss|]. split; [reflexivity|]. left.
      split; [reflexivity|]. intros i' Hi'. inversion Hi'; subst.
      (* a block without data is not in the cache *)
      intros Hx. unfold bids in Hx. apply in_map_iff in Hx. destruct Hx as ([k' b'] & E & Hin'). simpl in E. subst b'.
      destruct (co_good _ _ _ Hok _ _ Hin') as [_ (_ & _ & _ & _ & _ & _ & _ & _ & Hh)]. congruence.
Qed.

Definition swapfetch (s : rstate) (k : Z) : outcome (rstate * Z) :=
  match r_cacheSwap s k with
  | Ok (s1, true) => Ok (s1, eNil)
  | Ok (s1, false) => r_fetch F s1 k
  | Err e => Err e | Panic w => Panic w | Stuck => Stuck
  end.

Lemma bids_lt (st : store) (c : cstate) : cache_ok F st c -> forall b, In b (bids c) -> (b < length st)%nat.
Proof.
  intros Hok b Hb. unfold bids in Hb. apply in_map_iff in Hb. destruct Hb as ([k b'] & E & Hin). simpl in E. subst b'.
  apply (co_good _ _ _ Hok k b Hin).
Qed.

Lemma swapfetch_sim (s : rstate) (v : vstate) (k : Z) :
  csr s v -> (b_has (v_cur v) = true -> b_base (v_cur v) <> k) -> 0 <= k ->
  exists s2, swapfetch s k = Ok (s2, snd (b_fill F (v_cur v) k)) /\ csr s2 (set_cur v (fst (b_fill F (v_cur v) k))).
Proof.
  intros Hcs Hne Hk. unfold swapfetch.
  destruct (cacheSwap_sim s v k Hcs Hne Hk) as [(s1 & Hsw & Hcs1 & He)|(s1 & Hsw & E1 & E2 & E3 & Hlen & Hcache)].
  - rewrite Hsw, He. exists s1. split; [reflexivity|exact Hcs1].
  - rewrite Hsw. destruct Hcs as [He Hlc Hbl Hvg (i & Hci & Hil & Hbeq & Hcr)].
    unfold r_fetch.
    assert (Hpk : r_peekchain (S (length (match r_cache s1 with Some c => c_table c | None => [] end))) s1 k = Ok k).
    { simpl. destruct (r_cache s1) as [c'|]; [|reflexivity].
      destruct Hcache as (Hok' & Hmiss & _). rewrite (HPeek (r_st s1) c' k Hmiss). reflexivity. }
    rewrite Hpk.
    destruct (fill_beq F (v_cur v) (v_cur v) k W Hk) as (_ & _ & Hvg' & _).
    destruct (r_cache s1) as [c'|] eqn:Hc1.
    + destruct Hcache as (Hok' & Hmiss & Hst & [[Hcur Hnin]|Hcur]).
      * (* the current block is reused *)
        rewrite Hcur, Hci. rewrite Hst.
        destruct (fill_beq F (sget (r_st s) i) (v_cur v) k W Hk) as (Hb & Hs & _).
        destruct (b_fill F (sget (r_st s) i) k) as [b e] eqn:Hf. simpl in Hb, Hs. rewrite <- Hs.
        eexists. split; [reflexivity|].
        constructor; simpl; try congruence; auto.
        exists i. split; [reflexivity|]. rewrite sset_length. split; [exact Hil|].
        rewrite sget_sset_same by exact Hil. split; [exact Hb|].
        rewrite Hc1. simpl. split.
        -- apply (frame_same F (r_st s) _ c'); [rewrite <- Hst; exact Hok'|rewrite sset_length; lia|].
           intros b0 Hb0. apply sget_sset_other. intros E. subst b0. exact (Hnin i Hci Hb0).
        -- intros _. exact (Hnin i Hci).
      * (* the current block went into the cache: a new block *)
        rewrite Hcur. rewrite Hst.
        destruct (fill_beq F (sget (r_st s ++ [b_new]) (length (r_st s))) (v_cur v) k W Hk) as (Hb & Hs & _).
        destruct (b_fill F (sget (r_st s ++ [b_new]) (length (r_st s))) k) as [b e] eqn:Hf. simpl in Hb, Hs. rewrite <- Hs.
        eexists. split; [reflexivity|].
        assert (Hl2 : (length (r_st s) < length (r_st s ++ [b_new]))%nat) by (rewrite app_length; simpl; lia).
        assert (Hfresh : ~ In (length (r_st s)) (bids c')).
        { intros Hx. rewrite <- Hst in Hx at 1. pose proof (bids_lt _ _ Hok' _ Hx). rewrite Hst in H. lia. }
        constructor; simpl; try congruence; auto.
        exists (length (r_st s)). split; [reflexivity|]. rewrite sset_length. split; [exact Hl2|].
        rewrite sget_sset_same by exact Hl2. split; [exact Hb|].
        rewrite Hc1. simpl. split; [|intros _; exact Hfresh].
        apply (frame_same F (r_st s) _ c'); [rewrite <- Hst; exact Hok'|rewrite sset_length, app_length; simpl; lia|].
        intros b0 Hb0. rewrite sget_sset_other by (intros E; subst b0; contradiction).
        apply sget_app_old. rewrite <- Hst. apply (bids_lt _ _ Hok' _ Hb0).
    + destruct Hcache as [Hcur Hst]. rewrite Hcur, Hci, Hst.
      destruct (fill_beq F (sget (r_st s) i) (v_cur v) k W Hk) as (Hb & Hs & _).
      destruct (b_fill F (sget (r_st s) i) k) as [b e] eqn:Hf. simpl in Hb, Hs. rewrite <- Hs.
      eexists. split; [reflexivity|].
      constructor; simpl; try congruence; auto.
      exists i. split; [reflexivity|]. rewrite sset_length. split; [exact Hil|].
      rewrite sget_sset_same by exact Hil. split; [exact Hb|]. rewrite Hc1. exact I.
Qed.

Lemma nextBlock_sim (s : rstate) (v : vstate) :
  csr s v -> b_has (v_cur v) = true ->
  exists s', r_nextBlock F s = Ok (s', snd (v_nextBlock F v)) /\ csr s' (fst (v_nextBlock F v)).
Proof.
  intros Hcs Hhas. pose proof Hcs as [He Hlc Hbl Hvg (i & Hci & Hil & Hbeq & Hcr)].
  unfold r_nextBlock, with_cur. rewrite Hci.
  assert (Hnx : b_next (sget (r_st s) i) = b_next (v_cur v)).
  { destruct Hbeq as (B1 & B2 & _). unfold b_next. rewrite B1, B2. reflexivity. }
  rewrite Hnx. destruct (good_next (Hvg Hhas)) as [Hne Hk].
  destruct (swapfetch_sim s v (b_next (v_cur v)) Hcs ltac:(intros _; congruence) Hk) as (s2 & Hsf & Hcs2).
  unfold swapfetch in Hsf. unfold v_nextBlock.
  destruct (b_fill F (v_cur v) (b_next (v_cur v))) as [b e]. simpl in *.
  exists s2. split; [exact Hsf|exact Hcs2].
Qed.


(** b_read / b_readbyte / b_seek respect [beq] and keep a good block good. *)
Lemma beq_read {b b'} (n : Z) : beq b b' ->
  beq (fst (fst (b_read b n))) (fst (fst (b_read b' n))) /\ snd (fst (b_read b n)) = snd (fst (b_read b' n)) /\
  snd (b_read b n) = snd (b_read b' n).
Proof.
  intros (B1 & B2 & B3 & B4 & B5 & B6). unfold b_read. rewrite B3, B4.
  destruct (zlen (b_data b') <=? b_pos b'); simpl.
  - split; [unfold beq; auto 10|]. split; reflexivity.
  - split; [unfold beq; simpl; rewrite B1, B2, B5, B6; auto 10|]. split; reflexivity.
Qed.

Lemma beq_readbyte {b b'} : beq b b' ->
  beq (fst (fst (b_readbyte b))) (fst (fst (b_readbyte b'))) /\ snd (fst (b_readbyte b)) = snd (fst (b_readbyte b')) /\
  snd (b_readbyte b) = snd (b_readbyte b').
Proof.
  intros (B1 & B2 & B3 & B4 & B5 & B6). unfold b_readbyte. rewrite B3, B4.
  destruct (zlen (b_data b') <=? b_pos b'); simpl.
  - split; [unfold beq; auto 10|]. split; reflexivity.
  - split; [unfold beq; simpl; rewrite B1, B2, B5, B6; auto 10|]. split; reflexivity.
Qed.

Lemma vgood_read {b} (n : Z) : vgood F b -> vgood F (fst (fst (b_read b n))).
Proof.
  intros Hv. unfold b_read. destruct (zlen (b_data b) <=? b_pos b); simpl; [exact Hv|].
  intros Hh. simpl in Hh. destruct (Hv Hh) as (pre & m & post & H). exists pre, m, post. exact H.
Qed.

Lemma vgood_readbyte {b} : vgood F b -> vgood F (fst (fst (b_readbyte b))).
Proof.
  intros Hv. unfold b_readbyte. destruct (zlen (b_data b) <=? b_pos b); simpl; [exact Hv|].
  intros Hh. simpl in Hh. destruct (Hv Hh) as (pre & m & post & H). exists pre, m, post. exact H.
Qed.

Lemma has_read {b} (n : Z) : b_has (fst (fst (b_read b n))) = b_has b.
Proof. unfold b_read. destruct (zlen (b_data b) <=? b_pos b); reflexivity. Qed.

Lemma has_readbyte {b} : b_has (fst (fst (b_readbyte b))) = b_has b.
Proof. unfold b_readbyte. destruct (zlen (b_data b) <=? b_pos b); reflexivity. Qed.

Lemma beq_len {b b'} : beq b b' -> b_len b = b_len b'.
Proof. intros (B1 & B2 & B3 & B4 & B5 & B6). unfold b_len. rewrite B3, B4, B6. reflexivity. Qed.

Lemma beq_tx {b b'} : beq b b' -> b_tx b = b_tx b'.
Proof. intros (B1 & B2 & B3 & B4 & B5 & B6). unfold b_tx. rewrite B1, B5. reflexivity. Qed.

(** Replacing the current block by an equal one that stays the same member block. *)
Definition keeps_good (b0 b : block) : Prop := forall k, good F b0 k -> good F b k.

Lemma csr_set_cur (s : rstate) (v : vstate) (i : nat) (b bv : block) :
  csr s v -> r_cur s = Some i -> beq b bv -> vgood F bv -> keeps_good (sget (r_st s) i) b ->
  csr (rs_st s (sset (r_st s) i b)) (set_cur v bv).
Proof.
  intros [He Hlc Hbl Hvg (i' & Hci & Hil & Hbeq & Hcr)] Hi Hb Hv Hkg.
  rewrite Hi in Hci. inversion Hci; subst i'.
  constructor; simpl; auto.
  exists i. split; [exact Hi|]. rewrite sset_length. split; [exact Hil|].
  rewrite sget_sset_same by exact Hil. split; [exact Hb|].
  destruct (r_cache s) as [c|]; [|exact I]. destruct Hcr as [Hok Hnin]. split; [|exact Hnin].
  apply (frame_holds F (r_st s) _ c Hok); [rewrite sset_length; lia|].
  intros b0 k Hin Hg. destruct (Nat.eq_dec b0 i) as [->|Hne].
  - rewrite sget_sset_same by exact Hil. apply Hkg. exact Hg.
  - rewrite sget_sset_other by (intros E; subst; congruence). exact Hg.
Qed.

Lemma keeps_read (b : block) (n : Z) : keeps_good b (fst (fst (b_read b n))).
Proof.
  intros k (pre & m & post & H). unfold b_read. destruct (zlen (b_data b) <=? b_pos b); simpl; exists pre, m, post; exact H.
Qed.

Lemma keeps_readbyte (b : block) : keeps_good b (fst (fst (b_readbyte b))).
Proof.
  intros k (pre & m & post & H). unfold b_readbyte. destruct (zlen (b_data b) <=? b_pos b); simpl; exists pre, m, post; exact H.
Qed.

Lemma keeps_seek (b : block) (o : Z) : keeps_good b (b_seek b o).
Proof. intros k (pre & m & post & H). exists pre, m, post. exact H. Qed.

Lemma csr_cur_tx (s : rstate) (v : vstate) : csr s v -> cur_tx s = b_tx (v_cur v).
Proof.
  intros [_ _ _ _ (i & Hci & _ & Hbeq & _)]. unfold cur_tx. rewrite Hci. apply (beq_tx Hbeq).
Qed.

Lemma csr_misc (s : rstate) (v : vstate) (e : Z) (l : chunk) :
  csr s v -> csr (rs_lc (rs_err s e) l) (set_lc (set_err v e) l).
Proof. intros [He Hlc Hbl Hvg Hc]. constructor; simpl; auto. Qed.

Lemma csr_err (s : rstate) (v : vstate) (e : Z) : csr s v -> csr (rs_err s e) (set_err v e).
Proof. intros [He Hlc Hbl Hvg Hc]. constructor; simpl; auto. Qed.

Lemma csr_end (s : rstate) (v : vstate) (o : voff) : csr s v -> csr (rs_end s o) (set_end v o).
Proof. intros [He Hlc Hbl Hvg Hc]. constructor; simpl; auto. rewrite Hlc. reflexivity. Qed.

Lemma csr_begin (s : rstate) (v : vstate) (o : voff) : csr s v -> csr (rs_begin s o) (set_begin v o).
Proof. intros [He Hlc Hbl Hvg Hc]. constructor; simpl; auto. rewrite Hlc. reflexivity. Qed.

(** The loop that skips exhausted blocks. *)
Lemma skip_sim : forall fuel s v x, csr s v -> b_has (v_cur v) = true ->
  v_skip F fuel v = Ok x -> forall fuel', (fuel <= fuel')%nat ->
  exists s', r_skip F fuel' s = Ok (s', snd x) /\ csr s' (fst x) /\ (snd x = eNil -> b_has (v_cur (fst x)) = true) /\
             (snd x <> eNil -> v_err (fst x) = snd x).
Proof.
  induction fuel as [|fuel IH]; intros s v x Hcs Hhas Hv fuel' Hle.
  - pose proof Hcs as [_ _ _ _ (i & Hci & _ & Hbeq & _)].
    simpl in Hv. destruct (b_len (v_cur v) =? 0) eqn:E; [discriminate|]. inversion Hv; subst.
    exists s. destruct fuel'; simpl; unfold with_cur; rewrite Hci, (beq_len Hbeq), E; (split; [reflexivity|]); (split; [exact Hcs|]); (split; [intros _; exact Hhas|intros H0; contradiction]).
  - pose proof Hcs as [_ _ _ _ (i & Hci & _ & Hbeq & _)].
    simpl in Hv. destruct (b_len (v_cur v) =? 0) eqn:E.
    + destruct fuel' as [|fuel']; [lia|]. simpl. unfold with_cur. rewrite Hci, (beq_len Hbeq), E.
      destruct (nextBlock_sim s v Hcs Hhas) as (s1 & Hnb & Hcs1). rewrite Hnb.
      destruct (v_nextBlock F v) as [v1 e] eqn:Hvn. simpl in *.
      destruct (e =? eNil) eqn:Ee.
      * apply Z.eqb_eq in Ee. subst e.
        assert (Hh1 : b_has (v_cur v1) = true).
        { unfold v_nextBlock in Hvn. destruct (good_next ((cs_vgood _ _ Hcs) Hhas)) as [_ Hk].
          destruct (fill_beq F (v_cur v) (v_cur v) (b_next (v_cur v)) W Hk) as (_ & _ & _ & _ & Hh).
          destruct (b_fill F (v_cur v) (b_next (v_cur v))) as [b e']. inversion Hvn; subst. simpl in *. apply Hh. reflexivity. }
        apply (IH s1 v1 x Hcs1 Hh1 Hv fuel'). lia.
      * inversion Hv; subst. simpl. exists (rs_err s1 e). split; [reflexivity|]. split; [apply csr_err; exact Hcs1|].
        split; [intros ->; discriminate|intros _; reflexivity].
    + inversion Hv; subst. exists s. destruct fuel'; simpl; unfold with_cur; rewrite Hci, (beq_len Hbeq), E; (split; [reflexivity|]); (split; [exact Hcs|]); (split; [intros _; exact Hhas|intros H0; contradiction]).
Qed.


(** The copy loop. *)
Lemma copy_sim (n : Z) : forall fuel s v acc x, csr s v -> b_has (v_cur v) = true ->
  v_copy F fuel v n acc = Ok x -> forall fuel', (fuel <= fuel')%nat ->
  exists s', r_copy F fuel' s n acc = Ok (s', snd (fst x), snd x) /\ csr s' (fst (fst x)) /\
             (v_err (fst (fst x)) = eNil -> b_has (v_cur (fst (fst x))) = true).
Proof.
  induction fuel as [|fuel IH]; intros s v acc x Hcs Hhas Hv fuel' Hle.
  - simpl in Hv. destruct (zlen acc <? n) eqn:E; [discriminate|]. inversion Hv; subst. simpl.
    exists (rs_end (rs_err s eNil) (cur_tx s)).
    split; [destruct fuel'; simpl; rewrite E; reflexivity|].
    split; [rewrite (csr_cur_tx s v Hcs); apply csr_end; apply csr_err; exact Hcs|]. intros _. exact Hhas.
  - simpl in Hv. destruct (zlen acc <? n) eqn:E.
    2:{ inversion Hv; subst. simpl. exists (rs_end (rs_err s eNil) (cur_tx s)).
        split; [destruct fuel'; simpl; rewrite E; reflexivity|].
        split; [rewrite (csr_cur_tx s v Hcs); apply csr_end; apply csr_err; exact Hcs|]. intros _. exact Hhas. }
    destruct fuel' as [|fuel']; [lia|]. simpl. rewrite E.
    pose proof Hcs as [_ _ Hbl Hvg (i & Hci & Hil & Hbeq & _)].
    unfold with_cur. rewrite Hci.
    destruct (beq_read (n - zlen acc) Hbeq) as (Hb1 & Hb2 & Hb3).
    pose proof (keeps_read (sget (r_st s) i) (n - zlen acc)) as Hkg.
    pose proof (vgood_read (n - zlen acc) Hvg) as Hvg1.
    pose proof (@has_read (v_cur v) (n - zlen acc)) as Hh1.
    destruct (b_read (v_cur v) (n - zlen acc)) as [[bv bsv] ev].
    destruct (b_read (sget (r_st s) i) (n - zlen acc)) as [[br bsr] er].
    simpl in Hb1, Hb2, Hb3, Hvg1, Hh1, Hkg. subst bsr er.
    assert (Hcs1 : csr (rs_st s (sset (r_st s) i br)) (set_cur v bv)) by (apply csr_set_cur; assumption).
    assert (Hhas1 : b_has (v_cur (set_cur v bv)) = true) by (simpl; congruence).
    destruct (ev =? eEOF).
    + destruct (zlen (acc ++ bsv) =? n).
      * inversion Hv; subst. simpl. eexists. split; [reflexivity|]. rewrite (beq_tx Hb1).
        split; [apply csr_end; apply csr_err; exact Hcs1|]. intros _. exact Hhas1.
      * rewrite Hbl. destruct (v_blocked v).
        -- inversion Hv; subst. simpl. eexists. split; [reflexivity|]. rewrite (beq_tx Hb1).
           split; [apply csr_end; apply csr_err; exact Hcs1|]. intros _. exact Hhas1.
        -- destruct (nextBlock_sim _ _ Hcs1 Hhas1) as (s2 & Hnb & Hcs2). rewrite Hnb.
           destruct (v_nextBlock F (set_cur v bv)) as [v2 e2] eqn:Hvn. simpl in *.
           destruct (e2 =? eNil) eqn:Ee.
           ++ apply Z.eqb_eq in Ee. subst e2.
              assert (Hh2 : b_has (v_cur v2) = true).
              { unfold v_nextBlock in Hvn. simpl in Hvn.
                assert (Hgb : good F bv (b_base bv)) by (apply Hvg1; congruence).
                destruct (good_next Hgb) as [_ Hk].
                destruct (fill_beq F bv bv (b_next bv) W Hk) as (_ & _ & _ & _ & Hh).
                destruct (b_fill F bv (b_next bv)) as [b e']. inversion Hvn; subst. simpl in *. apply Hh. reflexivity. }
              apply (IH s2 v2 (acc ++ bsv) x Hcs2 Hh2 Hv fuel'). lia.
           ++ inversion Hv; subst. simpl. eexists. split; [reflexivity|].
              rewrite (csr_cur_tx s2 v2 Hcs2). split; [apply csr_end; apply csr_err; exact Hcs2|].
              intros He. simpl in He. subst e2. discriminate.
    + apply (IH _ _ (acc ++ bsv) x Hcs1 Hhas1 Hv fuel'). lia.
Qed.

Lemma read_sim_c (s : rstate) (v : vstate) (n : Z) (x : vstate * list Z * Z) :
  csr s v -> (v_err v = eNil -> b_has (v_cur v) = true) -> v_read F v n = Ok x ->
  exists s', r_read F s n = Ok (s', snd (fst x), snd x) /\ csr s' (fst (fst x)) /\
             (v_err (fst (fst x)) = eNil -> b_has (v_cur (fst (fst x))) = true).
Proof.
  intros Hcs Hnh Hv. unfold v_read in Hv. unfold r_read. rewrite (cs_err _ _ Hcs).
  destruct (v_err v =? eNil) eqn:Ee; simpl negb in *; cbv iota in *.
  2:{ inversion Hv; subst. simpl. exists s. split; [reflexivity|]. split; [exact Hcs|exact Hnh]. }
  apply Z.eqb_eq in Ee. specialize (Hnh Ee).
  destruct (v_skip F (S (length F)) v) as [[v1 e1]| | |] eqn:Hsk; try discriminate.
  destruct (skip_sim _ s v _ Hcs Hnh Hsk (r_fuel F s) ltac:(unfold r_fuel; lia)) as (s1 & Hrs & Hcs1 & Hh1 & He1).
  rewrite Hrs. simpl in *.
  destruct (e1 =? eNil) eqn:E1; simpl negb in *; cbv iota in *.
  2:{ inversion Hv; subst. simpl. exists s1. split; [reflexivity|]. split; [exact Hcs1|].
      intros He. apply Z.eqb_neq in E1. rewrite (He1 E1) in He. contradiction. }
  apply Z.eqb_eq in E1. subst e1. specialize (Hh1 eq_refl).
  rewrite (csr_cur_tx s1 v1 Hcs1).
  destruct (copy_sim n _ (rs_begin s1 (b_tx (v_cur v1))) (set_begin v1 (b_tx (v_cur v1))) [] x
              (csr_begin _ _ _ Hcs1) Hh1 Hv (r_fuel F s + Z.to_nat n)%nat ltac:(unfold r_fuel, fuel_of; lia))
    as (s' & Hrc & Hcs' & Hh').
  exists s'. split; [exact Hrc|]. split; [exact Hcs'|exact Hh'].
Qed.


Lemma readbyte_sim_c (s : rstate) (v : vstate) (x : vstate * list Z * Z) :
  csr s v -> (v_err v = eNil -> b_has (v_cur v) = true) -> v_readbyte F v = Ok x ->
  exists s', r_readbyte F s = Ok (s', snd (fst x), snd x) /\ csr s' (fst (fst x)).
Proof.
  intros Hcs Hnh Hv. unfold v_readbyte in Hv. unfold r_readbyte. rewrite (cs_err _ _ Hcs).
  destruct (v_err v =? eNil) eqn:Ee; simpl negb in *; cbv iota in *.
  2:{ inversion Hv; subst. simpl. exists s. split; [reflexivity|exact Hcs]. }
  apply Z.eqb_eq in Ee. specialize (Hnh Ee).
  destruct (v_skip F (S (length F)) v) as [[v1 e1]| | |] eqn:Hsk; try discriminate.
  destruct (skip_sim _ s v _ Hcs Hnh Hsk (r_fuel F s) ltac:(unfold r_fuel; lia)) as (s1 & Hrs & Hcs1 & Hh1 & He1).
  rewrite Hrs. simpl in *.
  destruct (e1 =? eNil) eqn:E1; simpl negb in *; cbv iota in *.
  2:{ inversion Hv; subst. simpl. exists s1. split; [reflexivity|exact Hcs1]. }
  apply Z.eqb_eq in E1. subst e1. specialize (Hh1 eq_refl).
  rewrite (csr_cur_tx s1 v1 Hcs1).
  set (s2 := rs_begin s1 (b_tx (v_cur v1))). set (v2 := set_begin v1 (b_tx (v_cur v1))) in *.
  assert (Hcs2 : csr s2 v2) by (apply csr_begin; exact Hcs1).
  pose proof Hcs2 as [_ _ Hbl Hvg (i & Hci & Hil & Hbeq & _)].
  unfold with_cur. rewrite Hci.
  destruct (beq_readbyte Hbeq) as (Hb1 & Hb2 & Hb3).
  pose proof (keeps_readbyte (sget (r_st s2) i)) as Hkg.
  pose proof (vgood_readbyte Hvg) as Hvg1.
  pose proof (@has_readbyte (v_cur v2)) as Hhb.
  change (v_cur v2) with (v_cur v1) in *.
  destruct (b_readbyte (v_cur v1)) as [[bv bsv] ev].
  destruct (b_readbyte (sget (r_st s2) i)) as [[br bsr] er].
  simpl in Hb1, Hb2, Hb3, Hvg1, Hhb, Hkg. subst bsr er.
  assert (Hcs3 : csr (rs_st s2 (sset (r_st s2) i br)) (set_cur v2 bv)) by (apply csr_set_cur; assumption).
  assert (Hhas3 : b_has (v_cur (set_cur v2 bv)) = true) by (simpl; congruence).
  assert (Hbl1 : r_blocked s1 = v_blocked v1) by exact (cs_bl _ _ Hcs1).
  change (r_st s1) with (r_st s2).
  destruct (ev =? eEOF).
  - rewrite Hbl1.
    change (v_blocked (set_cur v2 bv)) with (v_blocked v1) in Hv.
    destruct (v_blocked v1).
    + inversion Hv; subst. simpl. eexists. split; [reflexivity|]. rewrite (beq_tx Hb1).
      apply csr_end. apply csr_err. exact Hcs3.
    + destruct (nextBlock_sim _ _ Hcs3 Hhas3) as (s4 & Hnb & Hcs4). rewrite Hnb.
      destruct (v_nextBlock F (set_cur v2 bv)) as [v4 e2]. simpl in *.
      inversion Hv; subst. simpl. eexists. split; [reflexivity|].
      rewrite (csr_cur_tx s4 v4 Hcs4). apply csr_end. apply csr_err. exact Hcs4.
  - inversion Hv; subst. simpl. eexists. split; [reflexivity|]. rewrite (beq_tx Hb1).
    apply csr_end. apply csr_err. exact Hcs3.
Qed.

Lemma beq_seek {b b'} (o : Z) : beq b b' -> beq (b_seek b o) (b_seek b' o).
Proof. intros (B1 & B2 & B3 & B4 & B5 & B6). unfold beq, b_seek; simpl. auto 10. Qed.

Lemma vgood_seek {b} (o : Z) : vgood F b -> vgood F (b_seek b o).
Proof. intros Hv Hh. simpl in Hh. destruct (Hv Hh) as (pre & m & post & H). exists pre, m, post. exact H. Qed.

Lemma seek_sim_c (s : rstate) (v : vstate) (f o : Z) :
  csr s v -> 0 <= f ->
  exists s', r_seek F s f o = Ok (s', snd (v_seek F v f o)) /\ csr s' (fst (v_seek F v f o)).
Proof.
  intros Hcs Hf. pose proof Hcs as [He Hlc Hbl Hvg (i & Hci & Hil & Hbeq & Hcr)].
  unfold r_seek, v_seek, with_cur. rewrite Hci.
  pose proof Hbeq as (B1 & _ & _ & _ & _ & B6). rewrite B1, B6.
  set (fin := fun (s1 : rstate) (v1 : vstate) => True).
  destruct (negb (f =? b_base (v_cur v)) || negb (b_has (v_cur v))) eqn:Hre.
  - (* refetch *)
    assert (Hne : b_has (v_cur v) = true -> b_base (v_cur v) <> f).
    { intros Hh. rewrite Hh in Hre. simpl in Hre. rewrite orb_false_r in Hre. apply negb_true_iff in Hre. apply Z.eqb_neq in Hre. lia. }
    destruct (swapfetch_sim s v f Hcs Hne Hf) as (s2 & Hsf & Hcs2).
    destruct (fill_beq F (v_cur v) (v_cur v) f W Hf) as (_ & _ & _ & _ & Hhasf).
    unfold swapfetch in Hsf.
    destruct (b_fill F (v_cur v) f) as [b e] eqn:Hfill. simpl in *.
    destruct (r_cacheSwap s f) as [[s1 [|]]| | |] eqn:Hsw; try discriminate.
    + (* hit *)
      inversion Hsf; subst s2 e. change (negb (eNil =? eNil)) with false. cbv iota.
      pose proof Hcs2 as [_ _ _ Hvg2 (i2 & Hci2 & Hil2 & Hbeq2 & _)]. rewrite Hci2.
      pose proof Hbeq2 as (_ & _ & _ & _ & _ & B62). simpl in B62. rewrite B62, (Hhasf eq_refl). simpl negb. cbv iota.
      eexists. split; [reflexivity|].
      apply (csr_misc _ (set_cur (set_cur v b) (b_seek b o)) eNil ((f, o), (f, o))).
      exact (csr_set_cur s1 (set_cur v b) i2 (b_seek (sget (r_st s1) i2) o) (b_seek b o) Hcs2 Hci2 (beq_seek o Hbeq2) (vgood_seek o Hvg2) (keeps_seek _ o)).
    + (* miss: fetched *)
      rewrite Hsf.
      destruct (e =? eNil) eqn:Ee; simpl negb; cbv iota.
      * apply Z.eqb_eq in Ee. subst e.
        assert (Hcs2' : csr (rs_err s2 eNil) (set_err (set_cur v b) eNil)) by (apply csr_err; exact Hcs2).
        pose proof Hcs2' as [_ _ _ Hvg2 (i2 & Hci2 & Hil2 & Hbeq2 & _)]. simpl r_cur. simpl in Hci2. rewrite Hci2.
        pose proof Hbeq2 as (_ & _ & _ & _ & _ & B62). simpl in B62. simpl r_st. rewrite B62, (Hhasf eq_refl). simpl negb. cbv iota.
        eexists. split; [reflexivity|].
        apply (csr_misc _ (set_cur (set_err (set_cur v b) eNil) (b_seek b o)) eNil ((f, o), (f, o))).
        exact (csr_set_cur (rs_err s2 eNil) (set_err (set_cur v b) eNil) i2 (b_seek (sget (r_st s2) i2) o) (b_seek b o) Hcs2' Hci2 (beq_seek o Hbeq2) (vgood_seek o Hvg2) (keeps_seek _ o)).
      * eexists. split; [reflexivity|]. apply csr_err. exact Hcs2.
  - (* the current block is the one sought *)
    change (negb (eNil =? eNil)) with false. cbv iota. rewrite Hci.
    apply orb_false_iff in Hre. destruct Hre as [_ H2]. apply negb_false_iff in H2.
    rewrite B6, H2. simpl negb. cbv iota.
    eexists. split; [reflexivity|].
    apply (csr_misc _ (set_cur v (b_seek (v_cur v) o)) eNil ((f, o), (f, o))).
    exact (csr_set_cur s v i (b_seek (sget (r_st s) i) o) (b_seek (v_cur v) o) Hcs Hci (beq_seek o Hbeq) (vgood_seek o Hvg) (keeps_seek _ o)).
Qed.


(** ---- histories *)


Lemma sim_nil_has {v f} : sim F v f -> v_err v = eNil -> b_has (v_cur v) = true.
Proof.
  intros [_ _ _ _ Hst] He. destruct Hst as [[_ (_ & pre & m & post & _ & On & _)]|[_ [H _]]].
  - destruct On as (_ & _ & _ & H & _). exact H.
  - rewrite He in H. discriminate.
Qed.

Lemma valid_off_nonneg (f b : Z) : valid_off F f b = true -> 0 <= f.
Proof.
  intros Hv. destruct (valid_off_split F f b W Hv) as (pre & m & post & S & Hb & _). subst f. apply (split_base_nonneg S).
Qed.

Lemma csr_blen (s : rstate) (v : vstate) : csr s v -> r_blen s = b_len (v_cur v).
Proof. intros [_ _ _ _ (i & Hci & _ & Hbeq & _)]. unfold r_blen. rewrite Hci. apply (beq_len Hbeq). Qed.

Lemma empty_cache_ok (st : store) (k : ckind) (cap : Z) (ch : list nat) :
  1 <= cap -> cache_ok F st (c_empty k cap ch).
Proof.
  intros Hc. constructor; simpl; auto.
  - unfold c_entries. simpl. destruct k; constructor.
  - unfold bids, c_entries. simpl. destruct k; constructor.
  - unfold c_entries. simpl. destruct k; intros ? ? [].
  - intros _. unfold lru_ok. simpl. repeat split; try constructor; intros; try contradiction; tauto.
Qed.

Lemma step_c (ch : list nat) (s : rstate) (v : vstate) (f : fstate) (o : rop) :
  csr s v -> sim F v f -> valid_op F o ->
  exists s' v' r, v_step F v o = Ok (v', r) /\ r_step F ch s o = Ok (s', r) /\ csr s' v' /\ sim F v' (fst (flat_step F f o)).
Proof.
  intros Hcs Hsim Hv.
  destruct (step_sim F v f o W Hsim Hv) as (v' & r & Hvs & _ & Hsim').
  destruct o as [fo bo|n| |b| |k cap]; simpl in Hvs |- *.
  - destruct (seek_sim_c s v fo bo Hcs (valid_off_nonneg fo bo Hv)) as (s' & Hrs & Hcs').
    destruct (v_seek F v fo bo) as [v1 e] eqn:Hk. inversion Hvs; subst. simpl in *. rewrite Hrs.
    eexists _, _, _. split; [reflexivity|]. split; [reflexivity|]. split; assumption.
  - destruct (v_read F v n) as [[[v1 bs] e]| | |] eqn:Hr; try discriminate. inversion Hvs; subst.
    destruct (read_sim_c s v n _ Hcs (sim_nil_has Hsim) Hr) as (s' & Hrs & Hcs' & _). simpl in *. rewrite Hrs.
    eexists _, _, _. split; [reflexivity|]. split; [reflexivity|]. split; assumption.
  - destruct (v_readbyte F v) as [[[v1 bs] e]| | |] eqn:Hr; try discriminate. inversion Hvs; subst.
    destruct (readbyte_sim_c s v _ Hcs (sim_nil_has Hsim) Hr) as (s' & Hrs & Hcs'). simpl in *. rewrite Hrs.
    eexists _, _, _. split; [reflexivity|]. split; [reflexivity|]. split; assumption.
  - inversion Hvs; subst. eexists _, _, _. split; [reflexivity|]. split; [reflexivity|]. split; [|exact Hsim'].
    destruct Hcs as [He Hlc Hbl Hvg Hc]. constructor; simpl; auto.
  - rewrite (cs_lc _ _ Hcs). destruct (fst (v_lc v)) as [fo bo] eqn:Hlc.
    pose proof (sim_begin_valid _ _ _ Hsim) as Hbv. rewrite Hlc in Hbv. simpl in Hbv.
    destruct (seek_sim_c s v fo bo Hcs (valid_off_nonneg fo bo Hbv)) as (s' & Hrs & Hcs').
    destruct (v_seek F v fo bo) as [v1 e] eqn:Hk. inversion Hvs; subst. simpl in *. rewrite Hrs.
    eexists _, _, _. split; [reflexivity|]. split; [reflexivity|]. split; assumption.
  - inversion Hvs; subst. eexists _, _, _. split; [reflexivity|]. split; [reflexivity|]. split; [|exact Hsim'].
    destruct Hcs as [He Hlc Hbl Hvg (i & Hci & Hil & Hbeq & Hcr)]. constructor; simpl; auto.
    exists i. split; [exact Hci|]. split; [exact Hil|]. split; [exact Hbeq|].
    destruct (Z.ltb_spec cap 1); simpl; [exact I|].
    split; [apply empty_cache_ok; lia|]. intros _.
    unfold bids, c_entries. simpl. destruct k; simpl; tauto.
Qed.

Lemma run_c (ch : list nat) : forall ops s v f,
  csr s v -> sim F v f -> Forall (valid_op F) ops ->
  r_run F ch s ops = v_run F v ops.
Proof.
  induction ops as [|o ops IH]; intros s v f Hcs Hsim Hv; [reflexivity|].
  inversion Hv; subst.
  destruct (step_c ch s v f o Hcs Hsim H1) as (s' & v' & r & Hvs & Hrs & Hcs' & Hsim').
  simpl. rewrite Hvs, Hrs. rewrite (IH s' v' _ Hcs' Hsim' H2).
  rewrite (cs_lc _ _ Hcs'), (csr_blen _ _ Hcs'). reflexivity.
Qed.

Lemma init_csr : F <> [] -> csr (fst (r_init F)) (fst (v_init F)).
Proof.
  intros Hne. rewrite r_init_emb. simpl.
  destruct (init_sim F W Hne) as [Hs _].
  constructor; simpl; auto.
  - intros Hh. pose proof (sim_nil_has Hs) as Hx.
    destruct Hs as [_ _ _ _ Hst]. destruct Hst as [[_ (_ & pre & m & post & S & On & _)]|[_ [He _]]].
    + destruct On as (O1 & O2 & O3 & O4 & _). exists pre, m, post. split; [exact S|]. repeat split; auto.
    + unfold v_init in He. destruct (b_fill F b_new 0); discriminate.
  - exists O. split; [reflexivity|]. split; [simpl; lia|]. split; [apply beq_refl|exact I].
Qed.

End WithContracts.

(** ---- the cache models honour the contracts *)

Lemma tget_in (t : list (Z * nat)) (k : Z) (v : nat) : tget t k = Some v -> In (k, v) t.
Proof.
  induction t as [|[k' v'] t IH]; simpl; [discriminate|].
  destruct (Z.eqb_spec k' k); intros H; [inversion H; subst; left; reflexivity|right; apply IH; exact H].
Qed.

Lemma tget_none (t : list (Z * nat)) (k : Z) : tget t k = None -> forall v, ~ In (k, v) t.
Proof.
  induction t as [|[k' v'] t IH]; simpl; intros H v Hin; [exact Hin|].
  destruct (Z.eqb_spec k' k); [discriminate|].
  destruct Hin as [E|Hin]; [inversion E; congruence|exact (IH H v Hin)].
Qed.

Lemma tget_some_of_in (t : list (Z * nat)) (k : Z) (v : nat) : In (k, v) t -> exists v', tget t k = Some v'.
Proof.
  induction t as [|[k' v'] t IH]; simpl; [intros []|].
  intros [E|Hin]; destruct (Z.eqb_spec k' k); eauto; inversion E; congruence.
Qed.

Lemma tdel_in (t : list (Z * nat)) (k : Z) (e : Z * nat) : In e (tdel t k) <-> In e t /\ fst e <> k.
Proof.
  induction t as [|[k' v'] t IH]; simpl; [tauto|].
  destruct (Z.eqb_spec k' k).
  - rewrite IH. split; [tauto|]. intros [[E|H] Hne]; [subst e; simpl in Hne; congruence|tauto].
  - simpl. rewrite IH. split; [intros [E|[H Hne]]; [subst e; simpl; tauto|tauto]|tauto].
Qed.

Lemma NoDup_map_tdel {B} (g : Z * nat -> B) (t : list (Z * nat)) (k : Z) : NoDup (map g t) -> NoDup (map g (tdel t k)).
Proof.
  induction t as [|[k' v'] t IH]; simpl; intros H; [constructor|].
  inversion H; subst. destruct (Z.eqb_spec k' k); [apply IH; assumption|].
  simpl. constructor; [|apply IH; assumption].
  intros Hin. apply H2. apply in_map_iff in Hin. destruct Hin as (e & E & Hin).
  apply in_map_iff. exists e. split; [exact E|]. apply tdel_in in Hin. tauto.
Qed.

Lemma odel_in (o : list nat) (n x : nat) : NoDup o -> (In x (odel o n) <-> In x o /\ x <> n).
Proof.
  induction o as [|y o IH]; simpl; intros H; [tauto|].
  inversion H; subst. destruct (Nat.eqb_spec y n).
  - subst y. split; [intros Hx; split; [tauto|intros ->; contradiction]|intros [[E|Hx] Hne]; [congruence|exact Hx]].
  - simpl. rewrite (IH H3). split; [intros [E|[Hx Hne]]; [subst; tauto|tauto]|tauto].
Qed.

Lemma NoDup_odel (o : list nat) (n : nat) : NoDup o -> NoDup (odel o n).
Proof.
  induction o as [|y o IH]; simpl; intros H; [constructor|].
  inversion H; subst. destruct (Nat.eqb_spec y n); [assumption|].
  constructor; [|apply IH; assumption]. intros Hin. apply (odel_in o n y H3) in Hin. tauto.
Qed.

Lemma omem_true (o : list nat) (n : nat) : In n o -> omem o n = true.
Proof. intros H. unfold omem. apply existsb_exists. exists n. split; [exact H|apply Nat.eqb_refl]. Qed.

Definition ent (nodes : list nat) (kv : Z * nat) : Z * nat := (fst kv, nth (snd kv) nodes O).

Lemma entries_list (c : cstate) : c_kind c <> KRandom -> c_entries c = map (ent (c_nodes c)) (c_table c).
Proof. intros H. unfold c_entries. destruct (c_kind c); try reflexivity. congruence. Qed.

Lemma entries_random (c : cstate) : c_kind c = KRandom -> c_entries c = c_table c.
Proof. intros H. unfold c_entries. rewrite H. reflexivity. Qed.

Lemma peek_holds : peek_contract.
Proof.
  intros st c k Hmiss. unfold c_peek, c_lookup.
  destruct (tget (c_table c) k) as [v|] eqn:E; [|reflexivity].
  exfalso. apply tget_in in E.
  destruct (ckind_eq_dec (c_kind c) KRandom) as [Hr|Hr].
  - rewrite (entries_random c Hr) in Hmiss. exact (Hmiss v E).
  - rewrite (entries_list c Hr) in Hmiss. apply (Hmiss (nth v (c_nodes c) O)). apply in_map_iff. exists (k, v). auto.
Qed.

Lemma good_base {F b k} : good F b k -> b_base b = k.
Proof. intros (pre & m & post & _ & _ & H & _). exact H. Qed.

(** In a table whose keys and values are both duplicate-free, the entry with key [k] is the entry with value [v]. *)
Lemma table_unique (t : list (Z * nat)) (k k' : Z) (v v' : nat) :
  NoDup (map fst t) -> NoDup (map snd t) -> In (k, v) t -> In (k', v') t -> (k = k' <-> v = v').
Proof.
  intros Nk Nv H1 H2. induction t as [|[a b] t IH]; [contradiction|].
  simpl in *. inversion Nk; subst. inversion Nv; subst.
  destruct H1 as [E1|H1]; destruct H2 as [E2|H2].
  - inversion E1; inversion E2; subst. tauto.
  - inversion E1; subst. split; intros ->; exfalso.
    + apply H3. apply in_map_iff. exists (k', v'). auto.
    + apply H5. apply in_map_iff. exists (k', v'). auto.
  - inversion E2; subst. split; intros <-; exfalso.
    + apply H3. apply in_map_iff. exists (k, v). auto.
    + apply H5. apply in_map_iff. exists (k, v). auto.
  - apply IH; assumption.
Qed.

Lemma table_keys_nodup (c : cstate) : c_kind c <> KRandom -> NoDup (map fst (c_entries c)) -> NoDup (map fst (c_table c)).
Proof. intros Hr Nk. rewrite (entries_list c Hr), map_map in Nk. simpl in Nk. exact Nk. Qed.

(** Unlinking the node indexed under [k] (LRU and FIFO). *)
Lemma remove_ok (F : file) (st : store) (c : cstate) (k : Z) (v : nat) :
  cache_ok F st c -> c_kind c <> KRandom -> In (k, v) (c_table c) ->
  exists c1, c_remove st c v = Ok c1 /\ cache_ok F st c1 /\ c_kind c1 = c_kind c /\ c_cap c1 = c_cap c /\
    c_nodes c1 = c_nodes c /\ c_choice c1 = c_choice c /\
    (forall e, In e (c_entries c1) -> In e (c_entries c) /\ e <> (k, nth v (c_nodes c) O)).
Proof.
  intros [C Nk Nb G L] Hr Hin.
  destruct (L Hr) as (Nn & No & Hio & Hlt).
  assert (Hent : In (k, nth v (c_nodes c) O) (c_entries c)).
  { rewrite (entries_list c Hr). apply in_map_iff. exists (k, v). auto. }
  unfold c_remove. rewrite (omem_true _ _ (proj2 (Hio v) ltac:(apply in_map_iff; exists (k, v); auto))).
  destruct (G _ _ Hent) as [Hl Hg]. rewrite (good_base Hg).
  eexists. split; [reflexivity|].
  set (c1 := mkC (c_kind c) (c_cap c) (c_nodes c) (odel (c_order c) v) (tdel (c_table c) k) (c_choice c)).
  assert (Hr1 : c_kind c1 <> KRandom) by exact Hr.
  assert (He1 : c_entries c1 = map (ent (c_nodes c)) (tdel (c_table c) k)) by (rewrite (entries_list c1 Hr1); reflexivity).
  assert (Hnk : NoDup (map fst (c_table c))) by (apply table_keys_nodup; assumption).
  assert (Hsub : forall e, In e (c_entries c1) -> In e (c_entries c) /\ e <> (k, nth v (c_nodes c) O)).
  { intros e He. rewrite He1 in He. apply in_map_iff in He. destruct He as ([k' v'] & E' & Hin'). apply tdel_in in Hin'. destruct Hin' as [Hin' Hne].
    simpl in Hne. subst e. split.
    - rewrite (entries_list c Hr). apply in_map_iff. exists (k', v'). auto.
    - unfold ent. simpl. intros Heq. inversion Heq. congruence. }
  split; [|repeat split; try reflexivity; apply Hsub; assumption].
  constructor.
  - exact C.
  - rewrite He1, map_map. simpl. apply (NoDup_map_tdel fst). exact Hnk.
  - unfold bids. rewrite He1, map_map. unfold bids in Nb. rewrite (entries_list c Hr), map_map in Nb. apply NoDup_map_tdel. exact Nb.
  - intros k' b' Hin'. apply G. apply (Hsub _ Hin').
  - intros _. unfold lru_ok, c1. simpl. split; [apply NoDup_map_tdel; exact Nn|]. split; [apply NoDup_odel; exact No|]. split.
    + intros x. rewrite (odel_in _ _ _ No), Hio. split.
      * intros [Hx Hne]. apply in_map_iff in Hx. destruct Hx as ([k' v'] & E' & Hin'). simpl in E'. subst v'.
        apply in_map_iff. exists (k', x). split; [reflexivity|]. apply tdel_in. split; [exact Hin'|]. simpl.
        intros ->. apply Hne. apply (table_unique _ k k x v Hnk Nn Hin' Hin). reflexivity.
      * intros Hx. apply in_map_iff in Hx. destruct Hx as ([k' v'] & E' & Hin'). simpl in E'. subst v'.
        apply tdel_in in Hin'. destruct Hin' as [Hin' Hne]. simpl in Hne. split.
        -- apply in_map_iff. exists (k', x). auto.
        -- intros ->. apply Hne. apply (table_unique _ k' k v v Hnk Nn Hin' Hin). reflexivity.
    + intros x Hx. apply Hlt. apply in_map_iff in Hx. destruct Hx as (e & E' & Hin'). apply tdel_in in Hin'.
      apply in_map_iff. exists e. tauto.
Qed.

Lemma get_holds (F : file) : get_contract F.
Proof.
  intros st c k Hok. pose proof Hok as [C Nk Nb G L]. unfold c_get, c_lookup.
  destruct (tget (c_table c) k) as [v|] eqn:E.
  2:{ split; [reflexivity|]. intros bid Hin. pose proof (tget_none _ _ E) as Hn.
      destruct (ckind_eq_dec (c_kind c) KRandom) as [Hr|Hr].
      - rewrite (entries_random c Hr) in Hin. exact (Hn _ Hin).
      - rewrite (entries_list c Hr) in Hin. apply in_map_iff in Hin. destruct Hin as ([k' v'] & E' & Hin). inversion E'; subst. exact (Hn _ Hin). }
  pose proof (tget_in _ _ _ E) as Hin.
  destruct (c_kind c) eqn:Hk.
  - (* LRU *)
    destruct (remove_ok F st c k v Hok ltac:(congruence) Hin) as (c1 & Hrm & Hok1 & K1 & _ & _ & _ & Hsub).
    rewrite Hrm.
    split; [rewrite (entries_list c ltac:(congruence)); apply in_map_iff; exists (k, v); auto|].
    split; [exact Hok1|]. split; [congruence|]. split; [intros e He; apply (Hsub e He)|intros _ e He; apply (Hsub e He)].
  - (* FIFO *)
    assert (Hent : In (k, nth v (c_nodes c) O) (c_entries c)) by (rewrite (entries_list c ltac:(congruence)); apply in_map_iff; exists (k, v); auto).
    destruct (b_used (sget st (nth v (c_nodes c) O))).
    + split; [exact Hent|]. split; [exact Hok|]. split; [exact Hk|]. split; [auto|intros Hx; congruence].
    + destruct (remove_ok F st c k v Hok ltac:(congruence) Hin) as (c1 & Hrm & Hok1 & K1 & _ & _ & _ & Hsub).
      rewrite Hrm.
      split; [exact Hent|]. split; [exact Hok1|]. split; [congruence|]. split; [intros e He; apply (Hsub e He)|intros _ e He; apply (Hsub e He)].
  - (* Random *)
    assert (Hent : In (k, v) (c_entries c)) by (rewrite (entries_random c Hk); exact Hin).
    split; [exact Hent|].
    set (c1 := mkC KRandom (c_cap c) (c_nodes c) (c_order c) (tdel (c_table c) k) (c_choice c)).
    assert (He1 : c_entries c1 = tdel (c_table c) k) by reflexivity.
    assert (Hsub : forall e, In e (c_entries c1) -> In e (c_entries c) /\ e <> (k, v)).
    { intros e He. rewrite He1 in He. apply tdel_in in He. destruct He as [He Hne]. split; [rewrite (entries_random c Hk); exact He|].
      intros ->. simpl in Hne. congruence. }
    rewrite (entries_random c Hk) in Nk. unfold bids in Nb. rewrite (entries_random c Hk) in Nb.
    split; [|split; [reflexivity|split; [intros e He; apply (Hsub e He)|intros _ e He; apply (Hsub e He)]]].
    constructor.
    + exact C.
    + rewrite He1. apply NoDup_map_tdel. exact Nk.
    + unfold bids. rewrite He1. apply NoDup_map_tdel. exact Nb.
    + intros k' b' Hin'. apply G. apply (Hsub _ Hin').
    + simpl. congruence.
Qed.

Lemma tget_of_in (t : list (Z * nat)) (k : Z) (v : nat) : NoDup (map fst t) -> In (k, v) t -> tget t k = Some v.
Proof.
  induction t as [|[k' v'] t IH]; simpl; intros N H; [contradiction|].
  inversion N; subst. destruct H as [E|H].
  - inversion E; subst. rewrite Z.eqb_refl. reflexivity.
  - destruct (Z.eqb_spec k' k); [|apply IH; assumption].
    subst k'. exfalso. apply H2. apply in_map_iff. exists (k, v). auto.
Qed.

Lemma NoDup_snoc {A} (l : list A) (x : A) : NoDup l -> ~ In x l -> NoDup (l ++ [x]).
Proof.
  induction l as [|y l IH]; simpl; intros N H; [constructor; [tauto|constructor]|].
  inversion N; subst. constructor.
  - rewrite in_app_iff. simpl. intros [Hy|[E|[]]]; [contradiction|subst; tauto].
  - apply IH; tauto.
Qed.

(** Inserting a fresh good block. *)
Lemma ins_list_ok (F : file) (st : store) (c1 : cstate) (bid : nat) (kb : Z) (front : bool) :
  cache_ok F st c1 -> c_kind c1 <> KRandom -> (bid < length st)%nat -> good F (sget st bid) kb ->
  ~ In bid (bids c1) -> (forall b, ~ In (kb, b) (c_entries c1)) ->
  let nid := length (c_nodes c1) in
  let c2 := mkC (c_kind c1) (c_cap c1) (c_nodes c1 ++ [bid])
                (if front then nid :: c_order c1 else c_order c1 ++ [nid])
                ((kb, nid) :: c_table c1) (c_choice c1) in
  cache_ok F st c2 /\ c_entries c2 = (kb, bid) :: c_entries c1.
Proof.
  intros [C Nk Nb G L] Hk Hbl Hg Hnb Hnk nid c2.
  destruct (L Hk) as (Nn & No & Hio & Hlt).
  assert (Hk2 : c_kind c2 <> KRandom) by exact Hk.
  assert (He : c_entries c2 = (kb, bid) :: c_entries c1).
  { rewrite (entries_list c2 Hk2), (entries_list c1 Hk). unfold c2. simpl. unfold ent at 1. simpl. unfold nid. rewrite nth_middle. f_equal.
    apply map_ext_in. intros [k' v'] Hin. unfold ent. simpl. f_equal. apply app_nth1. apply Hlt.
    apply in_map_iff. exists (k', v'). auto. }
  split; [|exact He].
  constructor.
  - simpl. exact C.
  - rewrite He. simpl. constructor; [|exact Nk]. intros Hin. apply in_map_iff in Hin. destruct Hin as ([k' b'] & E & Hin).
    simpl in E. subst k'. exact (Hnk _ Hin).
  - unfold bids. rewrite He. simpl. constructor; [exact Hnb|exact Nb].
  - intros k' b' Hin. rewrite He in Hin. destruct Hin as [E|Hin]; [inversion E; subst; auto|apply G; exact Hin].
  - intros _. unfold lru_ok, c2. simpl.
    assert (Hfresh : ~ In nid (map snd (c_table c1))) by (intros Hx; apply Hlt in Hx; unfold nid in Hx; lia).
    split; [constructor; assumption|].
    split.
    + destruct front.
      * constructor; [rewrite Hio; exact Hfresh|exact No].
      * apply NoDup_snoc; [exact No|rewrite Hio; exact Hfresh].
    + split.
      * intros x. destruct front; simpl.
        -- rewrite Hio. tauto.
        -- rewrite in_app_iff, Hio. simpl. tauto.
      * intros x [E|Hx]; rewrite app_length; simpl; [subst x; unfold nid; lia|apply Hlt in Hx; lia].
Qed.

Lemma random_ins_ok (F : file) (st : store) (c : cstate) (t' : list (Z * nat)) (ch' : list nat) (bid : nat) (kb : Z) :
  cache_ok F st c -> c_kind c = KRandom -> (bid < length st)%nat -> good F (sget st bid) kb ->
  ~ In bid (bids c) -> (forall b, ~ In (kb, b) (c_entries c)) ->
  (forall e, In e t' -> In e (c_table c)) -> NoDup (map fst t') -> NoDup (map snd t') ->
  let c2 := mkC (c_kind c) (c_cap c) (c_nodes c) (c_order c) ((kb, bid) :: t') ch' in
  cache_ok F st c2 /\ (forall e, In e (c_entries c2) -> e = (kb, bid) \/ In e (c_entries c)).
Proof.
  intros [C Nk Nb G L] Hk Hbl Hg Hnb Hnk Hsub N1 N2 c2.
  assert (He : c_entries c2 = (kb, bid) :: t') by (unfold c_entries, c2; simpl; rewrite Hk; reflexivity).
  unfold bids in Nb, Hnb. rewrite (entries_random c Hk) in Nk, Nb, Hnb, Hnk.
  split.
  - constructor.
    + simpl. exact C.
    + rewrite He. simpl. constructor; [|exact N1]. intros Hin. apply in_map_iff in Hin. destruct Hin as ([k' b'] & E & Hin).
      simpl in E. subst k'. exact (Hnk _ (Hsub _ Hin)).
    + unfold bids. rewrite He. simpl. constructor; [|exact N2]. intros Hin. apply Hnb.
      apply in_map_iff in Hin. destruct Hin as (e & E & Hin). apply in_map_iff. exists e. split; [exact E|apply Hsub; exact Hin].
    + intros k' b' Hin. rewrite He in Hin. destruct Hin as [E|Hin]; [inversion E; subst; auto|].
      apply G. rewrite (entries_random c Hk). apply Hsub. exact Hin.
    + simpl. intros Hx. rewrite Hk in Hx. congruence.
  - intros e Hin. rewrite He in Hin. rewrite (entries_random c Hk). destruct Hin as [E|Hin]; [left; auto|right; apply Hsub; exact Hin].
Qed.

(** LRU / FIFO: the key is free, insert (evicting the back of the list when full). *)
Lemma put_list_free (F : file) (st : store) (c : cstate) (bid : nat) (kb : Z) :
  cache_ok F st c -> c_kind c <> KRandom -> (bid < length st)%nat -> good F (sget st bid) kb ->
  ~ In bid (bids c) -> (forall b, ~ In (kb, b) (c_entries c)) -> tget (c_table c) kb = None ->
  match c_put st c bid with
  | Ok (c', back, false) => c' = c /\ back = Some bid
  | Ok (c', back, true) => cache_ok F st c' /\ c_kind c' = c_kind c /\ (forall e, In e (c_entries c') -> e = (kb, bid) \/ In e (c_entries c))
  | _ => False
  end.
Proof.
  intros Hok Hr Hbl Hg Hnb Hnk E.
  pose proof Hok as [C Nk Nb G L]. destruct (L Hr) as (Nn & No & Hio & Hlt).
  unfold c_put. rewrite (good_base Hg), E.
  assert (Hnotfull : forall front : bool,
            let nid := length (c_nodes c) in
            let c2 := mkC (c_kind c) (c_cap c) (c_nodes c ++ [bid]) (if front then nid :: c_order c else c_order c ++ [nid]) ((kb, nid) :: c_table c) (c_choice c) in
            cache_ok F st c2 /\ c_kind c2 = c_kind c /\ (forall e, In e (c_entries c2) -> e = (kb, bid) \/ In e (c_entries c))).
  { intros front nid c2. destruct (ins_list_ok F st c bid kb front Hok Hr Hbl Hg Hnb Hnk) as [Hok2 He2].
    split; [exact Hok2|]. split; [reflexivity|].
    intros e He. fold nid in He2. fold c2 in He2. rewrite He2 in He. destruct He as [<-|He]; [left; reflexivity|right; exact He]. }
  assert (Hevict : forall nv rest, rev (c_order c) = nv :: rest ->
            match c_remove st c nv with
            | Ok c1 =>
                let nid := length (c_nodes c1) in
                let c2 := mkC (c_kind c1) (c_cap c1) (c_nodes c1 ++ [bid]) (nid :: c_order c1) ((kb, nid) :: c_table c1) (c_choice c1) in
                cache_ok F st c2 /\ c_kind c2 = c_kind c /\ (forall e, In e (c_entries c2) -> e = (kb, bid) \/ In e (c_entries c))
            | _ => False end).
  { intros nv rest Hrev.
    assert (Hinv : In nv (c_order c)) by (apply in_rev; rewrite Hrev; left; reflexivity).
    apply Hio in Hinv. apply in_map_iff in Hinv. destruct Hinv as ([kv nv'] & Ev & Hinv). simpl in Ev. subst nv'.
    destruct (remove_ok F st c kv nv Hok Hr Hinv) as (c1 & Hrm & Hok1 & K1 & K2 & K3 & K4 & Hsub1).
    rewrite Hrm.
    assert (Hnb1 : ~ In bid (bids c1)).
    { intros Hx. apply Hnb. unfold bids in *. apply in_map_iff in Hx. destruct Hx as (e & E1 & Hx).
      apply in_map_iff. exists e. split; [exact E1|apply (Hsub1 _ Hx)]. }
    assert (Hnk1 : forall b0, ~ In (kb, b0) (c_entries c1)) by (intros b0 Hx; exact (Hnk b0 (proj1 (Hsub1 _ Hx)))).
    destruct (ins_list_ok F st c1 bid kb true Hok1 ltac:(congruence) Hbl Hg Hnb1 Hnk1) as [Hok2 He2].
    cbv zeta. split; [exact Hok2|]. split; [simpl; exact K1|].
    intros e He. rewrite He2 in He. destruct He as [<-|He]; [left; reflexivity|right; apply (Hsub1 _ He)]. }
  assert (Hrevne : tlen c =? c_cap c = true -> rev (c_order c) <> []).
  { intros Hfull Hrev. apply Z.eqb_eq in Hfull. unfold tlen in Hfull.
    destruct (c_table c) as [|[k0 n0] t0] eqn:Ht; [rewrite zlen_nil in Hfull; lia|].
    assert (Hin0 : In n0 (c_order c)) by (apply Hio; simpl; left; reflexivity).
    apply in_rev in Hin0. rewrite Hrev in Hin0. exact Hin0. }
  destruct (c_kind c) eqn:Hk; try congruence.
  - destruct (tlen c =? c_cap c) eqn:Hfull.
    + destruct (b_used (sget st bid)) eqn:Hu; simpl negb; cbv iota; [|split; reflexivity].
      destruct (rev (c_order c)) as [|nv rest] eqn:Hrev; [exfalso; apply (Hrevne eq_refl); reflexivity|].
      specialize (Hevict nv rest eq_refl). destruct (c_remove st c nv) as [c1| | |]; try contradiction. exact Hevict.
    + exact (Hnotfull (b_used (sget st bid))).
  - destruct (tlen c =? c_cap c) eqn:Hfull.
    + destruct (b_used (sget st bid)) eqn:Hu; simpl negb; cbv iota; [|split; reflexivity].
      destruct (rev (c_order c)) as [|nv rest] eqn:Hrev; [exfalso; apply (Hrevne eq_refl); reflexivity|].
      specialize (Hevict nv rest eq_refl). destruct (c_remove st c nv) as [c1| | |]; try contradiction. exact Hevict.
    + exact (Hnotfull (b_used (sget st bid))).
Qed.

Lemma put_holds (F : file) : put_contract F.
Proof.
  intros st c bid kb Hok Hbl Hg Hpre. unfold c_put. rewrite (good_base Hg).
  pose proof Hok as [C Nk Nb G L].
  destruct (tget (c_table c) kb) as [x|] eqn:E.
  - (* the key is indexed *)
    pose proof (tget_in _ _ _ E) as Hinx.
    destruct (c_kind c) eqn:Hk.
    + (* LRU *) destruct Hpre as [Hn|Hf]; [|congruence]. split; [reflexivity|]. left. split; [reflexivity|exact Hn].
    + (* FIFO *)
      assert (Hr : c_kind c <> KRandom) by congruence.
      assert (Hentx : In (kb, nth x (c_nodes c) O) (c_entries c)) by (rewrite (entries_list c Hr); apply in_map_iff; exists (kb, x); auto).
      destruct (Nat.eqb_spec (nth x (c_nodes c) O) bid) as [Eb|Nb'].
      * split; [reflexivity|]. right. split; [reflexivity|]. unfold bids. apply in_map_iff. exists (kb, bid). split; [reflexivity|]. rewrite <- Eb. exact Hentx.
      * split; [reflexivity|]. left. split; [reflexivity|]. intros Hx.
        pose proof (entry_of_bid F st c bid kb Hok Hx Hg) as Hent2.
        (* two entries under key kb *)
        apply Nb'. clear -Nk Hentx Hent2.
        induction (c_entries c) as [|[a b0] l IH]; [contradiction|]. simpl in Nk. inversion Nk; subst.
        destruct Hentx as [E1|I1]; destruct Hent2 as [E2|I2].
        -- congruence.
        -- inversion E1; subst. exfalso. apply H1. apply in_map_iff. exists (kb, bid). auto.
        -- inversion E2; subst. exfalso. apply H1. apply in_map_iff. exists (kb, nth x (c_nodes c) O). auto.
        -- apply IH; assumption.
    + (* Random *) destruct Hpre as [Hn|Hf]; [|congruence]. split; [reflexivity|]. left. split; [reflexivity|exact Hn].
  - (* the key is free: the block is not held *)
    assert (Hnk : forall b, ~ In (kb, b) (c_entries c)).
    { intros b Hin. pose proof (tget_none _ _ E) as Hn.
      destruct (ckind_eq_dec (c_kind c) KRandom) as [Hr|Hr].
      - rewrite (entries_random c Hr) in Hin. exact (Hn _ Hin).
      - rewrite (entries_list c Hr) in Hin. apply in_map_iff in Hin. destruct Hin as ([k' v'] & E' & Hin). inversion E'; subst. exact (Hn _ Hin). }
    assert (Hnb : ~ In bid (bids c)).
    { intros Hx. exact (Hnk bid (entry_of_bid F st c bid kb Hok Hx Hg)). }
    destruct (ckind_eq_dec (c_kind c) KRandom) as [Hk|Hr].
    2:{ pose proof (put_list_free F st c bid kb Hok Hr Hbl Hg Hnb Hnk E) as HP.
        unfold c_put in HP. rewrite (good_base Hg), E in HP.
        match goal with |- match ?Y with _ => _ end =>
          match type of HP with match ?X with _ => _ end => change X with Y in HP; destruct Y as [[[c' back] [|]]| | |] end end; try contradiction.
        - destruct HP as (A & B & D). split; [exact Hnb|]. split; [exact A|]. split; [exact B|exact D].
        - destruct HP as [-> ->]. split; [reflexivity|]. left. split; [reflexivity|exact Hnb]. }
    rewrite Hk.
    + (* Random *)
      rewrite (entries_random c Hk) in Nk. unfold bids in Nb. rewrite (entries_random c Hk) in Nb.
      destruct (tlen c =? c_cap c) eqn:Hfull.
      * destruct (b_used (sget st bid)) eqn:Hu; simpl negb; cbv iota; [|split; [reflexivity|left; split; [reflexivity|exact Hnb]]].
        match goal with |- context [nth_error ?cands ?idx] => destruct (nth_error cands idx) as [[k v]|] eqn:Hnth end.
        -- assert (Hinkv : In (k, v) (c_table c)).
           { apply nth_error_In in Hnth.
             destruct (filter (fun kv : Z * nat => negb (b_used (sget st (snd kv)))) (c_table c)) eqn:Hf; [exact Hnth|].
             rewrite <- Hf in Hnth. apply filter_In in Hnth. tauto. }
           pose proof (random_ins_ok F st c (tdel (c_table c) k) (tl (c_choice c)) bid kb Hok Hk Hbl Hg Hnb Hnk
                         ltac:(intros e He; apply tdel_in in He; tauto) (NoDup_map_tdel fst _ k Nk) (NoDup_map_tdel snd _ k Nb)) as Hx.
           rewrite Hk in Hx. destruct Hx as [A B]. split; [exact Hnb|]. split; [exact A|]. split; [reflexivity|exact B].
        -- pose proof (random_ins_ok F st c (c_table c) (c_choice c) bid kb Hok Hk Hbl Hg Hnb Hnk ltac:(auto) Nk Nb) as Hx.
           rewrite Hk in Hx. destruct Hx as [A B]. split; [exact Hnb|]. split; [exact A|]. split; [reflexivity|exact B].
      * pose proof (random_ins_ok F st c (c_table c) (c_choice c) bid kb Hok Hk Hbl Hg Hnb Hnk ltac:(auto) Nk Nb) as Hx.
        rewrite Hk in Hx. destruct Hx as [A B]. split; [exact Hnb|]. split; [exact A|]. split; [reflexivity|exact B].
Qed.

(** ---- C03, rd = 1 *)

Theorem cache_transparent_sync_proof (F : file) (ch : list nat) (ops : list rop) :
  wf_file F = true -> F <> [] -> Forall (valid_op F) ops ->
  r_run F ch (fst (r_init F)) ops = v_run F (fst (v_init F)) ops /\
  exists l, v_run F (fst (v_init F)) ops = Ok l /\ length l = length ops.
Proof.
  intros W Hne Hv.
  destruct (init_sim F W Hne) as [Hs _].
  split.
  - apply (run_c F W (get_holds F) (put_holds F) peek_holds ch ops _ _ f_init); [apply init_csr; assumption|exact Hs|exact Hv].
  - destruct (v_refines_flat F ops W Hne Hv) as (_ & l & Hl & H1 & _). exists l. split; [exact Hl|].
    apply (f_equal (@length _)) in H1. unfold rets in H1. rewrite !map_length, flat_run_length in H1. exact H1.
Qed.
