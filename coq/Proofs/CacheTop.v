(** C14 — StatsRecorder, the instances of the linearizability theorem, the
    FIFO counterexample under the documented protocol. *)
From Coq Require Import ZArith List Bool Arith Lia.
From Hts Require Import Base.Prim Model.Cache Model.Atomic Proofs.Cache Proofs.Atomic.
Import ListNotations.
Open Scope Z_scope.

(** * StatsRecorder *)
Section StatsProofs.
  Variables (W O : Type).
  Variable pi : O -> op.
  Variable step : W -> O -> W * out.

  Fixpoint st_run (w : W * stats) (os : list (sop O)) : (W * stats) * list out :=
    match os with
    | [] => (w, [])
    | o :: r => let '(w', x) := st_step W O pi step w o in
                let '(w'', xs) := st_run w' r in (w'', x :: xs)
    end.
  Fixpoint in_run (w : W) (os : list O) : W * list (op * out) :=
    match os with
    | [] => (w, [])
    | o :: r => let '(w', x) := step w o in
                let '(w'', xs) := in_run w' r in (w'', (pi o, x) :: xs)
    end.

  Definition cnt (f : op * out -> bool) (l : list (op * out)) : Z := zlen (filter f l).
  Definition is_get (p : op * out) := match p with (Get _, OGet _) => true | _ => false end.
  Definition is_miss (p : op * out) := match p with (Get _, OGet None) => true | _ => false end.
  Definition is_put (p : op * out) := match p with (Put _, OPut _ _) => true | _ => false end.
  Definition is_retain (p : op * out) := match p with (Put _, OPut _ true) => true | _ => false end.
  Definition is_evict (p : op * out) := match p with (Put _, OPut (Some _) true) => true | _ => false end.

  Definition tally (st : stats) (l : list (op * out)) : stats :=
    mkst (gets st + cnt is_get l) (misses st + cnt is_miss l) (nputs st + cnt is_put l)
         (retains st + cnt is_retain l) (evictions st + cnt is_evict l).

  Lemma cnt_cons f p l : cnt f (p :: l) = (if f p then 1 else 0) + cnt f l.
  Proof. unfold cnt, zlen. simpl. destruct (f p); simpl length; lia. Qed.

  Lemma tally_cons st o x l : tally st ((o, x) :: l) = tally (stats_count st o x) l.
  Proof.
    unfold tally. rewrite !cnt_cons. destruct st as [g m p r e].
    destruct o; destruct x; try destruct ev; try destruct retained; try destruct b;
      cbn -[Z.add]; f_equal; lia.
  Qed.

  (** the wrapper hands through every answer and state of the wrapped cache,
      and its counters are the numbers of Get, missed Get, Put, retained Put
      and evicting Put calls made through it *)
  Lemma stats_recorder_gen : forall os w st,
    let '((w', st'), xs) := st_run (w, st) (map SInner os) in
    let '(w2, pairs) := in_run w os in
    w' = w2 /\ xs = map snd pairs /\ st' = tally st pairs.
  Proof.
    induction os as [|o r IH]; intros w st; simpl.
    - split; auto. split; auto. unfold tally, cnt, zlen. simpl. destruct st; simpl. f_equal; lia.
    - destruct (step w o) as [w1 x] eqn:ST. simpl.
      specialize (IH w1 (stats_count st (pi o) x)).
      destruct (st_run (w1, stats_count st (pi o) x) (map SInner r)) as [[w' st'] xs].
      destruct (in_run w1 r) as [w2 pairs]. destruct IH as (H1 & H2 & H3).
      subst. repeat split; auto. rewrite tally_cons. reflexivity.
  Qed.

  Lemma stats_reset_gen w st : st_step W O pi step (w, st) SReset = ((w, stats0), OUnit).
  Proof. reflexivity. Qed.
  Lemma stats_read_gen w st :
    st_step W O pi step (w, st) SStats = ((w, st), OStats (gets st) (misses st) (nputs st) (retains st) (evictions st)).
  Proof. reflexivity. Qed.
End StatsProofs.

(** * Linearizability instances: Len, Cap, Peek take the read lock *)
Definition op_is_read (o : op) : bool :=
  match o with Len | Cap | Peek _ => true | _ => false end.

Lemma lf_read_pure fifo w o : op_is_read o = true -> fst (lf_wstep fifo false w o) = w.
Proof.
  destruct w as [s c]. unfold lf_wstep, wstep. destruct o; simpl; try discriminate; auto.
  destruct (tget k (tab c)); auto.
Qed.

Lemma rnd_read_pure w o : op_is_read (rop_op o) = true -> fst (rnd_wstep w o) = w.
Proof.
  destruct w as [s c]. destruct o as [[o c1] c2]. unfold rnd_wstep, wstep, rop_op. simpl.
  destruct o; simpl; try discriminate; auto.
  destruct (tget k (rtab c)); auto.
Qed.

(** * FIFO under the documented protocol (Get hands the block to the client):
    put a used block, get it (it stays indexed), overwrite it with another
    member - Peek of the old base still answers, with the other member. *)
Definition fifo_strong_history : list op :=
  [Rebase 0%nat 0 true; Put 0%nat; Get 0; Rebase 0%nat 1 true; Peek 0].

Lemma fifo_strong_refuted_gen :
  prun lf op id_op (lf_wstep true false) true (store0, lf_empty 2) client0 fifo_strong_history
  = Some [OUnit; OPut None true; OGet (Some 0%nat); OUnit; OPeek (Some 101)].
Proof. vm_compute. reflexivity. Qed.
