(** C14 — StatsRecorder, the instances of the linearizability theorem, the
    FIFO counterexample under the documented protocol. *)
From Coq Require Import ZArith List Bool Arith Lia.
From Hts Require Import Base.Prim Model.Cache Model.Atomic Proofs.Cache Proofs.Atomic.
Import ListNotations.
Open Scope Z_scope.

(** * StatsRecorder *)
Section StatsProofs.
  Variables (W O : Type).
  Variable pi : O -> op.
  Variable step : W -> O -> W * out.

  Fixpoint st_run (w : W * stats) (os : list (sop O)) : (W * stats) * list out :=
    match os with
    | [] => (w, [])
    | o :: r => let '(w', x) := st_step W O pi step w o in
                let '(w'', xs) := st_run w' r in (w'', x :: xs)
    end.
  Fixpoint in_run (w : W) (os : list O) : W * list (op * out) :=
    match os with
    | [] => (w, [])
    | o :: r => let '(w', x) := step w o in
                let '(w'', xs) := in_run w' r in (w'', (pi o, x) :: xs)
    end.

  Definition cnt (f : op * out -> bool) (l : list (op * out)) : Z := zlen (filter f l).
  Definition is_get (p : op * out) := match p with (Get _, OGet _) => true | _ => false end.
  Definition is_miss (p : op * out) := match p with (Get _, OGet None) => true | _ => false end.
  Definition is_put (p : op * out) := match p with (Put _, OPut _ _) => true | _ => false end.
  Definition is_retain (p : op * out) := match p with (Put _, OPut _ true) => true | _ => false end.
  Definition is_evict (p : op * out) := match p with (Put _, OPut (Some _) true) => true | _ => false end.

  Definition tally (st : stats) (l : list (op * out)) : stats :=
    mkst (gets st + cnt is_get l) (misses st + cnt is_miss l) (nputs st + cnt is_put l)
         (retains st + cnt is_retain l) (evictions st + cnt is_evict l).

  Lemma cnt_cons f p l : cnt f (p :: l) = (if f p then 1 else 0) + cnt f l.
  Proof. unfold cnt, zlen. simpl. destruct (f p); simpl length; lia. Qed.

  Lemma tally_cons st o x l : tally st ((o, x) :: l) = tally (stats_count st o x) l.
  Proof.
    unfold tally. rewrite !cnt_cons. destruct st as [g m p r e].
    destruct o; destruct x; try destruct ev; try destruct retained; try destruct b;
      cbn -[Z.add]; f_equal; lia.
  Qed.

  (** the wrapper hands through every answer and state of the wrapped cache,
      and its counters are the numbers of Get, missed Get, Put, retained Put
      and evicting Put calls made through it *)
  Lemma stats_recorder_gen : forall os w st,
    let '((w', st'), xs) := st_run (w, st) (map SInner os) in
    let '(w2, pairs) := in_run w os in
    w' = w2 /\ xs = map snd pairs /\ st' = tally st pairs.
  Proof.
    induction os as [|o r IH]; intros w st; simpl.
    - split; auto. split; auto. unfold tally, cnt, zlen. simpl. destruct st; simpl. f_equal; lia.
    - destruct (step w o) as [w1 x] eqn:ST. simpl.
      specialize (IH w1 (stats_count st (pi o) x)).
      destruct (st_run (w1, stats_count st (pi o) x) (map SInner r)) as [[w' st'] xs].
      destruct (in_run w1 r) as [w2 pairs]. destruct IH as (H1 & H2 & H3).
      subst. repeat split; auto. rewrite tally_cons. reflexivity.
  Qed.

  Lemma stats_reset_gen w st : st_step W O pi step (w, st) SReset = ((w, stats0), OUnit).
  Proof. reflexivity. Qed.
  Lemma stats_read_gen w st :
    st_step W O pi step (w, st) SStats = ((w, st), OStats (gets st) (misses st) (nputs st) (retains st) (evictions st)).
  Proof. reflexivity. Qed.
End StatsProofs.

(** * Linearizability instances: Len, Cap, Peek take the read lock *)
Definition op_is_read (o : op) : bool :=
  match o with Len | Cap | Peek _ => true | _ => false end.

Lemma lf_read_pure fifo w o : op_is_read o = true -> fst (lf_wstep fifo false w o) = w.
Proof.
  destruct w as [s c]. unfold lf_wstep, wstep. destruct o; simpl; try discriminate; auto.
  destruct (tget k (tab c)); auto.
Qed.

Lemma rnd_read_pure w o : op_is_read (rop_op o) = true -> fst (rnd_wstep w o) = w.
Proof.
  destruct w as [s c]. destruct o as [[o c1] c2]. unfold rnd_wstep, wstep, rop_op. simpl.
  destruct o; simpl; try discriminate; auto.
  destruct (tget k (rtab c)); auto.
Qed.

(** * FIFO under the documented protocol (Get hands the block to the client):
    put a used block, get it (it stays indexed), overwrite it with another
    member - Peek of the old base still answers, with the other member. *)
Definition fifo_strong_history : list op :=
  [Rebase 0%nat 0 true; Put 0%nat; Get 0; Rebase 0%nat 1 true; Peek 0].

Lemma fifo_strong_refuted_gen :
  prun lf op id_op (lf_wstep true false) true (store0, lf_empty 2) client0 fifo_strong_history
  = Some [OUnit; OPut None true; OGet (Some 0%nat); OUnit; OPeek (Some 101)].
Proof. vm_compute. reflexivity. Qed.

(** * Free(n, c): five calls (Cap, Len, Drop, Cap, Len) *)
Lemma zlen_blocks (t : table) : zlen (blocks t) = tlen t.
Proof. unfold zlen, tlen, blocks, zlen. rewrite map_length. reflexivity. Qed.

(** Sequentially (no other call between the five): from every reachable
    state Free m returns; it answers m <= cap; it leaves the capacity alone;
    it evicts, by the eviction policy of the contract machine, exactly as many
    blocks as are needed (none if m slots are free already); afterwards m
    slots are free when m <= cap, and the cache is empty otherwise. *)
Lemma lf_free_sequential_gen fifo n s c cl m :
  1 <= n -> lf_reach fifo n (s, c) cl ->
  exists c', lf_wstep fifo false (s, c) (Free m) = ((s, c'), OBool (m <=? cap c))
    /\ cap c' = cap c
    /\ blocks (tab c') = sdrop s (Z.to_nat (m - (cap c - tlen (tab c)))) (blocks (tab c))
    /\ tlen (tab c') = Z.max 0 (Z.min (tlen (tab c)) (cap c - m))
    /\ (m <= cap c -> m <= cap c' - tlen (tab c'))
    /\ (cap c < m -> tlen (tab c') = 0).
Proof.
  intros Hn R.
  destruct (lf_resize_drop_free_gen fifo n s c cl m Hn R) as (_ & _ & c' & E & H1 & H2 & H3).
  pose proof (lf_refines_gen fifo n s c cl (Free m) s c' _ Hn R eq_refl E) as SP.
  destruct (lf_cap_inv_gen fifo n s c cl Hn R) as (C2 & _ & C1).
  assert (T0 : 0 <= tlen (tab c)) by (unfold tlen, zlen; lia).
  assert (T1 : 0 <= tlen (tab c')) by (unfold tlen, zlen; lia).
  assert (B' : blocks (tab c') = sdrop s (Z.to_nat (m - (cap c - tlen (tab c)))) (blocks (tab c))).
  { unfold spec_wstep, wstep, id_op, free_via in SP. simpl in SP. rewrite zlen_blocks in SP.
    destruct (m <=? cap c - tlen (tab c)) eqn:EE.
    - inversion SP as [HH]. apply Z.leb_le in EE.
      replace (Z.to_nat (m - (cap c - tlen (tab c)))) with O by lia. simpl. congruence.
    - inversion SP as [HH]. reflexivity. }
  exists c'. repeat split; auto.
  - rewrite <- (zlen_blocks (tab c')), B', sdrop_length, zlen_blocks.
    + lia.
    + destruct (lf_reach_inv _ _ _ _ Hn R) as [(_ & _ & ND) _ _]. simpl in ND. eapply nodup_base_nodup; eauto.
  - intros Hm. rewrite <- (zlen_blocks (tab c')), B', sdrop_length, zlen_blocks.
    + lia.
    + destruct (lf_reach_inv _ _ _ _ Hn R) as [(_ & _ & ND) _ _]. simpl in ND. eapply nodup_base_nodup; eauto.
Qed.

Lemma rnd_free_sequential_gen n s c cl m ch1 ch2 :
  1 <= n -> rnd_reach n (s, c) cl ->
  exists c', rnd_wstep (s, c) (Free m, ch1, ch2) = ((s, c'), OBool (m <=? rcap c))
    /\ rcap c' = rcap c
    /\ rtab c' = (if m <=? rcap c - tlen (rtab c) then rtab c
                  else rnd_drop s ch1 ch2 (m - (rcap c - tlen (rtab c))) (rtab c))
    /\ tlen (rtab c') = Z.max 0 (Z.min (tlen (rtab c)) (rcap c - m))
    /\ (m <= rcap c -> m <= rcap c' - tlen (rtab c'))
    /\ (rcap c < m -> tlen (rtab c') = 0).
Proof.
  intros Hn R. destruct (rnd_reach_inv _ _ _ Hn R) as [Ht ND [C1 C2] _]. simpl in *.
  set (B := blocks (rtab c)) in *.
  assert (TL : tlen (rtab c) = zlen B) by (rewrite Ht; apply tlen_tab_of).
  assert (T0 : 0 <= zlen B) by (unfold zlen; lia).
  unfold rnd_wstep, wstep, free_via. simpl. rewrite TL.
  destruct (m <=? rcap c - zlen B) eqn:E.
  - apply Z.leb_le in E. exists c. rewrite TL. repeat split; auto; try lia.
    f_equal. f_equal. symmetry. apply Z.leb_le. lia.
  - apply Z.leb_gt in E.
    destruct (rnd_drop_ok s ch1 ch2 (m - (rcap c - zlen B)) B ND) as (B' & H1 & _ & _ & H4).
    assert (TD : tlen (rnd_drop s ch1 ch2 (m - (rcap c - zlen B)) (rtab c)) = Z.max 0 (zlen B - Z.max 0 (m - (rcap c - zlen B)))).
    { rewrite Ht, H1, tlen_tab_of. auto. }
    eexists. split.
    + cbn [rtab rcap]. rewrite TD. f_equal. f_equal.
      destruct (m <=? rcap c) eqn:E2.
      * apply Z.leb_le in E2. apply Z.leb_le. lia.
      * apply Z.leb_gt in E2. apply Z.leb_gt. lia.
    + cbn [rtab rcap]. rewrite TD. repeat split; auto; lia.
Qed.

(** Concurrently Free is NOT atomic: its five calls are separately
    linearizable and another goroutine can run between them. Capacity 1, one
    block held; goroutine 0 runs the calls of Free(1), goroutine 1 puts a
    block after the Drop: the final Len reads 1 and Free answers
    [1 <= 1 - 1] = false, an answer no sequential Free(1) on a cache of
    capacity 1 gives. *)
Definition free_race_w0 : store * lf :=
  fst (wrun lf op id_op (fun _ o => o) (lf_step false false) (store0, lf_empty 1)
         [Rebase 0%nat 0 true; Put 0%nat; Rebase 1%nat 1 true]).
Definition free_race_sched : list nat :=
  (repeat 0 15 ++ repeat 1 5 ++ repeat 0 10)%nat.

Lemma free_not_atomic_gen :
  let c := exec _ _ _ _ (fun _ => tt) (atomic_body (lf_wstep false false)) op_is_read
             (init _ _ _ _ free_race_w0
                (fun t => match t with O => [Cap; Len; Drop 1; Cap; Len] | 1%nat => [Put 1%nat] | _ => [] end))
             free_race_sched in
  map (res_of _ _) (lin _ _ _ _ c) = [ONum 1; ONum 1; OUnit; OPut None true; ONum 1; ONum 1]
  /\ snd (lf_wstep false false free_race_w0 (Free 1)) = OBool true.
Proof. vm_compute. split; reflexivity. Qed.
