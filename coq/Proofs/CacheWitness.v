(** C03 — witnesses: histories on which the faithful models violate cache
    transparency (any cache, rd > 1), and a regression history for FIFO. *)
From Coq Require Import ZArith List Bool Lia.
From Hts Require Import Base.Prim Model.Flat Model.Reader Model.ReaderAsync Proofs.ReaderFlat Proofs.ReaderStore.
Import ListNotations.
Open Scope Z_scope.

(** The same history without its SetCache calls. *)
Definition strip_cache (ops : list rop) : list rop := filter no_cache_op ops.

Definition run_rets (F : file) (ch : list nat) (ops : list rop) : option (list fret) :=
  match r_run F ch (fst (r_init F)) ops with Ok l => Some (rets l) | _ => None end.

(** Ten members of two bytes each. *)
Definition ten_blocks : file :=
  map (fun i => mkMember (Z.of_nat i * 30) 30 [Z.of_nat i * 2; Z.of_nat i * 2 + 1]) (seq 0 10).

Definition fifo_history : list rop :=
  [OSetCache KFIFO 5; ORead 2; ORead 2; ORead 2; OSeek 0 0; ORead 2; ORead 2; ORead 2; ORead 2; OSeek 60 0; ORead 2].

(** The history on which FIFO used to fail (FIFO.Put now keeps a block it still
    indexes): with the cache the read after Seek(block 2) returns block 2's
    payload, as without it. *)
Definition last_ret (F : file) (ch : list nat) (ops : list rop) : option fret :=
  match run_rets F ch ops with Some l => Some (last l ([], 0)) | None => None end.

Lemma fifo_history_ok :
  wf_file ten_blocks = true /\ Forall (valid_op ten_blocks) fifo_history /\
  last_ret ten_blocks [] fifo_history = Some ([4; 5], eNil) /\
  last_ret ten_blocks [] (strip_cache fifo_history) = Some ([4; 5], eNil).
Proof.
  split; [vm_compute; reflexivity|].
  split; [repeat constructor; vm_compute; try reflexivity; discriminate|].
  split; vm_compute; reflexivity.
Qed.

(** rd = 2, LRU cache of capacity 2, a 15-byte member and the EOF marker:
    SetCache; Seek(EOF marker); Read; Seek(LastChunk.Begin); Read — with the
    read-ahead thread scheduled only when the consumer waits for it, the last
    Read blocks for ever (the consumer receives from working, the read-ahead
    is parked on control); without the cache the history returns. *)
Definition small_file : file := [mkMember 0 51 (mkdata 15 197); mkMember 51 28 []].
Definition async_history : list rop := [OSetCache KLRU 2; OSeek 51 0; ORead 2; OReseek; ORead 14].

Lemma async_witness :
  wf_file small_file = true /\ Forall (valid_op small_file) async_history /\
  a_outcome small_file 2 [0; 0; 0; 0; 0]%nat async_history = 2 /\
  a_outcome small_file 2 [0; 0; 0; 0; 0]%nat (strip_cache async_history) = 0 /\
  (exists l, run_rets small_file [] async_history = Some l).
Proof.
  split; [vm_compute; reflexivity|].
  split; [repeat constructor; vm_compute; try reflexivity; discriminate|].
  split; [vm_compute; reflexivity|]. split; [vm_compute; reflexivity|].
  eexists. vm_compute. reflexivity.
Qed.
