(** C13 — index.ChunkReader returns exactly the flat spans of its chunks. *)
From Coq Require Import ZArith List Bool Lia.
From Hts Require Import Base.Prim Model.Flat Model.Reader Model.ChunkReader
  Proofs.FlatLemmas Proofs.ReaderFlat.
Import ListNotations.
Open Scope Z_scope.

Ltac Zify.zify_post_hook ::= Z.div_mod_to_equations.

(** ---- the reader in Blocked mode, seen from a client *)

(** The client-visible situation: Blocked, no error, LastChunk().End is the
    current block's offset, and the current block sits on member [m]. *)
Record okst (F : file) (s : vstate) (pre : file) (m : member) (post : file) : Prop := {
  ok_split : split_at F pre m post;
  ok_on : on_member (v_cur s) m;
  ok_blocked : v_blocked s = true;
  ok_err : v_err s = eNil;
  ok_end : snd (v_lc s) = b_tx (v_cur s) }.

Definition qpos (pre : file) (s : vstate) : Z := total pre + b_pos (v_cur s).

Lemma seek_ok (F : file) (s : vstate) (pre0 : file) (m0 : member) (post0 : file) (f b : Z) :
  wf_file F = true -> split_at F pre0 m0 post0 -> on_member (v_cur s) m0 -> v_blocked s = true ->
  valid_off F f b = true ->
  exists s' pre m post, v_seek F s f b = (s', eNil) /\ okst F s' pre m post /\
    qpos pre s' = tr F (f, b) /\ v_lc s' = ((f, b), (f, b)) /\ b_pos (v_cur s') = b /\ m_base m = f.
Proof.
  intros W S0 On0 Hbl Hv.
  destruct (valid_off_split F f b W Hv) as (pre & m & post & S & Hb & Hbo & Hbo'). subst f.
  assert (Htr : tr F (m_base m, b) = total pre + b) by (unfold tr; simpl; rewrite (split_before S); reflexivity).
  assert (Hfin : forall blk : block, on_member blk m ->
     okst F (set_lc (set_err (set_cur s (b_seek blk b)) eNil) ((m_base m, b), (m_base m, b))) pre m post).
  { intros blk (B1 & B2 & B3 & B4 & B5 & B6).
    constructor; simpl; auto.
    - unfold on_member, b_seek; simpl; auto 10.
    - unfold b_tx, b_seek. simpl. rewrite B1, u16_small by lia. reflexivity. }
  unfold v_seek.
  destruct (negb (m_base m =? b_base (v_cur s)) || negb (b_has (v_cur s))) eqn:Hre.
  - rewrite (fill_at (v_cur s) S). simpl.
    eexists _, pre, m, post. split; [reflexivity|].
    specialize (Hfin (blk_of m 0 (b_used (v_cur s))) (on_member_blk_of m 0 _ ltac:(lia))).
    split; [exact Hfin|].
    split; [unfold qpos; simpl; lia|]. split; [reflexivity|]. split; reflexivity.
  - apply orb_false_iff in Hre. destruct Hre as [H1 H2].
    apply negb_false_iff in H1, H2. apply Z.eqb_eq in H1.
    pose proof On0 as (B1 & _).
    destruct (split_unique S S0 ltac:(lia)) as (-> & -> & ->).
    simpl. eexists _, pre0, m0, post0. split; [reflexivity|].
    split; [exact (Hfin (v_cur s) On0)|].
    split; [unfold qpos; simpl; lia|]. split; [reflexivity|]. split; reflexivity.
Qed.

(** A Blocked read of [k] bytes. *)
Lemma blocked_read (F : file) (s : vstate) (pre : file) (m : member) (post : file) (k : Z) :
  wf_file F = true -> addressable F = true -> okst F s pre m post -> 0 <= k ->
  let p := b_pos (v_cur s) in
  let q := total pre + p in
  (exists s', v_read F s k = Ok (s', [], eEOF) /\ p = m_len m /\ q = total F /\ v_lc s' = v_lc s) \/
  (exists s' pre' m' post' k',
     v_read F s k = Ok (s', ztake k' (zdrop q (flat_data F)), if k' <? k then eEOF else eNil) /\
     okst F s' pre' m' post' /\ qpos pre' s' = q + k' /\ 0 <= k' <= k /\ (k' < k -> 0 < k') /\
     ((p < m_len m /\ m' = m /\ pre' = pre /\ k' = Z.min k (m_len m - p) /\ fst (v_lc s') = (m_base m, p)) \/
      (p = m_len m /\ m_base m < m_base m' /\ b_pos (v_cur s') = k' /\ fst (v_lc s') = (m_base m', 0)))).
Proof.
  intros W Ha [S On Hbl He Hend] Hk p q.
  unfold v_read. rewrite He. simpl negb. cbv iota.
  destruct (skip_spec F post pre m s (Datatypes.S (length F)) S On He ltac:(pose proof (split_length S); lia))
    as (s1 & e1 & Hsk & [Hlc1 Hbl1] & Hcase).
  rewrite Hsk.
  destruct Hcase as [(-> & He1 & pre' & m' & post' & S' & On' & Hlt' & Hq' & Hb1 & Hno & Hmv)|(-> & [He1 Hc1] & Hq')].
  2:{ left. simpl. eexists. split; [reflexivity|].
      pose proof On as (_ & _ & _ & _ & Hp & _). pose proof (split_total S) as Ht. pose proof (total_nonneg post).
      fold p in Hq', Hp. split; [lia|]. split; [exact Hq'|exact Hlc1]. }
  right. simpl negb. cbv iota.
  set (s1b := set_begin s1 (b_tx (v_cur s1))).
  assert (Onb : on_member (v_cur s1b) m') by exact On'.
  assert (Hblb : v_blocked s1b = true) by (simpl; congruence).
  destruct (copy_blocked F k pre' m' post' s1b (fuel_of F) S' Onb Hblb Hlt' ltac:(unfold fuel_of; lia) Hk)
    as (s' & Hcp & (Hpb & Hpf & Hps & Hpat) & On2 & Hp2).
  change (b_pos (v_cur s1b)) with (b_pos (v_cur s1)) in *.
  set (p1 := b_pos (v_cur s1)) in *. set (k' := Z.min k (m_len m' - p1)) in *.
  pose proof On' as (_ & _ & _ & _ & Hp1 & _). fold p1 in Hp1, Hlt', Hq'.
  rewrite Hcp.
  assert (Hbytes : ztake k' (zdrop p1 (m_data m')) = ztake k' (zdrop q (flat_data F))).
  { unfold q, p. rewrite <- Hq'. destruct S' as [-> _]. rewrite zdrop_flat_split by lia.
    rewrite ztake_app_le; [reflexivity|]. rewrite zlen_zdrop_data by lia. unfold k'. lia. }
  rewrite Hbytes.
  destruct Hpat as (He' & _).
  exists s', pre', m', post', k'. split; [reflexivity|].
  split; [constructor; auto; simpl in Hpb; congruence|].
  split; [unfold qpos, q, p in *; lia|].
  split; [unfold k'; lia|]. split; [unfold k'; lia|].
  pose proof On as (_ & _ & _ & _ & Hp & _). fold p in Hp.
  destruct (Z.eq_dec p (m_len m)) as [Hal|Hnal].
  - right. destruct (Hmv Hal) as (Hlt & Hp0 & Hlc0). fold p1 in Hp0.
    split; [exact Hal|]. split; [exact Hlt|]. split; [lia|].
    simpl in Hpf. rewrite Hpf. unfold b_tx. pose proof On' as (Hb' & _ & _ & _ & _ & Ho').
    rewrite Hb', Ho'. fold p1. rewrite Hp0. reflexivity.
  - left. assert (Hs1 : s1 = s) by (apply Hno; fold p; lia). subst s1.
    destruct (split_unique S' S ltac:(pose proof On as (B & _); pose proof On' as (B' & _); lia)) as (-> & -> & ->).
    split; [lia|]. split; [reflexivity|]. split; [reflexivity|]. split; [reflexivity|].
    simpl in Hpf. rewrite Hpf. unfold b_tx. pose proof On as (Hb' & _ & _ & _ & _ & Ho').
    rewrite Hb', Ho'. fold p. rewrite u16_small; [reflexivity|]. pose proof (addressable_len S Ha). lia.
Qed.

(** ---- positions of valid offsets *)

Lemma before_nonneg (F : file) (f : Z) : 0 <= before F f.
Proof.
  induction F as [|m F IH]; simpl; [lia|]. pose proof (m_len_nonneg m).
  destruct (m_base m <? f); lia.
Qed.

Lemma split_order {F pre1 m1 post1 pre2 m2 post2} :
  split_at F pre1 m1 post1 -> split_at F pre2 m2 post2 -> m_base m1 < m_base m2 ->
  total pre1 + m_len m1 <= total pre2.
Proof.
  intros S1 S2 Hlt. rewrite <- (split_before S2).
  pose proof (split_pre_lt S1) as P1. destruct S1 as [-> _].
  rewrite before_app. simpl.
  rewrite (before_all pre1 (m_base m2)) by (eapply Forall_impl; [|exact P1]; simpl; intros; lia).
  destruct (Z.ltb_spec (m_base m1) (m_base m2)); [|lia].
  pose proof (before_nonneg post1 (m_base m2)). lia.
Qed.

Lemma tr_le_total (F : file) (f b : Z) : wf_file F = true -> valid_off F f b = true -> tr F (f, b) <= total F.
Proof.
  intros W Hv. destruct (valid_off_split F f b W Hv) as (pre & m & post & S & Hb & Hbo & _). subst f.
  unfold tr. simpl. rewrite (split_before S). pose proof (split_total S). pose proof (total_nonneg post). lia.
Qed.

Lemma tx_of_okst {F s pre m post} :
  addressable F = true -> okst F s pre m post -> b_tx (v_cur s) = (m_base m, b_pos (v_cur s)) /\ b_pos (v_cur s) <= 65535 /\ 0 <= b_pos (v_cur s).
Proof.
  intros Ha [S On _ _ _]. pose proof (addressable_len S Ha). pose proof On as (Hb & _ & _ & _ & Hp & Ho).
  unfold b_tx. rewrite Hb, Ho, u16_small by lia. split; [reflexivity|lia].
Qed.

(** Comparison of a valid offset with the reader's offset, in positions. *)
Lemma vo_le_pos {F s pre m post} (fe be : Z) :
  wf_file F = true -> addressable F = true -> okst F s pre m post -> valid_off F fe be = true ->
  voffset (fe, be) <= voffset (b_tx (v_cur s)) -> tr F (fe, be) <= qpos pre s.
Proof.
  intros W Ha Ok Hv Hle.
  destruct (tx_of_okst Ha Ok) as (Htx & Hp1 & Hp0). rewrite Htx in Hle.
  destruct (valid_off_split F fe be W Hv) as (pre_e & me & post_e & Se & Hb & Hbo & Hbo'). subst fe.
  unfold voffset in Hle. simpl in Hle. unfold tr, qpos. simpl. rewrite (split_before Se).
  destruct (Z.eq_dec (m_base me) (m_base m)) as [E|NE].
  - destruct (split_unique Se (ok_split _ _ _ _ _ Ok) E) as (-> & -> & ->). lia.
  - assert (m_base me < m_base m) by lia.
    pose proof (split_order Se (ok_split _ _ _ _ _ Ok) H). lia.
Qed.

(** ---- chunk lists *)

Definition off_ok (F : file) (o : voff) : Prop := valid_off F (fst o) (snd o) = true.

Fixpoint sorted_from (F : file) (lo : Z) (cs : list chunk) : Prop :=
  match cs with
  | [] => True
  | c :: r => off_ok F (fst c) /\ off_ok F (snd c) /\ lo <= tr F (fst c) /\ tr F (fst c) <= tr F (snd c) /\
              sorted_from F (tr F (snd c)) r
  end.

Definition span (F : file) (c : chunk) : list Z :=
  ztake (tr F (snd c) - tr F (fst c)) (zdrop (tr F (fst c)) (flat_data F)).
Definition spans (F : file) (cs : list chunk) : list Z := concat (map (span F) cs).

Definition rem (F : file) (q : Z) (c0 : chunk) (rest : list chunk) : list Z :=
  ztake (tr F (snd c0) - q) (zdrop q (flat_data F)) ++ spans F rest.

Lemma spans_beyond (F : file) : wf_file F = true -> forall cs lo, sorted_from F lo cs -> total F <= lo -> spans F cs = [].
Proof.
  intros W. induction cs as [|c r IH]; intros lo Hs Hlo; [reflexivity|].
  destruct Hs as (Hb & He & H1 & H2 & Hr).
  destruct c as [[fb bb] [fe be]]. unfold off_ok in *. simpl in *.
  pose proof (tr_le_total F fb bb W Hb). pose proof (tr_le_total F fe be W He).
  unfold spans. simpl. fold (spans F r). rewrite (IH _ Hr ltac:(lia)).
  unfold span. simpl. rewrite ztake_neg by lia. reflexivity.
Qed.

Record cinv (F : file) (s : vstate) (pre : file) (m : member) (post : file) (c0 : chunk) (rest : list chunk) : Prop := {
  ci_ok : okst F s pre m post;
  ci_end_ok : off_ok F (snd c0);
  ci_le : qpos pre s <= tr F (snd c0);
  ci_sorted : sorted_from F (tr F (snd c0)) rest }.

Definition cr_post (F : file) (s' : vstate) (cs' : list chunk) (R : list Z) : Prop :=
  match cs' with
  | [] => False
  | c0' :: rest' => exists pre' m' post', cinv F s' pre' m' post' c0' rest' /\ R = rem F (qpos pre' s') c0' rest'
  end.

Lemma cr_skip_spec (F : file) : wf_file F = true -> addressable F = true ->
  forall rest s pre m post c0, cinv F s pre m post c0 rest ->
  exists s1 cs1 e, cr_skip (vM F) s (c0 :: rest) = Ok (s1, cs1, e) /\
    ((e = eNil /\ cr_post F s1 cs1 (rem F (qpos pre s) c0 rest) /\
      match cs1 with c1 :: _ => voffset (snd (v_lc s1)) < voffset (snd c1) | [] => False end)
     \/ (e = eEOF /\ rem F (qpos pre s) c0 rest = [])).
Proof.
  intros W Ha. induction rest as [|c1 rest IH]; intros s pre m post c0 [Ok Hev Hle Hso].
  - simpl. destruct (Z.leb_spec (voffset (snd c0)) (voffset (snd (v_lc s)))) as [Hv|Hv].
    + eexists _, _, _. split; [reflexivity|]. right. split; [reflexivity|].
      rewrite (ok_end _ _ _ _ _ Ok) in Hv. destruct c0 as [cb [fe be]]. simpl in *.
      pose proof (vo_le_pos fe be W Ha Ok Hev Hv). unfold rem. simpl.
      rewrite ztake_neg by lia. reflexivity.
    + eexists _, _, _. split; [reflexivity|]. left. split; [reflexivity|]. split; [|lia].
      exists pre, m, post. split; [constructor; assumption|reflexivity].
  - simpl cr_skip. destruct (Z.leb_spec (voffset (snd c0)) (voffset (snd (v_lc s)))) as [Hv|Hv].
    + rewrite (ok_end _ _ _ _ _ Ok) in Hv. destruct c0 as [cb [fe be]]. simpl in Hev, Hle, Hso, Hv.
      pose proof (vo_le_pos fe be W Ha Ok Hev Hv) as Hpos.
      destruct Hso as (Hb1 & He1 & Hlo1 & Hbe1 & Hr1).
      destruct c1 as [[fb1 bb1] [fe1 be1]]. unfold off_ok in Hb1, He1. simpl in Hb1, He1, Hlo1, Hbe1, Hr1.
      simpl fst. simpl snd.
      destruct (seek_ok F s pre m post fb1 bb1 W (ok_split _ _ _ _ _ Ok) (ok_on _ _ _ _ _ Ok) (ok_blocked _ _ _ _ _ Ok) Hb1)
        as (s1 & pre1 & m1 & post1 & Hsk & Ok1 & Hq1 & Hlc1 & _).
      change (m_step (vM F) s (OSeek fb1 bb1)) with (v_step F s (OSeek fb1 bb1)). simpl v_step. rewrite Hsk.
      change (eNil =? eNil) with true. cbv iota.
      assert (Ci1 : cinv F s1 pre1 m1 post1 ((fb1, bb1), (fe1, be1)) rest).
      { constructor; simpl; auto. lia. }
      destruct (IH s1 pre1 m1 post1 _ Ci1) as (s2 & cs2 & e & Hrec & Hcase).
      exists s2, cs2, e. split; [exact Hrec|].
      assert (Hrem : rem F (qpos pre s) (cb, (fe, be)) (((fb1, bb1), (fe1, be1)) :: rest) = rem F (qpos pre1 s1) ((fb1, bb1), (fe1, be1)) rest).
      { unfold rem. simpl snd. rewrite ztake_neg by lia. simpl app. unfold spans. simpl. fold (spans F rest).
        unfold span. simpl. rewrite Hq1. reflexivity. }
      rewrite <- Hrem in Hcase. exact Hcase.
    + eexists _, _, _. split; [reflexivity|]. left. split; [reflexivity|]. split; [|lia].
      exists pre, m, post. split; [constructor; assumption|reflexivity].
Qed.

Lemma rem_split (F : file) (q k : Z) (c0 : chunk) (rest : list chunk) :
  0 <= q -> 0 <= k -> q + k <= tr F (snd c0) ->
  rem F q c0 rest = ztake k (zdrop q (flat_data F)) ++ rem F (q + k) c0 rest.
Proof.
  intros Hq Hk Hle. unfold rem. rewrite app_assoc. f_equal.
  replace (tr F (snd c0) - q) with (k + (tr F (snd c0) - (q + k))) by lia.
  rewrite <- ztake_ztake_app by lia. rewrite zdrop_zdrop by lia. reflexivity.
Qed.

Lemma qpos_nonneg {F s pre m post} : okst F s pre m post -> 0 <= qpos pre s.
Proof. intros [_ On _ _ _]. pose proof On as (_ & _ & _ & _ & Hp & _). pose proof (total_nonneg pre). unfold qpos. lia. Qed.

Lemma cr_read_spec (F : file) : wf_file F = true -> addressable F = true ->
  forall s pre m post c0 rest n, cinv F s pre m post c0 rest -> 0 <= n ->
  exists s' cs' bs e, cr_read (vM F) s (c0 :: rest) n = Ok (s', cs', bs, e) /\ zlen bs <= n /\
    ((e = eNil /\ exists R', rem F (qpos pre s) c0 rest = bs ++ R' /\ cr_post F s' cs' R') \/
     (e = eEOF /\ rem F (qpos pre s) c0 rest = bs)).
Proof.
  intros W Ha s pre m post c0 rest n Ci Hn.
  unfold cr_read.
  destruct (cr_skip_spec F W Ha rest s pre m post c0 Ci) as (s1 & cs1 & e1 & Hsk & Hcase).
  rewrite Hsk.
  destruct Hcase as [(-> & Hpost & Hvo)|(-> & Hrem)].
  2:{ simpl. eexists _, _, _, _. split; [reflexivity|]. split; [rewrite zlen_nil; lia|]. right. split; [reflexivity|exact Hrem]. }
  change (negb (eNil =? eNil)) with false. cbv iota.
  destruct cs1 as [|c0' rest']; [contradiction|].
  destruct Hpost as (pre1 & m1 & post1 & [Ok1 Hev1 Hle1 Hso1] & HR). rewrite HR. clear HR Hsk Ci.
  destruct c0' as [cb [fe be]]. unfold off_ok in Hev1. simpl in Hev1, Hle1, Hso1, Hvo. simpl fst. simpl snd.
  destruct (tx_of_okst Ha Ok1) as (Htx & Hp1 & Hp0).
  set (p := b_pos (v_cur s1)) in *.
  change (m_lc (vM F) s1) with (v_lc s1). change (m_blen (vM F) s1) with (b_len (v_cur s1)).
  rewrite (ok_end _ _ _ _ _ Ok1) in Hvo |- *. rewrite Htx in Hvo |- *. simpl fst. simpl snd.
  unfold voffset in Hvo. simpl in Hvo.
  destruct (valid_off_split F fe be W Hev1) as (pre_e & me & post_e & Se & Hbe & Hbo & Hbo'). subst fe.
  assert (Htre : tr F (m_base me, be) = total pre_e + be) by (unfold tr; simpl; rewrite (split_before Se); reflexivity).
  pose proof (ok_split _ _ _ _ _ Ok1) as S1. pose proof (ok_on _ _ _ _ _ Ok1) as On1.
  pose proof (on_member_len On1) as Hblen. fold p in Hblen.
  pose proof On1 as (_ & _ & _ & _ & Hpm & _). fold p in Hpm.
  pose proof (qpos_nonneg Ok1) as Hq0.
  (* want - cursor, and the bound it enforces *)
  set (want := if (be =? 0) && (m_base m1 <? m_base me) then b_len (v_cur s1) else be).
  set (cursor := if m_base m1 =? m_base me then p else 0).
  assert (Hwc : 0 <= want - cursor /\
                (m_base m1 = m_base me -> want - cursor = be - p /\ p < be) /\
                (m_base m1 <> m_base me -> m_base m1 < m_base me /\ cursor = 0 /\
                     (be = 0 -> want = m_len m1 - p) /\ (be <> 0 -> want = be))).
  { unfold want, cursor.
    destruct (Z.eqb_spec (m_base m1) (m_base me)) as [E|NE].
    - rewrite E. rewrite Z.ltb_irrefl, andb_false_r. split; [lia|]. split; [intros _; lia|intros; contradiction].
    - assert (m_base m1 < m_base me) by lia.
      destruct (Z.ltb_spec (m_base m1) (m_base me)); [|lia].
      destruct (Z.eqb_spec be 0); simpl; rewrite ?Hblen; split; try lia; (split; [intros; contradiction|intros _; repeat split; intros; lia]). }
  destruct Hwc as (Hwc0 & Hsame & Hdiff).
  destruct (Z.ltb_spec (want - cursor) 0); [lia|].
  set (k := Z.min n (want - cursor)).
  assert (Hk0 : 0 <= k) by (unfold k; lia).
  destruct (blocked_read F s1 pre1 m1 post1 k W Ha Ok1 Hk0) as
    [(s2 & Hrd & Hpe & Hqe & Hlc2)|(s2 & pre2 & m2 & post2 & k' & Hrd & Ok2 & Hq2 & Hk' & Hkpos & Hwhere)].
  - (* the data ended *)
    change (m_step (vM F) s1 (ORead k)) with (v_step F s1 (ORead k)). simpl v_step. rewrite Hrd.
    change (negb (eEOF =? eNil)) with true. cbv iota. rewrite zlen_nil. simpl.
    eexists _, _, _, _. split; [reflexivity|]. split; [rewrite zlen_nil; lia|]. right. split; [reflexivity|].
    fold p in Hqe. unfold qpos in *. fold p in Hle1 |- *.
    pose proof (tr_le_total F (m_base me) be W Hev1).
    unfold rem. simpl snd. rewrite ztake_neg by lia. rewrite (spans_beyond F W rest' _ Hso1) by lia. reflexivity.
  - fold p in Hwhere, Hrd, Hq2.
    (* the bound: the read does not pass the end of the chunk *)
    assert (Hbound : qpos pre1 s1 + k' <= tr F (m_base me, be)).
    { rewrite Htre. unfold qpos. fold p.
      destruct (Z.eq_dec (m_base m1) (m_base me)) as [E|NE].
      - destruct (Hsame E) as (Hw & Hpb).
        destruct (split_unique S1 Se E) as (-> & -> & ->).
        unfold k in Hk'. lia.
      - destruct (Hdiff NE) as (Hlt & Hc0 & Hw0 & Hw1).
        pose proof (split_order S1 Se Hlt) as Hord.
        destruct Hwhere as [(Hplt & -> & -> & Hkk & _)|(Hpal & _ & _ & _)].
        + lia.
        + destruct (Z.eq_dec be 0) as [Hb0|Hb0].
          * specialize (Hw0 Hb0). unfold k in Hk'. lia.
          * specialize (Hw1 Hb0). unfold k in Hk'. lia. }
    assert (Hsplit := rem_split F (qpos pre1 s1) k' (cb, (m_base me, be)) rest' Hq0 ltac:(lia) Hbound).
    change (m_step (vM F) s1 (ORead k)) with (v_step F s1 (ORead k)). simpl v_step. rewrite Hrd.
    assert (Hzb : zlen (ztake k' (zdrop (total pre1 + p) (flat_data F))) <= k').
    { unfold ztake, zlen. rewrite firstn_length. lia. }
    assert (Ci2 : cinv F s2 pre2 m2 post2 (cb, (m_base me, be)) rest').
    { constructor; simpl; auto. rewrite Hq2. unfold qpos in Hbound. fold p in Hbound. exact Hbound. }
    destruct (Z.ltb_spec k' k) as [Hshort|Hfull].
    + (* cut short at the end of a block *)
      change (negb (eEOF =? eNil)) with true. cbv iota.
      assert (Hnz : zlen (ztake k' (zdrop (total pre1 + p) (flat_data F))) =? 0 = false).
      { apply Z.eqb_neq. rewrite ztake_zlen; [lia|].
        split; [lia|].
        (* k' bytes are available: the read returned them *)
        pose proof (tr_le_total F (m_base me) be W Hev1). unfold qpos in Hbound. fold p in Hbound.
        pose proof (total_nonneg pre1).
        assert (Hin : 0 <= total pre1 + p <= zlen (flat_data F)) by (unfold total in *; lia).
        rewrite zlen_zdrop by exact Hin. unfold total in *. lia. }
      rewrite Hnz. simpl.
      eexists _, _, _, _. split; [reflexivity|]. split; [unfold k in *; lia|]. left. split; [reflexivity|].
      eexists. split; [exact Hsplit|].
      exists pre2, m2, post2. split; [exact Ci2|]. rewrite Hq2. unfold qpos. fold p. reflexivity.
    + assert (Hkk : k' = k) by lia.
      change (negb (eNil =? eNil)) with false. cbv iota.
      change (m_lc (vM F) s2) with (v_lc s2).
      (* the progress test cannot fire *)
      assert (Hneq : negb (n =? 0) && chunk_eqb (v_lc s2) (v_lc s1) = false).
      { destruct (Z.eqb_spec n 0); [reflexivity|]. simpl.
        unfold chunk_eqb. rewrite (ok_end _ _ _ _ _ Ok2), (ok_end _ _ _ _ _ Ok1), Htx.
        destruct (tx_of_okst Ha Ok2) as (Htx2 & _ & _). rewrite Htx2. simpl.
        destruct Hwhere as [(Hplt & -> & -> & Hkm & _)|(Hpal & Hlt & _ & _)].
        - (* same member: k > 0 *)
          assert (0 < k').
          { destruct (Z.eq_dec (m_base m1) (m_base me)) as [E|NE].
            - destruct (Hsame E). unfold k in *. lia.
            - destruct (Hdiff NE) as (_ & _ & Hw0 & Hw1). destruct (Z.eq_dec be 0); [specialize (Hw0 e)|specialize (Hw1 n1)]; unfold k in *; lia. }
          unfold qpos in Hq2. fold p in Hq2.
          destruct (Z.eqb_spec (b_pos (v_cur s2)) p); [lia|]. rewrite andb_false_r. reflexivity.
        - destruct (Z.eqb_spec (m_base m2) (m_base m1)); [lia|]. rewrite andb_false_r. simpl. reflexivity. }
      rewrite Hneq. simpl orb.
      rewrite (ok_end _ _ _ _ _ Ok2).
      destruct (Z.leb_spec (voffset (m_base me, be)) (voffset (b_tx (v_cur s2)))) as [Hadv|Hstay].
      * (* the chunk is complete *)
        pose proof (vo_le_pos (m_base me) be W Ha Ok2 Hev1 Hadv) as Hge. rewrite Hq2 in Hge.
        assert (Hrem0 : rem F (qpos pre1 s1 + k') (cb, (m_base me, be)) rest' = spans F rest').
        { unfold rem. simpl snd. rewrite ztake_neg by (unfold qpos; fold p; lia). reflexivity. }
        destruct rest' as [|c1 rest''].
        -- eexists _, _, _, _. split; [reflexivity|]. split; [unfold k in *; lia|]. right. split; [reflexivity|].
           rewrite Hrem0 in Hsplit. unfold spans in Hsplit. simpl in Hsplit. rewrite app_nil_r in Hsplit. exact Hsplit.
        -- destruct Hso1 as (Hb1 & He1 & Hlo1 & Hbe1 & Hr1).
           destruct c1 as [[fb1 bb1] [fe1 be1]]. unfold off_ok in Hb1, He1. simpl in Hb1, He1, Hlo1, Hbe1, Hr1.
           simpl fst. simpl snd.
           destruct (seek_ok F s2 pre2 m2 post2 fb1 bb1 W (ok_split _ _ _ _ _ Ok2) (ok_on _ _ _ _ _ Ok2) (ok_blocked _ _ _ _ _ Ok2) Hb1)
             as (s3 & pre3 & m3 & post3 & Hsk3 & Ok3 & Hq3 & _).
           change (m_step (vM F) s2 (OSeek fb1 bb1)) with (v_step F s2 (OSeek fb1 bb1)). simpl v_step. rewrite Hsk3.
           eexists _, _, _, _. split; [reflexivity|]. split; [unfold k in *; lia|]. left. split; [reflexivity|].
           eexists. split; [exact Hsplit|].
           exists pre3, m3, post3. split.
           ++ constructor; simpl; auto. lia.
           ++ rewrite Hrem0. unfold rem, spans. simpl. fold (spans F rest''). unfold span. simpl. rewrite Hq3. reflexivity.
      * eexists _, _, _, _. split; [reflexivity|]. split; [unfold k in *; lia|]. left. split; [reflexivity|].
        eexists. split; [exact Hsplit|].
        exists pre2, m2, post2. split; [exact Ci2|]. rewrite Hq2. unfold qpos. fold p. reflexivity.
Qed.

(** ---- a sequence of reads *)

(** All reads but the last report no error; the last reports none or io.EOF,
    and io.EOF only when nothing is left ([tail] = []). *)
Fixpoint reads_ok (l : list (list Z * Z)) (tail : list Z) : Prop :=
  match l with
  | [] => True
  | [(_, e)] => e = eNil \/ (e = eEOF /\ tail = [])
  | (_, e) :: l' => e = eNil /\ reads_ok l' tail
  end.

Fixpoint sizes_ok (l : list (list Z * Z)) (bufs : list Z) : Prop :=
  match l, bufs with
  | [], _ => True
  | (bs, _) :: l', n :: bufs' => zlen bs <= n /\ sizes_ok l' bufs'
  | _ :: _, [] => False
  end.

Lemma cr_reads_cons (M : machine) (s : MS M) (cs : list chunk) (n : Z) (bufs : list Z) :
  cr_reads M s cs (n :: bufs) =
  match cr_read M s cs n with
  | Ok (s1, ch1, bs, e) =>
      if negb (e =? eNil) then Ok [(bs, e)]
      else match cr_reads M s1 ch1 bufs with
           | Ok l => Ok ((bs, e) :: l)
           | Err e => Err e | Panic w => Panic w | Stuck => Stuck
           end
  | Err e => Err e | Panic w => Panic w | Stuck => Stuck
  end.
Proof. reflexivity. Qed.

Lemma cr_reads_spec (F : file) : wf_file F = true -> addressable F = true ->
  forall bufs s cs R, cr_post F s cs R -> Forall (fun n => 0 <= n) bufs ->
  exists l, cr_reads (vM F) s cs bufs = Ok l /\ sizes_ok l bufs /\
    exists tail, R = concat (map fst l) ++ tail /\ reads_ok l tail.
Proof.
  intros W Ha. induction bufs as [|n bufs IH]; intros s cs R Hpost Hb.
  - exists []. simpl. split; [reflexivity|]. split; [exact I|]. exists R. split; [reflexivity|exact I].
  - destruct cs as [|c0 rest]; [contradiction|].
    destruct Hpost as (pre & m & post & Ci & ->).
    inversion Hb as [|? ? Hn Hb']; subst.
    destruct (cr_read_spec F W Ha s pre m post c0 rest n Ci Hn) as (s' & cs' & bs & e & Hrd & Hz & Hcase).
    rewrite cr_reads_cons. rewrite Hrd.
    destruct Hcase as [(-> & R' & HR & Hpost')|(-> & HR)].
    + change (negb (eNil =? eNil)) with false. cbv iota.
      destruct (IH s' cs' R' Hpost' Hb') as (l & Hl & Hsz & tail & Ht & Hok).
      rewrite Hl. exists ((bs, eNil) :: l). split; [reflexivity|]. split; [split; assumption|].
      exists tail. split.
      * simpl. rewrite HR, Ht. rewrite app_assoc. reflexivity.
      * simpl. destruct l as [|x l']; [left; reflexivity|]. split; [reflexivity|exact Hok].
    + change (negb (eEOF =? eNil)) with true. cbv iota.
      exists [(bs, eEOF)]. split; [reflexivity|]. split; [simpl; split; [exact Hz|exact I]|].
      exists []. split; [simpl; rewrite HR, !app_nil_r; reflexivity|]. simpl. right. split; reflexivity.
Qed.

(** The reader right after NewReader, put into the situation of a client. *)
Lemma init_okst (F : file) : wf_file F = true -> F <> [] ->
  exists m0 post, F = m0 :: post /\ split_at F [] m0 post /\ on_member (v_cur (fst (v_init F))) m0 /\
                  v_err (fst (v_init F)) = eNil.
Proof.
  intros W Hne. destruct F as [|m0 F']; [congruence|].
  assert (S : split_at (m0 :: F') [] m0 F') by (split; [reflexivity|exact W]).
  assert (Hb0 : m_base m0 = 0) by (rewrite (split_base S); reflexivity).
  exists m0, F'. split; [reflexivity|]. split; [exact S|].
  unfold v_init.
  replace (b_fill (m0 :: F') b_new 0) with (b_fill (m0 :: F') b_new (m_base m0)) by (rewrite Hb0; reflexivity).
  rewrite (fill_at b_new S). simpl. split; [|reflexivity].
  apply on_member_blk_of. pose proof (m_len_nonneg m0). lia.
Qed.

(** C13, ChunkReader, on the reader on block values. *)
Theorem chunkreader_exact_v (F : file) (cs : list chunk) (bufs : list Z) :
  wf_file F = true -> F <> [] -> addressable F = true ->
  sorted_from F 0 cs -> Forall (fun n => 0 <= n) bufs ->
  exists s1, cr_new (vM F) (fst (v_init F)) cs = Ok (s1, eNil) /\
  exists l, cr_reads (vM F) s1 cs bufs = Ok l /\ sizes_ok l bufs /\
    exists tail, spans F cs = concat (map fst l) ++ tail /\ reads_ok l tail.
Proof.
  intros W Hne Ha Hso Hb.
  destruct (init_okst F W Hne) as (m0 & post0 & HF & S0 & On0 & He0).
  unfold cr_new. change (m_step (vM F) (fst (v_init F)) (OBlocked true)) with (v_step F (fst (v_init F)) (OBlocked true)).
  simpl v_step.
  set (s0 := mkV (v_cur (fst (v_init F))) (v_err (fst (v_init F))) (v_lc (fst (v_init F))) true).
  destruct cs as [|c0 rest].
  - eexists. split; [reflexivity|].
    destruct bufs as [|n bufs].
    + exists []. split; [reflexivity|]. split; [exact I|]. exists []. split; [reflexivity|exact I].
    + exists [([], eEOF)]. split; [reflexivity|]. split; [simpl; inversion Hb; subst; rewrite zlen_nil; lia|].
      exists []. split; [reflexivity|]. simpl. right. split; reflexivity.
  - destruct Hso as (Hb0 & He0' & Hlo & Hbe & Hr).
    destruct c0 as [[fb bb] [fe be]]. unfold off_ok in Hb0, He0'. simpl in Hb0, He0', Hlo, Hbe, Hr. simpl fst. simpl snd.
    destruct (seek_ok F s0 [] m0 post0 fb bb W S0 On0 eq_refl Hb0) as (s1 & pre1 & m1 & post1 & Hsk & Ok1 & Hq1 & _).
    change (m_step (vM F) s0 (OSeek fb bb)) with (v_step F s0 (OSeek fb bb)). simpl v_step. rewrite Hsk.
    eexists. split; [reflexivity|].
    assert (Hpost : cr_post F s1 (((fb, bb), (fe, be)) :: rest) (spans F (((fb, bb), (fe, be)) :: rest))).
    { exists pre1, m1, post1. split.
      - constructor; simpl; auto. lia.
      - unfold rem, spans. simpl. fold (spans F rest). unfold span. simpl. rewrite Hq1. reflexivity. }
    destruct (cr_reads_spec F W Ha bufs s1 _ _ Hpost Hb) as (l & Hl & Hsz & tail & Ht & Hok).
    exists l. split; [exact Hl|]. split; [exact Hsz|]. exists tail. split; [exact Ht|exact Hok].
Qed.
