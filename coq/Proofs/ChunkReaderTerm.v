(** C13 — index.ChunkReader: every Read with a non-empty buffer makes progress
    (bytes, a later block, or a later chunk), so the stream ends. *)
From Coq Require Import ZArith List Bool Lia.
From Hts Require Import Base.Prim Model.Flat Model.Reader Model.ChunkReader
  Proofs.FlatLemmas Proofs.ReaderFlat Proofs.ChunkReaderProof.
Import ListNotations.
Open Scope Z_scope.

Ltac Zify.zify_post_hook ::= Z.div_mod_to_equations.

(** Progress of one Read: a chunk was left behind, or bytes were returned, or
    the reader moved to a later block. *)
Definition progress (s : vstate) (cs : list chunk) (s' : vstate) (cs' : list chunk) (bs : list Z) : Prop :=
  (length cs' < length cs)%nat \/ (length cs' = length cs /\ (1 <= zlen bs \/ b_base (v_cur s) < b_base (v_cur s'))).

Lemma cr_skip_prog (F : file) : wf_file F = true -> addressable F = true ->
  forall rest s pre m post c0, cinv F s pre m post c0 rest ->
  exists s1 cs1 e, cr_skip (vM F) s (c0 :: rest) = Ok (s1, cs1, e) /\
    ((e = eNil /\ cr_post F s1 cs1 (rem F (qpos pre s) c0 rest) /\
      match cs1 with c1 :: _ => voffset (snd (v_lc s1)) < voffset (snd c1) | [] => False end /\
      ((length cs1 < length (c0 :: rest))%nat \/ (cs1 = c0 :: rest /\ s1 = s)))
     \/ (e = eEOF /\ rem F (qpos pre s) c0 rest = [])).
Proof.
  intros W Ha. induction rest as [|c1 rest IH]; intros s pre m post c0 [Ok Hev Hle Hso].
  - simpl. destruct (Z.leb_spec (voffset (snd c0)) (voffset (snd (v_lc s)))) as [Hv|Hv].
    + eexists _, _, _. split; [reflexivity|]. right. split; [reflexivity|].
      rewrite (ok_end _ _ _ _ _ Ok) in Hv. destruct c0 as [cb [fe be]]. simpl in *.
      pose proof (vo_le_pos fe be W Ha Ok Hev Hv). unfold rem. simpl.
      rewrite ztake_neg by lia. reflexivity.
    + eexists _, _, _. split; [reflexivity|]. left. split; [reflexivity|]. split; [|split; [lia|right; auto]].
      exists pre, m, post. split; [constructor; assumption|reflexivity].
  - simpl cr_skip. destruct (Z.leb_spec (voffset (snd c0)) (voffset (snd (v_lc s)))) as [Hv|Hv].
    + rewrite (ok_end _ _ _ _ _ Ok) in Hv. destruct c0 as [cb [fe be]]. simpl in Hev, Hle, Hso, Hv.
      pose proof (vo_le_pos fe be W Ha Ok Hev Hv) as Hpos.
      destruct Hso as (Hb1 & He1 & Hlo1 & Hbe1 & Hr1).
      destruct c1 as [[fb1 bb1] [fe1 be1]]. unfold off_ok in Hb1, He1. simpl in Hb1, He1, Hlo1, Hbe1, Hr1.
      simpl fst. simpl snd.
      destruct (seek_ok F s pre m post fb1 bb1 W (ok_split _ _ _ _ _ Ok) (ok_on _ _ _ _ _ Ok) (ok_blocked _ _ _ _ _ Ok) Hb1)
        as (s1 & pre1 & m1 & post1 & Hsk & Ok1 & Hq1 & Hlc1 & _).
      change (m_step (vM F) s (OSeek fb1 bb1)) with (v_step F s (OSeek fb1 bb1)). simpl v_step. rewrite Hsk.
      change (eNil =? eNil) with true. cbv iota.
      assert (Ci1 : cinv F s1 pre1 m1 post1 ((fb1, bb1), (fe1, be1)) rest).
      { constructor; simpl; auto. lia. }
      destruct (IH s1 pre1 m1 post1 _ Ci1) as (s2 & cs2 & e & Hrec & Hcase).
      exists s2, cs2, e. split; [exact Hrec|].
      assert (Hrem : rem F (qpos pre s) (cb, (fe, be)) (((fb1, bb1), (fe1, be1)) :: rest) = rem F (qpos pre1 s1) ((fb1, bb1), (fe1, be1)) rest).
      { unfold rem. simpl snd. rewrite ztake_neg by lia. simpl app. unfold spans. simpl. fold (spans F rest).
        unfold span. simpl. rewrite Hq1. reflexivity. }
      rewrite <- Hrem in Hcase.
      destruct Hcase as [(E1 & E2 & E3 & E4)|E5]; [left|right; exact E5].
      split; [exact E1|]. split; [exact E2|]. split; [exact E3|]. left.
      destruct E4 as [E4|[E4 _]]; [simpl in *; lia|rewrite E4; simpl; lia].
    + eexists _, _, _. split; [reflexivity|]. left. split; [reflexivity|]. split; [|split; [lia|right; auto]].
      exists pre, m, post. split; [constructor; assumption|reflexivity].
Qed.


Lemma cr_read_prog (F : file) : wf_file F = true -> addressable F = true ->
  forall s pre m post c0 rest n, cinv F s pre m post c0 rest -> 0 <= n ->
  exists s' cs' bs e, cr_read (vM F) s (c0 :: rest) n = Ok (s', cs', bs, e) /\ zlen bs <= n /\
    ((e = eNil /\ exists R', rem F (qpos pre s) c0 rest = bs ++ R' /\ cr_post F s' cs' R' /\
        (1 <= n -> progress s (c0 :: rest) s' cs' bs)) \/
     (e = eEOF /\ rem F (qpos pre s) c0 rest = bs)).
Proof.
  intros W Ha s pre m post c0 rest n Ci Hn.
  unfold cr_read.
  destruct (cr_skip_prog F W Ha rest s pre m post c0 Ci) as (s1 & cs1 & e1 & Hsk & Hcase).
  rewrite Hsk.
  destruct Hcase as [(-> & Hpost & Hvo & Hskl)|(-> & Hrem)].
  2:{ simpl. eexists _, _, _, _. split; [reflexivity|]. split; [rewrite zlen_nil; lia|]. right. split; [reflexivity|exact Hrem]. }
  change (negb (eNil =? eNil)) with false. cbv iota.
  destruct cs1 as [|c0' rest']; [contradiction|].
  destruct Hpost as (pre1 & m1 & post1 & [Ok1 Hev1 Hle1 Hso1] & HR). rewrite HR. clear HR Hsk Ci.
  assert (Hprog : forall s' cs' bs,
            (length cs' < length (c0' :: rest'))%nat \/ (cs' = c0' :: rest' /\ (1 <= zlen bs \/ b_base (v_cur s1) < b_base (v_cur s'))) ->
            progress s (c0 :: rest) s' cs' bs).
  { intros s' cs' bs [Hl|[-> Hp]]; unfold progress.
    - left. destruct Hskl as [Hl2|[Hl2 _]]; [lia|rewrite Hl2 in Hl; exact Hl].
    - destruct Hskl as [Hl2|[Hl2 Hs]]; [left; exact Hl2|]. right. rewrite Hl2. split; [reflexivity|]. subst s1. exact Hp. }
  destruct c0' as [cb [fe be]]. unfold off_ok in Hev1. simpl in Hev1, Hle1, Hso1, Hvo. simpl fst. simpl snd.
  destruct (tx_of_okst Ha Ok1) as (Htx & Hp1 & Hp0).
  set (p := b_pos (v_cur s1)) in *.
  change (m_lc (vM F) s1) with (v_lc s1). change (m_blen (vM F) s1) with (b_len (v_cur s1)).
  rewrite (ok_end _ _ _ _ _ Ok1) in Hvo |- *. rewrite Htx in Hvo |- *. simpl fst. simpl snd.
  unfold voffset in Hvo. simpl in Hvo.
  destruct (valid_off_split F fe be W Hev1) as (pre_e & me & post_e & Se & Hbe & Hbo & Hbo'). subst fe.
  assert (Htre : tr F (m_base me, be) = total pre_e + be) by (unfold tr; simpl; rewrite (split_before Se); reflexivity).
  pose proof (ok_split _ _ _ _ _ Ok1) as S1. pose proof (ok_on _ _ _ _ _ Ok1) as On1.
  pose proof (on_member_len On1) as Hblen. fold p in Hblen.
  pose proof On1 as (_ & _ & _ & _ & Hpm & _). fold p in Hpm.
  pose proof (qpos_nonneg Ok1) as Hq0.
  (* want - cursor, and the bound it enforces *)
  set (want := if (be =? 0) && (m_base m1 <? m_base me) then b_len (v_cur s1) else be).
  set (cursor := if m_base m1 =? m_base me then p else 0).
  assert (Hwc : 0 <= want - cursor /\
                (m_base m1 = m_base me -> want - cursor = be - p /\ p < be) /\
                (m_base m1 <> m_base me -> m_base m1 < m_base me /\ cursor = 0 /\
                     (be = 0 -> want = m_len m1 - p) /\ (be <> 0 -> want = be))).
  { unfold want, cursor.
    destruct (Z.eqb_spec (m_base m1) (m_base me)) as [E|NE].
    - rewrite E. rewrite Z.ltb_irrefl, andb_false_r. split; [lia|]. split; [intros _; lia|intros; contradiction].
    - assert (m_base m1 < m_base me) by lia.
      destruct (Z.ltb_spec (m_base m1) (m_base me)); [|lia].
      destruct (Z.eqb_spec be 0); simpl; rewrite ?Hblen; split; try lia; (split; [intros; contradiction|intros _; repeat split; intros; lia]). }
  destruct Hwc as (Hwc0 & Hsame & Hdiff).
  destruct (Z.ltb_spec (want - cursor) 0); [lia|].
  set (k := Z.min n (want - cursor)).
  assert (Hk0 : 0 <= k) by (unfold k; lia).
  destruct (blocked_read F s1 pre1 m1 post1 k W Ha Ok1 Hk0) as
    [(s2 & Hrd & Hpe & Hqe & Hlc2)|(s2 & pre2 & m2 & post2 & k' & Hrd & Ok2 & Hq2 & Hk' & Hkpos & Hwhere)].
  - (* the data ended *)
    change (m_step (vM F) s1 (ORead k)) with (v_step F s1 (ORead k)). simpl v_step. rewrite Hrd.
    change (negb (eEOF =? eNil)) with true. cbv iota. rewrite zlen_nil. simpl.
    eexists _, _, _, _. split; [reflexivity|]. split; [rewrite zlen_nil; lia|]. right. split; [reflexivity|].
    fold p in Hqe. unfold qpos in *. fold p in Hle1 |- *.
    pose proof (tr_le_total F (m_base me) be W Hev1).
    unfold rem. simpl snd. rewrite ztake_neg by lia. rewrite (spans_beyond F W rest' _ Hso1) by lia. reflexivity.
  - fold p in Hwhere, Hrd, Hq2.
    (* the bound: the read does not pass the end of the chunk *)
    assert (Hbound : qpos pre1 s1 + k' <= tr F (m_base me, be)).
    { rewrite Htre. unfold qpos. fold p.
      destruct (Z.eq_dec (m_base m1) (m_base me)) as [E|NE].
      - destruct (Hsame E) as (Hw & Hpb).
        destruct (split_unique S1 Se E) as (-> & -> & ->).
        unfold k in Hk'. lia.
      - destruct (Hdiff NE) as (Hlt & Hc0 & Hw0 & Hw1).
        pose proof (split_order S1 Se Hlt) as Hord.
        destruct Hwhere as [(Hplt & -> & -> & Hkk & _)|(Hpal & _ & _ & _)].
        + lia.
        + destruct (Z.eq_dec be 0) as [Hb0|Hb0].
          * specialize (Hw0 Hb0). unfold k in Hk'. lia.
          * specialize (Hw1 Hb0). unfold k in Hk'. lia. }
    assert (Hsplit := rem_split F (qpos pre1 s1) k' (cb, (m_base me, be)) rest' Hq0 ltac:(lia) Hbound).
    change (m_step (vM F) s1 (ORead k)) with (v_step F s1 (ORead k)). simpl v_step. rewrite Hrd.
    assert (Hzb : zlen (ztake k' (zdrop (total pre1 + p) (flat_data F))) <= k').
    { unfold ztake, zlen. rewrite firstn_length. lia. }
    assert (Hzeq : zlen (ztake k' (zdrop (total pre1 + p) (flat_data F))) = k').
    { apply ztake_zlen. split; [lia|].
      pose proof (tr_le_total F (m_base me) be W Hev1). unfold qpos in Hbound. fold p in Hbound.
      pose proof (total_nonneg pre1).
      assert (Hin : 0 <= total pre1 + p <= zlen (flat_data F)) by (unfold total in *; lia).
      rewrite zlen_zdrop by exact Hin. unfold total in *. lia. }
    assert (Ci2 : cinv F s2 pre2 m2 post2 (cb, (m_base me, be)) rest').
    { constructor; simpl; auto. rewrite Hq2. unfold qpos in Hbound. fold p in Hbound. exact Hbound. }
    destruct (Z.ltb_spec k' k) as [Hshort|Hfull].
    + (* cut short at the end of a block *)
      change (negb (eEOF =? eNil)) with true. cbv iota.
      assert (Hnz : zlen (ztake k' (zdrop (total pre1 + p) (flat_data F))) =? 0 = false).
      { apply Z.eqb_neq. rewrite ztake_zlen; [lia|].
        split; [lia|].
        (* k' bytes are available: the read returned them *)
        pose proof (tr_le_total F (m_base me) be W Hev1). unfold qpos in Hbound. fold p in Hbound.
        pose proof (total_nonneg pre1).
        assert (Hin : 0 <= total pre1 + p <= zlen (flat_data F)) by (unfold total in *; lia).
        rewrite zlen_zdrop by exact Hin. unfold total in *. lia. }
      rewrite Hnz. simpl.
      eexists _, _, _, _. split; [reflexivity|]. split; [unfold k in *; lia|]. left. split; [reflexivity|].
      eexists. split; [exact Hsplit|]. split.
      { exists pre2, m2, post2. split; [exact Ci2|]. rewrite Hq2. unfold qpos. fold p. reflexivity. }
      intros _. apply Hprog. right. split; [reflexivity|]. left. rewrite Hzeq. specialize (Hkpos Hshort). lia.
    + assert (Hkk : k' = k) by lia.
      change (negb (eNil =? eNil)) with false. cbv iota.
      change (m_lc (vM F) s2) with (v_lc s2).
      (* the progress test cannot fire *)
      assert (Hneq : negb (n =? 0) && chunk_eqb (v_lc s2) (v_lc s1) = false).
      { destruct (Z.eqb_spec n 0); [reflexivity|]. simpl.
        unfold chunk_eqb. rewrite (ok_end _ _ _ _ _ Ok2), (ok_end _ _ _ _ _ Ok1), Htx.
        destruct (tx_of_okst Ha Ok2) as (Htx2 & _ & _). rewrite Htx2. simpl.
        destruct Hwhere as [(Hplt & -> & -> & Hkm & _)|(Hpal & Hlt & _ & _)].
        - (* same member: k > 0 *)
          assert (0 < k').
          { destruct (Z.eq_dec (m_base m1) (m_base me)) as [E|NE].
            - destruct (Hsame E). unfold k in *. lia.
            - destruct (Hdiff NE) as (_ & _ & Hw0 & Hw1). destruct (Z.eq_dec be 0); [specialize (Hw0 e)|specialize (Hw1 n1)]; unfold k in *; lia. }
          unfold qpos in Hq2. fold p in Hq2.
          destruct (Z.eqb_spec (b_pos (v_cur s2)) p); [lia|]. rewrite andb_false_r. reflexivity.
        - destruct (Z.eqb_spec (m_base m2) (m_base m1)); [lia|]. rewrite andb_false_r. simpl. reflexivity. }
      rewrite Hneq. simpl orb.
      rewrite (ok_end _ _ _ _ _ Ok2).
      destruct (Z.leb_spec (voffset (m_base me, be)) (voffset (b_tx (v_cur s2)))) as [Hadv|Hstay].
      * (* the chunk is complete *)
        pose proof (vo_le_pos (m_base me) be W Ha Ok2 Hev1 Hadv) as Hge. rewrite Hq2 in Hge.
        assert (Hrem0 : rem F (qpos pre1 s1 + k') (cb, (m_base me, be)) rest' = spans F rest').
        { unfold rem. simpl snd. rewrite ztake_neg by (unfold qpos; fold p; lia). reflexivity. }
        destruct rest' as [|c1 rest''].
        -- eexists _, _, _, _. split; [reflexivity|]. split; [unfold k in *; lia|]. right. split; [reflexivity|].
           rewrite Hrem0 in Hsplit. unfold spans in Hsplit. simpl in Hsplit. rewrite app_nil_r in Hsplit. exact Hsplit.
        -- destruct Hso1 as (Hb1 & He1 & Hlo1 & Hbe1 & Hr1).
           destruct c1 as [[fb1 bb1] [fe1 be1]]. unfold off_ok in Hb1, He1. simpl in Hb1, He1, Hlo1, Hbe1, Hr1.
           simpl fst. simpl snd.
           destruct (seek_ok F s2 pre2 m2 post2 fb1 bb1 W (ok_split _ _ _ _ _ Ok2) (ok_on _ _ _ _ _ Ok2) (ok_blocked _ _ _ _ _ Ok2) Hb1)
             as (s3 & pre3 & m3 & post3 & Hsk3 & Ok3 & Hq3 & _).
           change (m_step (vM F) s2 (OSeek fb1 bb1)) with (v_step F s2 (OSeek fb1 bb1)). simpl v_step. rewrite Hsk3.
           eexists _, _, _, _. split; [reflexivity|]. split; [unfold k in *; lia|]. left. split; [reflexivity|].
           eexists. split; [exact Hsplit|]. split.
           { exists pre3, m3, post3. split.
             ++ constructor; simpl; auto. lia.
             ++ rewrite Hrem0. unfold rem, spans. simpl. fold (spans F rest''). unfold span. simpl. rewrite Hq3. reflexivity. }
           intros _. apply Hprog. left. simpl. lia.
      * eexists _, _, _, _. split; [reflexivity|]. split; [unfold k in *; lia|]. left. split; [reflexivity|].
        eexists. split; [exact Hsplit|]. split.
        { exists pre2, m2, post2. split; [exact Ci2|]. rewrite Hq2. unfold qpos. fold p. reflexivity. }
        intros Hn1. apply Hprog. right. split; [reflexivity|].
        destruct Hwhere as [(Hplt & -> & -> & Hkm & _)|(Hpal & Hlt & _ & _)].
        { left. rewrite Hzeq.
          destruct (Z.eq_dec (m_base m1) (m_base me)) as [E|NE].
          { destruct (Hsame E). unfold k in *. lia. }
          destruct (Hdiff NE) as (_ & _ & Hw0 & Hw1). destruct (Z.eq_dec be 0) as [e0|n1]; [specialize (Hw0 e0)|specialize (Hw1 n1)]; unfold k in *; lia. }
        right. pose proof On1 as (B1 & _). pose proof (ok_on _ _ _ _ _ Ok2) as (B2 & _). lia.
Qed.


(** ---- the measure *)

Definition nafter (F : file) (x : Z) : nat := length (filter (fun m => x <? m_base m) F).

Lemma filter_lt {A} (p q : A -> bool) (l : list A) (a : A) :
  (forall x, p x = true -> q x = true) -> In a l -> q a = true -> p a = false ->
  (length (filter p l) < length (filter q l))%nat.
Proof.
  intros Hpq. induction l as [|x l IH]; intros Hin Hq Hp; [contradiction|].
  assert (Hle : forall l0, (length (filter p l0) <= length (filter q l0))%nat).
  { induction l0 as [|y l0 IH0]; simpl; [lia|]. destruct (p y) eqn:Py; [rewrite (Hpq y Py); simpl; lia|destruct (q y); simpl; lia]. }
  simpl. destruct Hin as [->|Hin].
  - rewrite Hq, Hp. simpl. pose proof (Hle l). lia.
  - specialize (IH Hin Hq Hp). destruct (p x) eqn:Px; [rewrite (Hpq x Px); simpl; lia|destruct (q x); simpl; lia].
Qed.

Lemma nafter_lt (F : file) (x x' : Z) (m' : member) : In m' F -> m_base m' = x' -> x < x' -> (nafter F x' < nafter F x)%nat.
Proof.
  intros Hin Hb Hlt. unfold nafter. apply (filter_lt _ _ F m'); auto.
  - intros y Hy. apply Z.ltb_lt in Hy. apply Z.ltb_lt. lia.
  - apply Z.ltb_lt. lia.
  - apply Z.ltb_ge. lia.
Qed.

Lemma nafter_le (F : file) (x : Z) : (nafter F x <= length F)%nat.
Proof. unfold nafter. induction F as [|m F IH]; simpl; [lia|]. destruct (x <? m_base m); simpl; lia. Qed.

Definition weight (F : file) (B : Z) (s : vstate) (cs : list chunk) (R : list Z) : Z :=
  Z.of_nat (length cs) * ((B + 1) * (Z.of_nat (length F) + 1)) + zlen R * (Z.of_nat (length F) + 1)
  + Z.of_nat (nafter F (b_base (v_cur s))).

Lemma weight_nonneg F B s cs R : 0 <= B -> 0 <= weight F B s cs R.
Proof. intros. unfold weight. pose proof (zlen_nonneg R). nia. Qed.

Lemma weight_decreases (F : file) (B : Z) (s s' : vstate) (cs cs' : list chunk) (R R' bs : list Z) :
  progress s cs s' cs' bs -> R = bs ++ R' -> zlen R <= B ->
  (exists m', In m' F /\ m_base m' = b_base (v_cur s')) ->
  weight F B s' cs' R' < weight F B s cs R.
Proof.
  intros Hp HR HB (m' & Hin & Hb). unfold weight.
  pose proof (nafter_le F (b_base (v_cur s'))). pose proof (nafter_le F (b_base (v_cur s))).
  pose proof (zlen_nonneg R'). pose proof (zlen_nonneg bs).
  assert (HzR : zlen R = zlen bs + zlen R') by (rewrite HR, zlen_app; reflexivity).
  set (N := Z.of_nat (length F)) in *.
  assert (HN : 0 <= N) by (unfold N; lia).
  pose proof (zlen_nonneg R).
  set (a' := Z.of_nat (nafter F (b_base (v_cur s')))) in *. set (a := Z.of_nat (nafter F (b_base (v_cur s)))) in *.
  assert (Ha' : 0 <= a' <= N) by (unfold a', N; lia). assert (Ha0 : 0 <= a <= N) by (unfold a, N; lia).
  set (K := (B + 1) * (N + 1)).
  assert (HK : zlen R' * (N + 1) + a' < K) by (unfold K; nia).
  destruct Hp as [Hl|[Hl [Hb1|Hmv]]].
  - assert (Hc : Z.of_nat (length cs') + 1 <= Z.of_nat (length cs)) by lia.
    assert (Z.of_nat (length cs') * K + K <= Z.of_nat (length cs) * K) by nia.
    assert (0 <= zlen R * (N + 1)) by nia. lia.
  - rewrite Hl. assert (zlen R' * (N + 1) + (N + 1) <= zlen R * (N + 1)) by nia. lia.
  - rewrite Hl. pose proof (nafter_lt F _ _ m' Hin Hb Hmv). assert (zlen R' * (N + 1) <= zlen R * (N + 1)) by nia. unfold a', a. lia.
Qed.

Lemma cr_post_member (F : file) (s : vstate) (cs : list chunk) (R : list Z) :
  cr_post F s cs R -> exists m', In m' F /\ m_base m' = b_base (v_cur s).
Proof.
  destruct cs as [|c0 rest]; [contradiction|]. intros (pre & m & post & [Ok _ _ _] & _).
  exists m. split.
  - destruct (ok_split _ _ _ _ _ Ok) as [-> _]. apply in_or_app. right. left. reflexivity.
  - destruct (ok_on _ _ _ _ _ Ok) as (B1 & _). symmetry. exact B1.
Qed.

Lemma cr_reads_terminate (F : file) : wf_file F = true -> addressable F = true ->
  forall bufs s cs R B, cr_post F s cs R -> Forall (fun n => 1 <= n) bufs -> zlen R <= B ->
  weight F B s cs R < Z.of_nat (length bufs) ->
  exists l, cr_reads (vM F) s cs bufs = Ok l /\ snd (last l ([], 0)) = eEOF.
Proof.
  intros W Ha. induction bufs as [|n bufs IH]; intros s cs R B Hpost Hb HB Hw.
  - simpl in Hw. pose proof (weight_nonneg F B s cs R ltac:(pose proof (zlen_nonneg R); lia)). lia.
  - destruct cs as [|c0 rest]; [contradiction|].
    pose proof Hpost as (pre & m & post & Ci & HR).
    inversion Hb as [|? ? Hn Hb']; subst.
    destruct (cr_read_prog F W Ha s pre m post c0 rest n Ci ltac:(lia)) as (s' & cs' & bs & e & Hrd & Hz & Hcase).
    rewrite cr_reads_cons, Hrd.
    destruct Hcase as [(-> & R' & HR' & Hpost' & Hprog)|(-> & HR')].
    + change (negb (eNil =? eNil)) with false. cbv iota.
      pose proof (weight_decreases F B s s' (c0 :: rest) cs' _ R' bs (Hprog Hn) HR' HB (cr_post_member F s' cs' R' Hpost')) as Hdec.
      assert (HB' : zlen R' <= B) by (rewrite HR', zlen_app in HB; pose proof (zlen_nonneg bs); lia).
      destruct (IH s' cs' R' B Hpost' Hb' HB' ltac:(simpl length in Hw; lia)) as (l & Hl & Hlast).
      rewrite Hl. eexists. split; [reflexivity|].
      destruct l as [|x l']; [simpl in Hlast; discriminate|]. exact Hlast.
    + change (negb (eEOF =? eNil)) with true. cbv iota. eexists. split; [reflexivity|]. reflexivity.
Qed.

Lemma reads_ok_eof : forall l tail, reads_ok l tail -> snd (last l ([], 0)) = eEOF -> tail = [].
Proof.
  induction l as [|[bs e] l IH]; intros tail Hok Hl; [simpl in Hl; discriminate|].
  destruct l as [|y l'].
  - simpl in *. destruct Hok as [->|[_ Ht]]; [discriminate|exact Ht].
  - destruct Hok as [_ Hok]. apply (IH tail Hok). exact Hl.
Qed.

(** C13, ChunkReader: with enough non-empty buffers the stream is delivered completely and ends with io.EOF. *)
Theorem chunkreader_terminates_v (F : file) (cs : list chunk) (bufs : list Z) :
  wf_file F = true -> F <> [] -> addressable F = true ->
  sorted_from F 0 cs -> Forall (fun n => 1 <= n) bufs ->
  let B := zlen (spans F cs) in
  let N := Z.of_nat (length F) in
  (Z.of_nat (length cs) + 1) * ((B + 1) * (N + 1)) <= Z.of_nat (length bufs) ->
  exists s1 l, cr_new (vM F) (fst (v_init F)) cs = Ok (s1, eNil) /\
    cr_reads (vM F) s1 cs bufs = Ok l /\ snd (last l ([], 0)) = eEOF /\ concat (map fst l) = spans F cs.
Proof.
  intros W Hne Ha Hso Hb B N Hlen.
  assert (Hb0 : Forall (fun n => 0 <= n) bufs) by (eapply Forall_impl; [|exact Hb]; simpl; intros; lia).
  destruct (chunkreader_exact_v F cs bufs W Hne Ha Hso Hb0) as (s1 & Hnew & l & Hl & Hsz & tail & Ht & Hok).
  exists s1, l. split; [exact Hnew|]. split; [exact Hl|].
  assert (Hlast : snd (last l ([], 0)) = eEOF).
  { destruct cs as [|c0 rest].
    - (* no chunks: the first Read reports io.EOF *)
      destruct bufs as [|n bufs]; [exfalso; assert (HB0 : B = 0) by reflexivity; assert (HN0 : 0 <= N) by (unfold N; lia); simpl length in Hlen; nia|].
      unfold cr_new in Hnew. simpl in Hnew. simpl in Hl. inversion Hl; subst. reflexivity.
    - (* re-establish the invariant after NewChunkReader, as in the exactness proof *)
      destruct (init_okst F W Hne) as (m0 & post0 & HF & S0 & On0 & He0).
      unfold cr_new in Hnew.
      change (m_step (vM F) (fst (v_init F)) (OBlocked true)) with (v_step F (fst (v_init F)) (OBlocked true)) in Hnew.
      simpl v_step in Hnew.
      set (s0 := mkV (v_cur (fst (v_init F))) (v_err (fst (v_init F))) (v_lc (fst (v_init F))) true) in *.
      pose proof Hso as (Hbv & Hev & Hlo & Hbe & Hr).
      destruct c0 as [[fb bb] [fe be]]. unfold off_ok in Hbv, Hev. simpl in Hbv, Hev, Hlo, Hbe, Hr. simpl fst in Hnew. simpl snd in Hnew.
      destruct (seek_ok F s0 [] m0 post0 fb bb W S0 On0 eq_refl Hbv) as (s1' & pre1 & m1 & post1 & Hsk & Ok1 & Hq1 & _).
      change (m_step (vM F) s0 (OSeek fb bb)) with (v_step F s0 (OSeek fb bb)) in Hnew. simpl v_step in Hnew. rewrite Hsk in Hnew.
      inversion Hnew; subst s1'.
      assert (Hpost : cr_post F s1 (((fb, bb), (fe, be)) :: rest) (spans F (((fb, bb), (fe, be)) :: rest))).
      { exists pre1, m1, post1. split.
        - constructor; simpl; auto. lia.
        - unfold rem, spans. simpl. fold (spans F rest). unfold span. simpl. rewrite Hq1. reflexivity. }
      destruct (cr_reads_terminate F W Ha bufs s1 _ _ B Hpost Hb ltac:(apply Z.le_refl)) as (l' & Hl' & Hlast').
      + unfold weight. fold N. pose proof (nafter_le F (b_base (v_cur s1))) as Hna.
        pose proof (zlen_nonneg (spans F (((fb, bb), (fe, be)) :: rest))) as HB0.
        change (zlen (spans F ((fb, bb, (fe, be)) :: rest))) with B in HB0 |- *.
        assert (HN : 0 <= N) by (unfold N; lia).
        set (a := Z.of_nat (nafter F (b_base (v_cur s1)))). assert (Ha1 : 0 <= a <= N) by (unfold a, N; lia).
        set (K := (B + 1) * (N + 1)) in *.
        assert (B * (N + 1) + a < K) by (unfold K; nia).
        rewrite Z.mul_add_distr_r in Hlen. simpl length in Hlen |- *. lia.
      + assert (Hll : Ok l = Ok l') by (rewrite <- Hl, <- Hl'; reflexivity). inversion Hll; subst. exact Hlast'. }
  split; [exact Hlast|].
  rewrite (reads_ok_eof l tail Hok Hlast), app_nil_r in Ht. symmetry. exact Ht.
Qed.

From Hts Require Import Proofs.ReaderStore Proofs.ClientSim.

(** The same on the reader with store objects (bgzf.Reader, rd = 1, no cache). *)
Theorem chunkreader_terminates_r (F : file) (ch : list nat) (cs : list chunk) (bufs : list Z) :
  wf_file F = true -> F <> [] -> addressable F = true ->
  sorted_from F 0 cs -> Forall (fun n => 1 <= n) bufs ->
  (Z.of_nat (length cs) + 1) * ((zlen (spans F cs) + 1) * (Z.of_nat (length F) + 1)) <= Z.of_nat (length bufs) ->
  exists s1 l, cr_new (rM F ch) (fst (r_init F)) cs = Ok (s1, eNil) /\
    cr_reads (rM F ch) s1 cs bufs = Ok l /\ snd (last l ([], 0)) = eEOF /\ concat (map fst l) = spans F cs.
Proof.
  intros W Hne Ha Hso Hb Hlen.
  destruct (chunkreader_terminates_v F cs bufs W Hne Ha Hso Hb Hlen) as (s1 & l & Hnew & Hl & Hlast & Hall).
  assert (HR0 : emb_rel (fst (v_init F)) (fst (r_init F))) by (rewrite r_init_emb; reflexivity).
  destruct (sim_cr_new (vM F) (rM F ch) emb_rel (emb_rel_step F ch) cs _ _ _ _ HR0 Hnew) as (s2 & Hnew2 & HR1).
  exists s2, l. split; [exact Hnew2|]. split; [|split; assumption].
  assert (Hlc : forall (a : MS (vM F)) (b : MS (rM F ch)), emb_rel a b -> m_lc (vM F) a = m_lc (rM F ch) b) by (intros a b ->; reflexivity).
  assert (Hbl : forall (a : MS (vM F)) (b : MS (rM F ch)), emb_rel a b -> m_blen (vM F) a = m_blen (rM F ch) b) by (intros a b ->; reflexivity).
  exact (sim_cr_reads (vM F) (rM F ch) emb_rel Hlc Hbl (emb_rel_step F ch) bufs cs s1 s2 l HR1 Hl).
Qed.
