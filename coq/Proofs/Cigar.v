(** C16: proofs about the CIGAR / record arithmetic model (Model/Cigar.v)
    against the specification (Model/SamSpecArith.v). *)
From Coq Require Import ZArith Lia List Bool.
From Hts Require Import Base.Prim Base.Bits Base.BinArith Generated
  Model.SamSpecArith Model.Cigar Model.Bins Proofs.Bins.
Import ListNotations.
Open Scope Z_scope.

(** ** The generated accessors are the BAM packing [len << 4 | op]. *)
Lemma type_is_mod w : sam_CigarOp_Type w = Ok (spec_op_code w).
Proof.
  unfold sam_CigarOp_Type, spec_op_code. f_equal.
  change 15 with (2 ^ 4 - 1). rewrite land_ones_mod by lia. change (2 ^ 4) with 16.
  pose proof (Z.mod_pos_bound w 16 ltac:(lia)).
  unfold u8, wrapu. apply Z.mod_small. lia.
Qed.

Lemma len_is_div w : sam_CigarOp_Len w = Ok (spec_op_len w).
Proof. unfold sam_CigarOp_Len, spec_op_len. f_equal. rewrite shiftr_div by lia. reflexivity. Qed.

Lemma newcigarop_roundtrip_gen t n :
  0 <= t <= 15 -> 0 <= n <= 2 ^ 28 - 1 ->
  exists w, sam_NewCigarOp t n = Ok w /\ 0 <= w < 2 ^ 32 /\
            sam_CigarOp_Type w = Ok t /\ sam_CigarOp_Len w = Ok n.
Proof.
  intros Ht Hn. unfold sam_NewCigarOp.
  rewrite (proj2 (Z.ltb_ge 268435455 (u64 n))) by (unfold u64, wrapu; rewrite Z.mod_small; lia).
  eexists. split; [reflexivity|].
  rewrite (u32_id t) by lia. rewrite (u32_id n) by lia.
  rewrite shiftl_mul by lia. rewrite (u32_id (n * 2 ^ 4)) by lia.
  rewrite lor_low_high by lia.
  rewrite type_is_mod, len_is_div. unfold spec_op_code, spec_op_len.
  change (2 ^ 4) with 16.
  split; [lia|]. split; f_equal.
  - rewrite Z.mod_add by lia. apply Z.mod_small. lia.
  - rewrite Z.div_add by lia. rewrite Z.div_small by lia. lia.
Qed.

Lemma newcigarop_panics_gen t n :
  - 2 ^ 63 <= n < 2 ^ 63 -> (n < 0 \/ 2 ^ 28 - 1 < n) -> sam_NewCigarOp t n = Panic 2.
Proof.
  intros Hr Hn. unfold sam_NewCigarOp.
  assert (H : 268435455 <? u64 n = true).
  { apply Z.ltb_lt. unfold u64, wrapu. destruct Hn as [Hn|Hn].
    - replace (n mod 2 ^ 64) with (n + 2 ^ 64); [lia|].
      apply Z.mod_unique with (q := -1); lia.
    - rewrite Z.mod_small; lia. }
  rewrite H. reflexivity.
Qed.

(** ** The generated consume table is the "consumes" columns of SAMv1 1.4. *)
Definition coeff_q (o : cop) : Z := if consumes_query o then 1 else 0.
Definition coeff_r (o : cop) : Z :=
  match o with opB => -1 | _ => if consumes_ref o then 1 else 0 end.

Lemma consumes_known k o : cop_of_code k = Some o -> consumes k = Ok (coeff_q o, coeff_r o).
Proof.
  intros H. destruct k as [|p|p]; try discriminate H.
  - injection H as <-. reflexivity.
  - do 4 (try destruct p as [p|p|]); simpl in H; try discriminate H; injection H as <-; reflexivity.
Qed.

Lemma code_is_H k o : cop_of_code k = Some o -> (k =? sam_CigarHardClipped) = is_H (o, 0).
Proof.
  intros H. destruct k as [|p|p]; try discriminate H.
  - injection H as <-. reflexivity.
  - do 4 (try destruct p as [p|p|]); simpl in H; try discriminate H; injection H as <-; reflexivity.
Qed.

Lemma code_is_S k o : cop_of_code k = Some o -> (k =? sam_CigarSoftClipped) = is_S (o, 0).
Proof.
  intros H. destruct k as [|p|p]; try discriminate H.
  - injection H as <-. reflexivity.
  - do 4 (try destruct p as [p|p|]); simpl in H; try discriminate H; injection H as <-; reflexivity.
Qed.

Lemma code_is_B k o : cop_of_code k = Some o ->
  (k =? sam_CigarBack) = match o with opB => true | _ => false end.
Proof.
  intros H. destruct k as [|p|p]; try discriminate H.
  - injection H as <-. reflexivity.
  - do 4 (try destruct p as [p|p|]); simpl in H; try discriminate H; injection H as <-; reflexivity.
Qed.

Lemma op_consume_known w o :
  cop_of_code (spec_op_code w) = Some o ->
  op_consume w = Ok (spec_op_len w, coeff_q o, coeff_r o).
Proof.
  intros H. unfold op_consume. rewrite len_is_div, type_is_mod. cbn [obind].
  rewrite (consumes_known _ _ H). reflexivity.
Qed.

(** ** Decoding words into specification operations *)
Lemma decode_cons w tl sc :
  spec_decode (w :: tl) = Some sc ->
  exists o r, cop_of_code (spec_op_code w) = Some o /\ spec_decode tl = Some r /\
              sc = (o, spec_op_len w) :: r.
Proof.
  cbn [spec_decode]. destruct (cop_of_code (spec_op_code w)) as [o|]; [|discriminate].
  destruct (spec_decode tl) as [r|]; [|discriminate].
  intros [= <-]. exists o, r. auto.
Qed.

Lemma decode_app a b sa sb :
  spec_decode a = Some sa -> spec_decode b = Some sb -> spec_decode (a ++ b) = Some (sa ++ sb).
Proof.
  revert sa. induction a as [|w a IH]; intros sa Ha Hb.
  - injection Ha as <-. assumption.
  - destruct (decode_cons _ _ _ Ha) as (o & r & Ho & Hr & ->).
    cbn [app spec_decode]. rewrite Ho, (IH r Hr Hb). reflexivity.
Qed.

Lemma decode_length c sc : spec_decode c = Some sc -> length sc = length c.
Proof.
  revert sc. induction c as [|w c IH]; intros sc H.
  - injection H as <-. reflexivity.
  - destruct (decode_cons _ _ _ H) as (o & r & _ & Hr & ->). simpl. rewrite (IH r Hr). reflexivity.
Qed.

Lemma decode_known c :
  Forall (fun w => 0 <= spec_op_code w <= 9) c -> exists sc, spec_decode c = Some sc.
Proof.
  induction 1 as [|w c Hw _ [sc IH]]; [exists []; reflexivity|].
  assert (exists o, cop_of_code (spec_op_code w) = Some o) as [o Ho].
  { destruct (spec_op_code w) as [|p|p]; [eexists; reflexivity| |lia].
    do 4 (try destruct p as [p|p|]); try lia; eexists; reflexivity. }
  exists ((o, spec_op_len w) :: sc). cbn [spec_decode]. rewrite Ho, IH. reflexivity.
Qed.

Lemma decode_lens_nonneg c sc :
  spec_decode c = Some sc -> Forall (fun w => 0 <= w) c -> Forall (fun x => 0 <= snd x) sc.
Proof.
  revert sc. induction c as [|w c IH]; intros sc H Hc.
  - injection H as <-. constructor.
  - destruct (decode_cons _ _ _ H) as (o & r & _ & Hr & ->).
    inversion Hc; subst. constructor; [|apply IH; assumption].
    simpl. unfold spec_op_len. apply Z.div_pos; lia.
Qed.

(** ** Lengths *)
Lemma lengths_loop_spec c : forall sc r q,
  spec_decode c = Some sc ->
  lengths_loop c r q = Ok (r + spec_reflen sc, q + spec_querylen sc).
Proof.
  induction c as [|w c IH]; intros sc r q H.
  - injection H as <-. simpl. f_equal. f_equal; lia.
  - destruct (decode_cons _ _ _ H) as (o & tl & Ho & Htl & ->).
    cbn [lengths_loop]. rewrite (op_consume_known _ _ Ho). cbn [obind].
    rewrite type_is_mod. cbn [obind]. rewrite (code_is_B _ _ Ho).
    rewrite (IH tl _ _ Htl). cbn [spec_reflen spec_querylen].
    f_equal. destruct o; cbn; f_equal; lia.
Qed.

Lemma lengths_is_spec_gen c sc :
  spec_decode c = Some sc -> cigar_lengths c = Ok (spec_reflen sc, spec_querylen sc).
Proof. intros H. unfold cigar_lengths. rewrite (lengths_loop_spec c sc 0 0 H). reflexivity. Qed.

(** ** End *)
Lemma go_max_max a b : go_max a b = Z.max a b.
Proof. unfold go_max. destruct (Z.ltb_spec a b); lia. Qed.

Lemma ref_step_coeff o n : ref_step (o, n) = n * coeff_r o.
Proof. destruct o; cbn; lia. Qed.

Lemma spec_end_from_ge cur l : cur <= spec_end_from cur l.
Proof. destruct l; simpl; lia. Qed.

Lemma end_loop_spec c : forall sc cur e,
  spec_decode c = Some sc -> cur <= e ->
  end_loop c cur e = Ok (Z.max e (spec_end_from cur sc)).
Proof.
  induction c as [|w c IH]; intros sc cur e H Hle.
  - injection H as <-. simpl. f_equal. lia.
  - destruct (decode_cons _ _ _ H) as (o & tl & Ho & Htl & ->).
    cbn [end_loop]. rewrite (op_consume_known _ _ Ho). cbn [obind].
    rewrite go_max_max. rewrite (IH tl _ _ Htl) by lia.
    cbn [spec_end_from]. rewrite ref_step_coeff.
    pose proof (spec_end_from_ge (cur + spec_op_len w * coeff_r o) tl).
    f_equal. lia.
Qed.

Lemma land_4 a : Z.land a 4 = if Z.testbit a 2 then 4 else 0.
Proof.
  apply Z.bits_inj'. intros n Hn. rewrite Z.land_spec.
  change 4 with (2 ^ 2). rewrite Z.pow2_bits_eqb by lia.
  destruct (Z.eqb_spec 2 n) as [<-|Hne].
  - rewrite andb_true_r. destruct (Z.testbit a 2).
    + rewrite Z.pow2_bits_eqb by lia. reflexivity.
    + rewrite Z.bits_0. reflexivity.
  - rewrite andb_false_r. destruct (Z.testbit a 2).
    + rewrite Z.pow2_bits_eqb by lia. symmetry. apply Z.eqb_neq. assumption.
    + rewrite Z.bits_0. reflexivity.
Qed.

Lemma unmapped_flag flags : negb (Z.land flags sam_Unmapped =? 0) = spec_unmapped flags.
Proof.
  change sam_Unmapped with 4. rewrite land_4. unfold spec_unmapped.
  destruct (Z.testbit flags 2); reflexivity.
Qed.

Lemma record_end_spec flags pos c sc :
  spec_decode c = Some sc -> record_end flags pos c = Ok (spec_end flags pos sc).
Proof.
  intros H. unfold record_end, spec_end. rewrite unmapped_flag.
  pose proof (decode_length _ _ H) as Hl.
  destruct (spec_unmapped flags); [reflexivity|]. cbn [orb].
  destruct c as [|w c].
  - destruct sc; [reflexivity|discriminate].
  - destruct sc as [|x sc]; [discriminate|].
    replace (zlen (w :: c) =? 0) with false
      by (symmetry; apply Z.eqb_neq; unfold zlen; simpl length; lia).
    rewrite (end_loop_spec _ _ pos pos H) by lia.
    pose proof (spec_end_from_ge pos (x :: sc)). f_equal. lia.
Qed.

Lemma reflen_nonneg sc : Forall (fun x => 0 <= snd x) sc -> 0 <= spec_reflen sc.
Proof.
  induction 1 as [|[o n] sc Hn _ IH]; simpl; [lia|]. simpl in Hn.
  destruct (consumes_ref o); lia.
Qed.

Lemma spec_end_from_no_back sc : forall cur,
  has_back sc = false -> Forall (fun x => 0 <= snd x) sc ->
  spec_end_from cur sc = cur + spec_reflen sc.
Proof.
  induction sc as [|[o n] sc IH]; intros cur Hb Hn; simpl; [lia|].
  simpl in Hb. apply orb_false_iff in Hb as [Ho Hb].
  inversion Hn as [|? ? Hn0 Hn']; subst. simpl in Hn0.
  rewrite (IH _ Hb Hn'). pose proof (reflen_nonneg sc Hn').
  unfold ref_step. simpl fst; simpl snd.
  destruct o; simpl in *; try discriminate; lia.
Qed.

Lemma record_end_no_back flags pos c sc :
  spec_decode c = Some sc -> spec_unmapped flags = false -> c <> [] ->
  has_back sc = false -> Forall (fun w => 0 <= w) c ->
  record_end flags pos c = Ok (pos + spec_reflen sc).
Proof.
  intros H Hu Hc Hb Hw. rewrite (record_end_spec _ _ _ _ H). f_equal.
  unfold spec_end. rewrite Hu. cbn [orb].
  destruct sc as [|x sc'].
  - destruct c; [congruence|]. apply decode_length in H. discriminate.
  - apply spec_end_from_no_back; [assumption|]. eapply decode_lens_nonneg; eassumption.
Qed.

Lemma record_len_spec flags pos c sc :
  spec_decode c = Some sc -> record_len flags pos c = Ok (spec_len flags pos sc).
Proof.
  intros H. unfold record_len, spec_len, record_start.
  rewrite (record_end_spec _ _ _ _ H). reflexivity.
Qed.

(** ** Bin *)
Lemma record_bin_spec flags pos c sc :
  spec_decode c = Some sc -> -1 <= pos < 2 ^ 31 ->
  record_bin flags pos c = Ok (spec_bin flags pos sc).
Proof.
  intros H Hp. unfold record_bin, sam_Record_Bin, spec_bin.
  rewrite (record_end_spec _ _ _ _ H). cbn [obind].
  apply binfor_is_spec_gen. assumption.
Qed.

Lemma spec_reg2bin_range b e : 0 <= b < 2 ^ 29 -> 0 <= spec_reg2bin b e < 37449.
Proof.
  intros Hb. unfold spec_reg2bin. cbv zeta.
  change ((Z.shiftl 1 15 - 1) / 7) with 4681.
  change ((Z.shiftl 1 12 - 1) / 7) with 585.
  change ((Z.shiftl 1 9 - 1) / 7) with 73.
  change ((Z.shiftl 1 6 - 1) / 7) with 9.
  change ((Z.shiftl 1 3 - 1) / 7) with 1.
  pose proof (shiftr_nonneg b 14 ltac:(lia)). pose proof (shiftr_lt_pow b 14 15 ltac:(lia) ltac:(lia) ltac:(simpl; lia)).
  pose proof (shiftr_nonneg b 17 ltac:(lia)). pose proof (shiftr_lt_pow b 17 12 ltac:(lia) ltac:(lia) ltac:(simpl; lia)).
  pose proof (shiftr_nonneg b 20 ltac:(lia)). pose proof (shiftr_lt_pow b 20 9 ltac:(lia) ltac:(lia) ltac:(simpl; lia)).
  pose proof (shiftr_nonneg b 23 ltac:(lia)). pose proof (shiftr_lt_pow b 23 6 ltac:(lia) ltac:(lia) ltac:(simpl; lia)).
  pose proof (shiftr_nonneg b 26 ltac:(lia)). pose proof (shiftr_lt_pow b 26 3 ltac:(lia) ltac:(lia) ltac:(simpl; lia)).
  repeat match goal with |- context [if ?c then _ else _] => destruct c end; lia.
Qed.

Lemma spec_reg2bin_unplaced : spec_reg2bin (-1) 0 = 4680.
Proof. reflexivity. Qed.

(** ** Every uint32 word decodes: codes 10..15 are the undefined operation,
    which consumes nothing (Consumes clamps them to the empty lastCigar row). *)
Lemma code_range w : 0 <= spec_op_code w < 16.
Proof. unfold spec_op_code. apply Z.mod_pos_bound. lia. Qed.

Lemma cop_of_code_total k : 0 <= k < 16 -> exists o, cop_of_code k = Some o.
Proof.
  intros H. destruct k as [|p|p]; [eexists; reflexivity| |lia].
  do 4 (try destruct p as [p|p|]); try lia; eexists; reflexivity.
Qed.

Lemma decode_total c : exists sc, spec_decode c = Some sc.
Proof.
  induction c as [|w c [sc IH]]; [exists []; reflexivity|].
  destruct (cop_of_code_total _ (code_range w)) as [o Ho].
  exists ((o, spec_op_len w) :: sc). cbn [spec_decode]. rewrite Ho, IH. reflexivity.
Qed.

Lemma undefined_code_is_opU k : 10 <= k <= 15 -> cop_of_code k = Some opU.
Proof.
  intros H. destruct k as [|p|p]; try lia.
  do 4 (try destruct p as [p|p|]); try lia; reflexivity.
Qed.

Lemma undefined_op_consumes_nothing_gen k :
  10 <= k <= 15 -> consumes k = Ok (0, 0).
Proof. intros H. rewrite (consumes_known k opU (undefined_code_is_opU k H)). reflexivity. Qed.

(** Consumes never panics, whatever the type byte. *)
Lemma consumes_total k : 0 <= k -> exists q r, consumes k = Ok (q, r).
Proof.
  intros H. unfold consumes, sam_CigarOpType_Consumes.
  destruct (Z.ltb_spec 10 k).
  - exists 0, 0. reflexivity.
  - replace ((0 <=? k) && (k <? zlen sam_consume)) with true.
    + destruct (nth (Z.to_nat k) sam_consume (0, 0)) as [q r]. exists q, r. reflexivity.
    + symmetry. apply andb_true_intro. change (zlen sam_consume) with 11.
      split; [apply Z.leb_le|apply Z.ltb_lt]; lia.
Qed.

(** ** End to end: the bin of a placed record is listed for every query that
    overlaps the record's alignment. *)
Lemma record_bin_in_query_bins_gen flags pos c sc b2 e2 :
  spec_decode c = Some sc -> 0 <= pos ->
  pos < spec_end flags pos sc <= 2 ^ 29 ->
  0 <= b2 -> b2 < e2 <= 2 ^ 29 ->
  pos < e2 -> b2 < spec_end flags pos sc ->
  exists k l, record_bin flags pos c = Ok k /\ overlapping_bins_for b2 e2 = Ok l /\ In k l.
Proof.
  intros H Hp He Hb2 He2 Ho1 Ho2.
  exists (spec_bin flags pos sc), (spec_reg2bins b2 e2).
  split; [apply record_bin_spec; [assumption|lia]|].
  split; [apply obf_is_spec_gen; lia|].
  unfold spec_bin. apply bai_bin_in_bins_spec; lia.
Qed.
