(** C16: Cigar.IsValid (the Go loop with its early returns and its c[i-1] /
    c[i+1] look-ups) decides exactly the validity rules of SAMv1 1.4. *)
From Coq Require Import ZArith Lia List Bool Btauto.
From Hts Require Import Base.Prim Base.Bits Base.BinArith Generated
  Model.SamSpecArith Model.Cigar Proofs.Cigar.
Import ListNotations.
Open Scope Z_scope.

(** The rule the code applies at one position: a local look at the
    neighbours instead of the specification's "only H between here and the end". *)
Definition inner_b (before after : list sop) : bool :=
  match before, after with [], _ => false | _, [] => false | _, _ => true end.

Definition code_clip_at (before : list sop) (x : sop) (after : list sop) : bool :=
  negb (is_H x && inner_b before after)
  && negb (is_S x && inner_b before after && negb (is_H (last before x)) && negb (is_H (hd x after))).

Fixpoint all_splits (P : list sop -> sop -> list sop -> bool) (before rest : list sop) : bool :=
  match rest with
  | [] => true
  | x :: tl => P before x tl && all_splits P (before ++ [x]) tl
  end.

Fixpoint code_valid_from (before rest : list sop) (len off : Z) : bool :=
  match rest with
  | [] => len =? 0
  | x :: tl =>
      code_clip_at before x tl
      && negb ((off <? 0) && consumes_query (fst x))
      && code_valid_from (before ++ [x]) tl (len - snd x * coeff_q (fst x)) (off + snd x * coeff_r (fst x))
  end.

(** ** Step 1: the Go loop computes [code_valid_from]. *)
Lemma cigar_at_mid pre x tl : cigar_at (pre ++ x :: tl) (zlen pre) = Ok x.
Proof.
  unfold cigar_at, inb, getz. rewrite zlen_app.
  pose proof (zlen_nonneg pre). pose proof (zlen_nonneg (x :: tl)).
  assert (zlen (x :: tl) = 1 + zlen tl) by (unfold zlen; simpl length; lia).
  pose proof (zlen_nonneg tl).
  replace ((0 <=? zlen pre) && (zlen pre <? zlen pre + zlen (x :: tl))) with true
    by (symmetry; apply andb_true_intro; split; [apply Z.leb_le|apply Z.ltb_lt]; lia).
  unfold zlen. rewrite Nat2Z.id. rewrite nth_middle. reflexivity.
Qed.

Lemma type_is_not_at pre x tl o :
  cop_of_code (spec_op_code x) = Some o ->
  type_is_not (pre ++ x :: tl) (zlen pre) sam_CigarHardClipped = Ok (negb (is_H (o, 0))).
Proof.
  intros Ho. unfold type_is_not. rewrite cigar_at_mid. cbn [obind].
  rewrite type_is_mod. cbn [obind]. rewrite (code_is_H _ _ Ho). reflexivity.
Qed.

Lemma decode_app_inv a b s :
  spec_decode (a ++ b) = Some s ->
  exists sa sb, spec_decode a = Some sa /\ spec_decode b = Some sb /\ s = sa ++ sb.
Proof.
  revert s. induction a as [|w a IH]; intros s H.
  - exists [], s. auto.
  - cbn [app] in H. destruct (decode_cons _ _ _ H) as (o & r & Ho & Hr & ->).
    destruct (IH r Hr) as (sa & sb & Ha & Hb & ->).
    exists ((o, spec_op_len w) :: sa), sb. cbn [spec_decode]. rewrite Ho, Ha. auto.
Qed.

Lemma inner_eq (pre : list Z) (w : Z) (tl : list Z) (spre stl : list sop) :
  length spre = length pre -> length stl = length tl ->
  negb (zlen pre =? 0) && negb (zlen pre =? zlen (pre ++ w :: tl) - 1) = inner_b spre stl.
Proof.
  intros H1 H2. rewrite zlen_app. unfold inner_b, zlen.
  destruct spre as [|a spre], pre as [|p pre]; try discriminate; [reflexivity|].
  destruct stl as [|b stl], tl as [|t tl]; try discriminate; simpl length.
  - destruct (Z.eqb_spec (Z.of_nat (S (length pre))) 0); [lia|].
    destruct (Z.eqb_spec (Z.of_nat (S (length pre))) (Z.of_nat (S (length pre)) + Z.of_nat 1 - 1)); [reflexivity|lia].
  - destruct (Z.eqb_spec (Z.of_nat (S (length pre))) 0); [lia|].
    destruct (Z.eqb_spec (Z.of_nat (S (length pre))) (Z.of_nat (S (length pre)) + Z.of_nat (S (S (length tl))) - 1)); [lia|reflexivity].
Qed.

Lemma is_H_len o n m : is_H (o, n) = is_H (o, m).
Proof. reflexivity. Qed.
Lemma is_S_len o n m : is_S (o, n) = is_S (o, m).
Proof. reflexivity. Qed.

(** Value of the soft-clip look-up of the neighbours. *)
Lemma bad_value pre w tl spre stl o :
  spec_decode pre = Some spre -> spec_decode tl = Some stl ->
  cop_of_code (spec_op_code w) = Some o ->
  (if is_S (o, 0) && inner_b spre stl
   then obind (type_is_not (pre ++ w :: tl) (zlen pre - 1) sam_CigarHardClipped) (fun l =>
          if l then type_is_not (pre ++ w :: tl) (zlen pre + 1) sam_CigarHardClipped else Ok false)
   else Ok false)
  = Ok (is_S (o, spec_op_len w) && inner_b spre stl
        && negb (is_H (last spre (o, spec_op_len w))) && negb (is_H (hd (o, spec_op_len w) stl))).
Proof.
  intros Hpre Htl Ho. rewrite (is_S_len o (spec_op_len w) 0).
  destruct (is_S (o, 0)); [|reflexivity].
  destruct (inner_b spre stl) eqn:Hin; [|reflexivity]. cbn [andb].
  (* both neighbours exist *)
  assert (Hp : pre <> []).
  { intros ->. injection Hpre as <-. discriminate Hin. }
  assert (Ht : tl <> []).
  { intros ->. injection Htl as <-. destruct spre; discriminate Hin. }
  destruct (exists_last Hp) as (pre' & p & ->).
  destruct (decode_app_inv _ _ _ Hpre) as (spre' & sp & Hpre' & Hsp & ->).
  destruct (decode_cons _ _ _ Hsp) as (op & r & Hop & Hr & ->). injection Hr as <-.
  destruct tl as [|nx tl']; [congruence|].
  destruct (decode_cons _ _ _ Htl) as (on & stl' & Hon & _ & ->).
  rewrite last_last. cbn [hd].
  replace (zlen (pre' ++ [p]) - 1) with (zlen pre') by (rewrite zlen_app; unfold zlen; simpl length; lia).
  rewrite <- (app_assoc pre' [p]). cbn [app].
  rewrite (type_is_not_at pre' p (w :: nx :: tl') op Hop). cbn [obind].
  rewrite (is_H_len op (spec_op_len p) 0).
  destruct (is_H (op, 0)); [reflexivity|]. cbn [negb andb].
  replace (pre' ++ p :: w :: nx :: tl') with ((pre' ++ [p; w]) ++ nx :: tl')
    by (rewrite <- app_assoc; reflexivity).
  replace (zlen (pre' ++ [p]) + 1) with (zlen (pre' ++ [p; w]))
    by (rewrite !zlen_app; unfold zlen; simpl length; lia).
  rewrite (type_is_not_at _ nx tl' on Hon).
  rewrite (is_H_len on (spec_op_len nx) 0). reflexivity.
Qed.

Lemma isvalid_loop_code rest : forall pre spre srest len off,
  spec_decode pre = Some spre -> spec_decode rest = Some srest ->
  isvalid_loop (pre ++ rest) rest (zlen pre) len off = Ok (code_valid_from spre srest len off).
Proof.
  induction rest as [|w tl IH]; intros pre spre srest len off Hpre Hrest.
  - injection Hrest as <-. reflexivity.
  - destruct (decode_cons _ _ _ Hrest) as (o & stl & Ho & Htl & ->).
    cbn [isvalid_loop code_valid_from fst snd].
    rewrite type_is_mod. cbn [obind].
    rewrite (code_is_H _ _ Ho), (code_is_S _ _ Ho).
    rewrite (inner_eq pre w tl spre stl (decode_length _ _ Hpre) (decode_length _ _ Htl)).
    rewrite (bad_value pre w tl spre stl o Hpre Htl Ho).
    (* the part of the iteration after the clipping checks *)
    assert (K : obind (consumes (spec_op_code w)) (fun con =>
                 if (off <? 0) && negb (fst con =? 0) then Ok false else
                 obind (sam_CigarOp_Len w) (fun n =>
                   isvalid_loop (pre ++ w :: tl) tl (zlen pre + 1) (len - n * fst con) (off + n * snd con)))
               = Ok (negb ((off <? 0) && consumes_query o)
                     && code_valid_from (spre ++ [(o, spec_op_len w)]) stl
                          (len - spec_op_len w * coeff_q o) (off + spec_op_len w * coeff_r o))).
    { rewrite (consumes_known _ _ Ho). cbn [obind fst snd].
      replace (negb (coeff_q o =? 0)) with (consumes_query o) by (unfold coeff_q; destruct (consumes_query o); reflexivity).
      destruct ((off <? 0) && consumes_query o); [reflexivity|]. cbn [negb andb].
      rewrite len_is_div. cbn [obind].
      replace (pre ++ w :: tl) with ((pre ++ [w]) ++ tl) by (rewrite <- app_assoc; reflexivity).
      replace (zlen pre + 1) with (zlen (pre ++ [w])) by (rewrite zlen_app; unfold zlen; simpl length; lia).
      apply IH; [|assumption].
      apply decode_app; [assumption|]. cbn [spec_decode]. rewrite Ho. reflexivity. }
    unfold code_clip_at.
    rewrite (is_H_len o (spec_op_len w) 0).
    destruct (is_H (o, 0) && inner_b spre stl); [reflexivity|].
    lazymatch goal with |- obind (Ok ?b) _ = Ok (negb false && negb ?b' && _ && _) => change b' with b; destruct b end; [reflexivity|].
    cbn [obind].
    cbn [negb andb]. exact K.
Qed.

(** ** Step 2: [code_valid_from] is the conjunction of the three rules. *)
Lemma code_valid_split rest : forall before len off,
  code_valid_from before rest len off
  = all_splits code_clip_at before rest && back_ok_from off rest && (spec_querylen rest =? len).
Proof.
  induction rest as [|[o n] tl IH]; intros before len off.
  - cbn. rewrite Z.eqb_sym. reflexivity.
  - cbn [code_valid_from all_splits back_ok_from spec_querylen fst snd].
    rewrite IH. rewrite ref_step_coeff.
    replace (spec_querylen tl =? len - n * coeff_q o)
      with ((if consumes_query o then n else 0) + spec_querylen tl =? len).
    2:{ unfold coeff_q. destruct (consumes_query o);
        destruct (Z.eqb_spec (spec_querylen tl) (len - n * 1)) || destruct (Z.eqb_spec (spec_querylen tl) (len - n * 0));
        match goal with |- (?a =? ?b) = _ => destruct (Z.eqb_spec a b) end; try reflexivity; lia. }
    replace (negb ((off <? 0) && consumes_query o))
      with (if consumes_query o then 0 <=? off else true).
    2:{ destruct (consumes_query o); [rewrite andb_true_r, Z.leb_antisym; reflexivity|rewrite andb_false_r; reflexivity]. }
    btauto.
Qed.

(** ** Step 3: the local neighbour rule and the specification's rule accept
    the same CIGARs. *)
Lemma all_splits_iff P rest : forall before,
  all_splits P before rest = true <->
  (forall b x a, rest = b ++ x :: a -> P (before ++ b) x a = true).
Proof.
  induction rest as [|x0 tl IH]; intros before; cbn [all_splits].
  - split; [|reflexivity]. intros _ b x a E. destruct b; discriminate E.
  - rewrite andb_true_iff, IH. split.
    + intros [H0 Htl] b x a E. destruct b as [|y b].
      * cbn in E. injection E as <- <-. rewrite app_nil_r. assumption.
      * cbn in E. injection E as <- E. specialize (Htl b x a E).
        rewrite <- app_assoc in Htl. exact Htl.
    + intros H. split.
      * specialize (H [] x0 tl eq_refl). rewrite app_nil_r in H. exact H.
      * intros b x a E. specialize (H (x0 :: b) x a). rewrite <- app_assoc. apply H.
        cbn. rewrite E. reflexivity.
Qed.

Lemma forallb_last {A} (f : A -> bool) l d : l <> [] -> forallb f l = true -> f (last l d) = true.
Proof.
  intros Hl H. destruct (exists_last Hl) as (l' & a & ->).
  rewrite last_last. rewrite forallb_app in H. apply andb_true_iff in H as [_ H].
  simpl in H. rewrite andb_true_r in H. exact H.
Qed.

Lemma spec_to_code b x a : clip_ok_at b x a = true -> code_clip_at b x a = true.
Proof.
  unfold clip_ok_at, code_clip_at. intros H. apply andb_true_iff in H as [HH HS].
  destruct b as [|b0 b']; [cbn; rewrite !andb_false_r; reflexivity|].
  destruct a as [|a0 a']; [cbn; rewrite !andb_false_r; reflexivity|].
  cbn [inner_b]. rewrite !andb_true_r.
  destruct (is_H x); [discriminate HH|]. cbn [negb andb].
  destruct (is_S x); [|reflexivity]. cbn [andb].
  apply orb_true_iff in HS as [HS|HS].
  - rewrite (forallb_last is_H (b0 :: b') x ltac:(discriminate) HS). reflexivity.
  - cbn [forallb] in HS. apply andb_true_iff in HS as [HS _]. cbn [hd]. rewrite HS.
    rewrite andb_false_r. reflexivity.
Qed.

Lemma code_to_spec l :
  (forall b x a, l = b ++ x :: a -> code_clip_at b x a = true) ->
  forall b x a, l = b ++ x :: a -> clip_ok_at b x a = true.
Proof.
  intros Hall b x a E. pose proof (Hall b x a E) as Hx.
  unfold code_clip_at in Hx. apply andb_true_iff in Hx as [HH HS].
  unfold clip_ok_at. apply andb_true_iff. split.
  - destruct (is_H x); [|reflexivity].
    destruct b; [reflexivity|]. destruct a; [reflexivity|]. discriminate HH.
  - destruct (is_S x); [|reflexivity].
    destruct b as [|b0 b']; [reflexivity|].
    destruct a as [|a0 a']; [cbn [forallb]; apply orb_true_r|].
    cbn [inner_b andb hd] in HS.
    apply negb_true_iff, andb_false_iff in HS as [HS|HS]; apply negb_false_iff in HS.
    + (* the operation before is H: it must be the first one *)
      destruct (@exists_last _ (b0 :: b') ltac:(discriminate)) as (b'' & h & Eb).
      rewrite Eb in *. rewrite last_last in HS.
      assert (E' : l = b'' ++ h :: x :: a0 :: a') by (rewrite E, <- app_assoc; reflexivity).
      pose proof (Hall _ _ _ E') as Hh. unfold code_clip_at in Hh.
      apply andb_true_iff in Hh as [Hh _]. rewrite HS in Hh.
      destruct b'' as [|? ?]; [|discriminate Hh].
      cbn [app forallb]. rewrite HS. reflexivity.
    + (* the operation after is H: it must be the last one *)
      assert (E' : l = ((b0 :: b') ++ [x]) ++ a0 :: a') by (rewrite E, <- app_assoc; reflexivity).
      pose proof (Hall _ _ _ E') as Hh. unfold code_clip_at in Hh.
      apply andb_true_iff in Hh as [Hh _]. rewrite HS in Hh.
      destruct a' as [|? ?]; [|cbn in Hh; discriminate Hh].
      cbn [forallb]. rewrite HS. apply orb_true_r.
Qed.

Lemma clip_ok_from_all_splits c : forall before,
  clip_ok_from before c = all_splits clip_ok_at before c.
Proof. induction c as [|x tl IH]; intros before; cbn; [reflexivity|]. rewrite IH. reflexivity. Qed.

Lemma clip_code_eq_spec l : all_splits code_clip_at [] l = spec_clip_ok l.
Proof.
  unfold spec_clip_ok. rewrite clip_ok_from_all_splits.
  apply eq_iff_eq_true. rewrite !all_splits_iff. cbn [app]. split.
  - intros H. apply code_to_spec. exact H.
  - intros H b x a E. apply spec_to_code. apply H. exact E.
Qed.

(** ** IsValid is the specification's validity. *)
Lemma isvalid_is_spec_gen c sc len :
  spec_decode c = Some sc -> cigar_isvalid c len = Ok (spec_valid sc len).
Proof.
  intros H. unfold cigar_isvalid.
  pose proof (isvalid_loop_code c [] [] sc len 0 eq_refl H) as E. cbn [app] in E.
  change (zlen []) with 0 in E. rewrite E. f_equal.
  rewrite code_valid_split, clip_code_eq_spec. reflexivity.
Qed.

(** ** No CIGAR is outside the theorems any more: every list of uint32 words
    decodes, so End, Len, Lengths and IsValid return the specified values
    (and never panic) for every record whatsoever. *)
Lemma record_arith_total_gen flags pos c seqlen :
  exists sc, spec_decode c = Some sc /\
    record_end flags pos c = Ok (spec_end flags pos sc) /\
    record_len flags pos c = Ok (spec_len flags pos sc) /\
    cigar_lengths c = Ok (spec_reflen sc, spec_querylen sc) /\
    cigar_isvalid c seqlen = Ok (spec_valid sc seqlen) /\
    (-1 <= pos < 2 ^ 31 -> record_bin flags pos c = Ok (spec_bin flags pos sc)).
Proof.
  destruct (decode_total c) as [sc H]. exists sc.
  split; [assumption|].
  split; [apply record_end_spec; assumption|].
  split; [apply record_len_spec; assumption|].
  split; [apply lengths_is_spec_gen; assumption|].
  split; [apply isvalid_is_spec_gen; assumption|].
  intros Hp. apply record_bin_spec; assumption.
Qed.
