(** C13 — clients of the reader API cannot tell two observation-equivalent
    reader machines apart; instance: the reader on block values and the reader
    with store objects (no cache). *)
From Coq Require Import ZArith List Bool Lia.
From Hts Require Import Base.Prim Model.Flat Model.Reader Model.ChunkReader
  Proofs.FlatLemmas Proofs.ReaderFlat Proofs.ReaderStore.
Import ListNotations.
Open Scope Z_scope.

Section Sim.
Variables M1 M2 : machine.
Variable R : MS M1 -> MS M2 -> Prop.
Hypothesis R_lc : forall s1 s2, R s1 s2 -> m_lc M1 s1 = m_lc M2 s2.
Hypothesis R_blen : forall s1 s2, R s1 s2 -> m_blen M1 s1 = m_blen M2 s2.
Hypothesis R_step : forall s1 s2 o s1' r, R s1 s2 -> no_cache_op o = true ->
  m_step M1 s1 o = Ok (s1', r) -> exists s2', m_step M2 s2 o = Ok (s2', r) /\ R s1' s2'.

Lemma sim_cr_skip : forall cs s1 s2 s1' cs' e, R s1 s2 ->
  cr_skip M1 s1 cs = Ok (s1', cs', e) -> exists s2', cr_skip M2 s2 cs = Ok (s2', cs', e) /\ R s1' s2'.
Proof.
  induction cs as [|c rest IH]; intros s1 s2 s1' cs' e HR H.
  - simpl in *. inversion H; subst. eauto.
  - simpl in *. rewrite <- (R_lc _ _ HR).
    destruct (voffset (snd c) <=? voffset (snd (m_lc M1 s1))).
    + destruct rest as [|c' rest'].
      * inversion H; subst. eauto.
      * destruct (m_step M1 s1 (OSeek (fst (fst c')) (snd (fst c')))) as [[s1a [bs ea]]| | |] eqn:E; try discriminate.
        destruct (R_step _ _ (OSeek (fst (fst c')) (snd (fst c'))) _ _ HR eq_refl E) as (s2a & E2 & HRa). rewrite E2.
        destruct (ea =? eNil).
        -- apply (IH _ _ _ _ _ HRa H).
        -- inversion H; subst. eauto.
    + inversion H; subst. eauto.
Qed.

Lemma sim_cr_read : forall cs s1 s2 n s1' cs' bs e, R s1 s2 ->
  cr_read M1 s1 cs n = Ok (s1', cs', bs, e) -> exists s2', cr_read M2 s2 cs n = Ok (s2', cs', bs, e) /\ R s1' s2'.
Proof.
  intros cs s1 s2 n s1' cs' bs e HR H. unfold cr_read in *.
  destruct cs as [|c0 rest0]; [inversion H; subst; eauto|].
  destruct (cr_skip M1 s1 (c0 :: rest0)) as [[[s1a csa] ea]| | |] eqn:Esk; try discriminate.
  destruct (sim_cr_skip _ _ _ _ _ _ HR Esk) as (s2a & Esk2 & HRa). rewrite Esk2.
  destruct (negb (ea =? eNil)); [inversion H; subst; eauto|].
  destruct csa as [|c rest]; [inversion H; subst; eauto|].
  rewrite <- (R_lc _ _ HRa), <- (R_blen _ _ HRa).
  match goal with |- context [if ?c then Panic 6 else _] => destruct c end; [discriminate|].
  match type of H with context [m_step M1 s1a (ORead ?k)] => set (kk := k) in * end.
  destruct (m_step M1 s1a (ORead kk)) as [[s1b [bs1 e1]]| | |] eqn:Erd; try discriminate.
  destruct (R_step _ _ (ORead kk) _ _ HRa eq_refl Erd) as (s2b & Erd2 & HRb). rewrite Erd2.
  destruct (negb (e1 =? eNil)); [inversion H; subst; eauto|].
  rewrite <- (R_lc _ _ HRb).
  match goal with |- context [if ?c then _ else Ok (s2b, _, _, _)] => destruct c end.
  - destruct rest as [|c' rest']; [inversion H; subst; eauto|].
    destruct (m_step M1 s1b (OSeek (fst (fst c')) (snd (fst c')))) as [[s1c [bs3 e3]]| | |] eqn:Esk3; try discriminate.
    destruct (R_step _ _ (OSeek (fst (fst c')) (snd (fst c'))) _ _ HRb eq_refl Esk3) as (s2c & Esk32 & HRc). rewrite Esk32.
    inversion H; subst. eauto.
  - inversion H; subst. eauto.
Qed.

Lemma sim_cr_reads : forall bufs cs s1 s2 l, R s1 s2 ->
  cr_reads M1 s1 cs bufs = Ok l -> cr_reads M2 s2 cs bufs = Ok l.
Proof.
  induction bufs as [|n bufs IH]; intros cs s1 s2 l HR H; [exact H|].
  simpl in *.
  destruct (cr_read M1 s1 cs n) as [[[[s1a csa] bs] e]| | |] eqn:E; try discriminate.
  destruct (sim_cr_read _ _ _ _ _ _ _ _ HR E) as (s2a & E2 & HRa). rewrite E2.
  destruct (negb (e =? eNil)); [exact H|].
  destruct (cr_reads M1 s1a csa bufs) as [l'| | |] eqn:El; try discriminate.
  rewrite (IH _ _ _ _ HRa El). exact H.
Qed.

Lemma sim_cr_new : forall cs s1 s2 s1' e, R s1 s2 ->
  cr_new M1 s1 cs = Ok (s1', e) -> exists s2', cr_new M2 s2 cs = Ok (s2', e) /\ R s1' s2'.
Proof.
  intros cs s1 s2 s1' e HR H. unfold cr_new in *.
  destruct (m_step M1 s1 (OBlocked true)) as [[s1a ra]| | |] eqn:E; try discriminate.
  destruct (R_step _ _ (OBlocked true) _ _ HR eq_refl E) as (s2a & E2 & HRa). rewrite E2.
  destruct cs as [|c rest]; [inversion H; subst; eauto|].
  destruct (m_step M1 s1a (OSeek (fst (fst c)) (snd (fst c)))) as [[s1b [bs eb]]| | |] eqn:Es; try discriminate.
  destruct (R_step _ _ (OSeek (fst (fst c)) (snd (fst c))) _ _ HRa eq_refl Es) as (s2b & Es2 & HRb). rewrite Es2.
  inversion H; subst. eauto.
Qed.

End Sim.

(** Instance: value reader vs. store reader without a cache. *)
Lemma v_seek_has (F : file) (v : vstate) (f o : Z) :
  b_has (v_cur (fst (v_seek F v f o))) = true \/ snd (v_seek F v f o) <> eNil.
Proof.
  unfold v_seek.
  destruct (negb (f =? b_base (v_cur v)) || negb (b_has (v_cur v))) eqn:Hre.
  - unfold b_fill. destruct (fetch F f); simpl; try (right; discriminate).
    + left. reflexivity.
  - simpl. left. apply orb_false_iff in Hre. destruct Hre as [_ H]. apply negb_false_iff in H. exact H.
Qed.

Definition emb_rel (v : vstate) (r : rstate) : Prop := r = emb v.

Lemma emb_rel_step (F : file) (ch : list nat) : forall s1 s2 o s1' r, emb_rel s1 s2 -> no_cache_op o = true ->
  m_step (vM F) s1 o = Ok (s1', r) -> exists s2', m_step (rM F ch) s2 o = Ok (s2', r) /\ emb_rel s1' s2'.
Proof.
  intros s1 s2 o s1' r -> Hn H. simpl in *. exists (emb s1'). split; [|reflexivity].
  apply (emb_step F ch s1 o (s1', r) Hn H).
  destruct o; try exact I; simpl in *.
  - destruct (v_seek F s1 f b) as [s' e] eqn:Hk. inversion H; subst. simpl.
    pose proof (v_seek_has F s1 f b) as Hh. rewrite Hk in Hh. exact Hh.
  - destruct (fst (v_lc s1)) as [f b]. destruct (v_seek F s1 f b) as [s' e] eqn:Hk. inversion H; subst. simpl.
    pose proof (v_seek_has F s1 f b) as Hh. rewrite Hk in Hh. exact Hh.
Qed.

From Hts Require Import Proofs.ChunkReaderProof.

(** C13, ChunkReader, on the reader with store objects (bgzf.Reader, rd = 1, no cache). *)
Theorem chunkreader_exact_r (F : file) (ch : list nat) (cs : list chunk) (bufs : list Z) :
  wf_file F = true -> F <> [] -> addressable F = true ->
  sorted_from F 0 cs -> Forall (fun n => 0 <= n) bufs ->
  exists s1, cr_new (rM F ch) (fst (r_init F)) cs = Ok (s1, eNil) /\
  exists l, cr_reads (rM F ch) s1 cs bufs = Ok l /\ sizes_ok l bufs /\
    exists tail, spans F cs = concat (map fst l) ++ tail /\ reads_ok l tail.
Proof.
  intros W Hne Ha Hso Hb.
  destruct (chunkreader_exact_v F cs bufs W Hne Ha Hso Hb) as (s1 & Hnew & l & Hl & Hsz & tail & Ht & Hok).
  assert (HR0 : emb_rel (fst (v_init F)) (fst (r_init F))) by (rewrite r_init_emb; reflexivity).
  destruct (sim_cr_new (vM F) (rM F ch) emb_rel (emb_rel_step F ch) cs _ _ _ _ HR0 Hnew) as (s2 & Hnew2 & HR1).
  exists s2. split; [exact Hnew2|]. exists l. split; [|split; [exact Hsz|exists tail; split; assumption]].
  assert (Hlc : forall (a : MS (vM F)) (b : MS (rM F ch)), emb_rel a b -> m_lc (vM F) a = m_lc (rM F ch) b) by (intros a b ->; reflexivity).
  assert (Hbl : forall (a : MS (vM F)) (b : MS (rM F ch)), emb_rel a b -> m_blen (vM F) a = m_blen (rM F ch) b) by (intros a b ->; reflexivity).
  exact (sim_cr_reads (vM F) (rM F ch) emb_rel Hlc Hbl (emb_rel_step F ch) bufs cs s1 s2 l HR1 Hl).
Qed.
