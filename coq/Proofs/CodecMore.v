(** More about the generated codecs (C20): Encode into a buffer of any length
    (panics exactly when the buffer is too short, before writing anything),
    acceptance of any spelling of the fifth ITF-8 byte, injectivity. *)
From Coq Require Import ZArith Lia List Bool.
From Hts Require Import Base.Prim Base.Bits Generated Model.Itf8Spec Proofs.Itf8 Proofs.Ltf8.
Open Scope Z_scope.
Ltac Zify.zify_post_hook ::= Z.div_mod_to_equations.

(** * Encode into a buffer of any length *)

Ltac itf_arm_open :=
  match goal with Hv : int32 ?v |- _ =>
    unfold int32 in Hv; unfold itf8_Encode, itf8_wire, itf8_spec_encode, itf8_spec_len;
    unfold u32, wrapu; set (u := v mod 2^32) in *;
    assert (Hu : 0 <= u < 2^32) by (subst u; apply Z.mod_pos_bound; lia);
    change (2^7) with 128 in *; change (2^14) with 16384 in *; change (2^21) with 2097152 in *; change (2^28) with 268435456 in *;
    repeat match goal with |- context [u <? ?c] => destruct (Z.ltb_spec u c); try lia end
  end.

Lemma itf8_Encode_arm1 v b0 tl : int32 v -> v mod 2^32 < 2^7 ->
  itf8_Encode ([b0] ++ tl) v = Ok (1, itf8_wire v ++ tl).
Proof.
  intros Hv Hr. itf_arm_open. buf_simpl. unfold u8, wrapu. cbn [app]. rewrite Z.mod_small by lia. reflexivity.
Qed.

Lemma itf8_Encode_arm2 v b0 b1 tl : int32 v -> 2^7 <= v mod 2^32 < 2^14 ->
  itf8_Encode ([b0; b1] ++ tl) v = Ok (2, itf8_wire v ++ tl).
Proof.
  intros Hv Hr. itf_arm_open. buf_simpl. cbn [app be_bytes]. do 2 f_equal. list_split.
  - arith_bits. unfold u8, wrapu. rewrite (land_mask _ 63 6) by lia.
    rewrite (lor_const _ 128 7 1) by lia. change (2^8) with 256. change (2^6) with 64. lia.
  - unfold u8, wrapu. change (8 * Z.of_nat 0) with 0. change (2^0) with 1. change (2^8) with 256. rewrite Z.div_1_r. reflexivity.
Qed.

Lemma itf8_Encode_arm3 v b0 b1 b2 tl : int32 v -> 2^14 <= v mod 2^32 < 2^21 ->
  itf8_Encode ([b0; b1; b2] ++ tl) v = Ok (3, itf8_wire v ++ tl).
Proof.
  intros Hv Hr. itf_arm_open. buf_simpl. cbn [app be_bytes]. do 2 f_equal. list_split.
  - arith_bits. unfold u8, wrapu. rewrite (land_mask _ 31 5) by lia.
    rewrite (lor_const _ 192 6 3) by lia. change (2^8) with 256. change (2^5) with 32. change (2^16) with 65536. lia.
  - arith_bits. unfold u8, wrapu. change (8 * Z.of_nat 1) with 8. reflexivity.
  - unfold u8, wrapu. change (8 * Z.of_nat 0) with 0. change (2^0) with 1. change (2^8) with 256. rewrite Z.div_1_r. reflexivity.
Qed.

Lemma itf8_Encode_arm4 v b0 b1 b2 b3 tl : int32 v -> 2^21 <= v mod 2^32 < 2^28 ->
  itf8_Encode ([b0; b1; b2; b3] ++ tl) v = Ok (4, itf8_wire v ++ tl).
Proof.
  intros Hv Hr. itf_arm_open. buf_simpl. cbn [app be_bytes]. do 2 f_equal. list_split.
  - arith_bits. unfold u8, wrapu. rewrite (land_mask _ 15 4) by lia.
    rewrite (lor_const _ 224 5 7) by lia. change (2^8) with 256. change (2^4) with 16. change (2^24) with 16777216. lia.
  - arith_bits. unfold u8, wrapu. change (8 * Z.of_nat 2) with 16. reflexivity.
  - arith_bits. unfold u8, wrapu. change (8 * Z.of_nat 1) with 8. reflexivity.
  - unfold u8, wrapu. change (8 * Z.of_nat 0) with 0. change (2^0) with 1. change (2^8) with 256. rewrite Z.div_1_r. reflexivity.
Qed.

Lemma itf8_Encode_arm5 v b0 b1 b2 b3 b4 tl : int32 v -> 2^28 <= v mod 2^32 ->
  itf8_Encode ([b0; b1; b2; b3; b4] ++ tl) v = Ok (5, itf8_wire v ++ tl).
Proof.
  intros Hv Hr. itf_arm_open. buf_simpl. cbn [app]. do 2 f_equal. list_split.
  - arith_bits. unfold u8, wrapu. rewrite (lor_const _ 240 4 15) by lia.
    change (2^8) with 256. change (2^28) with 268435456. change (2^32) with 4294967296 in *. lia.
  - arith_bits. unfold u8, wrapu. reflexivity.
  - arith_bits. unfold u8, wrapu. reflexivity.
  - arith_bits. unfold u8, wrapu. reflexivity.
Qed.

Lemma inb_short (l : list Z) i : zlen l <= i -> inb l i = false.
Proof. intros H. unfold inb. destruct (Z.ltb_spec i (zlen l)); [lia|]. apply andb_false_r. Qed.

Lemma itf8_wire_length v : int32 v -> length (itf8_wire v) = Z.to_nat (itf8_spec_len (v mod 2^32)).
Proof. intros Hv. destruct (itf8_wire_props v Hv) as (Hl & _). rewrite <- Hl. unfold zlen. rewrite Nat2Z.id. reflexivity. Qed.

(** Encode on a buffer of any length: it panics, before writing anything,
    exactly when the buffer is shorter than Len; otherwise it writes the
    encoding over the first Len bytes and nothing else. *)
Lemma itf8_Encode_any v buf :
  int32 v ->
  itf8_Encode buf v =
    if zlen buf <? itf8_spec_len (v mod 2^32) then Panic 1
    else Ok (itf8_spec_len (v mod 2^32), itf8_wire v ++ skipn (Z.to_nat (itf8_spec_len (v mod 2^32))) buf).
Proof.
  intros Hv. pose proof Hv as Hv'. unfold int32 in Hv'.
  assert (Hu : 0 <= v mod 2^32 < 2^32) by (apply Z.mod_pos_bound; lia).
  Ltac short_buf :=
    zlen_explicit; try change (zlen (@nil Z)) with 0;
    unfold itf8_Encode, u32, wrapu;
    repeat match goal with |- context [?b <? ?c] => destruct (Z.ltb_spec b c); try lia end;
    rewrite inb_short by (zlen_explicit; unfold zlen; simpl length; lia); reflexivity.
  unfold itf8_spec_len. 
  change (2^7) with 128 in *; change (2^14) with 16384 in *; change (2^21) with 2097152 in *; change (2^28) with 268435456 in *.
  destruct (Z.ltb_spec (v mod 2^32) 128) as [H1|H1].
  { destruct buf as [|b0 t]; [short_buf|].
    rewrite zlen_cons. pose proof (zlen_nonneg t). destruct (Z.ltb_spec (1 + zlen t) 1); [lia|].
    change (b0 :: t) with ([b0] ++ t). rewrite itf8_Encode_arm1 by (try assumption; change (2^7) with 128; lia). reflexivity. }
  destruct (Z.ltb_spec (v mod 2^32) 16384) as [H2|H2].
  { destruct buf as [|b0 [|b1 t]]; [short_buf|short_buf|].
    rewrite !zlen_cons. pose proof (zlen_nonneg t). destruct (Z.ltb_spec (1 + (1 + zlen t)) 2); [lia|].
    change (b0 :: b1 :: t) with ([b0; b1] ++ t). rewrite itf8_Encode_arm2 by (try assumption; change (2^7) with 128; change (2^14) with 16384; lia). reflexivity. }
  destruct (Z.ltb_spec (v mod 2^32) 2097152) as [H3|H3].
  { destruct buf as [|b0 [|b1 [|b2 t]]]; [short_buf|short_buf|short_buf|].
    rewrite !zlen_cons. pose proof (zlen_nonneg t). destruct (Z.ltb_spec (1 + (1 + (1 + zlen t))) 3); [lia|].
    change (b0 :: b1 :: b2 :: t) with ([b0; b1; b2] ++ t). rewrite itf8_Encode_arm3 by (try assumption; change (2^14) with 16384; change (2^21) with 2097152; lia). reflexivity. }
  destruct (Z.ltb_spec (v mod 2^32) 268435456) as [H4|H4].
  { destruct buf as [|b0 [|b1 [|b2 [|b3 t]]]]; [short_buf|short_buf|short_buf|short_buf|].
    rewrite !zlen_cons. pose proof (zlen_nonneg t). destruct (Z.ltb_spec (1 + (1 + (1 + (1 + zlen t)))) 4); [lia|].
    change (b0 :: b1 :: b2 :: b3 :: t) with ([b0; b1; b2; b3] ++ t). rewrite itf8_Encode_arm4 by (try assumption; change (2^21) with 2097152; change (2^28) with 268435456; lia). reflexivity. }
  destruct buf as [|b0 [|b1 [|b2 [|b3 [|b4 t]]]]]; [short_buf|short_buf|short_buf|short_buf|short_buf|].
  rewrite !zlen_cons. pose proof (zlen_nonneg t). destruct (Z.ltb_spec (1 + (1 + (1 + (1 + (1 + zlen t))))) 5); [lia|].
  change (b0 :: b1 :: b2 :: b3 :: b4 :: t) with ([b0; b1; b2; b3; b4] ++ t). rewrite itf8_Encode_arm5 by (try assumption; change (2^28) with 268435456; lia). reflexivity.
Qed.

(** * LTF-8 *)

Ltac ltf_arm_open k lo hi :=
  match goal with Hv : int64 ?v |- _ =>
    unfold int64 in Hv; unfold ltf8_Encode, ltf8_spec_encode;
    unfold u64, wrapu; set (u := v mod 2^64) in *;
    assert (Hu : 0 <= u < 2^64) by (subst u; apply Z.mod_pos_bound; lia);
    cbv zeta;
    rewrite (ltf8_spec_len_class u k lo hi) by (try tauto; pow2; lia);
    revert Hu; pow2; intros Hu;
    repeat match goal with |- context [u <? ?c] => destruct (Z.ltb_spec u c); try lia end;
    spec_enc_norm; buf_simpl; cbn [app]; do 2 f_equal; list_split; try u8_bytes
  end.

Lemma ltf8_Encode_arm1 v b0 tl : int64 v -> v mod 2^64 < 2^7 ->
  ltf8_Encode ([b0] ++ tl) v = Ok (1, ltf8_spec_encode v ++ tl).
Proof.
  intros Hv Hr. ltf_arm_open 1 0 (2^7).
  unfold u8, wrapu. pow2. rewrite Z.div_1_r. lia.
Qed.

Lemma ltf8_Encode_arm2 v b0 b1 tl : int64 v -> 2^7 <= v mod 2^64 < 2^14 ->
  ltf8_Encode ([b0; b1] ++ tl) v = Ok (2, ltf8_spec_encode v ++ tl).
Proof.
  intros Hv Hr. ltf_arm_open 2 (2^7) (2^14).
  - arith_bits. unfold u8, wrapu. rewrite (land_mask _ 63 6) by lia.
    rewrite (lor_const _ 128 7 1) by lia. pow2. lia.
  - unfold u8, wrapu. pow2. rewrite Z.div_1_r. reflexivity.
Qed.

Lemma ltf8_Encode_arm3 v b0 b1 b2 tl : int64 v -> 2^14 <= v mod 2^64 < 2^21 ->
  ltf8_Encode ([b0; b1; b2] ++ tl) v = Ok (3, ltf8_spec_encode v ++ tl).
Proof.
  intros Hv Hr. ltf_arm_open 3 (2^14) (2^21).
  - arith_bits. unfold u8, wrapu. rewrite (land_mask _ 31 5) by lia.
    rewrite (lor_const _ 192 6 3) by lia. pow2. lia.
  - unfold u8, wrapu. pow2. rewrite Z.div_1_r. reflexivity.
Qed.

Lemma ltf8_Encode_arm4 v b0 b1 b2 b3 tl : int64 v -> 2^21 <= v mod 2^64 < 2^28 ->
  ltf8_Encode ([b0; b1; b2; b3] ++ tl) v = Ok (4, ltf8_spec_encode v ++ tl).
Proof.
  intros Hv Hr. ltf_arm_open 4 (2^21) (2^28).
  - arith_bits. unfold u8, wrapu. rewrite (land_mask _ 15 4) by lia.
    rewrite (lor_const _ 224 5 7) by lia. pow2. lia.
  - unfold u8, wrapu. pow2. rewrite Z.div_1_r. reflexivity.
Qed.

Lemma ltf8_Encode_arm5 v b0 b1 b2 b3 b4 tl : int64 v -> 2^28 <= v mod 2^64 < 2^35 ->
  ltf8_Encode ([b0; b1; b2; b3; b4] ++ tl) v = Ok (5, ltf8_spec_encode v ++ tl).
Proof.
  intros Hv Hr. ltf_arm_open 5 (2^28) (2^35).
  - arith_bits. unfold u8, wrapu. rewrite (land_mask _ 7 3) by lia.
    rewrite (lor_const _ 240 4 15) by lia. pow2. lia.
  - unfold u8, wrapu. pow2. rewrite Z.div_1_r. reflexivity.
Qed.

Lemma ltf8_Encode_arm6 v b0 b1 b2 b3 b4 b5 tl : int64 v -> 2^35 <= v mod 2^64 < 2^42 ->
  ltf8_Encode ([b0; b1; b2; b3; b4; b5] ++ tl) v = Ok (6, ltf8_spec_encode v ++ tl).
Proof.
  intros Hv Hr. ltf_arm_open 6 (2^35) (2^42).
  - arith_bits. unfold u8, wrapu. rewrite (land_mask _ 3 2) by lia.
    rewrite (lor_const _ 248 3 31) by lia. pow2. lia.
  - unfold u8, wrapu. pow2. rewrite Z.div_1_r. reflexivity.
Qed.

Lemma ltf8_Encode_arm7 v b0 b1 b2 b3 b4 b5 b6 tl : int64 v -> 2^42 <= v mod 2^64 < 2^49 ->
  ltf8_Encode ([b0; b1; b2; b3; b4; b5; b6] ++ tl) v = Ok (7, ltf8_spec_encode v ++ tl).
Proof.
  intros Hv Hr. ltf_arm_open 7 (2^42) (2^49).
  - arith_bits. unfold u8, wrapu. rewrite (land_mask _ 1 1) by lia.
    rewrite (lor_const _ 252 2 63) by lia. pow2. lia.
  - unfold u8, wrapu. pow2. rewrite Z.div_1_r. reflexivity.
Qed.

Lemma ltf8_Encode_arm8 v b0 b1 b2 b3 b4 b5 b6 b7 tl : int64 v -> 2^49 <= v mod 2^64 < 2^56 ->
  ltf8_Encode ([b0; b1; b2; b3; b4; b5; b6; b7] ++ tl) v = Ok (8, ltf8_spec_encode v ++ tl).
Proof.
  intros Hv Hr. ltf_arm_open 8 (2^49) (2^56).
  - pow2. lia.
  - unfold u8, wrapu. pow2. rewrite Z.div_1_r. reflexivity.
Qed.

Lemma ltf8_Encode_arm9 v b0 b1 b2 b3 b4 b5 b6 b7 b8 tl : int64 v -> 2^56 <= v mod 2^64 ->
  ltf8_Encode ([b0; b1; b2; b3; b4; b5; b6; b7; b8] ++ tl) v = Ok (9, ltf8_spec_encode v ++ tl).
Proof.
  intros Hv Hr. ltf_arm_open 9 (2^56) (2^64).
  unfold u8, wrapu. pow2. rewrite Z.div_1_r. reflexivity.
Qed.

Ltac short_buf_l :=
  zlen_explicit; try change (zlen (@nil Z)) with 0;
  unfold ltf8_Encode, u64, wrapu;
  repeat match goal with |- context [?b <? ?c] => destruct (Z.ltb_spec b c); try lia end;
  rewrite inb_short by (zlen_explicit; unfold zlen; simpl length; lia); reflexivity.

Lemma ltf8_Encode_any v buf :
  int64 v ->
  ltf8_Encode buf v =
    if zlen buf <? ltf8_spec_len (v mod 2^64) then Panic 1
    else Ok (ltf8_spec_len (v mod 2^64), ltf8_spec_encode v ++ skipn (Z.to_nat (ltf8_spec_len (v mod 2^64))) buf).
Proof.
  intros Hv. pose proof Hv as Hv'. unfold int64 in Hv'.
  assert (Hu : 0 <= v mod 2^64 < 2^64) by (apply Z.mod_pos_bound; lia).
  pose proof (ltf8_spec_len_cases (v mod 2^64)) as Hcase. cbv zeta in Hcase.
  destruct Hcase as [Hc|Hcase].
  { destruct Hc as [Hn Hr]. rewrite Hn.
    destruct buf as [|b0 t]; [short_buf_l|].
    rewrite !zlen_cons. pose proof (zlen_nonneg t). destruct (Z.ltb_spec (1 + zlen t) 1); [lia|].
    change (b0 :: t) with ([b0] ++ t). rewrite ltf8_Encode_arm1 by (try assumption; lia). reflexivity. }
  destruct Hcase as [Hc|Hcase].
  { destruct Hc as [Hn Hr]. rewrite Hn.
    destruct buf as [|b0 [|b1 t]]; [short_buf_l|short_buf_l|].
    rewrite !zlen_cons. pose proof (zlen_nonneg t). destruct (Z.ltb_spec (1 + (1 + zlen t)) 2); [lia|].
    change (b0 :: b1 :: t) with ([b0; b1] ++ t). rewrite ltf8_Encode_arm2 by (try assumption; lia). reflexivity. }
  destruct Hcase as [Hc|Hcase].
  { destruct Hc as [Hn Hr]. rewrite Hn.
    destruct buf as [|b0 [|b1 [|b2 t]]]; [short_buf_l|short_buf_l|short_buf_l|].
    rewrite !zlen_cons. pose proof (zlen_nonneg t). destruct (Z.ltb_spec (1 + (1 + (1 + zlen t))) 3); [lia|].
    change (b0 :: b1 :: b2 :: t) with ([b0; b1; b2] ++ t). rewrite ltf8_Encode_arm3 by (try assumption; lia). reflexivity. }
  destruct Hcase as [Hc|Hcase].
  { destruct Hc as [Hn Hr]. rewrite Hn.
    destruct buf as [|b0 [|b1 [|b2 [|b3 t]]]]; [short_buf_l|short_buf_l|short_buf_l|short_buf_l|].
    rewrite !zlen_cons. pose proof (zlen_nonneg t). destruct (Z.ltb_spec (1 + (1 + (1 + (1 + zlen t)))) 4); [lia|].
    change (b0 :: b1 :: b2 :: b3 :: t) with ([b0; b1; b2; b3] ++ t). rewrite ltf8_Encode_arm4 by (try assumption; lia). reflexivity. }
  destruct Hcase as [Hc|Hcase].
  { destruct Hc as [Hn Hr]. rewrite Hn.
    destruct buf as [|b0 [|b1 [|b2 [|b3 [|b4 t]]]]]; [short_buf_l|short_buf_l|short_buf_l|short_buf_l|short_buf_l|].
    rewrite !zlen_cons. pose proof (zlen_nonneg t). destruct (Z.ltb_spec (1 + (1 + (1 + (1 + (1 + zlen t))))) 5); [lia|].
    change (b0 :: b1 :: b2 :: b3 :: b4 :: t) with ([b0; b1; b2; b3; b4] ++ t). rewrite ltf8_Encode_arm5 by (try assumption; lia). reflexivity. }
  destruct Hcase as [Hc|Hcase].
  { destruct Hc as [Hn Hr]. rewrite Hn.
    destruct buf as [|b0 [|b1 [|b2 [|b3 [|b4 [|b5 t]]]]]]; [short_buf_l|short_buf_l|short_buf_l|short_buf_l|short_buf_l|short_buf_l|].
    rewrite !zlen_cons. pose proof (zlen_nonneg t). destruct (Z.ltb_spec (1 + (1 + (1 + (1 + (1 + (1 + zlen t)))))) 6); [lia|].
    change (b0 :: b1 :: b2 :: b3 :: b4 :: b5 :: t) with ([b0; b1; b2; b3; b4; b5] ++ t). rewrite ltf8_Encode_arm6 by (try assumption; lia). reflexivity. }
  destruct Hcase as [Hc|Hcase].
  { destruct Hc as [Hn Hr]. rewrite Hn.
    destruct buf as [|b0 [|b1 [|b2 [|b3 [|b4 [|b5 [|b6 t]]]]]]]; [short_buf_l|short_buf_l|short_buf_l|short_buf_l|short_buf_l|short_buf_l|short_buf_l|].
    rewrite !zlen_cons. pose proof (zlen_nonneg t). destruct (Z.ltb_spec (1 + (1 + (1 + (1 + (1 + (1 + (1 + zlen t))))))) 7); [lia|].
    change (b0 :: b1 :: b2 :: b3 :: b4 :: b5 :: b6 :: t) with ([b0; b1; b2; b3; b4; b5; b6] ++ t). rewrite ltf8_Encode_arm7 by (try assumption; lia). reflexivity. }
  destruct Hcase as [Hc|Hcase].
  { destruct Hc as [Hn Hr]. rewrite Hn.
    destruct buf as [|b0 [|b1 [|b2 [|b3 [|b4 [|b5 [|b6 [|b7 t]]]]]]]]; [short_buf_l|short_buf_l|short_buf_l|short_buf_l|short_buf_l|short_buf_l|short_buf_l|short_buf_l|].
    rewrite !zlen_cons. pose proof (zlen_nonneg t). destruct (Z.ltb_spec (1 + (1 + (1 + (1 + (1 + (1 + (1 + (1 + zlen t)))))))) 8); [lia|].
    change (b0 :: b1 :: b2 :: b3 :: b4 :: b5 :: b6 :: b7 :: t) with ([b0; b1; b2; b3; b4; b5; b6; b7] ++ t). rewrite ltf8_Encode_arm8 by (try assumption; lia). reflexivity. }
  rename Hcase into Hc. destruct Hc as [Hn Hr]. rewrite Hn.
    destruct buf as [|b0 [|b1 [|b2 [|b3 [|b4 [|b5 [|b6 [|b7 [|b8 t]]]]]]]]]; [short_buf_l|short_buf_l|short_buf_l|short_buf_l|short_buf_l|short_buf_l|short_buf_l|short_buf_l|short_buf_l|].
    rewrite !zlen_cons. pose proof (zlen_nonneg t). destruct (Z.ltb_spec (1 + (1 + (1 + (1 + (1 + (1 + (1 + (1 + (1 + zlen t))))))))) 9); [lia|].
    change (b0 :: b1 :: b2 :: b3 :: b4 :: b5 :: b6 :: b7 :: b8 :: t) with ([b0; b1; b2; b3; b4; b5; b6; b7; b8] ++ t). rewrite ltf8_Encode_arm9 by (try assumption; lia). reflexivity.
Qed.

(** * Decoding foreign spellings; injectivity *)

(** Any byte string whose canonical form is the specified encoding decodes to
    the value, whatever the high nibble of a fifth byte and whatever follows. *)
Lemma itf8_Decode_accepts v enc rest :
  int32 v -> all_bytes enc = true -> all_bytes rest = true ->
  zlen enc = itf8_spec_len (v mod 2^32) -> itf8_canon enc = itf8_spec_encode v ->
  itf8_Decode (enc ++ rest) = Ok (v, itf8_spec_len (v mod 2^32), true).
Proof.
  intros Hv He Hr Hl Hc. rewrite itf8_Decode_spec.
  - rewrite (itf8_spec_roundtrip v enc rest Hv Hl Hc). reflexivity.
  - unfold all_bytes in *. rewrite forallb_app, He, Hr. reflexivity.
Qed.

(** Different values have different encodings (from the round trip). *)
Lemma ltf8_encode_injective v w :
  int64 v -> int64 w -> ltf8_spec_encode v = ltf8_spec_encode w -> v = w.
Proof.
  intros Hv Hw E. pose proof (ltf8_spec_roundtrip v [] Hv) as A. pose proof (ltf8_spec_roundtrip w [] Hw) as B.
  rewrite E in A. rewrite A in B. congruence.
Qed.

Lemma itf8_encode_injective v w :
  int32 v -> int32 w -> itf8_spec_encode v = itf8_spec_encode w -> v = w.
Proof.
  intros Hv Hw E.
  destruct (itf8_wire_props v Hv) as (Lv & _ & Cv). destruct (itf8_wire_props w Hw) as (Lw & _ & Cw).
  pose proof (itf8_spec_roundtrip v (itf8_wire v) [] Hv Lv Cv) as A.
  assert (Lw' : zlen (itf8_wire v) = itf8_spec_len (w mod 2^32)).
  { rewrite Lv. (* lengths agree because the encodings agree *)
    assert (zlen (itf8_spec_encode v) = itf8_spec_len (v mod 2^32)).
    { rewrite <- Cv. rewrite <- Lv. unfold itf8_wire. destruct (v mod 2^32 <? 2^28); [cbn|reflexivity].
      unfold itf8_canon. destruct (itf8_spec_encode v) as [|? [|? [|? [|? [|? [|]]]]]]; reflexivity. }
    assert (zlen (itf8_spec_encode w) = itf8_spec_len (w mod 2^32)).
    { rewrite <- Cw. rewrite <- Lw. unfold itf8_wire. destruct (w mod 2^32 <? 2^28); [cbn|reflexivity].
      unfold itf8_canon. destruct (itf8_spec_encode w) as [|? [|? [|? [|? [|? [|]]]]]]; reflexivity. }
    congruence. }
  pose proof (itf8_spec_roundtrip w (itf8_wire v) [] Hw Lw' ltac:(rewrite Cv; exact E)) as B.
  rewrite A in B. congruence.
Qed.

(** * Round trip through any destination *)

(** Round trip through a destination of any sufficient length. *)
Lemma itf8_roundtrip_any v buf rest :
  int32 v -> all_bytes rest = true -> itf8_spec_len (v mod 2^32) <= zlen buf ->
  exists out,
    itf8_Encode buf v = Ok (itf8_spec_len (v mod 2^32), out) /\
    zlen out = zlen buf /\
    skipn (Z.to_nat (itf8_spec_len (v mod 2^32))) out = skipn (Z.to_nat (itf8_spec_len (v mod 2^32))) buf /\
    itf8_canon (firstn (Z.to_nat (itf8_spec_len (v mod 2^32))) out) = itf8_spec_encode v /\
    itf8_Decode (firstn (Z.to_nat (itf8_spec_len (v mod 2^32))) out ++ rest) = Ok (v, itf8_spec_len (v mod 2^32), true).
Proof.
  intros Hv Hr Hlen. set (n := itf8_spec_len (v mod 2^32)) in *.
  destruct (itf8_wire_props v Hv) as (Hl & Hb & Hc). fold n in Hl.
  assert (Hwl : length (itf8_wire v) = Z.to_nat n) by (rewrite <- Hl; unfold zlen; rewrite Nat2Z.id; reflexivity).
  exists (itf8_wire v ++ skipn (Z.to_nat n) buf).
  rewrite itf8_Encode_any by assumption. fold n. destruct (Z.ltb_spec (zlen buf) n); [lia|].
  split; [reflexivity|].
  assert (Hf : firstn (Z.to_nat n) (itf8_wire v ++ skipn (Z.to_nat n) buf) = itf8_wire v).
  { rewrite <- Hwl. apply firstn_app_exact. }
  rewrite Hf. split.
  { rewrite zlen_app, Hl. unfold zlen in *. rewrite skipn_length. lia. }
  split.
  { rewrite <- Hwl at 1. rewrite skipn_app, Nat.sub_diag, skipn_all. reflexivity. }
  split; [assumption|].
  apply itf8_Decode_accepts; assumption.
Qed.

Lemma ltf8_roundtrip_any v buf rest :
  int64 v -> all_bytes rest = true -> ltf8_spec_len (v mod 2^64) <= zlen buf ->
  exists out,
    ltf8_Encode buf v = Ok (ltf8_spec_len (v mod 2^64), out) /\
    zlen out = zlen buf /\
    skipn (Z.to_nat (ltf8_spec_len (v mod 2^64))) out = skipn (Z.to_nat (ltf8_spec_len (v mod 2^64))) buf /\
    firstn (Z.to_nat (ltf8_spec_len (v mod 2^64))) out = ltf8_spec_encode v /\
    ltf8_Decode (firstn (Z.to_nat (ltf8_spec_len (v mod 2^64))) out ++ rest) = Ok (v, ltf8_spec_len (v mod 2^64), true).
Proof.
  intros Hv Hr Hlen. set (n := ltf8_spec_len (v mod 2^64)) in *.
  destruct (ltf8_spec_encode_props v Hv) as (Hl & Hb). fold n in Hl.
  assert (Hwl : length (ltf8_spec_encode v) = Z.to_nat n) by (rewrite <- Hl; unfold zlen; rewrite Nat2Z.id; reflexivity).
  exists (ltf8_spec_encode v ++ skipn (Z.to_nat n) buf).
  rewrite ltf8_Encode_any by assumption. fold n. destruct (Z.ltb_spec (zlen buf) n); [lia|].
  split; [reflexivity|].
  assert (Hf : firstn (Z.to_nat n) (ltf8_spec_encode v ++ skipn (Z.to_nat n) buf) = ltf8_spec_encode v).
  { rewrite <- Hwl. apply firstn_app_exact. }
  rewrite Hf. split.
  { rewrite zlen_app, Hl. unfold zlen in *. rewrite skipn_length. lia. }
  split.
  { rewrite <- Hwl at 1. rewrite skipn_app, Nat.sub_diag, skipn_all. reflexivity. }
  split; [reflexivity|].
  rewrite ltf8_Decode_spec.
  - rewrite (ltf8_spec_roundtrip v rest Hv). reflexivity.
  - unfold all_bytes in *. rewrite forallb_app, Hb, Hr. reflexivity.
Qed.
