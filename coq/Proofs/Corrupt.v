(** C10 — proofs about the byte-level BGZF reader model (Model/Corrupt.v). *)
From Coq Require Import ZArith List Bool Lia.
From Hts Require Import Base.Prim Generated Model.Corrupt.
Import ListNotations.
Open Scope Z_scope.

Lemma reader_strict : bgzf_reader_strict = true.
Proof. reflexivity. Qed.

Lemma zlen_app : forall A (a b : list A), zlen (a ++ b) = zlen a + zlen b.
Proof. intros. unfold zlen. rewrite app_length. lia. Qed.
Lemma zlen_nonneg : forall A (l : list A), 0 <= zlen l.
Proof. intros. unfold zlen. lia. Qed.
Lemma firstn_zlen_app : forall A (a b : list A), firstn (Z.to_nat (zlen a)) (a ++ b) = a.
Proof. intros. unfold zlen. rewrite Nat2Z.id. rewrite firstn_app, Nat.sub_diag, firstn_all. simpl. apply app_nil_r. Qed.
Lemma skipn_zlen_app : forall A (a b : list A), skipn (Z.to_nat (zlen a)) (a ++ b) = b.
Proof. intros. unfold zlen. rewrite Nat2Z.id. rewrite skipn_app, Nat.sub_diag, skipn_all. reflexivity. Qed.

Section Laws.
Variable inflate : list Z -> option (list Z * list Z).
Variable crc32 : list Z -> Z.
Variable deflate : list Z -> list Z.
(** The law about DEFLATE that the theorems use: a complete deflate stream is
    decoded to its data whatever follows it, and the decoder stops exactly at
    its end. *)
Hypothesis inflate_deflate : forall d r, inflate (deflate d ++ r) = Some (d, r).

Definition le32b (x : Z) : list Z := [x mod 256; (x / 256) mod 256; (x / 65536) mod 256; (x / 16777216) mod 256].

Lemma le32_le32b : forall x, 0 <= x < 4294967296 -> le32 (le32b x) = x.
Proof. intros x H. unfold le32, le32b. Ltac zpost := Z.div_mod_to_equations. Ltac Zify.zify_post_hook ::= Z.div_mod_to_equations. lia. Qed.

(** A BGZF member as bgzf.Writer produces it (FLG = FEXTRA, one BC subfield). *)
Definition trailer (d : list Z) : list Z := le32b (crc32 d) ++ le32b (zlen d).
Definition body (d : list Z) : list Z := deflate d ++ trailer d.
Definition bsize (d : list Z) : Z := 18 + zlen (body d) - 1.
Definition header (d : list Z) : list Z :=
  [31; 139; 8; 4; 0; 0; 0; 0; 0; 255; 6; 0; 66; 67; 2; 0; bsize d mod 256; bsize d / 256].
Definition mk_member (d : list Z) : list Z := header d ++ body d.

(** Well-formed data block: what the Writer guarantees (size limits) and the range of CRC-32. *)
Definition wf (d : list Z) : Prop :=
  0 <= crc32 d < 4294967296 /\ zlen d <= bgzf_MaxBlockSize /\ bsize d < 65536.

Lemma trailer_len : forall d, zlen (trailer d) = 8.
Proof. reflexivity. Qed.

Lemma gz_header_member : forall d rest,
  gz_header crc32 (mk_member d ++ rest) = ROk ([66; 67; 2; 0; bsize d mod 256; bsize d / 256], body d ++ rest).
Proof.
  intros d rest. unfold mk_member, header. rewrite <- app_assoc. simpl. reflexivity.
Qed.

Lemma gz_body_step : forall fuel bdy data c0 c1 c2 c3 s0 s1 s2 s3,
  inflate bdy = Some (data, [c0; c1; c2; c3; s0; s1; s2; s3]) ->
  le32 [c0; c1; c2; c3] = crc32 data -> le32 [s0; s1; s2; s3] = zlen data mod 4294967296 ->
  zlen data <= bgzf_MaxBlockSize ->
  gz_body inflate crc32 (S fuel) bdy [] = Some data.
Proof.
  intros fuel bdy data c0 c1 c2 c3 s0 s1 s2 s3 Hi Hc Hs Hl.
  cbn [gz_body]. rewrite Hi. cbv iota beta. rewrite Hc, Hs, !Z.eqb_refl. cbn [andb negb app].
  destruct (bgzf_MaxBlockSize <? zlen data) eqn:E; [apply Z.ltb_lt in E; lia | reflexivity].
Qed.

Lemma gz_body_member : forall d fuel, wf d ->
  gz_body inflate crc32 (S fuel) (body d) [] = Some d.
Proof.
  intros d fuel [Hc [Hl Hb]]. assert (Hz := zlen_nonneg _ d). unfold bgzf_MaxBlockSize in Hl.
  eapply gz_body_step.
  - unfold body, trailer. rewrite inflate_deflate. unfold le32b. reflexivity.
  - apply (le32_le32b (crc32 d)). lia.
  - transitivity (zlen d); [apply (le32_le32b (zlen d)); lia | symmetry; apply Z.mod_small; lia].
  - unfold bgzf_MaxBlockSize. lia.
Qed.

(** T1: a well-formed member, followed by anything, is read back exactly. *)
Lemma read_member_ok : forall strict d rest, wf d ->
  read_member inflate crc32 strict (mk_member d ++ rest) = ROk (d, rest).
Proof.
  intros strict d rest W. pose proof W as [Hc [Hl Hb]]. unfold read_member. rewrite gz_header_member.
  assert (Hbody : 8 <= zlen (body d)).
  { unfold body. rewrite zlen_app, trailer_len. pose proof (zlen_nonneg _ (deflate d)). lia. }
  assert (Hbs : 0 <= bsize d) by (unfold bsize; lia).
  simpl member_size. cbv beta iota.
  assert (Hsz : le16 (bsize d mod 256) (bsize d / 256) + 1 = 18 + zlen (body d)).
  { unfold le16. Ltac Zify.zify_post_hook ::= Z.div_mod_to_equations. unfold bsize in *. lia. }
  rewrite Hsz.
  assert (Hsk : zlen (mk_member d ++ rest) - zlen (body d ++ rest) = 18).
  { unfold mk_member. rewrite !zlen_app. unfold header. change (zlen [31; 139; 8; 4; 0; 0; 0; 0; 0; 255; 6; 0; 66; 67; 2; 0; bsize d mod 256; bsize d / 256]) with 18. lia. }
  cbv zeta. rewrite Hsk.
  replace (18 + zlen (body d) - 18) with (zlen (body d)) by lia.
  destruct (zlen (body d) =? 0) eqn:E1; [apply Z.eqb_eq in E1; lia|].
  destruct (zlen (body d) <? 0) eqn:E2; [apply Z.ltb_lt in E2; lia|].
  rewrite zlen_app. pose proof (zlen_nonneg _ rest).
  destruct (zlen (body d) + zlen rest =? 0) eqn:E3; [apply Z.eqb_eq in E3; lia|].
  destruct (zlen (body d) + zlen rest <? zlen (body d)) eqn:E4; [apply Z.ltb_lt in E4; lia|].
  rewrite firstn_zlen_app, skipn_zlen_app. rewrite gz_body_member by exact W. reflexivity.
Qed.


Definition stream (ds : list (list Z)) : list Z := concat (map mk_member ds).

Lemma stream_cons : forall d ds, stream (d :: ds) = mk_member d ++ stream ds.
Proof. reflexivity. Qed.

Lemma header_len : forall d, length (header d) = 18%nat.
Proof. reflexivity. Qed.

Lemma member_len : forall d, zlen (mk_member d) = 18 + zlen (body d).
Proof. intros. unfold mk_member. rewrite zlen_app. reflexivity. Qed.

(** A closed stream is read back completely and ends cleanly. *)
Lemma read_stream_full : forall strict ds fuel, Forall wf ds -> (length ds < fuel)%nat ->
  read_stream inflate crc32 strict fuel (stream ds) = (concat ds, true).
Proof.
  intros strict ds. induction ds as [|d ds IH]; intros fuel W F.
  - destruct fuel; [lia|]. reflexivity.
  - destruct fuel; [simpl in F; lia|]. inversion W; subst.
    rewrite stream_cons. cbn [read_stream].
    rewrite read_member_ok by assumption. rewrite IH; [reflexivity | assumption | simpl in F; lia].
Qed.

(** T2: a member cut anywhere strictly inside is an error (repaired reader). *)
Lemma cut_header : forall d (n : nat), (0 < n < 18)%nat ->
  gz_header crc32 (firstn n (header d)) = RErr.
Proof.
  intros d n H. unfold header.
  do 18 (destruct n as [|n]; [try lia; reflexivity|]). lia.
Qed.

Lemma read_member_cut : forall d (n : nat), wf d -> (0 < n)%nat -> Z.of_nat n < zlen (mk_member d) ->
  read_member inflate crc32 true (firstn n (mk_member d)) = RErr.
Proof.
  intros d n W Hn Hl. pose proof W as [Hc [Hm Hb]]. rewrite member_len in Hl.
  assert (Hbody : 8 <= zlen (body d)).
  { unfold body. rewrite zlen_app, trailer_len. pose proof (zlen_nonneg _ (deflate d)). lia. }
  unfold mk_member. rewrite firstn_app. rewrite header_len.
  destruct (Nat.ltb n 18) eqn:E.
  - apply Nat.ltb_lt in E. replace (n - 18)%nat with 0%nat by lia. simpl firstn at 2. rewrite app_nil_r.
    unfold read_member. rewrite cut_header by lia. reflexivity.
  - apply Nat.ltb_ge in E. rewrite firstn_all2 by (rewrite header_len; lia).
    set (fb := firstn (n - 18) (body d)).
    assert (Hfb : zlen fb = Z.of_nat n - 18).
    { unfold fb, zlen. rewrite firstn_length_le; [lia|]. unfold zlen in Hl. lia. }
    unfold read_member.
    assert (G : gz_header crc32 (header d ++ fb) = ROk ([66; 67; 2; 0; bsize d mod 256; bsize d / 256], fb)) by reflexivity.
    rewrite G. simpl member_size. cbv beta iota.
    assert (Hbs : 0 <= bsize d) by (unfold bsize; lia).
    assert (Hsz : le16 (bsize d mod 256) (bsize d / 256) + 1 = 18 + zlen (body d)).
    { unfold le16. Ltac Zify.zify_post_hook ::= Z.div_mod_to_equations. unfold bsize in *. lia. }
    rewrite Hsz. cbv zeta.
    assert (Hsk : zlen (header d ++ fb) - zlen fb = 18).
    { rewrite zlen_app. change (zlen (header d)) with 18. lia. }
    rewrite Hsk. replace (18 + zlen (body d) - 18) with (zlen (body d)) by lia.
    destruct (zlen (body d) =? 0) eqn:E1; [apply Z.eqb_eq in E1; lia|].
    destruct (zlen (body d) <? 0) eqn:E2; [apply Z.ltb_lt in E2; lia|].
    destruct (zlen fb =? 0) eqn:E3; [reflexivity|].
    destruct (zlen fb <? zlen (body d)) eqn:E4; [reflexivity | apply Z.ltb_ge in E4; lia].
Qed.

Lemma firstn_app_ge : forall A (a b : list A) n, (length a <= n)%nat -> firstn n (a ++ b) = a ++ firstn (n - length a) b.
Proof. intros. rewrite firstn_app. rewrite firstn_all2 by lia. reflexivity. Qed.
Lemma firstn_app_lt : forall A (a b : list A) n, (n <= length a)%nat -> firstn n (a ++ b) = firstn n a.
Proof. intros. rewrite firstn_app. replace (n - length a)%nat with 0%nat by lia. simpl. apply app_nil_r. Qed.

(** Truncation: every prefix of a closed stream yields the data of the
    complete members before the cut and then an error — or a clean end, and
    then the cut is exactly at the end of those members. *)
Lemma truncation_gen : forall ds (n : nat) fuel, Forall wf ds -> (length ds < fuel)%nat ->
  exists j, (j <= length ds)%nat /\
    fst (read_stream inflate crc32 true fuel (firstn n (stream ds))) = concat (firstn j ds) /\
    (length (stream (firstn j ds)) <= n)%nat /\
    (snd (read_stream inflate crc32 true fuel (firstn n (stream ds))) = true ->
       (n <= length (stream ds))%nat -> n = length (stream (firstn j ds))).
Proof.
  intros ds. induction ds as [|d ds IH]; intros n fuel W F.
  - exists 0%nat. destruct fuel; [lia|]. unfold stream. simpl. rewrite firstn_nil. simpl.
    repeat split; auto; try lia.
  - destruct fuel; [simpl in F; lia|]. inversion W as [|? ? Wd Wds]; subst.
    rewrite stream_cons.
    destruct (Nat.leb (length (mk_member d)) n) eqn:E.
    + apply Nat.leb_le in E. rewrite firstn_app_ge by exact E.
      cbn [read_stream]. rewrite read_member_ok by assumption.
      destruct (IH (n - length (mk_member d))%nat fuel Wds ltac:(simpl in F; lia)) as [j [Hj [Hd [Hle Hok]]]].
      exists (S j). cbn [firstn].
      destruct (read_stream inflate crc32 true fuel (firstn (n - length (mk_member d)) (stream ds))) as [dd ok] eqn:R.
      cbn [fst snd length] in *. repeat split.
      * lia.
      * cbn [concat]. rewrite Hd. reflexivity.
      * rewrite stream_cons, app_length. lia.
      * intros Ho Hn. rewrite stream_cons, app_length. rewrite app_length in Hn. specialize (Hok Ho). lia.
    + apply Nat.leb_gt in E. rewrite firstn_app_lt by lia.
      exists 0%nat. simpl firstn. cbn [read_stream].
      destruct n as [|n].
      * simpl. repeat split; auto; lia.
      * rewrite read_member_cut; [| assumption | lia | unfold zlen; lia].
        cbn [fst snd]. split; [lia|]. split; [reflexivity|]. split; [unfold stream; simpl; lia|]. intros X. discriminate.
Qed.

(** Whatever the gzip layer accepts carries, right behind its deflate stream,
    the CRC-32 and the length (mod 2^32) of the data that was decoded. *)
Lemma gz_body_crc : forall f bdy acc out,
  gz_body inflate crc32 (S f) bdy acc = Some out ->
  exists d1 c0 c1 c2 c3 s0 s1 s2 s3 rest2,
    inflate bdy = Some (d1, c0 :: c1 :: c2 :: c3 :: s0 :: s1 :: s2 :: s3 :: rest2) /\
    le32 [c0; c1; c2; c3] = crc32 d1 /\ le32 [s0; s1; s2; s3] = zlen d1 mod 4294967296.
Proof.
  intros f bdy acc out H. cbn [gz_body] in H.
  destruct (inflate bdy) as [[d1 rest]|] eqn:I; [|discriminate].
  do 8 (destruct rest as [|? rest]; [discriminate|]).
  match type of H with (if negb (?a && ?b) then _ else _) = _ => destruct a eqn:A; destruct b eqn:B; try discriminate end.
  apply Z.eqb_eq in A. apply Z.eqb_eq in B.
  do 10 eexists. split; [reflexivity|]. split; assumption.
Qed.

Lemma le32b_le32 : forall a b c d, is_byte a = true -> is_byte b = true -> is_byte c = true -> is_byte d = true ->
  le32b (le32 [a; b; c; d]) = [a; b; c; d].
Proof.
  intros a b c d Ha Hb Hc Hd. unfold is_byte in *.
  apply andb_prop in Ha. apply andb_prop in Hb. apply andb_prop in Hc. apply andb_prop in Hd.
  destruct Ha as [A1 A2]. destruct Hb as [B1 B2]. destruct Hc as [C1 C2]. destruct Hd as [D1 D2].
  apply Z.leb_le in A1, B1, C1, D1. apply Z.ltb_lt in A2, B2, C2, D2.
  unfold le32b, le32. Ltac Zify.zify_post_hook ::= Z.div_mod_to_equations.
  f_equal; [lia|]. f_equal; [lia|]. f_equal; [lia|]. f_equal. lia.
Qed.

(** Framing, trailer part: with the deflate payload intact, any other eight
    bytes in the place of CRC-32 and ISIZE are rejected. *)
Lemma trailer_corruption : forall d f c0 c1 c2 c3 s0 s1 s2 s3, wf d ->
  all_bytes [c0; c1; c2; c3; s0; s1; s2; s3] = true ->
  [c0; c1; c2; c3; s0; s1; s2; s3] <> trailer d ->
  gz_body inflate crc32 (S f) (deflate d ++ [c0; c1; c2; c3; s0; s1; s2; s3]) [] = None.
Proof.
  intros d f c0 c1 c2 c3 s0 s1 s2 s3 [Hc [Hl Hb]] AB NE.
  cbn [gz_body]. rewrite inflate_deflate. cbv iota beta.
  destruct (le32 [c0; c1; c2; c3] =? crc32 d) eqn:A; [|reflexivity].
  destruct (le32 [s0; s1; s2; s3] =? zlen d mod 4294967296) eqn:B; [|reflexivity].
  exfalso. apply NE. apply Z.eqb_eq in A. apply Z.eqb_eq in B.
  assert (Hz := zlen_nonneg _ d). unfold bgzf_MaxBlockSize in Hl. rewrite Z.mod_small in B by lia.
  simpl in AB. repeat (apply andb_prop in AB; destruct AB as [? AB]).
  unfold trailer. rewrite <- A, <- B. rewrite !le32b_le32 by assumption. reflexivity.
Qed.

End Laws.
