(** C10 — substitutions in the framing bytes of a member header. *)
From Coq Require Import ZArith List Bool Lia.
From Hts Require Import Base.Prim Generated Model.Corrupt Proofs.Corrupt.
Import ListNotations.
Open Scope Z_scope.

Section Laws3.
Variable inflate : list Z -> option (list Z * list Z).
Variable crc32 : list Z -> Z.
Variable deflate : list Z -> list Z.
Hypothesis inflate_deflate : forall d r, inflate (deflate d ++ r) = Some (d, r).
(** The second law about DEFLATE: a proper prefix of a deflate stream does not decode. *)
Hypothesis inflate_prefix : forall d (t : nat), (t < length (deflate d))%nat -> inflate (firstn t (deflate d)) = None.

Notation mk := (mk_member crc32 deflate).
Notation strm := (stream crc32 deflate).
Notation wfd := (wf crc32 deflate).
Notation bdy := (body crc32 deflate).
Notation trl := (trailer crc32).

(** A member whose two BSIZE bytes are [lo], [hi] (everything else as written). *)
Definition header' (lo hi : Z) : list Z := [31; 139; 8; 4; 0; 0; 0; 0; 0; 255; 6; 0; 66; 67; 2; 0; lo; hi].

Lemma short_trailer : forall (A : Type) (l : list Z) (X : Z -> Z -> Z -> Z -> Z -> Z -> Z -> Z -> list Z -> option A),
  (length l < 8)%nat ->
  match l with c0 :: c1 :: c2 :: c3 :: s0 :: s1 :: s2 :: s3 :: r => X c0 c1 c2 c3 s0 s1 s2 s3 r | _ => None end = None.
Proof. intros A l X H. do 8 (destruct l as [|? l]; [reflexivity|]). simpl in H. lia. Qed.

(** The gzip layer over a strict prefix of a member body fails. *)
Lemma gz_body_cut : forall d (t : nat) f acc, (t < length (bdy d))%nat ->
  gz_body inflate crc32 (S f) (firstn t (bdy d)) acc = None.
Proof.
  intros d t f acc Ht. unfold body in *. rewrite app_length in Ht. change (length (trl d)) with 8%nat in Ht.
  cbn [gz_body]. rewrite firstn_app.
  destruct (Nat.ltb t (length (deflate d))) eqn:E.
  - apply Nat.ltb_lt in E. replace (t - length (deflate d))%nat with 0%nat by lia. simpl firstn at 2. rewrite app_nil_r.
    rewrite inflate_prefix by exact E. reflexivity.
  - apply Nat.ltb_ge in E. rewrite firstn_all2 by lia. rewrite inflate_deflate.
    apply short_trailer. rewrite firstn_length. lia.
Qed.

Lemma stream_cons' : forall d ds, strm (d :: ds) = mk d ++ strm ds.
Proof. reflexivity. Qed.

(** One step of the gzip layer over a whole member body followed by [rest]. *)
Lemma gz_body_unfold : forall d f rest acc, wfd d ->
  gz_body inflate crc32 (S f) (bdy d ++ rest) acc =
  if bgzf_MaxBlockSize <? zlen (acc ++ d) then None
  else match rest with
       | [] => Some (acc ++ d)
       | _ => match gz_header crc32 rest with
              | ROk (_, body2) => gz_body inflate crc32 f body2 (acc ++ d)
              | _ => None
              end
       end.
Proof.
  intros d f rest acc [Hc [Hl Hb]]. assert (Hz := zlen_nonneg _ d). unfold bgzf_MaxBlockSize in Hl.
  unfold body, trailer. rewrite <- !app_assoc. cbn [gz_body]. rewrite inflate_deflate.
  unfold le32b. cbn [app]. cbv iota beta.
  change [crc32 d mod 256; (crc32 d / 256) mod 256; (crc32 d / 65536) mod 256; (crc32 d / 16777216) mod 256] with (le32b (crc32 d)).
  change [zlen d mod 256; (zlen d / 256) mod 256; (zlen d / 65536) mod 256; (zlen d / 16777216) mod 256] with (le32b (zlen d)).
  rewrite !le32_le32b by lia. rewrite (Z.mod_small (zlen d)) by lia. rewrite !Z.eqb_refl. cbn [andb negb]. reflexivity.
Qed.

(** The gzip layer over a whole member body followed by the first k bytes of
    the members after it (what a larger BSIZE hands to it): it fails, or k is
    exactly the end of j following members and the data of all of them is
    returned in order — gzip's multistream mode joins the members. *)
Lemma gz_body_span : forall ds d (k f : nat) acc, wfd d -> Forall wfd ds -> (k < S f)%nat ->
  (k <= length (strm ds))%nat ->
  gz_body inflate crc32 (S f) (bdy d ++ firstn k (strm ds)) acc = None \/
  exists j, k = length (strm (firstn j ds)) /\
    gz_body inflate crc32 (S f) (bdy d ++ firstn k (strm ds)) acc = Some (acc ++ d ++ concat (firstn j ds)).
Proof.
  induction ds as [|d2 ds IH]; intros d k f acc W Ws F Hk; rewrite gz_body_unfold by exact W.
  - unfold stream in *. simpl in *. assert (k = 0%nat) by lia. subst k. simpl firstn.
    destruct (bgzf_MaxBlockSize <? zlen (acc ++ d)); [left; reflexivity|].
    right. exists 0%nat. split; [reflexivity|]. simpl. rewrite app_nil_r. reflexivity.
  - inversion Ws as [|? ? W2 Ws']; subst. rewrite stream_cons' in *.
    destruct (bgzf_MaxBlockSize <? zlen (acc ++ d)) eqn:EM; [left; reflexivity|].
    destruct k as [|k'].
    + simpl firstn. right. exists 0%nat. split; [reflexivity|]. simpl. rewrite app_nil_r. reflexivity.
    + set (k := S k') in *.
      destruct (firstn k (mk d2 ++ strm ds)) as [|x0 xs] eqn:EF.
      { exfalso. assert (length (firstn k (mk d2 ++ strm ds)) = k) by (apply firstn_length_le; exact Hk). rewrite EF in H. simpl in H. unfold k in H. lia. }
      rewrite <- EF. clear EF x0 xs.
      destruct (Nat.leb (length (mk d2)) k) eqn:E.
      * apply Nat.leb_le in E. rewrite firstn_app_ge by exact E.
        rewrite gz_header_member.
        destruct f as [|f']; [unfold k in F; lia|].
        rewrite app_length in Hk.
        assert (L26 : (18 <= length (mk d2))%nat) by (unfold mk_member; rewrite app_length, header_len; lia).
        destruct (IH d2 (k - length (mk d2))%nat f' (acc ++ d) W2 Ws' ltac:(lia) ltac:(lia)) as [N | [j [Hj G]]].
        -- left. exact N.
        -- right. exists (S j). cbn [firstn]. rewrite stream_cons', app_length. split; [lia|].
           rewrite G. cbn [concat]. rewrite <- !app_assoc. reflexivity.
      * apply Nat.leb_gt in E. rewrite firstn_app_lt by lia. left.
        unfold mk_member. rewrite firstn_app. rewrite header_len.
        destruct (Nat.ltb k 18) eqn:E18.
        -- apply Nat.ltb_lt in E18. replace (k - 18)%nat with 0%nat by lia. simpl firstn at 2. rewrite app_nil_r.
           rewrite (cut_header inflate crc32 deflate inflate_deflate) by (unfold k; lia). reflexivity.
        -- apply Nat.ltb_ge in E18. rewrite firstn_all2 by (rewrite header_len; lia).
           assert (G : gz_header crc32 (header crc32 deflate d2 ++ firstn (k - 18) (bdy d2)) =
                       ROk ([66; 67; 2; 0; bsize crc32 deflate d2 mod 256; bsize crc32 deflate d2 / 256], firstn (k - 18) (bdy d2))) by reflexivity.
           rewrite G. destruct f as [|f']; [unfold k in F; lia|].
           apply gz_body_cut. unfold mk_member in E. rewrite app_length, header_len in E. lia.
Qed.


Lemma stream_skipn : forall ds j, skipn (length (strm (firstn j ds))) (strm ds) = strm (skipn j ds).
Proof.
  intros ds j. rewrite <- (firstn_skipn j ds) at 2. unfold stream. rewrite map_app, concat_app.
  rewrite skipn_app, Nat.sub_diag, skipn_all. reflexivity.
Qed.

(** A member whose BSIZE bytes have been replaced by arbitrary values, followed
    by well-formed members: the read fails, or it returns the data of this member
    and of the j following members that the announced size happens to span
    exactly, and continues behind them. *)
Lemma bsize_member : forall lo hi d ds, wfd d -> Forall wfd ds ->
  read_member inflate crc32 true (header' lo hi ++ bdy d ++ strm ds) = RErr \/
  exists j, read_member inflate crc32 true (header' lo hi ++ bdy d ++ strm ds) = ROk (d ++ concat (firstn j ds), strm (skipn j ds)).
Proof.
  intros lo hi d ds W Ws. unfold read_member.
  assert (G : gz_header crc32 (header' lo hi ++ bdy d ++ strm ds) = ROk ([66; 67; 2; 0; lo; hi], bdy d ++ strm ds)) by reflexivity.
  rewrite G. simpl member_size. cbv beta iota zeta.
  assert (Hsk : zlen (header' lo hi ++ bdy d ++ strm ds) - zlen (bdy d ++ strm ds) = 18).
  { rewrite (zlen_app _ (header' lo hi)). change (zlen (header' lo hi)) with 18. lia. }
  rewrite Hsk. set (need := le16 lo hi + 1 - 18).
  assert (Hbody : 8 <= zlen (bdy d)).
  { unfold body. rewrite zlen_app. change (zlen (trl d)) with 8. pose proof (zlen_nonneg _ (deflate d)). lia. }
  destruct (need =? 0); [left; reflexivity|].
  destruct (need <? 0) eqn:E2; [left; reflexivity|]. apply Z.ltb_ge in E2.
  rewrite zlen_app. pose proof (zlen_nonneg _ (strm ds)) as Hs.
  destruct (zlen (bdy d) + zlen (strm ds) =? 0) eqn:E3; [apply Z.eqb_eq in E3; lia|].
  destruct (zlen (bdy d) + zlen (strm ds) <? need) eqn:E4; [left; reflexivity|]. apply Z.ltb_ge in E4.
  destruct (Nat.ltb (Z.to_nat need) (length (bdy d))) eqn:E5.
  - apply Nat.ltb_lt in E5. rewrite firstn_app_lt by lia. rewrite gz_body_cut by exact E5. left. reflexivity.
  - apply Nat.ltb_ge in E5. rewrite firstn_app_ge by exact E5.
    set (k := (Z.to_nat need - length (bdy d))%nat).
    assert (Hk : (k <= length (strm ds))%nat) by (unfold k, zlen in *; lia).
    assert (Lm : length (bdy d ++ firstn k (strm ds)) = (length (bdy d) + k)%nat) by (rewrite app_length, firstn_length_le; lia).
    rewrite Lm.
    destruct (gz_body_span ds d k (length (bdy d) + k) [] W Ws ltac:(lia) Hk) as [N | [j [Hj Gs]]].
    + rewrite N. left. reflexivity.
    + rewrite Gs. right. exists j. simpl app. f_equal. f_equal.
      rewrite skipn_app. rewrite skipn_all2 by lia. simpl.
      fold k. rewrite Hj. apply stream_skipn.
Qed.

(** BSIZE: whatever the two size bytes are replaced with, the stream from this
    member on is either rejected at this member or read back exactly — the
    second case includes an announced size that spans this member and the next
    ones exactly: gzip's multistream mode joins them and the data is the same. *)
Lemma bsize_corruption_gen : forall lo hi d ds fuel, wfd d -> Forall wfd ds -> (length ds < fuel)%nat ->
  let r := read_stream inflate crc32 true (S fuel) (header' lo hi ++ bdy d ++ strm ds) in
  r = ([], false) \/ r = (concat (d :: ds), true).
Proof.
  intros lo hi d ds fuel W Ws F r. unfold r. cbn [read_stream].
  destruct (bsize_member lo hi d ds W Ws) as [E | [j E]]; rewrite E.
  - left. reflexivity.
  - right. rewrite (read_stream_full inflate crc32 deflate inflate_deflate).
    + f_equal. cbn [concat]. rewrite <- app_assoc. f_equal. rewrite <- concat_app. rewrite firstn_skipn. reflexivity.
    + rewrite <- (firstn_skipn j ds) in Ws. apply Forall_app in Ws. apply Ws.
    + rewrite skipn_length. lia.
Qed.

(** The untouched BSIZE bytes give the original member. *)
Lemma header'_orig : forall d, header' (bsize crc32 deflate d mod 256) (bsize crc32 deflate d / 256) = header crc32 deflate d.
Proof. reflexivity. Qed.

(** ID1, ID2, CM: any other value is rejected by the header parse. *)
Lemma magic_corruption : forall strict b0 b1 b2 tl,
  (b0 =? 31) && (b1 =? 139) && (b2 =? 8) = false ->
  read_member inflate crc32 strict (b0 :: b1 :: b2 :: tl) = RErr.
Proof.
  intros strict b0 b1 b2 tl H. unfold read_member, gz_header.
  do 7 (destruct tl as [|? tl]; [reflexivity|]). rewrite H. reflexivity.
Qed.

(** FLG.  With FEXTRA kept and FHCRC, FNAME, FCOMMENT clear, the remaining bits
    (FTEXT and the reserved ones) are not looked at: the header parses exactly
    as the original one and the stream reads back unchanged. *)
Lemma flg_ignored_bits : forall v tl, Z.testbit v 2 = true -> Z.testbit v 1 = false -> Z.testbit v 3 = false -> Z.testbit v 4 = false ->
  gz_header crc32 (31 :: 139 :: 8 :: v :: tl) = gz_header crc32 (31 :: 139 :: 8 :: 4 :: tl).
Proof.
  intros v tl H2 H1 H3 H4. unfold gz_header.
  do 6 (destruct tl as [|? tl]; [reflexivity|]).
  rewrite H2, H1, H3, H4. reflexivity.
Qed.

Lemma flg_ignored_bits_member : forall strict v tl, Z.testbit v 2 = true -> Z.testbit v 1 = false -> Z.testbit v 3 = false -> Z.testbit v 4 = false ->
  read_member inflate crc32 strict (31 :: 139 :: 8 :: v :: tl) = read_member inflate crc32 strict (31 :: 139 :: 8 :: 4 :: tl).
Proof.
  intros. unfold read_member. rewrite (flg_ignored_bits v tl) by assumption.
  change (zlen (31 :: 139 :: 8 :: v :: tl)) with (zlen (31 :: 139 :: 8 :: 4 :: tl)). reflexivity.
Qed.

End Laws3.

(** Whatever the gzip layer accepts fits the block buffer. *)
Lemma gz_body_capacity : forall (inflate : list Z -> option (list Z * list Z)) (crc32 : list Z -> Z) f bdy acc out,
  gz_body inflate crc32 f bdy acc = Some out -> zlen out <= bgzf_MaxBlockSize.
Proof.
  intros inflate crc32 f. induction f as [|f IH]; intros bdy acc out H; [discriminate|].
  cbn [gz_body] in H.
  destruct (inflate bdy) as [[d1 rest]|]; [|discriminate].
  do 8 (destruct rest as [|? rest]; [discriminate|]).
  match type of H with (if ?c then _ else _) = _ => destruct c; [discriminate|] end.
  destruct (bgzf_MaxBlockSize <? zlen (acc ++ d1)) eqn:E.
  - change (bgzf_readToEOF_guard =? bgzf_MaxBlockSize) with true in H. discriminate.
  - apply Z.ltb_ge in E. destruct rest as [|x rest'].
    + injection H as H; subst. exact E.
    + destruct (gz_header crc32 (x :: rest')) as [[ex b2]| |]; try discriminate. eapply IH; eauto.
Qed.

Lemma capacity_gen :
  bgzf_readToEOF_guard = bgzf_MaxBlockSize /\
  forall (inflate : list Z -> option (list Z * list Z)) (crc32 : list Z -> Z) f bdy acc out,
    gz_body inflate crc32 f bdy acc = Some out -> zlen out <= bgzf_MaxBlockSize.
Proof. split; [reflexivity | exact gz_body_capacity]. Qed.
