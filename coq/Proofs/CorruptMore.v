(** C10 — HasEOF at a cut, the BAM record layer, framing bytes of the header. *)
From Coq Require Import ZArith List Bool Lia.
From Hts Require Import Base.Prim Generated Model.Corrupt Proofs.Corrupt.
From Hts Require Import Model.BamFrame.
Import ListNotations.
Open Scope Z_scope.

(** * Last bytes of a stream *)
Lemma zlist_eqb_eq : forall a b, zlist_eqb a b = true -> a = b.
Proof.
  induction a as [|x a IH]; destruct b as [|y b]; simpl; intros H; try discriminate; auto.
  apply andb_prop in H. destruct H as [H1 H2]. apply Z.eqb_eq in H1. subst. f_equal. auto.
Qed.

Lemma has_eof_suffix : forall bs, has_eof bs = 1 -> exists p, bs = p ++ bgzf_magicBlock.
Proof.
  intros bs H. unfold has_eof in H. destruct (Nat.ltb (length bs) 28); [discriminate|].
  destruct (zlist_eqb (skipn (length bs - 28) bs) bgzf_magicBlock) eqn:E; [|discriminate].
  apply zlist_eqb_eq in E. exists (firstn (length bs - 28) bs). rewrite <- E. symmetry. apply firstn_skipn.
Qed.

Lemma app_tail4 : forall (a b : list Z) x1 x2 x3 x4 y1 y2 y3 y4,
  a ++ [x1; x2; x3; x4] = b ++ [y1; y2; y3; y4] -> x1 = y1 /\ x2 = y2 /\ x3 = y3 /\ x4 = y4.
Proof.
  intros a b x1 x2 x3 x4 y1 y2 y3 y4 H.
  change (a ++ [x1; x2; x3; x4]) with (a ++ [x1] ++ [x2] ++ [x3] ++ [x4]) in H.
  change (b ++ [y1; y2; y3; y4]) with (b ++ [y1] ++ [y2] ++ [y3] ++ [y4]) in H.
  rewrite !app_assoc in H.
  apply app_inj_tail in H. destruct H as [H ?].
  apply app_inj_tail in H. destruct H as [H ?].
  apply app_inj_tail in H. destruct H as [H ?].
  apply app_inj_tail in H. destruct H as [H ?]. auto.
Qed.

Section Laws2.
Variable inflate : list Z -> option (list Z * list Z).
Variable crc32 : list Z -> Z.
Variable deflate : list Z -> list Z.
Hypothesis inflate_deflate : forall d r, inflate (deflate d ++ r) = Some (d, r).

Notation mk := (mk_member crc32 deflate).
Notation strm := (stream crc32 deflate).
Notation wfd := (wf crc32 deflate).

(** A member of a non-empty block never ends like the EOF marker: its last four
    bytes are the (non-zero) length, the marker's are zero. *)
Lemma member_not_marker_tail : forall pre d, wfd d -> d <> [] -> has_eof (pre ++ mk d) <> 1.
Proof.
  intros pre d [Hc [Hl Hb]] Hd H. apply has_eof_suffix in H. destruct H as [p H].
  unfold mk_member, body, trailer in H. unfold le32b at 2 in H.
  change bgzf_magicBlock with ([31; 139; 8; 4; 0; 0; 0; 0; 0; 255; 6; 0; 66; 67; 2; 0; 27; 0; 3; 0; 0; 0; 0; 0] ++ [0; 0; 0; 0]) in H.
  rewrite !app_assoc in H.
  apply app_tail4 in H. destruct H as [H1 [H2 [H3 H4]]].
  assert (Hz := zlen_nonneg _ d). unfold bgzf_MaxBlockSize in Hl.
  assert (zlen d = 0). { Ltac Zify.zify_post_hook ::= Z.div_mod_to_equations. lia. }
  destruct d; [contradiction|]. unfold zlen in *. simpl in *. lia.
Qed.

Lemma stream_app : forall a b, strm (a ++ b) = strm a ++ strm b.
Proof. intros. unfold stream. rewrite map_app, concat_app. reflexivity. Qed.

(** HasEOF at a member boundary before the marker: the stream of the first j
    data blocks (all non-empty) does not end with the marker. *)
Lemma has_eof_boundary : forall ds j, Forall wfd ds -> Forall (fun d => d <> []) ds ->
  has_eof (strm (firstn j ds)) <> 1.
Proof.
  intros ds j W NE.
  destruct (firstn j ds) as [|x l] eqn:E using rev_ind.
  - unfold stream. simpl. unfold has_eof. simpl. discriminate.
  - clear IHl. rewrite stream_app. unfold stream at 2. simpl. rewrite app_nil_r.
    assert (In x ds). { rewrite <- (firstn_skipn j ds). rewrite E. apply in_or_app. left. apply in_or_app. right. left. reflexivity. }
    rewrite Forall_forall in W, NE. apply member_not_marker_tail; auto.
Qed.

(** * BAM record layer *)
Definition rec_bytes (r : list Z) : list Z := le32b (zlen r) ++ r.
Definition flat (rs : list (list Z)) : list Z := concat (map rec_bytes rs).
Definition okrec (r : list Z) : Prop := 0 < zlen r < 2147483648.

Lemma flat_cons : forall r rs, flat (r :: rs) = rec_bytes r ++ flat rs.
Proof. reflexivity. Qed.

Lemma rec_len : forall r, length (rec_bytes r) = (4 + length r)%nat.
Proof. reflexivity. Qed.

Lemma bam_rec_ok : forall strict f r rest, okrec r ->
  bam_recs strict (S f) (rec_bytes r ++ rest) =
  let '(rs, ok) := bam_recs strict f rest in (r :: rs, ok).
Proof.
  intros strict f r rest [H0 H1]. unfold rec_bytes. unfold le32b. cbn [app bam_recs].
  change [zlen r mod 256; (zlen r / 256) mod 256; (zlen r / 65536) mod 256; (zlen r / 16777216) mod 256] with (le32b (zlen r)).
  rewrite le32_le32b by lia.
  destruct (zlen r =? 0) eqn:E1; [apply Z.eqb_eq in E1; lia|].
  destruct (2147483648 <=? zlen r) eqn:E2; [apply Z.leb_le in E2; lia|].
  rewrite zlen_app. pose proof (zlen_nonneg _ rest).
  destruct (zlen r + zlen rest =? 0) eqn:E3; [apply Z.eqb_eq in E3; lia|]. cbn [andb].
  destruct (zlen r + zlen rest <? zlen r) eqn:E4; [apply Z.ltb_lt in E4; lia|].
  rewrite firstn_zlen_app, skipn_zlen_app. reflexivity.
Qed.

(** A record cut strictly inside (1 .. 4+len-1 bytes) is an error for the repaired reader. *)
Lemma bam_rec_cut : forall f r (m : nat), okrec r -> (0 < m < 4 + length r)%nat ->
  bam_recs true (S f) (firstn m (rec_bytes r)) = ([], false).
Proof.
  intros f r m [H0 H1] Hm. unfold rec_bytes, le32b.
  destruct m as [|[|[|[|m]]]]; try lia; try reflexivity.
  cbn [app firstn bam_recs].
  change [zlen r mod 256; (zlen r / 256) mod 256; (zlen r / 65536) mod 256; (zlen r / 16777216) mod 256] with (le32b (zlen r)).
  rewrite le32_le32b by lia.
  destruct (zlen r =? 0) eqn:E1; [apply Z.eqb_eq in E1; lia|].
  destruct (2147483648 <=? zlen r) eqn:E2; [apply Z.leb_le in E2; lia|].
  cbn [negb andb]. rewrite andb_false_r.
  assert (L : zlen (firstn m r) = Z.of_nat m). { unfold zlen. rewrite firstn_length_le; lia. }
  rewrite L. destruct (Z.of_nat m <? zlen r) eqn:E4; [reflexivity|]. apply Z.ltb_ge in E4. unfold zlen in *. lia.
Qed.

(** Truncation of the record stream: the records wholly before the cut, and a
    clean end only exactly at a record boundary. *)
Lemma bam_truncation_gen : forall rs (m fuel : nat), Forall okrec rs -> (length rs < fuel)%nat ->
  exists k, (k <= length rs)%nat /\
    fst (bam_recs true fuel (firstn m (flat rs))) = firstn k rs /\
    (length (flat (firstn k rs)) <= m)%nat /\
    (snd (bam_recs true fuel (firstn m (flat rs))) = true -> (m <= length (flat rs))%nat -> m = length (flat (firstn k rs))).
Proof.
  induction rs as [|r rs IH]; intros m fuel W F.
  - exists 0%nat. destruct fuel; [lia|]. unfold flat. simpl. rewrite firstn_nil. simpl. repeat split; auto; lia.
  - destruct fuel; [simpl in F; lia|]. inversion W as [|? ? Wr Wrs]; subst. rewrite flat_cons.
    destruct (Nat.leb (length (rec_bytes r)) m) eqn:E.
    + apply Nat.leb_le in E. rewrite firstn_app_ge by exact E. rewrite bam_rec_ok by exact Wr.
      destruct (IH (m - length (rec_bytes r))%nat fuel Wrs ltac:(simpl in F; lia)) as [k [Hk [Hd [Hle Hok]]]].
      exists (S k). cbn [firstn].
      destruct (bam_recs true fuel (firstn (m - length (rec_bytes r)) (flat rs))) as [dd ok] eqn:R.
      cbn [fst snd length] in *. repeat split.
      * lia.
      * rewrite Hd. reflexivity.
      * rewrite flat_cons, app_length. lia.
      * intros Ho Hn. rewrite flat_cons, app_length. rewrite app_length in Hn. specialize (Hok Ho). lia.
    + apply Nat.leb_gt in E. rewrite firstn_app_lt by lia. exists 0%nat. cbn [firstn].
      destruct m as [|m].
      * simpl. repeat split; auto; lia.
      * rewrite bam_rec_cut; [| assumption | rewrite rec_len in E; lia].
        cbn [fst snd]. split; [lia|]. split; [reflexivity|]. split; [unfold flat; simpl; lia|]. intros X. discriminate.
Qed.

(** * The full truncation statement *)
Lemma stream_firstn : forall l j, firstn (length (strm (firstn j l))) (strm l) = strm (firstn j l).
Proof.
  intros l j. rewrite <- (firstn_skipn j l) at 2. rewrite stream_app.
  rewrite firstn_app, Nat.sub_diag, firstn_all. simpl. apply app_nil_r.
Qed.

Lemma concat_firstn : forall (l : list (list Z)) j, concat (firstn j l) = firstn (length (concat (firstn j l))) (concat l).
Proof.
  intros l j. rewrite <- (firstn_skipn j l) at 3. rewrite concat_app.
  rewrite firstn_app, Nat.sub_diag, firstn_all. simpl. symmetry. apply app_nil_r.
Qed.

Lemma firstn_snoc_le : forall A (l : list A) x j, (j <= length l)%nat -> firstn j (l ++ [x]) = firstn j l.
Proof. intros. rewrite firstn_app. replace (j - length l)%nat with 0%nat by lia. simpl. apply app_nil_r. Qed.

Lemma truncation_full : forall ds rs (n fuel fuel2 : nat),
  Forall wfd ds -> Forall (fun d => d <> []) ds -> wfd [] ->
  (length ds + 1 < fuel)%nat -> Forall okrec rs -> concat ds = flat rs -> (length rs < fuel2)%nat ->
  (n < length (strm (ds ++ [[]])))%nat ->
  let L := read_stream inflate crc32 true fuel (firstn n (strm (ds ++ [[]]))) in
  let B := bam_recs true fuel2 (fst L) in
  exists j k, (j <= length ds)%nat /\
    fst L = concat (firstn j ds) /\ (length (strm (firstn j ds)) <= n)%nat /\
    fst B = firstn k rs /\
    (snd L = true -> n = length (strm (firstn j ds)) /\ has_eof (firstn n (strm (ds ++ [[]]))) <> 1) /\
    (snd L && snd B = true -> length (fst L) = length (flat (firstn k rs))).
Proof.
  intros ds rs n fuel fuel2 W NE W0 F R C F2 Hn L B.
  assert (W' : Forall wfd (ds ++ [[]])) by (apply Forall_app; split; [exact W | constructor; [exact W0 | constructor]]).
  destruct (truncation_gen inflate crc32 deflate inflate_deflate (ds ++ [[]]) n fuel W' ltac:(rewrite app_length; simpl; lia)) as [j [Hj [Hd [Hle Hok]]]].
  fold L in Hd, Hok.
  assert (Hj' : (j <= length ds)%nat).
  { rewrite app_length in Hj. simpl in Hj. destruct (Nat.eq_dec j (length ds + 1)) as [E|E]; [|lia].
    exfalso. subst j. rewrite firstn_all2 in Hle by (rewrite app_length; simpl; lia). lia. }
  rewrite firstn_snoc_le in Hd, Hle, Hok by exact Hj'.
  (* the BAM layer sees a prefix of the record stream *)
  assert (P : fst L = firstn (length (fst L)) (flat rs)).
  { rewrite Hd. rewrite <- C. apply concat_firstn. }
  destruct (bam_truncation_gen rs (length (fst L)) fuel2 R F2) as [k [Hk [Hb [Hble Hbok]]]].
  rewrite <- P in Hb, Hbok. fold B in Hb, Hbok.
  exists j, k. repeat split; auto.
  - apply Hok; [assumption | lia].
  - specialize (Hok H ltac:(lia)).
    assert (X : firstn (length (strm (firstn j ds))) (strm (ds ++ [[]])) = strm (firstn j ds)).
    { rewrite <- (firstn_snoc_le _ ds [] j Hj'). apply stream_firstn. }
    rewrite Hok at 1. rewrite X. apply has_eof_boundary; assumption.
  - intros H. apply andb_prop in H. destruct H as [_ H]. apply Hbok; [exact H|].
    rewrite Hd. rewrite <- C. rewrite (concat_firstn ds j). rewrite firstn_length. lia.
Qed.

End Laws2.

(** * Link to the model of bgzf.HasEOF itself (Model/HasEof.v, Proofs/HasEof.v) *)
From Hts Require Model.Bgzf Model.HasEof Proofs.HasEof.

Lemma zeqb_zlist_eqb : forall a b, Model.Bgzf.zeqb a b = zlist_eqb a b.
Proof. induction a as [|x a IH]; destruct b as [|y b]; simpl; auto; try (rewrite IH; reflexivity). Qed.

Lemma not_marker_ends : forall bs, Corrupt.has_eof bs <> 1 -> Model.HasEof.ends_with_marker bs = false.
Proof.
  intros bs H. unfold Model.HasEof.ends_with_marker.
  destruct (zlen bgzf_magicBlock <=? zlen bs) eqn:E; [|reflexivity]. cbn [andb].
  apply Z.leb_le in E. change (zlen bgzf_magicBlock) with 28 in *.
  unfold Corrupt.has_eof in H.
  destruct (Nat.ltb (length bs) 28) eqn:L; [apply Nat.ltb_lt in L; unfold zlen in E; lia|].
  replace (Z.to_nat (zlen bs - 28)) with (length bs - 28)%nat by (unfold zlen; lia).
  rewrite zeqb_zlist_eqb. destruct (zlist_eqb (skipn (length bs - 28) bs) bgzf_magicBlock); [exfalso; apply H; reflexivity | reflexivity].
Qed.

(** bgzf.HasEOF, for every kind of reader it distinguishes and every cursor
    position, does not report true on a stream that does not end with the marker. *)
Lemma haseof_go_not_true : forall bs k p, Corrupt.has_eof bs <> 1 -> 0 <= p <= zlen bs ->
  Model.HasEof.haseof_go {| Model.HasEof.he_data := bs; Model.HasEof.he_pos := p; Model.HasEof.he_methods := Some k |} <> Ok true.
Proof.
  intros bs k p H Hp.
  destruct (Proofs.HasEof.haseof_iff_marker_gen {| Model.HasEof.he_data := bs; Model.HasEof.he_pos := p; Model.HasEof.he_methods := Some k |} k eq_refl Hp) as [_ G].
  rewrite G. simpl Model.HasEof.he_data. rewrite (not_marker_ends bs H).
  destruct (zlen bgzf_magicBlock <=? zlen bs); discriminate.
Qed.
