(** Writing numbers with the codecs and reading them back with the stream
    readers of cram.go (C20). *)
From Coq Require Import ZArith Lia List Bool.
From Hts Require Import Base.Prim Base.Bits Generated Model.Itf8Spec Model.CramStream
  Proofs.Itf8 Proofs.Ltf8 Proofs.CramStream.
Open Scope Z_scope.

(** Whenever Decode succeeds on what is left of the input, the stream reader
    returns the same value and advances by the same count. *)
Lemma stream_itf8_of_decode s tail v n :
  all_bytes s = true -> tail <> 0 -> itf8_Decode s = Ok (v, n, true) ->
  er_itf8 (mkER s tail 0) = Ok (v, mkER (skipn (Z.to_nat n) s) tail 0).
Proof.
  intros Hb Ht Hd. rewrite er_itf8_spec by assumption. f_equal.
  destruct s as [|b0 t]; [vm_compute in Hd; discriminate|].
  rewrite itf8_Decode_item in Hd by assumption. cbv zeta in Hd.
  unfold itf8_item_result, item_result. cbv zeta.
  destruct (Z.ltb_spec (zlen (b0 :: t)) (itf8_spec_n b0)) as [Hs|Hs]; [discriminate|].
  injection Hd as Hv Hn. subst n v.
  destruct (Z.leb_spec (itf8_spec_n b0) (zlen (b0 :: t))); [reflexivity|lia].
Qed.

Lemma stream_ltf8_of_decode s tail v n :
  all_bytes s = true -> tail <> 0 -> ltf8_Decode s = Ok (v, n, true) ->
  er_ltf8 (mkER s tail 0) = Ok (v, mkER (skipn (Z.to_nat n) s) tail 0).
Proof.
  intros Hb Ht Hd. rewrite er_ltf8_spec by assumption. f_equal.
  destruct s as [|b0 t]; [vm_compute in Hd; discriminate|].
  rewrite ltf8_Decode_item in Hd by assumption. cbv zeta in Hd.
  unfold ltf8_item_result, item_result. cbv zeta.
  destruct (Z.ltb_spec (zlen (b0 :: t)) (ltf8_spec_n b0)) as [Hs|Hs]; [discriminate|].
  injection Hd as Hv Hn. subst n v.
  destruct (Z.leb_spec (ltf8_spec_n b0) (zlen (b0 :: t))); [reflexivity|lia].
Qed.

Lemma skipn_app_exact {A} (a b : list A) : skipn (length a) (a ++ b) = b.
Proof. rewrite skipn_app, Nat.sub_diag, skipn_all. reflexivity. Qed.

(** The bytes itf8.Encode writes for [v], followed by anything, read back as
    [v], and the reader stops right behind them. *)
Lemma stream_itf8_roundtrip v rest tail :
  int32 v -> all_bytes rest = true -> tail <> 0 ->
  er_itf8 (mkER (itf8_wire v ++ rest) tail 0) = Ok (v, mkER rest tail 0).
Proof.
  intros Hv Hr Ht. destruct (itf8_wire_props v Hv) as (Hl & Hb & Hc).
  assert (Hall : all_bytes (itf8_wire v ++ rest) = true).
  { unfold all_bytes in *. rewrite forallb_app, Hb, Hr. reflexivity. }
  assert (Hd : itf8_Decode (itf8_wire v ++ rest) = Ok (v, itf8_spec_len (v mod 2^32), true)).
  { rewrite itf8_Decode_spec by assumption. rewrite (itf8_spec_roundtrip v (itf8_wire v) rest Hv Hl Hc). reflexivity. }
  rewrite (stream_itf8_of_decode _ tail _ _ Hall Ht Hd). rewrite <- Hl. unfold zlen. rewrite Nat2Z.id.
  rewrite skipn_app_exact. reflexivity.
Qed.

Lemma stream_ltf8_roundtrip v rest tail :
  int64 v -> all_bytes rest = true -> tail <> 0 ->
  er_ltf8 (mkER (ltf8_spec_encode v ++ rest) tail 0) = Ok (v, mkER rest tail 0).
Proof.
  intros Hv Hr Ht. destruct (ltf8_spec_encode_props v Hv) as (Hl & Hb).
  assert (Hall : all_bytes (ltf8_spec_encode v ++ rest) = true).
  { unfold all_bytes in *. rewrite forallb_app, Hb, Hr. reflexivity. }
  assert (Hd : ltf8_Decode (ltf8_spec_encode v ++ rest) = Ok (v, ltf8_spec_len (v mod 2^64), true)).
  { rewrite ltf8_Decode_spec by assumption. rewrite (ltf8_spec_roundtrip v rest Hv). reflexivity. }
  rewrite (stream_ltf8_of_decode _ tail _ _ Hall Ht Hd). rewrite <- Hl. unfold zlen. rewrite Nat2Z.id.
  rewrite skipn_app_exact. reflexivity.
Qed.

Lemma itf8_spec_len_range u : 1 <= itf8_spec_len u <= 5.
Proof. unfold itf8_spec_len. repeat match goal with |- context [if ?c then _ else _] => destruct c end; lia. Qed.

(** An ITF-8 array: the count, then the elements. *)
Definition itf8_array (vs : list Z) : list Z := itf8_wire (zlen vs) ++ flat_map itf8_wire vs.

Lemma flat_map_wire_bytes vs : Forall int32 vs -> all_bytes (flat_map itf8_wire vs) = true.
Proof.
  induction 1 as [|v vs Hv _ IH]; [reflexivity|]. cbn [flat_map].
  destruct (itf8_wire_props v Hv) as (_ & Hb & _). unfold all_bytes in *. rewrite forallb_app, Hb, IH. reflexivity.
Qed.

Lemma er_slice_loop_roundtrip vs : forall fuel i n acc rest tail,
  Forall int32 vs -> all_bytes rest = true -> tail <> 0 ->
  n - i = zlen vs -> (length (flat_map itf8_wire vs ++ rest) < fuel)%nat ->
  er_slice_loop fuel i n (mkER (flat_map itf8_wire vs ++ rest) tail 0) acc = Ok (rev acc ++ vs, mkER rest tail 0).
Proof.
  induction vs as [|v vs IH]; intros fuel i n acc rest tail Hvs Hr Ht Hn Hf.
  - destruct fuel; [lia|]. cbn [er_slice_loop]. unfold zlen in Hn. simpl in Hn.
    destruct (Z.leb_spec n i); [|lia]. rewrite app_nil_r. reflexivity.
  - destruct fuel as [|f]; [lia|]. cbn [er_slice_loop]. rewrite zlen_cons in Hn. pose proof (zlen_nonneg vs).
    destruct (Z.leb_spec n i); [lia|].
    inversion Hvs as [|? ? Hv Hvs']; subst.
    cbn [flat_map]. rewrite <- app_assoc.
    assert (Hrest : all_bytes (flat_map itf8_wire vs ++ rest) = true).
    { unfold all_bytes. rewrite forallb_app. fold (all_bytes (flat_map itf8_wire vs)). rewrite flat_map_wire_bytes by assumption. assumption. }
    rewrite stream_itf8_roundtrip by assumption. cbn [obind]. rewrite er_failed_0.
    rewrite IH; try assumption; try lia.
    + cbn [rev]. rewrite <- app_assoc. reflexivity.
    + cbn [flat_map] in Hf. rewrite <- app_assoc, app_length in Hf.
      destruct (itf8_wire_props v Hv) as (Hl & _). pose proof (itf8_spec_len_range (v mod 2^32)) as Hrg.
      unfold zlen in Hl. lia.
Qed.

(** Reading back an array of up to 2^31-1 numbers written as count + elements:
    itf8slice returns exactly the elements and stops right behind them. *)
Lemma stream_itf8slice_roundtrip vs rest tail :
  Forall int32 vs -> zlen vs < 2^31 -> all_bytes rest = true -> tail <> 0 ->
  er_itf8slice (mkER (itf8_array vs ++ rest) tail 0) = Ok (vs, mkER rest tail 0).
Proof.
  intros Hvs Hlen Hr Ht. unfold itf8_array, er_itf8slice. rewrite <- app_assoc.
  assert (Hc : int32 (zlen vs)) by (unfold int32; pose proof (zlen_nonneg vs); lia).
  assert (Hrest : all_bytes (flat_map itf8_wire vs ++ rest) = true).
  { unfold all_bytes. rewrite forallb_app. fold (all_bytes (flat_map itf8_wire vs)). rewrite flat_map_wire_bytes by assumption. assumption. }
  rewrite stream_itf8_roundtrip by assumption. cbn [obind]. rewrite er_failed_0.
  destruct (Z.eqb_spec (zlen vs) 0) as [Hz|Hnz].
  { apply zlen_nil_inv in Hz. subst vs. reflexivity. }
  pose proof (zlen_nonneg vs). destruct (Z.ltb_spec (zlen vs) 0); [lia|].
  cbn [er_rest]. rewrite er_slice_loop_roundtrip; try assumption; try lia. reflexivity.
Qed.
