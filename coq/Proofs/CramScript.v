(** Scripts of calls on one errorReader (C20): no call blocks, the consumption
    counter is monotone and bounded, failure is permanent. *)
From Coq Require Import ZArith Lia List Bool.
From Hts Require Import Base.Prim Base.Bits Generated Model.Itf8Spec Model.CramStream Proofs.Itf8 Proofs.Ltf8 Proofs.CramStream.
Open Scope Z_scope.

(** * Scripts of calls on one reader *)

Definition er_op (op : Z) (r : ereader) : outcome (list Z * ereader) :=
  if op =? 0 then obind (er_itf8 r) (fun '(v, r') => Ok ([v], r'))
  else if op =? 1 then obind (er_ltf8 r) (fun '(v, r') => Ok ([v], r'))
  else er_itf8slice r.

Lemma er_run_cons op t r total :
  er_run (op :: t) r total =
  obind (er_op op r) (fun '(vals, r') =>
    obind (er_run t r' total) (fun more => Ok ((vals, er_err r', total - zlen (er_rest r')) :: more))).
Proof. reflexivity. Qed.

Lemma er_itf8slice_sticky r : er_err r <> 0 -> er_itf8slice r = Ok ([], r).
Proof.
  intros He. unfold er_itf8slice. rewrite er_itf8_sticky by assumption. cbn [obind].
  assert (Hf : er_failed r = true) by (unfold er_failed; apply negb_true_iff, Z.eqb_neq; assumption).
  rewrite Hf. reflexivity.
Qed.

(** One call: the source only shrinks by a prefix, the tail error is kept, a
    failed reader is left untouched, and a reader never recovers. *)
Lemma er_op_step op r :
  all_bytes (er_rest r) = true -> er_tail r <> 0 ->
  match er_op op r with
  | Ok (vals, r') =>
    er_tail r' = er_tail r /\ (exists pre, er_rest r = pre ++ er_rest r') /\
    (er_err r <> 0 -> r' = r) /\ (er_err r' = 0 -> er_err r = 0)
  | Panic _ => er_err r = 0 /\ op <> 0 /\ op <> 1
  | _ => False
  end.
Proof.
  intros Hb Ht. destruct (Z.eq_dec (er_err r) 0) as [He|He].
  - destruct r as [s tail e]. cbn [er_rest er_tail er_err] in *. subst e. unfold er_op.
    destruct (Z.eqb_spec op 0) as [Hop0|Hop0].
    { destruct (stream_itf8_exact s tail Hb Ht) as (v & r' & Hrun & Hrest & Htl & _). rewrite Hrun. cbn [obind].
      split; [assumption|]. split; [|split; [intros; lia|reflexivity]].
      exists (firstn (Z.to_nat (Z.min (announced itf8_spec_n s) (zlen s))) s). rewrite Hrest. symmetry. apply firstn_skipn. }
    destruct (Z.eqb_spec op 1) as [Hop1|Hop1].
    { destruct (stream_ltf8_exact s tail Hb Ht) as (v & r' & Hrun & Hrest & Htl & _). rewrite Hrun. cbn [obind].
      split; [assumption|]. split; [|split; [intros; lia|reflexivity]].
      exists (firstn (Z.to_nat (Z.min (announced ltf8_spec_n s) (zlen s))) s). rewrite Hrest. symmetry. apply firstn_skipn. }
    pose proof (stream_itf8slice_exact s tail Hb Ht) as H.
    destruct (er_itf8slice (mkER s tail 0)) as [[vals r']| | |]; try contradiction; [|repeat split; assumption].
    destruct H as [Htl H]. split; [assumption|]. split; [|split; [intros; lia|reflexivity]].
    destruct H as [(_ & pre & Hs & _)|(_ & Hnil & _)].
    + exists pre. assumption.
    + exists s. rewrite Hnil, app_nil_r. reflexivity.
  - unfold er_op. destruct (op =? 0); [|destruct (op =? 1)].
    + rewrite er_itf8_sticky by assumption. cbn [obind]. repeat split; auto. exists []. reflexivity.
    + rewrite er_ltf8_sticky by assumption. cbn [obind]. repeat split; auto. exists []. reflexivity.
    + rewrite er_itf8slice_sticky by assumption. repeat split; auto. exists []. reflexivity.
Qed.

(** What a trace of (values, error, consumed-so-far) must look like, starting
    from [k0] bytes consumed and error [e0]: the counter never goes back and
    never passes [total]; after a failure neither error nor counter change. *)
Fixpoint script_ok (total k0 e0 : Z) (steps : list (list Z * Z * Z)) : Prop :=
  match steps with
  | [] => True
  | (_, e, k) :: t => k0 <= k <= total /\ (e0 <> 0 -> e = e0 /\ k = k0) /\ script_ok total k e t
  end.

Lemma er_run_spec ops : forall r total,
  all_bytes (er_rest r) = true -> er_tail r <> 0 -> zlen (er_rest r) <= total ->
  match er_run ops r total with
  | Ok steps => length steps = length ops /\ script_ok total (total - zlen (er_rest r)) (er_err r) steps
  | Panic _ => exists op, In op ops /\ op <> 0 /\ op <> 1
  | _ => False
  end.
Proof.
  induction ops as [|op t IH]; intros r total Hb Ht Hl; [cbn; auto|].
  rewrite er_run_cons. pose proof (er_op_step op r Hb Ht) as Hstep.
  destruct (er_op op r) as [[vals r']| | |]; try contradiction; [|exists op; split; [left; reflexivity|tauto]].
  cbn [obind]. destruct Hstep as (Htl & (pre & Hpre) & Hst & Hrec).
  assert (Hb' : all_bytes (er_rest r') = true).
  { rewrite Hpre in Hb. unfold all_bytes in *. rewrite forallb_app in Hb. apply andb_prop in Hb. tauto. }
  assert (Hlen : zlen (er_rest r) = zlen pre + zlen (er_rest r')) by (rewrite Hpre at 1; apply zlen_app).
  pose proof (zlen_nonneg pre) as Hp. pose proof (zlen_nonneg (er_rest r')) as Hp'.
  specialize (IH r' total Hb' ltac:(congruence) ltac:(lia)).
  destruct (er_run t r' total) as [more| | |]; try contradiction; [|destruct IH as (op' & Hin & Hne); exists op'; split; [right; assumption|assumption]].
  cbn [obind]. destruct IH as [IHl IHs]. split; [cbn [length]; congruence|].
  cbn [script_ok]. split; [lia|]. split; [|assumption].
  intros He. rewrite (Hst He). split; reflexivity.
Qed.

Lemma er_run_never_blocks ops s tail :
  all_bytes s = true -> tail <> 0 ->
  match er_run ops (mkER s tail 0) (zlen s) with
  | Ok steps => length steps = length ops /\ script_ok (zlen s) 0 0 steps
  | Panic _ => exists op, In op ops /\ op <> 0 /\ op <> 1
  | _ => False
  end.
Proof.
  intros Hb Ht. pose proof (er_run_spec ops (mkER s tail 0) (zlen s) Hb Ht ltac:(cbn [er_rest]; lia)) as H.
  cbn [er_rest er_err] in H. rewrite Z.sub_diag in H. exact H.
Qed.
