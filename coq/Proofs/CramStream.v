(** Proofs about the stream readers of cram.go (C20): each call takes exactly
    the bytes its first byte announces, fails exactly on short input, and
    reads nothing once the reader has failed. *)
From Coq Require Import ZArith Lia List Bool.
From Hts Require Import Base.Prim Base.Bits Generated Model.Itf8Spec Model.CramStream Proofs.Itf8 Proofs.Ltf8.
Open Scope Z_scope.

(** Both number readers are the same statements around a different decoder
    and array size. *)
Definition er_item (dec : list Z -> outcome (Z * Z * bool)) (maxn : Z) (zeros : list Z)
    (r : ereader) : outcome (Z * ereader) :=
  let buf := zeros in
  let '(got, r) := er_readfull r 1 in
  let buf := blit buf 0 got in
  if er_failed r then Ok (0, r) else
  obind (dec (firstn 1 buf)) (fun '(i, n, ok) =>
  if ok : bool then Ok (i, r) else
  chk ((1 <=? n) && (n <=? maxn)) (
  let '(got, r) := er_readfull r (n - 1) in
  let buf := blit buf 1 got in
  if er_failed r then Ok (0, r) else
  obind (dec (firstn (Z.to_nat n) buf)) (fun '(i, _, ok) =>
  if ok : bool then Ok (i, r) else Ok (i, set_err r E_decode)))).

Lemma er_itf8_is_item r : er_itf8 r = er_item itf8_Decode 5 [0; 0; 0; 0; 0] r.
Proof. reflexivity. Qed.

Lemma er_ltf8_is_item r : er_ltf8 r = er_item ltf8_Decode 9 [0; 0; 0; 0; 0; 0; 0; 0; 0] r.
Proof. reflexivity. Qed.

Lemma zlen_firstn_le {A} (l : list A) k : 0 <= k -> zlen (firstn (Z.to_nat k) l) = Z.min k (zlen l).
Proof. intros H. unfold zlen. rewrite firstn_length. lia. Qed.

Lemma zlen_nil_inv {A} (l : list A) : zlen l = 0 -> l = [].
Proof. destruct l; [reflexivity|]. unfold zlen. simpl length. lia. Qed.

Lemma er_failed_0 l t : er_failed (mkER l t 0) = false.
Proof. reflexivity. Qed.

Section Item.
  Variable dec : list Z -> outcome (Z * Z * bool).
  Variable spec_n : Z -> Z.
  Variable val : list Z -> Z.
  Variable maxn : Z.
  Variable zeros : list Z.

  (** the decoder is the specification decoder of its codec *)
  Hypothesis Hdec : forall b0 t, all_bytes (b0 :: t) = true ->
    dec (b0 :: t) = Ok (let n := spec_n b0 in
                        if zlen (b0 :: t) <? n then (0, n, false)
                        else (val (firstn (Z.to_nat n) (b0 :: t)), n, true)).
  Hypothesis Hn : forall b, 1 <= spec_n b <= maxn.
  Hypothesis Hzeros : zlen zeros = maxn.

  (** What one call must do on a reader that has not failed. *)
  Definition item_result (s : list Z) (tail : Z) : Z * ereader :=
    match s with
    | [] => (0, mkER [] tail tail)
    | b0 :: _ =>
      let n := spec_n b0 in
      if n <=? zlen s then (val (firstn (Z.to_nat n) s), mkER (skipn (Z.to_nat n) s) tail 0)
      else (0, mkER [] tail (if zlen s =? 1 then tail else if tail =? E_EOF then E_UEOF else tail))
    end.

  Lemma er_item_sticky r : er_err r <> 0 -> er_item dec maxn zeros r = Ok (0, r).
  Proof.
    intros He. unfold er_item, er_readfull.
    assert (Hf : er_failed r = true) by (unfold er_failed; apply negb_true_iff, Z.eqb_neq; assumption).
    change (1 <=? 0) with false. cbv iota. rewrite Hf. cbv iota beta. rewrite Hf. reflexivity.
  Qed.

  Lemma er_item_spec s tail :
    all_bytes s = true -> tail <> 0 ->
    er_item dec maxn zeros (mkER s tail 0) = Ok (item_result s tail).
  Proof.
    intros Hb Ht.
    assert (Hft : forall l, er_failed (mkER l tail tail) = true).
    { intros l. unfold er_failed. cbn [er_err]. apply negb_true_iff, Z.eqb_neq. assumption. }
    destruct s as [|b0 t].
    { unfold er_item, er_readfull. cbn [er_rest er_tail er_err er_failed].
      change (1 <=? 0) with false. rewrite er_failed_0. cbv iota.
      change (firstn (Z.to_nat 1) (@nil Z)) with (@nil Z). change (skipn (Z.to_nat 1) (@nil Z)) with (@nil Z).
      change (zlen (@nil Z) =? 1) with false. change (zlen (@nil Z) =? 0) with true. cbv iota beta.
      rewrite Hft. reflexivity. }
    pose proof (Hn b0) as Hr. pose proof (zlen_nonneg t) as Hlt.
    assert (Hb0 : all_bytes [b0] = true).
    { apply all_bytes_cons in Hb. destruct Hb as [H0 _]. cbn. rewrite is_byte_true by assumption. reflexivity. }
    unfold er_item. unfold er_readfull at 1. cbn [er_rest er_tail er_err er_failed].
    change (1 <=? 0) with false. rewrite er_failed_0. cbv iota.
    change (firstn (Z.to_nat 1) (b0 :: t)) with [b0]. change (skipn (Z.to_nat 1) (b0 :: t)) with t.
    change (zlen [b0] =? 1) with true. cbv iota beta.
    rewrite er_failed_0. cbv iota.
    assert (Hbuf : firstn 1 (blit zeros 0 [b0]) = [b0]) by reflexivity.
    rewrite Hbuf. rewrite (Hdec b0 []) by assumption. cbv zeta. cbn [obind].
    change (zlen [b0]) with 1.
    unfold item_result. rewrite zlen_cons. cbv zeta.
    destruct (Z.ltb_spec 1 (spec_n b0)) as [Hlong|Hone].
    2:{ (* one byte *)
      assert (H1 : spec_n b0 = 1) by lia. rewrite H1.
      destruct (Z.leb_spec 1 (1 + zlen t)); [|lia]. reflexivity. }
    cbv iota beta.
    replace ((1 <=? spec_n b0) && (spec_n b0 <=? maxn)) with true
      by (symmetry; apply andb_true_intro; split; apply Z.leb_le; lia).
    cbn [chk]. set (n := spec_n b0) in *.
    unfold er_readfull. cbn [er_rest er_tail er_err er_failed].
    destruct (Z.leb_spec (n - 1) 0); [lia|]. rewrite er_failed_0. cbv iota.
    rewrite zlen_firstn_le by lia.
    destruct (Z.eqb_spec (Z.min (n - 1) (zlen t)) (n - 1)) as [Hfull|Hshort].
    - (* the announced bytes are there *)
      rewrite er_failed_0. cbv iota.
      destruct (Z.leb_spec n (1 + zlen t)); [|lia].
      set (got := firstn (Z.to_nat (n - 1)) t).
      assert (Hgl : length got = Z.to_nat (n - 1)).
      { subst got. rewrite firstn_length. unfold zlen in *. lia. }
      assert (Hfn : firstn (Z.to_nat n) (blit (blit zeros 0 [b0]) 1 got) = b0 :: got).
      { unfold blit at 1. rewrite Hbuf. cbn [app].
        replace (Z.to_nat n) with (S (length got)) by lia. cbn [firstn]. f_equal. apply firstn_app_exact. }
      rewrite Hfn.
      assert (Hbg : all_bytes (b0 :: got) = true).
      { apply all_bytes_cons in Hb. destruct Hb as [Hb00 Htb]. cbn [all_bytes forallb]. rewrite is_byte_true by assumption.
        apply forallb_firstn. assumption. }
      rewrite (Hdec b0 got) by assumption. cbv zeta. fold n.
      assert (Hzl : zlen (b0 :: got) = n) by (rewrite zlen_cons; unfold zlen; rewrite Hgl; lia).
      rewrite Hzl, Z.ltb_irrefl. cbn [obind].
      assert (Hsame : firstn (Z.to_nat n) (b0 :: got) = firstn (Z.to_nat n) (b0 :: t)).
      { replace (Z.to_nat n) with (S (Z.to_nat (n - 1))) by lia. cbn [firstn]. f_equal.
        subst got. rewrite firstn_firstn, Nat.min_id. reflexivity. }
      rewrite Hsame.
      replace (skipn (Z.to_nat n) (b0 :: t)) with (skipn (Z.to_nat (n - 1)) t)
        by (replace (Z.to_nat n) with (S (Z.to_nat (n - 1))) by lia; reflexivity).
      reflexivity.
    - (* short input *)
      assert (Hlt2 : zlen t < n - 1) by lia.
      destruct (Z.leb_spec n (1 + zlen t)); [lia|].
      assert (Hsk : skipn (Z.to_nat (n - 1)) t = []).
      { apply skipn_all2. unfold zlen in *. lia. }
      rewrite Hsk. rewrite Z.min_r by lia.
      destruct (Z.eqb_spec (zlen t) 0) as [Hz|Hnz].
      + rewrite Hft. destruct (Z.eqb_spec (1 + zlen t) 1); [reflexivity|lia].
      + destruct (Z.eqb_spec (1 + zlen t) 1); [lia|].
        assert (Hf2 : er_failed (mkER [] tail (if tail =? E_EOF then E_UEOF else tail)) = true).
        { unfold er_failed. cbn [er_err]. apply negb_true_iff, Z.eqb_neq.
          destruct (Z.eqb_spec tail E_EOF); [unfold E_UEOF; lia|assumption]. }
        rewrite Hf2. reflexivity.
  Qed.
End Item.

(** * The two instances *)

Definition itf8_val (l : list Z) : Z := s32 (itf8_spec_value l).

Definition ltf8_val (l : list Z) : Z :=
  let b0 := hd 0 l in
  let n := ltf8_spec_n b0 in
  s64 (be_value (firstn (Z.to_nat (n - 1)) (tl l)) (if n <? 8 then b0 mod 2 ^ (8 - n) else 0)).

Lemma itf8_Decode_item b0 t : all_bytes (b0 :: t) = true ->
  itf8_Decode (b0 :: t) = Ok (let n := itf8_spec_n b0 in
                              if zlen (b0 :: t) <? n then (0, n, false)
                              else (itf8_val (firstn (Z.to_nat n) (b0 :: t)), n, true)).
Proof. intros H. rewrite itf8_Decode_spec by assumption. reflexivity. Qed.

Lemma ltf8_Decode_item b0 t : all_bytes (b0 :: t) = true ->
  ltf8_Decode (b0 :: t) = Ok (let n := ltf8_spec_n b0 in
                              if zlen (b0 :: t) <? n then (0, n, false)
                              else (ltf8_val (firstn (Z.to_nat n) (b0 :: t)), n, true)).
Proof.
  intros H. rewrite ltf8_Decode_spec by assumption. unfold ltf8_spec_decode. cbv zeta.
  destruct (zlen (b0 :: t) <? ltf8_spec_n b0); [reflexivity|].
  pose proof (ltf8_spec_n_range b0) as Hr. unfold ltf8_val.
  replace (Z.to_nat (ltf8_spec_n b0)) with (S (Z.to_nat (ltf8_spec_n b0 - 1))) by lia.
  cbn [firstn hd tl]. rewrite firstn_firstn, Nat.min_id. reflexivity.
Qed.

Definition itf8_item_result := item_result itf8_spec_n itf8_val.
Definition ltf8_item_result := item_result ltf8_spec_n ltf8_val.

Lemma er_itf8_spec s tail : all_bytes s = true -> tail <> 0 ->
  er_itf8 (mkER s tail 0) = Ok (itf8_item_result s tail).
Proof.
  intros. rewrite er_itf8_is_item.
  apply (er_item_spec itf8_Decode itf8_spec_n itf8_val 5 [0; 0; 0; 0; 0] itf8_Decode_item itf8_spec_n_range); assumption.
Qed.

Lemma er_ltf8_spec s tail : all_bytes s = true -> tail <> 0 ->
  er_ltf8 (mkER s tail 0) = Ok (ltf8_item_result s tail).
Proof.
  intros. rewrite er_ltf8_is_item.
  apply (er_item_spec ltf8_Decode ltf8_spec_n ltf8_val 9 [0; 0; 0; 0; 0; 0; 0; 0; 0] ltf8_Decode_item ltf8_spec_n_range); assumption.
Qed.

Lemma er_itf8_sticky r : er_err r <> 0 -> er_itf8 r = Ok (0, r).
Proof. rewrite er_itf8_is_item. apply er_item_sticky. Qed.

Lemma er_ltf8_sticky r : er_err r <> 0 -> er_ltf8 r = Ok (0, r).
Proof. rewrite er_ltf8_is_item. apply er_item_sticky. Qed.

(** * Reads exactly the announced bytes: the statement used in Props/C20.v *)

(** [announced s]: bytes the item at the head of [s] needs; one byte is needed to learn that. *)
Definition announced (spec_n : Z -> Z) (s : list Z) : Z :=
  match s with [] => 1 | b0 :: _ => spec_n b0 end.

Lemma item_result_exact spec_n val s tail :
  (forall b, 1 <= spec_n b) -> tail <> 0 ->
  let n := announced spec_n s in
  let '(v, r') := item_result spec_n val s tail in
  er_rest r' = skipn (Z.to_nat (Z.min n (zlen s))) s /\
  er_tail r' = tail /\
  (er_err r' = 0 <-> n <= zlen s) /\
  (n <= zlen s -> v = val (firstn (Z.to_nat n) s)) /\
  (zlen s < n -> v = 0 /\ (er_err r' = tail \/ (tail = E_EOF /\ er_err r' = E_UEOF))).
Proof.
  intros Hn Ht. cbv zeta. destruct s as [|b0 t].
  { cbn. repeat split; try lia; try (intros; discriminate); auto. }
  unfold item_result, announced. pose proof (Hn b0) as H1. pose proof (zlen_nonneg t) as Hl.
  rewrite zlen_cons in *. cbv zeta.
  destruct (Z.leb_spec (spec_n b0) (1 + zlen t)) as [Hle|Hgt].
  - rewrite Z.min_l by lia. cbn [er_rest er_tail er_err]. repeat split; try lia; auto.
  - rewrite Z.min_r by lia. cbn [er_rest er_tail er_err].
    assert (Hsk : skipn (Z.to_nat (1 + zlen t)) (b0 :: t) = []).
    { apply skipn_all2. unfold zlen. simpl length. lia. }
    rewrite Hsk. repeat split; try lia; auto.
    + intros He. exfalso. destruct (1 + zlen t =? 1); [lia|]. destruct (Z.eqb_spec tail E_EOF); unfold E_UEOF in *; lia.
    + destruct (1 + zlen t =? 1); [left; reflexivity|].
      destruct (Z.eqb_spec tail E_EOF); [right; split; [assumption|reflexivity]|left; reflexivity].
Qed.

Lemma stream_itf8_exact s tail :
  all_bytes s = true -> tail <> 0 ->
  exists v r',
    er_itf8 (mkER s tail 0) = Ok (v, r') /\
    let n := announced itf8_spec_n s in
    er_rest r' = skipn (Z.to_nat (Z.min n (zlen s))) s /\
    er_tail r' = tail /\
    (er_err r' = 0 <-> n <= zlen s) /\
    (n <= zlen s -> itf8_Decode s = Ok (v, n, true)) /\
    (zlen s < n -> v = 0 /\ (er_err r' = tail \/ (tail = E_EOF /\ er_err r' = E_UEOF))).
Proof.
  intros Hb Ht. rewrite er_itf8_spec by assumption.
  pose proof (item_result_exact itf8_spec_n itf8_val s tail (fun b => proj1 (itf8_spec_n_range b)) Ht) as H.
  cbv zeta in H. unfold itf8_item_result. destruct (item_result itf8_spec_n itf8_val s tail) as [v r'].
  exists v, r'. split; [reflexivity|]. cbv zeta.
  destruct H as (H1 & H2 & H3 & H4 & H5). repeat split; try assumption; try apply H3; try apply H5; try assumption.
  intros Hle. destruct s as [|b0 t]; [unfold announced, zlen in Hle; simpl in Hle; lia|].
  rewrite itf8_Decode_item by assumption. cbv zeta. unfold announced in *.
  destruct (Z.ltb_spec (zlen (b0 :: t)) (itf8_spec_n b0)); [lia|]. rewrite (H4 Hle). reflexivity.
Qed.

Lemma stream_ltf8_exact s tail :
  all_bytes s = true -> tail <> 0 ->
  exists v r',
    er_ltf8 (mkER s tail 0) = Ok (v, r') /\
    let n := announced ltf8_spec_n s in
    er_rest r' = skipn (Z.to_nat (Z.min n (zlen s))) s /\
    er_tail r' = tail /\
    (er_err r' = 0 <-> n <= zlen s) /\
    (n <= zlen s -> ltf8_Decode s = Ok (v, n, true)) /\
    (zlen s < n -> v = 0 /\ (er_err r' = tail \/ (tail = E_EOF /\ er_err r' = E_UEOF))).
Proof.
  intros Hb Ht. rewrite er_ltf8_spec by assumption.
  pose proof (item_result_exact ltf8_spec_n ltf8_val s tail (fun b => proj1 (ltf8_spec_n_range b)) Ht) as H.
  cbv zeta in H. unfold ltf8_item_result. destruct (item_result ltf8_spec_n ltf8_val s tail) as [v r'].
  exists v, r'. split; [reflexivity|]. cbv zeta.
  destruct H as (H1 & H2 & H3 & H4 & H5). repeat split; try assumption; try apply H3; try apply H5; try assumption.
  intros Hle. destruct s as [|b0 t]; [unfold announced, zlen in Hle; simpl in Hle; lia|].
  rewrite ltf8_Decode_item by assumption. cbv zeta. unfold announced in *.
  destruct (Z.ltb_spec (zlen (b0 :: t)) (ltf8_spec_n b0)); [lia|]. rewrite (H4 Hle). reflexivity.
Qed.

(** * itf8slice *)

(** [itf8_items bs vs]: [bs] is the concatenation of complete ITF-8 items
    (each exactly as long as its first byte announces) whose values are [vs]. *)
Inductive itf8_items : list Z -> list Z -> Prop :=
| items_nil : itf8_items [] []
| items_cons b bs v vs :
    b <> [] -> zlen b = itf8_spec_n (hd 0 b) -> v = itf8_val b ->
    itf8_items bs vs -> itf8_items (b ++ bs) (v :: vs).

(** An item that is not all there: nothing, or fewer bytes than announced. *)
Definition itf8_short (l : list Z) : Prop := zlen l < announced itf8_spec_n l.

Lemma itf8_items_app a b va vb : itf8_items a va -> itf8_items b vb -> itf8_items (a ++ b) (va ++ vb).
Proof.
  induction 1 as [|x xs v vs Hne Hl Hv Hi IH]; intros Hb; [assumption|].
  rewrite <- app_assoc. cbn [app]. apply items_cons; auto.
Qed.

Lemma all_bytes_skipn n l : all_bytes l = true -> all_bytes (skipn n l) = true.
Proof.
  revert n; induction l as [|a l IH]; intros [|n] H; simpl in *; auto.
  apply andb_prop in H. destruct H as [_ Hl]. apply IH. assumption.
Qed.

(** What one successful call does, in terms of items. *)
Lemma itf8_item_step s tail :
  tail <> 0 ->
  let '(v, r') := itf8_item_result s tail in
  er_tail r' = tail /\
  ((er_err r' = 0 /\ exists b, s = b ++ er_rest r' /\ itf8_items b [v] /\ (length (er_rest r') < length s)%nat)
   \/ (er_err r' <> 0 /\ er_rest r' = [] /\ itf8_short s)).
Proof.
  intros Ht. unfold itf8_item_result, item_result. destruct s as [|b0 t].
  { split; [reflexivity|]. right. cbn [er_err er_rest]. repeat split; auto; try (unfold itf8_short, announced, zlen; simpl; lia). }
  cbv zeta. pose proof (itf8_spec_n_range b0) as Hr. set (n := itf8_spec_n b0) in *.
  destruct (Z.leb_spec n (zlen (b0 :: t))) as [Hle|Hgt].
  - split; [reflexivity|]. left. cbn [er_err er_rest]. split; [reflexivity|].
    exists (firstn (Z.to_nat n) (b0 :: t)). split; [symmetry; apply firstn_skipn|]. split.
    + rewrite <- (app_nil_r (firstn (Z.to_nat n) (b0 :: t))) at 1.
      assert (Hz : zlen (firstn (Z.to_nat n) (b0 :: t)) = n) by (rewrite zlen_firstn_le by lia; lia).
      apply items_cons; [| |reflexivity|constructor].
      * intros E. rewrite E in Hz. unfold zlen in Hz. simpl in Hz. lia.
      * rewrite Hz. replace (Z.to_nat n) with (S (Z.to_nat (n - 1))) by lia. reflexivity.
    + rewrite skipn_length. unfold zlen in Hle. simpl length in *. lia.
  - split; [reflexivity|]. right. cbn [er_err er_rest]. repeat split.
    + destruct (zlen (b0 :: t) =? 1); [assumption|]. destruct (Z.eqb_spec tail E_EOF); [unfold E_UEOF; lia|assumption].
    + unfold itf8_short, announced. fold n. lia.
Qed.

Lemma er_slice_loop_spec fuel : forall i n s tail acc,
  all_bytes s = true -> tail <> 0 -> (length s < fuel)%nat ->
  exists vals s' e',
    er_slice_loop fuel i n (mkER s tail 0) acc = Ok (rev acc ++ vals, mkER s' tail e') /\
    ((e' = 0 /\ zlen vals = Z.max 0 (n - i) /\ exists pre, s = pre ++ s' /\ itf8_items pre vals)
     \/ (e' <> 0 /\ zlen vals < n - i /\ s' = [] /\ exists pre part, s = pre ++ part /\ itf8_items pre vals /\ itf8_short part)).
Proof.
  induction fuel as [|f IH]; intros i n s tail acc Hb Ht Hf; [lia|].
  cbn [er_slice_loop]. destruct (Z.leb_spec n i) as [Hdone|Hmore].
  { exists [], s, 0. rewrite app_nil_r. split; [reflexivity|]. left. split; [reflexivity|]. split; [unfold zlen; simpl; lia|].
    exists []. split; [reflexivity|constructor]. }
  rewrite er_itf8_spec by assumption. cbn [obind].
  pose proof (itf8_item_step s tail Ht) as Hstep.
  destruct (itf8_item_result s tail) as [v r']. destruct r' as [s1 t1 e1]. cbn [er_tail er_err er_rest] in Hstep.
  destruct Hstep as [-> [[-> (b & Hs & Hib & Hlen)]|(He & -> & Hshort)]].
  - rewrite er_failed_0.
    assert (Hb1 : all_bytes s1 = true).
    { rewrite Hs in Hb. unfold all_bytes in *. rewrite forallb_app in Hb. apply andb_prop in Hb. tauto. }
    destruct (IH (i + 1) n s1 tail (v :: acc) Hb1 Ht ltac:(lia)) as (vals & s' & e' & Hrun & Hres).
    exists (v :: vals), s', e'. split.
    { rewrite Hrun. cbn [rev]. rewrite <- app_assoc. reflexivity. }
    destruct Hres as [(-> & Hz & pre & Hpre & Hitems)|(He' & Hz & -> & pre & part & Hpre & Hitems & Hshort)].
    + left. split; [reflexivity|]. split; [rewrite zlen_cons; lia|].
      exists (b ++ pre). split; [rewrite <- app_assoc, <- Hpre; assumption|].
      apply (itf8_items_app b pre [v] vals); assumption.
    + right. split; [assumption|]. split; [rewrite zlen_cons; lia|]. split; [reflexivity|].
      exists (b ++ pre), part. split; [rewrite <- app_assoc, <- Hpre; assumption|]. split; [|assumption].
      apply (itf8_items_app b pre [v] vals); assumption.
  - assert (Hfl : er_failed (mkER [] tail e1) = true) by (unfold er_failed; cbn [er_err]; apply negb_true_iff, Z.eqb_neq; assumption).
    rewrite Hfl. exists [], [], e1. rewrite app_nil_r. split; [reflexivity|]. right.
    split; [assumption|]. split; [unfold zlen; simpl; lia|]. split; [reflexivity|].
    exists [], s. split; [reflexivity|]. split; [constructor|assumption].
Qed.

(** itf8slice: either it panics because the count it read is negative, or it
    returns after consuming exactly count + 1 complete items (no error), or it
    fails having consumed the whole input, which ends inside or before an
    item that was still owed.  It never gets stuck. *)
Lemma stream_itf8slice_exact s tail :
  all_bytes s = true -> tail <> 0 ->
  match er_itf8slice (mkER s tail 0) with
  | Ok (vals, r') =>
    er_tail r' = tail /\
    ((er_err r' = 0 /\ exists pre, s = pre ++ er_rest r' /\ itf8_items pre (zlen vals :: vals))
     \/ (er_err r' <> 0 /\ er_rest r' = [] /\
         exists pre part c, s = pre ++ part /\ itf8_short part /\
           (itf8_items pre (c :: vals) /\ zlen vals < c \/ pre = [] /\ vals = [])))
  | Panic _ => exists pre rest c, s = pre ++ rest /\ itf8_items pre [c] /\ c < 0
  | _ => False
  end.
Proof.
  intros Hb Ht. unfold er_itf8slice. rewrite er_itf8_spec by assumption. cbn [obind].
  pose proof (itf8_item_step s tail Ht) as Hstep.
  destruct (itf8_item_result s tail) as [c r']. destruct r' as [s1 t1 e1]. cbn [er_tail er_err er_rest] in Hstep.
  destruct Hstep as [-> [[-> (b & Hs & Hib & Hlen)]|(He & -> & Hshort)]].
  2:{ assert (Hfl : er_failed (mkER [] tail e1) = true) by (unfold er_failed; cbn [er_err]; apply negb_true_iff, Z.eqb_neq; assumption).
      rewrite Hfl. cbn [er_tail er_err er_rest]. split; [reflexivity|]. right. split; [assumption|]. split; [reflexivity|].
      exists [], s, 0. split; [reflexivity|]. split; [assumption|]. right. split; reflexivity. }
  rewrite er_failed_0.
  destruct (Z.eqb_spec c 0) as [->|Hc0].
  { cbn [er_tail er_err er_rest]. split; [reflexivity|]. left. split; [reflexivity|]. exists b. split; assumption. }
  destruct (Z.ltb_spec c 0) as [Hneg|Hpos].
  { exists b, s1, c. repeat split; assumption. }
  assert (Hb1 : all_bytes s1 = true).
  { rewrite Hs in Hb. unfold all_bytes in *. rewrite forallb_app in Hb. apply andb_prop in Hb. tauto. }
  cbn [er_rest].
  destruct (er_slice_loop_spec (S (length s1)) 0 c s1 tail [] Hb1 Ht ltac:(lia)) as (vals & s' & e' & Hrun & Hres).
  rewrite Hrun. cbn [rev app er_tail er_err er_rest]. split; [reflexivity|].
  destruct Hres as [(-> & Hz & pre & Hpre & Hitems)|(He' & Hz & -> & pre & part & Hpre & Hitems & Hshort)].
  - left. split; [reflexivity|]. exists (b ++ pre). split; [rewrite <- app_assoc, <- Hpre; assumption|].
    replace (zlen vals) with c by lia. apply (itf8_items_app b pre [c] vals); assumption.
  - right. split; [assumption|]. split; [reflexivity|]. exists (b ++ pre), part, c.
    split; [rewrite <- app_assoc, <- Hpre; assumption|]. split; [assumption|]. left. split; [|lia].
    apply (itf8_items_app b pre [c] vals); assumption.
Qed.
