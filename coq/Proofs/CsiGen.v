(** The Gallina translation of csi.reg2bin that gen/ regenerates from
    csi/csi.go on every run ([csigen_reg2bin], a fuel recursion) equals the
    hand-written model [csi_reg2bin] of Model/Bins.v that the C16 and C04
    theorems are stated about, for every input and every fuel above the
    depth. So those theorems are re-checked against the source text of the
    loop on every run, not only against its behaviour on the sampled cases. *)
From Coq Require Import ZArith List Lia.
From Hts Require Import Base.Prim Base.BinArith Generated Model.SamSpecArith Model.Bins Proofs.Bins.
Open Scope Z_scope.

Lemma csigen_loop_model :
  forall n k level beg e ms depth s t,
    level = Z.of_nat n -> level < 2 ^ 32 ->
    csigen_reg2bin_loop1 (S n + k) beg e ms depth s t level = reg2bin_loop n level beg e s t.
Proof.
  induction n as [|n IH]; intros k level beg e ms depth s t Hl Hb.
  - subst level. reflexivity.
  - cbn [plus csigen_reg2bin_loop1 reg2bin_loop].
    replace (0 <? level) with true by (symmetry; apply Z.ltb_lt; lia).
    destruct (Z.shiftr beg s =? Z.shiftr e s); [reflexivity|].
    unfold csi_nextBinShift.
    assert (Hu : u32 (level - 1) = Z.of_nat n).
    { rewrite u32_id by lia. lia. }
    specialize (IH k (u32 (level - 1)) beg e ms depth (u32 (s + 3))
                  (u32 (t - u32 (Z.shiftl 1 (u32 (u32 (level - 1) * 3))))) Hu ltac:(lia)).
    cbn [plus] in IH. exact IH.
Qed.

(** any fuel above the depth will do; with less the translation reports Stuck *)
Lemma csigen_reg2bin_is_model beg e ms depth k :
  0 <= depth < 2 ^ 32 ->
  csigen_reg2bin (S (Z.to_nat depth) + k) beg e ms depth = csi_reg2bin beg e ms depth.
Proof.
  intros Hd. unfold csigen_reg2bin, csi_reg2bin.
  rewrite csigen_loop_model by lia.
  unfold csi_t0, csi_nextBinShift.
  f_equal. unfold u32, wrapu. rewrite Z.mod_mod by lia. reflexivity.
Qed.

Lemma csigen_reg2bin_is_spec b e ms depth :
  0 <= ms -> 0 <= depth <= 10 -> ms + 3 * depth <= 62 ->
  0 <= b <= 2 ^ (ms + 3 * depth) -> 0 <= e <= 2 ^ (ms + 3 * depth) ->
  csigen_reg2bin 11 b e ms depth = Ok (spec_csi_reg2bin b e ms depth).
Proof.
  intros Hms Hd Hsum Hb He.
  replace 11%nat with (S (Z.to_nat depth) + (10 - Z.to_nat depth))%nat by lia.
  rewrite csigen_reg2bin_is_model by lia.
  apply csi_reg2bin_is_spec_gen; assumption.
Qed.

(** too little fuel is reported, never a normal-looking value *)
Lemma csigen_reg2bin_no_fuel beg e ms depth : csigen_reg2bin 0 beg e ms depth = Stuck.
Proof. reflexivity. Qed.

(** The same for the copy of the loop in the index model of C04/C15
    (Model/Csi.v: [cs_reg2bin], which Index.Add files records under). *)
From Hts Require Import Model.Csi.

Lemma csigen_loop_cs :
  forall n k beg e ms depth s t,
    Z.of_nat n < 2 ^ 32 ->
    csigen_reg2bin_loop1 (S n + k) beg e ms depth s t (Z.of_nat n) = Ok (cs_reg2bin_go n beg e s t).
Proof.
  induction n as [|n IH]; intros k beg e ms depth s t Hb.
  - reflexivity.
  - cbn [plus csigen_reg2bin_loop1 cs_reg2bin_go].
    replace (0 <? Z.of_nat (S n)) with true by (symmetry; apply Z.ltb_lt; lia).
    destruct (Z.shiftr beg s =? Z.shiftr e s); [reflexivity|].
    unfold csi_nextBinShift.
    assert (Hu : u32 (Z.of_nat (S n) - 1) = Z.of_nat n) by (rewrite u32_id by lia; lia).
    rewrite Hu. specialize (IH k beg e ms depth (u32 (s + 3))
      (u32 (t - u32 (Z.shiftl 1 (u32 (Z.of_nat n * 3))))) ltac:(lia)).
    cbn [plus] in IH. exact IH.
Qed.

Lemma csigen_reg2bin_is_cs beg e ms depth k :
  0 <= depth < 2 ^ 32 -> - 2 ^ 63 < e <= 2 ^ 63 ->
  csigen_reg2bin (S (Z.to_nat depth) + k) beg e ms depth = Ok (cs_reg2bin beg e ms depth).
Proof.
  intros Hd He. unfold csigen_reg2bin, cs_reg2bin.
  replace depth with (Z.of_nat (Z.to_nat depth)) at 4 by lia.
  replace (s64 (e - 1)) with (e - 1).
  2:{ unfold s64, wraps. symmetry.
      match goal with |- context [(?a mod ?m)] => idtac end.
      rewrite Z.mod_small by lia. lia. }
  rewrite csigen_loop_cs by lia.
  unfold csi_nextBinShift. do 2 f_equal.
  rewrite Z.quot_div_nonneg; [|unfold u32, wrapu; apply Z.mod_pos_bound; lia|lia].
  unfold u32, wrapu. rewrite Z.mod_mod by lia. reflexivity.
Qed.
