(** C15 for CSI at byte level (versions 1 and 2, any auxiliary bytes): reading
    what WriteTo wrote gives the sorted index — with the per-bin record counts
    that version 1 does not store read back as 0 — and writing that again gives
    the same bytes; the re-read index answers like the original. *)
From Coq Require Import ZArith Lia List Bool Sorted.
From Hts Require Import Base.Prim Base.Bits Generated Model.Index Model.Csi Model.IndexIO
  Proofs.IndexSort Proofs.IndexIO Proofs.IndexIOFull Proofs.CsiStats.
Open Scope Z_scope.

(** What a bin / reference looks like after the round trip. *)
Definition cs_strip_bin (ver : Z) (b : cbin) : cbin :=
  mkCBin (cnum b) (cleft b) (if ver =? 2 then crecords b else 0) (cchunks b).
Definition cs_strip_ref (ver : Z) (r : cref) : cref := mkCRef (map (cs_strip_bin ver) (cbins r)) (cstats r).

Definition cs_reread (ix : cindex) : cindex :=
  let ix' := cs_sort ix in
  mkCsi (c_aux ix') (c_ver ix') (map (cs_strip_ref (c_ver ix')) (c_refs ix')) (c_unm ix') (c_ms ix') (c_dp ix') true 0.

Definition cbin_fits (dummy : Z) (b : cbin) : Prop :=
  0 <= cnum b < 2 ^ 32 /\ cnum b <> dummy /\ u64_fits (cleft b) /\ u64_fits (crecords b) /\
  Forall chunk_fits (cchunks b) /\ zlen (cchunks b) < 2 ^ 31 /\ key_sorted fst (cchunks b).

Definition cref_fits (limit : Z) (r : cref) : Prop :=
  Forall (cbin_fits (u32 (limit + 1))) (cbins r) /\ zlen (cbins r) <= limit /\ limit + 1 < 2 ^ 32 /\ zlen (cbins r) + 1 < 2 ^ 31 /\
  key_sorted cnum (cbins r) /\ match cstats r with Some s => stats_fits s | None => True end.

(** Version 1 or 2, a geometry the reader accepts, numbers that fit their
    fields, and the order [sort] establishes. *)
Definition csi_fits (ix : cindex) : Prop :=
  (c_ver ix = 1 \/ c_ver ix = 2) /\
  0 <= c_ms ix /\ 0 <= c_dp ix < 10 /\ c_ms ix + 3 * c_dp ix < 64 /\
  zlen (c_aux ix) < 2 ^ 31 /\
  Forall (cref_fits (cs_bin_limit (c_dp ix))) (c_refs ix) /\ zlen (c_refs ix) < 2 ^ 31 /\
  match c_unm ix with Some u => u64_fits u | None => True end.

Lemma rd_rep_wr_map {A} (w : A -> list Z) (r : rd A) (f : A -> A) (P : A -> Prop) :
  (forall x rest, P x -> r (w x ++ rest) = Ok (f x, rest)) ->
  forall xs rest, Forall P xs -> rd_rep (length xs) r (flat_map w xs ++ rest) = Ok (map f xs, rest).
Proof.
  intros Hr. induction xs as [|x t IH]; intros rest H; [reflexivity|].
  inversion H; subst. cbn [length flat_map rd_rep map]. rewrite <- app_assoc.
  erewrite rd_bind_ok by (apply Hr; assumption).
  erewrite rd_bind_ok by (apply IH; assumption). reflexivity.
Qed.

Section Ver.
  Variables ver dummy : Z.
  Hypothesis Hver : ver = 1 \/ ver = 2.

  Lemma rd_records_wr x rest :
    u64_fits x ->
    (if ver =? 2 then rd_u64 else rd_ret 0) ((if ver =? 2 then io_u64 x else []) ++ rest)
    = Ok ((if ver =? 2 then x else 0), rest).
  Proof.
    intros Hx. destruct Hver as [-> | ->]; simpl (_ =? 2).
    - reflexivity.
    - apply rd_u64_wr. exact Hx.
  Qed.

  Lemma cloop_bin_step k acc st b rest :
    cbin_fits dummy b ->
    rd_cbins_loop ver dummy (S k) acc st (wr_cbin ver b ++ rest)
    = rd_cbins_loop ver dummy k (cs_strip_bin ver b :: acc) st rest.
  Proof.
    intros (Hn & Hd & Hl & Hr & Hf & Hc & Hs). cbn [rd_cbins_loop]. unfold wr_cbin, wr_chunks. rewrite <- !app_assoc.
    erewrite rd_bind_ok by (apply rd_u32_wr; exact Hn).
    erewrite rd_bind_ok by (apply rd_u64_wr; exact Hl).
    erewrite rd_bind_ok by (apply rd_records_wr; exact Hr).
    erewrite rd_bind_ok by (apply rd_i32_wr; pose proof (zlen_nonneg (cchunks b)); lia).
    destruct (cnum b =? dummy) eqn:E; [apply Z.eqb_eq in E; contradiction|].
    erewrite rd_bind_ok by (apply rd_chunks_wr; assumption).
    reflexivity.
  Qed.

  Lemma cloop_bins bins : forall k acc st rest,
    Forall (cbin_fits dummy) bins ->
    rd_cbins_loop ver dummy (length bins + k) acc st (flat_map (wr_cbin ver) bins ++ rest)
    = rd_cbins_loop ver dummy k (rev (map (cs_strip_bin ver) bins) ++ acc) st rest.
  Proof.
    induction bins as [|b t IH]; intros k acc st rest H; [reflexivity|].
    inversion H; subst. cbn [length flat_map plus map]. rewrite <- app_assoc.
    rewrite cloop_bin_step by assumption. rewrite IH by assumption.
    cbn [rev]. rewrite <- app_assoc. reflexivity.
  Qed.

  Definition wr_cstats_entry (st : option istats) : list Z :=
    match st with Some s => wr_cstats_head ver dummy ++ wr_stats_body s | None => [] end.

  Lemma zero8 rest : rd_u64 (io_u32 0 ++ io_u32 0 ++ rest) = Ok (0, rest).
  Proof. reflexivity. Qed.

  Lemma cloop_stats_step k acc st s rest :
    0 <= dummy < 2 ^ 32 -> stats_fits s ->
    rd_cbins_loop ver dummy (S k) acc st (wr_cstats_entry (Some s) ++ rest)
    = rd_cbins_loop ver dummy k acc (Some s) rest.
  Proof.
    intros Hd Hs. cbn [rd_cbins_loop wr_cstats_entry]. unfold wr_cstats_head.
    destruct Hver as [-> | ->]; simpl (_ =? 1); simpl (_ =? 2); cbv iota; rewrite <- !app_assoc.
    - erewrite rd_bind_ok by (apply rd_u32_wr; exact Hd).
      erewrite rd_bind_ok by (apply zero8).
      erewrite rd_bind_ok by (unfold rd_ret; reflexivity).
      erewrite rd_bind_ok by (apply rd_i32_wr; lia).
      rewrite Z.eqb_refl. change (2 =? 2) with true. cbv iota.
      erewrite rd_bind_ok by (apply rd_stats_wr; exact Hs). reflexivity.
    - erewrite rd_bind_ok by (apply rd_u32_wr; exact Hd).
      erewrite rd_bind_ok by (apply zero8).
      erewrite rd_bind_ok by (apply zero8).
      erewrite rd_bind_ok by (apply rd_i32_wr; lia).
      rewrite Z.eqb_refl. change (2 =? 2) with true. cbv iota.
      erewrite rd_bind_ok by (apply rd_stats_wr; exact Hs). reflexivity.
  Qed.

  Lemma strip_sorted bins : key_sorted cnum bins -> key_sorted cnum (map (cs_strip_bin ver) bins).
  Proof.
    unfold key_sorted. induction bins as [|b t IH]; intros H; simpl; [constructor|].
    inversion H as [|? ? Hs Hall]; subst. constructor; [apply IH; exact Hs|].
    apply Forall_forall. intros z Hz. apply in_map_iff in Hz. destruct Hz as (z0 & <- & Hz0). simpl.
    rewrite Forall_forall in Hall. apply Hall. exact Hz0.
  Qed.
End Ver.

Lemma wr_cref_shape ver dummy r :
  wr_cref ver dummy r = io_u32 (zlen (cbins r) + match cstats r with Some _ => 1 | None => 0 end)
                        ++ flat_map (wr_cbin ver) (cbins r) ++ wr_cstats_entry ver dummy (cstats r).
Proof. unfold wr_cref, wr_cstats_entry. destruct (cstats r); reflexivity. Qed.

Lemma u32_small' x : 0 <= x < 2 ^ 32 -> u32 x = x.
Proof. intros H. unfold u32, wrapu. apply Z.mod_small. exact H. Qed.

Lemma rd_cref_wr ver limit r rest :
  (ver = 1 \/ ver = 2) -> cref_fits limit r ->
  rd_cref ver limit (wr_cref ver (u32 (limit + 1)) r ++ rest) = Ok (cs_strip_ref ver r, rest).
Proof.
  intros Hver (Hb & Hlim & Hl32 & Hl & Hs & Hst). rewrite wr_cref_shape. unfold rd_cref. rewrite <- !app_assoc.
  pose proof (zlen_nonneg (cbins r)) as Hn.
  set (n := zlen (cbins r) + match cstats r with Some _ => 1 | None => 0 end).
  assert (Hn' : 0 <= n < 2 ^ 31 /\ n <= limit + 1) by (unfold n; destruct (cstats r); lia).
  erewrite rd_bind_ok by (apply rd_i32_wr; lia).
  assert (Hd : 0 <= u32 (limit + 1) < 2 ^ 32) by (unfold u32, wrapu; apply Z.mod_pos_bound; lia).
  destruct (n =? 0) eqn:E.
  - apply Z.eqb_eq in E. assert (zlen (cbins r) = 0) by (unfold n in E; destruct (cstats r); lia).
    destruct r as [bins st]. simpl in *. destruct bins; [|unfold zlen in H; simpl in H; lia].
    destruct st; [unfold n, zlen in E; simpl in E; lia|]. reflexivity.
  - rewrite (u32_small' n) by lia. destruct (n >? u32 (limit + 1)) eqn:E2; [rewrite u32_small' in E2 by lia; lia|].
    erewrite rd_bind_ok by (apply rd_count_ok; lia).
    unfold cs_strip_ref. destruct (cstats r) as [s|] eqn:Est.
    + replace (Z.to_nat n) with (length (cbins r) + 1)%nat by (unfold n, zlen; lia).
      erewrite rd_bind_ok.
      2:{ rewrite cloop_bins by assumption. rewrite cloop_stats_step by assumption.
          cbn [rd_cbins_loop]. unfold rd_ret. rewrite app_nil_r, rev_involutive.
          rewrite ix_isort_sorted_id by (apply strip_sorted; exact Hs). reflexivity. }
      reflexivity.
    + replace (Z.to_nat n) with (length (cbins r) + 0)%nat by (unfold n, zlen; lia).
      erewrite rd_bind_ok.
      2:{ rewrite cloop_bins by assumption. cbn [wr_cstats_entry app rd_cbins_loop]. unfold rd_ret.
          rewrite app_nil_r, rev_involutive.
          rewrite ix_isort_sorted_id by (apply strip_sorted; exact Hs). reflexivity. }
      reflexivity.
Qed.

Lemma cs_sort_fields ix :
  c_aux (cs_sort ix) = c_aux ix /\ c_ver (cs_sort ix) = c_ver ix /\ c_unm (cs_sort ix) = c_unm ix /\
  c_ms (cs_sort ix) = c_ms ix /\ c_dp (cs_sort ix) = c_dp ix /\ zlen (c_refs (cs_sort ix)) = zlen (c_refs ix).
Proof.
  unfold cs_sort. destruct (c_sorted ix); simpl; repeat split; try reflexivity.
  unfold zlen. rewrite map_length. reflexivity.
Qed.

Theorem csi_read_write ix :
  csi_fits (cs_sort ix) -> csi_read (fst (csi_write ix)) = Ok (Some (cs_reread ix)).
Proof.
  intros (Hver & Hms & Hdp & Hg & Haux & Hr & Hl & Hu).
  unfold cs_reread, csi_write. cbn [fst]. set (ix' := cs_sort ix) in *.
  set (ver := c_ver ix') in *. set (ms := c_ms ix') in *. set (dp := c_dp ix') in *.
  assert (Hu8 : u8 ver = ver) by (destruct Hver as [-> | ->]; reflexivity).
  unfold csi_read.
  erewrite rd_bind_ok by (exact (rd_bytes_app csi_magic _)).
  change (negb (io_bytes_eqb csi_magic csi_magic)) with false. cbv iota.
  erewrite rd_bind_ok by (exact (rd_bytes_app [u8 ver] _)).
  cbn [hd]. rewrite Hu8.
  assert (Hv : negb ((ver =? 1) || (ver =? 2)) = false) by (destruct Hver as [-> | ->]; reflexivity).
  rewrite Hv.
  erewrite rd_bind_ok by (apply rd_u32_wr; lia).
  assert (Hs1 : (s32 ms <? 0) = false).
  { apply Z.ltb_ge. unfold s32, wraps. change (2 ^ (32 - 1)) with (2 ^ 31). rewrite Z.mod_small by lia. lia. }
  rewrite Hs1.
  erewrite rd_bind_ok by (apply rd_u32_wr; lia).
  assert (Hs2 : (s32 dp <? 0) = false).
  { apply Z.ltb_ge. unfold s32, wraps. change (2 ^ (32 - 1)) with (2 ^ 31). rewrite Z.mod_small by lia. lia. }
  rewrite Hs2.
  assert (Hgeo : (dp >=? 32 / csi_nextBinShift) || (ms >=? 64) || (u32 (ms + u32 (dp * csi_nextBinShift)) >=? 64) = false).
  { change csi_nextBinShift with 3. change (32 / 3) with 10.
    rewrite (u32_small' (dp * 3)) by lia. rewrite u32_small' by lia.
    destruct (dp >=? 10) eqn:A; [lia|]. destruct (ms >=? 64) eqn:B; [lia|].
    destruct (ms + dp * 3 >=? 64) eqn:C; [lia|]. reflexivity. }
  rewrite Hgeo.
  pose proof (zlen_nonneg (c_aux ix')) as Ha0.
  erewrite rd_bind_ok by (apply rd_i32_wr; lia).
  erewrite rd_bind_ok.
  2:{ destruct (zlen (c_aux ix') >? 0) eqn:Ea.
      - replace (Z.to_nat (zlen (c_aux ix'))) with (length (c_aux ix')) by (unfold zlen; lia).
        apply rd_bytes_app.
      - rewrite Z.gtb_ltb in Ea. apply Z.ltb_ge in Ea.
        assert (En : c_aux ix' = []) by (destruct (c_aux ix'); [reflexivity|unfold zlen in Ea; simpl length in Ea; lia]).
        rewrite En. reflexivity. }
  pose proof (zlen_nonneg (c_refs ix')) as Hr0.
  erewrite rd_bind_ok by (apply rd_i32_wr; lia).
  rewrite (rd_bind_ok _ _ _ (map (cs_strip_ref ver) (c_refs ix')) (wr_trailer (c_unm ix'))).
  2:{ destruct (zlen (c_refs ix') =? 0) eqn:En.
      - apply Z.eqb_eq in En. assert (Er : c_refs ix' = []) by (destruct (c_refs ix'); [reflexivity|unfold zlen in En; simpl in En; lia]).
        rewrite Er. reflexivity.
      - erewrite rd_bind_ok by (apply rd_count_ok; lia).
        replace (Z.to_nat (zlen (c_refs ix'))) with (length (c_refs ix')) by (unfold zlen; lia).
        apply (rd_rep_wr_map (wr_cref ver (u32 (cs_bin_limit dp + 1))) (rd_cref ver (cs_bin_limit dp))
                 (cs_strip_ref ver) (cref_fits (cs_bin_limit dp))); [|exact Hr].
        intros x rest Hx. apply rd_cref_wr; assumption. }
  erewrite rd_bind_ok by (apply rd_trailer_wr; exact Hu).
  reflexivity.
Qed.

(** ** writing the re-read index, answers, statistics, ranges *)
Lemma wr_cbin_strip ver b : wr_cbin ver (cs_strip_bin ver b) = wr_cbin ver b.
Proof. unfold wr_cbin, cs_strip_bin. cbn [cnum cleft crecords cchunks]. destruct (ver =? 2); reflexivity. Qed.

Lemma wr_cref_strip ver d r : wr_cref ver d (cs_strip_ref ver r) = wr_cref ver d r.
Proof.
  unfold wr_cref, cs_strip_ref. cbn [cbins cstats]. unfold zlen. rewrite map_length. f_equal. f_equal.
  induction (cbins r) as [|b t IH]; cbn [map flat_map]; [reflexivity|]. rewrite wr_cbin_strip, IH. reflexivity.
Qed.

Lemma flat_map_strip ver d refs :
  flat_map (wr_cref ver d) (map (cs_strip_ref ver) refs) = flat_map (wr_cref ver d) refs.
Proof. induction refs as [|r t IH]; cbn [map flat_map]; [reflexivity|]. rewrite wr_cref_strip, IH. reflexivity. Qed.

Theorem csi_write_read_write ix : fst (csi_write (cs_reread ix)) = fst (csi_write ix).
Proof.
  assert (Hs : cs_sort (cs_reread ix) = cs_reread ix) by reflexivity.
  unfold csi_write. rewrite Hs. cbn [fst]. unfold cs_reread. cbn [c_aux c_ver c_ms c_dp c_refs c_unm].
  rewrite flat_map_strip. unfold zlen. rewrite map_length. reflexivity.
Qed.

(** ** answers *)
Lemma bs_go_map {A} (key : A -> Z) (f : A -> A) (d : A) (l : list A) (b : Z) :
  (forall x, key (f x) = key x) ->
  forall fuel i j, ix_bs_go key (f d) (map f l) b fuel i j = ix_bs_go key d l b fuel i j.
Proof.
  intros Hk. induction fuel as [|fu IH]; intros i j; simpl; [reflexivity|].
  destruct (i <? j); [|reflexivity]. rewrite map_nth, Hk.
  destruct (key (nth (Z.to_nat (Z.shiftr (i + j) 1)) l d) >=? b); apply IH.
Qed.

Lemma cs_strip_default ver : cs_strip_bin ver (mkCBin 0 0 0 []) = mkCBin 0 0 0 [].
Proof. unfold cs_strip_bin. cbn [cnum cleft crecords cchunks]. destruct (ver =? 2); reflexivity. Qed.

Lemma cs_search_strip ver bs b :
  cs_search (map (cs_strip_bin ver) bs) b = option_map (cs_strip_bin ver) (cs_search bs b).
Proof.
  unfold cs_search, ix_bsearch. unfold zlen. rewrite map_length.
  set (d0 := mkCBin 0 0 0 []). set (n := length bs).
  assert (E : ix_bs_go cnum d0 (map (cs_strip_bin ver) bs) b n 0 (Z.of_nat n) = ix_bs_go cnum d0 bs b n 0 (Z.of_nat n)).
  { transitivity (ix_bs_go cnum (cs_strip_bin ver d0) (map (cs_strip_bin ver) bs) b n 0 (Z.of_nat n));
      [unfold d0; rewrite cs_strip_default; reflexivity|apply bs_go_map; reflexivity]. }
  rewrite E. set (c := ix_bs_go cnum d0 bs b n 0 (Z.of_nat n)).
  destruct (c <? Z.of_nat n); [|reflexivity].
  assert (En : nth (Z.to_nat c) (map (cs_strip_bin ver) bs) d0 = cs_strip_bin ver (nth (Z.to_nat c) bs d0)).
  { transitivity (nth (Z.to_nat c) (map (cs_strip_bin ver) bs) (cs_strip_bin ver d0));
      [unfold d0; rewrite cs_strip_default; reflexivity|apply map_nth]. }
  rewrite En. cbn [cs_strip_bin cnum].
  destruct (cnum (nth (Z.to_nat c) bs d0) =? b); reflexivity.
Qed.

Lemma cs_candidates_strip ver ref beg end_ ms dp :
  cs_candidates (cs_strip_ref ver ref) beg end_ ms dp = cs_candidates ref beg end_ ms dp.
Proof.
  unfold cs_candidates, cs_strip_ref. cbn [cbins]. apply flat_map_ext. intros b.
  rewrite cs_search_strip. destruct (cs_search (cbins ref) (u32 b)); reflexivity.
Qed.

Theorem cs_reread_chunks ix rid beg end_ :
  fst (cs_chunks (cs_reread ix) rid beg end_) = fst (cs_chunks ix rid beg end_).
Proof.
  assert (Hs : cs_sort (cs_reread ix) = cs_reread ix) by reflexivity.
  destruct (cs_sort_fields ix) as (_ & _ & _ & Hms & Hdp & Hlen).
  unfold cs_chunks. rewrite Hs.
  assert (Hl : zlen (c_refs (cs_reread ix)) = zlen (c_refs ix)).
  { unfold cs_reread. cbn [c_refs]. unfold zlen in *. rewrite map_length. exact Hlen. }
  rewrite Hl. destruct ((rid <? 0) || (rid >=? zlen (c_refs ix))); [reflexivity|].
  assert (Hm : cs_max (cs_reread ix) = cs_max ix).
  { unfold cs_max, cs_reread. cbn [c_ms c_dp]. rewrite Hms, Hdp. reflexivity. }
  rewrite Hm. destruct ((beg <? 0) || (end_ <=? beg) || (beg >=? cs_max ix)); [reflexivity|]. cbn [fst].
  unfold cs_reread. cbn [c_refs c_ms c_dp].
  change cs_empty_ref with (cs_strip_ref (c_ver (cs_sort ix)) cs_empty_ref) at 1. rewrite map_nth.
  rewrite cs_candidates_strip. reflexivity.
Qed.

(** ** statistics *)
Theorem cs_reread_stats ix :
  cs_numrefs (cs_reread ix) = cs_numrefs ix /\ c_unm (cs_reread ix) = c_unm ix /\
  forall rid, cs_refstats (cs_reread ix) rid = cs_refstats ix rid.
Proof.
  destruct (cs_sort_fields ix) as (_ & _ & Hu & _ & _ & Hlen).
  unfold cs_numrefs, cs_refstats, cs_reread. cbn [c_refs c_unm].
  split; [unfold zlen in *; rewrite map_length; exact Hlen|]. split; [exact Hu|].
  intros rid. change cs_empty_ref with (cs_strip_ref (c_ver (cs_sort ix)) cs_empty_ref) at 1. rewrite map_nth.
  unfold cs_strip_ref. cbn [cstats]. unfold cs_sort. destruct (c_sorted ix); [reflexivity|]. cbn [c_refs].
  change cs_empty_ref with (cs_sort_ref cs_empty_ref) at 1. rewrite map_nth. reflexivity.
Qed.

(** ** an index that has never been sorted: ranges suffice *)
Definition cbin_ranges (dummy : Z) (b : cbin) : Prop :=
  0 <= cnum b < 2 ^ 32 /\ cnum b <> dummy /\ u64_fits (cleft b) /\ u64_fits (crecords b) /\
  Forall chunk_fits (cchunks b) /\ zlen (cchunks b) < 2 ^ 31.
Definition cref_ranges (limit : Z) (r : cref) : Prop :=
  Forall (cbin_ranges (u32 (limit + 1))) (cbins r) /\ zlen (cbins r) <= limit /\ limit + 1 < 2 ^ 32 /\ zlen (cbins r) + 1 < 2 ^ 31 /\
  match cstats r with Some s => stats_fits s | None => True end.
Definition csi_ranges (ix : cindex) : Prop :=
  (c_ver ix = 1 \/ c_ver ix = 2) /\
  0 <= c_ms ix /\ 0 <= c_dp ix < 10 /\ c_ms ix + 3 * c_dp ix < 64 /\
  zlen (c_aux ix) < 2 ^ 31 /\
  Forall (cref_ranges (cs_bin_limit (c_dp ix))) (c_refs ix) /\ zlen (c_refs ix) < 2 ^ 31 /\
  match c_unm ix with Some u => u64_fits u | None => True end.

Lemma csi_ranges_fits ix : c_sorted ix = false -> csi_ranges ix -> csi_fits (cs_sort ix).
Proof.
  intros Hs (Hv & Hms & Hdp & Hg & Ha & Hr & Hl & Hu). unfold cs_sort. rewrite Hs. unfold csi_fits. cbn [c_ver c_ms c_dp c_aux c_refs c_unm].
  repeat (split; [assumption|]). split; [|split; [unfold zlen in *; rewrite map_length; exact Hl|exact Hu]].
  apply Forall_forall. intros r' Hr'. apply in_map_iff in Hr'. destruct Hr' as (r & <- & Hin).
  rewrite Forall_forall in Hr. destruct (Hr r Hin) as (A & B & B32 & C & D).
  unfold cref_fits, cs_sort_ref. cbn [cbins cstats]. split; [|split; [|split; [exact B32|split; [|split]]]].
  - apply Forall_isort. apply Forall_forall. intros b' Hb'. apply in_map_iff in Hb'. destruct Hb' as (b & <- & Hb).
    rewrite Forall_forall in A. destruct (A b Hb) as (A1 & A2 & A3 & A4 & A5 & A6).
    unfold cbin_fits, cs_sort_bin. cbn [cnum cleft crecords cchunks]. repeat (split; [assumption|]).
    split; [apply Forall_isort; exact A5|]. split; [unfold zlen in *; rewrite ix_isort_length; exact A6|apply ix_isort_sorted].
  - unfold zlen in *. rewrite ix_isort_length, map_length. exact B.
  - unfold zlen in *. rewrite ix_isort_length, map_length. exact C.
  - apply ix_isort_sorted.
  - exact D.
Qed.

Theorem csi_roundtrip_unsorted ix :
  c_sorted ix = false -> csi_ranges ix ->
  csi_read (fst (csi_write ix)) = Ok (Some (cs_reread ix)) /\
  fst (csi_write (cs_reread ix)) = fst (csi_write ix).
Proof.
  intros Hs Hr. split; [apply csi_read_write, csi_ranges_fits; assumption|apply csi_write_read_write].
Qed.
