(** C04 for CSI: Add never fails on a well-formed list and Chunks is complete,
    for every (minShift, depth); the per-bin [left] offset never prunes a chunk
    of the bin. *)
From Coq Require Import ZArith Lia List Bool Permutation Sorted.
From Hts Require Import Base.Prim Base.Bits Generated Model.Index Model.Csi Model.IndexSpec Proofs.IndexSort Proofs.Index.
Open Scope Z_scope.

(** Largest coordinate [validIndexPos] accepts for the scheme. *)
Definition cs_limit (ms dp : Z) : Z := Z.shiftl 1 (u32 (ms + u32 (dp * csi_nextBinShift))) - 1 - 1.

(** C16 ([csi_bin_in_bins]) for one scheme. *)
Definition csi_bin_containment (ms dp : Z) : Prop :=
  forall b1 e1 b2 e2,
    0 <= b1 < e1 -> e1 <= cs_limit ms dp + 2 -> 0 <= b2 < e2 -> e2 <= cs_limit ms dp + 2 -> b1 < e2 -> b2 < e1 ->
    In (cs_reg2bin b1 e1 ms dp) (cs_reg2bins b2 e2 ms dp).

Lemma cs_valid_pos_iff x ms dp : cs_valid_pos x ms dp = true <-> -1 <= x <= cs_limit ms dp.
Proof. unfold cs_valid_pos, cs_limit. rewrite andb_true_iff, Z.leb_le, Z.leb_le. tauto. Qed.

Lemma u32_idem x : u32 (u32 x) = u32 x.
Proof. unfold u32, wrapu. apply Z.mod_mod. lia. Qed.

Lemma cs_reg2bin_go_u32 level : forall beg e s t, u32 (cs_reg2bin_go level beg e s t) = cs_reg2bin_go level beg e s t.
Proof.
  induction level as [|l IH]; intros; simpl; [reflexivity|].
  destruct (_ =? _); [apply u32_idem|apply IH].
Qed.

Lemma cs_reg2bin_u32 b e ms dp : u32 (cs_reg2bin b e ms dp) = cs_reg2bin b e ms dp.
Proof. apply cs_reg2bin_go_u32. Qed.

(** The query validation of Chunks passes for a query inside the range (the
    geometry's shift is below 63, as for every index the reader accepts). *)
Lemma cs_query_valid ix ms dp beg end_ :
  c_ms ix = ms -> c_dp ix = dp -> u32 (ms + u32 (dp * csi_nextBinShift)) < 63 ->
  0 <= beg < end_ -> end_ <= cs_limit ms dp + 2 ->
  (beg <? 0) || (end_ <=? beg) || (beg >=? cs_max ix) = false /\
  (if end_ >? cs_max ix then cs_max ix else end_) = end_.
Proof.
  intros Hms Hdp Hg Hq Hq2. unfold cs_max. rewrite Hms, Hdp. unfold cs_limit in Hq2.
  set (s := u32 (ms + u32 (dp * csi_nextBinShift))) in *.
  destruct (s <? 63) eqn:E; [|lia].
  destruct (beg <? 0) eqn:E1; [lia|]. destruct (end_ <=? beg) eqn:E2; [lia|].
  destruct (beg >=? Z.shiftl 1 s) eqn:E3; [lia|]. split; [reflexivity|].
  destruct (end_ >? Z.shiftl 1 s) eqn:E4; [lia|reflexivity].
Qed.

(** ** filing a chunk *)
Definition cfiled (bs : list cbin) (b : Z) (c : chunk) : list cbin :=
  match cs_upd_bins bs b c with Some bs' => bs' | None => bs ++ [mkCBin b (fst c) 1 [c]] end.

Definition cbin_has (x : cbin) (b : Z) (c : chunk) : Prop :=
  cnum x = b /\ In c (cchunks x) /\ cleft x <= fst c.

Lemma cfiled_spec bs b c lend :
  (forall x ch, In x bs -> In ch (cchunks x) -> snd ch <= lend) ->
  (forall x, In x bs -> cleft x <= lend) -> lend <= fst c ->
  NoDup (map cnum bs) ->
  NoDup (map cnum (cfiled bs b c)) /\
  (exists x, In x (cfiled bs b c) /\ cbin_has x b c) /\
  (forall x ch, In x bs -> In ch (cchunks x) ->
     exists x', In x' (cfiled bs b c) /\ cnum x' = cnum x /\ cleft x' = cleft x /\ In ch (cchunks x')) /\
  (forall x' ch, In x' (cfiled bs b c) -> In ch (cchunks x') ->
     ch = c \/ exists x, In x bs /\ In ch (cchunks x)) /\
  (forall x', In x' (cfiled bs b c) -> cleft x' <= fst c).
Proof.
  unfold cfiled, cbin_has. induction bs as [|x t IH]; intros Hb Hlf Hl Hnd.
  - simpl. split; [constructor; [tauto|constructor]|]. split.
    + exists (mkCBin b (fst c) 1 [c]). simpl. split; [auto|]. split; [reflexivity|]. split; [auto|lia].
    + split; [intros ? ? []|]. split.
      * intros x' ch [<-|[]] Hc. simpl in Hc. destruct Hc as [<-|[]]. left; reflexivity.
      * intros x' [<-|[]]. simpl. lia.
  - simpl. destruct (cnum x =? b) eqn:E.
    + apply Z.eqb_eq in E.
      rewrite ix_upd_chunks_append.
      2:{ intros ch Hc. specialize (Hb x ch (or_introl eq_refl) Hc). lia. }
      split; [exact Hnd|]. split.
      * eexists. split; [left; reflexivity|]. simpl. split; [exact E|]. split.
        -- apply in_or_app. right. left. reflexivity.
        -- specialize (Hlf x (or_introl eq_refl)). lia.
      * split; [|split].
        -- intros y ch [<-|Hy] Hc.
           ++ eexists. split; [left; reflexivity|]. simpl. split; [reflexivity|]. split; [reflexivity|]. apply in_or_app. left. exact Hc.
           ++ exists y. split; [right; exact Hy|]. auto.
        -- intros x' ch [<-|Hx'] Hc.
           ++ simpl in Hc. apply in_app_or in Hc. destruct Hc as [Hc|[<-|[]]]; [right|left; reflexivity].
              exists x. split; [left; reflexivity|exact Hc].
           ++ right. exists x'. split; [right; exact Hx'|exact Hc].
        -- intros x' [<-|Hx']; simpl.
           ++ specialize (Hlf x (or_introl eq_refl)). lia.
           ++ specialize (Hlf x' (or_intror Hx')). lia.
    + apply Z.eqb_neq in E. simpl in Hnd. inversion Hnd as [|? ? Hni Hnd']; subst.
      assert (Hb' : forall y ch, In y t -> In ch (cchunks y) -> snd ch <= lend)
        by (intros y ch Hy; apply Hb; right; exact Hy).
      assert (Hlf' : forall y, In y t -> cleft y <= lend) by (intros y Hy; apply Hlf; right; exact Hy).
      destruct (IH Hb' Hlf' Hl Hnd') as (I1 & (x0 & I2a & I2b) & I3 & I4 & I5).
      assert (Hnum : forall t', cs_upd_bins t b c = Some t' -> forall z, In z t' -> In (cnum z) (map cnum t)).
      { clear. induction t as [|h r IHr]; simpl; intros t' Et z Hz; [discriminate|].
        destruct (cnum h =? b).
        - inversion Et; subst. destruct Hz as [<-|Hz]; simpl; auto. right. apply in_map. exact Hz.
        - destruct (cs_upd_bins r b c) eqn:Er; [|discriminate]. inversion Et; subst.
          destruct Hz as [<-|Hz]; [left; reflexivity|]. right. eapply IHr; [reflexivity|exact Hz]. }
      assert (Hx : cleft x <= fst c) by (specialize (Hlf x (or_introl eq_refl)); lia).
      destruct (cs_upd_bins t b c) as [t'|] eqn:Et.
      * split.
        { simpl. constructor; [|exact I1]. intro Hin. apply in_map_iff in Hin. destruct Hin as (y & Hy1 & Hy2).
          apply Hni. rewrite <- Hy1. apply (Hnum t' eq_refl). exact Hy2. }
        split; [exists x0; split; [right; exact I2a|exact I2b]|]. split; [|split].
        -- intros y ch [<-|Hy] Hc.
           ++ exists x. split; [left; reflexivity|]. auto.
           ++ destruct (I3 y ch Hy Hc) as (y' & Hy' & Hn). exists y'. split; [right; exact Hy'|exact Hn].
        -- intros x' ch [<-|Hx'] Hc.
           ++ right. exists x. split; [left; reflexivity|exact Hc].
           ++ destruct (I4 x' ch Hx' Hc) as [->|(y & Hy & Hyc)]; [left; reflexivity|].
              right. exists y. split; [right; exact Hy|exact Hyc].
        -- intros x' [<-|Hx']; [exact Hx|apply I5; exact Hx'].
      * split.
        { simpl. constructor; [|exact I1]. rewrite map_app, in_app_iff. simpl. intros [H|[H|[]]]; [exact (Hni H)|lia]. }
        split; [exists x0; split; [right; exact I2a|exact I2b]|]. split; [|split].
        -- intros y ch [<-|Hy] Hc.
           ++ exists x. split; [left; reflexivity|]. auto.
           ++ destruct (I3 y ch Hy Hc) as (y' & Hy' & Hn). exists y'. split; [right; exact Hy'|exact Hn].
        -- intros x' ch [<-|Hx'] Hc.
           ++ right. exists x. split; [left; reflexivity|exact Hc].
           ++ destruct (I4 x' ch Hx' Hc) as [->|(y & Hy & Hyc)]; [left; reflexivity|].
              right. exists y. split; [right; exact Hy|exact Hyc].
        -- intros x' [<-|Hx']; [exact Hx|apply I5; exact Hx'].
Qed.

(** ** the invariant *)
Section Scheme.
  Variables ms dp : Z.

  Definition rec_in_cref (ref : cref) (R : irec) : Prop :=
    exists b c, In b (cbins ref) /\ cnum b = cs_reg2bin (q_start R) (q_end R) ms dp /\ In c (cchunks b) /\
                fst c <= q_cb R /\ q_ce R <= snd c /\ cleft b <= q_cb R.

  Definition cref_bounded (lend : Z) (ref : cref) : Prop :=
    (forall b c, In b (cbins ref) -> In c (cchunks b) -> snd c <= lend) /\
    (forall b, In b (cbins ref) -> cleft b <= lend) /\
    NoDup (map cnum (cbins ref)).

  Definition crec_shape (R : irec) : Prop :=
    q_placed R = true /\ 0 <= q_start R < q_end R /\ q_end R <= cs_limit ms dp + 1 /\ q_cb R < q_ce R.

  Record CInv (ix : cindex) (seen : list irec) (lrid lstart lend : Z) : Prop := mkCInv {
    ci_ms : c_ms ix = ms; ci_dp : c_dp ix = dp;
    ci_len : zlen (c_refs ix) = lrid + 1;
    ci_lrid : -1 <= lrid;
    ci_last : c_last ix <= lstart;
    ci_unsorted : c_sorted ix = false;
    ci_refs : Forall (cref_bounded lend) (c_refs ix);
    ci_seen : forall R, In R seen ->
        0 <= q_rid R <= lrid /\ crec_shape R /\
        rec_in_cref (nth (Z.to_nat (q_rid R)) (c_refs ix) cs_empty_ref) R
  }.

  Lemma cref_bounded_empty lend : cref_bounded lend cs_empty_ref.
  Proof. unfold cref_bounded; simpl. split; [intros ? ? []|]. split; [intros ? []|constructor]. Qed.

  Lemma cref_bounded_mono l1 l2 ref : l1 <= l2 -> cref_bounded l1 ref -> cref_bounded l2 ref.
  Proof.
    intros H (A & B & C). split; [|split; [|exact C]].
    - intros b c Hb Hc. specialize (A b c Hb Hc). lia.
    - intros b Hb. specialize (B b Hb). lia.
  Qed.

  Lemma nth_cgrow (rs : list cref) k i :
    nth i (rs ++ repeat cs_empty_ref k) cs_empty_ref = nth i rs cs_empty_ref.
  Proof.
    destruct (Nat.lt_ge_cases i (length rs)) as [H|H].
    - apply app_nth1; exact H.
    - rewrite app_nth2 by exact H. rewrite (nth_overflow rs) by exact H.
      destruct (Nat.lt_ge_cases (i - length rs) k) as [H2|H2].
      + apply nth_repeat.
      + apply nth_overflow. rewrite repeat_length. exact H2.
  Qed.

  Lemma cadd_placed_inv ix seen lrid lstart lend r :
    CInv ix seen lrid lstart lend -> q_placed r = true ->
    0 <= q_rid r -> lrid <= q_rid r -> (q_rid r = lrid -> lstart <= q_start r) ->
    0 <= q_start r < q_end r -> q_end r <= cs_limit ms dp + 1 -> lend <= q_cb r < q_ce r ->
    exists ix', cs_add ix r = Ok ix' /\ CInv ix' (r :: seen) (q_rid r) (q_start r) (q_ce r).
  Proof.
    intros I Hp Hrid0 Hrid Hst Hse Hlim Hc.
    destruct I as [Ims Idp Ilen Ilrid Ilast Iuns Irefs Iseen].
    unfold cs_add. rewrite Ims, Idp.
    assert (V1 : cs_valid_pos (q_start r) ms dp = true) by (apply cs_valid_pos_iff; lia).
    assert (V2 : cs_valid_pos (q_end r - 1) ms dp = true) by (apply cs_valid_pos_iff; lia).
    rewrite V1, V2, Hp. simpl negb. change (false || false) with false. cbv iota.
    set (rid := q_rid r) in *.
    destruct (rid <? zlen (c_refs ix) - 1) eqn:E1; [apply Z.ltb_lt in E1; lia|].
    set (refs := if rid >=? zlen (c_refs ix) then cs_grow_refs (c_refs ix) rid else c_refs ix).
    set (last := if rid >=? zlen (c_refs ix) then 0 else c_last ix).
    assert (Hrefs_len : zlen refs = rid + 1).
    { unfold refs. destruct (rid >=? zlen (c_refs ix)) eqn:E; [|lia].
      unfold cs_grow_refs. rewrite zlen_app, zlen_repeat. lia. }
    assert (Hnth : forall i, nth i refs cs_empty_ref = nth i (c_refs ix) cs_empty_ref).
    { intros i. unfold refs. destruct (rid >=? zlen (c_refs ix)); [apply nth_cgrow|reflexivity]. }
    assert (Hrefs_b : Forall (cref_bounded lend) refs).
    { unfold refs. destruct (rid >=? zlen (c_refs ix)); [|exact Irefs].
      unfold cs_grow_refs. apply Forall_app. split; [exact Irefs|].
      apply Forall_forall. intros x Hx. apply repeat_spec in Hx. subst. apply cref_bounded_empty. }
    assert (Hinb : inb refs rid = true).
    { unfold inb. apply andb_true_intro. split; [apply Z.leb_le|apply Z.ltb_lt]; lia. }
    rewrite Hinb. unfold chk.
    set (ref := nth (Z.to_nat rid) refs cs_empty_ref).
    assert (Hrefb : cref_bounded lend ref).
    { unfold ref. rewrite Forall_forall in Hrefs_b. apply Hrefs_b. apply nth_In. unfold zlen in Hrefs_len. lia. }
    destruct Hrefb as (RB1 & RB2 & RB3).
    set (c := (q_cb r, q_ce r)).
    set (bn := cs_reg2bin (q_start r) (q_end r) ms dp).
    pose proof (cfiled_spec (cbins ref) bn c lend RB1 RB2 (proj1 Hc) RB3) as (F1 & F2 & F3 & F4 & F5).
    assert (Hlast : (q_start r <? last) = false).
    { apply Z.ltb_ge. unfold last. destruct (rid >=? zlen (c_refs ix)) eqn:E; [lia|].
      assert (rid = lrid) by lia. specialize (Hst H). lia. }
    assert (Hgoal : forall bins sorted, bins = cfiled (cbins ref) bn c -> sorted = false ->
       exists ix', (if q_start r <? last then Err 3 else
          Ok (mkCsi (c_aux ix) (c_ver ix)
                    (upd_nat refs (Z.to_nat rid) (mkCRef bins (Some (ix_upd_stats (cstats ref) c (q_mapped r)))))
                    (Some match c_unm ix with Some u => u | None => 0 end) ms dp sorted (q_start r))) = Ok ix'
       /\ CInv ix' (r :: seen) rid (q_start r) (q_ce r)).
    { intros bins sorted -> ->. rewrite Hlast. eexists. split; [reflexivity|].
      set (ref' := mkCRef (cfiled (cbins ref) bn c) (Some (ix_upd_stats (cstats ref) c (q_mapped r)))).
      assert (Hb' : cref_bounded (q_ce r) ref').
      { split; [|split]; simpl.
        - intros b ch Hb Hch. destruct (F4 b ch Hb Hch) as [->|(x & Hx & Hxc)]; [simpl; lia|].
          specialize (RB1 x ch Hx Hxc). lia.
        - intros b Hb. specialize (F5 b Hb). simpl in F5. lia.
        - exact F1. }
      constructor; simpl; try reflexivity; try lia.
      - unfold zlen. rewrite length_upd_nat. exact Hrefs_len.
      - apply Forall_upd_nat; [|exact Hb'].
        eapply Forall_impl; [|exact Hrefs_b]. intros a Ha. eapply cref_bounded_mono; [|exact Ha]. lia.
      - intros R [<-|HR].
        + split; [fold rid; lia|]. split; [repeat split; try assumption; lia|].
          fold rid. rewrite nth_upd_nat_same by (unfold zlen in Hrefs_len; lia).
          destruct F2 as (x & Hx & Hxn & Hxc & Hxl). exists x, c. simpl. fold bn.
          repeat split; try assumption; simpl in *; lia.
        + destruct (Iseen R HR) as (A & B & C). split; [lia|]. split; [exact B|].
          destruct (Z.eq_dec (q_rid R) rid) as [Heq|Hne].
          * rewrite Heq. rewrite nth_upd_nat_same by (unfold zlen in Hrefs_len; lia).
            assert (C' : rec_in_cref ref R) by (unfold ref; rewrite Hnth, <- Heq; exact C).
            destruct C' as (b & ch & Hb & Hbn & Hch & Hc1 & Hc2 & Hc3).
            destruct (F3 b ch Hb Hch) as (b' & Hbb' & Hn' & Hl' & Hc').
            exists b', ch. simpl. repeat split; try assumption; try lia; try congruence.
          * rewrite nth_upd_nat_other by lia. rewrite Hnth. exact C. }
    fold bn. fold c.
    destruct (cs_upd_bins (cbins ref) bn c) as [bs|] eqn:Eb; cbv beta iota zeta.
    - refine (Hgoal bs (c_sorted ix) _ Iuns). unfold cfiled; rewrite Eb; reflexivity.
    - refine (Hgoal _ false _ eq_refl). unfold cfiled; rewrite Eb; reflexivity.
  Qed.

  Lemma cadd_unplaced_inv ix seen lrid lstart lend r :
    CInv ix seen lrid lstart lend -> q_placed r = false ->
    -1 <= q_start r <= cs_limit ms dp -> 0 <= q_end r <= cs_limit ms dp + 1 ->
    exists ix', cs_add ix r = Ok ix' /\ CInv ix' seen lrid lstart lend.
  Proof.
    intros I Hp H1 H2. unfold cs_add. destruct I. rewrite ci_ms0, ci_dp0.
    assert (H2' : -1 <= q_end r - 1 <= cs_limit ms dp) by lia.
    rewrite (proj2 (cs_valid_pos_iff _ _ _) H1), (proj2 (cs_valid_pos_iff _ _ _) H2'), Hp. simpl.
    eexists. split; [reflexivity|]. constructor; simpl; try reflexivity; assumption.
  Qed.

  Lemma cfold_add_inv rs : forall ix seen lrid lstart lend,
    CInv ix seen lrid lstart lend -> ix_wf_from (cs_limit ms dp) lrid lstart lend rs ->
    exists ix' seen' lrid' lstart' lend',
      cs_fold_add ix rs = Ok ix' /\ CInv ix' seen' lrid' lstart' lend' /\
      (forall R, In R seen \/ (In R rs /\ q_placed R = true) -> In R seen').
  Proof.
    induction rs as [|r t IH]; intros ix seen lrid lstart lend I W.
    - exists ix, seen, lrid, lstart, lend. simpl. split; [reflexivity|]. split; [exact I|].
      intros R [H|[[] _]]; exact H.
    - simpl in W. destruct (q_placed r) eqn:Hp.
      + destruct W as (W1 & W2 & W3 & W4 & W5 & W6 & W7).
        destruct (cadd_placed_inv _ _ _ _ _ r I Hp W1 W2 W3 W4 W5 W6) as (ix1 & A1 & I1).
        destruct (IH _ _ _ _ _ I1 W7) as (ix' & seen' & a & b & c & F & I' & S).
        exists ix', seen', a, b, c. simpl. rewrite A1. simpl. split; [exact F|]. split; [exact I'|].
        intros R [H|[[<-|H] HpR]]; apply S; [left; right; exact H|left; left; reflexivity|right; split; assumption].
      + destruct W as (W1 & W2 & W3).
        destruct (cadd_unplaced_inv _ _ _ _ _ r I Hp W1 W2) as (ix1 & A1 & I1).
        destruct (IH _ _ _ _ _ I1 W3) as (ix' & seen' & a & b & c & F & I' & S).
        exists ix', seen', a, b, c. simpl. rewrite A1. simpl. split; [exact F|]. split; [exact I'|].
        intros R [H|[[<-|H] HpR]]; [apply S; left; exact H|congruence|apply S; right; split; assumption].
  Qed.

  (** ** the query *)
  Lemma cs_search_found bs x :
    key_sorted cnum bs -> NoDup (map cnum bs) -> In x bs -> cs_search bs (cnum x) = Some x.
  Proof.
    intros Hs Hnd Hin. destruct (bsearch_finds cnum (mkCBin 0 0 0 []) bs x Hs Hnd Hin) as (p & Hp & Hx & Hb).
    unfold cs_search. rewrite Hb. destruct (Z.of_nat p <? zlen bs) eqn:E; [|unfold zlen in E; lia].
    rewrite Nat2Z.id, Hx, Z.eqb_refl. reflexivity.
  Qed.

  Lemma rec_in_cref_sort ref R : rec_in_cref ref R -> rec_in_cref (cs_sort_ref ref) R.
  Proof.
    intros (b & c & Hb & Hn & Hc & H1 & H2 & H3). exists (cs_sort_bin b), c. simpl. split.
    - apply ix_isort_in. apply in_map. exact Hb.
    - split; [exact Hn|]. split; [apply ix_isort_in; exact Hc|auto].
  Qed.

  Hypothesis containment : csi_bin_containment ms dp.
  Hypothesis geo : u32 (ms + u32 (dp * csi_nextBinShift)) < 63.

  Theorem csi_complete_gen aux ver rs :
    ix_wf_from (cs_limit ms dp) (-1) 0 0 rs ->
    exists ix, cs_fold_add (mkCsi aux ver [] None ms dp false 0) rs = Ok ix /\
      forall rid beg end_, 0 <= beg < end_ -> end_ <= cs_limit ms dp + 2 ->
        (forall r, In r rs -> ix_overlaps r rid beg end_ ->
           ix_covers (fst (cs_chunks ix rid beg end_)) r) /\
        (fst (cs_chunks ix rid beg end_) = [] -> forall r, In r rs -> ~ ix_overlaps r rid beg end_).
  Proof.
    intros W.
    assert (I0 : CInv (mkCsi aux ver [] None ms dp false 0) [] (-1) 0 0).
    { constructor; simpl; try reflexivity; try lia; try (intros ? []); constructor. }
    destruct (cfold_add_inv rs _ _ _ _ _ I0 W) as (ix & seen & a & b & c & F & I & S).
    exists ix. split; [exact F|]. intros rid beg end_ Hq Hq2.
    assert (Main : forall r, In r rs -> ix_overlaps r rid beg end_ -> ix_covers (fst (cs_chunks ix rid beg end_)) r).
    { intros r Hr (Op & Orid & O1 & O2).
      assert (Hs : In r seen) by (apply S; right; split; assumption).
      destruct I as [Ims Idp Ilen Ilrid Ilast Iuns Irefs Iseen].
      destruct (Iseen r Hs) as (A & (S1 & S2 & S3 & S4) & C). subst rid.
      unfold cs_chunks.
      destruct (q_rid r <? 0) eqn:E1; [apply Z.ltb_lt in E1; lia|].
      destruct (q_rid r >=? zlen (c_refs ix)) eqn:E2; [lia|]. cbn [orb].
      destruct (cs_query_valid ix ms dp beg end_ Ims Idp geo Hq Hq2) as (V1 & V2). rewrite V1, V2. cbn [fst].
      unfold cs_sort. rewrite Iuns. simpl. rewrite Ims, Idp.
      change cs_empty_ref with (cs_sort_ref cs_empty_ref). rewrite map_nth.
      set (ref := nth (Z.to_nat (q_rid r)) (c_refs ix) cs_empty_ref) in *.
      apply rec_in_cref_sort in C. destruct C as (b0 & c0 & Hb & Hn & Hc & H1 & H2 & H3).
      exists c0. split; [|split; assumption].
      apply ix_isort_in. unfold cs_candidates. apply in_flat_map.
      exists (cs_reg2bin (q_start r) (q_end r) ms dp). split.
      - apply containment; lia.
      - rewrite cs_reg2bin_u32, <- Hn.
        assert (Href : In ref (c_refs ix)) by (apply nth_In; unfold zlen in *; lia).
        rewrite Forall_forall in Irefs. destruct (Irefs ref Href) as (_ & _ & Hnd).
        rewrite (cs_search_found _ b0).
        + apply filter_In. split; [exact Hc|]. apply Z.gtb_lt. lia.
        + simpl. apply ix_isort_sorted.
        + simpl. eapply Permutation_NoDup; [apply Permutation_map, ix_isort_perm|].
          rewrite map_map. simpl. exact Hnd.
        + exact Hb. }
    split; [exact Main|].
    intros E r Hr Ho. destruct (Main r Hr Ho) as (c0 & Hc0 & _). rewrite E in Hc0. destruct Hc0.
  Qed.
End Scheme.
