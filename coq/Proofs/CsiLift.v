(** C04 for CSI in every later state (sort, earlier queries, MergeChunks with a
    covering strategy). *)
From Coq Require Import ZArith Lia List Bool Permutation Sorted.
From Hts Require Import Base.Prim Base.Bits Generated Model.Index Model.Csi Model.IndexSpec
  Proofs.IndexSort Proofs.Index Proofs.CsiIdx.
Open Scope Z_scope.

Section Lift.
  Variables ms dp : Z.

  Record CQInv (ix : cindex) (seen : list irec) : Prop := mkCQInv {
    cq_ms : c_ms ix = ms; cq_dp : c_dp ix = dp;
    cq_sorted : c_sorted ix = true -> Forall (fun r => key_sorted cnum (cbins r)) (c_refs ix);
    cq_nodup : Forall (fun r => NoDup (map cnum (cbins r))) (c_refs ix);
    cq_seen : forall R, In R seen ->
        0 <= q_rid R < zlen (c_refs ix) /\ crec_shape ms dp R /\
        rec_in_cref ms dp (nth (Z.to_nat (q_rid R)) (c_refs ix) cs_empty_ref) R
  }.

  Lemma CInv_CQInv ix seen a b c : CInv ms dp ix seen a b c -> CQInv ix seen.
  Proof.
    intros I. destruct I. constructor; try assumption.
    - rewrite ci_unsorted. discriminate.
    - eapply Forall_impl; [|exact ci_refs]. intros r (_ & _ & H). exact H.
    - intros R HR. destruct (ci_seen R HR) as (A & B & C). split; [lia|]. split; assumption.
  Qed.

  Lemma nth_map_cref (f : cref -> cref) (l : list cref) i :
    f cs_empty_ref = cs_empty_ref -> nth i (map f l) cs_empty_ref = f (nth i l cs_empty_ref).
  Proof. intros H. rewrite <- H at 1. apply map_nth. Qed.

  Lemma CQInv_sort ix seen : CQInv ix seen -> CQInv (cs_sort ix) seen /\ c_sorted (cs_sort ix) = true.
  Proof.
    intros Q. unfold cs_sort. destruct (c_sorted ix) eqn:E; [split; [exact Q|exact E]|].
    split; [|reflexivity]. destruct Q as [Q0 Q0' Q1 Q2 Q3]. constructor; simpl; try assumption.
    - intros _. apply Forall_forall. intros r Hr. apply in_map_iff in Hr. destruct Hr as (r0 & <- & _).
      simpl. apply ix_isort_sorted.
    - apply Forall_forall. intros r Hr. apply in_map_iff in Hr. destruct Hr as (r0 & <- & Hr0).
      simpl. rewrite Forall_forall in Q2. specialize (Q2 r0 Hr0).
      eapply Permutation_NoDup; [apply Permutation_map, ix_isort_perm|]. rewrite map_map. simpl. exact Q2.
    - intros R HR. destruct (Q3 R HR) as (A & B & C). unfold zlen. rewrite map_length. split; [exact A|].
      split; [exact B|]. rewrite nth_map_cref by reflexivity. apply rec_in_cref_sort. exact C.
  Qed.

  Lemma CQInv_merge s ix seen : ix_strategy_covers s -> CQInv ix seen -> CQInv (cs_merge s ix) seen.
  Proof.
    intros Hs [Q0 Q0' Q1 Q2 Q3]. constructor; simpl; try assumption.
    - intros E. specialize (Q1 E). apply Forall_forall. intros r Hr. apply in_map_iff in Hr.
      destruct Hr as (r0 & <- & Hr0). rewrite Forall_forall in Q1. specialize (Q1 r0 Hr0). simpl.
      clear - Q1. induction (cbins r0) as [|b t IH]; simpl; [constructor|].
      inversion Q1 as [|? ? Hst Hall]; subst. constructor; [apply IH; exact Hst|].
      apply Forall_forall. intros z Hz. apply in_map_iff in Hz. destruct Hz as (z0 & <- & Hz0). simpl.
      rewrite Forall_forall in Hall. apply Hall. exact Hz0.
    - apply Forall_forall. intros r Hr. apply in_map_iff in Hr. destruct Hr as (r0 & <- & Hr0).
      rewrite Forall_forall in Q2. specialize (Q2 r0 Hr0). simpl. rewrite map_map. simpl. exact Q2.
    - intros R HR. destruct (Q3 R HR) as (A & B & C). unfold zlen. rewrite map_length. split; [exact A|].
      split; [exact B|]. rewrite nth_map_cref by reflexivity.
      destruct C as (b & c & Hb & Hn & Hc & H1 & H2 & H3).
      destruct (Hs (ix_isort fst (cchunks b)) c) as (c' & Hc' & Hl & Hr').
      + apply key_sorted_begin, ix_isort_sorted.
      + apply ix_isort_in. exact Hc.
      + exists (mkCBin (cnum b) (cleft b) (crecords b) (s (ix_isort fst (cchunks b)))), c'. simpl. split.
        * apply in_map_iff. exists b. split; [reflexivity|exact Hb].
        * repeat split; try assumption; lia.
  Qed.

  Hypothesis containment : csi_bin_containment ms dp.
  Hypothesis geo : u32 (ms + u32 (dp * csi_nextBinShift)) < 63.

  Lemma cquery_complete ix seen R rid beg end_ :
    CQInv ix seen -> In R seen -> ix_overlaps R rid beg end_ ->
    0 <= beg < end_ -> end_ <= cs_limit ms dp + 2 ->
    ix_covers (fst (cs_chunks ix rid beg end_)) R.
  Proof.
    intros Q HR (Op & Orid & O1 & O2) Hq Hq2. subst rid.
    destruct (cq_seen _ _ Q R HR) as (A & _ & _).
    unfold cs_chunks.
    destruct (q_rid R <? 0) eqn:E1; [apply Z.ltb_lt in E1; lia|].
    destruct (q_rid R >=? zlen (c_refs ix)) eqn:E2; [lia|]. cbn [orb].
    destruct (cs_query_valid ix ms dp beg end_ (cq_ms _ _ Q) (cq_dp _ _ Q) geo Hq Hq2) as (V1 & V2). rewrite V1, V2. cbn [fst].
    destruct (CQInv_sort _ _ Q) as ([Q0 Q0' Q1 Q2 Q3] & Es).
    set (ix' := cs_sort ix) in *. rewrite Q0, Q0'.
    assert (Hlen : zlen (c_refs ix') = zlen (c_refs ix)).
    { unfold ix', cs_sort. destruct (c_sorted ix); [reflexivity|]. simpl. unfold zlen. rewrite map_length. reflexivity. }
    destruct (Q3 R HR) as (A' & (S1 & S2 & S3 & S4) & (b0 & c0 & Hb & Hn & Hc & H1 & H2 & H3)).
    set (ref := nth (Z.to_nat (q_rid R)) (c_refs ix') cs_empty_ref) in *.
    exists c0. split; [|split; assumption].
    apply ix_isort_in. unfold cs_candidates. apply in_flat_map.
    exists (cs_reg2bin (q_start R) (q_end R) ms dp). split.
    - apply containment; lia.
    - rewrite cs_reg2bin_u32, <- Hn.
      assert (Href : In ref (c_refs ix')) by (apply nth_In; unfold zlen in *; lia).
      specialize (Q1 Es). rewrite Forall_forall in Q1, Q2.
      rewrite (cs_search_found _ b0 (Q1 ref Href) (Q2 ref Href) Hb).
      apply filter_In. split; [exact Hc|]. apply Z.gtb_lt. lia.
  Qed.

  Inductive creach (aux : list Z) (ver : Z) (rs : list irec) : cindex -> Prop :=
  | creach_built ix : cs_fold_add (mkCsi aux ver [] None ms dp false 0) rs = Ok ix -> creach aux ver rs ix
  | creach_sort ix : creach aux ver rs ix -> creach aux ver rs (cs_sort ix)
  | creach_query ix rid beg end_ : creach aux ver rs ix -> creach aux ver rs (snd (cs_chunks ix rid beg end_))
  | creach_merge ix s : ix_strategy_covers s -> creach aux ver rs ix -> creach aux ver rs (cs_merge s ix).

  Theorem csi_complete_reach_gen aux ver rs ix :
    ix_wf_from (cs_limit ms dp) (-1) 0 0 rs -> creach aux ver rs ix ->
    forall rid beg end_ r, 0 <= beg < end_ -> end_ <= cs_limit ms dp + 2 ->
      In r rs -> ix_overlaps r rid beg end_ ->
      ix_covers (fst (cs_chunks ix rid beg end_)) r.
  Proof.
    intros W Hre.
    assert (H : exists seen, CQInv ix seen /\ forall R, In R rs -> q_placed R = true -> In R seen).
    { induction Hre as [ix F|ix _ IH|ix rid beg end_ _ IH|ix s Hs _ IH].
      - assert (I0 : CInv ms dp (mkCsi aux ver [] None ms dp false 0) [] (-1) 0 0).
        { constructor; simpl; try reflexivity; try lia; try (intros ? []); constructor. }
        destruct (cfold_add_inv ms dp rs _ _ _ _ _ I0 W) as (ix' & seen & a & b & c & F' & I & S).
        rewrite F in F'. inversion F'; subst. exists seen. split; [eapply CInv_CQInv; exact I|].
        intros R HR Hp. apply S. right. split; assumption.
      - destruct IH as (seen & Q & S). exists seen. split; [apply CQInv_sort; exact Q|exact S].
      - destruct IH as (seen & Q & S). exists seen. split; [|exact S]. unfold cs_chunks.
        destruct ((rid <? 0) || (rid >=? zlen (c_refs ix))); simpl; [exact Q|].
        destruct ((beg <? 0) || (end_ <=? beg) || (beg >=? cs_max ix)); simpl; [exact Q|apply CQInv_sort; exact Q].
      - destruct IH as (seen & Q & S). exists seen. split; [apply CQInv_merge; assumption|exact S]. }
    destruct H as (seen & Q & S).
    intros rid beg end_ r Hq Hq2 Hr Ho. eapply cquery_complete; eauto.
    apply S; [exact Hr|]. destruct Ho; assumption.
  Qed.
End Lift.
