(** The CSI bin-containment premise of C04 is C16's theorem: the two models of
    csi.reg2bin / csi.reg2bins compute the same values for every geometry that
    fits (depth <= 10, minShift + 3*depth <= 62). *)
From Coq Require Import ZArith Lia List Bool.
From Hts Require Import Base.Prim Base.Bits Generated Model.Index Model.Csi Model.IndexSpec Model.Bins Proofs.Bins
  Proofs.CsiIdx.
From Hts Require Import Proofs.IndexPremises.
Open Scope Z_scope.

Lemma u32_small x : 0 <= x < 2 ^ 32 -> u32 x = x.
Proof. intros H. unfold u32, wrapu. apply Z.mod_small. exact H. Qed.

Lemma s64_small x : - 2 ^ 63 <= x < 2 ^ 63 -> s64 x = x.
Proof. intros H. unfold s64, wraps. change (2 ^ (64 - 1)) with (2 ^ 63). rewrite Z.mod_small by lia. lia. Qed.

Lemma reg2bin_loop_cs n : forall level beg e s t,
  level = Z.of_nat n -> level < 2 ^ 31 ->
  reg2bin_loop n level beg e s t = Ok (cs_reg2bin_go n beg e s t).
Proof.
  induction n as [|n IH]; intros level beg e s t Hl Hb; [reflexivity|].
  cbn [reg2bin_loop cs_reg2bin_go]. destruct (Z.shiftr beg s =? Z.shiftr e s); [reflexivity|].
  assert (Hu : u32 (level - 1) = Z.of_nat n) by (rewrite u32_small by lia; lia).
  rewrite Hu. apply IH; [reflexivity|lia].
Qed.

Lemma reg2bins_loop_cs n : forall level beg e s t acc l,
  0 <= level -> level + Z.of_nat n < 2 ^ 31 -> 3 * (Z.of_nat n - 1) <= s < 2 ^ 32 ->
  reg2bins_loop n level beg e s t acc = Ok l ->
  l = acc ++ cs_reg2bins_go n level beg e s t.
Proof.
  induction n as [|n IH]; intros level beg e s t acc l Hl Hb Hs H.
  - simpl in H. inversion H. simpl. rewrite app_nil_r. reflexivity.
  - cbn [reg2bins_loop cs_reg2bins_go] in *. unfold loop_u32 in H.
    destruct (_ =? 2 ^ 32 - 1); [discriminate|]. cbn [obind] in H.
    rewrite zrange_ix in H. fold (ix_zrange (u32 (t + u32 (Z.shiftr beg s))) (u32 (t + u32 (Z.shiftr e s)))) in H.
    destruct n as [|n'].
    + simpl in H. inversion H. simpl. rewrite app_nil_r. reflexivity.
    + rewrite (u32_small (level + 1)) in H by lia.
      rewrite (u32_small (s - csi_nextBinShift)) in H by (change csi_nextBinShift with 3; lia).
      apply IH in H; [|lia|lia|change csi_nextBinShift with 3; lia].
      rewrite H, <- app_assoc. reflexivity.
Qed.

Lemma cs_limit_pow ms dp : 0 <= ms -> 0 <= dp -> ms + 3 * dp <= 62 -> cs_limit ms dp + 2 = 2 ^ (ms + 3 * dp).
Proof.
  intros. unfold cs_limit. change csi_nextBinShift with 3.
  rewrite (u32_small (dp * 3)) by lia. rewrite u32_small by lia.
  rewrite Z.shiftl_1_l. replace (ms + dp * 3) with (ms + 3 * dp) by lia. lia.
Qed.

Theorem csi_bin_containment_holds ms dp :
  0 <= ms -> 0 <= dp <= 10 -> ms + 3 * dp <= 62 -> csi_bin_containment ms dp.
Proof.
  intros Hms Hdp Hsum b1 e1 b2 e2 H1 H1' H2 H2' Ha Hb.
  rewrite cs_limit_pow in H1', H2' by lia.
  assert (Hpow : 2 ^ (ms + 3 * dp) <= 2 ^ 62) by (apply Z.pow_le_mono_r; lia).
  destruct (csi_bin_in_bins_gen ms dp b1 e1 b2 e2) as (k & l & Hk & Hl & Hin); try lia.
  unfold csi_reg2bin in Hk. rewrite s64_small in Hk by lia.
  rewrite (reg2bin_loop_cs (Z.to_nat dp) dp) in Hk by lia. inversion Hk; subst k. clear Hk.
  unfold csi_reg2bins in Hl. rewrite s64_small in Hl by lia.
  apply reg2bins_loop_cs in Hl.
  - simpl in Hl. subst l. unfold cs_reg2bin, cs_reg2bins.
    replace (Z.to_nat (dp + 1)) with (S (Z.to_nat dp)) by lia.
    assert (Et : csi_t0 dp = u32 (u32 (u32 (Z.shiftl 1 (u32 (dp * csi_nextBinShift))) - 1) / 7)).
    { unfold csi_t0. rewrite Z.quot_div_nonneg; [reflexivity| |lia]. unfold u32, wrapu. apply Z.mod_pos_bound. lia. }
    rewrite <- Et. exact Hin.
  - lia.
  - lia.
  - change csi_nextBinShift with 3. rewrite (u32_small (dp * 3)) by lia. rewrite u32_small by lia. lia.
Qed.

Lemma csi_geo_ok ms dp : 0 <= ms -> 0 <= dp <= 10 -> ms + 3 * dp <= 62 -> u32 (ms + u32 (dp * csi_nextBinShift)) < 63.
Proof. intros. change csi_nextBinShift with 3. rewrite (u32_small (dp * 3)) by lia. rewrite u32_small by lia. lia. Qed.
