(** C15 statistics for CSI and tabix: the counters csi.Index.Add keeps equal the
    true counts (as for the BAI/tabix core), and tabix reports the statistics of
    the record list with dense ids. *)
From Coq Require Import ZArith Lia List Bool.
From Hts Require Import Base.Prim Base.Bits Generated Model.Index Model.Csi Model.Tabix Model.IndexSpec Model.TabixSpec
  Proofs.IndexSort Proofs.IndexStats Proofs.TabixIdx.
Open Scope Z_scope.

Definition cum_of (ix : cindex) : Z := match c_unm ix with Some u => u | None => 0 end.
Definition cs_numrefs (ix : cindex) : Z := zlen (c_refs ix).
Definition cs_refstats (ix : cindex) (id : Z) : option istats :=
  cstats (nth (Z.to_nat id) (c_refs ix) cs_empty_ref).

Lemma nth_cgrow' (rs : list cref) k i :
  nth i (rs ++ repeat cs_empty_ref k) cs_empty_ref = nth i rs cs_empty_ref.
Proof.
  destruct (Nat.lt_ge_cases i (length rs)) as [H|H].
  - apply app_nth1; exact H.
  - rewrite app_nth2 by exact H. rewrite (nth_overflow rs) by exact H.
    destruct (Nat.lt_ge_cases (i - length rs) k) as [H2|H2].
    + apply nth_repeat.
    + apply nth_overflow. rewrite repeat_length. exact H2.
Qed.

Definition cstats_inv (done : list irec) (ix : cindex) : Prop :=
  forall rid, 0 <= rid -> cs_refstats ix rid = ix_true_stats rid done.

(** One successful Add: unplaced counter, number of references, statistics slot. *)
Lemma cs_add_shape done ix r ix' :
  cstats_inv done ix -> cs_add ix r = Ok ix' ->
  c_unm ix' = Some (cum_of ix + if q_placed r then 0 else 1) /\
  zlen (c_refs ix') = (if q_placed r then Z.max (zlen (c_refs ix)) (q_rid r + 1) else zlen (c_refs ix)) /\
  cstats_inv (done ++ [r]) ix'.
Proof.
  intros I H. unfold cs_add, cum_of in *.
  destruct (negb (cs_valid_pos (q_start r) (c_ms ix) (c_dp ix)) || negb (cs_valid_pos (q_end r - 1) (c_ms ix) (c_dp ix)));
    [discriminate|].
  destruct (q_placed r) eqn:Hp; cbn [negb] in H; cbv iota in H.
  2:{ inversion H; subst; cbn [c_unm c_refs]. split; [reflexivity|]. split; [reflexivity|].
      intros rid Hrid. rewrite true_stats_snoc_other by (left; exact Hp). apply (I rid Hrid). }
  destruct (q_rid r <? zlen (c_refs ix) - 1) eqn:E1; [discriminate|]. apply Z.ltb_ge in E1.
  set (refs := if q_rid r >=? zlen (c_refs ix) then cs_grow_refs (c_refs ix) (q_rid r) else c_refs ix) in *.
  assert (Hl : zlen refs = Z.max (zlen (c_refs ix)) (q_rid r + 1)).
  { unfold refs. destruct (q_rid r >=? zlen (c_refs ix)) eqn:E2; [|lia].
    unfold cs_grow_refs. rewrite zlen_app, zlen_repeat. lia. }
  assert (Hnth : forall i, nth i refs cs_empty_ref = nth i (c_refs ix) cs_empty_ref).
  { intros i. unfold refs. destruct (q_rid r >=? zlen (c_refs ix)); [apply nth_cgrow'|reflexivity]. }
  destruct (inb refs (q_rid r)) eqn:Einb; [|discriminate]. unfold chk in H.
  unfold inb in Einb. apply andb_true_iff in Einb. destruct Einb as [Ea Eb]. apply Z.leb_le in Ea. apply Z.ltb_lt in Eb.
  assert (Hgoal : forall bins sorted,
     let ix2 := mkCsi (c_aux ix) (c_ver ix)
                  (upd_nat refs (Z.to_nat (q_rid r))
                     (mkCRef bins (Some (ix_upd_stats (cstats (nth (Z.to_nat (q_rid r)) refs cs_empty_ref)) (q_cb r, q_ce r) (q_mapped r)))))
                  (Some match c_unm ix with Some u => u | None => 0 end) (c_ms ix) (c_dp ix) sorted (q_start r) in
     c_unm ix2 = Some (match c_unm ix with Some u => u | None => 0 end + 0) /\
     zlen (c_refs ix2) = Z.max (zlen (c_refs ix)) (q_rid r + 1) /\ cstats_inv (done ++ [r]) ix2).
  { intros bins sorted. cbn zeta. cbn [c_unm c_refs]. split; [f_equal; lia|].
    split; [unfold zlen; rewrite length_upd_nat; exact Hl|].
    intros rid' Hrid'. unfold cs_refstats. cbn [c_refs].
    destruct (Z.eq_dec rid' (q_rid r)) as [->|Hne].
    - rewrite nth_upd_nat_same by (unfold zlen in Eb; lia). cbn [cstats].
      rewrite true_stats_snoc by auto. rewrite Hnth.
      pose proof (I (q_rid r) Ea) as Iq. unfold cs_refstats in Iq. rewrite Iq. reflexivity.
    - rewrite nth_upd_nat_other by lia. rewrite Hnth.
      rewrite true_stats_snoc_other by (right; congruence). apply (I rid' Hrid'). }
  destruct (cs_upd_bins _ _ _); destruct (q_start r <? _); try discriminate; inversion H; subst; apply Hgoal.
Qed.

Lemma cs_fold_counts rs : forall done ix ix',
  cstats_inv done ix -> cs_fold_add ix rs = Ok ix' ->
  cum_of ix' = cum_of ix + ix_true_unplaced rs /\
  (rs <> [] -> c_unm ix' <> None) /\
  zlen (c_refs ix') = fold_left (fun m r => if q_placed r then Z.max m (q_rid r + 1) else m) rs (zlen (c_refs ix)) /\
  cstats_inv (done ++ rs) ix'.
Proof.
  induction rs as [|r t IH]; intros done ix ix' I H; simpl in H.
  - inversion H; subst. unfold ix_true_unplaced. simpl. rewrite app_nil_r.
    split; [unfold zlen; simpl; lia|]. split; [congruence|]. split; [reflexivity|exact I].
  - destruct (cs_add ix r) as [ix1| | |] eqn:E; simpl in H; try discriminate.
    destruct (cs_add_shape done ix r ix1 I E) as (A1 & A2 & A3).
    destruct (IH _ _ _ A3 H) as (B1 & B2 & B3 & B4).
    split; [|split; [|split]].
    + rewrite B1. unfold cum_of at 1. rewrite A1. unfold ix_true_unplaced. simpl.
      destruct (q_placed r); simpl; unfold zlen; simpl length; lia.
    + intros _. destruct t as [|r2 t2].
      * simpl in H. inversion H; subst. rewrite A1. discriminate.
      * apply B2. discriminate.
    + rewrite B3. simpl. rewrite A2. reflexivity.
    + replace (done ++ r :: t) with ((done ++ [r]) ++ t) by (rewrite <- app_assoc; reflexivity). exact B4.
Qed.

(** CSI: NumRefs, the unplaced count and every ReferenceStats are the true
    values, for every record list csi.Index.Add accepts and every geometry. *)
Theorem csi_stats_true ms dp aux ver rs ix :
  cs_fold_add (mkCsi aux ver [] None ms dp false 0) rs = Ok ix ->
  cs_numrefs ix = ix_true_numrefs rs /\
  (rs <> [] -> c_unm ix = Some (ix_true_unplaced rs)) /\
  (rs = [] -> c_unm ix = None) /\
  forall rid, 0 <= rid -> cs_refstats ix rid = ix_true_stats rid rs.
Proof.
  intros H.
  assert (I0 : cstats_inv [] (mkCsi aux ver [] None ms dp false 0)).
  { intros rid _. unfold cs_refstats. simpl. destruct (Z.to_nat rid); reflexivity. }
  destruct (cs_fold_counts rs [] _ _ I0 H) as (A & B & C & D).
  split; [exact C|]. split; [|split].
  - intros Hne. specialize (B Hne). unfold cum_of in A. simpl in A. destruct (c_unm ix); [f_equal; lia|congruence].
  - intros ->. simpl in H. inversion H; reflexivity.
  - exact D.
Qed.

(** tabix: the statistics are the true statistics of the record list with
    dense reference ids. *)
Theorem tabix_stats_true hdr nrs t :
  tb_fold_add (tb_new hdr) nrs = Ok t ->
  forall ix, ix_fold_add ix_empty (tb_assign [] nrs) = Ok ix ->
  t_idx t = ix /\
  ix_numrefs ix = ix_true_numrefs (tb_assign [] nrs) /\
  (nrs <> [] -> iunm ix = Some (ix_true_unplaced (tb_assign [] nrs))) /\
  forall rid, 0 <= rid -> ix_refstats ix rid = ix_true_stats rid (tb_assign [] nrs).
Proof.
  intros Ft ix F.
  destruct (tb_sim nrs (tb_new hdr) ix eq_refl F) as (t' & Ft' & Hix & _ & _).
  rewrite Ft in Ft'. inversion Ft'; subst t'.
  split; [exact Hix|].
  destruct (stats_counts_true _ _ F) as (A & B & _).
  split; [exact A|]. split.
  - intros Hne. apply B. destruct nrs as [|[nm r] rest]; [congruence|]. simpl. destruct (tb_step [] nm). discriminate.
  - intros rid Hr. apply stats_reference_true; assumption.
Qed.
