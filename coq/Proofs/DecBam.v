(** C11 — proofs about the BAM decoder models (Model/DecBam.v). *)
From Coq Require Import ZArith Lia List Bool.
From Hts Require Import Base.Prim Base.DecBase Generated Model.DecText Model.DecBam Proofs.DecText.
Open Scope Z_scope.

Ltac Zify.zify_post_hook ::= Z.div_mod_to_equations.

(* ------------------------------------------------------------- byte lists *)

Lemma all_bytes_getz l : all_bytes l = true -> forall i, 0 <= i < zlen l -> 0 <= getz l i < 256.
Proof.
  unfold all_bytes, getz, zlen. intros H i Hi.
  rewrite forallb_forall in H.
  assert (In (nth (Z.to_nat i) l 0) l) as Hin by (apply nth_In; lia).
  apply H in Hin. unfold is_byte in Hin. apply andb_true_iff in Hin as [A B].
  apply Z.leb_le in A. apply Z.ltb_lt in B. lia.
Qed.

Lemma all_bytes_skipn n l : all_bytes l = true -> all_bytes (skipn n l) = true.
Proof.
  unfold all_bytes. rewrite !forallb_forall. intros H x Hx. apply H.
  rewrite <- (firstn_skipn n l). apply in_or_app. right. exact Hx.
Qed.

Lemma all_bytes_firstn n l : all_bytes l = true -> all_bytes (firstn n l) = true.
Proof.
  unfold all_bytes. rewrite !forallb_forall. intros H x Hx. apply H.
  rewrite <- (firstn_skipn n l). apply in_or_app. left. exact Hx.
Qed.

Lemma all_bytes_sub l lo hi : all_bytes l = true -> all_bytes (sub l lo hi) = true.
Proof. intros H. unfold sub. apply all_bytes_firstn, all_bytes_skipn, H. Qed.

Lemma le_bytes_nonneg l : all_bytes l = true -> 0 <= le_bytes l.
Proof.
  induction l as [|b t IH]; intros H; [simpl; lia|].
  change (all_bytes (b :: t)) with (is_byte b && all_bytes t) in H.
  apply andb_true_iff in H as [Hb Ht]. unfold is_byte in Hb. apply andb_true_iff in Hb as [A _]. apply Z.leb_le in A.
  specialize (IH Ht). change (le_bytes (b :: t)) with (b + 256 * le_bytes t). lia.
Qed.

Lemma nth_firstn_lt' {A} : forall (n i : nat) (l : list A) d, (i < n)%nat -> nth i (firstn n l) d = nth i l d.
Proof.
  induction n; intros i l d H; [lia|]. destruct l; [destruct i; reflexivity|].
  destruct i; simpl; [reflexivity|apply IHn; lia].
Qed.

Lemma nth_skipn' {A} : forall (n i : nat) (l : list A) d, nth i (skipn n l) d = nth (n + i) l d.
Proof.
  induction n; intros i l d; [reflexivity|]. destruct l; simpl; [destruct i; reflexivity|apply IHn].
Qed.

Lemma getz_sub l lo hi k : 0 <= lo -> lo <= hi -> hi <= zlen l -> 0 <= k < hi - lo -> getz (sub l lo hi) k = getz l (lo + k).
Proof.
  intros H1 H2 H3 H4. unfold sub, getz.
  rewrite nth_firstn_lt' by lia. rewrite nth_skipn'. f_equal. lia.
Qed.

Lemma sub_sub l lo hi a b : 0 <= lo -> lo <= hi -> hi <= zlen l -> 0 <= a -> a <= b -> b <= hi - lo ->
  sub (sub l lo hi) a b = sub l (lo + a) (lo + b).
Proof.
  intros. apply (nth_ext _ _ 0 0).
  - assert (zlen (sub (sub l lo hi) a b) = zlen (sub l (lo + a) (lo + b))) as E.
    { rewrite !zlen_sub; try lia. rewrite zlen_sub; lia. }
    unfold zlen in E. lia.
  - intros n Hn.
    assert (zlen (sub (sub l lo hi) a b) = b - a) as E by (rewrite zlen_sub; try lia; rewrite zlen_sub; lia).
    unfold zlen in E.
    pose proof (getz_sub (sub l lo hi) a b (Z.of_nat n)) as G1. unfold getz in G1. rewrite Nat2Z.id in G1.
    rewrite G1; try lia; [|rewrite zlen_sub; lia].
    pose proof (getz_sub l lo hi (a + Z.of_nat n)) as G2. unfold getz in G2. rewrite G2; try lia.
    pose proof (getz_sub l (lo + a) (lo + b) (Z.of_nat n)) as G3. unfold getz in G3. rewrite Nat2Z.id in G3.
    rewrite G3; try lia. f_equal. lia.
Qed.

(* -------------------------------------------------- facts about the tables *)

Fixpoint zrange (a : Z) (n : nat) : list Z := match n with O => [] | S n' => a :: zrange (a + 1) n' end.

Lemma zrange_in n : forall a x, a <= x < a + Z.of_nat n -> In x (zrange a n).
Proof.
  induction n as [|n IH]; intros a x H; [lia|]. simpl.
  destruct (Z.eq_dec a x); [left; assumption|right]. apply IH. lia.
Qed.

Lemma forall_bytes (P : Z -> bool) : forallb P (zrange 0 256) = true -> forall t, 0 <= t < 256 -> P t = true.
Proof. intros H t Ht. rewrite forallb_forall in H. apply H. apply zrange_in. simpl. lia. Qed.

Definition jump_ok (t : Z) : bool :=
  let j := getz c11_jumps t in
  if 0 <? j then
    (* fixed width values: the width matches what Aux.Value reads for this type *)
    ((j =? 1) && ((t =? 65) || (t =? 99) || (t =? 67)))
    || ((j =? 2) && ((t =? 115) || (t =? 83)))
    || ((j =? 4) && ((t =? 105) || (t =? 73) || (t =? 102)))
  else if j <? 0 then (t =? 90) || (t =? 72) || (t =? 66)
  else true.

Lemma jumps_facts : forall t, 0 <= t < 256 -> jump_ok t = true.
Proof. apply forall_bytes. vm_compute. reflexivity. Qed.

Lemma zlen_jumps : zlen c11_jumps = 256.
Proof. reflexivity. Qed.

(* ------------------------------------------------------------- index_byte *)

Lemma index_byte_bound l c : forall k j, index_byte l c k = Some j -> k <= j < k + zlen l.
Proof.
  induction l as [|x t IH]; intros k j H; simpl in H; [discriminate|].
  rewrite zlen_cons. pose proof (zlen_nonneg t).
  destruct (x =? c); [inversion H; subst; lia|]. apply IH in H. lia.
Qed.

(* ---------------------------------------------------------------- parseAux *)

(** Shape of one field handed out by parseAux, sufficient for every accessor. *)
Definition aux_wf (a : list Z) : Prop :=
  safe (aux_tag a) /\ safe (aux_type a) /\ safe (aux_kind a) /\ safe (aux_value a) /\ safe (aux_string a).

Lemma aux_string_of a : all_bytes a = true -> 3 <= zlen a ->
  safe (aux_value a) -> (getz a 2 = 66 -> 4 <= zlen a) -> aux_wf a.
Proof.
  intros Hb H3 Hv HB.
  assert (safe (aux_tag a)) as Htag.
  { unfold aux_tag. rewrite chk_true by (apply slice_ok_true; lia). exact I. }
  assert (safe (aux_type a)) as Hty.
  { unfold aux_type. rewrite chk_true by (apply inb_true; lia). exact I. }
  assert (safe (aux_kind a)) as Hk.
  { unfold aux_kind. rewrite chk_true by (apply inb_true; lia).
    rewrite chk_true; [exact I|]. apply inb_true. change (zlen c11_auxKind) with 256. apply all_bytes_getz; [exact Hb|lia]. }
  repeat split; try assumption.
  unfold aux_string.
  unfold aux_type in *. rewrite chk_true in * by (apply inb_true; lia). simpl.
  apply safe_bind; [exact Htag|]. intros _ _.
  apply safe_bind; [exact Hk|]. intros _ _.
  apply safe_bind; [exact Hv|]. intros _ _.
  destruct (getz a 2 =? 66) eqn:E; [|exact I]. apply Z.eqb_eq in E.
  rewrite chk_true by (apply inb_true; specialize (HB E); lia). exact I.
Qed.

(** A fixed-width field cut out by parseAux. *)
Lemma fixed_field_wf aux i : all_bytes aux = true -> 0 <= i -> i + 2 < zlen aux ->
  let t := getz aux (i + 2) in let j := getz c11_jumps t in
  0 < j -> i + (j + 3) <= zlen aux -> aux_wf (sub aux i (i + (j + 3))).
Proof.
  intros Hb Hi Hlt t j Hj Hfit.
  assert (0 <= t < 256) as Ht by (apply all_bytes_getz; [exact Hb|lia]).
  pose proof (jumps_facts t Ht) as F. unfold jump_ok in F. fold j in F.
  destruct (0 <? j) eqn:E; [|apply Z.ltb_ge in E; lia].
  set (a := sub aux i (i + (j + 3))).
  assert (zlen a = j + 3) as Hlen by (unfold a; rewrite zlen_sub; lia).
  assert (getz a 2 = t) as H2 by (unfold a; rewrite getz_sub by lia; reflexivity).
  assert (all_bytes a = true) as Hba by (apply all_bytes_sub, Hb).
  apply aux_string_of; try assumption; try lia.
  unfold aux_value. rewrite chk_true by (apply inb_true; lia). rewrite H2.
  apply orb_true_iff in F as [F|F]; [apply orb_true_iff in F as [F|F]|].
    + apply andb_true_iff in F as [Fj Ft]. apply Z.eqb_eq in Fj. rewrite Ft.
      rewrite chk_true by (apply inb_true; lia). exact I.
    + apply andb_true_iff in F as [Fj Ft]. apply Z.eqb_eq in Fj.
      destruct ((t =? 65) || (t =? 99) || (t =? 67)); [rewrite chk_true by (apply inb_true; lia); exact I|].
      rewrite Ft. rewrite chk_true by (apply slice_ok_true; lia). exact I.
    + apply andb_true_iff in F as [Fj Ft]. apply Z.eqb_eq in Fj.
      destruct ((t =? 65) || (t =? 99) || (t =? 67)); [rewrite chk_true by (apply inb_true; lia); exact I|].
      destruct ((t =? 115) || (t =? 83)); [rewrite chk_true by (apply slice_ok_true; lia); exact I|].
      rewrite Ft. rewrite chk_true by (apply slice_ok_true; lia). exact I.
Qed.

(** A zero-terminated field: tag, type and the bytes before the NUL. *)
Lemma zfield_wf aux i j0 : all_bytes aux = true -> 0 <= i -> i + 2 < zlen aux ->
  (getz aux (i + 2) = 90 \/ getz aux (i + 2) = 72) ->
  0 <= j0 -> i + (j0 + 3) <= zlen aux -> aux_wf (sub aux i (i + (j0 + 3))).
Proof.
  intros Hb Hi Hlt Ht Hj Hfit.
  set (a := sub aux i (i + (j0 + 3))).
  assert (zlen a = j0 + 3) as Hlen by (unfold a; rewrite zlen_sub; lia).
  assert (getz a 2 = getz aux (i + 2)) as H2 by (unfold a; rewrite getz_sub by lia; reflexivity).
  apply aux_string_of; try lia; [apply all_bytes_sub, Hb|].
  unfold aux_value. rewrite chk_true by (apply inb_true; lia). rewrite H2.
  destruct Ht as [-> | ->]; simpl; rewrite chk_true by (apply slice_ok_true; lia); exact I.
Qed.

Lemma le_bytes_4_bound l : all_bytes l = true -> zlen l = 4 -> 0 <= le_bytes l < 2 ^ 32.
Proof.
  intros Hb Hl. destruct l as [|a [|b [|c [|d [|e r]]]]]; unfold zlen in Hl; simpl length in Hl; try lia.
  unfold all_bytes in Hb. cbn [forallb] in Hb. rewrite !andb_true_iff in Hb.
  destruct Hb as (Ha & Hb' & Hc & Hd & _). unfold is_byte in *.
  rewrite andb_true_iff, Z.leb_le, Z.ltb_lt in Ha, Hb', Hc, Hd.
  unfold le_bytes. change (2 ^ 32) with 4294967296. lia.
Qed.

(** An array field: header of 8 bytes and length * size bytes of elements. *)
Lemma bfield_wf aux i : all_bytes aux = true -> 0 <= i -> i + 8 <= zlen aux ->
  getz aux (i + 2) = 66 ->
  let st := getz aux (i + 3) in let size := getz c11_jumps st in
  let length := le_bytes (sub aux (i + 4) (i + 8)) in
  0 < size -> i + (length * size + 4 + 4) <= zlen aux -> length * size + 8 < 2 ^ 31 ->
  aux_wf (sub aux i (i + (length * size + 4 + 4))).
Proof.
  intros Hb Hi H8 Ht st size length Hs Hfit Hsmall.
  assert (0 <= length < 2 ^ 32) as Hl.
  { apply le_bytes_4_bound; [apply all_bytes_sub, Hb|rewrite zlen_sub; lia]. }
  set (j := length * size + 4 + 4). assert (8 <= j) as Hj8 by (unfold j; nia).
  set (a := sub aux i (i + j)).
  assert (zlen a = j) as Hlen by (unfold a; rewrite zlen_sub; lia).
  assert (getz a 2 = 66) as H2 by (unfold a; rewrite getz_sub by lia; exact Ht).
  assert (getz a 3 = st) as H3 by (unfold a; rewrite getz_sub by lia; reflexivity).
  assert (sub a 4 8 = sub aux (i + 4) (i + 8)) as Hsub by (unfold a; apply sub_sub; lia).
  assert (0 <= st < 256) as Hst by (apply all_bytes_getz; [exact Hb|lia]).
  pose proof (jumps_facts st Hst) as F. unfold jump_ok in F. fold size in F.
  destruct (0 <? size) eqn:E; [|apply Z.ltb_ge in E; lia].
  apply aux_string_of; try lia; [apply all_bytes_sub, Hb|].
  unfold aux_value. rewrite chk_true by (apply inb_true; lia). rewrite H2. simpl.
  rewrite chk_true by (apply slice_ok_true; lia).
  rewrite chk_true by (apply inb_true; lia). rewrite H3. rewrite Hsub. fold length.
  assert (s32 length = length) as Hs32.
  { unfold s32, wraps. change (2 ^ (32 - 1)) with 2147483648. change (2 ^ 32) with 4294967296.
    change (2 ^ 31) with 2147483648 in Hsmall. rewrite Z.mod_small by nia. lia. }
  rewrite Hs32.
  apply orb_true_iff in F as [F|F]; [apply orb_true_iff in F as [F|F]|];
    apply andb_true_iff in F as [Fj Fst]; apply Z.eqb_eq in Fj.
  - (* one byte elements: 'A' (error value), 'c', 'C' *)
    destruct ((st =? 99) || (st =? 67)) eqn:Ec; [rewrite chk_true by (apply slice_ok_true; lia); exact I|].
    apply orb_false_iff in Ec as [Ec1 Ec2].
    apply orb_true_iff in Fst as [Fst|Fst]; [apply orb_true_iff in Fst as [Fst|Fst]|];
      try (rewrite Fst in *; discriminate).
    apply Z.eqb_eq in Fst. rewrite Fst. simpl. exact I.
  - apply orb_true_iff in Fst as [Fst|Fst]; apply Z.eqb_eq in Fst; rewrite Fst; simpl;
      unfold read_array; unfold make_ok; rewrite chk_true by (apply Z.leb_le; lia);
      rewrite chk_true by (apply slice_ok_true; lia);
      (destruct (zlen a - 8 <? length * 2) eqn:Er; [apply Z.ltb_lt in Er; unfold j in *; nia|exact I]).
  - apply orb_true_iff in Fst as [Fst|Fst]; [apply orb_true_iff in Fst as [Fst|Fst]|]; apply Z.eqb_eq in Fst; rewrite Fst; simpl;
      unfold read_array; unfold make_ok; rewrite chk_true by (apply Z.leb_le; lia);
      rewrite chk_true by (apply slice_ok_true; lia);
      (destruct (zlen a - 8 <? length * 4) eqn:Er; [apply Z.ltb_lt in Er; unfold j in *; nia|exact I]).
Qed.

(** parseAux never panics or loops, and every field it hands out is well formed. *)
Lemma parse_aux_loop_ok fuel : forall aux i,
  all_bytes aux = true -> zlen aux < 2 ^ 31 -> 0 <= i <= zlen aux -> zlen aux - i < Z.of_nat fuel ->
  safe (parse_aux_loop aux i fuel) /\
  forall aa, parse_aux_loop aux i fuel = Ok aa -> Forall aux_wf aa.
Proof.
  induction fuel as [|f IH]; intros aux i Hb Hsz Hi Hf.
  { simpl in Hf. lia. }
  cbn [parse_aux_loop].
  destruct (negb (i + 2 <? zlen aux)) eqn:E0.
  { split; [exact I|]. intros aa H; inversion H; constructor. }
  apply negb_false_iff, Z.ltb_lt in E0.
  rewrite chk_true by (apply inb_true; lia).
  assert (0 <= getz aux (i + 2) < 256) as Ht by (apply all_bytes_getz; [exact Hb|lia]).
  rewrite chk_true by (apply inb_true; rewrite zlen_jumps; lia).
  pose proof (jumps_facts _ Ht) as F. unfold jump_ok in F.
  set (t := getz aux (i + 2)) in *. set (j := getz c11_jumps t) in *.
  rewrite Nat2Z.inj_succ in Hf.
  destruct (0 <? j) eqn:Ej.
  - apply Z.ltb_lt in Ej.
    destruct (zlen aux <? i + (j + 3)) eqn:Efit; [split; [exact I|discriminate]|]. apply Z.ltb_ge in Efit.
    rewrite chk_true by (apply slice_ok_true; lia).
    destruct (IH aux (i + (j + 3)) Hb Hsz ltac:(lia) ltac:(lia)) as [S1 S2].
    split; [apply safe_bind; [exact S1|intros; exact I]|].
    intros aa H. destruct (parse_aux_loop aux (i + (j + 3)) f) as [r| | |]; simpl in H; try discriminate.
    inversion H; subst. constructor; [|apply S2; reflexivity].
    apply fixed_field_wf; assumption || lia.
  - apply Z.ltb_ge in Ej. destruct (j <? 0) eqn:Ej2; [|split; [exact I|discriminate]].
    destruct ((t =? 90) || (t =? 72)) eqn:EZ.
    + rewrite chk_true by (apply slice_ok_true; lia).
      destruct (index_byte (sub aux (i + 3) (zlen aux)) 0 0) as [j0|] eqn:Eidx; [|split; [exact I|discriminate]].
      apply index_byte_bound in Eidx. rewrite zlen_sub in Eidx by lia.
      rewrite chk_true by (apply slice_ok_true; lia).
      destruct (IH aux (i + (j0 + 3) + 1) Hb Hsz ltac:(lia) ltac:(lia)) as [S1 S2].
      split; [apply safe_bind; [exact S1|intros; exact I]|].
      intros aa H. destruct (parse_aux_loop aux (i + (j0 + 3) + 1) f) as [r| | |]; simpl in H; try discriminate.
      inversion H; subst. constructor; [|apply S2; reflexivity].
      apply zfield_wf; try assumption; try lia.
    + destruct (t =? 66) eqn:EB.
      * apply Z.eqb_eq in EB.
        destruct (zlen aux <? i + 8) eqn:E8; [split; [exact I|discriminate]|]. apply Z.ltb_ge in E8.
        rewrite chk_true by (apply inb_true; lia).
        assert (0 <= getz aux (i + 3) < 256) as Hst by (apply all_bytes_getz; [exact Hb|lia]).
        rewrite chk_true by (apply inb_true; rewrite zlen_jumps; lia).
        set (size := getz c11_jumps (getz aux (i + 3))).
        destruct (size <=? 0) eqn:Es; [split; [exact I|discriminate]|]. apply Z.leb_gt in Es.
        rewrite chk_true by (apply slice_ok_true; lia).
        set (length := le_bytes (sub aux (i + 4) (i + 8))).
        destruct ((length * size + 4 + 4 <? 0) || (i + (length * size + 4 + 4) <? 0) || (zlen aux <? i + (length * size + 4 + 4))) eqn:Ec;
          [split; [exact I|discriminate]|].
        apply orb_false_iff in Ec as [Ec Ec3]. apply orb_false_iff in Ec as [Ec1 Ec2].
        apply Z.ltb_ge in Ec1, Ec2, Ec3.
        assert (0 <= length) as Hl0 by (apply le_bytes_nonneg, all_bytes_sub, Hb).
        rewrite chk_true by (apply slice_ok_true; nia).
        destruct (IH aux (i + (length * size + 4 + 4)) Hb Hsz ltac:(nia) ltac:(nia)) as [S1 S2].
        split; [apply safe_bind; [exact S1|intros; exact I]|].
        intros aa H. destruct (parse_aux_loop aux (i + (length * size + 4 + 4)) f) as [r| | |]; simpl in H; try discriminate.
        inversion H; subst. constructor; [|apply S2; reflexivity].
        apply bfield_wf; try assumption; try lia.
      * (* no other type byte has a negative jump *)
        exfalso. simpl in F. discriminate.
Qed.

Lemma bam_parse_aux_ok aux : all_bytes aux = true -> zlen aux < 2 ^ 31 ->
  safe (bam_parse_aux aux) /\ forall aa, bam_parse_aux aux = Ok aa -> Forall aux_wf aa.
Proof.
  intros Hb Hs. unfold bam_parse_aux. destruct (zlen aux =? 0).
  - split; [exact I|]. intros aa H; inversion H; constructor.
  - pose proof (zlen_nonneg aux). apply parse_aux_loop_ok; try assumption; try lia.
    rewrite Nat2Z.inj_succ. unfold zlen. lia.
Qed.

(* --------------------------------------------------------------- the buffer *)

Definition binv (data : list Z) (st : bst) : Prop := 0 <= b_off st <= zlen data.

Lemma unsafe_bytes_ok data st n : all_bytes data = true -> binv data st -> 0 <= n ->
  exists bs st', unsafe_bytes data st n = Ok (bs, st') /\ binv data st' /\ all_bytes bs = true
    /\ zlen bs <= zlen data /\ (b_err st' = false -> b_err st = false /\ zlen bs = n).
Proof.
  intros Hb Hi Hn. unfold unsafe_bytes, binv in *. destruct (b_err st) eqn:Ee.
  - exists [], st. split; [reflexivity|]. split; [exact Hi|]. split; [reflexivity|]. split; [change (zlen (@nil Z)) with 0; lia|]. intros HH; rewrite Ee in HH; discriminate.
  - unfold blen. destruct (zlen data - b_off st <? n) eqn:E.
    + eexists [], _. split; [reflexivity|]. split; [simpl; lia|]. split; [reflexivity|]. split; [change (zlen (@nil Z)) with 0; lia|]. simpl. discriminate.
    + apply Z.ltb_ge in E. rewrite chk_true by (apply slice_ok_true; lia).
      eexists _, _. split; [reflexivity|]. split; [simpl; lia|]. split; [apply all_bytes_sub, Hb|]. split; [rewrite zlen_sub; lia|]. intros _. split; [reflexivity|]. rewrite zlen_sub; lia.
Qed.

Lemma discard_ok data st n : binv data st -> 0 <= n ->
  binv data (discard data st n) /\ (b_err (discard data st n) = false -> b_err st = false).
Proof.
  intros Hi Hn. unfold discard, binv, blen in *. destruct (b_err st) eqn:Ee; [split; [lia|intros HH; rewrite Ee in HH; discriminate]|].
  destruct (zlen data - b_off st <? n) eqn:E; simpl; (split; [|auto]); [lia|apply Z.ltb_ge in E; lia].
Qed.

Lemma read_u8_ok data st : all_bytes data = true -> binv data st ->
  exists v st', read_u8 data st = Ok (v, st') /\ binv data st' /\ 0 <= v < 256 /\ (b_err st' = false -> b_err st = false).
Proof.
  intros Hb Hi. unfold read_u8, binv, blen in *. destruct (b_err st) eqn:Ee.
  - exists 0, st. split; [reflexivity|]. split; [exact Hi|]. split; [lia|]. intros HH; rewrite Ee in HH; discriminate.
  - destruct (zlen data - b_off st <? 1) eqn:E.
    + eexists 0, _. split; [reflexivity|]. split; [simpl; lia|]. split; [lia|]. simpl. discriminate.
    + apply Z.ltb_ge in E. rewrite chk_true by (apply inb_true; lia).
      eexists _, _. split; [reflexivity|]. split; [simpl; lia|]. split; [apply all_bytes_getz; auto; lia|]. auto.
Qed.

Lemma read_le_ok w data st : all_bytes data = true -> binv data st -> 1 <= w ->
  exists v st', read_le w data st = Ok (v, st') /\ binv data st' /\ 0 <= v /\ (b_err st' = false -> b_err st = false).
Proof.
  intros Hb Hi Hw. unfold read_le. destruct (b_err st) eqn:Ee.
  - exists 0, st. split; [reflexivity|]. split; [exact Hi|]. split; [lia|]. intros HH; rewrite Ee in HH; discriminate.
  - destruct (blen data st <? w) eqn:E.
    + eexists 0, _. split; [reflexivity|]. split; [unfold binv in *; simpl; lia|]. split; [lia|]. simpl. discriminate.
    + destruct (unsafe_bytes_ok data st w Hb Hi ltac:(lia)) as (bs & st' & Hu & Hi' & Hbs & _ & Hz).
      rewrite Hu. simpl.
      assert (b_err st' = false) as Hst'.
      { unfold unsafe_bytes in Hu. rewrite Ee, E in Hu. unfold chk in Hu. destruct (slice_ok _ _ _); inversion Hu; reflexivity. }
      destruct (Hz Hst') as [_ Hlen].
      rewrite chk_true by (apply inb_true; lia).
      eexists _, _. split; [reflexivity|]. split; [exact Hi'|]. split; [apply le_bytes_nonneg, Hbs|]. auto.
Qed.

Lemma read_i32_ok data st : all_bytes data = true -> binv data st ->
  exists v st', read_i32 data st = Ok (v, st') /\ binv data st' /\ (b_err st' = false -> b_err st = false).
Proof.
  intros Hb Hi. unfold read_i32.
  destruct (read_le_ok 4 data st Hb Hi ltac:(lia)) as (v & st' & -> & Hi' & _ & Hs). simpl.
  eexists _, _. split; [reflexivity|]. split; [exact Hi'|exact Hs].
Qed.

Lemma cigar_ops_loop_safe cb n : forall i, 0 <= i -> (i + Z.of_nat n) * 4 <= zlen cb -> safe (cigar_ops_loop cb i n).
Proof.
  induction n as [|n IH]; intros i Hi Hn; simpl; [exact I|].
  rewrite Nat2Z.inj_succ in Hn.
  rewrite chk_true by (apply slice_ok_true; lia).
  apply safe_bind; [apply IH; lia|intros; exact I].
Qed.

Lemma read_cigar_ops_safe cb : safe (read_cigar_ops cb).
Proof.
  unfold read_cigar_ops. pose proof (zlen_nonneg cb). apply cigar_ops_loop_safe; [lia|].
  rewrite Z2Nat.id by (apply Z.div_pos; lia). lia.
Qed.

(** What Reader.Read guarantees about a record it returns. *)
Definition rec_wf (r : brec) : Prop :=
  0 <= r_lseq r /\ zlen (r_seq r) = Z.shiftr (r_lseq r) 1 + Z.land (r_lseq r) 1 /\ all_bytes (r_seq r) = true /\ Forall aux_wf (r_aux r).

Lemma bam_record_ok data omit nrefs : all_bytes data = true -> zlen data < 2 ^ 31 ->
  safe (bam_record data omit nrefs) /\ forall r, bam_record data omit nrefs = Ok r -> rec_wf r.
Proof.
  intros Hb Hsz. unfold bam_record.
  assert (binv data {| b_off := 0; b_err := false |}) as I0 by (unfold binv; simpl; pose proof (zlen_nonneg data); lia).
  destruct (read_i32_ok _ _ Hb I0) as (refID & s1 & -> & I1 & K1). cbn [obind].
  destruct (read_i32_ok _ _ Hb I1) as (pos & s2 & -> & I2 & K2). cbn [obind].
  destruct (read_u8_ok _ _ Hb I2) as (nLen & s3 & -> & I3 & HnLen & K3). cbn [obind].
  destruct (read_u8_ok _ _ Hb I3) as (mapq & s4 & -> & I4 & _ & K4). cbn [obind].
  destruct (discard_ok data s4 2 I4 ltac:(lia)) as [I5 K5]. set (s5 := discard data s4 2) in *.
  destruct (read_le_ok 2 _ _ Hb I5 ltac:(lia)) as (nCigar & s6 & E6 & I6 & HnC & K6). unfold read_u16. rewrite E6. cbn [obind].
  destruct (read_le_ok 2 _ _ Hb I6 ltac:(lia)) as (flags & s7 & E7 & I7 & _ & K7). rewrite E7. cbn [obind].
  destruct (read_i32_ok _ _ Hb I7) as (lSeq & s8 & -> & I8 & K8). cbn [obind].
  destruct (read_i32_ok _ _ Hb I8) as (nextRefID & s9 & -> & I9 & K9). cbn [obind].
  destruct (read_i32_ok _ _ Hb I9) as (matePos & s10 & -> & I10 & K10). cbn [obind].
  destruct (read_i32_ok _ _ Hb I10) as (tempLen & s11 & -> & I11 & K11). cbn [obind].
  destruct (nLen <? 1) eqn:EnL; [split; [exact I|discriminate]|]. apply Z.ltb_ge in EnL.
  destruct (unsafe_bytes_ok data s11 (nLen - 1) Hb I11 ltac:(lia)) as (name & s12 & -> & I12 & _ & _ & K12). cbn [obind].
  destruct (discard_ok data s12 1 I12 ltac:(lia)) as [I13 K13]. set (s13 := discard data s12 1) in *.
  destruct (unsafe_bytes_ok data s13 (nCigar * 4) Hb I13 ltac:(lia)) as (cb & s14 & -> & I14 & _ & _ & K14). cbn [obind].
  pose proof (read_cigar_ops_safe cb) as Hcig.
  destruct (read_cigar_ops cb) as [cigar| | |]; try contradiction; [|split; [exact I|discriminate]]. cbn [obind].
  (* the variable part *)
  assert (exists var, (if 2 <=? omit then Ok ([], [], [], s14) else
          if lSeq <? 0 then Err 2 else
          a <- unsafe_bytes data s14 (Z.shiftr lSeq 1 + Z.land lSeq 1) ;; let '(seq, st) := a in
          a <- unsafe_bytes data st lSeq ;; let '(qual, st) := a in
          if 1 <=? omit then Ok (seq, qual, [], st) else
          a <- unsafe_bytes data st (blen data st) ;; let '(auxb, st) := a in
          aux <- bam_parse_aux auxb ;;
          Ok (seq, qual, aux, st)) = var /\ safe var /\
          forall seq qual aux st, var = Ok (seq, qual, aux, st) ->
            b_err st = false ->
            all_bytes seq = true /\ Forall aux_wf aux /\
            ((2 <=? omit) = true -> seq = []) /\
            ((2 <=? omit) = false -> 0 <= lSeq /\ zlen seq = Z.shiftr lSeq 1 + Z.land lSeq 1)) as (var & -> & Hvs & Hvar).
  { eexists; split; [reflexivity|].
    destruct (2 <=? omit) eqn:Eo.
    { split; [exact I|]. intros seq qual aux st H _. inversion H; subst. repeat split; auto; discriminate. }
    destruct (lSeq <? 0) eqn:El; [split; [exact I|discriminate]|]. apply Z.ltb_ge in El.
    assert (0 <= Z.shiftr lSeq 1 + Z.land lSeq 1) as Hn.
    { pose proof (Z.shiftr_nonneg lSeq 1). pose proof (Z.land_nonneg lSeq 1). lia. }
    destruct (unsafe_bytes_ok data s14 _ Hb I14 Hn) as (seq & s15 & -> & I15 & Hbseq & _ & K15). cbn [obind].
    destruct (unsafe_bytes_ok data s15 lSeq Hb I15 El) as (qual & s16 & -> & I16 & _ & _ & K16). cbn [obind].
    destruct (1 <=? omit) eqn:Eo1.
    { split; [exact I|]. intros seq' qual' aux st H He. inversion H; subst.
      destruct (K16 He) as [He15 _]. destruct (K15 He15) as [_ Hl]. repeat split; auto; discriminate. }
    assert (0 <= blen data s16) as Hbl by (unfold blen, binv in *; lia).
    destruct (unsafe_bytes_ok data s16 _ Hb I16 Hbl) as (auxb & s17 & -> & I17 & Hbaux & Hauxle & K17). cbn [obind].
    assert (zlen auxb < 2 ^ 31) as Hauxsz by lia.
    destruct (bam_parse_aux_ok auxb Hbaux Hauxsz) as [Hs Hwf].
    split.
    { apply safe_bind; [exact Hs|intros; exact I]. }
    intros seq' qual' aux st H He.
    destruct (bam_parse_aux auxb) as [aa| | |]; simpl in H; try discriminate. inversion H; subst.
    destruct (K17 He) as [He16 _]. destruct (K16 He16) as [He15 _]. destruct (K15 He15) as [_ Hl].
    repeat split; auto; discriminate. }
  destruct var as [[[[seq qual] aux] st]| | |]; try contradiction; [|split; [exact I|discriminate]]. cbn [obind].
  destruct (b_err st) eqn:Est; [split; [exact I|discriminate]|].
  specialize (Hvar _ _ _ _ eq_refl Est). destruct Hvar as (Hbseq & Hauxwf & Ho2 & Ho).
  assert (forall e x, safe (if negb (x =? -1) then
            if (x <? -1) || (nrefs <=? x) then Err e else chk ((0 <=? x) && (x <? nrefs)) (Ok tt) else @Ok unit tt)) as Hlook.
  { intros e x. destruct (negb (x =? -1)) eqn:E3; [|exact I]. apply negb_true_iff, Z.eqb_neq in E3.
    destruct ((x <? -1) || (nrefs <=? x)) eqn:E; [exact I|].
    apply orb_false_iff in E as [E1 E2]. apply Z.ltb_ge in E1. apply Z.leb_gt in E2.
    rewrite chk_true; [exact I|]. rewrite andb_true_iff, Z.leb_le, Z.ltb_lt. lia. }
  split.
  - apply safe_bind; [apply Hlook|]. intros _ _.
    apply safe_bind; [|intros; exact I].
    destruct (negb (nextRefID =? -1)) eqn:E3; [|exact I].
    destruct (refID =? nextRefID); [exact I|].
    specialize (Hlook 5 nextRefID). rewrite E3 in Hlook. exact Hlook.
  - intros r H.
    destruct (if negb (refID =? -1) then if (refID <? -1) || (nrefs <=? refID) then Err 4 else chk ((0 <=? refID) && (refID <? nrefs)) (Ok tt) else Ok tt) as [[]| | |];
      simpl in H; try discriminate.
    destruct (if negb (nextRefID =? -1) then if refID =? nextRefID then Ok tt else
               if (nextRefID <? -1) || (nrefs <=? nextRefID) then Err 5 else chk ((0 <=? nextRefID) && (nextRefID <? nrefs)) (Ok tt) else Ok tt) as [[]| | |];
      simpl in H; try discriminate.
    inversion H; subst; clear H. unfold rec_wf; simpl.
    destruct (2 <=? omit) eqn:Eo.
    + rewrite (Ho2 eq_refl). repeat split; auto; try lia.
    + destruct (Ho eq_refl) as [H0 Hl]. repeat split; auto.
Qed.

(** Seq.Expand on a sequence of the length the record announces. *)
Lemma expand_loop_safe seq n : forall i, all_bytes seq = true -> 0 <= i ->
  Z.shiftr (i + Z.of_nat n - 1) 1 < zlen seq \/ n = O -> safe (expand_loop seq i n).
Proof.
  induction n as [|n IH]; intros i Hb Hi Hn; simpl; [exact I|].
  destruct Hn as [Hn|Hn]; [|discriminate]. rewrite Nat2Z.inj_succ in Hn.
  assert (0 <= Z.shiftr i 1 < zlen seq) as Hidx.
  { rewrite !Z.shiftr_div_pow2 in * by lia. change (2 ^ 1) with 2 in *. lia. }
  rewrite chk_true by (apply inb_true; lia).
  pose proof (all_bytes_getz seq Hb _ Hidx) as Hd. set (d := getz seq (Z.shiftr i 1)) in *.
  rewrite chk_true.
  - apply IH; [exact Hb|lia|]. destruct n; [right; reflexivity|left]. replace (i + 1 + Z.of_nat (S n) - 1) with (i + Z.succ (Z.of_nat (S n)) - 1) by lia. exact Hn.
  - apply inb_true. change (zlen c11_n16TableRev) with 16.
    destruct (Z.land i 1 =? 0).
    + rewrite Z.shiftr_div_pow2 by lia. change (2 ^ 4) with 16. lia.
    + replace (Z.land d 15) with (Z.land d (Z.ones 4)) by reflexivity. rewrite Z.land_ones by lia. change (2 ^ 4) with 16. lia.
Qed.

Lemma seq_expand_safe lseq seq : all_bytes seq = true -> 0 <= lseq ->
  zlen seq = Z.shiftr lseq 1 + Z.land lseq 1 -> safe (seq_expand lseq seq).
Proof.
  intros Hb H0 Hl. unfold seq_expand, make_ok. rewrite chk_true by (apply Z.leb_le; lia).
  apply expand_loop_safe; [exact Hb|lia|].
  destruct (Z.to_nat lseq) eqn:E; [right; reflexivity|left].
  rewrite <- E. rewrite Z2Nat.id by lia.
  assert (Z.land lseq 1 = lseq mod 2) as Hland.
  { replace (Z.land lseq 1) with (Z.land lseq (Z.ones 1)) by reflexivity. rewrite Z.land_ones by lia. reflexivity. }
  rewrite Hl, Hland. rewrite !Z.shiftr_div_pow2 by lia. change (2 ^ 1) with 2. lia.
Qed.

Lemma all_aux_safe_ok aa : Forall aux_wf aa -> safe (all_aux_safe aa) /\ safe (build_aux aa).
Proof.
  induction 1 as [|a t Ha _ IH]; simpl; [split; exact I|].
  destruct Ha as (H1 & H2 & H3 & H4 & H5). destruct IH as [I1 I2]. split.
  - apply safe_bind; [exact H1|intros _ _]. apply safe_bind; [exact H3|intros _ _].
    apply safe_bind; [exact H4|intros _ _]. apply safe_bind; [exact H5|intros _ _]. exact I1.
  - apply safe_bind; [exact H2|intros _ _; exact I2].
Qed.

Lemma record_accessors_safe r : rec_wf r -> safe (record_accessors r).
Proof.
  intros (H0 & Hl & Hb & Ha). unfold record_accessors.
  apply safe_bind; [apply record_end_safe|intros _ _].
  apply safe_bind; [apply cigar_is_valid_safe|intros _ _].
  apply safe_bind; [apply lengths_loop_safe|intros _ _].
  apply safe_bind; [apply seq_expand_safe; assumption|intros _ _].
  destruct (all_aux_safe_ok _ Ha) as [A1 A2].
  apply safe_bind; [exact A1|intros _ _; exact A2].
Qed.

Lemma bam_record_total_gen data omit nrefs : all_bytes data = true -> zlen data < 2 ^ 31 ->
  safe (bam_record data omit nrefs).
Proof. intros Hb Hs. apply (bam_record_ok data omit nrefs Hb Hs). Qed.

Lemma bam_record_value_safe_gen data omit nrefs r : all_bytes data = true -> zlen data < 2 ^ 31 ->
  bam_record data omit nrefs = Ok r -> safe (record_accessors r).
Proof. intros Hb Hs H. apply record_accessors_safe. apply (bam_record_ok data omit nrefs Hb Hs). exact H. Qed.

(** The state of the code before the fixes, kept as witnesses: a parseAux
    without the length checks hands out a field the accessors panic on.
    (An early NUL inside the tag of a Z field gave a one byte Aux.) *)
Lemma short_aux_panics : is_panic (aux_value [88]) = true /\ is_panic (aux_type [88]) = true.
Proof. split; vm_compute; reflexivity. Qed.
