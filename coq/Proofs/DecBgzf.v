(** C11 — proofs about the BGZF member header model (Model/DecBgzf.v). *)
From Coq Require Import ZArith Lia List Bool.
From Hts Require Import Base.Prim Base.DecBase Generated Model.DecText Model.DecBgzf Proofs.DecText Proofs.DecBam Proofs.DecCram.
Open Scope Z_scope.

(** expectedMemberSize, as translated from the Go source, returns for every
    Extra field and whatever bytes.Index answers: the two index expressions are
    covered by the guard in front of them. *)
Lemma expectedMemberSize_safe (idx : list Z -> list Z -> Z) extra : safe (c11_expectedMemberSize idx extra).
Proof.
  unfold c11_expectedMemberSize. cbv zeta.
  destruct ((idx extra c11_bgzfExtraPrefix <? 0) || (zlen extra <=? idx extra c11_bgzfExtraPrefix + 5)) eqn:E; [exact I|].
  apply orb_false_iff in E as [E1 E2]. apply Z.ltb_ge in E1. apply Z.leb_gt in E2.
  rewrite chk_true by (apply inb_true; lia).
  rewrite chk_true by (apply inb_true; lia). exact I.
Qed.

(** ... and its value is -1 or a size in 1..65536 when Extra holds bytes. *)
Lemma expectedMemberSize_range (idx : list Z -> list Z -> Z) extra v :
  all_bytes extra = true -> c11_expectedMemberSize idx extra = Ok v -> v = -1 \/ 1 <= v <= 65536.
Proof.
  intros Hb. unfold c11_expectedMemberSize. cbv zeta.
  destruct ((idx extra c11_bgzfExtraPrefix <? 0) || (zlen extra <=? idx extra c11_bgzfExtraPrefix + 5)) eqn:E.
  { intros H; inversion H; left; reflexivity. }
  apply orb_false_iff in E as [E1 E2]. apply Z.ltb_ge in E1. apply Z.leb_gt in E2.
  set (i := idx extra c11_bgzfExtraPrefix) in *.
  rewrite chk_true by (apply inb_true; lia).
  rewrite chk_true by (apply inb_true; lia).
  intros H. assert (v = Z.lor (getz extra (i + 4)) (Z.shiftl (getz extra (i + 5)) 8) + 1) as -> by congruence. clear H. right.
  assert (forall k, 0 <= k < zlen extra -> 0 <= getz extra k < 256) as G.
  { intros k Hk. unfold all_bytes in Hb. rewrite forallb_forall in Hb.
    assert (In (getz extra k) extra) as Hin by (unfold getz, zlen in *; apply nth_In; lia).
    apply Hb in Hin. unfold is_byte in Hin. apply andb_true_iff in Hin as [A B].
    apply Z.leb_le in A. apply Z.ltb_lt in B. lia. }
  pose proof (G (i + 4) ltac:(lia)) as G4. pose proof (G (i + 5) ltac:(lia)) as G5.
  set (a := getz extra (i + 4)) in *. set (b := getz extra (i + 5)) in *.
  rewrite Z.shiftl_mul_pow2 by lia. change (2 ^ 8) with 256.
  assert (Z.lor a (b * 256) = a + b * 256) as ->.
  { rewrite <- Z.lxor_lor, <- Z.add_nocarry_lxor; try reflexivity;
    (apply Z.bits_inj'; intros n Hn; rewrite Z.land_spec, Z.bits_0;
     destruct (Z.lt_ge_cases n 8) as [Hlt|Hge];
     [replace (b * 256) with (b * 2 ^ 8) by reflexivity; rewrite Z.mul_pow2_bits_low by assumption; apply andb_false_r
     |destruct (Z.eq_dec a 0) as [->|Hne]; [rewrite Z.bits_0; reflexivity|];
      rewrite (Z.bits_above_log2 a n); [reflexivity|lia|];
      apply Z.lt_le_trans with 8; [|assumption]; apply Z.log2_lt_pow2; [lia|change (2^8) with 256; lia]]). }
  lia.
Qed.

Lemma gz_read_string_safe s : forall i, safe (gz_read_string s i).
Proof.
  induction s as [|c t IH]; intros i; simpl; [exact I|].
  destruct (512 <=? i); [exact I|]. destruct (c =? 0); [exact I|apply IH].
Qed.

Lemma gz_read_string_len s : forall i r, gz_read_string s i = Ok r -> zlen r < zlen s.
Proof.
  induction s as [|c t IH]; intros i r H; simpl in H; [discriminate|].
  rewrite zlen_cons. destruct (512 <=? i); [discriminate|].
  destruct (c =? 0); [inversion H; subst; lia|]. apply IH in H. lia.
Qed.

Lemma gz_extra_ok flg s : all_bytes s = true ->
  safe (gz_extra flg s) /\
  forall e s', gz_extra flg s = Ok (e, s') -> zlen s' <= zlen s /\ all_bytes e = true.
Proof.
  intros Hb. unfold gz_extra. destruct (negb (Z.land flg 4 =? 0)).
  2: { split; [exact I|]. intros e s' H; inversion H; subst. split; [lia|reflexivity]. }
  unfold rd_u. destruct (take 2 s) as [[b s1]|] eqn:E2; cbn [obind]; [|split; [exact I|discriminate]].
  destruct (take_bytes _ _ _ _ Hb E2) as [Hbb Hb1]. apply take_len in E2.
  pose proof (le_bytes_nonneg b Hbb) as Hx.
  unfold make_ok. rewrite chk_true by (apply Z.leb_le; exact Hx).
  destruct (take (le_bytes b) s1) as [[e s2]|] eqn:E3; [|split; [exact I|discriminate]].
  destruct (take_bytes _ _ _ _ Hb1 E3) as [Hbe _]. apply take_len in E3.
  split; [exact I|]. intros e' s' H; inversion H; subst. split; [lia|exact Hbe].
Qed.

Lemma gz_skip_string_ok on s : safe (gz_skip_string on s) /\ forall s', gz_skip_string on s = Ok s' -> zlen s' <= zlen s.
Proof.
  unfold gz_skip_string. destruct on.
  - split; [apply gz_read_string_safe|]. intros s' H. apply gz_read_string_len in H. lia.
  - split; [exact I|]. intros s' H; inversion H; lia.
Qed.

Lemma gz_hcrc_ok on c s : safe (gz_hcrc on c s) /\ forall s', gz_hcrc on c s = Ok s' -> zlen s' <= zlen s.
Proof.
  unfold gz_hcrc. destruct on; [|split; [exact I|intros s' H; inversion H; lia]].
  destruct (take 2 s) as [[x s1]|] eqn:E; [|split; [exact I|discriminate]]. apply take_len in E.
  destruct c; split; try exact I; try discriminate. intros s' H; inversion H; subst; lia.
Qed.

Lemma gz_read_header_ok hcrc s : all_bytes s = true ->
  safe (gz_read_header hcrc s) /\
  forall extra rest, gz_read_header hcrc s = Ok (extra, rest) -> zlen rest + 10 <= zlen s /\ all_bytes extra = true.
Proof.
  intros Hb. unfold gz_read_header. destruct (take 10 s) as [[h s1]|] eqn:E10; [|split; [exact I|discriminate]].
  destruct (take_bytes _ _ _ _ Hb E10) as [_ Hb1]. apply take_len in E10.
  destruct (negb ((getz h 0 =? 31) && (getz h 1 =? 139) && (getz h 2 =? 8))); [split; [exact I|discriminate]|].
  cbv zeta. destruct (gz_extra_ok (getz h 3) s1 Hb1) as [S1 L1].
  destruct (gz_extra (getz h 3) s1) as [[e s2]| | |]; try contradiction; [|split; [exact I|discriminate]]. cbn [obind].
  destruct (L1 e s2 eq_refl) as [Le Hbe].
  destruct (gz_skip_string_ok (negb (Z.land (getz h 3) 8 =? 0)) s2) as [S2 L2].
  destruct (gz_skip_string _ s2) as [s3| | |]; try contradiction; [|split; [exact I|discriminate]]. cbn [obind].
  specialize (L2 s3 eq_refl).
  destruct (gz_skip_string_ok (negb (Z.land (getz h 3) 16 =? 0)) s3) as [S3 L3].
  destruct (gz_skip_string _ s3) as [s4| | |]; try contradiction; [|split; [exact I|discriminate]]. cbn [obind].
  specialize (L3 s4 eq_refl).
  destruct (gz_hcrc_ok (negb (Z.land (getz h 3) 2 =? 0)) hcrc s4) as [S4 L4].
  destruct (gz_hcrc _ hcrc s4) as [s5| | |]; try contradiction; [|split; [exact I|discriminate]]. cbn [obind].
  specialize (L4 s5 eq_refl).
  split; [exact I|]. intros extra rest H; inversion H; subst. split; [lia|exact Hbe].
Qed.

(** decompressor.readMember: gzip header walk, expectedMemberSize, the
    need = blockSize - skipped arithmetic and r.data[:need] never panic, for
    every byte string and both answers of the header CRC check. *)
Lemma bgzf_read_member_total_gen hcrc s : all_bytes s = true -> safe (bgzf_read_member hcrc s).
Proof.
  intros Hb. unfold bgzf_read_member.
  destruct (gz_read_header_ok hcrc s Hb) as [S1 L1].
  destruct (gz_read_header hcrc s) as [[extra rest]| | |]; try contradiction; [|exact I]. cbn [obind].
  destruct (L1 extra rest eq_refl) as [Ls Hbe].
  unfold expected_member_size.
  pose proof (expectedMemberSize_safe bytes_index extra) as S2.
  destruct (c11_expectedMemberSize bytes_index extra) as [bs| | |] eqn:E; try contradiction; [|exact I]. cbn [obind].
  pose proof (expectedMemberSize_range _ _ _ Hbe E) as R.
  destruct (bs <? 0) eqn:E0; [exact I|]. apply Z.ltb_ge in E0.
  destruct (bs - (zlen s - zlen rest) <=? 0) eqn:E1; [exact I|]. apply Z.leb_gt in E1.
  rewrite chk_true.
  - destruct (take _ rest) as [[x y]|]; exact I.
  - unfold maxBlockSize. change bgzf_MaxBlockSize with 65536. rewrite andb_true_iff, !Z.leb_le. lia.
Qed.

(* --------------------------------------------------------------- Reader.Seek *)

(** Seek never reaches block.seek on a block without data: either the guard
    (as translated from the source) sends it to the fetch, or the block has data. *)
Lemma reader_seek_safe st off hit ok sk : safe (snd (reader_seek st off hit ok sk)).
Proof.
  unfold reader_seek, c11_seek_guard.
  destruct (negb (off =? cur_base st) || negb (cur_has st)) eqn:G.
  - destruct hit; [unfold block_seek; simpl; destruct sk; exact I|].
    destruct ok; [unfold block_seek; simpl; destruct sk; exact I|exact I].
  - apply orb_false_iff in G as [_ G]. apply negb_false_iff in G.
    unfold block_seek. rewrite G. simpl. destruct sk; exact I.
Qed.

(** Every history of Seek calls, from every state of the current block (in
    particular after a failed fetch), with every outcome of the cache, the fetch
    and the in-block seek. *)
Lemma seek_history_safe h : forall st, safe (seek_history st h).
Proof.
  induction h as [|[[[off hit] ok] sk] t IH]; intros st; cbn [seek_history]; [exact I|].
  pose proof (reader_seek_safe st off hit ok sk) as S.
  destruct (reader_seek st off hit ok sk) as [st' [u|e|w|]]; simpl in S; try contradiction; apply IH.
Qed.

(** Without the hasData part of the guard the second Seek to a failed block panics. *)
Lemma seek_without_hasdata_guard_panics :
  is_panic (snd (block_seek {| cur_base := 100; cur_has := false |} true)) = true.
Proof. reflexivity. Qed.
