(** C11 — proofs about the CRAM reader models (Model/DecCram.v), ParseAux and the
    binary header reader. The ITF-8 facts come from the C20 development
    (Proofs/Itf8.v), which is about the Gallina translation regenerated from the
    Go source. *)
From Coq Require Import ZArith Lia List Bool.
From Hts Require Import Base.Prim Base.DecBase Generated Model.Itf8Spec Proofs.Itf8 Proofs.Ltf8
  Model.DecText Model.DecBam Model.DecCram Proofs.DecText Proofs.DecBam.
Open Scope Z_scope.

Ltac Zify.zify_post_hook ::= Z.div_mod_to_equations.

(* -------------------------------------------------------------- errorReader *)

Definition er_bytes (r : er) : Prop := all_bytes (e_s r) = true.

Lemma take_bytes n s b s' : all_bytes s = true -> take n s = Some (b, s') -> all_bytes b = true /\ all_bytes s' = true.
Proof.
  unfold take. destruct ((0 <=? n) && (n <=? zlen s)); [|discriminate]. intros Hb H. inversion H; subst.
  split; [apply all_bytes_firstn|apply all_bytes_skipn]; exact Hb.
Qed.

Lemma er_full_props n r : er_bytes r -> 0 <= n ->
  match er_full n r with
  | (Some b, r') => all_bytes b = true /\ zlen b = n /\ er_bytes r' /\ zlen (e_s r') <= zlen (e_s r) - n
  | (None, r') => er_bytes r' /\ zlen (e_s r') <= zlen (e_s r)
  end.
Proof.
  intros Hb Hn. unfold er_full, er_bytes in *. destruct (e_err r).
  - split; [exact Hb|lia].
  - destruct (n =? 0) eqn:E0.
    + apply Z.eqb_eq in E0. subst. repeat split; auto; try reflexivity. lia.
    + destruct (take n (e_s r)) as [[b s']|] eqn:E.
      * destruct (take_bytes _ _ _ _ Hb E) as [A B]. apply take_len in E. simpl. repeat split; auto; lia.
      * simpl. split; [reflexivity|]. change (zlen (@nil Z)) with 0. apply zlen_nonneg.
Qed.

Lemma app_bytes a b : all_bytes a = true -> all_bytes b = true -> all_bytes (a ++ b) = true.
Proof. unfold all_bytes. rewrite forallb_app. intros -> ->. reflexivity. Qed.

(** errorReader.itf8 neither panics nor grows the input; it consumes at least one byte unless the reader is in error. *)
Lemma er_itf8_ok r : er_bytes r ->
  exists v r', er_itf8 r = Ok (v, r') /\ er_bytes r' /\ zlen (e_s r') <= zlen (e_s r)
               /\ (e_err r' = false -> zlen (e_s r') < zlen (e_s r)).
Proof.
  intros Hb. unfold er_itf8.
  pose proof (er_full_props 1 r Hb ltac:(lia)) as P1.
  destruct (er_full 1 r) as [[b0|] r1].
  2: { destruct P1 as [A B]. eexists _, _. split; [reflexivity|]. split; [exact A|]. split; [exact B|]. simpl. discriminate. }
  destruct P1 as (Hb0 & Hl0 & Hb1 & Hlen1).
  destruct (itf8_no_overread_gen b0 Hb0) as (v & n & ok & -> & _ & Hne & _ & _). cbn [obind].
  assert (b0 <> []) as Hnn by (intros ->; change (zlen (@nil Z)) with 0 in Hl0; lia).
  destruct (Hne Hnn) as [Hn _]. pose proof (itf8_spec_n_range (hd 0 b0)) as Hr. rewrite <- Hn in Hr.
  destruct ok.
  { eexists _, _. split; [reflexivity|]. split; [exact Hb1|]. split; [lia|]. intros _. lia. }
  rewrite chk_true by (rewrite andb_true_iff, !Z.leb_le; lia).
  pose proof (er_full_props (n - 1) r1 Hb1 ltac:(lia)) as P2.
  destruct (er_full (n - 1) r1) as [[b|] r2].
  2: { destruct P2 as [A B]. eexists _, _. split; [reflexivity|]. split; [exact A|]. split; [simpl; lia|]. simpl. discriminate. }
  destruct P2 as (Hbb & Hlb & Hb2 & Hlen2).
  rewrite chk_true by (rewrite andb_true_iff, !Z.leb_le; lia).
  destruct (itf8_no_overread_gen (b0 ++ b) (app_bytes _ _ Hb0 Hbb)) as (v2 & n2 & ok2 & -> & _). cbn [obind].
  eexists _, _. split; [reflexivity|]. split; [exact Hb2|]. split; [simpl; lia|]. intros _. simpl. lia.
Qed.

Lemma itf8slice_loop_safe fuel : forall r i n, er_bytes r -> 0 <= i ->
  zlen (e_s r) < Z.of_nat fuel -> safe (itf8slice_loop r i n fuel).
Proof.
  induction fuel as [|f IH]; intros r i n Hb Hi Hf; [pose proof (zlen_nonneg (e_s r)); simpl in Hf; lia|].
  cbn [itf8slice_loop]. destruct (negb (i <? n)) eqn:E; [exact I|]. apply negb_false_iff, Z.ltb_lt in E.
  destruct (er_itf8_ok r Hb) as (v & r1 & -> & Hb1 & Hle & Hlt). cbn [obind].
  destruct (e_err r1) eqn:Ee.
  - rewrite chk_true by (rewrite andb_true_iff, !Z.leb_le; lia). exact I.
  - apply safe_bind; [|intros [vs r2] _; exact I]. apply IH; [exact Hb1|lia|].
    specialize (Hlt eq_refl). rewrite Nat2Z.inj_succ in Hf. lia.
Qed.

(** itf8slice: the count read from the input feeds make; negative counts are an error. *)
Lemma er_itf8slice_total_gen r : er_bytes r -> safe (er_itf8slice r).
Proof.
  intros Hb. unfold er_itf8slice.
  destruct (er_itf8_ok r Hb) as (n & r1 & -> & Hb1 & _ & _). cbn [obind].
  destruct (e_err r1); [exact I|]. destruct (n =? 0); [exact I|].
  destruct (n <? 0) eqn:E; [exact I|]. apply Z.ltb_ge in E.
  unfold make_ok. rewrite chk_true by (apply Z.leb_le; lia).
  apply itf8slice_loop_safe; [exact Hb1|lia|]. rewrite Nat2Z.inj_succ. unfold zlen. lia.
Qed.

(** Block.readFrom *)
Lemma block_read_total_gen crc_ok s : all_bytes s = true -> safe (block_read crc_ok s).
Proof.
  intros Hb. unfold block_read.
  set (r0 := {| e_s := s; e_err := false |}). assert (er_bytes r0) as Hb0 by exact Hb.
  pose proof (er_full_props 2 r0 Hb0 ltac:(lia)) as P.
  destruct (er_full 2 r0) as [b r1].
  assert (er_bytes r1) as Hb1 by (destruct b; [destruct P as (_ & _ & A & _)|destruct P as [A _]]; exact A).
  destruct (er_itf8_ok r1 Hb1) as (v1 & r2 & -> & Hb2 & _ & _). cbn [obind].
  destruct (er_itf8_ok r2 Hb2) as (cs & r3 & -> & Hb3 & _ & _). cbn [obind].
  destruct (er_itf8_ok r3 Hb3) as (rs & r4 & -> & Hb4 & _ & _). cbn [obind].
  destruct ((_ =? cram_rawMethod) && negb (cs =? rs)); [exact I|].
  destruct (cs <? 0) eqn:E; [exact I|]. apply Z.ltb_ge in E.
  unfold make_ok. rewrite chk_true by (apply Z.leb_le; lia).
  destruct (er_full cs r4) as [[data|] r5]; [|exact I].
  destruct (er_full 4 r5) as [[x|] r6]; [|exact I]. destruct crc_ok; exact I.
Qed.

(** errorReader.ltf8, as itf8 with the nine byte buffer (LTF-8 facts: Proofs/Ltf8.v). *)
Lemma er_ltf8_ok r : er_bytes r ->
  exists v r', er_ltf8 r = Ok (v, r') /\ er_bytes r' /\ zlen (e_s r') <= zlen (e_s r).
Proof.
  intros Hb. unfold er_ltf8.
  pose proof (er_full_props 1 r Hb ltac:(lia)) as P1.
  destruct (er_full 1 r) as [[b0|] r1].
  2: { destruct P1 as [A B]. eexists _, _. split; [reflexivity|]. split; [exact A|exact B]. }
  destruct P1 as (Hb0 & Hl0 & Hb1 & Hlen1).
  destruct (ltf8_no_overread_gen b0 Hb0) as (v & n & ok & -> & _ & Hne & _ & _). cbn [obind].
  assert (b0 <> []) as Hnn by (intros ->; change (zlen (@nil Z)) with 0 in Hl0; lia).
  destruct (Hne Hnn) as [Hn _]. pose proof (ltf8_spec_n_range (hd 0 b0)) as Hr. rewrite <- Hn in Hr.
  destruct ok.
  { eexists _, _. split; [reflexivity|]. split; [exact Hb1|lia]. }
  rewrite chk_true by (rewrite andb_true_iff, !Z.leb_le; lia).
  pose proof (er_full_props (n - 1) r1 Hb1 ltac:(lia)) as P2.
  destruct (er_full (n - 1) r1) as [[b|] r2].
  2: { destruct P2 as [A B]. eexists _, _. split; [reflexivity|]. split; [exact A|simpl; lia]. }
  destruct P2 as (Hbb & Hlb & Hb2 & Hlen2).
  rewrite chk_true by (rewrite andb_true_iff, !Z.leb_le; lia).
  destruct (ltf8_no_overread_gen (b0 ++ b) (app_bytes _ _ Hb0 Hbb)) as (v2 & n2 & ok2 & -> & _). cbn [obind].
  eexists _, _. split; [reflexivity|]. split; [exact Hb2|simpl; lia].
Qed.

Ltac step_itf8 r H :=
  let v := fresh "v" in let r' := fresh "r" in let Hb' := fresh "Hb" in
  destruct (er_itf8_ok r H) as (v & r' & -> & Hb' & _ & _); cbn [obind].
Ltac step_ltf8 r H :=
  let v := fresh "v" in let r' := fresh "r" in let Hb' := fresh "Hb" in
  destruct (er_ltf8_ok r H) as (v & r' & -> & Hb' & _); cbn [obind].

(** Container.readFrom, for both answers of the CRC comparison. *)
Lemma container_read_total_gen crc_ok s : all_bytes s = true -> safe (container_read crc_ok s).
Proof.
  intros Hb. unfold container_read.
  set (r0 := {| e_s := s; e_err := false |}). assert (er_bytes r0) as Hb0 by exact Hb.
  pose proof (er_full_props 4 r0 Hb0 ltac:(lia)) as P.
  destruct (er_full 4 r0) as [b r1].
  assert (er_bytes r1) as Hb1 by (destruct b; [destruct P as (_ & _ & A & _)|destruct P as [A _]]; exact A).
  step_itf8 r1 Hb1. step_itf8 r Hb2. step_itf8 r2 Hb3. step_itf8 r3 Hb4.
  step_ltf8 r4 Hb5. step_ltf8 r5 Hb6. step_itf8 r6 Hb7.
  pose proof (er_itf8slice_total_gen r7 Hb8) as Hs.
  destruct (er_itf8slice r7) as [[lm r8]| | |]; try contradiction; [|exact I]. cbn [obind].
  destruct (er_full 4 r8) as [[x|] r9]; [|exact I].
  destruct (negb crc_ok); [exact I|]. destruct (e_err r9); exact I.
Qed.

Lemma itf8slice_loop_bytes fuel : forall r i n vs r', er_bytes r ->
  itf8slice_loop r i n fuel = Ok (vs, r') -> er_bytes r'.
Proof.
  induction fuel as [|f IH]; intros r i n vs r' Hb H; [discriminate|].
  cbn [itf8slice_loop] in H. destruct (negb (i <? n)); [inversion H; subst; exact Hb|].
  destruct (er_itf8_ok r Hb) as (v & r1 & E & Hb1 & _ & _). rewrite E in H. cbn [obind] in H.
  destruct (e_err r1).
  - unfold chk in H. destruct ((0 <=? i) && (i <=? n)); [|discriminate]. inversion H; subst. exact Hb1.
  - destruct (itf8slice_loop r1 (i + 1) n f) as [[vs1 r2]| | |] eqn:E2; cbn [obind] in H; try discriminate.
    inversion H; subst. eapply IH; [exact Hb1|exact E2].
Qed.

Lemma er_itf8slice_bytes r vs r' : er_bytes r -> er_itf8slice r = Ok (vs, r') -> er_bytes r'.
Proof.
  intros Hb H. unfold er_itf8slice in H.
  destruct (er_itf8_ok r Hb) as (n & r1 & E & Hb1 & _ & _). rewrite E in H. cbn [obind] in H.
  destruct (e_err r1); [inversion H; subst; exact Hb1|].
  destruct (n =? 0); [inversion H; subst; exact Hb1|].
  destruct (n <? 0); [inversion H; subst; exact Hb1|].
  unfold chk in H. destruct (make_ok n); [|discriminate].
  eapply itf8slice_loop_bytes; [exact Hb1|exact H].
Qed.

(** Slice.readFrom up to the embedded reference id. *)
Lemma slice_read_total_gen data : all_bytes data = true -> safe (slice_read data).
Proof.
  intros Hb. unfold slice_read.
  set (r0 := {| e_s := data; e_err := false |}). assert (er_bytes r0) as Hb0 by exact Hb.
  step_itf8 r0 Hb0. step_itf8 r Hb1. step_itf8 r1 Hb2. step_itf8 r2 Hb3.
  step_ltf8 r3 Hb4. step_itf8 r4 Hb5.
  pose proof (er_itf8slice_total_gen r5 Hb6) as Hs.
  destruct (er_itf8slice r5) as [[ids r6]| | |] eqn:E; try contradiction; [|exact I]. cbn [obind].
  pose proof (er_itf8slice_bytes _ _ _ Hb6 E) as Hb7.
  step_itf8 r6 Hb7. exact I.
Qed.

(** Block.Value on any block, for any answer of the decompressors and of the
    header text library calls. *)
Lemma block_value_safe_gen unz lib b :
  all_bytes (k_data b) = true -> (forall m d x, unz m d = Some x -> all_bytes x = true) ->
  safe (block_value unz lib b).
Proof.
  intros Hb Hunz. unfold block_value.
  destruct (k_typ b =? cram_fileHeader).
  - apply safe_bind.
    { unfold expand_blockdata. destruct (k_method b =? cram_rawMethod); [exact I|].
      destruct ((k_method b =? cram_gzipMethod) || (k_method b =? cram_bzip2Method) || (k_method b =? cram_lzmaMethod)).
      - destruct (unz _ _); exact I.
      - destruct (k_method b =? cram_ransMethod); exact I. }
    intros d Hd.
    assert (all_bytes d = true) as Hbd.
    { unfold expand_blockdata in Hd. destruct (k_method b =? cram_rawMethod); [inversion Hd; subst; exact Hb|].
      destruct ((k_method b =? cram_gzipMethod) || (k_method b =? cram_bzip2Method) || (k_method b =? cram_lzmaMethod)).
      - destruct (unz (k_method b) (k_data b)) eqn:Eu; [|discriminate]. inversion Hd; subst. eapply Hunz; exact Eu.
      - destruct (k_method b =? cram_ransMethod); discriminate. }
    destruct (zlen d <? 4) eqn:E4; [exact I|]. apply Z.ltb_ge in E4.
    rewrite chk_true by (apply slice_ok_true; lia).
    set (e := le_bytes (sub d 0 4)).
    assert (0 <= e < 2 ^ 32) as He by (apply le_bytes_4_bound; [apply all_bytes_sub, Hbd|rewrite zlen_sub; lia]).
    destruct (zlen d - 4 <? e) eqn:Ee; [exact I|]. apply Z.ltb_ge in Ee.
    rewrite chk_true by (apply slice_ok_true; lia).
    apply unmarshal_header_text_total_gen.
  - destruct (k_typ b =? cram_mappedSliceHeader); [apply slice_read_total_gen, Hb|].
    destruct ((k_method b =? cram_gzipMethod) || (k_method b =? cram_bzip2Method) || (k_method b =? cram_lzmaMethod)); [|exact I].
    apply safe_bind; [|intros; exact I].
    unfold expand_blockdata. destruct (k_method b =? cram_rawMethod); [exact I|].
    destruct ((k_method b =? cram_gzipMethod) || (k_method b =? cram_bzip2Method) || (k_method b =? cram_lzmaMethod)).
    + destruct (unz _ _); exact I.
    + destruct (k_method b =? cram_ransMethod); exact I.
Qed.

(* ------------------------------------------------------------------ ParseAux *)

Lemma b_elems_safe lib st w nf : safe (b_elems lib st w nf).
Proof.
  induction nf as [|s t IH]; simpl; [exact I|].
  destruct (al_elem lib st s); [|exact I]. apply safe_bind; [exact IH|intros; exact I].
Qed.

Lemma new_aux_int_safe t0 t1 v : safe (new_aux_int t0 t1 v).
Proof.
  unfold new_aux_int. destruct (v <? 0).
  - destruct (-128 <=? v); [exact I|]. destruct (-32768 <=? v); [exact I|]. destruct (-2147483648 <=? v); exact I.
  - destruct (v <=? 255); [exact I|]. destruct (v <=? 65535); [exact I|]. destruct (v <=? 4294967295); exact I.
Qed.

(** ParseAux returns a value or an error on every text, whatever strconv answers. *)
Lemma parse_aux_total_gen lib text : safe (parse_aux lib text).
Proof.
  unfold parse_aux. destruct (zlen text <? 5) eqn:E6; [exact I|]. apply Z.ltb_ge in E6.
  rewrite chk_true by (apply inb_true; lia).
  destruct (negb (getz text 2 =? 58)); [exact I|].
  rewrite chk_true by (apply inb_true; lia).
  destruct (negb (getz text 4 =? 58)); [exact I|].
  rewrite chk_true by (apply slice_ok_true; lia).
  rewrite chk_true by (apply inb_true; lia).
  rewrite chk_true by (apply inb_true; lia).
  rewrite chk_true by (apply inb_true; lia).
  set (txt := sub text 5 (zlen text)).
  assert (zlen txt = zlen text - 5) as Ht by (unfold txt; rewrite zlen_sub; lia).
  destruct (getz text 3 =? 65).
  { destruct (negb (zlen txt =? 1)) eqn:E1; [exact I|]. apply negb_false_iff, Z.eqb_eq in E1.
    rewrite chk_true by (apply inb_true; lia). exact I. }
  destruct (getz text 3 =? 105).
  { destruct (al_atoi lib txt); [apply new_aux_int_safe|exact I]. }
  destruct (getz text 3 =? 102).
  { destruct (al_float lib txt); exact I. }
  destruct (getz text 3 =? 90); [exact I|].
  destruct (getz text 3 =? 72).
  { unfold make_ok. rewrite chk_true by (apply Z.leb_le; apply Z.div_pos; lia).
    apply safe_bind; [|intros; exact I]. apply hex_decode_safe; lia. }
  destruct (getz text 3 =? 66); [|exact I].
  destruct (zlen txt =? 0) eqn:Ez; [exact I|]. apply Z.eqb_neq in Ez.
  apply safe_bind.
  { destruct (1 <? zlen txt) eqn:E1; [|exact I]. apply Z.ltb_lt in E1.
    rewrite chk_true by (apply inb_true; lia).
    destruct (negb (getz txt 1 =? 44)); [exact I|].
    rewrite chk_true by (apply slice_ok_true; lia). exact I. }
  intros nf _. rewrite chk_true by (apply inb_true; lia).
  destruct (elem_width (getz txt 0)); [|exact I].
  unfold make_ok. rewrite chk_true by (apply Z.leb_le, zlen_nonneg).
  apply safe_bind; [apply b_elems_safe|intros; exact I].
Qed.

(** Before the fix the B branch indexed txt[1] without a length check; and with
    the minimum length 5 an empty value reaches txt[0], hence the len(txt) == 0 test. *)
Lemma parse_aux_B_short_would_panic : inb [99] 1 = false.
Proof. reflexivity. Qed.

(* ------------------------------------------------------------ binary header *)

Lemma reader_read_len n s b s' : 0 <= n -> reader_read n s = Some (b, s') ->
  zlen b = Z.min n (zlen s) /\ zlen s' = zlen s - zlen b /\ 0 < zlen s.
Proof.
  intros Hn. unfold reader_read. destruct (zlen s =? 0) eqn:E; [discriminate|]. apply Z.eqb_neq in E.
  intros H. inversion H; subst. pose proof (zlen_nonneg s).
  rewrite zlen_firstn, zlen_skipn. rewrite !Z2Nat.id by lia. lia.
Qed.

Lemma ref_records_safe fuel : forall s i n, zlen s < Z.of_nat fuel -> safe (ref_records s i n fuel).
Proof.
  induction fuel as [|f IH]; intros s i n Hf; [pose proof (zlen_nonneg s); simpl in Hf; lia|].
  cbn [ref_records]. destruct (negb (i <? n)); [exact I|]. rewrite Nat2Z.inj_succ in Hf.
  destruct (rd_i32 s) as [[lName s1]| | |] eqn:E1; cbn [obind]; try exact I;
    try (pose proof (rd_i32_safe s) as X; rewrite E1 in X; contradiction).
  apply rd_i32_len in E1.
  destruct (lName <? 1) eqn:EL; [exact I|]. apply Z.ltb_ge in EL.
  unfold make_ok. rewrite chk_true by (apply Z.leb_le; lia).
  destruct (reader_read lName s1) as [[name s2]|] eqn:ER; [|exact I].
  apply reader_read_len in ER; [|lia]. destruct ER as (Hn & Hs2 & Hpos).
  destruct (negb (zlen name =? lName)) eqn:Ek; [exact I|]. apply negb_false_iff, Z.eqb_eq in Ek.
  rewrite chk_true by (apply inb_true; lia).
  destruct (negb (getz name (zlen name - 1) =? 0)); [exact I|].
  rewrite chk_true by (apply slice_ok_true; lia).
  destruct (rd_i32 s2) as [[lRef s3]| | |] eqn:E3; cbn [obind]; try exact I;
    try (pose proof (rd_i32_safe s2) as X; rewrite E3 in X; contradiction).
  apply rd_i32_len in E3.
  apply safe_bind; [|intros [rs s'] _; exact I]. apply IH. lia.
Qed.

(** Header.DecodeBinary returns a value or an error on every byte string. *)
Lemma decode_binary_header_total_gen lib refs_ok s : safe (decode_binary_header lib refs_ok s).
Proof.
  unfold decode_binary_header. destruct (take 4 s) as [[magic s1]|]; [|exact I].
  destruct (negb (zeqb magic bamMagic)); [exact I|].
  apply safe_bind; [apply rd_i32_safe|]. intros [lText s2] _.
  destruct (lText <? 0) eqn:E; [exact I|]. apply Z.ltb_ge in E.
  unfold make_ok. rewrite chk_true by (apply Z.leb_le; lia).
  destruct (reader_read lText s2) as [[text s3]|]; [|exact I].
  destruct (negb (zlen text =? lText)); [exact I|].
  apply safe_bind; [apply unmarshal_header_text_total_gen|]. intros _ _.
  apply safe_bind; [apply rd_i32_safe|]. intros [nRef s4] _.
  destruct (nRef <? 0); [exact I|].
  apply safe_bind; [|intros r _; destruct refs_ok; exact I].
  apply ref_records_safe. rewrite Nat2Z.inj_succ. unfold zlen. lia.
Qed.
