(** C11 — proofs about the index reader models (Model/DecIndex.v): every reader
    returns a value or an error on every byte string, for every count field
    value; the loops terminate because each iteration consumes input. *)
From Coq Require Import ZArith Lia List Bool.
From Hts Require Import Base.Prim Base.DecBase Generated Model.DecText Model.DecIndex Proofs.DecText.
Open Scope Z_scope.

Ltac Zify.zify_post_hook ::= Z.div_mod_to_equations.

(** [okle o s k]: the step is safe and, when it succeeds, leaves at most |s| - k bytes. *)
Definition okle (o : outcome (list Z)) (s : list Z) (k : Z) : Prop :=
  safe o /\ forall s', o = Ok s' -> zlen s' + k <= zlen s.

Lemma okle_weaken o s k k' : okle o s k -> k' <= k -> okle o s k'.
Proof. intros [A B] H. split; [exact A|]. intros s' E. specialize (B s' E). lia. Qed.

Lemma okle_bind o f s k k' :
  okle o s k -> (forall s1, o = Ok s1 -> okle (f s1) s1 k') -> okle (obind o f) s (k + k').
Proof.
  intros [A B] H. destruct o as [s1| | |]; cbn [obind safe] in *; try contradiction.
  - destruct (H s1 eq_refl) as [A1 B1]. split; [exact A1|]. intros s' E. specialize (B1 s' E). specialize (B s1 eq_refl). lia.
  - split; [exact I|discriminate].
Qed.

Lemma okle_err e s k : okle (Err e) s k.
Proof. split; [exact I|discriminate]. Qed.

Lemma okle_ret s : okle (Ok s) s 0.
Proof. split; [exact I|]. intros s' E; inversion E; lia. Qed.

Lemma okle_take n s (f : list Z -> outcome (list Z)) k :
  0 <= n -> (forall b s1, take n s = Some (b, s1) -> okle (f s1) s1 k) ->
  okle (match take n s with None => Err 9 | Some (_, s1) => f s1 end) s (n + k).
Proof.
  intros Hn H. destruct (take n s) as [[b s1]|] eqn:E; [|apply okle_err].
  destruct (H b s1 eq_refl) as [A B]. apply take_len in E. split; [exact A|]. intros s' E'. specialize (B s' E'). lia.
Qed.

(* ------------------------------------------------------------- readChunks *)

Lemma chunks_loop_ok fuel : forall s i n, zlen s < Z.of_nat fuel -> okle (chunks_loop s i n fuel) s 0.
Proof.
  induction fuel as [|f IH]; intros s i n Hf; [pose proof (zlen_nonneg s); simpl in Hf; lia|].
  cbn [chunks_loop]. destruct (negb (i <? n)); [apply okle_ret|].
  apply (okle_weaken _ _ (16 + 0)); [|lia]. apply okle_take; [lia|].
  intros b s1 E. apply take_len in E. apply IH. rewrite Nat2Z.inj_succ in Hf. lia.
Qed.

Lemma read_chunks_ok s n : okle (read_chunks s n) s 0.
Proof.
  unfold read_chunks. destruct (n =? 0); [apply okle_ret|].
  destruct (n <? 0) eqn:E; [apply okle_err|]. apply Z.ltb_ge in E.
  unfold make_ok. rewrite chk_true by (apply Z.leb_le; lia).
  apply chunks_loop_ok. rewrite Nat2Z.inj_succ. unfold zlen. lia.
Qed.

Lemma read_stats_ok s : okle (read_stats s) s 32.
Proof.
  unfold read_stats. apply (okle_weaken _ _ (32 + 0)); [|lia].
  apply (okle_take 32 s (fun s1 => Ok s1) 0); [lia|]. intros; apply okle_ret.
Qed.

(* ---------------------------------------------------------- readIntervals *)

Lemma intervals_loop_ok fuel : forall s i n, 0 <= i -> zlen s < Z.of_nat fuel -> okle (intervals_loop s i n fuel) s 0.
Proof.
  induction fuel as [|f IH]; intros s i n Hi Hf; [pose proof (zlen_nonneg s); simpl in Hf; lia|].
  cbn [intervals_loop]. destruct (negb (i <? n)) eqn:E; [apply okle_ret|].
  apply negb_false_iff, Z.ltb_lt in E.
  rewrite chk_true by (rewrite andb_true_iff, !Z.leb_le; lia).
  apply (okle_weaken _ _ (8 * Z.min (n - i) 512 + 0)); [|lia]. apply okle_take; [lia|].
  intros b s1 E1. apply take_len in E1.
  rewrite chk_true.
  - apply IH; [lia|]. rewrite Nat2Z.inj_succ in Hf. lia.
  - apply orb_true_iff. right. rewrite andb_true_iff, Z.leb_le, Z.ltb_lt. lia.
Qed.

Lemma okle_rd_i32 s (f : Z -> list Z -> outcome (list Z)) k :
  (forall v s1, rd_i32 s = Ok (v, s1) -> okle (f v s1) s1 k) ->
  okle (a <- rd_i32 s ;; let '(v, s1) := a in f v s1) s (4 + k).
Proof.
  intros H. destruct (rd_i32 s) as [[v s1]| | |] eqn:E; cbn [obind].
  - destruct (H v s1 eq_refl) as [A B]. apply rd_i32_len in E. split; [exact A|]. intros s' E'. specialize (B s' E'). lia.
  - apply okle_err.
  - pose proof (rd_i32_safe s) as X. rewrite E in X. contradiction.
  - pose proof (rd_i32_safe s) as X. rewrite E in X. contradiction.
Qed.

Lemma okle_rd_u w s (f : Z -> list Z -> outcome (list Z)) k :
  (forall v s1, rd_u w s = Ok (v, s1) -> okle (f v s1) s1 k) ->
  okle (a <- rd_u w s ;; let '(v, s1) := a in f v s1) s (w + k).
Proof.
  intros H. destruct (rd_u w s) as [[v s1]| | |] eqn:E; cbn [obind].
  - destruct (H v s1 eq_refl) as [A B]. apply rd_u_len in E. split; [exact A|]. intros s' E'. specialize (B s' E'). lia.
  - apply okle_err.
  - pose proof (rd_u_safe w s) as X. rewrite E in X. contradiction.
  - pose proof (rd_u_safe w s) as X. rewrite E in X. contradiction.
Qed.

Lemma read_intervals_ok s : okle (read_intervals s) s 4.
Proof.
  unfold read_intervals. apply (okle_weaken _ _ (4 + 0)); [|lia]. apply okle_rd_i32. intros n s1 _.
  destruct (n =? 0); [apply okle_ret|].
  destruct (n <? 0) eqn:E; [apply okle_err|]. apply Z.ltb_ge in E.
  unfold make_ok. rewrite chk_true by (apply Z.leb_le; lia).
  apply intervals_loop_ok; [lia|]. rewrite Nat2Z.inj_succ. unfold zlen. lia.
Qed.

(* ---------------------------------------------------------------- readBins *)

Lemma bins_loop_ok dummy fuel : forall s i len, 0 <= i -> zlen s < Z.of_nat fuel -> okle (bins_loop dummy s i len fuel) s 0.
Proof.
  induction fuel as [|f IH]; intros s i len Hi Hf; [pose proof (zlen_nonneg s); simpl in Hf; lia|].
  cbn [bins_loop]. destruct (negb (i <? len)) eqn:E; [apply okle_ret|].
  apply negb_false_iff, Z.ltb_lt in E. rewrite Nat2Z.inj_succ in Hf.
  rewrite chk_true by (rewrite andb_true_iff, Z.leb_le, Z.ltb_lt; lia).
  apply (okle_weaken _ _ (4 + (4 + 0))); [|lia]. apply okle_rd_u. intros bin s1 E1. apply rd_u_len in E1.
  apply okle_rd_i32. intros n s2 E2. apply rd_i32_len in E2.
  destruct (bin =? dummy).
  - destruct (negb (n =? 2)); [apply okle_err|].
    apply (okle_weaken _ _ (32 + 0)); [|lia]. apply okle_bind; [apply read_stats_ok|].
    intros s3 E3. destruct (read_stats_ok s2) as [_ B]. specialize (B s3 E3).
    rewrite chk_true by (apply Z.leb_le; lia). apply IH; lia.
  - apply (okle_weaken _ _ (0 + 0)); [|lia]. apply okle_bind; [apply read_chunks_ok|].
    intros s3 E3. destruct (read_chunks_ok s2 n) as [_ B]. specialize (B s3 E3). apply IH; lia.
Qed.

Lemma read_bins_ok s : okle (read_bins s) s 4.
Proof.
  unfold read_bins. apply (okle_weaken _ _ (4 + 0)); [|lia]. apply okle_rd_i32. intros n s1 _.
  destruct (n =? 0); [apply okle_ret|].
  destruct (n <? 0) eqn:E; [apply okle_err|]. apply Z.ltb_ge in E.
  unfold make_ok. rewrite chk_true by (apply Z.leb_le; lia).
  apply bins_loop_ok; [lia|]. rewrite Nat2Z.inj_succ. unfold zlen. lia.
Qed.

(* ------------------------------------------------------------- readIndices *)

Lemma indices_loop_ok fuel : forall s i n, zlen s < Z.of_nat fuel -> okle (indices_loop s i n fuel) s 0.
Proof.
  induction fuel as [|f IH]; intros s i n Hf; [pose proof (zlen_nonneg s); simpl in Hf; lia|].
  cbn [indices_loop]. destruct (negb (i <? n)); [apply okle_ret|]. rewrite Nat2Z.inj_succ in Hf.
  apply (okle_weaken _ _ (4 + (4 + 0))); [|lia]. apply okle_bind; [apply read_bins_ok|].
  intros s1 E1. destruct (read_bins_ok s) as [_ B1]. specialize (B1 s1 E1).
  apply okle_bind; [apply read_intervals_ok|].
  intros s2 E2. destruct (read_intervals_ok s1) as [_ B2]. specialize (B2 s2 E2).
  apply IH. lia.
Qed.

Lemma read_indices_ok s n : okle (read_indices s n) s 0.
Proof.
  unfold read_indices. destruct (n <? 0) eqn:E; [apply okle_err|]. apply Z.ltb_ge in E.
  unfold make_ok. rewrite chk_true by (apply Z.leb_le; lia).
  apply indices_loop_ok. rewrite Nat2Z.inj_succ. unfold zlen. lia.
Qed.

Lemma read_index_safe s n : safe (read_index s n).
Proof.
  unfold read_index. apply safe_bind; [apply read_indices_ok|].
  intros s1 _. destruct ((zlen s1 =? 0) || (8 <=? zlen s1)); exact I.
Qed.

Lemma bam_read_index_total_gen s : safe (bam_read_index s).
Proof.
  unfold bam_read_index. destruct (take 4 s) as [[m s1]|]; [|exact I].
  destruct (negb (zeqb m baiMagic)); [exact I|].
  apply safe_bind; [apply rd_i32_safe|]. intros [n s2] _. apply read_index_safe.
Qed.

(* ------------------------------------------------------------------- tabix *)

Lemma read_tabix_header_safe s : safe (read_tabix_header s).
Proof.
  unfold read_tabix_header. destruct (take 24 s) as [[x s1]|]; [|exact I].
  apply safe_bind; [apply rd_i32_safe|]. intros [n s2] _.
  destruct (n <? 0) eqn:E; [exact I|]. apply Z.ltb_ge in E.
  destruct (n =? 0) eqn:E0; [exact I|]. apply Z.eqb_neq in E0.
  unfold make_ok. rewrite chk_true by (apply Z.leb_le; lia).
  destruct (take n s2) as [[names s3]|] eqn:Et; [|exact I]. apply take_len in Et.
  rewrite chk_true by (apply inb_true; lia).
  destruct (negb (getz names (zlen names - 1) =? 0)); [exact I|].
  rewrite chk_true by (apply slice_ok_true; lia). exact I.
Qed.

Lemma tabix_read_from_total_gen s : safe (tabix_read_from s).
Proof.
  unfold tabix_read_from. destruct (take 4 s) as [[m s1]|]; [|exact I].
  destruct (negb (zeqb m tbiMagic)); [exact I|].
  apply safe_bind; [apply rd_i32_safe|]. intros [n s2] _.
  apply safe_bind; [apply read_tabix_header_safe|]. intros [nn s3] _.
  destruct (negb (nn =? n)); [exact I|]. apply read_index_safe.
Qed.

(** Before the fix a name block of length 0 was indexed at -1. *)
Lemma tabix_empty_names_would_panic : inb (@nil Z) (zlen (@nil Z) - 1) = false.
Proof. reflexivity. Qed.

(* --------------------------------------------------------------------- csi *)

Lemma csi_bins_loop_ok version dummy fuel : forall s i len, 0 <= i -> zlen s < Z.of_nat fuel ->
  okle (csi_bins_loop version dummy s i len fuel) s 0.
Proof.
  induction fuel as [|f IH]; intros s i len Hi Hf; [pose proof (zlen_nonneg s); simpl in Hf; lia|].
  cbn [csi_bins_loop]. destruct (negb (i <? len)) eqn:E; [apply okle_ret|].
  apply negb_false_iff, Z.ltb_lt in E. rewrite Nat2Z.inj_succ in Hf.
  rewrite chk_true by (rewrite andb_true_iff, Z.leb_le, Z.ltb_lt; lia).
  apply (okle_weaken _ _ (4 + (8 + (0 + (4 + 0))))); [|lia].
  apply okle_rd_u. intros bin s1 E1. apply rd_u_len in E1.
  apply okle_rd_u. intros lo s2 E2. apply rd_u_len in E2.
  apply okle_bind.
  { destruct (version =? 2); [|apply okle_ret].
    destruct (rd_u 8 s2) as [[v s3]| | |] eqn:E3; cbn [obind snd].
    - apply rd_u_len in E3. split; [exact I|]. intros s' E'; inversion E'; subst. lia.
    - apply okle_err.
    - pose proof (rd_u_safe 8 s2) as X. rewrite E3 in X. contradiction.
    - pose proof (rd_u_safe 8 s2) as X. rewrite E3 in X. contradiction. }
  intros s3 E3.
  assert (zlen s3 <= zlen s2) as H32.
  { destruct (version =? 2); [|inversion E3; lia].
    destruct (rd_u 8 s2) as [[v s4]| | |] eqn:E4; cbn [obind snd] in E3; try discriminate. inversion E3; subst. apply rd_u_len in E4. lia. }
  apply okle_rd_i32. intros n s4 E4. apply rd_i32_len in E4.
  destruct (bin =? dummy).
  - destruct (negb (n =? 2)); [apply okle_err|].
    apply (okle_weaken _ _ (32 + 0)); [|lia]. apply okle_bind; [apply read_stats_ok|].
    intros s5 E5. destruct (read_stats_ok s4) as [_ B]. specialize (B s5 E5).
    rewrite chk_true by (apply Z.leb_le; lia). apply IH; lia.
  - apply (okle_weaken _ _ (0 + 0)); [|lia]. apply okle_bind; [apply read_chunks_ok|].
    intros s5 E5. destruct (read_chunks_ok s4 n) as [_ B]. specialize (B s5 E5). apply IH; lia.
Qed.

Lemma u32_range x : 0 <= u32 x < 2 ^ 32.
Proof. unfold u32, wrapu. apply Z.mod_pos_bound. lia. Qed.

(** The bin limit fits the signed count: a negative nBins is rejected by the unsigned comparison. *)
Lemma csi_read_bins_ok version binLimit s : 0 <= binLimit < 2 ^ 30 -> okle (csi_read_bins version binLimit s) s 4.
Proof.
  intros Hl. unfold csi_read_bins. apply (okle_weaken _ _ (4 + 0)); [|lia]. apply okle_rd_i32. intros n s1 E1.
  destruct (n =? 0); [apply okle_ret|].
  destruct (u32 (binLimit + 1) <? u32 n) eqn:E; [apply okle_err|]. apply Z.ltb_ge in E.
  assert (u32 (binLimit + 1) = binLimit + 1) as Hbl.
  { unfold u32, wrapu. apply Z.mod_small. change (2 ^ 32) with 4294967296. change (2 ^ 30) with 1073741824 in Hl. lia. }
  rewrite Hbl in E. change (2 ^ 30) with 1073741824 in Hl.
  assert (0 <= n) as Hn.
  { unfold rd_i32 in E1. destruct (take 4 s) as [[b s2]|]; [|discriminate]. inversion E1; subst.
    pose proof (s32_range (le_bytes b)) as R. set (v := s32 (le_bytes b)) in *.
    destruct (Z.lt_ge_cases v 0) as [Hneg|]; [|lia].
    exfalso. unfold u32, wrapu in E. change (2 ^ 32) with 4294967296 in E. change (2 ^ 31) with 2147483648 in *.
    assert (v mod 4294967296 = v + 4294967296) as Hm.
    { symmetry. apply (Z.mod_unique _ _ (-1)); lia. }
    lia. }
  unfold make_ok. rewrite chk_true by (apply Z.leb_le; lia).
  apply csi_bins_loop_ok; [lia|]. rewrite Nat2Z.inj_succ. unfold zlen. lia.
Qed.

Lemma csi_indices_loop_ok version binLimit fuel : 0 <= binLimit < 2 ^ 30 -> forall s i n, zlen s < Z.of_nat fuel ->
  okle (csi_indices_loop version binLimit s i n fuel) s 0.
Proof.
  intros Hl. induction fuel as [|f IH]; intros s i n Hf; [pose proof (zlen_nonneg s); simpl in Hf; lia|].
  cbn [csi_indices_loop]. destruct (negb (i <? n)); [apply okle_ret|]. rewrite Nat2Z.inj_succ in Hf.
  apply (okle_weaken _ _ (4 + 0)); [|lia]. apply okle_bind; [apply csi_read_bins_ok, Hl|].
  intros s1 E1. destruct (csi_read_bins_ok version binLimit s Hl) as [_ B1]. specialize (B1 s1 E1). apply IH. lia.
Qed.

Lemma csi_read_indices_safe version binLimit s : 0 <= binLimit < 2 ^ 30 -> safe (csi_read_indices version binLimit s).
Proof.
  intros Hl. unfold csi_read_indices. apply safe_bind; [apply rd_i32_safe|]. intros [n s1] _.
  destruct (n =? 0); [exact I|]. destruct (n <? 0) eqn:E; [exact I|]. apply Z.ltb_ge in E.
  unfold make_ok. rewrite chk_true by (apply Z.leb_le; lia).
  apply safe_bind; [|intros; exact I].
  apply csi_indices_loop_ok; [exact Hl|]. rewrite Nat2Z.inj_succ. unfold zlen. lia.
Qed.

Lemma csi_read_from_total_gen s : safe (csi_read_from s).
Proof.
  unfold csi_read_from. destruct (take 3 s) as [[m s1]|]; [|exact I].
  destruct (negb (zeqb m csiMagic)); [exact I|].
  apply safe_bind; [apply rd_u_safe|]. intros [version s2] _.
  destruct (negb (version =? 1) && negb (version =? 2)); [exact I|].
  apply safe_bind; [apply rd_u_safe|]. intros [minShift s3] _.
  destruct (s32 minShift <? 0); [exact I|].
  apply safe_bind; [apply rd_u_safe|]. intros [depth s4] _.
  destruct (s32 depth <? 0); [exact I|].
  destruct ((Z.quot 32 csi_nextBinShift <=? depth) || (64 <=? minShift) || (64 <=? u32 (minShift + u32 (depth * csi_nextBinShift)))); [exact I|].
  apply safe_bind; [apply rd_i32_safe|]. intros [n s5] _.
  apply safe_bind.
  { destruct (0 <? n) eqn:E; [|exact I]. apply Z.ltb_lt in E. unfold make_ok. rewrite chk_true by (apply Z.leb_le; lia).
    destruct (take n s5) as [[x y]|]; exact I. }
  intros s6 _.
  apply safe_bind.
  { apply csi_read_indices_safe.
    set (x := u32 (u32 (Z.shiftl 1 (u32 (u32 (depth + 1) * csi_nextBinShift))) - 1)).
    assert (0 <= x < 2 ^ 32) as Hx by apply u32_range.
    assert (0 <= Z.quot x 7 < 2 ^ 30) as Hq.
    { rewrite Z.quot_div_nonneg by lia. change (2 ^ 32) with 4294967296 in Hx. change (2 ^ 30) with 1073741824. lia. }
    unfold u32, wrapu. rewrite Z.mod_small; [exact Hq|]. change (2 ^ 32) with 4294967296. change (2 ^ 30) with 1073741824 in Hq. lia. }
  intros [nref s7] _. destruct ((zlen s7 =? 0) || (8 <=? zlen s7)); exact I.
Qed.

(* --------------------------------------------------------------------- fai *)

Lemma must_atoi_cases conv fields i : 0 <= i < zlen fields ->
  (exists v, must_atoi conv fields i = Ok v) \/ must_atoi conv fields i = Panic 7.
Proof.
  intros H. unfold must_atoi. rewrite chk_true by (apply inb_true; lia).
  destruct (conv _); [left; eauto|right; reflexivity].
Qed.

(** ReadFrom's conversion of one csv record of five fields never lets a panic escape. *)
Lemma fai_record_total_gen conv fields : zlen fields = 5 -> safe (fai_record conv fields).
Proof.
  intros H5. unfold fai_record.
  rewrite chk_true by (apply inb_true; change fai_nameField with 0; lia).
  destruct (must_atoi_cases conv fields fai_lengthField) as [[l ->]| ->]; [change fai_lengthField with 1; lia| |exact I]. cbn [obind].
  destruct (must_atoi_cases conv fields fai_startField) as [[st ->]| ->]; [change fai_startField with 2; lia| |exact I]. cbn [obind].
  destruct (must_atoi_cases conv fields fai_basesField) as [[ba ->]| ->]; [change fai_basesField with 3; lia| |exact I]. cbn [obind].
  destruct (must_atoi_cases conv fields fai_bytesField) as [[by_ ->]| ->]; [change fai_bytesField with 4; lia| |exact I]. cbn [obind].
  destruct (l <? 0); [exact I|]. destruct (st <? 0); [exact I|].
  destruct ((ba <? 0) || ((ba =? 0) && negb (l =? 0))) eqn:E1; [exact I|].
  destruct (by_ <? ba) eqn:E2; [exact I|]. apply Z.ltb_ge in E2.
  apply orb_false_iff in E1 as [E1 _]. apply Z.ltb_ge in E1.
  destruct (negb (ba =? 0)) eqn:E3; cbn [obind].
  - apply negb_true_iff, Z.eqb_neq in E3.
    destruct (maxInt64 - ba <? st); [exact I|].
    rewrite chk_true by reflexivity.
    rewrite chk_true by (apply negb_true_iff, Z.eqb_neq; lia).
    destruct (Z.quot (maxInt64 - ba - st) by_ <? Z.quot l ba); exact I.
  - exact I.
Qed.

(** A line of any shape: the field count is checked before the conversion. *)
Lemma fai_line_total_gen conv text : safe (fai_line conv text).
Proof.
  unfold fai_line. destruct (negb (zlen (split_on 9 text) =? 5)) eqn:E; [exact I|].
  apply negb_false_iff, Z.eqb_eq in E. apply fai_record_total_gen. exact E.
Qed.

Lemma recover_ok {A} (o : outcome A) r : recover_parse_error o = Ok r -> o = Ok r.
Proof.
  intros H. destruct o as [a|e|w|]; try exact H; try discriminate.
  unfold recover_parse_error in H.
  destruct w as [|p|p]; try discriminate.
  repeat (match type of H with context [match ?q with _ => _ end] => destruct q; try discriminate end).
Qed.

(** Position on an accepted record never divides by zero: every in-range
    position of a record ReadFrom returned has a line geometry. *)
Lemma fai_position_value_safe_gen conv fields r p :
  zlen fields = 5 -> fai_record conv fields = Ok r -> 0 <= p < f_len r -> safe (fai_position r p).
Proof.
  intros H5 H Hp. unfold fai_record in H. apply recover_ok in H.
  rewrite chk_true in H by (apply inb_true; change fai_nameField with 0; lia).
  destruct (must_atoi_cases conv fields fai_lengthField) as [[l E]|E]; [change fai_lengthField with 1; lia| |]; rewrite E in H; cbn [obind] in H; [|discriminate].
  destruct (must_atoi_cases conv fields fai_startField) as [[st E']|E']; [change fai_startField with 2; lia| |]; rewrite E' in H; cbn [obind] in H; [|discriminate].
  destruct (must_atoi_cases conv fields fai_basesField) as [[ba E'']|E'']; [change fai_basesField with 3; lia| |]; rewrite E'' in H; cbn [obind] in H; [|discriminate].
  destruct (must_atoi_cases conv fields fai_bytesField) as [[by_ E''']|E''']; [change fai_bytesField with 4; lia| |]; rewrite E''' in H; cbn [obind] in H; [|discriminate].
  destruct (l <? 0) eqn:El; [discriminate|]. destruct (st <? 0); [discriminate|].
  destruct ((ba <? 0) || ((ba =? 0) && negb (l =? 0))) eqn:E1; [discriminate|].
  destruct (by_ <? ba); [discriminate|].
  assert (f_len r = l /\ f_bases r = ba) as [Hl Hb].
  { destruct (negb (ba =? 0)); cbn [obind] in H.
    - destruct (maxInt64 - ba <? st); [discriminate|].
      unfold chk in H. cbv iota in H. destruct (negb (by_ =? 0)); [|discriminate].
      destruct (Z.quot (maxInt64 - ba - st) by_ <? Z.quot l ba); [discriminate|]. cbn [obind] in H. inversion H; subst; simpl; auto.
    - inversion H; subst; simpl; auto. }
  unfold fai_position. rewrite Hl, Hb in *.
  destruct ((p <? 0) || (l <=? p)) eqn:Ep.
  { apply orb_true_iff in Ep as [Ep|Ep]; [apply Z.ltb_lt in Ep|apply Z.leb_le in Ep]; lia. }
  apply orb_false_iff in E1 as [E1a E1b]. apply Z.ltb_ge in E1a.
  rewrite chk_true; [exact I|]. apply negb_true_iff, Z.eqb_neq. intros ->.
  simpl in E1b. apply negb_false_iff, Z.eqb_eq in E1b. lia.
Qed.
