(** C11 — proofs about the query side of the indexes (Model/DecQuery.v). *)
From Coq Require Import ZArith Lia List Bool.
From Hts Require Import Base.Prim Base.DecBase Generated Model.DecQuery.
Open Scope Z_scope.

Lemma u32_small x : 0 <= x < 2 ^ 32 -> u32 x = x.
Proof. intros H. unfold u32, wrapu. apply Z.mod_small. exact H. Qed.

Lemma chk_true_q {A} (c : bool) (k : outcome A) : c = true -> chk c k = k.
Proof. intros ->. reflexivity. Qed.

Lemma u32_loop_safe b e : e <> 2 ^ 32 - 1 -> safe (u32_loop b e).
Proof. intros H. unfold u32_loop. destruct (e =? 2 ^ 32 - 1) eqn:E; [apply Z.eqb_eq in E; contradiction|exact I]. Qed.

(* ------------------------------------------------------------- BAI / tabix *)

Lemma bai_level_bound off sh e' : 1 <= off <= 4681 -> 14 <= sh <= 26 -> -1 <= e' < 2 ^ 29 ->
  u32 (off + u32 (Z.shiftr e' sh)) <> 2 ^ 32 - 1.
Proof.
  intros Ho Hs He. change (2 ^ 32 - 1) with 4294967295. change (2 ^ 29) with 536870912 in He.
  destruct (Z.eq_dec e' (-1)) as [->|Hne].
  - assert (Z.shiftr (-1) sh = -1) as -> by (rewrite Z.shiftr_div_pow2 by lia; apply Z.div_unique with (r := 2 ^ sh - 1);
      [left; split; [pose proof (Z.pow_pos_nonneg 2 sh); lia|lia]|lia]).
    change (u32 (-1)) with 4294967295.
    unfold u32, wrapu. change (2 ^ 32) with 4294967296.
    replace (off + 4294967295) with (off - 1 + 1 * 4294967296) by lia. rewrite Z.mod_add by lia.
    rewrite Z.mod_small by lia. lia.
  - assert (0 <= Z.shiftr e' sh <= 32768) as Hq.
    { rewrite Z.shiftr_div_pow2 by lia. split; [apply Z.div_pos; [lia|apply Z.pow_pos_nonneg; lia]|].
      assert (2 ^ 14 <= 2 ^ sh) by (apply Z.pow_le_mono_r; lia). change (2 ^ 14) with 16384 in *.
      apply Z.div_le_upper_bound; [lia|]. nia. }
    rewrite (u32_small (Z.shiftr e' sh)) by (change (2 ^ 32) with 4294967296; lia).
    rewrite u32_small by (change (2 ^ 32) with 4294967296; lia). lia.
Qed.

Lemma overlapping_levels_safe beg e' : -1 <= e' < 2 ^ 29 -> safe (overlapping_levels beg e' bai_levels).
Proof.
  intros He. unfold bai_levels. cbn [overlapping_levels].
  repeat (apply safe_bind; [apply u32_loop_safe, bai_level_bound; [vm_compute; split; discriminate|vm_compute; split; discriminate|exact He]|intros ? _]);
  repeat (apply safe_bind; [exact I|intros ? _]); exact I.
Qed.

(** internal.Index.Chunks handles every query interval: it is rejected, or the
    tile index is inside Intervals and the bin enumeration terminates. *)
Lemma bai_chunks_query_total_gen nintv beg end_ : 0 <= nintv -> safe (bai_chunks_query nintv beg end_).
Proof.
  intros Hn. unfold bai_chunks_query.
  destruct ((beg <? 0) || (end_ <? beg)) eqn:E; [exact I|].
  apply orb_false_iff in E as [E1 E2]. apply Z.ltb_ge in E1, E2.
  change internal_TileWidth with 16384. change (2 ^ internal_indexWordBits) with 536870912.
  destruct (nintv <=? Z.quot beg 16384) eqn:E3; [exact I|]. apply Z.leb_gt in E3.
  assert (0 <= Z.quot beg 16384) by (apply Z.quot_pos; lia).
  rewrite chk_true_q by (rewrite andb_true_iff, !Z.leb_le; lia).
  apply overlapping_levels_safe. change (2 ^ 29) with 536870912.
  destruct (536870912 <? end_) eqn:E4; [lia|]. apply Z.ltb_ge in E4. lia.
Qed.
