(** C11 — proofs about the query side of the indexes (Model/DecQuery.v). *)
From Coq Require Import ZArith Lia List Bool.
From Hts Require Import Base.Prim Base.DecBase Generated Model.DecQuery.
Open Scope Z_scope.
Set Default Timeout 60.

Lemma u32_small x : 0 <= x < 2 ^ 32 -> u32 x = x.
Proof. intros H. unfold u32, wrapu. apply Z.mod_small. exact H. Qed.

Lemma chk_true_q {A} (c : bool) (k : outcome A) : c = true -> chk c k = k.
Proof. intros ->. reflexivity. Qed.

Lemma u32_loop_safe b e : e <> 2 ^ 32 - 1 -> safe (u32_loop b e).
Proof. intros H. unfold u32_loop. destruct (e =? 2 ^ 32 - 1) eqn:E; [apply Z.eqb_eq in E; contradiction|exact I]. Qed.

(* ------------------------------------------------------------- BAI / tabix *)

Lemma bai_level_bound off sh e' : 1 <= off <= 4681 -> 14 <= sh <= 26 -> -1 <= e' < 2 ^ 29 ->
  u32 (off + u32 (Z.shiftr e' sh)) <> 2 ^ 32 - 1.
Proof.
  intros Ho Hs He. change (2 ^ 32 - 1) with 4294967295. change (2 ^ 29) with 536870912 in He.
  destruct (Z.eq_dec e' (-1)) as [->|Hne].
  - assert (Z.shiftr (-1) sh = -1) as ->.
    { rewrite Z.shiftr_div_pow2 by lia. pose proof (Z.pow_pos_nonneg 2 sh ltac:(lia) ltac:(lia)) as Hp.
      symmetry. apply (Z.div_unique_pos (-1) (2 ^ sh) (-1) (2 ^ sh - 1)); lia. }
    change (u32 (-1)) with 4294967295.
    unfold u32, wrapu. change (2 ^ 32) with 4294967296.
    replace (off + 4294967295) with (off - 1 + 1 * 4294967296) by lia. rewrite Z.mod_add by lia.
    rewrite Z.mod_small by lia. lia.
  - assert (0 <= Z.shiftr e' sh <= 32768) as Hq.
    { rewrite Z.shiftr_div_pow2 by lia. split; [apply Z.div_pos; [lia|apply Z.pow_pos_nonneg; lia]|].
      assert (2 ^ 14 <= 2 ^ sh) by (apply Z.pow_le_mono_r; lia). change (2 ^ 14) with 16384 in *.
      apply Z.div_le_upper_bound; [lia|]. nia. }
    rewrite (u32_small (Z.shiftr e' sh)) by (change (2 ^ 32) with 4294967296; lia).
    rewrite u32_small by (change (2 ^ 32) with 4294967296; lia). lia.
Qed.

Lemma overlapping_levels_safe_gen beg e' ls : -1 <= e' < 2 ^ 29 ->
  Forall (fun p => 1 <= fst p <= 4681 /\ 14 <= snd p <= 26) ls -> safe (overlapping_levels beg e' ls).
Proof.
  intros He. induction 1 as [|[off sh] t [Ho Hs] _ IH]; cbn [overlapping_levels]; [exact I|].
  apply safe_bind; [apply u32_loop_safe; apply bai_level_bound; assumption|intros k _].
  apply safe_bind; [exact IH|intros; exact I].
Qed.

Lemma bai_levels_ok : Forall (fun p => 1 <= fst p <= 4681 /\ 14 <= snd p <= 26) bai_levels.
Proof. unfold bai_levels. repeat constructor; cbv; discriminate. Qed.

Lemma overlapping_levels_safe beg e' : -1 <= e' < 2 ^ 29 -> safe (overlapping_levels beg e' bai_levels).
Proof. intros He. apply overlapping_levels_safe_gen; [exact He|exact bai_levels_ok]. Qed.

(** internal.Index.Chunks handles every query interval: it is rejected, or the
    tile index is inside Intervals and the bin enumeration terminates. *)
Lemma bai_chunks_query_total_gen nintv beg end_ : 0 <= nintv -> safe (bai_chunks_query nintv beg end_).
Proof.
  intros Hn. unfold bai_chunks_query.
  destruct ((beg <? 0) || (end_ <? beg)) eqn:E; [exact I|].
  apply orb_false_iff in E as [E1 E2]. apply Z.ltb_ge in E1, E2.
  change internal_TileWidth with 16384. change (2 ^ internal_indexWordBits) with 536870912.
  destruct (nintv <=? Z.quot beg 16384) eqn:E3; [exact I|]. apply Z.leb_gt in E3.
  assert (0 <= Z.quot beg 16384) by (apply Z.quot_pos; lia).
  rewrite chk_true_q by (rewrite andb_true_iff, !Z.leb_le; lia).
  apply overlapping_levels_safe. change (2 ^ 29) with 536870912.
  destruct (536870912 <? end_) eqn:E4; [lia|]. apply Z.ltb_ge in E4. lia.
Qed.

(* --------------------------------------------------------------------- CSI *)

(** Levels of reg2bins: at level l the shift is minShift + 3(depth-l) and the
    offset t satisfies 7t + 1 = 8^l; the interval end is below 2^(minShift+3depth). *)
Lemma reg2bins_levels_safe ms depth beg e' : 0 <= ms -> 0 <= depth <= 9 -> ms + 3 * depth <= 63 ->
  0 <= beg -> 0 <= e' < 2 ^ (ms + 3 * depth) ->
  forall n level s t, Z.of_nat n + level = depth + 1 -> 0 <= level ->
    (n <> O -> s = ms + 3 * (depth - level) /\ 7 * t + 1 = 2 ^ (3 * level)) ->
    safe (reg2bins_levels beg e' s t level n).
Proof.
  intros Hms Hd Hsh Hb He. induction n as [|n IH]; intros level s t Hn Hl Hinv; [exact I|].
  cbn [reg2bins_levels]. destruct (Hinv ltac:(discriminate)) as [Hs Ht].
  rewrite Nat2Z.inj_succ in Hn.
  assert (0 <= 3 * level <= 27) as H3 by lia.
  assert (0 < 2 ^ (3 * level) <= 2 ^ 27) as Hp.
  { split; [apply Z.pow_pos_nonneg; lia|apply Z.pow_le_mono_r; lia]. }
  change (2 ^ 27) with 134217728 in Hp.
  assert (0 <= Z.shiftr e' s < 2 ^ (3 * level)) as Hq.
  { rewrite Z.shiftr_div_pow2 by lia. assert (0 < 2 ^ s) by (apply Z.pow_pos_nonneg; lia).
    split; [apply Z.div_pos; lia|]. apply Z.div_lt_upper_bound; [lia|].
    rewrite <- Z.pow_add_r by lia. replace (s + 3 * level) with (ms + 3 * depth) by lia. lia. }
  apply safe_bind.
  { apply u32_loop_safe.
    rewrite (u32_small (Z.shiftr e' s)) by (change (2 ^ 32) with 4294967296; lia).
    rewrite u32_small by (change (2 ^ 32) with 4294967296; lia).
    change (2 ^ 32 - 1) with 4294967295. lia. }
  intros k _. apply safe_bind; [|intros; exact I].
  apply IH; [lia|lia|]. intros Hn0.
  assert (level + 1 <= depth) as Hlev by (destruct n; [contradiction|rewrite Nat2Z.inj_succ in Hn; lia]).
  change csi_nextBinShift with 3.
  assert (0 <= s - 3) by lia.
  rewrite (u32_small (s - 3)) by (change (2 ^ 32) with 4294967296; lia).
  rewrite (u32_small (level * 3)) by (change (2 ^ 32) with 4294967296; lia).
  rewrite Z.shiftl_mul_pow2 by lia. rewrite Z.mul_1_l.
  replace (level * 3) with (3 * level) by lia.
  rewrite (u32_small (2 ^ (3 * level))) by (change (2 ^ 32) with 4294967296; lia).
  rewrite u32_small by (change (2 ^ 32) with 4294967296; lia).
  split; [lia|]. replace (3 * (level + 1)) with (3 * level + 3) by lia.
  rewrite Z.pow_add_r by lia. change (2 ^ 3) with 8. lia.
Qed.

(** csi.Index.Chunks handles every query interval on every geometry that
    csi.ReadFrom accepts (depth <= 9, minShift + 3 depth < 64): it is answered
    with nil or the bin enumeration terminates. *)
Lemma csi_chunks_query_total_gen ms depth beg end_ :
  0 <= ms -> 0 <= depth <= 9 -> ms + 3 * depth <= 63 -> safe (csi_chunks_query ms depth beg end_).
Proof.
  intros Hms Hd Hsh. unfold csi_chunks_query. change csi_nextBinShift with 3.
  rewrite (u32_small (depth * 3)) by (change (2 ^ 32) with 4294967296; lia).
  rewrite (u32_small (ms + depth * 3)) by (change (2 ^ 32) with 4294967296; lia).
  set (sh := ms + depth * 3).
  set (max := if sh <? 63 then Z.shiftl 1 sh else 2 ^ 63 - 1).
  assert (0 < max <= 2 ^ (ms + 3 * depth)) as Hmax.
  { unfold max. replace (ms + 3 * depth) with sh by (unfold sh; lia).
    destruct (sh <? 63) eqn:E.
    - rewrite Z.shiftl_mul_pow2 by (unfold sh; lia). rewrite Z.mul_1_l. split; [apply Z.pow_pos_nonneg; unfold sh; lia|lia].
    - apply Z.ltb_ge in E. assert (sh = 63) as -> by (unfold sh in *; lia). split; [reflexivity|]. change (2 ^ 63) with 9223372036854775808. lia. }
  destruct ((beg <? 0) || (end_ <=? beg) || (max <=? beg)) eqn:E; [exact I|].
  apply orb_false_iff in E as [E E3]. apply orb_false_iff in E as [E1 E2].
  apply Z.ltb_ge in E1. apply Z.leb_gt in E2, E3.
  unfold reg2bins. change csi_nextBinShift with 3.
  rewrite (u32_small (depth * 3)) by (change (2 ^ 32) with 4294967296; lia).
  rewrite (u32_small (ms + depth * 3)) by (change (2 ^ 32) with 4294967296; lia).
  apply (reg2bins_levels_safe ms depth); try lia.
  all: try (destruct (max <? end_) eqn:E4; [lia|apply Z.ltb_ge in E4; lia]).
  all: try (rewrite Nat2Z.inj_add, Z2Nat.id by lia; simpl; lia).
  all: try (intros _; split; [lia|reflexivity]).
Qed.

(** The unvalidated enumeration does not terminate on an empty interval ending at
    0 (the defect that was repaired): uint32(-1 >> s) makes the level 0 bound 2^32-1. *)
Lemma reg2bins_empty_query_stuck : reg2bins 0 0 14 5 = Stuck.
Proof. vm_compute. reflexivity. Qed.
