(** C11 — proofs: value safety of ParseAux results, Record.UnmarshalSAM as a
    whole, the BAM reader top level, fai.NewIndex (model of C19, Model/Fai.v). *)
From Coq Require Import ZArith Lia List Bool.
From Hts Require Import Base.Prim Base.DecBase Generated Model.DecText Model.DecBam Model.DecSam Model.Fai
  Proofs.DecText Proofs.DecBam Proofs.DecCram.
Open Scope Z_scope.

Ltac Zify.zify_post_hook ::= Z.div_mod_to_equations.

(* ------------------------------------------------------------ byte helpers *)

Lemma is_byte_iff x : is_byte x = true <-> 0 <= x < 256.
Proof. unfold is_byte. rewrite andb_true_iff, Z.leb_le, Z.ltb_lt. tauto. Qed.

Lemma all_bytes_cons_iff x l : all_bytes (x :: l) = true <-> (0 <= x < 256 /\ all_bytes l = true).
Proof. change (all_bytes (x :: l)) with (is_byte x && all_bytes l). rewrite andb_true_iff, is_byte_iff. tauto. Qed.

Lemma all_bytes_app_iff a b : all_bytes (a ++ b) = true <-> (all_bytes a = true /\ all_bytes b = true).
Proof. unfold all_bytes. rewrite forallb_app, andb_true_iff. tauto. Qed.

Lemma le_enc_bytes w : forall v, all_bytes (le_enc w v) = true.
Proof.
  induction w as [|w IH]; intros v; [reflexivity|]. cbn [le_enc]. apply all_bytes_cons_iff. split; [|apply IH].
  apply Z.mod_pos_bound. lia.
Qed.

Lemma le_enc_len w : forall v, zlen (le_enc w v) = Z.of_nat w.
Proof. induction w as [|w IH]; intros v; [reflexivity|]. cbn [le_enc]. rewrite zlen_cons, IH. lia. Qed.

Lemma le_bytes_le_enc w : forall v, 0 <= v < 256 ^ Z.of_nat w -> le_bytes (le_enc w v) = v.
Proof.
  induction w as [|w IH]; intros v Hv.
  - simpl in *. lia.
  - cbn [le_enc]. change (le_bytes (v mod 256 :: le_enc w (v / 256))) with (v mod 256 + 256 * le_bytes (le_enc w (v / 256))).
    rewrite Nat2Z.inj_succ, Z.pow_succ_r in Hv by lia.
    rewrite IH; [lia|]. split; [apply Z.div_pos; lia|]. apply Z.div_lt_upper_bound; lia.
Qed.

Lemma hex_decode_bytes fuel : forall d i src r, hex_decode d i src fuel = Ok r -> all_bytes r = true.
Proof.
  induction fuel as [|f IH]; intros d i src r H; destruct src as [|p [|q rest]]; simpl in H; try discriminate;
    [inversion H; reflexivity|].
  destruct (hexval p) as [a|] eqn:Ea; [|discriminate]. destruct (hexval q) as [b|] eqn:Eb; [|discriminate].
  unfold chk in H. destruct ((0 <=? i) && (i <? d)); [|discriminate].
  destruct (hex_decode d (i + 1) rest f) as [r'| | |] eqn:E; cbn [obind] in H; try discriminate.
  inversion H; subst. apply all_bytes_cons_iff. split; [|eapply IH; exact E].
  assert (forall c v, hexval c = Some v -> 0 <= v < 16) as HV.
  { intros c v. unfold hexval.
    destruct ((48 <=? c) && (c <=? 57)) eqn:E1; [apply andb_true_iff in E1 as [A B]; apply Z.leb_le in A, B; intros X; inversion X; lia|].
    destruct ((97 <=? c) && (c <=? 102)) eqn:E2; [apply andb_true_iff in E2 as [A B]; apply Z.leb_le in A, B; intros X; inversion X; lia|].
    destruct ((65 <=? c) && (c <=? 70)) eqn:E3; [apply andb_true_iff in E3 as [A B]; apply Z.leb_le in A, B; intros X; inversion X; lia|discriminate]. }
  pose proof (HV _ _ Ea). pose proof (HV _ _ Eb). lia.
Qed.

Lemma b_elems_props lib st w nf : forall es, b_elems lib st w nf = Ok es ->
  all_bytes es = true /\ zlen es = Z.of_nat w * zlen nf.
Proof.
  induction nf as [|s t IH]; intros es H; simpl in H.
  - inversion H; subst. split; [reflexivity|]. change (zlen (@nil (list Z))) with 0. change (zlen (@nil Z)) with 0. lia.
  - destruct (al_elem lib st s) as [v|]; [|discriminate].
    destruct (b_elems lib st w t) as [r| | |]; cbn [obind] in H; try discriminate. inversion H; subst.
    destruct (IH r eq_refl) as [A B]. split.
    + apply all_bytes_app_iff. split; [apply le_enc_bytes|exact A].
    + rewrite zlen_app, le_enc_len, B, zlen_cons. lia.
Qed.

Lemma zlen_split_on sep l : 1 <= zlen (DecText.split_on sep l) <= zlen l + 1.
Proof.
  induction l as [|x t IH]; [cbn; lia|]. cbn [DecText.split_on]. rewrite (zlen_cons x t).
  destruct (x =? sep); [rewrite zlen_cons; lia|].
  destruct (DecText.split_on sep t) as [|h r] eqn:E; [change (zlen (@nil (list Z))) with 0 in IH; lia|].
  rewrite zlen_cons in *. lia.
Qed.

(* ----------------------------------------------- ParseAux: value safety *)

Ltac byte_list :=
  repeat (apply all_bytes_cons_iff; split; [try lia; try (apply Z.mod_pos_bound; lia)|]); try reflexivity.

(** Every Aux that ParseAux returns is accepted by Tag, Type, Kind, Value and
    String (hence by MarshalSAM and buildAux / bam.Writer.Write), for every
    answer of strconv. *)
Lemma parse_aux_value_safe_gen lib text a :
  all_bytes text = true -> zlen text < 2 ^ 31 -> parse_aux lib text = Ok a -> aux_wf a.
Proof.
  intros Hb Hsz H. unfold parse_aux in H.
  destruct (zlen text <? 5) eqn:E5; [discriminate|]. apply Z.ltb_ge in E5.
  rewrite chk_true in H by (apply inb_true; lia).
  destruct (negb (getz text 2 =? 58)); [discriminate|].
  rewrite chk_true in H by (apply inb_true; lia).
  destruct (negb (getz text 4 =? 58)); [discriminate|].
  rewrite chk_true in H by (apply slice_ok_true; lia).
  rewrite chk_true in H by (apply inb_true; lia).
  rewrite chk_true in H by (apply inb_true; lia).
  rewrite chk_true in H by (apply inb_true; lia).
  set (txt := sub text 5 (zlen text)) in *.
  assert (zlen txt = zlen text - 5) as Ht by (unfold txt; rewrite zlen_sub; lia).
  assert (all_bytes txt = true) as Hbt by (apply all_bytes_sub, Hb).
  pose proof (all_bytes_getz text Hb 0 ltac:(lia)) as B0. pose proof (all_bytes_getz text Hb 1 ltac:(lia)) as B1.
  set (t0 := getz text 0) in *. set (t1 := getz text 1) in *.
  destruct (getz text 3 =? 65).
  { (* A *)
    destruct (negb (zlen txt =? 1)) eqn:E1; [discriminate|]. apply negb_false_iff, Z.eqb_eq in E1.
    rewrite chk_true in H by (apply inb_true; lia). inversion H; subst; clear H.
    pose proof (all_bytes_getz txt Hbt 0 ltac:(lia)) as Bc. set (c := getz txt 0) in *.
    apply aux_string_of; [byte_list|cbn; lia|vm_compute; exact I|cbn; intros; lia]. }
  destruct (getz text 3 =? 105).
  { (* i *)
    destruct (al_atoi lib txt) as [v|]; [|discriminate]. unfold new_aux_int in H.
    destruct (v <? 0) eqn:Ev.
    - destruct (-128 <=? v).
      { inversion H; subst. apply aux_string_of; [byte_list; unfold u8, wrapu; apply Z.mod_pos_bound; lia|cbn; lia| |cbn; intros; lia].
        generalize (u8 v). intros. vm_compute. exact I. }
      destruct (-32768 <=? v).
      { inversion H; subst. cbn [le_enc app]. generalize (u16 v mod 256) (u16 v / 256 mod 256) (Z.mod_pos_bound (u16 v) 256 ltac:(lia)) (Z.mod_pos_bound (u16 v / 256) 256 ltac:(lia)).
        intros x y Hx Hy. apply aux_string_of; [byte_list|cbn; lia|vm_compute; exact I|cbn; intros; lia]. }
      destruct (-2147483648 <=? v); [|discriminate].
      inversion H; subst. cbn [le_enc app].
      generalize (u32 v mod 256) (u32 v / 256 mod 256) (u32 v / 256 / 256 mod 256) (u32 v / 256 / 256 / 256 mod 256)
        (Z.mod_pos_bound (u32 v) 256 ltac:(lia)) (Z.mod_pos_bound (u32 v / 256) 256 ltac:(lia))
        (Z.mod_pos_bound (u32 v / 256 / 256) 256 ltac:(lia)) (Z.mod_pos_bound (u32 v / 256 / 256 / 256) 256 ltac:(lia)).
      intros x y z w Hx Hy Hz Hw. apply aux_string_of; [byte_list|cbn; lia|vm_compute; exact I|cbn; intros; lia].
    - apply Z.ltb_ge in Ev. destruct (v <=? 255) eqn:E255.
      { apply Z.leb_le in E255. inversion H; subst. apply aux_string_of; [byte_list|cbn; lia|vm_compute; exact I|cbn; intros; lia]. }
      destruct (v <=? 65535).
      { inversion H; subst. cbn [le_enc app]. generalize (v mod 256) (v / 256 mod 256) (Z.mod_pos_bound v 256 ltac:(lia)) (Z.mod_pos_bound (v / 256) 256 ltac:(lia)).
        intros x y Hx Hy. apply aux_string_of; [byte_list|cbn; lia|vm_compute; exact I|cbn; intros; lia]. }
      destruct (v <=? 4294967295); [|discriminate].
      inversion H; subst. cbn [le_enc app].
      generalize (v mod 256) (v / 256 mod 256) (v / 256 / 256 mod 256) (v / 256 / 256 / 256 mod 256)
        (Z.mod_pos_bound v 256 ltac:(lia)) (Z.mod_pos_bound (v / 256) 256 ltac:(lia))
        (Z.mod_pos_bound (v / 256 / 256) 256 ltac:(lia)) (Z.mod_pos_bound (v / 256 / 256 / 256) 256 ltac:(lia)).
      intros x y z w Hx Hy Hz Hw. apply aux_string_of; [byte_list|cbn; lia|vm_compute; exact I|cbn; intros; lia]. }
  destruct (getz text 3 =? 102).
  { (* f *)
    destruct (al_float lib txt) as [v|]; [|discriminate]. inversion H; subst. cbn [le_enc app].
    generalize (v mod 256) (v / 256 mod 256) (v / 256 / 256 mod 256) (v / 256 / 256 / 256 mod 256)
      (Z.mod_pos_bound v 256 ltac:(lia)) (Z.mod_pos_bound (v / 256) 256 ltac:(lia))
      (Z.mod_pos_bound (v / 256 / 256) 256 ltac:(lia)) (Z.mod_pos_bound (v / 256 / 256 / 256) 256 ltac:(lia)).
    intros x y z w Hx Hy Hz Hw. apply aux_string_of; [byte_list|cbn; lia|vm_compute; exact I|cbn; intros; lia]. }
  assert (forall ty rest, (ty = 90 \/ ty = 72) -> all_bytes rest = true -> aux_wf ([t0; t1; ty] ++ rest)) as HZ.
  { intros ty rest Hty Hr. pose proof (zlen_nonneg rest) as Hn.
    assert (zlen ([t0; t1; ty] ++ rest) = 3 + zlen rest) as Hl by (rewrite zlen_app; reflexivity).
    assert (getz ([t0; t1; ty] ++ rest) 2 = ty) as H2 by reflexivity.
    apply aux_string_of; [apply all_bytes_app_iff; split; [byte_list; destruct Hty; lia|exact Hr]|lia| |rewrite H2; destruct Hty; lia].
    set (az := [t0; t1; ty] ++ rest) in *.
    unfold aux_value. rewrite chk_true by (apply inb_true; lia). rewrite H2.
    destruct Hty as [-> | ->]; cbn [Z.eqb Pos.eqb orb]; rewrite chk_true by (apply slice_ok_true; lia); exact I. }
  destruct (getz text 3 =? 90).
  { inversion H; subst. apply HZ; [left; reflexivity|exact Hbt]. }
  destruct (getz text 3 =? 72).
  { unfold chk in H. destruct (make_ok (zlen txt / 2)); [|discriminate].
    destruct (hex_decode (zlen txt / 2) 0 txt (S (length txt))) as [b| | |] eqn:Eh; cbn [obind] in H; try discriminate.
    inversion H; subst. apply HZ; [right; reflexivity|eapply hex_decode_bytes; exact Eh]. }
  destruct (getz text 3 =? 66); [|discriminate].
  (* B *)
  destruct (zlen txt =? 0) eqn:Ez; [discriminate|]. apply Z.eqb_neq in Ez.
  destruct (if 1 <? zlen txt then chk (inb txt 1) (if negb (getz txt 1 =? 44) then Err 1 else chk (slice_ok txt 2 (zlen txt)) (Ok (DecText.split_on 44 (sub txt 2 (zlen txt))))) else Ok []) as [nf| | |] eqn:Enf;
    cbn [obind] in H; try discriminate.
  assert (0 <= zlen nf < 2 ^ 31) as Hnf.
  { destruct (1 <? zlen txt) eqn:E1.
    - apply Z.ltb_lt in E1. rewrite chk_true in Enf by (apply inb_true; lia).
      destruct (negb (getz txt 1 =? 44)); [discriminate|].
      rewrite chk_true in Enf by (apply slice_ok_true; lia). inversion Enf; subst.
      pose proof (zlen_split_on 44 (sub txt 2 (zlen txt))) as Hs. rewrite zlen_sub in Hs by lia. lia.
    - inversion Enf; subst. change (zlen (@nil (list Z))) with 0. change (2^31) with 2147483648. lia. }
  rewrite chk_true in H by (apply inb_true; lia).
  pose proof (all_bytes_getz txt Hbt 0 ltac:(lia)) as Bst. set (st := getz txt 0) in *.
  destruct (elem_width st) as [w|] eqn:Ew; [|discriminate].
  unfold make_ok in H. rewrite chk_true in H by (apply Z.leb_le; lia).
  destruct (b_elems lib st w nf) as [es| | |] eqn:Ees; cbn [obind] in H; try discriminate.
  inversion H; subst; clear H.
  destruct (b_elems_props _ _ _ _ _ Ees) as [Hbes Hles].
  set (n := zlen nf) in *.
  cbn [le_enc app].
  assert (le_bytes [n mod 256; (n / 256) mod 256; (n / 256 / 256) mod 256; (n / 256 / 256 / 256) mod 256] = n) as Hval.
  { unfold le_bytes. change (2 ^ 31) with 2147483648 in Hnf. lia. }
  pose proof (Z.mod_pos_bound n 256 ltac:(lia)) as A0. pose proof (Z.mod_pos_bound (n / 256) 256 ltac:(lia)) as A1.
  pose proof (Z.mod_pos_bound (n / 256 / 256) 256 ltac:(lia)) as A2. pose proof (Z.mod_pos_bound (n / 256 / 256 / 256) 256 ltac:(lia)) as A3.
  set (h0 := n mod 256) in *. set (h1 := (n / 256) mod 256) in *. set (h2 := (n / 256 / 256) mod 256) in *. set (h3 := (n / 256 / 256 / 256) mod 256) in *.
  set (a := t0 :: t1 :: 66 :: st :: h0 :: h1 :: h2 :: h3 :: es).
  assert (zlen a = 8 + zlen es) as Hla by (unfold a; rewrite !zlen_cons; lia).
  pose proof (zlen_nonneg es) as Hes0.
  assert (all_bytes a = true) as Hba by (unfold a; byte_list; exact Hbes).
  apply aux_string_of; [exact Hba|lia| |intros; lia].
  unfold aux_value. rewrite chk_true by (apply inb_true; lia).
  change (getz a 2) with 66. cbn [Z.eqb Pos.eqb orb].
  rewrite chk_true by (apply slice_ok_true; lia).
  rewrite chk_true by (apply inb_true; lia).
  change (getz a 3) with st.
  change (sub a 4 8) with [h0; h1; h2; h3]. rewrite Hval.
  assert (s32 n = n) as Hs32.
  { unfold s32, wraps. change (2 ^ (32 - 1)) with 2147483648. change (2 ^ 32) with 4294967296. change (2^31) with 2147483648 in Hnf.
    rewrite Z.mod_small by lia. lia. }
  rewrite Hs32.
  unfold elem_width in Ew.
  destruct ((st =? 99) || (st =? 67)) eqn:E1.
  { rewrite chk_true by (apply slice_ok_true; lia). exact I. }
  destruct ((st =? 115) || (st =? 83)) eqn:E2.
  { inversion Ew; subst w. unfold read_array, make_ok. rewrite chk_true by (apply Z.leb_le; lia).
    rewrite chk_true by (apply slice_ok_true; lia).
    destruct (zlen a - 8 <? n * 2) eqn:Er; [apply Z.ltb_lt in Er; lia|exact I]. }
  destruct ((st =? 105) || (st =? 73) || (st =? 102)) eqn:E3; [|discriminate].
  inversion Ew; subst w. unfold read_array, make_ok. rewrite chk_true by (apply Z.leb_le; lia).
  rewrite chk_true by (apply slice_ok_true; lia).
  destruct (zlen a - 8 <? n * 4) eqn:Er; [apply Z.ltb_lt in Er; lia|exact I].
Qed.

(* ----------------------------------------------------- Record.UnmarshalSAM *)

Lemma split_on_props sep l : all_bytes l = true ->
  forall x, In x (DecText.split_on sep l) -> all_bytes x = true /\ zlen x <= zlen l.
Proof.
  induction l as [|c t IH]; intros Hb x Hx.
  - cbn in Hx. destruct Hx as [<-|[]]. split; [reflexivity|lia].
  - apply all_bytes_cons_iff in Hb as [Hc Ht]. specialize (IH Ht). cbn [DecText.split_on] in Hx. rewrite zlen_cons.
    destruct (c =? sep).
    + destruct Hx as [<-|Hx]; [split; [reflexivity|change (zlen (@nil Z)) with 0; pose proof (zlen_nonneg t); lia]|].
      destruct (IH x Hx). split; [assumption|lia].
    + destruct (DecText.split_on sep t) as [|h r] eqn:E.
      * destruct Hx as [<-|[]]. split; [apply all_bytes_cons_iff; split; [lia|reflexivity]|rewrite zlen_cons; change (zlen (@nil Z)) with 0; pose proof (zlen_nonneg t); lia].
      * destruct Hx as [<-|Hx].
        -- destruct (IH h (or_introl eq_refl)) as [A B]. split; [apply all_bytes_cons_iff; split; assumption|rewrite zlen_cons; lia].
        -- destruct (IH x (or_intror Hx)). split; [assumption|lia].
Qed.

Lemma contract_loop_safe n s : forall i, all_bytes s = true -> 0 <= i ->
  Z.shiftr (i + zlen s) 1 <= n -> safe (contract_loop n i s).
Proof.
  induction s as [|b t IH]; intros i Hb Hi Hn; [exact I|]. cbn [contract_loop].
  apply all_bytes_cons_iff in Hb as [Hbb Hbt]. rewrite zlen_cons in Hn. pose proof (zlen_nonneg t).
  rewrite chk_true by (apply inb_true; change (zlen sam_n16Table) with 256; lia).
  apply safe_bind.
  - destruct (Z.land i 1 =? 0) eqn:E; [exact I|]. apply Z.eqb_neq in E.
    rewrite chk_true; [exact I|]. rewrite andb_true_iff, Z.leb_le, Z.ltb_lt.
    rewrite !Z.shiftr_div_pow2 in * by lia. change (2 ^ 1) with 2 in *.
    assert (Z.land i 1 = i mod 2) as Hl by (replace (Z.land i 1) with (Z.land i (Z.ones 1)) by reflexivity; rewrite Z.land_ones by lia; reflexivity).
    rewrite Hl in E. lia.
  - intros _ _. apply IH; [exact Hbt|lia|]. replace (i + 1 + zlen t) with (i + (1 + zlen t)) by lia. exact Hn.
Qed.

Lemma contract_loop_no_err s : forall n i e, contract_loop n i s <> Err e.
Proof.
  induction s as [|b t IH]; intros n i e; cbn [contract_loop]; [discriminate|].
  unfold chk. destruct (inb sam_n16Table b); [|discriminate].
  destruct (Z.land i 1 =? 0); cbn [obind]; [apply IH|].
  destruct ((0 <=? Z.shiftr i 1) && (Z.shiftr i 1 <? n)); cbn [obind]; [apply IH|discriminate].
Qed.

Lemma contract_ok s : all_bytes s = true -> exists n, contract s = Ok n /\ n = Z.shiftr (zlen s + 1) 1.
Proof.
  intros Hb. unfold contract. pose proof (zlen_nonneg s) as H0.
  assert (0 <= Z.shiftr (zlen s + 1) 1) as Hn by (apply Z.shiftr_nonneg; lia).
  unfold make_ok. rewrite chk_true by (apply Z.leb_le; exact Hn).
  pose proof (contract_loop_safe (Z.shiftr (zlen s + 1) 1) s 0 Hb ltac:(lia)) as S.
  assert (Z.shiftr (0 + zlen s) 1 <= Z.shiftr (zlen s + 1) 1) as Hle.
  { rewrite !Z.shiftr_div_pow2 by lia. change (2 ^ 1) with 2. lia. }
  specialize (S Hle).
  destruct (contract_loop _ 0 s) as [[]| | |] eqn:EL; try contradiction; cbn [obind].
  - destruct (negb (Z.land (zlen s) 1 =? 0)) eqn:E; [|eauto].
    apply negb_true_iff, Z.eqb_neq in E.
    assert (Z.land (zlen s) 1 = zlen s mod 2) as Hl by (replace (Z.land (zlen s) 1) with (Z.land (zlen s) (Z.ones 1)) by reflexivity; rewrite Z.land_ones by lia; reflexivity).
    rewrite chk_true; [eauto|]. rewrite andb_true_iff, Z.leb_le, Z.ltb_lt.
    rewrite Z.shiftr_div_pow2 in * by lia. change (2 ^ 1) with 2 in *. lia.
  - exfalso. eapply contract_loop_no_err. eassumption.
Qed.

Lemma aux_fields_ok lib fs : (forall x, In x fs -> all_bytes x = true /\ zlen x < 2 ^ 31) ->
  safe (aux_fields lib fs) /\ forall aa, aux_fields lib fs = Ok aa -> Forall aux_wf aa.
Proof.
  induction fs as [|f t IH]; intros Hf; cbn [aux_fields].
  - split; [exact I|]. intros aa H; inversion H; constructor.
  - destruct (Hf f (or_introl eq_refl)) as [Hb Hs].
    destruct (IH (fun x Hx => Hf x (or_intror Hx))) as [S1 W1].
    pose proof (parse_aux_total_gen lib f) as S0.
    destruct (parse_aux lib f) as [a| | |] eqn:Ea; try contradiction; cbn [obind]; [|split; [exact I|discriminate]].
    destruct (aux_fields lib t) as [r| | |]; try contradiction; cbn [obind]; [|split; [exact I|discriminate]].
    split; [exact I|]. intros aa H; inversion H; subst. constructor; [|apply W1; reflexivity].
    eapply parse_aux_value_safe_gen; eassumption.
Qed.

Definition srec_wf (r : DecSam.srec) : Prop :=
  0 <= s_lseq r /\ (s_lseq r = 0 \/ Z.shiftr (s_lseq r - 1) 1 < s_nseq r) /\ Forall aux_wf (s_aux r).

Lemma srec_accessors_safe r : srec_wf r -> safe (srec_accessors r).
Proof.
  intros (H0 & Hs & Ha). unfold srec_accessors.
  apply safe_bind; [apply record_end_safe|intros _ _].
  apply safe_bind; [apply cigar_is_valid_safe|intros _ _].
  apply safe_bind; [apply lengths_loop_safe|intros _ _].
  apply safe_bind.
  { unfold make_ok. rewrite chk_true by (apply Z.leb_le; exact H0).
    destruct ((s_lseq r =? 0) || (Z.shiftr (s_lseq r - 1) 1 <? s_nseq r)) eqn:E; [exact I|].
    apply orb_false_iff in E as [E1 E2]. apply Z.eqb_neq in E1. apply Z.ltb_ge in E2. lia. }
  intros _ _. destruct (all_aux_safe_ok _ Ha) as [A1 A2].
  apply safe_bind; [exact A1|intros _ _; exact A2].
Qed.

Ltac chk_in Hin := rewrite chk_true by (apply Hin; lia).

(** UnmarshalSAM returns a value or an error on every line, for every answer of
    strconv and of the reference look-up; the record it returns is well formed. *)
Lemma unmarshal_sam_ok lib b : all_bytes b = true -> zlen b < 2 ^ 31 ->
  safe (unmarshal_sam lib b) /\ forall r, unmarshal_sam lib b = Ok r -> srec_wf r.
Proof.
  intros Hb Hsz. unfold unmarshal_sam.
  set (f := DecText.split_on 9 b).
  destruct (zlen f <? 11) eqn:E; [split; [exact I|discriminate]|]. apply Z.ltb_ge in E.
  assert (forall k, 0 <= k < 11 -> inb f k = true) as Hin by (intros; apply inb_true; lia).
  assert (forall k, 0 <= k < zlen f -> all_bytes (nth (Z.to_nat k) f []) = true /\ zlen (nth (Z.to_nat k) f []) <= zlen b) as Hfld.
  { intros k Hk. apply (split_on_props 9 b Hb). fold f. apply nth_In. unfold zlen in Hk. lia. }
  chk_in Hin. chk_in Hin.
  destruct (sl_flags lib _) as [flags|]; [|split; [exact I|discriminate]].
  chk_in Hin. destruct (negb (sl_ref lib _)); [split; [exact I|discriminate]|].
  chk_in Hin. destruct (sl_atoi lib (nth (Z.to_nat 3) f [])) as [pos|]; [|split; [exact I|discriminate]].
  chk_in Hin. destruct (sl_mapq lib _) as [mq|]; [|split; [exact I|discriminate]].
  chk_in Hin.
  pose proof (parse_cigar_total_gen (nth (Z.to_nat 5) f [])) as Sc.
  destruct (parse_cigar (nth (Z.to_nat 5) f [])) as [cigar| | |]; try contradiction; cbn [obind]; [|split; [exact I|discriminate]].
  chk_in Hin. destruct (negb _ && negb _); [split; [exact I|discriminate]|].
  chk_in Hin. destruct (sl_atoi lib (nth (Z.to_nat 7) f [])) as [mp|]; [|split; [exact I|discriminate]].
  chk_in Hin. destruct (sl_atoi lib (nth (Z.to_nat 8) f [])) as [tl|]; [|split; [exact I|discriminate]].
  chk_in Hin.
  destruct (Hfld 9 ltac:(lia)) as [Hb9 Hl9]. set (sq := nth (Z.to_nat 9) f []) in *.
  assert (exists X, (if negb (zeqb sq star) then
           n <- contract sq ;;
           if negb (zlen cigar =? 0) then
             v <- cigar_is_valid cigar (zlen sq) ;;
             if v then Ok (zlen sq, n) else Err 9
           else Ok (zlen sq, n)
         else Ok (0, 0)) = X /\ safe X /\
         forall l n, X = Ok (l, n) -> 0 <= l /\ (l = 0 \/ Z.shiftr (l - 1) 1 < n)) as (X & -> & SX & HX).
  { eexists; split; [reflexivity|]. pose proof (zlen_nonneg sq) as Hq.
    assert (zlen sq = 0 \/ Z.shiftr (zlen sq - 1) 1 < Z.shiftr (zlen sq + 1) 1) as Hgeo.
    { destruct (Z.eq_dec (zlen sq) 0); [left; assumption|right]. rewrite !Z.shiftr_div_pow2 by lia. change (2 ^ 1) with 2. lia. }
    destruct (negb (zeqb sq star)).
    2: { split; [exact I|]. intros l n H; inversion H; subst. split; [lia|left; reflexivity]. }
    destruct (contract_ok sq Hb9) as (n & -> & Hn). cbn [obind].
    destruct (negb (zlen cigar =? 0)).
    - pose proof (cigar_is_valid_safe cigar (zlen sq)) as Sv.
      destruct (cigar_is_valid cigar (zlen sq)) as [v| | |]; try contradiction; cbn [obind]; [|split; [exact I|discriminate]].
      destruct v; split; try exact I; try discriminate. intros l n' H; inversion H; subst. split; [lia|exact Hgeo].
    - split; [exact I|]. intros l n' H; inversion H; subst. split; [lia|exact Hgeo]. }
  destruct X as [[lseq nseq]| | |]; try contradiction; cbn [obind]; [|split; [exact I|discriminate]].
  destruct (HX lseq nseq eq_refl) as [Hl0 Hgeo].
  chk_in Hin.
  assert (exists Q, (if negb (zeqb (nth (Z.to_nat 10) f []) star) then Ok (zlen (nth (Z.to_nat 10) f []))
            else if negb (lseq =? 0) then chk (make_ok lseq) (Ok lseq) else Ok 0) = Q /\ exists q, Q = Ok q) as (Q & -> & q & ->).
  { eexists; split; [reflexivity|]. destruct (negb (zeqb _ star)); [eauto|].
    destruct (negb (lseq =? 0)); [|eauto]. unfold make_ok. rewrite chk_true by (apply Z.leb_le; lia). eauto. }
  cbn [obind].
  destruct (negb (q =? 0) && negb (q =? lseq)); [split; [exact I|discriminate]|].
  assert (exists A, (if 11 <? zlen f then
            chk (make_ok (zlen f - 11)) (chk (from_ok f 11) (aux_fields (sl_aux lib) (skipn 11 f)))
          else Ok []) = A /\ safe A /\ forall aa, A = Ok aa -> Forall aux_wf aa) as (A & -> & SA & WA).
  { eexists; split; [reflexivity|]. destruct (11 <? zlen f) eqn:E11.
    2: { split; [exact I|]. intros aa H; inversion H; constructor. }
    apply Z.ltb_lt in E11. unfold make_ok, from_ok. rewrite chk_true by (apply Z.leb_le; lia).
    rewrite chk_true by (rewrite andb_true_iff, !Z.leb_le; lia).
    apply aux_fields_ok. intros x Hx.
    assert (In x f) as Hxf by (rewrite <- (firstn_skipn 11 f); apply in_or_app; right; exact Hx).
    destruct (split_on_props 9 b Hb x Hxf). split; [assumption|lia]. }
  destruct A as [aux| | |]; try contradiction; cbn [obind]; [|split; [exact I|discriminate]].
  split; [exact I|]. intros r H; inversion H; subst; clear H. unfold srec_wf; simpl.
  split; [exact Hl0|]. split; [exact Hgeo|]. apply WA. reflexivity.
Qed.

Lemma unmarshal_sam_total_gen lib b : all_bytes b = true -> zlen b < 2 ^ 31 -> safe (unmarshal_sam lib b).
Proof. intros Hb Hs. apply (unmarshal_sam_ok lib b Hb Hs). Qed.

Lemma unmarshal_sam_value_safe_gen lib b r : all_bytes b = true -> zlen b < 2 ^ 31 ->
  unmarshal_sam lib b = Ok r -> safe (srec_accessors r).
Proof. intros Hb Hs H. apply srec_accessors_safe. apply (unmarshal_sam_ok lib b Hb Hs). exact H. Qed.

(* ------------------------------------------------ bam.NewReader + Read loop *)

Lemma rd_i32_bytes s v s' : all_bytes s = true -> rd_i32 s = Ok (v, s') -> all_bytes s' = true.
Proof.
  unfold rd_i32. intros Hb H. destruct (take 4 s) as [[b r]|] eqn:E; [|discriminate]. inversion H; subst.
  eapply take_bytes; eassumption.
Qed.

Lemma reader_read_bytes n s b s' : all_bytes s = true -> reader_read n s = Some (b, s') -> all_bytes s' = true.
Proof.
  unfold reader_read. intros Hb H. destruct (zlen s =? 0); [discriminate|]. inversion H; subst. apply all_bytes_skipn, Hb.
Qed.

Lemma ref_records_bytes fuel : forall s i n rs s', all_bytes s = true ->
  ref_records s i n fuel = Ok (rs, s') -> all_bytes s' = true.
Proof.
  induction fuel as [|f IH]; intros s i n rs s' Hb H; [discriminate|].
  cbn [ref_records] in H. destruct (negb (i <? n)); [inversion H; subst; exact Hb|].
  destruct (rd_i32 s) as [[lName s1]| | |] eqn:E1; cbn [obind] in H; try discriminate.
  pose proof (rd_i32_bytes _ _ _ Hb E1) as Hb1.
  destruct (lName <? 1); [discriminate|]. unfold chk in H. destruct (make_ok lName); [|discriminate].
  destruct (reader_read lName s1) as [[name s2]|] eqn:ER; [|discriminate].
  pose proof (reader_read_bytes _ _ _ _ Hb1 ER) as Hb2.
  destruct (negb (zlen name =? lName)); [discriminate|].
  destruct (inb name (zlen name - 1)); [|discriminate].
  destruct (negb (getz name (zlen name - 1) =? 0)); [discriminate|].
  destruct (slice_ok name 0 (zlen name - 1)); [|discriminate].
  destruct (rd_i32 s2) as [[lRef s3]| | |] eqn:E3; cbn [obind] in H; try discriminate.
  pose proof (rd_i32_bytes _ _ _ Hb2 E3) as Hb3.
  destruct (ref_records s3 (i + 1) n f) as [[rs1 s4]| | |] eqn:E4; cbn [obind] in H; try discriminate.
  inversion H; subst. eapply IH; eassumption.
Qed.

Lemma bam_header_ok lib refs_ok s : all_bytes s = true ->
  safe (bam_header lib refs_ok s) /\ forall n rest, bam_header lib refs_ok s = Ok (n, rest) -> all_bytes rest = true.
Proof.
  intros Hb. unfold bam_header. destruct (take 4 s) as [[magic s1]|] eqn:E4; [|split; [exact I|discriminate]].
  destruct (take_bytes _ _ _ _ Hb E4) as [_ Hb1].
  destruct (negb (zeqb magic bamMagic)); [split; [exact I|discriminate]|].
  destruct (rd_i32 s1) as [[lText s2]| | |] eqn:E1; cbn [obind]; try (split; [exact I|discriminate]);
    try (pose proof (rd_i32_safe s1) as X; rewrite E1 in X; contradiction).
  pose proof (rd_i32_bytes _ _ _ Hb1 E1) as Hb2.
  destruct (lText <? 0) eqn:EL; [split; [exact I|discriminate]|]. apply Z.ltb_ge in EL.
  unfold make_ok. rewrite chk_true by (apply Z.leb_le; lia).
  destruct (take lText s2) as [[text s3]|] eqn:ET; [|split; [exact I|discriminate]].
  destruct (take_bytes _ _ _ _ Hb2 ET) as [_ Hb3].
  pose proof (unmarshal_header_text_total_gen lib text) as SU.
  destruct (unmarshal_header_text lib text) as [[]| | |]; try contradiction; cbn [obind]; [|split; [exact I|discriminate]].
  destruct (rd_i32 s3) as [[nRef s4]| | |] eqn:E3; cbn [obind]; try (split; [exact I|discriminate]);
    try (pose proof (rd_i32_safe s3) as X; rewrite E3 in X; contradiction).
  pose proof (rd_i32_bytes _ _ _ Hb3 E3) as Hb4.
  destruct (nRef <? 0); [split; [exact I|discriminate]|].
  pose proof (ref_records_safe (S (length s4)) s4 0 nRef ltac:(rewrite Nat2Z.inj_succ; unfold zlen; lia)) as SR.
  destruct (ref_records s4 0 nRef (S (length s4))) as [[rs s5]| | |] eqn:ER; try contradiction; cbn [obind]; [|split; [exact I|discriminate]].
  destruct refs_ok; split; try exact I; try discriminate.
  intros n rest H; inversion H; subst. simpl. eapply ref_records_bytes; eassumption.
Qed.

Lemma bam_read_loop_ok omit nrefs fuel : forall s, all_bytes s = true -> zlen s < Z.of_nat fuel ->
  safe (bam_read_loop s omit nrefs fuel) /\ forall rs, bam_read_loop s omit nrefs fuel = Ok rs -> Forall rec_wf rs.
Proof.
  induction fuel as [|f IH]; intros s Hb Hf; [pose proof (zlen_nonneg s); simpl in Hf; lia|].
  cbn [bam_read_loop]. rewrite Nat2Z.inj_succ in Hf.
  destruct (take 4 s) as [[b4 s1]|] eqn:E4.
  2: { split; [exact I|]. intros rs H; inversion H; constructor. }
  destruct (take_bytes _ _ _ _ Hb E4) as [_ Hb1]. apply take_len in E4.
  set (size := s32 (le_bytes b4)). pose proof (s32_range (le_bytes b4)) as Hr. fold size in Hr.
  destruct (size =? 0); [split; [exact I|intros rs H; inversion H; constructor]|].
  destruct (size <? 0) eqn:Es; [split; [exact I|intros rs H; inversion H; constructor]|]. apply Z.ltb_ge in Es.
  unfold make_ok. rewrite chk_true by (apply Z.leb_le; exact Es).
  destruct (take size s1) as [[data s2]|] eqn:ED.
  2: { split; [exact I|]. intros rs H; inversion H; constructor. }
  destruct (take_bytes _ _ _ _ Hb1 ED) as [Hbd Hb2]. apply take_len in ED.
  destruct (bam_record_ok data omit nrefs Hbd ltac:(lia)) as [SR WR].
  destruct (bam_record data omit nrefs) as [r| | |]; try contradiction.
  - destruct (IH s2 Hb2 ltac:(lia)) as [S2 W2].
    destruct (bam_read_loop s2 omit nrefs f) as [rest| | |]; try contradiction; cbn [obind]; [|split; [exact I|discriminate]].
    split; [exact I|]. intros rs H; inversion H; subst. constructor; [apply WR; reflexivity|apply W2; reflexivity].
  - split; [exact I|]. intros rs H; inversion H; constructor.
Qed.

(** bam.NewReader + Read until the first error, over every byte string the
    BGZF layer can deliver: no panic, no non-termination, and every record
    returned on the way is safe for the accessors. *)
Lemma bam_reader_ok lib refs_ok omit s : all_bytes s = true ->
  safe (bam_reader lib refs_ok omit s) /\
  forall rs, bam_reader lib refs_ok omit s = Ok rs -> Forall (fun r => safe (record_accessors r)) rs.
Proof.
  intros Hb. unfold bam_reader. destruct (bam_header_ok lib refs_ok s Hb) as [SH BH].
  destruct (bam_header lib refs_ok s) as [[nrefs rest]| | |]; try contradiction; cbn [obind]; [|split; [exact I|discriminate]].
  specialize (BH nrefs rest eq_refl).
  destruct (bam_read_loop_ok omit nrefs (S (length rest)) rest BH ltac:(rewrite Nat2Z.inj_succ; unfold zlen; lia)) as [S1 W1].
  split; [exact S1|]. intros rs H. specialize (W1 rs H).
  rewrite Forall_forall in *. intros r Hr. apply record_accessors_safe. apply W1. exact Hr.
Qed.

(* ---------------------------------------------------------- fai.NewIndex *)

(** NewIndex (the model of the C19 development, Model/Fai.v) returns an index
    or one of its four errors on every byte string: no iteration of the scan
    loop panics and the loop is a fold over the lines of the input. *)
Lemma ni_step_safe adv st line : safe (ni_step adv st line).
Proof.
  unfold ni_step. destruct st as [idx cur off want].
  destruct (is_nil (trim line)); [exact I|].
  destruct (bytes_eqb (trim line) [62]); [exact I|].
  destruct (hd 0 (trim line) =? 62).
  - destruct (if is_nil (r_name cur) then (idx, cur) else (map_set idx cur, rec0)) as [idx1 cur1].
    destruct (has_name _ idx1); exact I.
  - destruct want; [exact I|].
    destruct (r_bytes cur =? 0); cbn [obind].
    + destruct (zlen (trim line) =? 0); cbn [obind]; [exact I|].
      destruct (r_bases cur =? 0); cbn [obind]; [exact I|].
      destruct (r_bases cur <? zlen (trim line)); cbn [obind]; [exact I|].
      destruct (zlen (trim line) <? r_bases cur); exact I.
    + destruct (r_bytes cur <? zlen line); cbn [obind]; [exact I|].
      destruct (zlen line <? r_bytes cur); cbn [obind];
        (destruct (zlen (trim line) =? 0); cbn [obind]; [exact I|];
         destruct (r_bases cur =? 0); cbn [obind]; [exact I|];
         destruct (r_bases cur <? zlen (trim line)); cbn [obind]; [exact I|];
         destruct (zlen (trim line) <? r_bases cur); exact I).
Qed.

Lemma ni_fold_safe adv ls : forall st, safe (ni_fold adv st ls).
Proof.
  induction ls as [|l t IH]; intros st; cbn [ni_fold]; [exact I|].
  apply safe_bind; [apply ni_step_safe|intros; apply IH].
Qed.

Lemma fai_newindex_total_gen file : safe (newindex file).
Proof.
  unfold newindex, newindex_gen. destruct (scan_tokens (lines file)) as [toks toolong].
  apply safe_bind; [apply ni_fold_safe|intros; destruct toolong; exact I].
Qed.
