(** C11 — proofs about the text decoder models (Model/DecText.v). *)
From Coq Require Import ZArith Lia List Bool.
From Hts Require Import Base.Prim Base.DecBase Generated Model.DecText.
Open Scope Z_scope.

Ltac Zify.zify_post_hook ::= Z.div_mod_to_equations.

(* --------------------------------------------------------------- helpers *)

Lemma inb_true {A} (l : list A) i : 0 <= i < zlen l -> inb l i = true.
Proof. intros H. unfold inb. apply andb_true_iff. split; [apply Z.leb_le|apply Z.ltb_lt]; lia. Qed.

Lemma slice_ok_true l lo hi : 0 <= lo <= hi -> hi <= zlen l -> slice_ok l lo hi = true.
Proof. intros H1 H2. unfold slice_ok. rewrite !andb_true_iff, !Z.leb_le. lia. Qed.

Lemma zlen_sub l lo hi : 0 <= lo <= hi -> hi <= zlen l -> zlen (sub l lo hi) = hi - lo.
Proof.
  intros H1 H2. unfold sub. rewrite zlen_firstn, zlen_skipn. rewrite !Z2Nat.id by lia. lia.
Qed.

Lemma chk_true {A} (c : bool) (k : outcome A) : c = true -> chk c k = k.
Proof. intros ->. reflexivity. Qed.

Ltac chk_ok := rewrite chk_true; [|first [apply inb_true | apply slice_ok_true | idtac]; try lia].

(* ------------------------------------------------------ table look-ups *)

(** [Consumes] of any operation type a uint32 CIGAR word can carry (and of any byte). *)
Lemma Consumes_safe ct : 0 <= ct -> safe (c11_Consumes ct).
Proof.
  intros H. unfold c11_Consumes.
  destruct (10 <? ct) eqn:E; cbv zeta.
  - vm_compute. exact I.
  - apply Z.ltb_ge in E. rewrite chk_true; [exact I|]. apply inb_true. change (zlen c11_consume) with 11. lia.
Qed.

Lemma Consumes_ok ct : 0 <= ct -> exists q r, c11_Consumes ct = Ok (q, r).
Proof.
  intros H. unfold c11_Consumes.
  destruct (10 <? ct) eqn:E; cbv zeta.
  - vm_compute. eauto.
  - apply Z.ltb_ge in E. rewrite chk_true.
    + destruct (nth (Z.to_nat ct) c11_consume (0, 0)) as [q r]. eauto.
    + apply inb_true. change (zlen c11_consume) with 11. lia.
Qed.

Lemma OpString_safe ct : safe (c11_OpString ct).
Proof.
  unfold c11_OpString.
  destruct ((ct <? 0) || (10 <? ct)) eqn:E; cbv zeta.
  - vm_compute. exact I.
  - apply orb_false_iff in E as [E1 E2]. apply Z.ltb_ge in E1, E2.
    rewrite chk_true; [exact I|]. apply inb_true. change (zlen c11_cigarOps) with 11. lia.
Qed.

Lemma op_type_nonneg co : 0 <= op_type co.
Proof. unfold op_type. apply Z.land_nonneg. right. lia. Qed.

Lemma end_loop_safe c : forall pos e, safe (end_loop pos e c).
Proof.
  induction c as [|co t IH]; intros; simpl; [exact I|].
  destruct (Consumes_ok (op_type co) (op_type_nonneg co)) as (q & r & ->). simpl. apply IH.
Qed.

Lemma record_end_safe um pos c : safe (record_end um pos c).
Proof. unfold record_end. destruct (um || (zlen c =? 0)); [exact I|apply end_loop_safe]. Qed.

Lemma lengths_loop_safe c : forall a b, safe (lengths_loop a b c).
Proof.
  induction c as [|co t IH]; intros; simpl; [exact I|].
  destruct (Consumes_ok (op_type co) (op_type_nonneg co)) as (q & r & ->). simpl. apply IH.
Qed.

Lemma is_valid_loop_safe c : forall rest i pos len,
  0 <= i -> i + zlen rest = zlen c -> safe (is_valid_loop c i pos len rest).
Proof.
  induction rest as [|co t IH]; intros i pos len Hi Hlen; simpl; [exact I|].
  rewrite zlen_cons in Hlen. pose proof (zlen_nonneg t) as Ht.
  destruct ((op_type co =? sam_CigarHardClipped) && (negb (i =? 0) && negb (i =? zlen c - 1))); [exact I|].
  destruct ((op_type co =? sam_CigarSoftClipped) && (negb (i =? 0) && negb (i =? zlen c - 1))) eqn:E.
  - apply andb_true_iff in E as [_ E]. apply andb_true_iff in E as [E1 E2].
    apply negb_true_iff in E1, E2. apply Z.eqb_neq in E1, E2.
    rewrite chk_true by (apply inb_true; lia).
    destruct (negb (op_type (getz c (i - 1)) =? sam_CigarHardClipped)).
    + rewrite chk_true by (apply inb_true; lia). simpl.
      destruct (negb (op_type (getz c (i + 1)) =? sam_CigarHardClipped)); [exact I|].
      destruct (Consumes_ok (op_type co) (op_type_nonneg co)) as (q & r & ->). simpl.
      destruct ((pos <? 0) && negb (q =? 0)); [exact I|]. apply IH; lia.
    + simpl. destruct (Consumes_ok (op_type co) (op_type_nonneg co)) as (q & r & ->). simpl.
      destruct ((pos <? 0) && negb (q =? 0)); [exact I|]. apply IH; lia.
  - simpl. destruct (Consumes_ok (op_type co) (op_type_nonneg co)) as (q & r & ->). simpl.
    destruct ((pos <? 0) && negb (q =? 0)); [exact I|]. apply IH; lia.
Qed.

Lemma cigar_is_valid_safe c len : safe (cigar_is_valid c len).
Proof. unfold cigar_is_valid. apply is_valid_loop_safe; lia. Qed.

(* ----------------------------------------------------------- ParseCigar *)

Lemma powers_nonneg x : 0 <= getz c11_powers x.
Proof.
  unfold getz. destruct (Nat.lt_ge_cases (Z.to_nat x) 13) as [H|H].
  - assert (Forall (fun v => 0 <= v) c11_powers) as F by (repeat constructor; lia).
    rewrite Forall_forall in F. apply F. apply nth_In. exact H.
  - rewrite nth_overflow; [lia|exact H].
Qed.

Lemma u8_nonneg x : 0 <= u8 x.
Proof. unfold u8, wrapu. apply Z.mod_pos_bound. lia. Qed.

Lemma atoi_loop_safe b : forall k i n,
  0 <= i -> i + zlen b = k + 1 -> k < 13 -> safe (atoi_loop k i n b).
Proof.
  induction b as [|v t IH]; intros k i n Hi Hk Hlt; simpl; [exact I|].
  rewrite zlen_cons in Hk. pose proof (zlen_nonneg t).
  rewrite chk_true by (apply inb_true; change (zlen c11_powers) with 13; lia).
  apply IH; lia.
Qed.

Lemma atoi_loop_nonneg b : forall k i n r, 0 <= n -> atoi_loop k i n b = Ok r -> 0 <= r.
Proof.
  induction b as [|v t IH]; intros k i n r Hn H; simpl in H.
  - inversion H; subst; exact Hn.
  - unfold chk in H. destruct (inb c11_powers (k - i)); [|discriminate].
    eapply IH; [|exact H]. pose proof (u8_nonneg (v - 48)). pose proof (powers_nonneg (k - i)). nia.
Qed.

Lemma atoi_safe b : safe (atoi b).
Proof.
  unfold atoi. destruct (zlen c11_powers <? zlen b) eqn:E; [exact I|].
  apply Z.ltb_ge in E. change (zlen c11_powers) with 13 in E.
  apply atoi_loop_safe; lia.
Qed.

Lemma atoi_nonneg b r : atoi b = Ok r -> 0 <= r.
Proof.
  unfold atoi. destruct (zlen c11_powers <? zlen b); [discriminate|].
  apply atoi_loop_nonneg. lia.
Qed.

Lemma maxOpLen_val : maxOpLen = 268435455.
Proof. reflexivity. Qed.

Lemma new_cigar_op_ok t n : 0 <= n <= maxOpLen -> exists co, new_cigar_op t n = Ok co.
Proof.
  intros H. unfold new_cigar_op.
  assert (u64 n = n) as ->.
  { unfold u64, wrapu. rewrite maxOpLen_val in H. apply Z.mod_small. change (2^64) with 18446744073709551616. lia. }
  destruct (maxOpLen <? n) eqn:E; [apply Z.ltb_lt in E; lia|]. eauto.
Qed.

Lemma emit_ops_safe fuel : forall op n,
  0 <= n -> n / maxOpLen + 2 <= Z.of_nat fuel -> safe (emit_ops op n fuel).
Proof.
  induction fuel as [|f IH]; intros op n Hn Hf.
  - rewrite maxOpLen_val in Hf. simpl in Hf. lia.
  - simpl. destruct (new_cigar_op_ok op (Z.min n maxOpLen)) as [co ->]; [rewrite maxOpLen_val; lia|]. simpl.
    destruct (n - maxOpLen <=? 0) eqn:E; [exact I|]. apply Z.leb_gt in E.
    apply safe_bind; [|intros; exact I].
    apply IH; [lia|]. rewrite maxOpLen_val in *. rewrite Nat2Z.inj_succ in Hf. lia.
Qed.

Lemma span_digits_len b : forall d r, span_digits b = (d, r) -> (length r <= length b)%nat.
Proof.
  induction b as [|c t IH]; intros d r H; simpl in H.
  - inversion H; subst; simpl; lia.
  - destruct (is_digit c).
    + destruct (span_digits t) as [d' r'] eqn:E. inversion H; subst. specialize (IH _ _ eq_refl). simpl. lia.
    + inversion H; subst. simpl. lia.
Qed.

Lemma parse_cigar_loop_safe fuel : forall b, (length b < fuel)%nat -> safe (parse_cigar_loop b fuel).
Proof.
  induction fuel as [|f IH]; intros b Hb; [lia|].
  simpl. destruct b as [|c0 t0] eqn:Eb; [exact I|]. rewrite <- Eb in *. clear Eb c0 t0.
  destruct (span_digits b) as [d r] eqn:E. pose proof (span_digits_len _ _ _ E) as Hr.
  destruct r as [|opc r']; [exact I|].
  apply safe_bind; [apply atoi_safe|]. intros n Hn. apply atoi_nonneg in Hn.
  destruct (op_lookup opc =? sam_lastCigar); [exact I|].
  apply safe_bind.
  { apply emit_ops_safe; [exact Hn|]. rewrite Nat2Z.inj_add, Z2Nat.id; [simpl; lia|].
    apply Z.div_pos; [exact Hn|rewrite maxOpLen_val; lia]. }
  intros ops _. apply safe_bind; [|intros; exact I]. apply IH. simpl in Hr. lia.
Qed.

Lemma parse_cigar_total_gen b : safe (parse_cigar b).
Proof.
  unfold parse_cigar. destruct ((zlen b =? 1) && (getz b 0 =? 42)); [exact I|].
  apply parse_cigar_loop_safe. lia.
Qed.

(** Whatever ParseCigar returns can be handed to End / IsValid / Lengths. *)
Lemma parse_cigar_value_safe_gen b c um pos len :
  parse_cigar b = Ok c ->
  safe (record_end um pos c) /\ safe (cigar_is_valid c len) /\ safe (lengths_loop 0 0 c).
Proof.
  intros _. split; [apply record_end_safe|split; [apply cigar_is_valid_safe|apply lengths_loop_safe]].
Qed.

(* ---------------------------------------------------------- header text *)

Lemma field_head_safe f : safe (field_head f).
Proof.
  unfold field_head. destruct (zlen f <? 3) eqn:E; [exact I|]. apply Z.ltb_ge in E.
  rewrite chk_true by (apply inb_true; lia).
  destruct (negb (getz f 2 =? 58)); [exact I|].
  rewrite chk_true by (apply slice_ok_true; lia).
  rewrite chk_true by (apply slice_ok_true; lia). exact I.
Qed.

Lemma hex_decode_safe fuel : forall src dstlen i,
  (length src < fuel)%nat -> 0 <= i -> i + zlen src / 2 <= dstlen -> safe (hex_decode dstlen i src fuel).
Proof.
  induction fuel as [|f IH]; intros src dstlen i Hf Hi Hd; [lia|].
  destruct src as [|p [|q rest]]; [exact I|exact I|].
  cbn [hex_decode]. destruct (hexval p); [|exact I]. destruct (hexval q); [|exact I].
  rewrite !zlen_cons in Hd. pose proof (zlen_nonneg rest).
  rewrite chk_true by (rewrite andb_true_iff, Z.leb_le, Z.ltb_lt; lia).
  apply safe_bind; [|intros; exact I]. apply IH; [simpl in Hf; lia|lia|lia].
Qed.

Lemma header_field_safe lib kind f : safe (header_field lib kind f).
Proof.
  unfold header_field. apply safe_bind; [apply field_head_safe|].
  intros [t v] _. destruct ((kind =? kSQ) && zeqb t tagM5).
  - destruct (negb (h_field lib kind t v)); [exact I|].
    destruct (32 <? zlen v); [exact I|].
    destruct (16 <? zlen v / 2) eqn:E; [exact I|]. apply Z.ltb_ge in E.
    apply safe_bind; [|intros hb _; destruct (zlen hb =? 16); exact I].
    apply hex_decode_safe; [lia|lia|lia].
  - destruct (h_field lib kind t v); exact I.
Qed.

Lemma header_fields_safe lib kind fs : safe (header_fields lib kind fs).
Proof.
  induction fs as [|f t IH]; simpl; [exact I|].
  apply safe_bind; [apply header_field_safe|intros; exact IH].
Qed.

Lemma tagged_line_safe lib kind minf l : 1 <= minf -> safe (tagged_line lib kind minf l).
Proof.
  intros Hm. unfold tagged_line. destruct (zlen (split_on 9 l) <? minf) eqn:E; [exact I|]. apply Z.ltb_ge in E.
  rewrite chk_true by (apply Z.leb_le; lia).
  apply safe_bind; [apply header_fields_safe|]. intros _ _. destruct (h_line lib kind (split_on 9 l)); exact I.
Qed.

Lemma comment_line_safe l : safe (comment_line l).
Proof.
  unfold comment_line. destruct (zlen (splitn2 9 l) <? 2) eqn:E; [exact I|]. apply Z.ltb_ge in E.
  rewrite chk_true by (apply inb_true; lia). exact I.
Qed.

Lemma header_text_line_safe lib l0 : safe (header_text_line lib l0).
Proof.
  unfold header_text_line. apply safe_bind.
  - destruct (0 <? zlen l0) eqn:E; [|exact I]. apply Z.ltb_lt in E.
    rewrite chk_true by (apply inb_true; lia).
    destruct (getz l0 (zlen l0 - 1) =? 13); [|exact I].
    rewrite chk_true by (apply slice_ok_true; lia). exact I.
  - intros l _. destruct (zlen l =? 0) eqn:E; [exact I|]. apply Z.eqb_neq in E. pose proof (zlen_nonneg l).
    rewrite chk_true by (apply inb_true; lia).
    destruct (negb (getz l 0 =? 64) || (zlen l <? 3)) eqn:E2; [exact I|].
    apply orb_false_iff in E2 as [_ E2]. apply Z.ltb_ge in E2.
    rewrite chk_true by (apply slice_ok_true; lia).
    destruct (zeqb (sub l 1 3) tagHD); [apply tagged_line_safe; lia|].
    destruct (zeqb (sub l 1 3) tagSQ); [apply tagged_line_safe; lia|].
    destruct (zeqb (sub l 1 3) tagRG); [apply tagged_line_safe; lia|].
    destruct (zeqb (sub l 1 3) tagPG); [apply tagged_line_safe; lia|].
    destruct (zeqb (sub l 1 3) tagCO); [apply comment_line_safe|exact I].
Qed.

Lemma header_text_lines_safe lib ls : safe (header_text_lines lib ls).
Proof.
  induction ls as [|l t IH]; simpl; [exact I|].
  apply safe_bind; [apply header_text_line_safe|intros; exact IH].
Qed.

Lemma unmarshal_header_text_total_gen lib text : safe (unmarshal_header_text lib text).
Proof. apply header_text_lines_safe. Qed.

(** The guard in front of hex.Decode matters: without it an M5 value of 34 hex
    digits overruns the 16 byte array (the state of the code before the fix). *)
Lemma hex_decode_unguarded_panics :
  exists v, is_panic (hex_decode 16 0 v (S (length v))) = true.
Proof. exists (repeat 48 34). vm_compute. reflexivity. Qed.

(* ------------------------------------------------------- sam.Reader.Read *)

Lemma sam_read_line_total_gen b eof : (eof = false -> 1 <= zlen b) -> safe (sam_read_line b eof).
Proof.
  intros H. unfold sam_read_line. apply safe_bind.
  - destruct eof; [destruct (zlen b =? 0); exact I|].
    specialize (H eq_refl). rewrite chk_true by (apply slice_ok_true; lia). exact I.
  - intros b1 _. apply safe_bind.
    + destruct (negb (zlen b1 =? 0)) eqn:E; [|exact I]. apply negb_true_iff, Z.eqb_neq in E. pose proof (zlen_nonneg b1).
      rewrite chk_true by (apply inb_true; lia).
      destruct (getz b1 (zlen b1 - 1) =? 13); [|exact I].
      rewrite chk_true by (apply slice_ok_true; lia). exact I.
    + intros b2 _. exact I.
Qed.

(** An empty line (the reader no longer rejects it itself) fails UnmarshalSAM's field count. *)
Lemma sam_empty_line_rejected_gen l : zlen l = 0 -> sam_field_count l = Err 1.
Proof.
  intros H. destruct l; [reflexivity|]. rewrite zlen_cons in H. pose proof (zlen_nonneg l). lia.
Qed.

Lemma cigar_optype_lookups_total_gen :
  forall ct, 0 <= ct -> safe (c11_Consumes ct) /\ safe (c11_OpString ct).
Proof. intros ct H. split; [exact (Consumes_safe ct H)|exact (OpString_safe ct)]. Qed.

Lemma cigar_accessors_total_gen :
  forall unmapped pos c len,
    safe (record_end unmapped pos c) /\ safe (cigar_is_valid c len) /\ safe (lengths_loop 0 0 c).
Proof.
  intros. split; [exact (record_end_safe _ _ _)|split; [exact (cigar_is_valid_safe _ _)|exact (lengths_loop_safe _ _ _)]].
Qed.
