(** C19: list, tokeniser and TrimSpace lemmas. *)
From Coq Require Import ZArith Lia List Bool.
From Hts Require Import Base.Prim Generated Model.Fai.
Open Scope Z_scope.

(* ------------------------------------------------------------------ zlen *)

Lemma zlen_nil {A} : zlen (@nil A) = 0.
Proof. reflexivity. Qed.

Lemma zlen_cons {A} (x : A) l : zlen (x :: l) = 1 + zlen l.
Proof. unfold zlen. simpl length. lia. Qed.

Lemma zlen_app' {A} (a b : list A) : zlen (a ++ b) = zlen a + zlen b.
Proof. unfold zlen. rewrite app_length. lia. Qed.

Lemma zlen_nonneg {A} (l : list A) : 0 <= zlen l.
Proof. unfold zlen. lia. Qed.

Lemma zlen_zero_nil {A} (l : list A) : zlen l = 0 -> l = [].
Proof. destruct l; [reflexivity|]. rewrite zlen_cons. pose proof (zlen_nonneg l). lia. Qed.

Lemma is_nil_true {A} (l : list A) : is_nil l = true <-> l = [].
Proof. destruct l; simpl; split; congruence. Qed.

Lemma is_nil_false {A} (l : list A) : is_nil l = false <-> l <> [].
Proof. destruct l; simpl; split; congruence. Qed.

(* ------------------------------------------------------------- bytes_eqb *)

Lemma bytes_eqb_refl a : bytes_eqb a a = true.
Proof. induction a; simpl; [reflexivity|]. rewrite Z.eqb_refl. assumption. Qed.

Lemma bytes_eqb_eq a b : bytes_eqb a b = true <-> a = b.
Proof.
  revert b. induction a as [|x a IH]; destruct b as [|y b]; simpl; split; try congruence.
  - intros H. apply andb_true_iff in H as [H1 H2]. apply Z.eqb_eq in H1. apply IH in H2. congruence.
  - intros H. inversion H; subst. rewrite Z.eqb_refl. apply IH. reflexivity.
Qed.

Lemma bytes_eqb_sym a b : bytes_eqb a b = bytes_eqb b a.
Proof.
  destruct (bytes_eqb a b) eqn:E.
  - apply bytes_eqb_eq in E. subst. symmetry. apply bytes_eqb_refl.
  - destruct (bytes_eqb b a) eqn:E'; [|reflexivity].
    apply bytes_eqb_eq in E'. subst. rewrite bytes_eqb_refl in E. discriminate.
Qed.

(* ----------------------------------------------------------------- lines *)

Lemma lines_concat bs : concat (lines bs) = bs.
Proof.
  induction bs as [|b t IH]; simpl; [reflexivity|].
  destruct (b =? 10).
  - simpl. rewrite IH. reflexivity.
  - destruct (lines t) as [|l ls] eqn:E; simpl in *.
    + subst t. reflexivity.
    + rewrite <- IH. reflexivity.
Qed.

(** A line without LF followed by LF is one token. *)
Lemma lines_lf (c rest : list Z) :
  forallb (fun x => negb (x =? 10)) c = true ->
  lines (c ++ 10 :: rest) = (c ++ [10]) :: lines rest.
Proof.
  induction c as [|x c IH]; intros H; simpl in *.
  - reflexivity.
  - apply andb_true_iff in H as [Hx Hc]. apply negb_true_iff in Hx. rewrite Hx.
    rewrite IH by assumption. reflexivity.
Qed.

(** A last non-empty line without LF is one token. *)
Lemma lines_last (c : list Z) :
  c <> [] -> forallb (fun x => negb (x =? 10)) c = true -> lines c = [c].
Proof.
  induction c as [|x c IH]; intros Hne H; [congruence|]. simpl in *.
  apply andb_true_iff in H as [Hx Hc]. apply negb_true_iff in Hx. rewrite Hx.
  destruct c as [|y c'].
  - reflexivity.
  - rewrite IH; [reflexivity|discriminate|assumption].
Qed.

Lemma lines_term (c : list Z) (crlf : bool) (rest : list Z) :
  forallb (fun x => negb (x =? 10)) c = true ->
  lines (c ++ term crlf ++ rest) = (c ++ term crlf) :: lines rest.
Proof.
  intros H. destruct crlf; simpl term.
  - change (c ++ [13; 10] ++ rest) with (c ++ [13] ++ 10 :: rest).
    rewrite app_assoc. rewrite lines_lf.
    + rewrite <- app_assoc. reflexivity.
    + rewrite forallb_app, H. reflexivity.
  - simpl. apply lines_lf. assumption.
Qed.

Lemma lines_blanks (bl : list bool) (rest : list Z) :
  lines (blanks bl ++ rest) = map term bl ++ lines rest.
Proof.
  induction bl as [|b bl IH]; [reflexivity|].
  unfold blanks in *. simpl. rewrite <- app_assoc.
  pose proof (lines_term [] b (concat (map term bl) ++ rest) eq_refl) as H.
  change ([] ++ term b ++ concat (map term bl) ++ rest) with (term b ++ concat (map term bl) ++ rest) in H.
  change ([] ++ term b) with (term b) in H.
  rewrite H, IH. reflexivity.
Qed.

(* ------------------------------------------------------------------ trim *)

Lemma trim_right_ns (a r : list Z) :
  forallb (fun x => negb (isspace x)) a = true -> trim_right (a ++ r) = a ++ trim_right r.
Proof.
  induction a as [|c a IH]; intros H; [reflexivity|]. simpl in *.
  apply andb_true_iff in H as [Hc Ha]. apply negb_true_iff in Hc.
  rewrite IH by assumption.
  destruct (a ++ trim_right r) eqn:E; [rewrite Hc|]; reflexivity.
Qed.

Lemma trim_right_spaces (l : list Z) : forallb isspace l = true -> trim_right l = [].
Proof.
  induction l as [|c l IH]; intros H; [reflexivity|]. simpl in *.
  apply andb_true_iff in H as [Hc Hl]. rewrite IH by assumption. rewrite Hc. reflexivity.
Qed.

(** trim_right keeps the head of whatever it leaves. *)
Lemma trim_right_head (l : list Z) : trim_right l = [] \/ exists t, trim_right l = hd 0 l :: t.
Proof.
  destruct l as [|c l]; [left; reflexivity|]. simpl.
  destruct (trim_right l) eqn:E.
  - destruct (isspace c); [left; reflexivity|right; eexists; reflexivity].
  - right. eexists. reflexivity.
Qed.

Lemma term_spaces crlf : forallb isspace (term crlf) = true.
Proof. destruct crlf; reflexivity. Qed.

Lemma trim_term crlf : trim (term crlf) = [].
Proof. destruct crlf; reflexivity. Qed.

Lemma trim_left_ns c l : isspace c = false -> trim_left (c :: l) = c :: l.
Proof. intros H. simpl. rewrite H. reflexivity. Qed.

(** A line of visible characters followed by white space trims to itself. *)
Lemma trim_visible (l sp : list Z) :
  l <> [] -> forallb (fun x => negb (isspace x)) l = true -> forallb isspace sp = true ->
  trim (l ++ sp) = l.
Proof.
  intros Hne Hl Hsp. unfold trim. destruct l as [|c l']; [congruence|].
  simpl in Hl. apply andb_true_iff in Hl as [Hc Hl'].
  change ((c :: l') ++ sp) with (c :: (l' ++ sp)).
  rewrite trim_left_ns by (apply negb_true_iff; assumption).
  change (c :: l' ++ sp) with ((c :: l') ++ sp).
  rewrite trim_right_ns by (simpl; rewrite Hc, Hl'; reflexivity).
  rewrite trim_right_spaces by assumption. apply app_nil_r.
Qed.

Lemma until_sep_name (name rest : list Z) :
  forallb (fun x => negb ((x =? 32) || (x =? 9))) name = true ->
  (rest = [] \/ exists c t, rest = c :: t /\ ((c =? 32) || (c =? 9)) = true) ->
  until_sep (name ++ rest) = name.
Proof.
  induction name as [|x name IH]; intros Hn Hr; simpl in *.
  - destruct Hr as [->|(c & t & -> & Hc)]; [reflexivity|]. simpl. rewrite Hc. reflexivity.
  - apply andb_true_iff in Hn as [Hx Hn]. apply negb_true_iff in Hx. rewrite Hx.
    rewrite IH by assumption. reflexivity.
Qed.

(* ------------------------------------------------------------ has_name *)

Lemma has_name_existsb n idx : has_name n idx = existsb (fun x => bytes_eqb (r_name x) n) idx.
Proof.
  unfold has_name. induction idx as [|r t IH]; simpl; [reflexivity|].
  destruct (bytes_eqb (r_name r) n); [reflexivity|]. exact IH.
Qed.

Lemma has_name_app n a b : has_name n (a ++ b) = has_name n a || has_name n b.
Proof. rewrite !has_name_existsb. apply existsb_app. Qed.

Lemma map_set_fresh idx r : has_name (r_name r) idx = false -> map_set idx r = idx ++ [r].
Proof.
  rewrite has_name_existsb. induction idx as [|x t IH]; simpl; intros H; [reflexivity|].
  apply orb_false_iff in H as [H1 H2]. rewrite H1. rewrite IH by assumption. reflexivity.
Qed.

Lemma lookup_app_fresh n a b : has_name n a = false -> lookup n (a ++ b) = lookup n b.
Proof.
  rewrite has_name_existsb. induction a as [|x t IH]; simpl; intros H; [reflexivity|].
  apply orb_false_iff in H as [H1 H2]. rewrite H1. apply IH. assumption.
Qed.

(* ------------------------------------------------------- firstn / skipn *)

Lemma skipn_add {A} (l : list A) (m n : nat) : skipn n (skipn m l) = skipn (m + n) l.
Proof.
  revert l. induction m as [|m IH]; intros l; simpl; [reflexivity|].
  destruct l as [|x l]; [destruct n; reflexivity|]. apply IH.
Qed.

Lemma firstn_add {A} (l : list A) (n k : nat) : firstn (n + k) l = firstn n l ++ firstn k (skipn n l).
Proof.
  revert l. induction n as [|n IH]; intros l; simpl; [reflexivity|].
  destruct l as [|x l]; simpl; [rewrite firstn_nil; reflexivity|]. rewrite IH. reflexivity.
Qed.

Lemma slice_app_mid (l : list Z) (a b c : Z) :
  0 <= a <= b -> b <= c -> slice l a b ++ slice l b c = slice l a c.
Proof.
  intros Hab Hbc. unfold slice.
  replace (Z.to_nat (c - a)) with (Z.to_nat (b - a) + Z.to_nat (c - b))%nat by lia.
  replace (Z.to_nat b) with (Z.to_nat a + Z.to_nat (b - a))%nat by lia.
  rewrite <- skipn_add. rewrite firstn_add. reflexivity.
Qed.

Lemma slice_nil_eq (l : list Z) (a : Z) : slice l a a = [].
Proof. unfold slice. rewrite Z.sub_diag. reflexivity. Qed.

Lemma zlen_firstn_skipn (l : list Z) (a k : Z) :
  0 <= a -> 0 <= k -> a + k <= zlen l -> zlen (firstn (Z.to_nat k) (skipn (Z.to_nat a) l)) = k.
Proof.
  intros Ha Hk H. unfold zlen in *. rewrite firstn_length, skipn_length. lia.
Qed.

Lemma zlen_slice (l : list Z) (a b : Z) : 0 <= a <= b -> b <= zlen l -> zlen (slice l a b) = b - a.
Proof. intros H1 H2. unfold slice. apply zlen_firstn_skipn; lia. Qed.

Lemma skipn_app_exact {A} (a b : list A) n : n = length a -> skipn n (a ++ b) = b.
Proof. intros ->. rewrite skipn_app, skipn_all, Nat.sub_diag. reflexivity. Qed.
