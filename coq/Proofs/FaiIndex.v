(** C19: NewIndex on the rendering of a well-formed FASTA structure builds
    the true faidx entry of every record. *)
From Coq Require Import ZArith Lia List Bool.
From Hts Require Import Base.Prim Generated Model.Fai Proofs.FaiBase.
Open Scope Z_scope.

(** The blank-line arm of the current source advances the offset.  (When
    the source stops doing so this lemma, and with it fai_index_correct, no
    longer checks.) *)
Lemma blank_adv : fai_NewIndex_blank_advances = true.
Proof. reflexivity. Qed.

(* ------------------------------------------------------ character classes *)

Ltac bprop :=
  repeat match goal with
  | H : _ && _ = true |- _ => apply andb_true_iff in H; destruct H
  | H : negb _ = true |- _ => apply negb_true_iff in H
  | H : (_ <=? _) = true |- _ => apply Z.leb_le in H
  | H : (_ <? _) = true |- _ => apply Z.ltb_lt in H
  | H : (_ =? _) = false |- _ => apply Z.eqb_neq in H
  | H : (_ =? _) = true |- _ => apply Z.eqb_eq in H
  end.

Lemma basech_ns c : basech c = true -> negb (isspace c) = true.
Proof.
  unfold basech, isspace. intros H. bprop. apply negb_true_iff.
  rewrite !orb_false_iff. repeat split; apply Z.eqb_neq; lia.
Qed.

Lemma basech_nolf c : basech c = true -> negb (c =? 10) = true.
Proof. unfold basech. intros H. bprop. apply negb_true_iff, Z.eqb_neq. lia. Qed.

Lemma basech_nogt c : basech c = true -> c <> 62.
Proof. unfold basech. intros H. bprop. assumption. Qed.

Lemma namech_ns c : namech c = true -> negb (isspace c) = true.
Proof.
  unfold namech, isspace. intros H. bprop. apply negb_true_iff.
  rewrite !orb_false_iff. repeat split; apply Z.eqb_neq; lia.
Qed.

Lemma namech_nosep c : namech c = true -> negb ((c =? 32) || (c =? 9)) = true.
Proof.
  unfold namech. intros H. bprop. apply negb_true_iff.
  rewrite !orb_false_iff. repeat split; apply Z.eqb_neq; lia.
Qed.

Lemma namech_nolf c : namech c = true -> negb (c =? 10) = true.
Proof. unfold namech. intros H. bprop. apply negb_true_iff, Z.eqb_neq. lia. Qed.

Lemma descch_nolf c : descch c = true -> negb (c =? 10) = true.
Proof. unfold descch. intros H. bprop. apply negb_true_iff, Z.eqb_neq. assumption. Qed.

Lemma forallb_impl {A} (P Q : A -> bool) l :
  (forall x, P x = true -> Q x = true) -> forallb P l = true -> forallb Q l = true.
Proof.
  intros HPQ. induction l as [|x l IH]; simpl; [reflexivity|].
  intros H. apply andb_true_iff in H as [H1 H2]. rewrite HPQ, IH by assumption. reflexivity.
Qed.

Lemma desc_nolf d : desc_ok d = true -> forallb (fun x => negb (x =? 10)) d = true.
Proof.
  destruct d as [|c t]; [reflexivity|]. simpl. intros H. bprop.
  apply andb_true_iff. split.
  - apply negb_true_iff, Z.eqb_neq. apply orb_true_iff in H as [H|H]; bprop; lia.
  - eapply forallb_impl; [apply descch_nolf|assumption].
Qed.

Lemma term_zlen_pos crlf : 1 <= zlen (term crlf).
Proof. destruct crlf; unfold zlen; simpl; lia. Qed.

(* ---------------------------------------------------------- fold algebra *)

Lemma ni_fold_app adv s a b :
  ni_fold adv s (a ++ b) = obind (ni_fold adv s a) (fun s' => ni_fold adv s' b).
Proof.
  revert s. induction a as [|l a IH]; intros s; simpl; [reflexivity|].
  destruct (ni_step adv s l); simpl; auto.
Qed.

Definition cur_ok (cur : frec) : Prop := cur = rec0 \/ r_name cur <> [].

(* ------------------------------------------------------------ blank lines *)

Lemma step_blank idx cur off want b :
  ni_step true (mkSt idx cur off want) (term b) = Ok (mkSt idx cur (off + zlen (term b)) want).
Proof. unfold ni_step. rewrite trim_term. reflexivity. Qed.

Lemma fold_blanks bl : forall idx cur off want,
  ni_fold true (mkSt idx cur off want) (map term bl) = Ok (mkSt idx cur (off + zlen (blanks bl)) want).
Proof.
  induction bl as [|b bl IH]; intros idx cur off want; cbn [map ni_fold].
  - unfold blanks. cbn [map concat]. rewrite zlen_nil, Z.add_0_r. reflexivity.
  - rewrite step_blank. simpl obind. rewrite IH. unfold blanks. simpl concat.
    rewrite zlen_app'. rewrite Z.add_assoc. reflexivity.
Qed.

(* ---------------------------------------------------------------- header *)

Lemma header_trim name desc sp :
  name <> [] -> forallb namech name = true -> desc_ok desc = true -> forallb isspace sp = true ->
  exists b', trim (62 :: name ++ desc ++ sp) = 62 :: name ++ b' /\
             (b' = [] \/ exists c t, b' = c :: t /\ ((c =? 32) || (c =? 9)) = true).
Proof.
  intros Hne Hn Hd Hsp. exists (trim_right (desc ++ sp)). split.
  - unfold trim. rewrite trim_left_ns by reflexivity.
    change (62 :: name ++ desc ++ sp) with ((62 :: name) ++ (desc ++ sp)).
    rewrite trim_right_ns; [reflexivity|].
    simpl. eapply forallb_impl; [apply namech_ns|assumption].
  - destruct desc as [|c text].
    + left. apply trim_right_spaces. assumption.
    + simpl in Hd. apply andb_true_iff in Hd as [Hc _].
      destruct (trim_right_head ((c :: text) ++ sp)) as [E|[t E]]; [left; exact E|].
      right. exists c, t. split; [exact E|exact Hc].
Qed.

(** A header line, terminated ([sp] = terminator) or not ([sp] = []). *)
Lemma step_header idx cur off want name desc sp :
  name <> [] -> forallb namech name = true -> desc_ok desc = true -> forallb isspace sp = true ->
  cur_ok cur ->
  has_name name (ni_finish (mkSt idx cur off want)) = false ->
  let line := 62 :: name ++ desc ++ sp in
  ni_step true (mkSt idx cur off want) line =
  Ok (mkSt (ni_finish (mkSt idx cur off want)) (mkRec name 0 (off + zlen line) 0 0) (off + zlen line) false).
Proof.
  intros Hne Hn Hd Hsp Hcur Hfresh line. subst line.
  destruct (header_trim name desc sp Hne Hn Hd Hsp) as (b' & Htrim & Hb').
  unfold ni_step. rewrite Htrim. cbv beta iota zeta.
  destruct name as [|c name']; [congruence|].
  change (is_nil (62 :: (c :: name') ++ b')) with false.
  change (bytes_eqb (62 :: (c :: name') ++ b') [62]) with false.
  change (hd 0 (62 :: (c :: name') ++ b') =? 62) with true.
  cbv beta iota.
  change (tl (62 :: (c :: name') ++ b')) with ((c :: name') ++ b').
  rewrite until_sep_name; [|eapply forallb_impl; [apply namech_nosep|assumption]|assumption].
  unfold ni_finish in *. simpl n_idx in *. simpl n_cur in *.
  destruct Hcur as [->|Hcn].
  - simpl in *. rewrite Hfresh. reflexivity.
  - apply is_nil_false in Hcn. rewrite Hcn in *. rewrite Hfresh. reflexivity.
Qed.

(* --------------------------------------------------------- sequence lines *)

Lemma seq_line_trim l sp :
  l <> [] -> forallb basech l = true -> forallb isspace sp = true ->
  trim (l ++ sp) = l /\ is_nil l = false /\ bytes_eqb l [62] = false /\ (hd 0 l =? 62) = false.
Proof.
  intros Hne Hl Hsp. split; [|split; [|split]].
  - apply trim_visible; [assumption| |assumption].
    eapply forallb_impl; [apply basech_ns|assumption].
  - apply is_nil_false. assumption.
  - destruct l as [|c l']; [congruence|]. simpl in Hl. apply andb_true_iff in Hl as [Hc _].
    apply basech_nogt in Hc. simpl. apply Z.eqb_neq in Hc. rewrite Hc. reflexivity.
  - destruct l as [|c l']; [congruence|]. simpl in Hl. apply andb_true_iff in Hl as [Hc _].
    apply basech_nogt in Hc. simpl. apply Z.eqb_neq. assumption.
Qed.

Ltac zcases :=
  repeat match goal with
  | |- context [?a =? ?b] => destruct (Z.eqb_spec a b); try lia
  | |- context [?a <? ?b] => destruct (Z.ltb_spec a b); try lia
  end.

(** A full line of width w with terminator of t bytes: the layout is
    either still unset or already (w, w+t). *)
Lemma step_full idx name L start ba by_ off l sp w :
  l <> [] -> forallb basech l = true -> forallb isspace sp = true ->
  zlen l = w -> (ba = 0 /\ by_ = 0 \/ ba = w /\ by_ = w + zlen sp) ->
  ni_step true (mkSt idx (mkRec name L start ba by_) off false) (l ++ sp) =
  Ok (mkSt idx (mkRec name (L + w) start w (w + zlen sp)) (off + zlen (l ++ sp)) false).
Proof.
  intros Hne Hl Hsp Hw Hlay.
  destruct (seq_line_trim l sp Hne Hl Hsp) as (Ht & Hn & Hb & Hh).
  assert (Hwpos : 1 <= w). { destruct l; [congruence|]. rewrite zlen_cons in Hw. pose proof (zlen_nonneg l). lia. }
  pose proof (zlen_nonneg sp) as Hsp0.
  unfold ni_step. rewrite Ht. cbv beta iota zeta. rewrite Hn, Hb, Hh. cbv beta iota.
  rewrite zlen_app'. rewrite Hw. simpl r_bytes. simpl r_bases. simpl r_len. simpl r_name. simpl r_start.
  destruct Hlay as [[-> ->]|[-> ->]].
  - simpl. zcases. reflexivity.
  - zcases; simpl; zcases; reflexivity.
Qed.

Lemma fold_full full : forall idx name L start ba by_ off crlf w,
  forallb (fun l => (zlen l =? w) && forallb basech l) full = true -> 1 <= w ->
  (ba = 0 /\ by_ = 0 \/ ba = w /\ by_ = w + zlen (term crlf)) ->
  exists ba' by',
    ni_fold true (mkSt idx (mkRec name L start ba by_) off false) (map (fun l => l ++ term crlf) full) =
    Ok (mkSt idx (mkRec name (L + zlen (concat full)) start ba' by')
             (off + zlen (concat (map (fun l => l ++ term crlf) full))) false)
    /\ (match full with [] => ba' = ba /\ by' = by_ | _ => ba' = w /\ by' = w + zlen (term crlf) end).
Proof.
  induction full as [|l full IH]; intros idx name L start ba by_ off crlf w Hf Hw Hlay.
  - exists ba, by_. cbn [map ni_fold concat]. rewrite zlen_nil, !Z.add_0_r. split; [reflexivity|split; reflexivity].
  - simpl in Hf. apply andb_true_iff in Hf as [Hl Hf]. apply andb_true_iff in Hl as [Hlw Hlb].
    apply Z.eqb_eq in Hlw.
    assert (Hne : l <> []). { intros ->. rewrite zlen_nil in Hlw. lia. }
    cbn [map ni_fold].
    rewrite (step_full idx name L start ba by_ off l (term crlf) w Hne Hlb (term_spaces crlf) Hlw Hlay).
    simpl obind.
    destruct (IH idx name (L + w) start w (w + zlen (term crlf)) (off + zlen (l ++ term crlf)) crlf w Hf Hw) as (ba' & by' & HF & Hm).
    { right. split; reflexivity. }
    exists w, (w + zlen (term crlf)). split; [|split; reflexivity].
    rewrite HF. simpl concat. rewrite !zlen_app'. rewrite Hlw.
    destruct full; destruct Hm as [-> ->]; f_equal; f_equal; try lia; f_equal; lia.
Qed.

(** The last line: m bases, 1 <= m <= w, terminated or not. *)
Lemma step_last idx name L start ba by_ off l sp w t :
  l <> [] -> forallb basech l = true -> forallb isspace sp = true ->
  zlen l <= w -> zlen sp <= t ->
  (ba = 0 /\ by_ = 0 \/ ba = w /\ by_ = w + t) ->
  exists want',
  ni_step true (mkSt idx (mkRec name L start ba by_) off false) (l ++ sp) =
  Ok (mkSt idx (mkRec name (L + zlen l) start (if ba =? 0 then zlen l else ba) (if ba =? 0 then zlen l + zlen sp else by_))
           (off + zlen (l ++ sp)) want').
Proof.
  intros Hne Hl Hsp Hw Ht Hlay.
  destruct (seq_line_trim l sp Hne Hl Hsp) as (Htr & Hn & Hb & Hh).
  assert (Hmpos : 1 <= zlen l). { destruct l; [congruence|]. rewrite zlen_cons. pose proof (zlen_nonneg l). lia. }
  pose proof (zlen_nonneg sp) as Hsp0.
  unfold ni_step. rewrite Htr. cbv beta iota zeta. rewrite Hn, Hb, Hh. cbv beta iota.
  rewrite zlen_app'. simpl r_bytes. simpl r_bases. simpl r_len. simpl r_name. simpl r_start.
  destruct Hlay as [[-> ->]|[-> ->]].
  - simpl. zcases. eexists. reflexivity.
  - zcases; simpl; zcases; eexists; reflexivity.
Qed.

(* ------------------------------------------------------------ one record *)

Definition rec_lines (nl : bool) (r : srec) : list (list Z) :=
  if is_empty r then
    ((62 :: s_name r ++ s_desc r) ++ (if nl then term (s_crlf r) else [])) :: map term (s_blanks r)
  else
  render_header r :: map (fun l => l ++ term (s_crlf r)) (s_full r)
  ++ [s_last r ++ (if nl then term (s_crlf r) else [])] ++ map term (s_blanks r).

Fixpoint all_lines (fin : bool) (rs : list srec) : list (list Z) :=
  match rs with
  | [] => []
  | r :: t => match t with [] => rec_lines fin r | _ => rec_lines true r ++ all_lines fin t end
  end.

Lemma wf_rec_head nl r : wf_rec nl r = true ->
  s_name r <> [] /\ forallb namech (s_name r) = true /\ desc_ok (s_desc r) = true /\
  (nl = true \/ s_blanks r = []).
Proof.
  unfold wf_rec. intros H. bprop.
  repeat split; try assumption.
  - apply is_nil_false. assumption.
  - match goal with H : nl || _ = true |- _ => apply orb_true_iff in H as [H|H] end;
      [left; assumption|right; apply is_nil_true; assumption].
Qed.

Lemma wf_rec_parts nl r : wf_rec nl r = true -> is_empty r = false ->
  s_name r <> [] /\ forallb namech (s_name r) = true /\ desc_ok (s_desc r) = true /\
  forallb (fun l => (zlen l =? width r) && forallb basech l) (s_full r) = true /\
  1 <= zlen (s_last r) <= width r /\ forallb basech (s_last r) = true /\
  (nl = true \/ s_blanks r = []).
Proof.
  intros Hwf He. destruct (wf_rec_head _ _ Hwf) as (H1 & H2 & H3 & H4).
  unfold wf_rec in Hwf. rewrite He in Hwf. cbn [orb] in Hwf. unfold wf_body in Hwf. bprop.
  repeat split; assumption.
Qed.

Lemma lines_full full crlf rest :
  forallb (fun l => forallb basech l) full = true ->
  lines (concat (map (fun l => l ++ term crlf) full) ++ rest) = map (fun l => l ++ term crlf) full ++ lines rest.
Proof.
  induction full as [|l full IH]; intros H; [reflexivity|].
  simpl in H. apply andb_true_iff in H as [Hl Hf].
  cbn [map concat]. rewrite <- !app_assoc. rewrite lines_term.
  - rewrite IH by assumption. reflexivity.
  - eapply forallb_impl; [apply basech_nolf|assumption].
Qed.

Lemma header_nolf r : forallb namech (s_name r) = true -> desc_ok (s_desc r) = true ->
  forallb (fun x => negb (x =? 10)) (62 :: s_name r ++ s_desc r) = true.
Proof.
  intros Hn Hd. simpl. rewrite forallb_app. apply andb_true_iff. split.
  - eapply forallb_impl; [apply namech_nolf|assumption].
  - apply desc_nolf. assumption.
Qed.

Lemma full_basech w full :
  forallb (fun l => (zlen l =? w) && forallb basech l) full = true ->
  forallb (fun l => forallb basech l) full = true.
Proof. apply forallb_impl. intros l H. apply andb_true_iff in H as [_ H]. exact H. Qed.

Lemma header_split r : render_header r = (62 :: s_name r ++ s_desc r) ++ term (s_crlf r).
Proof. unfold render_header. cbn [app]. rewrite app_assoc. reflexivity. Qed.

Lemma lines_rec_true r rest : wf_rec true r = true ->
  lines (render_rec true r ++ rest) = rec_lines true r ++ lines rest.
Proof.
  intros Hwf. unfold render_rec, rec_lines. destruct (is_empty r) eqn:He.
  - destruct (wf_rec_head _ _ Hwf) as (Hne & Hn & Hd & _).
    rewrite <- !app_assoc.
    rewrite lines_term by (apply header_nolf; assumption).
    rewrite lines_blanks. reflexivity.
  - destruct (wf_rec_parts _ _ Hwf He) as (Hne & Hn & Hd & Hf & Hl & Hlb & _).
    unfold render_body. rewrite header_split.
    rewrite <- !app_assoc.
    rewrite lines_term by (apply header_nolf; assumption).
    rewrite lines_full by (eapply full_basech; eassumption).
    rewrite lines_term by (eapply forallb_impl; [apply basech_nolf|assumption]).
    rewrite lines_blanks.
    cbn [app]. rewrite <- !app_assoc. reflexivity.
Qed.

Lemma lines_rec_false r : wf_rec false r = true ->
  lines (render_rec false r) = rec_lines false r.
Proof.
  intros Hwf. unfold render_rec, rec_lines. destruct (is_empty r) eqn:He.
  - destruct (wf_rec_head _ _ Hwf) as (Hne & Hn & Hd & [Hx|Hbl]); [discriminate|].
    rewrite Hbl. unfold blanks. cbn [map concat]. rewrite !app_nil_r.
    rewrite lines_last; [reflexivity|discriminate|apply header_nolf; assumption].
  - destruct (wf_rec_parts _ _ Hwf He) as (Hne & Hn & Hd & Hf & Hl & Hlb & [Hx|Hbl]); [discriminate|].
    unfold render_body. rewrite Hbl. rewrite header_split.
    unfold blanks. cbn [map concat]. rewrite !app_nil_r.
    rewrite <- !app_assoc.
    rewrite lines_term by (apply header_nolf; assumption).
    rewrite lines_full by (eapply full_basech; eassumption).
    rewrite lines_last.
    + reflexivity.
    + intros E. rewrite E, zlen_nil in Hl. lia.
    + eapply forallb_impl; [apply basech_nolf|assumption].
Qed.

Lemma lines_render_recs fin rs : wf_recs fin rs = true -> lines (render_recs fin rs) = all_lines fin rs.
Proof.
  induction rs as [|r t IH]; intros H; [reflexivity|].
  destruct t as [|r' t'].
  - cbn [render_recs all_lines]. cbn [wf_recs] in H.
    destruct fin.
    + rewrite <- (app_nil_r (render_rec true r)). rewrite lines_rec_true by assumption.
      simpl lines. apply app_nil_r.
    + apply lines_rec_false. assumption.
  - change (render_recs fin (r :: r' :: t')) with (render_rec true r ++ render_recs fin (r' :: t')).
    change (all_lines fin (r :: r' :: t')) with (rec_lines true r ++ all_lines fin (r' :: t')).
    change (wf_recs fin (r :: r' :: t')) with (wf_rec true r && wf_recs fin (r' :: t')) in H.
    apply andb_true_iff in H as [H1 H2].
    rewrite lines_rec_true by assumption. rewrite IH by assumption. reflexivity.
Qed.

Lemma zlen_concat_bases r : zlen (bases r) = zlen (concat (s_full r)) + zlen (s_last r).
Proof. unfold bases. apply zlen_app'. Qed.

Lemma fold_rec nl r idx cur off want :
  wf_rec nl r = true -> cur_ok cur ->
  has_name (s_name r) (ni_finish (mkSt idx cur off want)) = false ->
  exists want',
    ni_fold true (mkSt idx cur off want) (rec_lines nl r) =
    Ok (mkSt (ni_finish (mkSt idx cur off want)) (entry nl off r) (off + zlen (render_rec nl r)) want').
Proof.
  intros Hwf Hcur Hfresh.
  destruct (is_empty r) eqn:He.
  { destruct (wf_rec_head _ _ Hwf) as (Hne & Hn & Hd & _).
    unfold rec_lines, entry, render_rec. rewrite He. cbn [ni_fold].
    set (sp := if nl then term (s_crlf r) else []).
    assert (Hsp : forallb isspace sp = true) by (subst sp; destruct nl; [apply term_spaces|reflexivity]).
    rewrite <- app_comm_cons, <- app_assoc.
    rewrite (step_header idx cur off want (s_name r) (s_desc r) sp Hne Hn Hd Hsp Hcur Hfresh).
    cbn [obind]. rewrite fold_blanks. exists false. f_equal. f_equal.
    - f_equal. rewrite app_comm_cons, app_assoc, zlen_app'. subst sp. unfold tlen.
      cbn [app]. destruct nl; [|rewrite zlen_nil]; lia.
    - rewrite !zlen_app', !zlen_cons, !zlen_app'. lia. }
  destruct (wf_rec_parts _ _ Hwf He) as (Hne & Hn & Hd & Hf & Hl & Hlb & Hbl).
  unfold rec_lines. rewrite He. cbn [ni_fold].
  unfold render_header at 1.
  rewrite (step_header idx cur off want (s_name r) (s_desc r) (term (s_crlf r)) Hne Hn Hd (term_spaces _) Hcur Hfresh).
  cbn [obind].
  set (hl := zlen (62 :: s_name r ++ s_desc r ++ term (s_crlf r))).
  set (idx1 := ni_finish (mkSt idx cur off want)).
  rewrite ni_fold_app.
  destruct (fold_full (s_full r) idx1 (s_name r) 0 (off + hl) 0 0 (off + hl) (s_crlf r) (width r) Hf) as (ba' & by' & HF & Hm); [lia|left; split; reflexivity|].
  rewrite HF. cbn [obind]. rewrite ni_fold_app. cbn [ni_fold].
  set (sp := if nl then term (s_crlf r) else []).
  assert (Hsp : forallb isspace sp = true) by (subst sp; destruct nl; [apply term_spaces|reflexivity]).
  assert (Hspt : zlen sp <= zlen (term (s_crlf r))).
  { subst sp. destruct nl; [lia|]. rewrite zlen_nil. pose proof (term_zlen_pos (s_crlf r)). lia. }
  assert (Hlne : s_last r <> []). { intros E. rewrite E, zlen_nil in Hl. lia. }
  destruct (step_last idx1 (s_name r) (0 + zlen (concat (s_full r))) (off + hl) ba' by'
              (off + hl + zlen (concat (map (fun l => l ++ term (s_crlf r)) (s_full r))))
              (s_last r) sp (width r) (zlen (term (s_crlf r))) Hlne Hlb Hsp (proj2 Hl) Hspt) as (want' & HL).
  { destruct (s_full r); destruct Hm as [-> ->]; [left|right]; split; reflexivity. }
  rewrite HL. cbn [obind]. rewrite fold_blanks.
  exists want'. f_equal. f_equal.
  - unfold entry. rewrite He. rewrite zlen_concat_bases. unfold render_header. fold hl. unfold tlen.
    unfold width, first_line in *.
    destruct (s_full r) as [|l0 fl] eqn:Efull; destruct Hm as [-> ->].
    + change (0 =? 0) with true. cbv beta iota. subst sp. f_equal; try lia.
      destruct nl; [reflexivity|]. rewrite zlen_nil. reflexivity.
    + assert (Hw0 : (zlen l0 =? 0) = false).
      { apply Z.eqb_neq. lia. }
      rewrite Hw0. f_equal; lia.
  - unfold render_rec. rewrite He. unfold render_body, render_header. fold hl. fold sp. rewrite !zlen_app'. fold hl. lia.
Qed.

(* ------------------------------------------------------------ all records *)

Lemma nodup_names_cons r t : nodup_names (r :: t) = true ->
  (forall x, In x t -> bytes_eqb (s_name x) (s_name r) = false) /\ nodup_names t = true.
Proof.
  simpl. intros H. apply andb_true_iff in H as [H1 H2]. split; [|assumption].
  apply negb_true_iff in H1. intros x Hx.
  destruct (bytes_eqb (s_name x) (s_name r)) eqn:E; [|reflexivity].
  assert (existsb (fun x0 => bytes_eqb (s_name x0) (s_name r)) t = true).
  { apply existsb_exists. exists x. split; assumption. }
  congruence.
Qed.

Lemma render_recs_cons fin r t :
  render_recs fin (r :: t) = render_rec (match t with [] => fin | _ => true end) r ++ render_recs fin t.
Proof. destruct t; cbn [render_recs]; [rewrite app_nil_r|]; reflexivity. Qed.

Lemma entries_cons fin off r t :
  entries fin off (r :: t) =
  entry (match t with [] => fin | _ => true end) off r :: entries fin (off + zlen (render_rec true r)) t.
Proof. destruct t; reflexivity. Qed.

Lemma all_lines_cons fin r t :
  all_lines fin (r :: t) = rec_lines (match t with [] => fin | _ => true end) r ++ all_lines fin t.
Proof. destruct t; cbn [all_lines]; [rewrite app_nil_r|]; reflexivity. Qed.

Lemma wf_recs_cons fin r t :
  wf_recs fin (r :: t) = wf_rec (match t with [] => fin | _ => true end) r && wf_recs fin t.
Proof. destruct t; cbn [wf_recs]; [rewrite andb_true_r|]; reflexivity. Qed.

Lemma entry_name nl off r : r_name (entry nl off r) = s_name r.
Proof. unfold entry. destruct (is_empty r); reflexivity. Qed.

Lemma fold_recs rs : forall fin idx cur off want,
  wf_recs fin rs = true -> nodup_names rs = true -> cur_ok cur ->
  (forall r, In r rs -> has_name (s_name r) (ni_finish (mkSt idx cur off want)) = false) ->
  exists s',
    ni_fold true (mkSt idx cur off want) (all_lines fin rs) = Ok s' /\
    ni_finish s' = ni_finish (mkSt idx cur off want) ++ entries fin off rs /\
    n_off s' = off + zlen (render_recs fin rs).
Proof.
  induction rs as [|r t IH]; intros fin idx cur off want Hwf Hnd Hcur Hfresh.
  - exists (mkSt idx cur off want). cbn [all_lines ni_fold entries render_recs n_off].
    rewrite app_nil_r, zlen_nil, Z.add_0_r. repeat split; reflexivity.
  - rewrite wf_recs_cons in Hwf. apply andb_true_iff in Hwf as [Hwr Hwt].
    destruct (nodup_names_cons _ _ Hnd) as [Hdiff Hndt].
    set (nl := match t with [] => fin | _ => true end) in *.
    destruct (fold_rec nl r idx cur off want Hwr Hcur (Hfresh r (or_introl eq_refl))) as (want' & HR).
    rewrite all_lines_cons. fold nl. rewrite ni_fold_app, HR. cbn [obind].
    set (idx1 := ni_finish (mkSt idx cur off want)) in *.
    assert (Hne : s_name r <> []) by (apply (wf_rec_head _ _ Hwr)).
    assert (Hfin1 : ni_finish (mkSt idx1 (entry nl off r) (off + zlen (render_rec nl r)) want') = idx1 ++ [entry nl off r]).
    { unfold ni_finish. cbn [n_cur n_idx]. rewrite entry_name.
      apply is_nil_false in Hne. rewrite Hne. apply map_set_fresh. rewrite entry_name.
      apply (Hfresh r (or_introl eq_refl)). }
    destruct (IH fin idx1 (entry nl off r) (off + zlen (render_rec nl r)) want' Hwt Hndt) as (s' & HF & Hfin & Hoff).
    { right. rewrite entry_name. assumption. }
    { intros x Hx. rewrite Hfin1. rewrite has_name_app. rewrite (Hfresh x (or_intror Hx)).
      unfold has_name, lookup. rewrite entry_name. rewrite bytes_eqb_sym. rewrite (Hdiff x Hx). reflexivity. }
    exists s'. split; [exact HF|]. split.
    + rewrite Hfin, Hfin1, entries_cons. fold nl. rewrite <- app_assoc. cbn [app].
      destruct t as [|r' t'].
      * reflexivity.
      * subst nl. reflexivity.
    + rewrite Hoff, render_recs_cons. fold nl. rewrite zlen_app'. lia.
Qed.

(* ------------------------------------------------------- Scanner limit *)

Lemma scan_tokens_fit ls : forallb token_fits ls = true -> scan_tokens ls = (ls, false).
Proof.
  induction ls as [|l t IH]; intros H; [reflexivity|].
  cbn [forallb] in H. apply andb_true_iff in H as [H1 H2].
  cbn [scan_tokens]. rewrite H1, IH by assumption. reflexivity.
Qed.

Lemma scan_tokens_long ls : forallb token_fits ls = false -> snd (scan_tokens ls) = true.
Proof.
  induction ls as [|l t IH]; intros H; [discriminate|].
  cbn [forallb] in H. cbn [scan_tokens]. destruct (token_fits l); [|reflexivity].
  cbn [andb] in H. destruct (scan_tokens t) as [a b]. cbn [snd] in *. apply IH. assumption.
Qed.

Lemma newindex_gen_fit adv file : lines_fit file = true ->
  newindex_gen adv file = obind (ni_fold adv nstate0 (lines file)) (fun s => Ok (ni_finish s)).
Proof.
  unfold newindex_gen, lines_fit. intros H. rewrite scan_tokens_fit by assumption. reflexivity.
Qed.

(** The scan loop ends normally or with one of its error exits. *)
Lemma ni_step_total adv s l : (exists s', ni_step adv s l = Ok s') \/ (exists e, ni_step adv s l = Err e).
Proof.
  unfold ni_step. destruct s as [idx cur off want]. cbv zeta.
  repeat match goal with
         | |- context [if ?c then _ else _] => destruct c
         | |- context [let '(_, _) := ?p in _] => destruct p
         end; cbn [obind]; eauto.
Qed.

Lemma ni_fold_total adv ls : forall s, (exists s', ni_fold adv s ls = Ok s') \/ (exists e, ni_fold adv s ls = Err e).
Proof.
  induction ls as [|l t IH]; intros s; cbn [ni_fold]; [eauto|].
  destruct (ni_step_total adv s l) as [[s' ->]|[e ->]]; cbn [obind]; [apply IH|eauto].
Qed.

(** A line beyond the Scanner's limit: NewIndex reports an error (an error
    exit of the loop on an earlier line, or the Scanner's), never an index. *)
Theorem newindex_too_long file : lines_fit file = false -> exists e, newindex file = Err e.
Proof.
  unfold lines_fit. intros H. apply scan_tokens_long in H.
  unfold newindex, newindex_gen. destruct (scan_tokens (lines file)) as [toks b]. cbn [snd] in H. subst b.
  destruct (ni_fold_total fai_NewIndex_blank_advances toks nstate0) as [[s' ->]|[e ->]]; cbn [obind]; eauto.
Qed.

(** NewIndex of the rendering of a well-formed file is the list of true entries. *)
Theorem newindex_render f : wf f = true -> lines_fit (render f) = true -> newindex (render f) = Ok (index_of f).
Proof.
  unfold wf. intros H Hfit. bprop.
  unfold newindex. rewrite newindex_gen_fit by assumption. rewrite blank_adv.
  unfold render. rewrite lines_blanks. rewrite lines_render_recs by assumption.
  rewrite ni_fold_app. unfold nstate0. rewrite fold_blanks. cbn [obind].
  destruct (fold_recs (f_recs f) (f_final_nl f) [] rec0 (0 + zlen (blanks (f_lead f))) false) as (s' & HF & Hfin & _);
    try assumption.
  - left. reflexivity.
  - intros r _. reflexivity.
  - rewrite HF. cbn [obind]. rewrite Hfin. unfold index_of. rewrite Z.add_0_l. reflexivity.
Qed.
