(** C19: Seq.Read over a record whose bases sit in the file where its index
    entry says returns exactly the requested bases, for every buffer-size
    script; and the entries NewIndex builds for a well-formed file have that
    property. *)
From Coq Require Import ZArith Lia List Bool.
From Hts Require Import Base.Prim Generated Model.Fai Proofs.FaiBase Proofs.FaiIndex.
Open Scope Z_scope.

(** [layout file e seq]: the entry [e] addresses the bases [seq] in [file]:
    any k >= 1 bytes that stay inside line i (columns j .. j+k) are read
    completely and are the bases i*B+j .. i*B+j+k. *)
Definition layout (file : list Z) (e : frec) (seq : list Z) : Prop :=
  r_len e = zlen seq /\ 1 <= r_bases e /\ r_bases e <= r_bytes e /\
  forall (ch : bool) i j k, 0 <= i -> 0 <= j -> 1 <= k -> j + k <= r_bases e ->
    i * r_bases e + j + k <= r_len e ->
    exists err,
      read_at file ch (r_start e + (i * r_bytes e + j)) k
      = (slice seq (i * r_bases e + j) (i * r_bases e + j + k), err) /\
      (err = NIL \/ err = EOF /\ ch = true /\ i * r_bases e + j + k = r_len e).

(* ----------------------------------------------- generated arithmetic *)

Lemma position_ok e p : 1 <= r_bases e -> 0 <= p ->
  position e p = Ok (r_start e + (p / r_bases e * r_bytes e + p mod r_bases e)).
Proof.
  intros HB Hp. unfold position, fai_Record_position, chk.
  destruct (Z.eqb_spec (r_bases e) 0); [lia|]. cbn [negb].
  rewrite Z.quot_div_nonneg, Z.rem_mod_nonneg by lia. reflexivity.
Qed.

Lemma eol_ok e p : 1 <= r_bases e -> 0 <= p -> 0 <= r_len e ->
  eol_offset e p = Ok (if p / r_bases e =? r_len e / r_bases e then r_len e - p else r_bases e - p mod r_bases e).
Proof.
  intros HB Hp HL. unfold eol_offset, fai_Record_endOfLineOffset, chk.
  destruct (Z.eqb_spec (r_bases e) 0); [lia|]. cbn [negb].
  rewrite !Z.quot_div_nonneg, Z.rem_mod_nonneg by lia.
  destruct (p / r_bases e =? r_len e / r_bases e); reflexivity.
Qed.

(** The number of bytes one iteration asks for (before capping by the
    buffer): at least one, inside the current line, not beyond the end. *)
Lemma chunk_bounds B Y L p send :
  1 <= B -> B <= Y -> 0 <= p -> p < send -> send <= L ->
  let eo := if p / B =? L / B then L - p else B - p mod B in
  let d := (send / B * Y + send mod B) - (p / B * Y + p mod B) in
  1 <= Z.min eo d /\ p mod B + Z.min eo d <= B /\ p + Z.min eo d <= send.
Proof.
  intros HB HY Hp Hps HsL.
  pose proof (Z.div_mod p B ltac:(lia)) as E1. pose proof (Z.mod_pos_bound p B ltac:(lia)) as M1.
  pose proof (Z.div_mod send B ltac:(lia)) as E2. pose proof (Z.mod_pos_bound send B ltac:(lia)) as M2.
  pose proof (Z.div_mod L B ltac:(lia)) as E3. pose proof (Z.mod_pos_bound L B ltac:(lia)) as M3.
  pose proof (Z.div_le_mono p send B ltac:(lia) ltac:(lia)) as D1.
  pose proof (Z.div_le_mono send L B ltac:(lia) ltac:(lia)) as D2.
  pose proof (Z.div_pos p B ltac:(lia) ltac:(lia)) as P1.
  revert E1 E2 E3 M1 M2 M3 D1 D2 P1.
  generalize (p / B) as i, (p mod B) as j, (send / B) as i2, (send mod B) as j2, (L / B) as iL, (L mod B) as jL.
  intros i j i2 j2 iL jL E1 E2 E3 M1 M2 M3 D1 D2 P1. cbv zeta.
  destruct (Z.eq_dec i i2) as [->|Hne].
  - replace (i2 * Y + j2 - (i2 * Y + j)) with (j2 - j) by lia.
    destruct (Z.eqb_spec i2 iL); nia.
  - assert (Hi : i + 1 <= i2) by lia.
    assert (HY1 : Y <= (i2 - i) * Y) by nia.
    assert (HB1 : B * (i + 1) <= B * i2) by nia.
    destruct (Z.eqb_spec i iL); [lia|]. nia.
Qed.

(* ----------------------------------------------------------- the loop *)

(** What the error of a Read with a buffer of [k] bytes and [rem] bases left
    can be: the ideal reader's, or io.EOF together with the last bytes when
    exactly [k] were left and the ReaderAt chose to report io.EOF with them. *)
Definition err_ok (ch : nat -> bool) (k rem err : Z) : Prop :=
  err = (if k =? 0 then NIL else if rem <? k then EOF else NIL) \/
  (err = EOF /\ 0 < k /\ rem = k /\ exists n, ch n = true).

Lemma read_loop_ok file ch e seq : layout file e seq ->
  forall send endoff, 0 <= send <= r_len e -> position e send = Ok endoff ->
  forall fuel c cur blen acc, 0 <= cur <= send -> 1 <= blen -> (Z.to_nat (send - cur) <= fuel)%nat ->
  exists err c',
  read_loop file ch e endoff send fuel c cur blen acc =
  Ok (acc ++ slice seq cur (cur + Z.min blen (send - cur)), cur + Z.min blen (send - cur), err, c')
  /\ err_ok ch blen (send - cur) err.
Proof.
  intros (HL & HB & HY & Hread) send endoff Hsend Hend.
  rewrite position_ok in Hend by lia. injection Hend as Hend. subst endoff.
  assert (Hdone : forall c blen acc, 1 <= blen ->
            exists err c', (Ok (acc, send, EOF, c) : outcome (list Z * Z * Z * nat)) =
              Ok (acc ++ slice seq send (send + Z.min blen (send - send)), send + Z.min blen (send - send), err, c')
              /\ err_ok ch blen (send - send) err).
  { intros c blen acc Hb. exists EOF, c. rewrite Z.sub_diag. rewrite Z.min_r by lia.
    rewrite Z.add_0_r, slice_nil_eq, app_nil_r. split; [reflexivity|]. left.
    destruct (Z.eqb_spec blen 0); [lia|]. destruct (Z.ltb_spec 0 blen); [reflexivity|lia]. }
  induction fuel as [|fuel IH]; intros c cur blen acc Hcur Hblen Hfuel.
  - assert (cur = send) by lia. subst cur. cbn [read_loop]. rewrite Z.ltb_irrefl. apply Hdone. assumption.
  - cbn [read_loop]. destruct (Z.ltb_spec cur send) as [Hlt|Hge].
    + rewrite position_ok by lia. rewrite eol_ok by lia. cbn [obind].
      pose proof (chunk_bounds (r_bases e) (r_bytes e) (r_len e) cur send HB HY ltac:(lia) Hlt ltac:(lia)) as HC.
      cbv zeta in HC.
      replace (r_start e + (send / r_bases e * r_bytes e + send mod r_bases e)
               - (r_start e + (cur / r_bases e * r_bytes e + cur mod r_bases e)))
        with (send / r_bases e * r_bytes e + send mod r_bases e - (cur / r_bases e * r_bytes e + cur mod r_bases e)) by lia.
      set (k' := Z.min _ _) in *.
      destruct HC as (Hk1 & Hk2 & Hk3).
      set (k := Z.min k' blen).
      assert (Hk : 1 <= k <= k') by (subst k; lia).
      destruct (Z.ltb_spec k 0); [lia|].
      pose proof (Z.div_mod cur (r_bases e) ltac:(lia)) as Ecur.
      pose proof (Z.mod_pos_bound cur (r_bases e) ltac:(lia)) as Mcur.
      pose proof (Z.div_pos cur (r_bases e) ltac:(lia) ltac:(lia)) as Pcur.
      destruct (Hread (ch c) (cur / r_bases e) (cur mod r_bases e) k) as (err0 & Hrd & Herr0); try lia.
      rewrite Hrd.
      replace (cur / r_bases e * r_bases e + cur mod r_bases e) with cur in * by lia.
      rewrite zlen_slice by lia.
      replace (cur + k - cur) with k by lia.
      destruct Herr0 as [->|(-> & Hch & Hlast)].
      * change (NIL =? NIL) with true. cbn [negb orb].
        destruct (Z.eqb_spec (blen - k) 0) as [Hz|Hnz].
        -- assert (k = blen) by lia.
           exists NIL, (S c). rewrite (Z.min_l blen (send - cur)) by lia.
           replace (cur + blen) with (cur + k) by lia. split; [reflexivity|]. left.
           destruct (Z.eqb_spec blen 0); [lia|]. destruct (Z.ltb_spec (send - cur) blen); [lia|reflexivity].
        -- destruct (Z.eqb_spec k 0); [lia|].
           assert (k = k') by lia.
           destruct (IH (S c) (cur + k) (blen - k) (acc ++ slice seq cur (cur + k))) as (err & c' & HR & He); try lia.
           exists err, c'. rewrite HR.
           rewrite <- app_assoc. rewrite slice_app_mid by lia.
           replace (cur + k + Z.min (blen - k) (send - (cur + k))) with (cur + Z.min blen (send - cur)) by lia.
           split; [reflexivity|].
           destruct He as [He|(He1 & He2 & He3 & He4)].
           ++ left. rewrite He.
              destruct (Z.eqb_spec (blen - k) 0); [lia|]. destruct (Z.eqb_spec blen 0); [lia|].
              destruct (Z.ltb_spec (send - cur) blen), (Z.ltb_spec (send - (cur + k)) (blen - k)); try reflexivity; lia.
           ++ right. repeat split; try lia; assumption.
      * change (EOF =? NIL) with false. cbn [negb orb].
        assert (send = cur + k) by lia.
        exists EOF, (S c). rewrite (Z.min_r blen (send - cur)) by lia.
        replace (cur + (send - cur)) with (cur + k) by lia. split; [reflexivity|].
        destruct (Z.eq_dec k blen) as [Hkb|Hkb].
        -- right. repeat split; try lia. exists c. assumption.
        -- left. destruct (Z.eqb_spec blen 0); [lia|]. destruct (Z.ltb_spec (send - cur) blen); [reflexivity|lia].
    + assert (cur = send) by lia. subst cur. apply Hdone. assumption.
Qed.

(** One Read call. *)
Lemma seq_read_ok file ch e seq : layout file e seq ->
  forall s send c cur blen, 0 <= cur <= send -> send <= r_len e -> 0 <= blen ->
  exists err c',
  seq_read file ch c (mkSeq e cur s send) blen =
  (Ok (slice seq cur (cur + Z.min blen (send - cur)), err),
   mkSeq e (cur + Z.min blen (send - cur)) s send, c')
  /\ err_ok ch blen (send - cur) err.
Proof.
  intros Hlay s send c cur blen Hcur Hsend Hblen.
  pose proof Hlay as (HL & HB & HY & _).
  unfold seq_read. cbn [q_rec q_cur q_start q_end].
  destruct (Z.eqb_spec blen 0) as [->|Hnz].
  - exists NIL, c. rewrite Z.min_l by lia. rewrite Z.add_0_r, slice_nil_eq. split; [reflexivity|]. left. reflexivity.
  - destruct (Z.leb_spec send cur).
    + assert (cur = send) by lia. subst cur. exists EOF, c. rewrite Z.sub_diag, Z.min_r by lia.
      rewrite Z.add_0_r, slice_nil_eq. split; [reflexivity|]. left.
      destruct (Z.eqb_spec blen 0); [lia|]. destruct (Z.ltb_spec 0 blen); [reflexivity|lia].
    + rewrite position_ok by lia.
      destruct (read_loop_ok file ch e seq Hlay send _ ltac:(lia) (position_ok e send HB ltac:(lia))
                  (Z.to_nat (send - cur)) c cur blen []) as (err & c' & HR & He); try lia.
      exists err, c'. rewrite HR. split; [reflexivity|assumption].
Qed.

(* ------------------------------------------------------------ scripts *)

Lemma firstn_slice (l : list Z) (a b k : Z) : 0 <= k -> a <= b ->
  firstn (Z.to_nat k) (slice l a b) = slice l a (a + Z.min k (b - a)).
Proof.
  intros Hk Hab. unfold slice. rewrite firstn_firstn. f_equal. lia.
Qed.

Lemma skipn_slice (l : list Z) (a b k : Z) : 0 <= a -> 0 <= k -> a <= b ->
  skipn (Z.to_nat k) (slice l a b) = slice l (a + Z.min k (b - a)) b.
Proof.
  intros Ha Hk Hab. unfold slice. rewrite skipn_firstn_comm. rewrite skipn_add.
  destruct (Z.le_gt_cases k (b - a)).
  - rewrite Z.min_l by lia. f_equal; [lia|]. f_equal. lia.
  - rewrite Z.min_r by lia.
    replace (Z.to_nat (b - a) - Z.to_nat k)%nat with 0%nat by lia.
    replace (Z.to_nat (b - (a + (b - a)))) with 0%nat by lia. reflexivity.
Qed.

(** A whole script over a record with [layout]: its results satisfy the
    io.Reader contract over the requested bases whatever the ReaderAt chooses,
    and are exactly the ideal reader's when it never chooses io.EOF together
    with the last bytes. *)
Lemma seq_script_ok file ch e seq : layout file e seq ->
  forall s send, 0 <= s <= send -> send <= r_len e ->
  forall sizes c cur, s <= cur <= send ->
  conforms (slice seq s send) (slice seq cur send) sizes (seq_script file ch c (mkSeq e cur s send) sizes) = true
  /\ ((forall n, ch n = false) ->
      seq_script file ch c (mkSeq e cur s send) sizes = ideal_script (slice seq s send) (slice seq cur send) sizes).
Proof.
  intros Hlay s send Hs Hsend. pose proof Hlay as (HL & _).
  induction sizes as [|k t IH]; intros c cur Hcur; [split; reflexivity|].
  cbn [seq_script ideal_script conforms].
  destruct (Z.ltb_spec k 0).
  - unfold seq_reset. cbn [q_rec q_start q_end]. apply IH. lia.
  - destruct (seq_read_ok file ch e seq Hlay s send c cur k) as (err & c' & HR & He); try lia.
    rewrite HR.
    destruct (IH c' (cur + Z.min k (send - cur)) ltac:(lia)) as [IHc IHe].
    destruct (Z.eqb_spec k 0) as [->|Hk].
    + rewrite Z.min_l in * by lia. rewrite Z.add_0_r in *. rewrite slice_nil_eq.
      destruct He as [->|(_ & Hx & _)]; [|lia]. cbn [is_nil andb]. change (NIL =? NIL) with true.
      split; [exact IHc|]. intros Hlazy. f_equal. apply IHe. assumption.
    + rewrite firstn_slice by lia. rewrite skipn_slice by lia. rewrite zlen_slice by lia.
      rewrite bytes_eqb_refl. cbn [andb]. split.
      * rewrite IHc, andb_true_r.
        destruct He as [->|(-> & _ & Hrem & _)].
        -- destruct (Z.eqb_spec k 0); [lia|]. rewrite Z.eqb_refl. reflexivity.
        -- rewrite Hrem. rewrite (Z.eqb_refl k). change (EOF =? EOF) with true. cbn [andb]. apply orb_true_r.
      * intros Hlazy. destruct He as [->|(_ & _ & _ & n & Hn)]; [|rewrite Hlazy in Hn; discriminate].
        destruct (Z.eqb_spec k 0); [lia|]. f_equal. apply IHe. assumption.
Qed.

(* ------------------------------------------- where the bases of a record are *)

Lemma firstn_skipn_app {A} (a b : list A) (j k : nat) :
  (j + k <= length a)%nat -> firstn k (skipn j (a ++ b)) = firstn k (skipn j a).
Proof.
  intros H. rewrite skipn_app. rewrite firstn_app.
  replace (k - length (skipn j a))%nat with 0%nat by (rewrite skipn_length; lia).
  cbn [firstn]. apply app_nil_r.
Qed.

(** Line i (0-based) of a body made of full lines of w bases, each followed
    by a terminator, and a last line. *)
Lemma body_read full : forall (i : nat) (j k : Z) (last tail : list Z) (crlf : bool) (w : Z),
  Forall (fun l => zlen l = w) full -> 0 <= j -> 1 <= k ->
  ((i < length full)%nat /\ j + k <= w \/ i = length full /\ j + k <= zlen last) ->
  firstn (Z.to_nat k) (skipn (Z.to_nat (Z.of_nat i * (w + zlen (term crlf)) + j))
                             (concat (map (fun l => l ++ term crlf) full) ++ last ++ tail))
  = firstn (Z.to_nat k) (skipn (Z.to_nat (Z.of_nat i * w + j)) (concat full ++ last)).
Proof.
  induction full as [|l full IH]; intros i j k last tail crlf w Hw Hj Hk Hi.
  - destruct Hi as [[Hi _]|[-> Hjk]]; [simpl in Hi; lia|].
    cbn [map concat app length Z.of_nat]. rewrite !Z.mul_0_l, !Z.add_0_l.
    apply firstn_skipn_app. unfold zlen in Hjk. lia.
  - inversion Hw as [|? ? Hl Hw']; subst.
    pose proof (zlen_nonneg l) as Hl0. pose proof (term_zlen_pos crlf) as Ht.
    cbn [map concat]. rewrite <- !app_assoc.
    destruct i as [|i'].
    + destruct Hi as [[_ Hjk]|[Hi _]]; [|simpl in Hi; lia].
      cbn [Z.of_nat]. rewrite !Z.mul_0_l, !Z.add_0_l.
      rewrite !firstn_skipn_app by (unfold zlen in Hjk; lia). reflexivity.
    + replace (Z.to_nat (Z.of_nat (S i') * (zlen l + zlen (term crlf)) + j))
        with (length (l ++ term crlf) + Z.to_nat (Z.of_nat i' * (zlen l + zlen (term crlf)) + j))%nat
        by (rewrite app_length; unfold zlen in *; nia).
      replace (Z.to_nat (Z.of_nat (S i') * zlen l + j))
        with (length l + Z.to_nat (Z.of_nat i' * zlen l + j))%nat
        by (unfold zlen in *; nia).
      rewrite <- !skipn_add.
      rewrite (app_assoc l (term crlf)).
      rewrite (skipn_app_exact (l ++ term crlf)) by reflexivity.
      rewrite (skipn_app_exact l) by reflexivity.
      apply IH; try assumption.
      destruct Hi as [[Hi Hjk]|[Hi Hjk]]; [left|right]; split; try assumption; simpl in Hi; lia.
Qed.

Lemma read_at_pre (pre B : list Z) (ch : bool) (x k : Z) :
  0 <= x -> 1 <= k -> zlen (firstn (Z.to_nat k) (skipn (Z.to_nat x) B)) = k ->
  exists err,
    read_at (pre ++ B) ch (zlen pre + x) k = (firstn (Z.to_nat k) (skipn (Z.to_nat x) B), err) /\
    (err = NIL \/ err = EOF /\ ch = true /\ x + k = zlen B).
Proof.
  intros Hx Hk Hlen. unfold read_at. pose proof (zlen_nonneg pre).
  destruct (Z.ltb_spec (zlen pre + x) 0); [lia|].
  assert (Hxl : x < zlen B).
  { unfold zlen in *. rewrite firstn_length, skipn_length in Hlen. lia. }
  rewrite zlen_app'. destruct (Z.leb_spec (zlen pre + zlen B) (zlen pre + x)); [lia|].
  replace (Z.to_nat (zlen pre + x)) with (length pre + Z.to_nat x)%nat by (unfold zlen; lia).
  rewrite <- skipn_add. rewrite (skipn_app_exact pre) by reflexivity.
  rewrite Hlen. rewrite Z.ltb_irrefl.
  destruct (Z.eqb_spec (zlen pre + x + k) (zlen pre + zlen B)); destruct ch; cbn [andb];
    eexists; (split; [reflexivity|]); try (left; reflexivity).
  right. repeat split; try reflexivity. lia.
Qed.

Lemma full_widths w (full : list (list Z)) :
  forallb (fun l => (zlen l =? w) && forallb basech l) full = true -> Forall (fun l => zlen l = w) full.
Proof.
  induction full as [|l full IH]; simpl; intros H; constructor.
  - apply andb_true_iff in H as [H _]. apply andb_true_iff in H as [H _]. apply Z.eqb_eq. assumption.
  - apply IH. apply andb_true_iff in H as [_ H]. assumption.
Qed.

Lemma zlen_concat_full w (full : list (list Z)) : Forall (fun l => zlen l = w) full -> zlen (concat full) = Z.of_nat (length full) * w.
Proof.
  induction 1 as [|l full Hl _ IH]; [reflexivity|].
  cbn [concat length]. rewrite zlen_app', IH, Hl. lia.
Qed.

Lemma zlen_concat_term w (full : list (list Z)) crlf : Forall (fun l => zlen l = w) full ->
  zlen (concat (map (fun l => l ++ term crlf) full)) = Z.of_nat (length full) * (w + zlen (term crlf)).
Proof.
  induction 1 as [|l full Hl _ IH]; [reflexivity|].
  cbn [map concat length]. rewrite !zlen_app', IH, Hl. lia.
Qed.

(** The entry of a well-formed record rendered at offset [zlen pre] addresses its bases. *)
Lemma layout_rec nl r pre post : wf_rec nl r = true -> is_empty r = false ->
  layout (pre ++ render_rec nl r ++ post) (entry nl (zlen pre) r) (bases r).
Proof.
  intros Hwf He. destruct (wf_rec_parts _ _ Hwf He) as (Hne & Hn & Hd & Hf & Hl & Hlb & Hbl).
  pose proof (full_widths _ _ Hf) as Hw. pose proof (zlen_concat_full _ _ Hw) as Hcf.
  pose proof (term_zlen_pos (s_crlf r)) as Ht.
  set (sp := if nl then term (s_crlf r) else []).
  assert (Hsp0 : 0 <= zlen sp) by apply zlen_nonneg.
  unfold layout, entry. rewrite He. cbn [r_len r_start r_bases r_bytes]. unfold tlen.
  split; [reflexivity|]. split; [lia|]. split.
  { destruct (s_full r); [destruct nl|]; lia. }
  intros ch i j k Hi Hj Hk Hjk Hend.
  rewrite zlen_concat_bases, Hcf in Hend.
  unfold render_rec. rewrite He. unfold render_body. fold sp.
  rewrite <- !app_assoc. rewrite (app_assoc pre (render_header r)).
  rewrite <- zlen_app'.
  set (bytes_ := width r + match s_full r with [] => if nl then zlen (term (s_crlf r)) else 0 | _ :: _ => zlen (term (s_crlf r)) end).
  set (tail := sp ++ blanks (s_blanks r) ++ post).
  (* the line index *)
  assert (Hline : (Z.to_nat i < length (s_full r))%nat /\ j + k <= width r \/
                  Z.to_nat i = length (s_full r) /\ j + k <= zlen (s_last r)).
  { destruct (Z.lt_ge_cases i (Z.of_nat (length (s_full r)))); [left; split; lia|right].
    assert (i = Z.of_nat (length (s_full r))) by nia. split; [lia|]. subst i. lia. }
  assert (Hoff : i * bytes_ + j = Z.of_nat (Z.to_nat i) * (width r + zlen (term (s_crlf r))) + j).
  { rewrite Z2Nat.id by lia. subst bytes_. destruct (s_full r) as [|l0 fl].
    - destruct Hline as [[Hx _]|[Hx _]]; simpl in Hx; [lia|]. assert (i = 0) by lia. subst i. lia.
    - reflexivity. }
  assert (Hbody := body_read (s_full r) (Z.to_nat i) j k (s_last r) tail (s_crlf r) (width r) Hw Hj Hk Hline).
  rewrite Z2Nat.id in Hbody by lia.
  assert (Hslice : firstn (Z.to_nat k) (skipn (Z.to_nat (i * width r + j)) (concat (s_full r) ++ s_last r))
                   = slice (bases r) (i * width r + j) (i * width r + j + k)).
  { unfold slice, bases. f_equal. lia. }
  destruct (read_at_pre (pre ++ render_header r)
              (concat (map (fun l => l ++ term (s_crlf r)) (s_full r)) ++ s_last r ++ tail) ch (i * bytes_ + j) k)
    as (err & Hrd & Herr).
  - nia.
  - assumption.
  - rewrite Hoff, Z2Nat.id by lia. rewrite Hbody, Hslice. rewrite zlen_slice; [lia|nia|].
    rewrite zlen_concat_bases, Hcf. lia.
  - exists err. split.
    + rewrite Hrd. rewrite Hoff, Z2Nat.id by lia. rewrite Hbody, Hslice. reflexivity.
    + destruct Herr as [->|(-> & Hch & Hendf)]; [left; reflexivity|right].
      repeat split; try assumption.
      (* the chunk ends at the end of the file: it ends at the last base *)
      rewrite zlen_concat_bases, Hcf.
      rewrite !zlen_app' in Hendf.
      rewrite (zlen_concat_term (width r) (s_full r) (s_crlf r) Hw) in Hendf.
      pose proof (zlen_nonneg tail) as Htail0.
      rewrite Hoff, Z2Nat.id in Hendf by lia.
      destruct Hline as [[Hlt Hjk']|[Heq Hjk']].
      * exfalso. assert (i + 1 <= Z.of_nat (length (s_full r))) by lia. nia.
      * assert (i = Z.of_nat (length (s_full r))) by lia. subst i. lia.
Qed.

(* ------------------------------------------------- a record inside a file *)

Lemma render_recs_split fin rs1 r rs2 :
  render_recs fin (rs1 ++ r :: rs2) =
  render_recs true rs1 ++ render_rec (match rs2 with [] => fin | _ => true end) r ++ render_recs fin rs2.
Proof.
  induction rs1 as [|x rs1 IH].
  - cbn [app render_recs]. apply render_recs_cons.
  - cbn [app]. rewrite (render_recs_cons fin x), (render_recs_cons true x), IH.
    rewrite <- app_assoc.
    replace (match rs1 ++ r :: rs2 with [] => fin | _ :: _ => true end) with true by (destruct rs1; reflexivity).
    replace (match rs1 with [] => true | _ :: _ => true end) with true by (destruct rs1; reflexivity).
    reflexivity.
Qed.

Lemma entries_split fin rs1 r rs2 : forall off,
  entries fin off (rs1 ++ r :: rs2) =
  entries true off rs1 ++
  entry (match rs2 with [] => fin | _ => true end) (off + zlen (render_recs true rs1)) r
  :: entries fin (off + zlen (render_recs true rs1) + zlen (render_rec true r)) rs2.
Proof.
  induction rs1 as [|x rs1 IH]; intros off.
  - cbn [app entries render_recs]. rewrite zlen_nil, Z.add_0_r. apply entries_cons.
  - cbn [app]. rewrite (entries_cons fin off x), (entries_cons true off x), IH.
    rewrite (render_recs_cons true x), zlen_app'.
    replace (match rs1 ++ r :: rs2 with [] => fin | _ :: _ => true end) with true by (destruct rs1; reflexivity).
    replace (match rs1 with [] => true | _ :: _ => true end) with true by (destruct rs1; reflexivity).
    cbn [app]. rewrite !Z.add_assoc. reflexivity.
Qed.

Lemma wf_recs_split fin rs1 r rs2 :
  wf_recs fin (rs1 ++ r :: rs2) = true -> wf_rec (match rs2 with [] => fin | _ => true end) r = true.
Proof.
  induction rs1 as [|x rs1 IH]; cbn [app]; rewrite wf_recs_cons; intros H; apply andb_true_iff in H as [H1 H2].
  - assumption.
  - apply IH. assumption.
Qed.

Lemma has_name_cons n e l : has_name n (e :: l) = bytes_eqb (r_name e) n || has_name n l.
Proof. rewrite !has_name_existsb. reflexivity. Qed.

Lemma entries_fresh rs1 r rs2 : forall off,
  nodup_names (rs1 ++ r :: rs2) = true -> has_name (s_name r) (entries true off rs1) = false.
Proof.
  induction rs1 as [|x rs1 IH]; intros off H; [reflexivity|].
  cbn [app] in H. destruct (nodup_names_cons _ _ H) as [Hdiff Hnd].
  rewrite entries_cons, has_name_cons. rewrite entry_name.
  rewrite bytes_eqb_sym, (Hdiff r) by (apply in_or_app; right; left; reflexivity).
  apply IH. assumption.
Qed.

Lemma lookup_hit n e l : r_name e = n -> lookup n (e :: l) = Some e.
Proof. intros <-. cbn [lookup]. rewrite bytes_eqb_refl. reflexivity. Qed.

(** Every record of a well-formed file: its entry is in the index NewIndex
    builds and addresses its bases in the rendered bytes. *)
Theorem record_layout f rs1 r rs2 :
  wf f = true -> f_recs f = rs1 ++ r :: rs2 ->
  let nl := match rs2 with [] => f_final_nl f | _ => true end in
  let e := entry nl (zlen (blanks (f_lead f) ++ render_recs true rs1)) r in
  lookup (s_name r) (index_of f) = Some e /\ (is_empty r = false -> layout (render f) e (bases r)).
Proof.
  intros Hwf Hsplit nl e. unfold wf in Hwf. bprop.
  rewrite Hsplit in *.
  split.
  - unfold index_of. rewrite Hsplit, entries_split.
    rewrite lookup_app_fresh by (eapply entries_fresh; eassumption).
    subst e. rewrite zlen_app'. apply lookup_hit. apply entry_name.
  - intros He. unfold render. rewrite Hsplit, render_recs_split. fold nl.
    rewrite app_assoc. subst e.
    apply layout_rec; [eapply wf_recs_split; eassumption|assumption].
Qed.

Lemma slice_full (l : list Z) : slice l 0 (zlen l) = l.
Proof. unfold slice. rewrite Z.sub_0_r. cbn [Z.to_nat skipn]. unfold zlen. rewrite Nat2Z.id. apply firstn_all. Qed.

Lemma empty_bases r : is_empty r = true -> bases r = [].
Proof.
  unfold is_empty, bases. intros H. apply andb_true_iff in H as [H1 H2].
  apply is_nil_true in H1, H2. rewrite H1, H2. reflexivity.
Qed.

Lemma entry_len nl off r : r_len (entry nl off r) = zlen (bases r).
Proof.
  unfold entry. destruct (is_empty r) eqn:He; [|reflexivity].
  rewrite (empty_bases r He). reflexivity.
Qed.

(** Seq.Read on a record of length zero (whatever its layout fields) is the
    ideal reader over the empty string: never a division by zero, no ReadAt. *)
Lemma read_zero_length file ch c e sizes : r_len e = 0 ->
  seq_script file ch c (mkSeq e 0 0 0) sizes = ideal_script [] [] sizes.
Proof.
  intros _. induction sizes as [|k t IH]; [reflexivity|].
  cbn [seq_script ideal_script]. destruct (Z.ltb_spec k 0).
  - exact IH.
  - unfold seq_read. cbn [q_end q_cur]. destruct (Z.eqb_spec k 0).
    + f_equal. exact IH.
    + change (0 <=? 0) with true. cbv iota.
      destruct (Z.ltb_spec (zlen (@nil Z)) k) as [_|Hx]; [|rewrite zlen_nil in Hx; lia].
      destruct (Z.to_nat k); cbn [firstn skipn]; f_equal; exact IH.
Qed.

(** The ideal reader satisfies the contract. *)
Lemma ideal_conforms data : forall sizes rest, conforms data rest sizes (ideal_script data rest sizes) = true.
Proof.
  induction sizes as [|k t IH]; intros rest; [reflexivity|].
  cbn [conforms ideal_script]. destruct (k <? 0); [apply IH|].
  destruct (k =? 0) eqn:Ek.
  - cbn [is_nil andb]. change (NIL =? NIL) with true. apply IH.
  - rewrite bytes_eqb_refl, Z.eqb_refl, IH. reflexivity.
Qed.

(** Every record of a well-formed file, every range and every script, over
    EVERY ReaderAt that keeps the io.ReaderAt contract ([ch]: its choice, call
    by call, between nil and io.EOF when the bytes asked for end at the end of
    the file): SeqRange succeeds, the results satisfy the io.Reader contract
    over bases s..e, and they are exactly the ideal reader's when the ReaderAt
    never reports io.EOF together with the last bytes. *)
Theorem read_range_gen f rs1 r rs2 s e sizes ch c :
  wf f = true -> lines_fit (render f) = true ->
  f_recs f = rs1 ++ r :: rs2 -> 0 <= s <= e -> e <= zlen (bases r) ->
  exists idx q,
    newindex (render f) = Ok idx /\ file_seqrange idx (s_name r) s e = Ok q /\
    conforms (slice (bases r) s e) (slice (bases r) s e) sizes (seq_script (render f) ch c q sizes) = true /\
    ((forall n, ch n = false) ->
     seq_script (render f) ch c q sizes = ideal_script (slice (bases r) s e) (slice (bases r) s e) sizes).
Proof.
  intros Hwf Hfit Hsplit Hse He.
  destruct (record_layout f rs1 r rs2 Hwf Hsplit) as [Hlook Hlay]. cbv zeta in *.
  set (en := entry _ _ r) in *.
  exists (index_of f), (mkSeq en s s e). split; [apply newindex_render; assumption|]. split.
  - unfold file_seqrange. rewrite Hlook. subst en. rewrite entry_len.
    destruct (Z.ltb_spec s 0); [lia|]. destruct (Z.ltb_spec e 0); [lia|]. destruct (Z.ltb_spec e s); [lia|].
    destruct (Z.ltb_spec (zlen (bases r)) s); [lia|]. destruct (Z.ltb_spec (zlen (bases r)) e); [lia|].
    reflexivity.
  - destruct (is_empty r) eqn:Hemp.
    + rewrite (empty_bases r Hemp) in *. rewrite zlen_nil in He.
      assert (s = 0) by lia. assert (e = 0) by lia. subst s e.
      rewrite slice_nil_eq.
      rewrite read_zero_length by (subst en; rewrite entry_len, (empty_bases r Hemp); reflexivity).
      split; [apply ideal_conforms|reflexivity].
    + apply (seq_script_ok _ ch _ _ (Hlay eq_refl)); subst en; rewrite ?entry_len; lia.
Qed.

Theorem read_whole_gen f rs1 r rs2 sizes ch c :
  wf f = true -> lines_fit (render f) = true -> f_recs f = rs1 ++ r :: rs2 ->
  exists idx q,
    newindex (render f) = Ok idx /\ file_seq idx (s_name r) = Ok q /\
    conforms (bases r) (bases r) sizes (seq_script (render f) ch c q sizes) = true /\
    ((forall n, ch n = false) -> seq_script (render f) ch c q sizes = ideal_script (bases r) (bases r) sizes).
Proof.
  intros Hwf Hfit Hsplit.
  destruct (record_layout f rs1 r rs2 Hwf Hsplit) as [Hlook Hlay]. cbv zeta in *.
  set (en := entry _ _ r) in *.
  exists (index_of f), (mkSeq en 0 0 (r_len en)). split; [apply newindex_render; assumption|]. split.
  - unfold file_seq. rewrite Hlook. reflexivity.
  - destruct (is_empty r) eqn:Hemp.
    + assert (Hlen : r_len en = 0) by (subst en; rewrite entry_len, (empty_bases r Hemp); reflexivity).
      rewrite Hlen, (empty_bases r Hemp). rewrite read_zero_length by assumption.
      split; [apply ideal_conforms|reflexivity].
    + pose proof (zlen_nonneg (bases r)).
      destruct (seq_script_ok _ ch _ _ (Hlay eq_refl) 0 (r_len en) ltac:(subst en; rewrite ?entry_len; lia) ltac:(lia) sizes c 0
                  ltac:(subst en; rewrite ?entry_len; lia)) as [Hc Hx].
      subst en. rewrite entry_len, slice_full in *. split; assumption.
Qed.

(** Reading a stream that satisfies the contract to its end with positive
    buffer sizes delivers exactly its bytes and then io.EOF. *)
Lemma conforms_drain data : forall sizes rest rs,
  conforms data rest sizes rs = true ->
  Forall (fun k => 1 <= k) sizes -> zlen rest < fold_right Z.add 0 sizes ->
  drain rs = Some rest.
Proof.
  induction sizes as [|k t IH]; intros rest rs Hc Hpos Hsum.
  - cbn in Hsum. pose proof (zlen_nonneg rest). lia.
  - inversion Hpos as [|? ? Hk Ht]; subst. cbn [fold_right] in Hsum.
    cbn [conforms] in Hc. destruct (Z.ltb_spec k 0); [lia|].
    destruct rs as [|[[d e']| | |] rs']; try discriminate.
    destruct (Z.eqb_spec k 0); [lia|].
    apply andb_true_iff in Hc as [Hc Hrest]. apply andb_true_iff in Hc as [Hd Herr].
    apply bytes_eqb_eq in Hd. subst d. cbn [drain].
    assert (Hall : zlen rest <= k -> firstn (Z.to_nat k) rest = rest).
    { intros Hle. apply firstn_all2. unfold zlen in *. lia. }
    apply orb_true_iff in Herr as [Herr|Herr].
    + apply Z.eqb_eq in Herr. subst e'. destruct (Z.ltb_spec (zlen rest) k).
      * change (EOF =? EOF) with true. cbv iota. f_equal. apply Hall. lia.
      * change (NIL =? EOF) with false. cbv iota.
        rewrite (IH (skipn (Z.to_nat k) rest) rs' Hrest Ht).
        -- rewrite firstn_skipn. reflexivity.
        -- unfold zlen in *. rewrite skipn_length. lia.
    + apply andb_true_iff in Herr as [He1 He2]. apply Z.eqb_eq in He1, He2. subst e'.
      change (EOF =? EOF) with true. cbv iota. f_equal. apply Hall. lia.
Qed.

Theorem read_to_eof f rs1 r rs2 s e sizes ch c :
  wf f = true -> lines_fit (render f) = true ->
  f_recs f = rs1 ++ r :: rs2 -> 0 <= s <= e -> e <= zlen (bases r) ->
  Forall (fun k => 1 <= k) sizes -> e - s < fold_right Z.add 0 sizes ->
  exists idx q,
    newindex (render f) = Ok idx /\ file_seqrange idx (s_name r) s e = Ok q /\
    drain (seq_script (render f) ch c q sizes) = Some (slice (bases r) s e).
Proof.
  intros Hwf Hfit Hsplit Hse He Hpos Hsum.
  destruct (read_range_gen f rs1 r rs2 s e sizes ch c Hwf Hfit Hsplit Hse He) as (idx & q & H1 & H2 & H3 & _).
  exists idx, q. split; [assumption|]. split; [assumption|].
  eapply conforms_drain; [exact H3|assumption|]. rewrite zlen_slice by lia. assumption.
Qed.

(** Regression witness: without advancing the offset over blank lines the
    index of a well-formed file is wrong. *)
Definition blank_witness : fasta :=
  mkF [] [mkS [97] [] [[65; 67; 71; 84]] [65; 67] false [false];
          mkS [98] [] [[71; 71; 71; 71]] [84; 84] false []] true.

Lemma blank_offset_needed :
  wf blank_witness = true /\
  newindex_gen false (render blank_witness) <> Ok (index_of blank_witness) /\
  newindex_gen true (render blank_witness) = Ok (index_of blank_witness).
Proof. split; [reflexivity|]. split; [intros H; vm_compute in H; discriminate|reflexivity]. Qed.
