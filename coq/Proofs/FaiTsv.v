(** C19: the five-column text form of an index round-trips through
    WriteTo / ReadFrom (encoding/csv modelled as a plain LF / TAB split). *)
From Coq Require Import ZArith Lia List Bool Permutation.
From Hts Require Import Base.Prim Generated Model.Fai Proofs.FaiBase Proofs.FaiIndex.
Open Scope Z_scope.

(** Names that survive the TAB / LF split of ReadFrom: no TAB, no LF
    (NewIndex cuts names at white space, so it never produces others). *)
Definition plainch (c : Z) : bool := negb (c =? 9) && negb (c =? 10).
Definition int64 (v : Z) : Prop := - 2^63 <= v < 2^63.
Definition good_rec (r : frec) : Prop :=
  forallb plainch (r_name r) = true /\ int64 (r_len r) /\ int64 (r_start r) /\ int64 (r_bases r) /\ int64 (r_bytes r)
  /\ geometry_ok r = true.

(** Characters of a printed integer: digits and '-'. *)
Definition numch (c : Z) : bool := is_digit c || (c =? 45).

(* ------------------------------------------------------------- decimal *)

Lemma parse_digits_app a b acc :
  parse_digits acc (a ++ b) = match parse_digits acc a with Some v => parse_digits v b | None => None end.
Proof.
  revert acc. induction a as [|c a IH]; intros acc; [reflexivity|].
  cbn [app parse_digits]. destruct (is_digit c); [apply IH|reflexivity].
Qed.

Lemma is_digit_48 d : 0 <= d < 10 -> is_digit (48 + d) = true.
Proof. intros H. unfold is_digit. apply andb_true_iff. split; [apply Z.leb_le|apply Z.leb_le]; lia. Qed.

Lemma digits_fuel_ok fuel : forall n, 0 <= n < 2 ^ Z.of_nat fuel -> (0 < fuel)%nat ->
  parse_digits 0 (digits_fuel fuel n) = Some n /\
  forallb is_digit (digits_fuel fuel n) = true /\
  exists p d, digits_fuel fuel n = p ++ [d] /\ is_digit d = true.
Proof.
  induction fuel as [|f IH]; intros n Hn Hfuel.
  - lia.
  - rewrite Nat2Z.inj_succ, Z.pow_succ_r in Hn by lia.
    cbn [digits_fuel]. destruct (Z.ltb_spec n 10) as [Hlt|Hge].
    + split; [|split].
      * cbn [parse_digits]. rewrite is_digit_48 by lia. f_equal. lia.
      * cbn [forallb]. rewrite is_digit_48 by lia. reflexivity.
      * exists [], (48 + n). split; [reflexivity|apply is_digit_48; lia].
    + assert (Hq : 0 <= n / 10 < 2 ^ Z.of_nat f).
      { split; [apply Z.div_pos; lia|]. apply Z.div_lt_upper_bound; lia. }
      assert (Hf : (0 < f)%nat).
      { destruct f; [|lia]. change (2 ^ Z.of_nat 0) with 1 in Hq.
        assert (1 <= n / 10) by (apply Z.div_le_lower_bound; lia). lia. }
      destruct (IH (n / 10) Hq Hf) as (Hp & Hall & _).
      pose proof (Z.mod_pos_bound n 10 ltac:(lia)) as Hm.
      split; [|split].
      * rewrite parse_digits_app, Hp. cbn [parse_digits]. rewrite is_digit_48 by lia.
        f_equal. pose proof (Z.div_mod n 10 ltac:(lia)). lia.
      * rewrite forallb_app, Hall. cbn [forallb]. rewrite is_digit_48 by lia. reflexivity.
      * exists (digits_fuel f (n / 10)), (48 + n mod 10). split; [reflexivity|apply is_digit_48; lia].
Qed.

Lemma digits_ok n : 0 <= n ->
  parse_digits 0 (digits n) = Some n /\ forallb is_digit (digits n) = true /\
  exists p d, digits n = p ++ [d] /\ is_digit d = true.
Proof.
  intros Hn. unfold digits. apply digits_fuel_ok; [|lia]. split; [assumption|].
  rewrite Nat2Z.inj_succ, Z2Nat.id by apply Z.log2_nonneg.
  destruct (Z.eq_dec n 0) as [->|Hne]; [reflexivity|].
  apply Z.log2_spec. lia.
Qed.

Lemma is_digit_range c : is_digit c = true -> 48 <= c <= 57.
Proof. unfold is_digit. intros H. apply andb_true_iff in H as [H1 H2]. apply Z.leb_le in H1, H2. lia. Qed.

Lemma parse_print n : int64 n -> parse_int (print_int n) = Some n.
Proof.
  unfold int64. intros Hn. unfold print_int. destruct (Z.ltb_spec n 0) as [Hneg|Hpos].
  - destruct (digits_ok (- n) ltac:(lia)) as (Hp & _ & (p & d & Hd & _)).
    unfold parse_int. change (45 =? 45) with true. cbv iota beta.
    assert (Hnn : is_nil (digits (- n)) = false) by (rewrite Hd; destruct p; reflexivity).
    rewrite Hnn, Hp. rewrite Z.opp_involutive.
    destruct (Z.leb_spec (- 2 ^ 63) n); [|lia]. destruct (Z.ltb_spec n (2 ^ 63)); [|lia]. reflexivity.
  - destruct (digits_ok n Hpos) as (Hp & Hall & (p & d & Hd & Hdd)).
    unfold parse_int. destruct (digits n) as [|c t] eqn:E; [destruct p; discriminate|].
    cbn [forallb] in Hall. apply andb_true_iff in Hall as [Hc _]. apply is_digit_range in Hc.
    destruct (Z.eqb_spec c 45); [lia|]. destruct (Z.eqb_spec c 43); [lia|].
    cbn [is_nil]. rewrite Hp.
    destruct (Z.leb_spec (- 2 ^ 63) n); [|lia]. destruct (Z.ltb_spec n (2 ^ 63)); [|lia]. reflexivity.
Qed.

Lemma print_int_chars n : forallb numch (print_int n) = true /\ exists p d, print_int n = p ++ [d] /\ is_digit d = true.
Proof.
  unfold print_int. destruct (Z.ltb_spec n 0).
  - destruct (digits_ok (- n) ltac:(lia)) as (_ & Hall & (p & d & Hd & Hdd)). split.
    + cbn [forallb]. apply andb_true_iff. split; [reflexivity|].
      eapply forallb_impl; [|exact Hall]. intros x Hx. unfold numch. rewrite Hx. reflexivity.
    + exists (45 :: p), d. rewrite Hd. split; [reflexivity|assumption].
  - destruct (digits_ok n ltac:(lia)) as (_ & Hall & Hlast). split; [|assumption].
    eapply forallb_impl; [|exact Hall]. intros x Hx. unfold numch. rewrite Hx. reflexivity.
Qed.

(* --------------------------------------------------------------- fields *)

Lemma split_on_field f rest :
  forallb (fun c => negb (c =? 9)) f = true -> split_on 9 (f ++ 9 :: rest) = f :: split_on 9 rest.
Proof.
  induction f as [|c f IH]; intros H.
  - reflexivity.
  - cbn [forallb] in H. apply andb_true_iff in H as [Hc Hf]. apply negb_true_iff in Hc.
    cbn [app split_on]. rewrite Hc, IH by assumption. reflexivity.
Qed.

Lemma split_on_last f : forallb (fun c => negb (c =? 9)) f = true -> split_on 9 f = [f].
Proof.
  induction f as [|c f IH]; intros H; [reflexivity|].
  cbn [forallb] in H. apply andb_true_iff in H as [Hc Hf]. apply negb_true_iff in Hc.
  cbn [split_on]. rewrite Hc, IH by assumption. reflexivity.
Qed.

Lemma plain_notab c : plainch c = true -> negb (c =? 9) = true.
Proof. unfold plainch. intros H. bprop. apply negb_true_iff, Z.eqb_neq. assumption. Qed.
Lemma plain_nolf c : plainch c = true -> negb (c =? 10) = true.
Proof. unfold plainch. intros H. bprop. apply negb_true_iff, Z.eqb_neq. assumption. Qed.
Lemma numch_notab c : numch c = true -> negb (c =? 9) = true.
Proof.
  unfold numch. intros H. apply negb_true_iff, Z.eqb_neq. apply orb_true_iff in H as [H|H].
  - apply is_digit_range in H. lia.
  - apply Z.eqb_eq in H. lia.
Qed.
Lemma numch_nolf c : numch c = true -> negb (c =? 10) = true.
Proof.
  unfold numch. intros H. apply negb_true_iff, Z.eqb_neq. apply orb_true_iff in H as [H|H].
  - apply is_digit_range in H. lia.
  - apply Z.eqb_eq in H. lia.
Qed.

Definition tsv_pre (r : frec) : list Z :=
  r_name r ++ [9] ++ print_int (r_len r) ++ [9] ++ print_int (r_start r) ++ [9] ++ print_int (r_bases r) ++ [9].
Definition tsv_body (r : frec) : list Z := tsv_pre r ++ print_int (r_bytes r).

Lemma tsv_line_body r : tsv_line r = tsv_body r ++ [10].
Proof. unfold tsv_line, tsv_body, tsv_pre. repeat rewrite <- app_assoc. reflexivity. Qed.

Lemma tsv_body_nolf r : forallb plainch (r_name r) = true ->
  forallb (fun x => negb (x =? 10)) (tsv_body r) = true.
Proof.
  intros Hn. unfold tsv_body, tsv_pre. repeat rewrite forallb_app.
  pose proof (fun n => forallb_impl _ _ _ numch_nolf (proj1 (print_int_chars n))) as Hp.
  rewrite !Hp. rewrite (forallb_impl _ _ _ plain_nolf Hn). reflexivity.
Qed.

Lemma tsv_body_fields r : forallb plainch (r_name r) = true ->
  split_on 9 (tsv_body r) =
  [r_name r; print_int (r_len r); print_int (r_start r); print_int (r_bases r); print_int (r_bytes r)].
Proof.
  intros Hn. unfold tsv_body, tsv_pre. repeat rewrite <- app_assoc. cbn [app].
  pose proof (fun n => forallb_impl _ _ _ numch_notab (proj1 (print_int_chars n))) as Hp.
  rewrite split_on_field by (exact (forallb_impl _ _ _ plain_notab Hn)).
  rewrite !split_on_field by apply Hp.
  rewrite split_on_last by apply Hp. reflexivity.
Qed.

Lemma chomp_line r : chomp (tsv_line r) = tsv_body r.
Proof.
  rewrite tsv_line_body. unfold tsv_body.
  destruct (print_int_chars (r_bytes r)) as (_ & p & d & Hd & Hdd). rewrite Hd.
  apply is_digit_range in Hdd.
  unfold chomp. unfold strip_last at 2. rewrite !rev_app_distr. cbn [rev app].
  change (10 =? 10) with true. cbv iota.
  cbn [rev]. rewrite rev_app_distr, !rev_involutive. rewrite <- app_assoc. cbn [app].
  unfold strip_last. rewrite app_assoc, rev_app_distr. cbn [rev app].
  destruct (Z.eqb_spec d 13); [lia|]. reflexivity.
Qed.

Lemma tsv_body_nonnil r : is_nil (tsv_body r) = false.
Proof. unfold tsv_body, tsv_pre. destruct (r_name r); reflexivity. Qed.

Lemma rf_line_ok idx r : good_rec r -> has_name (r_name r) idx = false ->
  rf_line idx (tsv_line r) = Ok (idx ++ [r]).
Proof.
  intros (Hn & H1 & H2 & H3 & H4 & Hgeo) Hfresh. unfold rf_line.
  rewrite chomp_line, tsv_body_nonnil, tsv_body_fields by assumption.
  rewrite Hfresh, !parse_print by assumption. destruct r; simpl in Hgeo |- *.
  rewrite Hgeo. reflexivity.
Qed.

Lemma lines_tsv l rest : Forall good_rec l ->
  lines (concat (map tsv_line l) ++ rest) = map tsv_line l ++ lines rest.
Proof.
  induction 1 as [|r l Hr _ IH]; [reflexivity|].
  cbn [map concat]. rewrite <- app_assoc. rewrite tsv_line_body at 1. rewrite <- app_assoc. cbn [app].
  rewrite lines_lf by (apply tsv_body_nolf; apply Hr).
  rewrite IH, <- tsv_line_body. reflexivity.
Qed.

Lemma not_in_has_name n idx : ~ In n (map r_name idx) -> has_name n idx = false.
Proof.
  intros H. rewrite has_name_existsb. destruct (existsb _ idx) eqn:E; [|reflexivity].
  apply existsb_exists in E as (x & Hx & Hb). apply bytes_eqb_eq in Hb. subst n.
  exfalso. apply H. apply in_map. assumption.
Qed.

Lemma rf_fold_ok l : forall idx, Forall good_rec l -> NoDup (map r_name (idx ++ l)) ->
  rf_fold idx (map tsv_line l) = Ok (idx ++ l).
Proof.
  induction l as [|r l IH]; intros idx Hg Hnd.
  - rewrite app_nil_r. reflexivity.
  - inversion Hg as [|? ? Hr Hl]; subst. cbn [map rf_fold].
    rewrite rf_line_ok; [|assumption|].
    + cbn [obind]. rewrite IH; [|assumption|].
      * rewrite <- app_assoc. reflexivity.
      * rewrite <- app_assoc. exact Hnd.
    + apply not_in_has_name. rewrite map_app in Hnd. cbn [map] in Hnd.
      apply NoDup_remove_2 in Hnd. intros Hin. apply Hnd. apply in_or_app. left. assumption.
Qed.

Theorem readfrom_lines l : Forall good_rec l -> NoDup (map r_name l) ->
  readfrom (concat (map tsv_line l)) = Ok l.
Proof.
  intros Hg Hnd. unfold readfrom.
  rewrite <- (app_nil_r (concat (map tsv_line l))). rewrite lines_tsv by assumption.
  cbn [lines]. rewrite app_nil_r. apply (rf_fold_ok l [] Hg Hnd).
Qed.

(* ----------------------------------------------------------------- sort *)

Lemma insert_perm r l : Permutation (insert_by_start r l) (r :: l).
Proof.
  induction l as [|x t IH]; cbn [insert_by_start]; [reflexivity|].
  destruct (r_start r <? r_start x); [reflexivity|].
  rewrite IH. apply perm_swap.
Qed.

Lemma sort_perm l : Permutation (sort_by_start l) l.
Proof.
  induction l as [|x t IH]; cbn [sort_by_start]; [reflexivity|].
  rewrite insert_perm. constructor. assumption.
Qed.

(** ReadFrom (WriteTo idx) is idx again (as a map: the same records, listed
    by ascending Start), for every index whose names are unique and free of
    quote, TAB, CR, LF and whose numbers fit int64. *)
Theorem tsv_roundtrip idx : NoDup (map r_name idx) -> Forall good_rec idx ->
  readfrom (writeto idx) = Ok (sort_by_start idx) /\ Permutation (sort_by_start idx) idx.
Proof.
  intros Hnd Hg. split; [|apply sort_perm].
  unfold writeto. apply readfrom_lines.
  - eapply Permutation_Forall; [symmetry; apply sort_perm|assumption].
  - eapply Permutation_NoDup; [apply Permutation_map; symmetry; apply sort_perm|assumption].
Qed.

(** Already sorted: strictly increasing Start. *)
Fixpoint inc_starts (l : list frec) : bool :=
  match l with
  | x :: t => match t with y :: _ => (r_start x <? r_start y) && inc_starts t | [] => true end
  | [] => true
  end.

Lemma sort_sorted l : inc_starts l = true -> sort_by_start l = l.
Proof.
  induction l as [|x t IH]; intros H; [reflexivity|].
  cbn [sort_by_start]. destruct t as [|y t'].
  - reflexivity.
  - cbn [inc_starts] in H. apply andb_true_iff in H as [Hxy Ht]. rewrite IH by assumption.
    cbn [insert_by_start]. rewrite Hxy. reflexivity.
Qed.

(** Whatever ReadFrom accepts has passed the geometry validation. *)
Lemma rf_line_geom idx line idx' :
  rf_line idx line = Ok idx' -> Forall (fun r => geometry_ok r = true) idx ->
  Forall (fun r => geometry_ok r = true) idx'.
Proof.
  unfold rf_line. destruct (is_nil (chomp line)); [intros H; injection H as <-; auto|].
  destruct (split_on 9 (chomp line)) as [|f0 [|f1 [|f2 [|f3 [|f4 [|? ?]]]]]]; try discriminate.
  destruct (has_name f0 idx); [discriminate|].
  destruct (parse_int f1) as [a|]; [|discriminate].
  destruct (parse_int f2) as [b|]; [|discriminate].
  destruct (parse_int f3) as [c|]; [|discriminate].
  destruct (parse_int f4) as [d|]; [|discriminate].
  destruct (geometry_ok (mkRec f0 a b c d)) eqn:G; [|discriminate].
  intros H Hall. injection H as <-. apply Forall_app. split; [assumption|]. constructor; [exact G|constructor].
Qed.

Lemma rf_fold_geom ls : forall idx idx',
  rf_fold idx ls = Ok idx' -> Forall (fun r => geometry_ok r = true) idx ->
  Forall (fun r => geometry_ok r = true) idx'.
Proof.
  induction ls as [|l ls IH]; intros idx idx' H Hall.
  - injection H as <-. assumption.
  - cbn [rf_fold] in H. destruct (rf_line idx l) as [idx1| | |] eqn:E; try discriminate.
    cbn [obind] in H. eapply IH; [exact H|]. eapply rf_line_geom; eassumption.
Qed.

Theorem readfrom_validates tsv idx :
  readfrom tsv = Ok idx -> Forall (fun r => geometry_ok r = true) idx.
Proof. intros H. eapply rf_fold_geom; [exact H|constructor]. Qed.
