(** C19: the index NewIndex builds for a well-formed file survives
    WriteTo / ReadFrom unchanged. *)
From Coq Require Import ZArith Lia List Bool Permutation.
From Hts Require Import Base.Prim Generated Model.Fai Proofs.FaiBase Proofs.FaiIndex Proofs.FaiRead Proofs.FaiTsv.
Open Scope Z_scope.

Lemma entries_names fin rs : forall off, map r_name (entries fin off rs) = map s_name rs.
Proof.
  induction rs as [|r t IH]; intros off; [reflexivity|].
  rewrite entries_cons. cbn [map]. rewrite IH, entry_name. reflexivity.
Qed.

Lemma nodup_names_NoDup rs : nodup_names rs = true -> NoDup (map s_name rs).
Proof.
  induction rs as [|r t IH]; intros H; [constructor|].
  destruct (nodup_names_cons _ _ H) as [Hdiff Hnd]. cbn [map]. constructor; [|apply IH; assumption].
  intros Hin. apply in_map_iff in Hin as (x & Hx & Hin).
  specialize (Hdiff x Hin). rewrite Hx, bytes_eqb_refl in Hdiff. discriminate.
Qed.

(** Size of a rendered record and the fields of its entry. *)
Lemma entry_bounds nl off r : wf_rec nl r = true -> 0 <= off ->
  let e := entry nl off r in
  let n := zlen (render_rec nl r) in
  0 <= r_len e <= n /\ off + 1 <= r_start e /\ r_start e <= off + n /\
  0 <= r_bases e <= n /\ 0 <= r_bytes e <= n /\
  (r_bases e = 0 /\ r_len e = 0 \/
   1 <= r_bases e <= r_bytes e /\
   r_start e + r_len e / r_bases e * r_bytes e <= off + n + 2).
Proof.
  intros Hwf Hoff. destruct (is_empty r) eqn:He.
  { cbv zeta. unfold entry, render_rec. rewrite He. cbn [r_len r_start r_bases r_bytes].
    rewrite !zlen_app'. unfold tlen.
    pose proof (zlen_nonneg (blanks (s_blanks r))).
    pose proof (zlen_nonneg (s_name r ++ s_desc r)).
    pose proof (term_zlen_pos (s_crlf r)).
    pose proof (zlen_nonneg (@nil Z)). rewrite zlen_cons. destruct nl; cbv iota; repeat split; lia. }
  destruct (wf_rec_parts _ _ Hwf He) as (Hne & Hn & Hd & Hf & Hl & Hlb & Hbl).
  pose proof (full_widths _ _ Hf) as Hw.
  pose proof (zlen_concat_full _ _ Hw) as Hcf.
  pose proof (zlen_concat_term _ _ (s_crlf r) Hw) as Hct.
  pose proof (term_zlen_pos (s_crlf r)) as Ht.
  cbv zeta. unfold entry. rewrite He. cbn [r_len r_start r_bases r_bytes].
  unfold render_rec. rewrite He. unfold render_body. rewrite !zlen_app'. rewrite zlen_concat_bases, Hcf, Hct.
  unfold tlen.
  assert (Hh : 1 <= zlen (render_header r)).
  { unfold render_header. rewrite zlen_cons. pose proof (zlen_nonneg (s_name r ++ s_desc r ++ term (s_crlf r))). lia. }
  pose proof (zlen_nonneg (blanks (s_blanks r))) as Hb.
  set (sp := if nl then term (s_crlf r) else []).
  assert (Hsp : zlen sp = if nl then zlen (term (s_crlf r)) else 0) by (subst sp; destruct nl; reflexivity).
  assert (Hn0 : 0 <= Z.of_nat (length (s_full r))) by lia.
  unfold width, first_line in *.
  destruct (s_full r) as [|l0 fl] eqn:Efull.
  - cbn [length Z.of_nat] in *.
    replace (0 * zlen (s_last r) + zlen (s_last r)) with (zlen (s_last r)) by lia.
    rewrite Z_div_same_full by lia. rewrite Hsp. destruct nl; repeat split; try lia; right; lia.
  - assert (1 <= Z.of_nat (length (l0 :: fl))) by (cbn [length]; lia).
    set (k := Z.of_nat (length (l0 :: fl))) in *.
    assert (0 <= zlen sp) by apply zlen_nonneg.
    assert (Htl : zlen (term (s_crlf r)) <= 2) by (destruct (s_crlf r); cbv; congruence).
    rewrite Z.div_add_l by lia.
    assert (Hq : zlen (s_last r) / zlen l0 = 0 /\ zlen (s_last r) < zlen l0 \/ zlen (s_last r) / zlen l0 = 1 /\ zlen (s_last r) = zlen l0).
    { destruct (Z.eq_dec (zlen (s_last r)) (zlen l0)) as [E|E].
      - right. split; [rewrite E; apply Z_div_same_full; lia|assumption].
      - left. split; [apply Z.div_small; lia|lia]. }
    destruct Hq as [[-> Hlt]|[-> Heq]]; (repeat split; try nia; right; nia).
Qed.

Lemma entries_props rs : forall fin off,
  wf_recs fin rs = true -> 0 <= off ->
  inc_starts (entries fin off rs) = true /\
  Forall (fun e => off + 1 <= r_start e /\
                   0 <= r_len e <= off + zlen (render_recs fin rs) /\
                   r_start e <= off + zlen (render_recs fin rs) /\
                   0 <= r_bases e <= off + zlen (render_recs fin rs) /\
                   0 <= r_bytes e <= off + zlen (render_recs fin rs) /\
                   (r_bases e = 0 /\ r_len e = 0 \/
                    1 <= r_bases e <= r_bytes e /\
                    r_start e + r_len e / r_bases e * r_bytes e <= off + zlen (render_recs fin rs) + 2)) (entries fin off rs).
Proof.
  induction rs as [|r t IH]; intros fin off Hwf Hoff.
  - split; [reflexivity|constructor].
  - rewrite wf_recs_cons in Hwf. apply andb_true_iff in Hwf as [Hwr Hwt].
    rewrite entries_cons, render_recs_cons. set (nl := match t with [] => fin | _ => true end) in *.
    pose proof (entry_bounds nl off r Hwr Hoff) as HB. cbv zeta in HB.
    pose proof (zlen_nonneg (render_rec true r)) as Hr0.
    pose proof (zlen_nonneg (render_recs fin t)) as Ht0.
    destruct (IH fin (off + zlen (render_rec true r)) Hwt ltac:(lia)) as [Hinc Hall].
    rewrite zlen_app'.
    assert (Hnl : t <> [] -> nl = true) by (intros; subst nl; destruct t; congruence).
    clearbody nl.
    split.
    + cbn [inc_starts]. destruct (entries fin (off + zlen (render_rec true r)) t) as [|y ys] eqn:E; [reflexivity|].
      apply andb_true_iff. split; [|exact Hinc].
      inversion Hall as [|? ? Hy _]; subst. apply Z.ltb_lt.
      assert (t <> []) by (intros ->; discriminate). rewrite (Hnl H) in *. lia.
    + constructor; [lia|].
      destruct t as [|r' t']; [constructor|].
      rewrite (Hnl ltac:(discriminate)) in *.
      eapply Forall_impl; [|exact Hall]. cbv beta. intros e He. lia.
Qed.

Lemma namech_plain c : namech c = true -> plainch c = true.
Proof.
  unfold namech, plainch. intros H. bprop.
  apply andb_true_iff; split; apply negb_true_iff, Z.eqb_neq; lia.
Qed.

Lemma wf_recs_names fin rs : wf_recs fin rs = true ->
  forallb (fun r => forallb namech (s_name r)) rs = true.
Proof.
  induction rs as [|r t IH]; [reflexivity|]. rewrite wf_recs_cons. intros H.
  apply andb_true_iff in H as [Hr Ht]. cbn [forallb]. rewrite IH by assumption.
  destruct (wf_rec_head _ _ Hr) as (_ & Hn & _). rewrite Hn. reflexivity.
Qed.

Lemma geometry_ok_zero r :
  r_len r = 0 -> r_bases r = 0 -> 0 <= r_start r -> 0 <= r_bytes r -> geometry_ok r = true.
Proof.
  intros HL HB HS HY. unfold geometry_ok. rewrite HL, HB.
  destruct (Z.ltb_spec (r_start r) 0); [lia|]. destruct (Z.ltb_spec (r_bytes r) 0); [lia|]. reflexivity.
Qed.

Lemma geometry_ok_intro r :
  0 <= r_len r -> 0 <= r_start r -> 1 <= r_bases r <= r_bytes r ->
  r_start r + r_len r / r_bases r * r_bytes r + r_bases r <= 2 ^ 63 - 1 ->
  geometry_ok r = true.
Proof.
  intros HL HS HB Hroom. unfold geometry_ok.
  pose proof (Z.div_pos (r_len r) (r_bases r) HL ltac:(lia)) as Hq0.
  assert (Hprod : 0 <= r_len r / r_bases r * r_bytes r) by nia.
  destruct (Z.ltb_spec (r_len r) 0); [lia|]. destruct (Z.ltb_spec (r_start r) 0); [lia|].
  destruct (Z.ltb_spec (r_bases r) 0); [lia|]. destruct (Z.eqb_spec (r_bases r) 0); [lia|].
  cbn [orb andb negb]. destruct (Z.ltb_spec (r_bytes r) (r_bases r)); [lia|].
  cbv zeta. destruct (Z.ltb_spec (2 ^ 63 - 1 - r_bases r) (r_start r)); [lia|]. cbn [orb].
  rewrite !Z.quot_div_nonneg by lia.
  destruct (Z.ltb_spec ((2 ^ 63 - 1 - r_bases r - r_start r) / r_bytes r) (r_len r / r_bases r)) as [Hlt|]; [|reflexivity].
  exfalso. assert (r_len r / r_bases r <= (2 ^ 63 - 1 - r_bases r - r_start r) / r_bytes r); [|lia].
  apply Z.div_le_lower_bound; lia.
Qed.

Theorem tsv_roundtrip_index f :
  wf f = true -> 2 * zlen (render f) + 2 < 2 ^ 63 ->
  readfrom (writeto (index_of f)) = Ok (index_of f).
Proof.
  intros Hwf Hsize. pose proof Hwf as Hwf'. unfold wf in Hwf'. bprop.
  pose proof (zlen_nonneg (blanks (f_lead f))) as Hl0.
  destruct (entries_props (f_recs f) (f_final_nl f) (zlen (blanks (f_lead f))) ltac:(assumption) Hl0) as [Hinc Hall].
  fold (index_of f) in Hinc, Hall.
  unfold render in Hsize. rewrite zlen_app' in Hsize.
  destruct (tsv_roundtrip (index_of f)) as [Hrt _].
  - unfold index_of. rewrite entries_names. apply nodup_names_NoDup. assumption.
  - assert (Hplain : Forall (fun e => forallb plainch (r_name e) = true) (index_of f)).
    { apply Forall_forall. intros e He.
      assert (Hin : In (r_name e) (map r_name (index_of f))) by (apply in_map; assumption).
      unfold index_of in Hin. rewrite entries_names in Hin. apply in_map_iff in Hin as (r & Hr & Hin).
      rewrite <- Hr.
      pose proof (wf_recs_names _ _ ltac:(eassumption)) as Hnames.
      rewrite forallb_forall in Hnames.
      exact (forallb_impl _ _ _ namech_plain (Hnames r Hin)). }
    apply Forall_forall. intros e He.
    rewrite Forall_forall in Hall, Hplain. specialize (Hall e He). specialize (Hplain e He).
    unfold good_rec, int64. split; [assumption|].
    repeat (split; [lia|]).
    destruct Hall as (Hs1 & Hl1 & Hs2 & Hb1 & Hy1 & [[HB0 HL0]|[HB1 Hroom]]).
    + apply geometry_ok_zero; lia.
    + apply geometry_ok_intro; lia.
  - rewrite Hrt. rewrite sort_sorted by assumption. reflexivity.
Qed.
