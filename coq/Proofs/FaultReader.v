(** C09 — proofs about the synchronous reader model (Model/FaultReader.v). *)
From Coq Require Import ZArith List Bool Lia.
From Hts Require Import Base.Prim Generated Model.FaultWriter Model.FaultReader.
Import ListNotations.
Open Scope Z_scope.

Lemma reader_invalidates : reader_variant = rfixed.
Proof. reflexivity. Qed.

(** The block the reader serves bytes from is the member of the file that
    starts at the block's base: base, size and data all belong together. *)
Definition binv (s : rst) : Prop :=
  croff s = r_pos (src s) /\
  (cvalid s = true -> member_at (file s) (cbase s) = Some (chsize s, cdata s)).

(** The file never changes. *)
Definition same_file (s s' : rst) : Prop := file s' = file s.

Lemma fetch_ok : forall s s' e, croff s = r_pos (src s) -> fetch rfixed s = (s', e) ->
  binv s' /\ same_file s s' /\ (e = 0 -> cvalid s' = true /\ coff s' = 0 /\ cbase s' = croff s).
Proof.
  intros s s' e R H. unfold fetch in H. simpl in H. rewrite <- R in H.
  destruct (faulty (src s) && (r_x (src s) <=? croff s)).
  { injection H as H1 H2; subst. unfold binv, same_file; simpl. repeat split; try discriminate; intros; discriminate. }
  destruct (flen (file s) <=? croff s).
  { injection H as H1 H2; subst. unfold binv, same_file; simpl. repeat split; try discriminate; intros; discriminate. }
  destruct (member_at (file s) (croff s)) as [[sz d]|] eqn:M.
  - destruct (faulty (src s) && (r_x (src s) <? croff s + sz)).
    + injection H as H1 H2; subst. unfold binv, same_file; simpl. repeat split; try discriminate; try lia; intros; discriminate.
    + injection H as H1 H2; subst. unfold binv, same_file; simpl. repeat split; auto.
  - injection H as H1 H2; subst. unfold binv, same_file; simpl. repeat split; try discriminate; intros; discriminate.
Qed.

Lemma nba_ok : forall s off s' e, binv s -> next_block_at rfixed s off = (s', e) ->
  binv s' /\ same_file s s' /\ (e = 0 -> cvalid s' = true /\ coff s' = 0 /\ cbase s' = off).
Proof.
  intros s off s' e B H. destruct B as [R B]. unfold next_block_at in H.
  destruct (croff s =? off) eqn:E.
  - apply Z.eqb_eq in E. apply fetch_ok in H; [|exact R]. rewrite E in H. exact H.
  - destruct ((r_seeks (src s) =? r_seekk (src s)) || (off <? 0)) eqn:F.
    + injection H as H1 H2; subst. unfold binv, same_file in *; simpl. split; [split; [exact R | exact B] | split; [reflexivity|]].
      intros X. exfalso. destruct (off <? 0); discriminate.
    + apply fetch_ok in H; [|reflexivity]. unfold same_file in *. simpl in H. exact H.
Qed.

Lemma skip_ok : forall fuel s s' e, binv s -> skip_empty rfixed fuel s = (s', e) -> binv s' /\ same_file s s'.
Proof.
  induction fuel as [|f IH]; intros s s' e B H; simpl in H.
  - injection H as H1 H2; subst. split; [exact B | reflexivity].
  - destruct (cur_len s =? 0).
    + unfold next_block in H. destruct (next_block_at rfixed s (next_base s)) as [s1 e1] eqn:N.
      destruct (nba_ok _ _ _ _ B N) as [B1 [S1 _]].
      destruct (e1 =? 0).
      * destruct (IH _ _ _ B1 H) as [B2 S2]. split; [exact B2 | unfold same_file in *; congruence].
      * injection H as H1 H2; subst. split; assumption.
    + injection H as H1 H2; subst. split; [exact B | reflexivity].
Qed.

(** Bytes handed out by one Read: every chunk appended is a segment of the data of a block satisfying [binv]. *)
Lemma loop_ok : forall fuel s want got s' e out, binv s -> read_loop rfixed fuel s want got = (s', e, out) -> binv s' /\ same_file s s'.
Proof.
  induction fuel as [|f IH]; intros s want got s' e out B H; simpl in H.
  - injection H as H1 H2 H3; subst. split; [exact B | reflexivity].
  - destruct (want <=? 0).
    + injection H as H1 H2 H3; subst. split; [exact B | reflexivity].
    + destruct (cur_len s =? 0).
      * unfold next_block in H. destruct (next_block_at rfixed s (next_base s)) as [s1 e1] eqn:N.
        destruct (nba_ok _ _ _ _ B N) as [B1 [S1 _]].
        destruct (e1 =? 0).
        -- destruct (IH _ _ _ _ _ _ B1 H) as [B2 S2]. split; [exact B2 | unfold same_file in *; congruence].
        -- injection H as H1 H2 H3; subst. split; assumption.
      * apply IH in H; [exact H|]. unfold binv in *. simpl. exact B.
Qed.

Lemma read_ok : forall s n s' e out, binv s -> do_read rfixed s n = (s', e, out) -> binv s' /\ same_file s s'.
Proof.
  intros s n s' e out B H. unfold do_read in H.
  destruct (negb (rerr s =? 0)).
  - injection H as H1 H2 H3; subst. split; [exact B | reflexivity].
  - destruct (skip_empty rfixed (2 * length (file s) + 6) s) as [s1 e1] eqn:K.
    destruct (skip_ok _ _ _ _ B K) as [B1 S1].
    destruct (negb (e1 =? 0)).
    + injection H as H1 H2 H3; subst. split; [unfold binv in *; simpl; exact B1 | exact S1].
    + destruct (read_loop rfixed (2 * length (file s) + 6) s1 n []) as [[s2 e2] got] eqn:L.
      destruct (loop_ok _ _ _ _ _ _ _ B1 L) as [B2 S2].
      injection H as H1 H2 H3; subst. split; [unfold binv in *; simpl; exact B2 | unfold same_file in *; simpl; congruence].
Qed.

Lemma seek_ok : forall s m w s' e, binv s -> do_seek rfixed s m w = (s', e) -> binv s' /\ same_file s s'.
Proof.
  intros s m w s' e B H. unfold do_seek in H.
  destruct (negb (base_of (file s) m =? cbase s) || negb (cvalid s)).
  - destruct (next_block_at rfixed s (base_of (file s) m)) as [s1 e1] eqn:N.
    destruct (nba_ok _ _ _ _ B N) as [B1 [S1 _]].
    destruct (e1 =? 0); injection H as H1 H2; subst; (split; [unfold binv in *; simpl; exact B1 | exact S1]).
  - injection H as H1 H2; subst. split; [unfold binv in *; simpl; exact B | reflexivity].
Qed.

(** State after a list of operations (mirrors [run_ops]). *)
Fixpoint exec (inval : rvar) (s : rst) (ops : list rop) : rst :=
  match ops with
  | [] => s
  | RRead n :: r => let '(s1, _, _) := do_read inval s n in exec inval s1 r
  | RSeek m w :: r => let '(s1, _) := do_seek inval s (Z.to_nat m) w in exec inval s1 r
  | RClose :: r => exec inval s r
  end.

Lemma exec_ok : forall ops s, binv s -> binv (exec rfixed s ops) /\ file (exec rfixed s ops) = file s.
Proof.
  induction ops as [|o r IH]; intros s B; simpl. split; [exact B | reflexivity].
  destruct o.
  - destruct (do_read rfixed s n) as [[s1 e] out] eqn:R. destruct (read_ok _ _ _ _ _ B R) as [B1 S1].
    destruct (IH s1 B1) as [B2 S2]. split; [exact B2 | unfold same_file in *; congruence].
  - destruct (do_seek rfixed s (Z.to_nat m) w) as [s1 e] eqn:R. destruct (seek_ok _ _ _ _ _ B R) as [B1 S1].
    destruct (IH s1 B1) as [B2 S2]. split; [exact B2 | unfold same_file in *; congruence].
  - apply IH. exact B.
Qed.

(** Bytes of one Read come out of the current block's data. *)
Lemma loop_bytes_one_block : forall s want, binv s -> 0 < want -> cur_len s <> 0 ->
  exists sz d, member_at (file s) (cbase s) = Some (sz, d) /\
    firstn (Z.to_nat (Z.min (cur_len s) want)) (skipn (Z.to_nat (coff s)) (cdata s))
    = firstn (Z.to_nat (Z.min (cur_len s) want)) (skipn (Z.to_nat (coff s)) d).
Proof.
  intros s want B W L. unfold cur_len in L. destruct (cvalid s) eqn:V; [|congruence].
  exists (chsize s), (cdata s). split; [apply B; exact V | reflexivity].
Qed.

Lemma reader_blocks_sound_gen : forall f x trans seekk ops,
  let '(s0, e0) := ropen rfixed f x trans seekk in
  let s := exec rfixed s0 ops in
  file s = f /\ croff s = r_pos (src s) /\
  (cvalid s = true -> member_at f (cbase s) = Some (chsize s, cdata s)).
Proof.
  intros f x trans seekk ops. unfold ropen.
  destruct (fetch rfixed (rinit f x trans seekk)) as [s0 e0] eqn:F.
  destruct (fetch_ok (rinit f x trans seekk) _ _ (eq_refl : croff (rinit f x trans seekk) = r_pos (src (rinit f x trans seekk))) F) as [B0 [S0 _]]. unfold same_file in S0. simpl in S0.
  destruct (exec_ok ops s0 B0) as [[R B] S]. split; [congruence|]. split; [exact R|].
  intros V. specialize (B V). rewrite S, S0 in B. exact B.
Qed.

(** Every Seek that returns nil leaves the reader on the member that starts at
    the requested offset, whatever happened before — in particular when an
    earlier Seek to the same (or another) offset failed in the underlying
    seeker: the count reader's offset is only advanced by a successful seek,
    so the retry seeks again instead of trusting a position it never reached. *)
Lemma seek_lands : forall s m w s', binv s -> do_seek rfixed s m w = (s', 0) ->
  cvalid s' = true /\ cbase s' = base_of (file s) m /\ coff s' = w /\ rerr s' = 0 /\
  member_at (file s) (base_of (file s) m) = Some (chsize s', cdata s').
Proof.
  intros s m w s' B H. pose proof (seek_ok _ _ _ _ _ B H) as [[R' B'] S]. unfold same_file in S.
  unfold do_seek in H.
  destruct (negb (base_of (file s) m =? cbase s) || negb (cvalid s)) eqn:C.
  - destruct (next_block_at rfixed s (base_of (file s) m)) as [s1 e1] eqn:N.
    destruct (nba_ok _ _ _ _ B N) as [B1 [S1 K]].
    destruct (e1 =? 0) eqn:E.
    + apply Z.eqb_eq in E. destruct (K E) as [V [_ Cb]].
      injection H as H; subst s'. simpl in *. repeat split; auto.
      rewrite <- Cb. rewrite <- S. apply B'. exact V.
    + injection H as H1 H2. apply Z.eqb_neq in E. congruence.
  - apply orb_false_elim in C. destruct C as [C1 C2].
    apply negb_false_iff in C1. apply negb_false_iff in C2. apply Z.eqb_eq in C1.
    injection H as H; subst s'. simpl in *. repeat split; auto.
    rewrite C1. apply B. exact C2.
Qed.

Lemma seek_retry_gen : forall f x trans seekk ops m w w',
  let '(s0, _) := ropen rfixed f x trans seekk in
  let s := exec rfixed s0 ops in
  forall s1 e1 s2, do_seek rfixed s m w = (s1, e1) -> e1 <> 0 ->
    do_seek rfixed s1 m w' = (s2, 0) ->
    cvalid s2 = true /\ cbase s2 = base_of f m /\ coff s2 = w' /\
    member_at f (base_of f m) = Some (chsize s2, cdata s2).
Proof.
  intros f x trans seekk ops m w w'. unfold ropen.
  destruct (fetch rfixed (rinit f x trans seekk)) as [s0 e0] eqn:F.
  destruct (fetch_ok (rinit f x trans seekk) _ _ (eq_refl : croff (rinit f x trans seekk) = r_pos (src (rinit f x trans seekk))) F) as [B0 [S0 _]]. unfold same_file in S0. simpl in S0.
  destruct (exec_ok ops s0 B0) as [B S].
  intros s1 e1 s2 H1 NE H2.
  destruct (seek_ok _ _ _ _ _ B H1) as [B1 S1]. unfold same_file in S1.
  destruct (seek_lands _ _ _ _ B1 H2) as [V [Cb [Co [_ M]]]].
  rewrite S1, S, S0 in *. repeat split; auto.
Qed.

(** countReader.seek as in the seeded defect (offset recorded before the
    underlying Seek is known to have succeeded): the retry after a failed
    Seek skips the real seek and serves the member that follows the old
    position under the requested base. *)
Lemma seek_retry_refuted_gen :
  exists f ops,
    let v := {| rv_inval := true; rv_late := false |} in
    let '(s0, _) := ropen v f (-1) 0 0 in
    run_ops v s0 ops = [(1, []); (0, []); (0, [3; 4])] /\
    run_ops rfixed s0 ops = [(1, []); (0, []); (0, [5; 6])].
Proof.
  exists [(74, [1; 2]); (85, [3; 4]); (60, [5; 6]); (28, [])], [RSeek 2 0; RSeek 2 0; RRead 2].
  vm_compute. split; reflexivity.
Qed.

(** The code before the repair: a block that is served although its data
    belongs to another member. *)
Lemma reader_stale_block_gen :
  exists f x ops,
    let '(s0, _) := ropen {| rv_inval := false; rv_late := true |} f x 0 (-1) in
    let s := exec {| rv_inval := false; rv_late := true |} s0 ops in
    cvalid s = true /\ member_at f (cbase s) <> Some (chsize s, cdata s) /\
    exists m, run_ops {| rv_inval := false; rv_late := true |} s0 (ops ++ [RSeek m 0; RRead 2]) = run_ops {| rv_inval := false; rv_late := true |} s0 ops ++ [(0, []); (0, [1; 2])]
              /\ base_of f (Z.to_nat m) = 74.
Proof.
  exists [(74, [1; 2]); (85, [3; 4]); (28, [])], 80, [RRead 2; RRead 1].
  vm_compute. split; [reflexivity|]. split; [discriminate|]. exists 1. split; reflexivity.
Qed.
