(** C09 — proofs about the synchronous reader model (Model/FaultReader.v). *)
From Coq Require Import ZArith List Bool Lia.
From Hts Require Import Base.Prim Generated Model.FaultWriter Model.FaultReader.
Import ListNotations.
Open Scope Z_scope.

Lemma reader_invalidates : bgzf_reader_invalidates = true.
Proof. reflexivity. Qed.

(** The block the reader serves bytes from is the member of the file that
    starts at the block's base: base, size and data all belong together. *)
Definition binv (s : rst) : Prop :=
  cvalid s = true -> member_at (file s) (cbase s) = Some (chsize s, cdata s).

(** The file never changes. *)
Definition same_file (s s' : rst) : Prop := file s' = file s.

Lemma fetch_ok : forall s s' e, fetch true s = (s', e) -> binv s' /\ same_file s s' /\ (e = 0 -> cvalid s' = true /\ coff s' = 0).
Proof.
  intros s s' e H. unfold fetch in H.
  destruct (faulty (src s) && (r_x (src s) <=? croff s)).
  { injection H as H1 H2; subst. unfold binv, same_file; simpl. repeat split; try discriminate; intros; discriminate. }
  destruct (flen (file s) <=? croff s).
  { injection H as H1 H2; subst. unfold binv, same_file; simpl. repeat split; try discriminate; intros; discriminate. }
  destruct (member_at (file s) (croff s)) as [[sz d]|] eqn:M.
  - destruct (faulty (src s) && (r_x (src s) <? croff s + sz)).
    + injection H as H1 H2; subst. unfold binv, same_file; simpl. repeat split; try discriminate; intros; discriminate.
    + injection H as H1 H2; subst. unfold binv, same_file; simpl. repeat split; auto.
  - injection H as H1 H2; subst. unfold binv, same_file; simpl. repeat split; try discriminate; intros; discriminate.
Qed.

Lemma nba_ok : forall s off s' e, binv s -> next_block_at true s off = (s', e) ->
  binv s' /\ same_file s s' /\ (e = 0 -> cvalid s' = true /\ coff s' = 0).
Proof.
  intros s off s' e B H. unfold next_block_at in H.
  destruct (croff s =? off).
  - apply fetch_ok in H. exact H.
  - destruct ((r_seeks (src s) =? r_seekk (src s)) || (off <? 0)) eqn:F.
    + injection H as H1 H2; subst. unfold binv, same_file in *; simpl. split; [exact B | split; [reflexivity|]].
      intros X. exfalso. destruct (off <? 0); discriminate.
    + apply fetch_ok in H. unfold same_file in *. simpl in H. exact H.
Qed.

Lemma skip_ok : forall fuel s s' e, binv s -> skip_empty true fuel s = (s', e) -> binv s' /\ same_file s s'.
Proof.
  induction fuel as [|f IH]; intros s s' e B H; simpl in H.
  - injection H as H1 H2; subst. split; [exact B | reflexivity].
  - destruct (cur_len s =? 0).
    + unfold next_block in H. destruct (next_block_at true s (next_base s)) as [s1 e1] eqn:N.
      destruct (nba_ok _ _ _ _ B N) as [B1 [S1 _]].
      destruct (e1 =? 0).
      * destruct (IH _ _ _ B1 H) as [B2 S2]. split; [exact B2 | unfold same_file in *; congruence].
      * injection H as H1 H2; subst. split; assumption.
    + injection H as H1 H2; subst. split; [exact B | reflexivity].
Qed.

(** Bytes handed out by one Read: every chunk appended is a segment of the data of a block satisfying [binv]. *)
Lemma loop_ok : forall fuel s want got s' e out, binv s -> read_loop true fuel s want got = (s', e, out) -> binv s' /\ same_file s s'.
Proof.
  induction fuel as [|f IH]; intros s want got s' e out B H; simpl in H.
  - injection H as H1 H2 H3; subst. split; [exact B | reflexivity].
  - destruct (want <=? 0).
    + injection H as H1 H2 H3; subst. split; [exact B | reflexivity].
    + destruct (cur_len s =? 0).
      * unfold next_block in H. destruct (next_block_at true s (next_base s)) as [s1 e1] eqn:N.
        destruct (nba_ok _ _ _ _ B N) as [B1 [S1 _]].
        destruct (e1 =? 0).
        -- destruct (IH _ _ _ _ _ _ B1 H) as [B2 S2]. split; [exact B2 | unfold same_file in *; congruence].
        -- injection H as H1 H2 H3; subst. split; assumption.
      * apply IH in H; [exact H|]. unfold binv in *. simpl. exact B.
Qed.

Lemma read_ok : forall s n s' e out, binv s -> do_read true s n = (s', e, out) -> binv s' /\ same_file s s'.
Proof.
  intros s n s' e out B H. unfold do_read in H.
  destruct (negb (rerr s =? 0)).
  - injection H as H1 H2 H3; subst. split; [exact B | reflexivity].
  - destruct (skip_empty true (2 * length (file s) + 6) s) as [s1 e1] eqn:K.
    destruct (skip_ok _ _ _ _ B K) as [B1 S1].
    destruct (negb (e1 =? 0)).
    + injection H as H1 H2 H3; subst. split; [unfold binv in *; simpl; exact B1 | exact S1].
    + destruct (read_loop true (2 * length (file s) + 6) s1 n []) as [[s2 e2] got] eqn:L.
      destruct (loop_ok _ _ _ _ _ _ _ B1 L) as [B2 S2].
      injection H as H1 H2 H3; subst. split; [unfold binv in *; simpl; exact B2 | unfold same_file in *; simpl; congruence].
Qed.

Lemma seek_ok : forall s m w s' e, binv s -> do_seek true s m w = (s', e) -> binv s' /\ same_file s s'.
Proof.
  intros s m w s' e B H. unfold do_seek in H.
  destruct (negb (base_of (file s) m =? cbase s) || negb (cvalid s)).
  - destruct (next_block_at true s (base_of (file s) m)) as [s1 e1] eqn:N.
    destruct (nba_ok _ _ _ _ B N) as [B1 [S1 _]].
    destruct (e1 =? 0); injection H as H1 H2; subst; (split; [unfold binv in *; simpl; exact B1 | exact S1]).
  - injection H as H1 H2; subst. split; [unfold binv in *; simpl; exact B | reflexivity].
Qed.

(** State after a list of operations (mirrors [run_ops]). *)
Fixpoint exec (inval : bool) (s : rst) (ops : list rop) : rst :=
  match ops with
  | [] => s
  | RRead n :: r => let '(s1, _, _) := do_read inval s n in exec inval s1 r
  | RSeek m w :: r => let '(s1, _) := do_seek inval s (Z.to_nat m) w in exec inval s1 r
  | RClose :: r => exec inval s r
  end.

Lemma exec_ok : forall ops s, binv s -> binv (exec true s ops) /\ file (exec true s ops) = file s.
Proof.
  induction ops as [|o r IH]; intros s B; simpl. split; [exact B | reflexivity].
  destruct o.
  - destruct (do_read true s n) as [[s1 e] out] eqn:R. destruct (read_ok _ _ _ _ _ B R) as [B1 S1].
    destruct (IH s1 B1) as [B2 S2]. split; [exact B2 | unfold same_file in *; congruence].
  - destruct (do_seek true s (Z.to_nat m) w) as [s1 e] eqn:R. destruct (seek_ok _ _ _ _ _ B R) as [B1 S1].
    destruct (IH s1 B1) as [B2 S2]. split; [exact B2 | unfold same_file in *; congruence].
  - apply IH. exact B.
Qed.

(** Bytes of one Read come out of the current block's data. *)
Lemma loop_bytes_one_block : forall s want, binv s -> 0 < want -> cur_len s <> 0 ->
  exists sz d, member_at (file s) (cbase s) = Some (sz, d) /\
    firstn (Z.to_nat (Z.min (cur_len s) want)) (skipn (Z.to_nat (coff s)) (cdata s))
    = firstn (Z.to_nat (Z.min (cur_len s) want)) (skipn (Z.to_nat (coff s)) d).
Proof.
  intros s want B W L. unfold cur_len in L. destruct (cvalid s) eqn:V; [|congruence].
  exists (chsize s), (cdata s). split; [apply B; exact V | reflexivity].
Qed.

Lemma reader_blocks_sound_gen : forall f x trans seekk ops,
  let '(s0, e0) := ropen true f x trans seekk in
  let s := exec true s0 ops in
  file s = f /\ (cvalid s = true -> member_at f (cbase s) = Some (chsize s, cdata s)).
Proof.
  intros f x trans seekk ops. unfold ropen.
  destruct (fetch true (rinit f x trans seekk)) as [s0 e0] eqn:F.
  destruct (fetch_ok _ _ _ F) as [B0 [S0 _]]. unfold same_file in S0. simpl in S0.
  destruct (exec_ok ops s0 B0) as [B S]. split; [congruence|].
  intros V. specialize (B V). rewrite S, S0 in B. exact B.
Qed.

(** The code before the repair: a block that is served although its data
    belongs to another member. *)
Lemma reader_stale_block_gen :
  exists f x ops,
    let '(s0, _) := ropen false f x 0 (-1) in
    let s := exec false s0 ops in
    cvalid s = true /\ member_at f (cbase s) <> Some (chsize s, cdata s) /\
    exists m, run_ops false s0 (ops ++ [RSeek m 0; RRead 2]) = run_ops false s0 ops ++ [(0, []); (0, [1; 2])]
              /\ base_of f (Z.to_nat m) = 74.
Proof.
  exists [(74, [1; 2]); (85, [3; 4]); (28, [])], 80, [RRead 2; RRead 1].
  vm_compute. split; [reflexivity|]. split; [discriminate|]. exists 1. split; reflexivity.
Qed.
