(** C09 — the sync reader at flat byte positions. *)
From Coq Require Import ZArith List Bool Lia.
From Hts Require Import Base.Prim Generated Model.FaultWriter Model.FaultReader Proofs.FaultReader.
Import ListNotations.
Open Scope Z_scope.

(** The decompressed data of the whole file, and the flat offset at which the
    member starting at compressed offset [a] begins. *)
Definition fdata (f : list member) : list Z := concat (map snd f).
Fixpoint foff (f : list member) (a : Z) : Z :=
  match f with
  | [] => 0
  | (sz, d) :: r => if a <? sz then 0 else zlen d + foff r (a - sz)
  end.

Definition wf_file (f : list member) : Prop := Forall (fun m => 0 < fst m) f.

Lemma zlen_app : forall A (a b : list A), zlen (a ++ b) = zlen a + zlen b.
Proof. intros. unfold zlen. rewrite app_length. lia. Qed.
Lemma zlen_nonneg : forall A (l : list A), 0 <= zlen l.
Proof. intros. unfold zlen. lia. Qed.

Lemma to_nat_zlen : forall A (l : list A), Z.to_nat (zlen l) = length l.
Proof. intros. unfold zlen. apply Nat2Z.id. Qed.

Lemma skipn_zlen_plus : forall (d0 l : list Z) x, 0 <= x -> skipn (Z.to_nat (zlen d0 + x)) (d0 ++ l) = skipn (Z.to_nat x) l.
Proof.
  intros d0 l x Hx. pose proof (zlen_nonneg _ d0). rewrite Z2Nat.inj_add by lia. rewrite to_nat_zlen.
  rewrite skipn_app. rewrite skipn_all2 by lia. simpl. f_equal. lia.
Qed.

Lemma foff_nonneg : forall f a, 0 <= foff f a.
Proof. induction f as [|[sz d] r IH]; intros a; simpl. lia. destruct (a <? sz). lia. pose proof (IH (a - sz)). pose proof (zlen_nonneg _ d). lia. Qed.

Lemma flen_nonneg : forall f, wf_file f -> 0 <= flen f.
Proof. induction f as [|[sz d] r IH]; intros W; simpl. lia. inversion W; subst. simpl in *. specialize (IH H2). lia. Qed.

(** The member at [a]: its data sits at flat offset [foff f a]. *)
Lemma member_flat : forall f a sz d, wf_file f -> 0 <= a -> member_at f a = Some (sz, d) ->
  skipn (Z.to_nat (foff f a)) (fdata f) = d ++ skipn (Z.to_nat (foff f (a + sz))) (fdata f) /\
  foff f (a + sz) = foff f a + zlen d /\ a + sz <= flen f /\ 0 < sz /\
  (flen f <= a + sz -> foff f (a + sz) = zlen (fdata f)).
Proof.
  induction f as [|[sz0 d0] r IH]; intros a sz d W Ha M; simpl in M. discriminate.
  inversion W as [|? ? W0 Wr]; subst. simpl in W0.
  pose proof (zlen_nonneg _ d0) as Hd0. pose proof (flen_nonneg r Wr) as Hr.
  unfold fdata. simpl map. simpl concat. fold (fdata r). simpl foff. simpl flen.
  destruct (a =? 0) eqn:E0.
  - apply Z.eqb_eq in E0. subst a. injection M as M1 M2; subst sz0 d0.
    destruct (0 <? sz) eqn:E1; [|apply Z.ltb_ge in E1; lia].
    replace (0 + sz <? sz) with false by (symmetry; apply Z.ltb_ge; lia).
    replace (0 + sz - sz) with 0 by lia.
    assert (F0 : foff r 0 = 0). { destruct r as [|[s1 d1] r']; simpl; auto. inversion Wr; subst. simpl in *. destruct (0 <? s1) eqn:E; auto. apply Z.ltb_ge in E. lia. }
    rewrite F0. simpl. replace (zlen d + 0) with (zlen d) by lia.
    repeat split; try lia.
    + unfold zlen. rewrite Nat2Z.id. rewrite skipn_app, Nat.sub_diag, skipn_all. reflexivity.
    + intros H. assert (flen r = 0) by lia. rewrite zlen_app.
      assert (fdata r = []). { destruct r as [|[s1 d1] r']; auto. inversion Wr; subst. simpl in *. pose proof (flen_nonneg r' H4). lia. }
      rewrite H1. unfold zlen. simpl. lia.
  - apply Z.eqb_neq in E0. destruct (a <? sz0) eqn:E1; [discriminate|]. apply Z.ltb_ge in E1.
    destruct (IH (a - sz0) sz d Wr ltac:(lia) M) as [A [B [C [D E]]]].
    replace (a + sz <? sz0) with false by (symmetry; apply Z.ltb_ge; lia).
    replace (a + sz - sz0) with (a - sz0 + sz) by lia.
    pose proof (foff_nonneg r (a - sz0)). pose proof (foff_nonneg r (a - sz0 + sz)).
    repeat split; try lia.
    + rewrite !skipn_zlen_plus by lia. exact A.
    + intros HH. rewrite zlen_app. rewrite E by lia. lia.
Qed.

(** [b] is the segment of [D] that starts at flat position [P]. *)
Definition is_seg (D : list Z) (P : Z) (b : list Z) : Prop := firstn (length b) (skipn (Z.to_nat P) D) = b.

Lemma seg_nil : forall D P, is_seg D P [].
Proof. reflexivity. Qed.

Lemma skipn_skipn' : forall (l : list Z) a b, skipn a (skipn b l) = skipn (b + a) l.
Proof. intros l a b. revert l. induction b as [|b IH]; intros l; simpl. reflexivity. destruct l; simpl. destruct a; reflexivity. apply IH. Qed.

Lemma seg_app : forall D P b1 b2, 0 <= P -> is_seg D P b1 -> is_seg D (P + zlen b1) b2 -> is_seg D P (b1 ++ b2).
Proof.
  unfold is_seg. intros D P b1 b2 HP H1 H2.
  replace (Z.to_nat (P + zlen b1)) with (Z.to_nat P + length b1)%nat in H2 by (unfold zlen; lia).
  rewrite <- skipn_skipn' in H2.
  set (T := skipn (Z.to_nat P) D) in *.
  rewrite <- (firstn_skipn (length b1) T). rewrite app_length.
  assert (L : length (firstn (length b1) T) = length b1) by (rewrite H1; reflexivity).
  rewrite firstn_app. rewrite L.
  replace (length b1 + length b2 - length b1)%nat with (length b2) by lia.
  rewrite firstn_firstn. rewrite Nat.min_r by lia. rewrite H1, H2. reflexivity.
Qed.

(** The reader stands at flat position [P]. *)
Definition at_pos (s : rst) (P : Z) : Prop :=
  cvalid s = true /\ 0 <= cbase s /\ 0 <= coff s <= zlen (cdata s) /\ P = foff (file s) (cbase s) + coff s.

Lemma seg_block : forall f a sz d c k, wf_file f -> 0 <= a -> member_at f a = Some (sz, d) ->
  0 <= c -> 0 <= k -> c + k <= zlen d ->
  is_seg (fdata f) (foff f a + c) (firstn (Z.to_nat k) (skipn (Z.to_nat c) d)).
Proof.
  intros f a sz d c k W Ha M Hc Hk Hl. destruct (member_flat f a sz d W Ha M) as [A _].
  pose proof (foff_nonneg f a). unfold is_seg.
  rewrite Z2Nat.inj_add by lia. rewrite <- skipn_skipn'. rewrite A.
  assert (Lc : (Z.to_nat c <= length d)%nat) by (unfold zlen in Hl; lia).
  rewrite skipn_app. replace (Z.to_nat c - length d)%nat with 0%nat by lia. simpl skipn at 2.
  assert (Lk : length (firstn (Z.to_nat k) (skipn (Z.to_nat c) d)) = Z.to_nat k).
  { rewrite firstn_length, skipn_length. unfold zlen in Hl. lia. }
  rewrite Lk. rewrite firstn_app. rewrite skipn_length.
  replace (Z.to_nat k - (length d - Z.to_nat c))%nat with 0%nat by (unfold zlen in Hl; lia).
  simpl. apply app_nil_r.
Qed.

Lemma fetch_e3 : forall s s', croff s = r_pos (src s) -> fetch rfixed s = (s', 3) -> flen (file s) <= croff s.
Proof.
  intros s s' R H. unfold fetch in H. simpl in H. rewrite <- R in H.
  destruct (faulty (src s) && (r_x (src s) <=? croff s)); [injection H as _ H; discriminate|].
  destruct (flen (file s) <=? croff s) eqn:E; [apply Z.leb_le in E; exact E|].
  destruct (member_at (file s) (croff s)) as [[sz d]|]; [|injection H as _ H; discriminate].
  destruct (faulty (src s) && (r_x (src s) <? croff s + sz)); injection H as _ H; discriminate.
Qed.

Lemma nba_e3 : forall s off s', binv s -> next_block_at rfixed s off = (s', 3) -> flen (file s) <= off.
Proof.
  intros s off s' [R B] H. unfold next_block_at in H.
  destruct (croff s =? off) eqn:E.
  - apply Z.eqb_eq in E. subst off. eapply fetch_e3; eauto.
  - destruct ((r_seeks (src s) =? r_seekk (src s)) || (off <? 0)).
    + injection H as _ H. destruct (off <? 0); discriminate.
    + apply fetch_e3 in H; [|reflexivity]. simpl in H. exact H.
Qed.

Lemma read_loop_flat : forall fuel s want got s' e out P,
  wf_file (file s) -> binv s -> at_pos s P -> read_loop rfixed fuel s want got = (s', e, out) ->
  exists bytes, out = got ++ bytes /\ is_seg (fdata (file s)) P bytes /\ binv s' /\ file s' = file s /\
    (e = 0 -> at_pos s' (P + zlen bytes)) /\ (e = 3 -> P + zlen bytes = zlen (fdata (file s))).
Proof.
  induction fuel as [|f IH]; intros s want got s' e out P W B AP H; simpl in H.
  - injection H as H1 H2 H3; subst. exists []. rewrite app_nil_r.
    split; [reflexivity|]. split; [apply seg_nil|]. split; [exact B|]. split; [reflexivity|]. split; intros; discriminate.
  - destruct AP as [V [Hb [Hc HP]]]. pose proof B as [R Bm]. specialize (Bm V).
    destruct (member_flat _ _ _ _ W Hb Bm) as [MA [MB [MC [MD ME]]]].
    pose proof (foff_nonneg (file s) (cbase s)) as Hf.
    destruct (want <=? 0) eqn:Ew.
    + injection H as H1 H2 H3; subst. exists []. rewrite app_nil_r. change (zlen (@nil Z)) with 0.
      split; [reflexivity|]. split; [apply seg_nil|]. split; [exact B|]. split; [reflexivity|]. split; [|intros; discriminate].
      intros _. replace (foff (file s') (cbase s') + coff s' + 0) with (foff (file s') (cbase s') + coff s') by lia.
      unfold at_pos. auto.
    + apply Z.leb_gt in Ew. unfold cur_len in H. rewrite V in H.
      destruct (Z.max 0 (zlen (cdata s) - coff s) =? 0) eqn:Ea.
      * apply Z.eqb_eq in Ea. assert (Hco : coff s = zlen (cdata s)) by lia.
        unfold next_block, next_base in H.
        replace (chsize s <? 0) with false in H by (symmetry; apply Z.ltb_ge; lia).
        destruct (next_block_at rfixed s (cbase s + chsize s)) as [s1 e1] eqn:N.
        destruct (nba_ok _ _ _ _ B N) as [B1 [S1 K]]. unfold same_file in S1.
        destruct (e1 =? 0) eqn:E1.
        -- apply Z.eqb_eq in E1. destruct (K E1) as [V1 [C1 Cb1]].
           assert (AP1 : at_pos s1 P).
           { repeat split; auto; try lia. rewrite C1. unfold zlen. lia. rewrite S1, Cb1, MB, C1. lia. }
           destruct (IH s1 want got s' e out P ltac:(rewrite S1; exact W) B1 AP1 H) as [bytes [O [SG [B' [F' [A0 A3]]]]]].
           exists bytes. rewrite S1 in *. split; [exact O|]. split; [exact SG|]. split; [exact B'|]. split; [exact F'|]. split; assumption.
        -- injection H as H1 H2 H3; subst. exists []. rewrite app_nil_r. change (zlen (@nil Z)) with 0.
           split; [reflexivity|]. split; [apply seg_nil|]. split; [exact B1|]. split; [exact S1|]. split.
           ++ intros X. subst e. discriminate.
           ++ intros X. subst e. apply nba_e3 in N; [|exact B]. specialize (ME N). lia.
      * apply Z.eqb_neq in Ea.
        set (k := Z.min (Z.max 0 (zlen (cdata s) - coff s)) want) in *.
        assert (Hk : 0 < k /\ coff s + k <= zlen (cdata s)) by (unfold k; lia).
        set (bk := firstn (Z.to_nat k) (skipn (Z.to_nat (coff s)) (cdata s))) in *.
        assert (SGk : is_seg (fdata (file s)) P bk).
        { rewrite HP. eapply seg_block; eauto; lia. }
        assert (Lk : zlen bk = k).
        { unfold bk, zlen. rewrite firstn_length, skipn_length. unfold zlen in Hk. lia. }
        set (s1 := upd s (src s) (croff s) (cbase s) (chsize s) (cdata s) (coff s + k) true (rerr s)) in *.
        assert (B1 : binv s1) by (unfold binv, s1; simpl; split; [exact R | intros _; exact Bm]).
        assert (AP1 : at_pos s1 (P + k)) by (unfold at_pos, s1; simpl; repeat split; auto; lia).
        destruct (IH s1 (want - k) (got ++ bk) s' e out (P + k) W B1 AP1 H) as [bytes [O [SG [B' [F' [A0 A3]]]]]].
        exists (bk ++ bytes). simpl in *. rewrite zlen_app, Lk.
        split; [rewrite O; rewrite app_assoc; reflexivity|].
        split; [apply seg_app; [lia | exact SGk | rewrite Lk; exact SG]|].
        split; [exact B'|]. split; [exact F'|].
        split; intros X; rewrite Z.add_assoc; auto.
Qed.

Lemma skip_empty_flat : forall fuel s s' e P,
  wf_file (file s) -> binv s -> at_pos s P -> skip_empty rfixed fuel s = (s', e) ->
  binv s' /\ file s' = file s /\ (e = 0 -> at_pos s' P) /\ (e = 3 -> P = zlen (fdata (file s))).
Proof.
  induction fuel as [|f IH]; intros s s' e P W B AP H; simpl in H.
  - injection H as H1 H2; subst. split; [exact B|]. split; [reflexivity|]. split; intros; discriminate.
  - pose proof AP as [V [Hb [Hc HP]]]. pose proof B as [R Bm]. specialize (Bm V).
    destruct (member_flat _ _ _ _ W Hb Bm) as [MA [MB [MC [MD ME]]]].
    unfold cur_len in H. rewrite V in H.
    destruct (Z.max 0 (zlen (cdata s) - coff s) =? 0) eqn:Ea.
    + apply Z.eqb_eq in Ea. assert (Hco : coff s = zlen (cdata s)) by lia.
      unfold next_block, next_base in H.
      replace (chsize s <? 0) with false in H by (symmetry; apply Z.ltb_ge; lia).
      destruct (next_block_at rfixed s (cbase s + chsize s)) as [s1 e1] eqn:N.
      destruct (nba_ok _ _ _ _ B N) as [B1 [S1 K]]. unfold same_file in S1.
      destruct (e1 =? 0) eqn:E1.
      * apply Z.eqb_eq in E1. destruct (K E1) as [V1 [C1 Cb1]].
        assert (AP1 : at_pos s1 P).
        { unfold at_pos. split; [exact V1|]. split; [lia|]. split; [rewrite C1; unfold zlen; lia|]. rewrite S1, Cb1, MB, C1. lia. }
        destruct (IH s1 s' e P ltac:(rewrite S1; exact W) B1 AP1 H) as [B' [F' [A0 A3]]].
        rewrite S1 in *. auto.
      * injection H as H1 H2; subst. split; [exact B1|]. split; [exact S1|]. split.
        -- intros X. subst e. discriminate.
        -- intros X. subst e. apply nba_e3 in N; [|exact B]. specialize (ME N). lia.
    + injection H as H1 H2; subst. split; [exact B|]. split; [reflexivity|]. split; [intros _; exact AP | intros; discriminate].
Qed.

(** One Read call, from a reader that stands at flat position P without a
    pending error: the bytes returned are the file's data at P; after a nil
    error the reader stands behind them; a clean EOF means P + n is the end. *)
Lemma read_flat : forall s n s' e got P,
  wf_file (file s) -> binv s -> at_pos s P -> rerr s = 0 -> do_read rfixed s n = (s', e, got) ->
  is_seg (fdata (file s)) P got /\ binv s' /\ file s' = file s /\ rerr s' = e /\
  (e = 0 -> at_pos s' (P + zlen got)) /\ (e = 3 -> P + zlen got = zlen (fdata (file s))).
Proof.
  intros s n s' e got P W B AP E H. unfold do_read in H. rewrite E in H. change (negb (0 =? 0)) with false in H. cbv iota zeta in H.
  destruct (skip_empty rfixed (2 * length (file s) + 6) s) as [s1 e1] eqn:K.
  destruct (skip_empty_flat _ _ _ _ _ W B AP K) as [B1 [F1 [A0 A3]]].
  destruct (e1 =? 0) eqn:E1; cbn [negb] in H; cbv iota in H.
  - apply Z.eqb_eq in E1. specialize (A0 E1).
    destruct (read_loop rfixed (2 * length (file s) + 6) s1 n []) as [[s2 e2] out] eqn:L. cbv iota beta in H.
    destruct (read_loop_flat _ _ _ _ _ _ _ _ ltac:(rewrite F1; exact W) B1 A0 L) as [bytes [O [SG [B2 [F2 [C0 C3]]]]]].
    injection H as H1 H2 H3; subst s' e got. simpl in O. subst out. rewrite F1 in *.
    split; [exact SG|]. split; [unfold binv in *; simpl; exact B2|]. split; [simpl; congruence|]. split; [reflexivity|].
    split; [intros X; specialize (C0 X); unfold at_pos in *; simpl; exact C0 | exact C3].
  - apply Z.eqb_neq in E1. injection H as H1 H2 H3; subst s' e got. change (zlen (@nil Z)) with 0.
    split; [apply seg_nil|]. split; [unfold binv in *; simpl; exact B1|]. split; [simpl; exact F1|]. split; [reflexivity|].
    split; [intros X; contradiction | intros X; specialize (A3 X); lia].
Qed.

Lemma base_of_nonneg : forall f m, wf_file f -> 0 <= base_of f m.
Proof.
  induction f as [|[sz d] r IH]; intros m W; destruct m; simpl; try lia.
  inversion W; subst. simpl in *. specialize (IH m H2). lia.
Qed.

Lemma seek_flat : forall s m w s', wf_file (file s) -> binv s -> do_seek rfixed s m w = (s', 0) ->
  (forall sz d, member_at (file s) (base_of (file s) m) = Some (sz, d) -> 0 <= w <= zlen d) ->
  binv s' /\ file s' = file s /\ rerr s' = 0 /\ at_pos s' (foff (file s) (base_of (file s) m) + w).
Proof.
  intros s m w s' W B H Hw.
  destruct (seek_ok _ _ _ _ _ B H) as [B' S]. unfold same_file in S.
  destruct (seek_lands _ _ _ _ B H) as [V [Cb [Co [Er M]]]].
  split; [exact B'|]. split; [exact S|]. split; [exact Er|].
  unfold at_pos. split; [exact V|]. rewrite Cb, Co, S. pose proof (base_of_nonneg (file s) m W).
  split; [lia|]. split; [apply (Hw _ _ M) | reflexivity].
Qed.

(** What the property demands of a whole history, phrased over flat positions:
    [pos] is the position the caller is entitled to assume (None after an error,
    until the next successful Seek). *)
Fixpoint flat_ok (f : list member) (pos : option Z) (ops : list rop) (res : list (Z * list Z)) : Prop :=
  match ops, res with
  | [], [] => True
  | RRead n :: ops', (e, got) :: res' =>
    match pos with
    | Some P => is_seg (fdata f) P got /\ (e = 3 -> P + zlen got = zlen (fdata f)) /\
                flat_ok f (if e =? 0 then Some (P + zlen got) else None) ops' res'
    | None => got = [] /\ e <> 0 /\ flat_ok f None ops' res'
    end
  | RSeek m w :: ops', (e, got) :: res' =>
    got = [] /\ flat_ok f (if e =? 0 then Some (foff f (base_of f (Z.to_nat m)) + w) else None) ops' res'
  | RClose :: ops', _ :: res' => flat_ok f pos ops' res'
  | _, _ => False
  end.

Definition seeks_in_range (f : list member) (ops : list rop) : Prop :=
  Forall (fun o => match o with
                   | RSeek m w => forall sz d, member_at f (base_of f (Z.to_nat m)) = Some (sz, d) -> 0 <= w <= zlen d
                   | _ => True end) ops.

Definition tracks (s : rst) (pos : option Z) : Prop :=
  match pos with Some P => rerr s = 0 /\ at_pos s P | None => rerr s <> 0 end.

Lemma run_ops_flat : forall ops s pos, wf_file (file s) -> binv s -> tracks s pos -> seeks_in_range (file s) ops ->
  flat_ok (file s) pos ops (run_ops rfixed s ops).
Proof.
  induction ops as [|o ops IH]; intros s pos W B T SR; simpl. exact I.
  inversion SR as [|? ? So SR']; subst.
  destruct o as [n|m w|].
  - destruct (do_read rfixed s n) as [[s1 e] got] eqn:R.
    destruct pos as [P|]; simpl in T.
    + destruct T as [E AP]. destruct (read_flat _ _ _ _ _ _ W B AP E R) as [SG [B1 [F1 [E1 [A0 A3]]]]].
      split; [exact SG|]. split; [exact A3|]. rewrite <- F1. apply IH; try (rewrite F1; assumption); auto.
      destruct (e =? 0) eqn:Ee; simpl.
      * apply Z.eqb_eq in Ee. split; [congruence | auto].
      * apply Z.eqb_neq in Ee. congruence.
    + unfold do_read in R. destruct (rerr s =? 0) eqn:E0; [apply Z.eqb_eq in E0; contradiction|]. simpl in R.
      injection R as R1 R2 R3; subst. split; [reflexivity|]. split; [exact T|]. apply IH; auto.
  - destruct (do_seek rfixed s (Z.to_nat m) w) as [s1 e] eqn:R.
    split; [reflexivity|].
    destruct (seek_ok _ _ _ _ _ B R) as [B1 S1]. unfold same_file in S1.
    destruct (e =? 0) eqn:Ee.
    + apply Z.eqb_eq in Ee. subst e. destruct (seek_flat _ _ _ _ W B R So) as [_ [_ [Er AP]]].
      rewrite <- S1. apply IH; try (rewrite S1; assumption); auto. simpl. rewrite S1. auto.
    + apply Z.eqb_neq in Ee. rewrite <- S1. apply IH; try (rewrite S1; assumption); auto. simpl.
      unfold do_seek in R.
      destruct (negb (base_of (file s) (Z.to_nat m) =? cbase s) || negb (cvalid s)).
      * destruct (next_block_at rfixed s (base_of (file s) (Z.to_nat m))) as [s2 e2]. destruct (e2 =? 0) eqn:E2.
        -- injection R as R1 R2. congruence.
        -- injection R as R1 R2. subst. simpl. apply Z.eqb_neq in E2. exact E2.
      * injection R as R1 R2. congruence.
  - apply IH; auto.
Qed.

(** From NewReader on: every history of Read / Seek / Close over every fault plan. *)
Lemma reader_flat_gen : forall f x trans seekk ops,
  wf_file f -> seeks_in_range f ops ->
  let '(s0, e0) := ropen rfixed f x trans seekk in
  e0 = 0 -> flat_ok f (Some 0) ops (run_ops rfixed s0 ops).
Proof.
  intros f x trans seekk ops W SR. unfold ropen.
  destruct (fetch rfixed (rinit f x trans seekk)) as [s0 e0] eqn:F. intros E0.
  destruct (fetch_ok (rinit f x trans seekk) _ _ (eq_refl : croff (rinit f x trans seekk) = r_pos (src (rinit f x trans seekk))) F) as [B0 [S0 K]].
  unfold same_file in S0. simpl in S0. destruct (K E0) as [V [C Cb]]. simpl in Cb.
  rewrite <- S0. apply run_ops_flat; try (rewrite S0; assumption); auto.
  simpl. split.
  - (* NewReader leaves no error *) unfold fetch in F. simpl in F.
    repeat match type of F with (if ?b then _ else _) = _ => destruct b | match ?x with _ => _ end = _ => destruct x as [[? ?]|] end;
      injection F as F1 F2; subst; simpl; try reflexivity; try discriminate.
  - unfold at_pos. split; [exact V|]. rewrite Cb, C. split; [lia|]. split; [unfold zlen; lia|].
    rewrite S0. destruct f as [|[sz d] r]; simpl; [reflexivity|]. inversion W; subst. simpl in *.
    destruct (0 <? sz) eqn:E; [lia | apply Z.ltb_ge in E; lia].
Qed.
