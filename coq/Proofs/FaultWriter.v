(** C09 — proofs about the writer model (Model/FaultWriter.v). *)
From Coq Require Import ZArith List Bool Lia.
From Hts Require Import Base.Prim Generated Model.FaultWriter.
Import ListNotations.
Open Scope Z_scope.
Global Opaque BS.

(** * The skeleton of the current source *)
Lemma writer_variant_fixed : writer_variant = fixed_variant.
Proof. vm_compute. reflexivity. Qed.

Lemma writer_skeleton_conserves : skeleton_conserves writer_skel = true.
Proof. vm_compute. reflexivity. Qed.

(** What the boolean check means, for writeOK: every complete path (body
    followed by its defers) has exactly one qwg.Done, exactly one send on
    waiting, and the Done comes first. *)
Lemma writeOK_paths_conserve :
  forall ps, fn_paths (sk_writeOK writer_skel) = Some ps ->
  forall p, In p ps ->
    count_ev (EDone qwgS) p = 1 /\ count_ev (ESend waitingS) p = 1 /\ before (EDone qwgS) (ESend waitingS) p = true.
Proof.
  intros ps Hps p Hin.
  assert (H : writeOK_conserves writer_skel = true) by (vm_compute; reflexivity).
  unfold writeOK_conserves, all_paths in H. rewrite Hps in H.
  rewrite forallb_forall in H. specialize (H p Hin).
  apply andb_prop in H. destruct H as [H H3]. apply andb_prop in H. destruct H as [H1 H2].
  apply Z.eqb_eq in H1. apply Z.eqb_eq in H2. auto.
Qed.

Lemma writeOK_has_paths : exists ps, fn_paths (sk_writeOK writer_skel) = Some ps /\ ps <> [].
Proof. vm_compute. eexists. split; [reflexivity | discriminate]. Qed.

Lemma some_inj : forall A (a b : A), Some a = Some b -> a = b.
Proof. intros A a b H. injection H. auto. Qed.

(** * Invariant of the transition system (fixed variant) *)
Definition eheld (s : st) : Z :=
  match em s with EFlush _ | EWrite _ _ _ | EFail1 _ _ | EFail2 _ _ | ERet _ _ _ => 1 | _ => 0 end.
Definition edebt (s : st) : Z :=
  match em s with EFlush _ | EWrite _ _ _ | EFail1 _ _ | EFail2 _ _ => 1 | _ => 0 end.
Definition aheld (s : st) : Z :=
  match pc s with AWRecv _ _ => 0 | AFEnq _ _ => 2 | ACRecv _ _ => 0 | _ => 1 end.

Definition noCP (l : list item) : Prop := forall it, In it l -> ist_ it <> ClosePend.
Definition emNoCP (s : st) : Prop := match em s with EFlush it => ist_ it <> ClosePend | _ => True end.

Definition cp_inv (s : st) : Prop :=
  match pc s with
  | ACRecv c0 _ | ACComp c0 _ =>
    (exists q it, queue s = q ++ [it] /\ noCP q /\ emNoCP s /\ ist_ it = ClosePend /\ cid it = c0)
    \/ (exists it, em s = EFlush it /\ ist_ it = ClosePend /\ cid it = c0 /\ queue s = [])
  | _ => noCP (queue s) /\ emNoCP s
  end.

(** API states from which a block may still be queued. *)
Definition open_pc (p : apc) : bool :=
  match p with AWLoop _ _ | AWRecv _ _ | AWErr _ _ | AFRecv | AFEnq _ _ | ACRecv _ _ | ACComp _ _ => true | _ => false end.
Definition closing_pc (p : apc) : bool :=
  match p with ACWg | ACMagic => true | _ => false end.

Record inv (c : cfg) (s : st) : Prop := {
  i_tok : zlen (waiting s) + zlen (queue s) + eheld s + aheld s = Z.of_nat (ncomp c);
  i_qwg : qwg s = zlen (queue s) + edebt s;
  i_cp : cp_inv s;
  i_exit : em s = EExit -> queue s = [] /\ qclosed s = true;
  i_qc : qclosed s = true -> closed s = true;
  i_open : open_pc (pc s) = true -> closed s = false;
  i_closing : closing_pc (pc s) = true -> qclosed s = true }.

Lemma zlen_app : forall A (a b : list A), zlen (a ++ b) = zlen a + zlen b.
Proof. intros. unfold zlen. rewrite app_length. lia. Qed.
Lemma zlen_map : forall A B (f : A -> B) l, zlen (map f l) = zlen l.
Proof. intros. unfold zlen. rewrite map_length. reflexivity. Qed.
Lemma zlen_cons : forall A (x : A) l, zlen (x :: l) = 1 + zlen l.
Proof. intros. unfold zlen. simpl length. lia. Qed.
Lemma zlen_nil : forall A, zlen (@nil A) = 0.
Proof. reflexivity. Qed.
Lemma zlen_nonneg : forall A (l : list A), 0 <= zlen l.
Proof. intros. unfold zlen. lia. Qed.

Lemma qfull_false : forall c s, qfull c s = false -> zlen (queue s) < Z.of_nat (ncomp c).
Proof. intros c s H. unfold qfull in H. apply Nat.leb_gt in H. unfold zlen. lia. Qed.
Lemma qfull_true : forall c s, qfull c s = true -> Z.of_nat (ncomp c) <= zlen (queue s).
Proof. intros c s H. unfold qfull in H. apply Nat.leb_le in H. unfold zlen. lia. Qed.
Lemma wfull_true : forall c s, wfull c s = true -> Z.of_nat (ncomp c) <= zlen (waiting s).
Proof. intros c s H. unfold wfull in H. apply Nat.leb_le in H. unfold zlen. lia. Qed.

Global Opaque zlen.

Lemma noCP_app : forall a b, noCP a -> noCP b -> noCP (a ++ b).
Proof. unfold noCP. intros a b Ha Hb it Hin. apply in_app_or in Hin. destruct Hin; auto. Qed.
Lemma noCP_cons_inv : forall x l, noCP (x :: l) -> ist_ x <> ClosePend /\ noCP l.
Proof. unfold noCP. intros x l H. split; [apply H; left; reflexivity | intros it Hi; apply H; right; exact Hi]. Qed.
Lemma noCP_single : forall x, ist_ x <> ClosePend -> noCP [x].
Proof. unfold noCP. intros x H it [E | []]. subst. exact H. Qed.

(** Marking (Pend -> Ready, or ClosePend of one compressor -> Ready) keeps the shape. *)
Definition keeps_cp (f : item -> item) : Prop :=
  forall it, cid (f it) = cid it /\ (ist_ it <> ClosePend -> ist_ (f it) <> ClosePend).

Lemma noCP_map : forall f l, keeps_cp f -> noCP l -> noCP (map f l).
Proof.
  unfold noCP. intros f l Hf H it Hin. apply in_map_iff in Hin. destruct Hin as [x [E Hx]]. subst.
  apply Hf. apply H. exact Hx.
Qed.

Section Fixed.
Variable c : cfg.
Hypothesis Hv : vr c = fixed_variant.
Hypothesis HN : (2 <= ncomp c)%nat.

Lemma inv_init : forall sc, inv c (init c sc).
Proof.
  intros sc. constructor; simpl; try (intros; discriminate); try reflexivity.
  - unfold eheld, aheld. simpl.
    assert (L : forall n i, zlen (mkwaiting i n) = Z.of_nat n).
    { induction n; intros i; simpl mkwaiting. reflexivity. rewrite zlen_cons, IHn. lia. }
    rewrite L. rewrite zlen_nil. lia.
  - unfold cp_inv. simpl. split. intros it []. exact I.
Qed.

Ltac lens := repeat (rewrite ?zlen_app, ?zlen_map, ?zlen_cons, ?zlen_nil in *).

(** Steps of a compressor goroutine. *)
Lemma comp_mark_keeps : forall (s : st) c0,
  keeps_cp (fun it : item => if Nat.eqb (cid it) c0 && match ist_ it with Pend => true | _ => false end
                      then {| cid := cid it; ist_ := Ready (hdrbad s); inext := if hdrbad s then inext it else 0 |} else it).
Proof.
  intros s c0 it. destruct (Nat.eqb (cid it) c0 && _); simpl; split; auto. intros _. discriminate.
Qed.

Lemma inv_comp : forall s c0 s', inv c s -> step_comp s c0 = Some s' -> inv c s'.
Proof.
  intros s c0 s' I H. unfold step_comp in H.
  set (hit := fun it : item => Nat.eqb (cid it) c0 && match ist_ it with Pend => true | _ => false end) in *.
  set (mark := fun it : item => if hit it then {| cid := cid it; ist_ := Ready (hdrbad s); inext := if hdrbad s then inext it else 0 |} else it) in *.
  assert (K : keeps_cp mark) by (apply comp_mark_keeps).
  destruct I as [I1 I2 I3 I4 I5 I6 I7].
  destruct (existsb hit (queue s)); cbv iota in H.
  - apply some_inj in H; subst s'.
    constructor; unfold eheld, edebt, aheld, cp_inv, emNoCP in *; simpl in *; lens; auto.
    + destruct (pc s); try (destruct I3 as [A B]; split; [apply noCP_map; auto | exact B]).
      * destruct I3 as [[q [it [E [Hq [He [Hc Hi]]]]]] | [it [E [Hc [Hi Hq]]]]].
        -- left. exists (map mark q), (mark it). rewrite E, map_app. simpl. repeat split; auto.
           ++ apply noCP_map; auto.
           ++ unfold mark, hit. rewrite Hc. rewrite andb_false_r. exact Hc.
           ++ destruct (K it) as [A _]. rewrite A. exact Hi.
        -- right. exists it. rewrite Hq. simpl. auto.
      * destruct I3 as [[q [it [E [Hq [He [Hc Hi]]]]]] | [it [E [Hc [Hi Hq]]]]].
        -- left. exists (map mark q), (mark it). rewrite E, map_app. simpl. repeat split; auto.
           ++ apply noCP_map; auto.
           ++ unfold mark, hit. rewrite Hc. rewrite andb_false_r. exact Hc.
           ++ destruct (K it) as [A _]. rewrite A. exact Hi.
        -- right. exists it. rewrite Hq. simpl. auto.
    + intros E. destruct (I4 E) as [A B]. rewrite A. simpl. auto.
  - destruct (em s) eqn:Eem; cbv iota in H; try discriminate.
    clear K. subst mark hit. cbv beta in H.
    destruct ((cid it =? c0)%nat && match ist_ it with Pend => true | _ => false end) eqn:Hh; try discriminate.
    apply some_inj in H; subst s'.
    assert (Hp : ist_ it = Pend).
    { apply andb_prop in Hh. destruct Hh as [_ Hh]. destruct (ist_ it); try discriminate. reflexivity. }
    constructor; unfold eheld, edebt, aheld, cp_inv, emNoCP in *; simpl in *; try rewrite Eem in *; lens; auto.
    + destruct (pc s); try (destruct I3 as [A B]; split; [exact A | simpl; discriminate]).
      * destruct I3 as [[q [it' [E [Hq [He [Hc Hi]]]]]] | [it' [E [Hc [Hi Hq]]]]].
        -- left. exists q, it'. repeat split; auto. simpl; discriminate.
        -- inversion E; subst it'. rewrite Hp in Hc. discriminate.
      * destruct I3 as [[q [it' [E [Hq [He [Hc Hi]]]]]] | [it' [E [Hc [Hi Hq]]]]].
        -- left. exists q, it'. repeat split; auto. simpl; discriminate.
        -- inversion E; subst it'. rewrite Hp in Hc. discriminate.
    + intros; discriminate.
Qed.


Ltac unf := unfold eheld, edebt, aheld, cp_inv, emNoCP, open_pc, closing_pc, done, set_em, set_chan, set_latch_st, set_pc, ret, upd_api, set_flags, enqueue, under_write in *.

Lemma inv_emit : forall s s', inv c s -> step_emit c s = Some s' -> inv c s'.
Proof.
  intros s s' I H. unfold step_emit in H. rewrite Hv in H. simpl in H.
  destruct I as [I1 I2 I3 I4 I5 I6 I7].
  destruct (em s) eqn:Eem.
  - (* EIdle *)
    destruct (queue s) as [|it q] eqn:Eq.
    + destruct (qclosed s) eqn:Eqc; try discriminate. apply some_inj in H; subst s'.
      constructor; unf; simpl in *; rewrite ?Eem, ?Eq in *; simpl in *; lens; auto; try lia.
      destruct (pc s); try (split; [intros x [] | exact I]).
      * destruct I3 as [[q [it [E _]]] | [it [E _]]]; [destruct q; discriminate | discriminate].
      * destruct I3 as [[q [it [E _]]] | [it [E _]]]; [destruct q; discriminate | discriminate].
    + apply some_inj in H; subst s'.
      constructor; unf; simpl in *; rewrite ?Eem, ?Eq in *; simpl in *; lens; auto; try lia; try (intros; discriminate).
      destruct (pc s); try (destruct I3 as [A B]; apply noCP_cons_inv in A; destruct A; split; auto).
      * destruct I3 as [[q0 [cp [E [Hq [He [Hc Hi]]]]]] | [cp [E _]]]; [| discriminate].
        destruct q0 as [|x q0]; simpl in E; injection E as E1 E2; subst.
        -- right. exists cp. auto.
        -- left. exists q0, cp. apply noCP_cons_inv in Hq. destruct Hq. repeat split; auto.
      * destruct I3 as [[q0 [cp [E [Hq [He [Hc Hi]]]]]] | [cp [E _]]]; [| discriminate].
        destruct q0 as [|x q0]; simpl in E; injection E as E1 E2; subst.
        -- right. exists cp. auto.
        -- left. exists q0, cp. apply noCP_cons_inv in Hq. destruct Hq. repeat split; auto.
  - (* EFlush *)
    destruct (ist_ it) eqn:Ei; try discriminate. apply some_inj in H; subst s'.
    constructor; unf; simpl in *; rewrite ?Eem in *; simpl in *; lens; auto; try lia; try (intros; discriminate).
    destruct (pc s); try (destruct I3 as [A B]; split; auto).
    + destruct I3 as [[q0 [cp [E [Hq [He [Hc Hi]]]]]] | [cp [E [Hc _]]]].
      * left. exists q0, cp. repeat split; auto.
      * injection E as E; subst cp. rewrite Ei in Hc. discriminate.
    + destruct I3 as [[q0 [cp [E [Hq [He [Hc Hi]]]]]] | [cp [E [Hc _]]]].
      * left. exists q0, cp. repeat split; auto.
      * injection E as E; subst cp. rewrite Ei in Hc. discriminate.
  - (* EWrite *)
    assert (G : forall s1 e', queue s1 = queue s -> waiting s1 = waiting s -> pc s1 = pc s -> closed s1 = closed s -> qclosed s1 = qclosed s ->
                em s1 = e' -> e' <> EExit -> (forall it, e' <> EFlush it) -> qwg s1 = zlen (queue s) + edebt s1 -> eheld s1 = 1 -> inv c s1).
    { intros s1 e' Q W P C1 C2 E1 NE NF G2 G1.
      constructor; auto.
      - rewrite Q, W, G1. unfold aheld in *. rewrite P. unfold eheld in I1. rewrite Eem in I1. exact I1.
      - rewrite Q. exact G2.
      - unfold cp_inv, emNoCP in *. rewrite P, Q, E1. rewrite Eem in I3.
        destruct (pc s); try (destruct I3; split; auto; destruct e'; auto; exfalso; eapply NF; reflexivity).
        + destruct I3 as [[q0 [cp [E [Hq [He [Hc Hi]]]]]] | [cp [E _]]]; [| discriminate].
          left. exists q0, cp. repeat split; auto. destruct e'; auto. exfalso; eapply NF; reflexivity.
        + destruct I3 as [[q0 [cp [E [Hq [He [Hc Hi]]]]]] | [cp [E _]]]; [| discriminate].
          left. exists q0, cp. repeat split; auto. destruct e'; auto. exfalso; eapply NF; reflexivity.
      - rewrite E1. intros X. contradiction.
      - rewrite C1, C2. exact I5.
      - rewrite P, C1. exact I6.
      - rewrite P, C2. exact I7. }
    unfold edebt in I2. rewrite Eem in I2.
    destruct cerr.
    + apply some_inj in H; subst s'. eapply G; unf; simpl; try reflexivity; try discriminate. lia.
    + destruct (latched s).
      * apply some_inj in H; subst s'. eapply G; unf; simpl; try reflexivity; try discriminate. lia.
      * unfold under_write in H. simpl in H.
        destruct ((0 <=? wk c) && (wk c <=? wcount s)); apply some_inj in H; subst s';
          eapply G; unf; simpl; try reflexivity; try discriminate; lia.
  - (* EFail1 *)
    apply some_inj in H; subst s'.
    constructor; unf; simpl in *; rewrite ?Eem in *; simpl in *; lens; auto; try lia; try (intros; discriminate).
    destruct (pc s); auto; destruct I3 as [I3 | [cp [E _]]]; try discriminate; left; exact I3.
  - (* EFail2 *)
    apply some_inj in H; subst s'.
    constructor; unf; simpl in *; rewrite ?Eem in *; simpl in *; lens; auto; try lia; try (intros; discriminate).
    destruct (pc s); auto; destruct I3 as [I3 | [cp [E _]]]; try discriminate; left; exact I3.
  - (* ERet *)
    destruct (wfull c s); try discriminate. apply some_inj in H; subst s'.
    constructor; unf; simpl in *; rewrite ?Eem in *; simpl in *; lens; auto; try lia; try (intros; discriminate).
    destruct (pc s); auto; destruct I3 as [I3 | [cp [E _]]]; try discriminate; left; exact I3.
  - discriminate.
Qed.


(** Steps that leave queue and emitter alone and move between API states that
    are not inside Close's hand-over. *)
Definition plain_pc (p : apc) : bool := match p with ACRecv _ _ | ACComp _ _ => false | _ => true end.

Lemma cp_plain : forall s s', cp_inv s -> plain_pc (pc s) = true -> plain_pc (pc s') = true ->
  queue s' = queue s -> em s' = em s -> cp_inv s'.
Proof.
  intros s s' H P P' Q E. unfold cp_inv, emNoCP in *. rewrite Q, E.
  destruct (pc s); try discriminate; destruct (pc s'); try discriminate; exact H.
Qed.

Lemma cp_enq : forall s s' it, cp_inv s -> plain_pc (pc s) = true -> plain_pc (pc s') = true ->
  queue s' = queue s ++ [it] -> ist_ it <> ClosePend -> em s' = em s -> cp_inv s'.
Proof.
  intros s s' it H P P' Q Hi E. unfold cp_inv, emNoCP in *. rewrite Q, E.
  assert (X : noCP (queue s) /\ match em s with EFlush it0 => ist_ it0 <> ClosePend | _ => True end)
    by (destruct (pc s); try discriminate; exact H).
  destruct X as [A B].
  assert (Y : noCP (queue s ++ [it])) by (apply noCP_app; [exact A | apply noCP_single; exact Hi]).
  destruct (pc s'); try discriminate; split; auto.
Qed.

Ltac bcase b H := let E := fresh "Eb" in assert (E : b = true \/ b = false) by (destruct b; auto); destruct E as [E|E]; rewrite E in H.

Ltac fin I1 I2 :=
  constructor; unf; simpl in *; lens; auto; try lia; try (intros; discriminate); try (intros; congruence).

Lemma inv_api : forall s s', inv c s -> step_api c s = Some s' -> inv c s'.
Proof.
  intros s s' I H. unfold step_api in H.
  destruct I as [I1 I2 I3 I4 I5 I6 I7].
  destruct (pc s) eqn:Epc.
  - (* AIdle *)
    destruct (script s) as [|o sc] eqn:Esc; try discriminate.
    destruct o.
    + bcase (closed s) H; [|destruct (latched s)]; apply some_inj in H; subst s';
        (constructor; [unf; simpl in *; rewrite ?Epc in *; simpl in *; lens; auto; lia | unf; simpl; auto
          | eapply cp_plain; [exact I3 | rewrite Epc; reflexivity | reflexivity | reflexivity | reflexivity ]
          | exact I4 | exact I5 | simpl; intros; try discriminate; auto | simpl; intros; discriminate ]).
    + bcase (closed s) H; [|destruct (latched s); [|destruct (anext s =? 0)]]; apply some_inj in H; subst s';
        (constructor; [unf; simpl in *; rewrite ?Epc in *; simpl in *; lens; auto; lia | unf; simpl; auto
          | eapply cp_plain; [exact I3 | rewrite Epc; reflexivity | reflexivity | reflexivity | reflexivity ]
          | exact I4 | exact I5 | simpl; intros; try discriminate; auto | simpl; intros; discriminate ]).
    + destruct (latched s); apply some_inj in H; subst s';
        (constructor; [unf; simpl in *; rewrite ?Epc in *; simpl in *; lens; auto; lia | unf; simpl; auto
          | eapply cp_plain; [exact I3 | rewrite Epc; reflexivity | reflexivity | reflexivity | reflexivity ]
          | exact I4 | exact I5 | simpl; intros; try discriminate; auto | simpl; intros; discriminate ]).
    + bcase (closed s) H.
      * apply some_inj in H; subst s'.
        constructor; [unf; simpl in *; rewrite ?Epc in *; simpl in *; lens; auto; lia | unf; simpl; auto
          | eapply cp_plain; [exact I3 | rewrite Epc; reflexivity | reflexivity | reflexivity | reflexivity ]
          | exact I4 | exact I5 | simpl; intros; try discriminate; auto | simpl; intros; discriminate ].
      * destruct (qfull c s) eqn:Eq; try discriminate. apply some_inj in H; subst s'.
        constructor; [unf; simpl in *; rewrite ?Epc in *; simpl in *; lens; auto; lia | unf; simpl in *; lens; lia | | | exact I5 | simpl; auto | simpl; intros; discriminate ].
        -- unfold cp_inv in *. rewrite Epc in I3. simpl. left. destruct I3 as [A B].
           eexists (queue s), _. repeat split; auto.
        -- simpl. intros E. destruct (I4 E) as [_ B]. apply I5 in B. congruence.
    + destruct (pend_cids s); try discriminate. apply some_inj in H; subst s'.
      constructor; [unf; simpl in *; rewrite ?Epc in *; simpl in *; lens; auto; lia | unf; simpl; auto
          | eapply cp_plain; [exact I3 | rewrite Epc; reflexivity | reflexivity | reflexivity | reflexivity ]
          | exact I4 | exact I5 | simpl; intros; try discriminate; auto | simpl; intros; discriminate ].
  - (* AWLoop *)
    assert (Ho : closed s = false) by (apply I6; reflexivity).
    destruct (rem <=? 0).
    + apply some_inj in H; subst s'.
      constructor; [unf; simpl in *; rewrite ?Epc in *; simpl in *; lens; auto; lia | unf; simpl; auto
          | eapply cp_plain; [exact I3 | rewrite Epc; reflexivity | reflexivity | reflexivity | reflexivity ]
          | exact I4 | exact I5 | simpl; intros; try discriminate; auto | simpl; intros; discriminate ].
    + cbv zeta in H.
      destruct ((anext s + (if (anext s =? 0) || (anext s + rem <=? BS) then Z.min (BS - anext s) rem else 0) =? BS)
                || ((if (anext s =? 0) || (anext s + rem <=? BS) then Z.min (BS - anext s) rem else 0) =? 0)).
      * destruct (qfull c s) eqn:Eq; try discriminate. apply some_inj in H; subst s'.
        constructor; [unf; simpl in *; rewrite ?Epc in *; simpl in *; lens; auto; lia | unf; simpl in *; lens; lia
          | eapply cp_enq; [exact I3 | rewrite Epc; reflexivity | reflexivity | reflexivity | simpl; discriminate | reflexivity ]
          | | exact I5 | simpl; auto | simpl; intros; discriminate ].
        simpl. intros E. destruct (I4 E) as [_ B]. apply I5 in B. congruence.
      * apply some_inj in H; subst s'.
        constructor; [unf; simpl in *; rewrite ?Epc in *; simpl in *; lens; auto; lia | unf; simpl; auto
          | eapply cp_plain; [exact I3 | rewrite Epc; reflexivity | reflexivity | reflexivity | reflexivity ]
          | exact I4 | exact I5 | simpl; intros; try discriminate; auto | simpl; intros; discriminate ].
  - (* AWRecv *)
    assert (Ho : closed s = false) by (apply I6; reflexivity).
    destruct (waiting s) as [|[c' nx] w] eqn:Ew; try discriminate. apply some_inj in H; subst s'.
    constructor; [unf; simpl in *; rewrite ?Epc, ?Ew in *; simpl in *; lens; auto; lia | unf; simpl; auto
          | eapply cp_plain; [exact I3 | rewrite Epc; reflexivity | reflexivity | reflexivity | reflexivity ]
          | exact I4 | exact I5 | simpl; intros; try discriminate; auto | simpl; intros; discriminate ].
  - (* AWErr *)
    assert (Ho : closed s = false) by (apply I6; reflexivity).
    destruct (latched s); apply some_inj in H; subst s';
      (constructor; [unf; simpl in *; rewrite ?Epc in *; simpl in *; lens; auto; lia | unf; simpl; auto
          | eapply cp_plain; [exact I3 | rewrite Epc; reflexivity | reflexivity | reflexivity | reflexivity ]
          | exact I4 | exact I5 | simpl; intros; try discriminate; auto | simpl; intros; discriminate ]).
  - (* AWRet *)
    apply some_inj in H; subst s'.
    constructor; [unf; simpl in *; rewrite ?Epc in *; simpl in *; lens; auto; lia | unf; simpl; auto
          | eapply cp_plain; [exact I3 | rewrite Epc; reflexivity | reflexivity | reflexivity | reflexivity ]
          | exact I4 | exact I5 | simpl; intros; try discriminate; auto | simpl; intros; discriminate ].
  - (* AFRecv *)
    assert (Ho : closed s = false) by (apply I6; reflexivity).
    destruct (waiting s) as [|[c' nx] w] eqn:Ew; try discriminate. apply some_inj in H; subst s'.
    constructor; [unf; simpl in *; rewrite ?Epc, ?Ew in *; simpl in *; lens; auto; lia | unf; simpl; auto
          | eapply cp_plain; [exact I3 | rewrite Epc; reflexivity | reflexivity | reflexivity | reflexivity ]
          | exact I4 | exact I5 | simpl; intros; try discriminate; auto | simpl; intros; discriminate ].
  - (* AFEnq *)
    assert (Ho : closed s = false) by (apply I6; reflexivity).
    destruct (qfull c s) eqn:Eq; try discriminate. apply some_inj in H; subst s'.
    constructor; [unf; simpl in *; rewrite ?Epc in *; simpl in *; lens; auto; lia | unf; simpl in *; lens; lia
          | eapply cp_enq; [exact I3 | rewrite Epc; reflexivity | reflexivity | reflexivity | simpl; discriminate | reflexivity ]
          | | exact I5 | simpl; intros; discriminate | simpl; intros; discriminate ].
    simpl. intros E. destruct (I4 E) as [_ B]. apply I5 in B. congruence.
  - (* AFRet *)
    apply some_inj in H; subst s'.
    constructor; [unf; simpl in *; rewrite ?Epc in *; simpl in *; lens; auto; lia | unf; simpl; auto
          | eapply cp_plain; [exact I3 | rewrite Epc; reflexivity | reflexivity | reflexivity | reflexivity ]
          | exact I4 | exact I5 | simpl; intros; try discriminate; auto | simpl; intros; discriminate ].
  - (* ATWait *)
    destruct (qwg s =? 0); try discriminate. apply some_inj in H; subst s'.
    constructor; [unf; simpl in *; rewrite ?Epc in *; simpl in *; lens; auto; lia | unf; simpl; auto
          | eapply cp_plain; [exact I3 | rewrite Epc; reflexivity | reflexivity | reflexivity | reflexivity ]
          | exact I4 | exact I5 | simpl; intros; try discriminate; auto | simpl; intros; discriminate ].
  - (* ATRet *)
    apply some_inj in H; subst s'.
    constructor; [unf; simpl in *; rewrite ?Epc in *; simpl in *; lens; auto; lia | unf; simpl; auto
          | eapply cp_plain; [exact I3 | rewrite Epc; reflexivity | reflexivity | reflexivity | reflexivity ]
          | exact I4 | exact I5 | simpl; intros; try discriminate; auto | simpl; intros; discriminate ].
  - (* ACRecv *)
    assert (Ho : closed s = false) by (apply I6; reflexivity).
    destruct (waiting s) as [|x w] eqn:Ew; try discriminate. apply some_inj in H; subst s'.
    constructor; [unf; simpl in *; rewrite ?Epc, ?Ew in *; simpl in *; lens; auto; lia | unf; simpl; auto
          | unfold cp_inv, emNoCP in *; rewrite Epc in I3; simpl; exact I3
          | exact I4 | exact I5 | simpl; intros; try discriminate; auto | simpl; intros; discriminate ].
  - (* ACComp *)
    set (mark := fun it : item => if Nat.eqb (cid it) c0 then
        match ist_ it with ClosePend => {| cid := cid it; ist_ := Ready (hdrbad s); inext := if hdrbad s then inext it else 0 |} | _ => it end else it).
    assert (Q : queue s' = map mark (queue s) /\ em s' = match em s with EFlush it => EFlush (mark it) | e => e end /\
                waiting s' = waiting s /\ qwg s' = qwg s /\ pc s' = ACWg /\ closed s' = true /\ qclosed s' = true).
    { apply some_inj in H; subst s'. simpl. destruct (em s) eqn:Eem; simpl; rewrite ?Eem; repeat split; reflexivity. }
    clear H. destruct Q as [Qq [Qe [Qw [Qg [Qp [Qc Qqc]]]]]].
    assert (K : keeps_cp mark).
    { intros it. unfold mark. destruct (Nat.eqb (cid it) c0); [destruct (ist_ it) eqn:E|]; simpl; split; auto; try congruence; try (intros; discriminate). }
    assert (KC : forall it, cid it = c0 -> ist_ (mark it) <> ClosePend).
    { intros it E. unfold mark. rewrite E, Nat.eqb_refl. destruct (ist_ it) eqn:E2; simpl; try rewrite E2; discriminate. }
    unfold cp_inv, emNoCP in I3. rewrite Epc in I3.
    unfold eheld, edebt, aheld in I1, I2. rewrite Epc in I1.
    constructor.
    + unfold eheld, aheld. rewrite Qw, Qq, Qe, Qp, zlen_map. destruct (em s); simpl; lia.
    + unfold edebt. rewrite Qg, Qq, Qe, zlen_map. destruct (em s); simpl; lia.
    + unfold cp_inv, emNoCP. rewrite Qp, Qq, Qe.
      destruct I3 as [[q0 [cp [E [Hq [He [Hc Hi]]]]]] | [cp [E [Hc [Hi Hq]]]]].
      * rewrite E, map_app. simpl. split.
        -- apply noCP_app; [apply noCP_map; auto | apply noCP_single; apply KC; exact Hi].
        -- destruct (em s); auto. apply K. exact He.
      * rewrite E, Hq. simpl. split; [intros x [] | apply KC; exact Hi].
    + rewrite Qe, Qq, Qqc. intros E. destruct (em s) eqn:Eem; try discriminate.
      destruct (I4 eq_refl) as [A B]. rewrite A. auto.
    + rewrite Qc. auto.
    + rewrite Qp. simpl. intros; discriminate.
    + rewrite Qqc. auto.
  - (* ACWg *)
    destruct (em s) eqn:Eem; try discriminate. apply some_inj in H; subst s'.
    constructor; [unf; simpl in *; rewrite ?Epc in *; simpl in *; lens; auto; lia | unf; simpl; auto
          | eapply cp_plain; [exact I3 | rewrite Epc; reflexivity | reflexivity | reflexivity | reflexivity ]
          | simpl; intros _; apply I4; reflexivity | exact I5 | simpl; intros; try discriminate; auto | simpl; intros; auto ].
  - (* ACMagic *)
    assert (Hq : qclosed s = true) by (apply I7; reflexivity).
    destruct (latched s).
    + apply some_inj in H; subst s'.
      constructor; [unf; simpl in *; rewrite ?Epc in *; simpl in *; lens; auto; lia | unf; simpl; auto
          | eapply cp_plain; [exact I3 | rewrite Epc; reflexivity | reflexivity | reflexivity | reflexivity ]
          | exact I4 | exact I5 | simpl; intros; try discriminate; auto | simpl; intros; discriminate ].
    + unfold under_write in H. cbv zeta beta iota in H.
      destruct ((0 <=? wk c) && (wk c <=? wcount s)); apply some_inj in H; subst s';
      (constructor; [unf; simpl in *; rewrite ?Epc in *; simpl in *; lens; auto; lia | unf; simpl; auto
          | eapply cp_plain; [exact I3 | rewrite Epc; reflexivity | reflexivity | reflexivity | reflexivity ]
          | exact I4 | exact I5 | simpl; intros; try discriminate; auto | simpl; intros; discriminate ]).
Qed.


Lemma inv_step : forall s t s', inv c s -> step c s t = Some s' -> inv c s'.
Proof.
  intros s t s' I H. destruct t; simpl in H.
  - eapply inv_api; eauto.
  - eapply inv_emit; eauto.
  - eapply inv_comp; eauto.
Qed.

Lemma inv_run : forall sched s, inv c s -> inv c (run c sched s).
Proof.
  induction sched as [|t r IH]; intros s I; simpl. exact I.
  apply IH. destruct (step c s t) eqn:E; [eapply inv_step; eauto | exact I].
Qed.

(** A pending compressor goroutine can always finish. *)
Lemma comp_moves : forall s c0, In c0 (pend_cids s) -> exists s', step_comp s c0 = Some s'.
Proof.
  intros s c0 Hin. unfold step_comp.
  set (hit := fun it : item => Nat.eqb (cid it) c0 && match ist_ it with Pend => true | _ => false end).
  destruct (existsb hit (queue s)) eqn:Ex; [eexists; reflexivity|].
  unfold pend_cids in Hin. apply in_app_or in Hin. destruct Hin as [Hin | Hin].
  - exfalso. apply in_flat_map in Hin. destruct Hin as [it [Hi Hc]].
    assert (X : existsb hit (queue s) = true).
    { apply existsb_exists. exists it. split; auto. unfold hit. destruct (ist_ it); simpl in Hc; try contradiction.
      destruct Hc as [Hc|[]]. subst c0. rewrite Nat.eqb_refl. reflexivity. }
    congruence.
  - destruct (em s); simpl in Hin; try contradiction.
    destruct (ist_ it) eqn:Ei; simpl in Hin; try contradiction. destruct Hin as [Hc|[]]. subst c0.
    rewrite ?Ei. rewrite Nat.eqb_refl. simpl. eexists; reflexivity.
Qed.

Definition bg (t : thread) : Prop := t = TEmit \/ exists c0, t = TComp c0.

Lemma bg_moves : forall s, inv c s -> emNoCP s -> zlen (waiting s) < Z.of_nat (ncomp c) ->
  (zlen (queue s) > 0 \/ eheld s = 1 \/ (qclosed s = true /\ em s <> EExit)) ->
  exists t s', bg t /\ step c s t = Some s'.
Proof.
  intros s I Hn Hw Hd. destruct I as [I1 I2 I3 I4 I5 I6 I7].
  unfold emNoCP, eheld in *.
  destruct (em s) eqn:Eem.
  - exists TEmit. simpl. unfold step_emit. rewrite Eem.
    destruct (queue s) eqn:Eq.
    + destruct Hd as [Hd | [Hd | [Hd _]]]; try (rewrite zlen_nil in Hd; lia); try lia.
      rewrite Hd. eexists. split; [left; reflexivity | reflexivity].
    + eexists. split; [left; reflexivity | reflexivity].
  - destruct (ist_ it) eqn:Ei.
    + destruct (comp_moves s (cid it)) as [s' Hs].
      { unfold pend_cids. rewrite Eem. apply in_or_app. right. rewrite Ei. left. reflexivity. }
      exists (TComp (cid it)), s'. split; [right; eexists; reflexivity | exact Hs].
    + exists TEmit. simpl. unfold step_emit. rewrite Eem, Ei. eexists. split; [left; reflexivity | reflexivity].
    + contradiction.
  - exists TEmit. simpl. unfold step_emit. rewrite Eem, Hv. simpl.
    destruct cerr; [eexists; split; [left; reflexivity | reflexivity]|].
    destruct (latched s); [eexists; split; [left; reflexivity | reflexivity]|].
    unfold under_write. cbv zeta beta iota.
    destruct ((0 <=? wk c) && (wk c <=? wcount s)); eexists; (split; [left; reflexivity | reflexivity]).
  - exists TEmit. simpl. unfold step_emit. rewrite Eem, Hv. simpl. eexists; split; [left; reflexivity | reflexivity].
  - exists TEmit. simpl. unfold step_emit. rewrite Eem, Hv. simpl. eexists; split; [left; reflexivity | reflexivity].
  - exists TEmit. simpl. unfold step_emit. rewrite Eem, Hv. simpl.
    destruct (wfull c s) eqn:Ef; [apply wfull_true in Ef; lia|]. eexists; split; [left; reflexivity | reflexivity].
  - exfalso. destruct (I4 eq_refl) as [A B]. rewrite A, zlen_nil in Hd.
    destruct Hd as [Hd | [Hd | [_ Hd]]]; try lia. apply Hd. reflexivity.
Qed.

(** Deadlock freedom: whenever the API thread still has work, some thread can move. *)
Lemma no_stuck : forall s, inv c s -> api_done s = false -> exists t s', step c s t = Some s'.
Proof.
  intros s I Hd. pose proof I as I0. destruct I as [I1 I2 I3 I4 I5 I6 I7].
  assert (HN' : 2 <= Z.of_nat (ncomp c)) by lia.
  assert (Hq0 := zlen_nonneg _ (queue s)). assert (Hw0 := zlen_nonneg _ (waiting s)).
  assert (BG : emNoCP s -> zlen (waiting s) < Z.of_nat (ncomp c) ->
               (zlen (queue s) > 0 \/ eheld s = 1 \/ (qclosed s = true /\ em s <> EExit)) -> exists t s', step c s t = Some s').
  { intros A B C. destruct (bg_moves s I0 A B C) as [t [s' [_ H]]]. eauto. }
  assert (EH : eheld s = 0 \/ eheld s = 1) by (unfold eheld; destruct (em s); auto).
  assert (ED : edebt s = 0 \/ (edebt s = 1 /\ eheld s = 1)) by (unfold edebt, eheld; destruct (em s); auto).
  unfold api_done in Hd. unfold cp_inv in I3. unfold aheld in I1.
  destruct (pc s) eqn:Epc.
  - destruct (script s) as [|o sc] eqn:Esc; try discriminate.
    destruct o.
    + exists TApi. simpl. unfold step_api. rewrite Epc, Esc. destruct (closed s); [|destruct (latched s)]; eauto.
    + exists TApi. simpl. unfold step_api. rewrite Epc, Esc. destruct (closed s); [|destruct (latched s); [|destruct (anext s =? 0)]]; eauto.
    + exists TApi. simpl. unfold step_api. rewrite Epc, Esc. destruct (latched s); eauto.
    + exists TApi. simpl. unfold step_api. rewrite Epc, Esc. destruct (closed s); eauto.
      destruct (qfull c s) eqn:Ef; [apply qfull_true in Ef; lia | eauto].
    + destruct (pend_cids s) as [|c0 l] eqn:Ep.
      * exists TApi. simpl. unfold step_api. rewrite Epc, Esc, Ep. eauto.
      * destruct (comp_moves s c0) as [s' Hs]. rewrite Ep. left. reflexivity.
        exists (TComp c0), s'. exact Hs.
  - exists TApi. simpl. unfold step_api. rewrite Epc. destruct (rem <=? 0); eauto. cbv zeta.
    match goal with |- context[if ?b then _ else _] => destruct b end; eauto.
    destruct (qfull c s) eqn:Ef; [apply qfull_true in Ef; lia | eauto].
  - destruct (waiting s) as [|[c' nx] w] eqn:Ew.
    + rewrite zlen_nil in *. destruct I3 as [A B]. apply BG; auto; lia.
    + exists TApi. simpl. unfold step_api. rewrite Epc, Ew. eauto.
  - exists TApi. simpl. unfold step_api. rewrite Epc. destruct (latched s); eauto.
  - exists TApi. simpl. unfold step_api. rewrite Epc. eauto.
  - destruct (waiting s) as [|[c' nx] w] eqn:Ew.
    + rewrite zlen_nil in *. destruct I3 as [A B]. apply BG; auto; lia.
    + exists TApi. simpl. unfold step_api. rewrite Epc, Ew. eauto.
  - exists TApi. simpl. unfold step_api. rewrite Epc.
    destruct (qfull c s) eqn:Ef; [apply qfull_true in Ef; lia | eauto].
  - exists TApi. simpl. unfold step_api. rewrite Epc. eauto.
  - destruct (qwg s =? 0) eqn:Eq.
    + exists TApi. simpl. unfold step_api. rewrite Epc, Eq. eauto.
    + apply Z.eqb_neq in Eq. destruct I3 as [A B]. apply BG; auto; lia.
  - exists TApi. simpl. unfold step_api. rewrite Epc. eauto.
  - destruct (waiting s) as [|x w] eqn:Ew.
    + rewrite zlen_nil in *.
      destruct I3 as [[q [it [E [Hq [He [Hc Hi]]]]]] | [it [E [Hc [Hi Hq]]]]].
      * apply BG; auto; lia.
      * exfalso. rewrite Hq, zlen_nil in I1. unfold eheld in I1. rewrite E in I1. lia.
    + exists TApi. simpl. unfold step_api. rewrite Epc, Ew. eauto.
  - exists TApi. simpl. unfold step_api. rewrite Epc. eauto.
  - destruct (em s) eqn:Eem; try (destruct I3 as [A B]; apply BG; auto; [lia | right; right; split; [apply I7; reflexivity | try rewrite Eem; discriminate]]).
    exists TApi. simpl. unfold step_api. rewrite Epc, Eem. eauto.
  - exists TApi. simpl. unfold step_api. rewrite Epc. destruct (latched s); eauto.
    unfold under_write. cbv zeta beta iota. destruct ((0 <=? wk c) && (wk c <=? wcount s)); eauto.
Qed.


(** * Faults are latched *)
Definition finv (s : st) : Prop :=
  (0 < wfailed s -> latched s = true \/ exists c0 nx, em s = EFail1 c0 nx) /\
  (forall e, latch s = Some e -> e = 1 \/ e = 4) /\
  (closed s = true -> pc s = ACWg \/ em s = EExit) /\
  0 <= wfailed s.

Ltac destr H := repeat (match type of H with
  | (if ?b then _ else _) = Some _ => destruct b eqn:?
  | match ?x with _ => _ end = Some _ => destruct x eqn:?
  end; try discriminate).

Lemma latched_set : forall l e, match set_latch l e with None => false | Some _ => true end = true.
Proof. intros [x|] e; reflexivity. Qed.

Lemma set_latch_class : forall l e x, (forall y, l = Some y -> y = 1 \/ y = 4) -> (e = 1 \/ e = 4) -> set_latch l e = Some x -> x = 1 \/ x = 4.
Proof. intros [y|] e x H He E; simpl in E; injection E as E; subst; auto. Qed.

Lemma finv_init : forall sc, finv (init c sc).
Proof. intros sc. unfold finv. simpl. repeat split; intros; try lia; try discriminate. Qed.

Lemma finv_step : forall s t s', finv s -> step c s t = Some s' -> finv s'.
Proof.
  intros s t s' Hf H.
  destruct t; simpl in H.
  - unfold step_api, under_write in H. cbv zeta beta in H. destr H;
      apply some_inj in H; subst s'; destruct Hf as [F1 [F2 [F3 F4]]]; unfold finv, latched in *; unf; simpl in *;
      (split; [| split; [| split]]);
      try exact F1; try exact F2; try exact F4; try lia;
      try (intros; rewrite ?latched_set; auto; fail);
      try (intros; eapply set_latch_class; eauto; fail);
      try (intros X; destruct (F3 X) as [Y|Y]; [congruence | right; exact Y]; fail);
      try (intros X; left; reflexivity; fail);
      try (intros Hw; left; apply latched_set; fail);
      try (intros Hw; apply F1; lia; fail);
      try (intros X; right; assumption; fail).
    all: try exact F2; try exact F4; try (intros; eapply set_latch_class; eauto; fail).
    all: try (destruct (em s) eqn:Eem0; simpl; try (intros X; destruct (F3 X) as [Y|Y]; [congruence | congruence]); try exact F1; try (intros X; left; reflexivity);
              try (intros Hw; destruct (F1 Hw) as [L|[c1 [n1 E]]]; [left; exact L | discriminate])).
    all: try exact F2; try exact F4; try (intros e0 Hx; exact (set_latch_class _ _ _ F2 (or_introl eq_refl) Hx)).
  - unfold step_emit, under_write in H. rewrite Hv in H. cbv zeta beta in H. simpl in H. destr H;
      apply some_inj in H; subst s'; destruct Hf as [F1 [F2 [F3 F4]]]; unfold finv, latched in *; unf; simpl in *;
      (split; [| split; [| split]]);
      try exact F2; try exact F4; try lia;
      try (intros; rewrite ?latched_set; auto; fail);
      try (intros; eapply set_latch_class; eauto; fail);
      try (intros; right; eauto; fail);
      try (intros X; destruct (F3 X) as [Y|Y]; [left; exact Y | congruence]; fail);
      try (intros X; right; reflexivity; fail);
      try (intros Hw; assert (Hw' : 0 < wfailed s) by lia; destruct (F1 Hw') as [L|[c1 [n1 E]]]; [left; exact L | congruence]; fail);
      try (intros Hw; assert (Hw' : 0 < wfailed s) by lia; destruct (F1 Hw') as [L|[c1 [n1 E]]]; [congruence | congruence]; fail);
      try (intros e0 Hx; exact (set_latch_class _ _ _ F2 (or_introl eq_refl) Hx)); try (intros e0 Hx; exact (set_latch_class _ _ _ F2 (or_intror eq_refl) Hx)).
  - unfold step_comp in H. destr H; apply some_inj in H; subst s'; destruct Hf as [F1 [F2 [F3 F4]]]; unfold finv, latched in *; unf; simpl in *;
      (split; [| split; [| split]]); auto;
      try (intros Hw; destruct (F1 Hw) as [L|[c1 [n1 E]]]; [left; exact L | congruence]; fail);
      try (intros X; destruct (F3 X) as [Y|Y]; [left; exact Y | congruence]; fail).
Qed.


(** Nothing is written to the underlying writer after one of its calls failed. *)
Lemma wafter_step : forall s t s', inv c s -> finv s -> wafter s = 0 -> step c s t = Some s' -> wafter s' = 0.
Proof.
  intros s t s' I Hf W H.
  assert (NF : latched s = false -> (forall c0 nx, em s <> EFail1 c0 nx) -> (0 <? wfailed s) = false).
  { destruct Hf as [F1 [F2 [F3 F4]]]. intros L E. apply Z.ltb_ge. destruct (Z_lt_le_dec 0 (wfailed s)) as [X|X]; [|exact X].
    destruct (F1 X) as [Y|[c1 [n1 Y]]]; [congruence | exfalso; eapply E; eauto]. }
  assert (EX : pc s = ACMagic -> em s = EExit).
  { destruct Hf as [F1 [F2 [F3 F4]]]. intros P.
    assert (Hc : closed s = true) by (apply (i_qc c s I); apply (i_closing c s I); rewrite P; reflexivity).
    destruct (F3 Hc) as [Y|Y]; [congruence | exact Y]. }
  clear Hf I.
  destruct t; simpl in H.
  - unfold step_api, under_write in H. cbv zeta beta in H. destr H; apply some_inj in H; subst s'; unf; simpl; auto;
      try (rewrite NF; [lia | first [assumption | reflexivity] | intros; rewrite EX by reflexivity; discriminate]);
      try (destruct (em s); simpl; exact W).
  - unfold step_emit, under_write in H. rewrite Hv in H. cbv zeta beta in H. simpl in H. destr H; apply some_inj in H; subst s'; unf; simpl; auto;
      try (rewrite NF; [lia | first [assumption | reflexivity] | intros; discriminate]).
  - unfold step_comp in H. destr H; apply some_inj in H; subst s'; unf; simpl; auto.
Qed.

(** Everything together along a schedule. *)
Definition good (s : st) : Prop := inv c s /\ finv s /\ wafter s = 0.

Lemma good_init : forall sc, good (init c sc).
Proof. intros. split; [apply inv_init | split; [apply finv_init | reflexivity]]. Qed.

Lemma good_step : forall s t s', good s -> step c s t = Some s' -> good s'.
Proof.
  intros s t s' [I [F W]] H. split; [eapply inv_step; eauto | split; [eapply finv_step; eauto | eapply wafter_step; eauto]].
Qed.

Lemma good_run : forall sched s, good s -> good (run c sched s).
Proof.
  induction sched as [|t r IH]; intros s G; simpl. exact G.
  apply IH. destruct (step c s t) eqn:E; [eapply good_step; eauto | exact G].
Qed.

(** After Close has returned every background thread has terminated. *)
Lemma closed_quiet : forall s, good s -> closed s = true -> pc s <> ACWg -> quiet s = true.
Proof.
  intros s [I [[F1 [F2 [F3 F4]]] W]] Hc Hp. destruct (F3 Hc) as [Y|Y]; [contradiction|].
  unfold quiet, pend_cids. rewrite Y. destruct (i_exit c s I Y) as [A B]. rewrite A. reflexivity.
Qed.

(** The call that completes: results grow by one. *)
Lemma close_reports : forall s s', good s -> pc s = ACMagic -> step_api c s = Some s' ->
  exists cl, results s' = results s ++ [(cl, 0)] /\ (0 < wfailed s' \/ latched s = true -> cl <> 0).
Proof.
  intros s s' [I [[F1 [F2 [F3 F4]]] W]] Hp H.
  assert (Hc : closed s = true) by (apply (i_qc c s I); apply (i_closing c s I); rewrite Hp; reflexivity).
  destruct (F3 Hc) as [Y|Y]; [congruence|].
  unfold step_api in H. rewrite Hp in H.
  destruct (latched s) eqn:L.
  - apply some_inj in H; subst s'. unf; simpl. eexists; split; [reflexivity|]. intros _.
    unfold latched in L. destruct (latch s) as [e|] eqn:E; [|discriminate]. simpl. destruct (F2 e eq_refl); lia.
  - unfold under_write in H. cbv zeta beta iota in H.
    destruct ((0 <=? wk c) && (wk c <=? wcount s)); apply some_inj in H; subst s'; unf; simpl; (eexists; split; [reflexivity|]).
    + intros _. lia.
    + intros [X|X]; [|discriminate]. exfalso. assert (X' : 0 < wfailed s) by lia. destruct (F1 X') as [Z|[c1 [n1 Z]]]; congruence.
Qed.

(** Wait, Write and Flush return the latched error; Wait returns nil only if no underlying write has failed. *)
Lemma wait_reports : forall s s', good s -> pc s = ATRet -> qwg s = 0 -> step_api c s = Some s' ->
  exists cl, results s' = results s ++ [(cl, 0)] /\ (0 < wfailed s -> cl <> 0).
Proof.
  intros s s' [I [[F1 [F2 [F3 F4]]] W]] Hp Hq H.
  unfold step_api in H. rewrite Hp in H. apply some_inj in H; subst s'. unf; simpl. eexists; split; [reflexivity|].
  intros X. destruct (F1 X) as [Z|[c1 [n1 Z]]].
  - unfold latched in Z. destruct (latch s) as [e|] eqn:E; [|discriminate]. simpl. destruct (F2 e eq_refl); lia.
  - exfalso. pose proof (i_qwg c s I) as Q. unfold edebt in Q. rewrite Z in Q. pose proof (zlen_nonneg _ (queue s)). lia.
Qed.

Lemma latched_calls_fail : forall s s' o sc, good s -> pc s = AIdle -> script s = o :: sc -> latched s = true ->
  match o with OWrite _ | OFlush | OWait => True | _ => False end ->
  step_api c s = Some s' -> exists cl n, results s' = results s ++ [(cl, n)] /\ cl <> 0.
Proof.
  intros s s' o sc [I [[F1 [F2 [F3 F4]]] W]] Hp Hs L Ho H.
  assert (NZ : lclass (latch s) <> 0).
  { unfold latched in L. destruct (latch s) as [e|] eqn:E; [|discriminate]. simpl. destruct (F2 e eq_refl); lia. }
  unfold step_api in H. rewrite Hp, Hs in H.
  destruct o; try contradiction.
  - destruct (closed s); [|rewrite L in H]; apply some_inj in H; subst s'; unf; simpl; do 2 eexists; (split; [reflexivity|]); auto; lia.
  - destruct (closed s); [|rewrite L in H]; apply some_inj in H; subst s'; unf; simpl; do 2 eexists; (split; [reflexivity|]); auto; lia.
  - rewrite L in H. apply some_inj in H; subst s'; unf; simpl; do 2 eexists; (split; [reflexivity|]); auto.
Qed.

Lemma tret_step : forall s t s', inv c s -> (pc s = ATRet -> qwg s = 0) -> step c s t = Some s' -> (pc s' = ATRet -> qwg s' = 0).
Proof.
  intros s t s' I T H.
  pose proof (i_qwg c s I) as Q. pose proof (zlen_nonneg _ (queue s)) as Q0. unfold edebt in Q. clear I.
  destruct t; simpl in H.
  - unfold step_api, under_write in H. cbv zeta beta in H. destr H; apply some_inj in H; subst s'; unf; simpl;
      try (intros; discriminate); try (intros _; apply Z.eqb_eq; assumption);
      try (destruct (em s); simpl; intros; discriminate).
  - unfold step_emit, under_write in H. rewrite Hv in H. cbv zeta beta in H. simpl in H. destr H; apply some_inj in H; subst s'; unf; simpl;
      intros P; specialize (T P); simpl in Q; lia.
  - unfold step_comp in H. destr H; apply some_inj in H; subst s'; unf; simpl; auto.
Qed.

Lemma tret_run : forall sched s, good s -> (pc s = ATRet -> qwg s = 0) -> (pc (run c sched s) = ATRet -> qwg (run c sched s) = 0).
Proof.
  induction sched as [|t r IH]; intros s G T; simpl. exact T.
  destruct (step c s t) eqn:E.
  - apply IH. eapply good_step; eauto. eapply tret_step; eauto. apply G.
  - apply IH; assumption.
Qed.

End Fixed.

(** * Statements for Props/C09.v *)
Lemma ncomp_ge2 : forall wc, (2 <= ncomp_of_wc wc)%nat.
Proof. intros. unfold ncomp_of_wc. lia. Qed.

Definition wcfg (wc k : Z) : cfg := {| ncomp := ncomp_of_wc wc; wk := k; vr := writer_variant |}.

Lemma wcfg_fixed : forall wc k, vr (wcfg wc k) = fixed_variant.
Proof. intros. simpl. apply writer_variant_fixed. Qed.

Lemma reach_good : forall wc k sc sched, good (wcfg wc k) (run (wcfg wc k) sched (init (wcfg wc k) sc)).
Proof.
  intros. apply good_run; try apply wcfg_fixed; try apply ncomp_ge2. apply good_init; try apply wcfg_fixed; try apply ncomp_ge2.
Qed.

Lemma writer_calls_return_gen : forall wc k sc sched,
  let c := wcfg wc k in let s := run c sched (init c sc) in
  (api_done s = false -> exists t s', step c s t = Some s') /\
  (closed s = true -> pc s <> ACWg -> quiet s = true).
Proof.
  intros wc k sc sched c s. pose proof (reach_good wc k sc sched) as G. fold c in G. fold s in G.
  split.
  - intros D. eapply no_stuck; try apply wcfg_fixed; try apply ncomp_ge2; try apply G; try exact D.
  - intros Hc Hp. eapply closed_quiet; eauto; try apply wcfg_fixed; try apply ncomp_ge2.
Qed.

Lemma writer_reports_fault_gen : forall wc k sc sched,
  let c := wcfg wc k in let s := run c sched (init c sc) in
  wafter s = 0 /\
  (forall s', pc s = ACMagic -> step_api c s = Some s' ->
     exists cl, results s' = results s ++ [(cl, 0)] /\ (0 < wfailed s' \/ latched s = true -> cl <> 0)) /\
  (forall s', pc s = ATRet -> step_api c s = Some s' ->
     exists cl, results s' = results s ++ [(cl, 0)] /\ (0 < wfailed s -> cl <> 0)) /\
  (forall s' o rest, pc s = AIdle -> script s = o :: rest -> latched s = true ->
     match o with OWrite _ | OFlush | OWait => True | _ => False end ->
     step_api c s = Some s' -> exists cl n, results s' = results s ++ [(cl, n)] /\ cl <> 0) /\
  (0 < wfailed s -> latched s = true \/ exists c0 nx, em s = EFail1 c0 nx).
Proof.
  intros wc k sc sched c s. pose proof (reach_good wc k sc sched) as G. fold c in G. fold s in G.
  assert (V := wcfg_fixed wc k). assert (N : (2 <= ncomp c)%nat) by apply ncomp_ge2. fold c in V.
  split; [apply G|]. split; [|split; [|split]].
  - intros s' P H. eapply close_reports; eauto.
  - intros s' P H. eapply wait_reports; eauto.
    unfold s. eapply tret_run; eauto; try (apply good_init; auto); try (simpl; intros; discriminate).
  - intros s' o rest P S L O H. eapply latched_calls_fail; eauto.
  - destruct G as [_ [[F1 _] _]]. exact F1.
Qed.

(** The emitter as it was before the repair (breaks out of its loop on the
    first failure): a reachable state in which Close is blocked and no thread
    can move. *)
Definition orig_cfg : cfg := {| ncomp := ncomp_of_wc 1; wk := 0; vr := orig_variant |}.
Definition orig_sched : list thread :=
  [TApi; TApi; TApi; TApi; TApi; TApi; TComp 0; TComp 1; TEmit; TEmit; TEmit; TEmit; TEmit; TEmit; TApi; TApi; TApi; TApi; TApi; TApi; TEmit; TEmit].
Definition orig_stuck_state : st := Eval vm_compute in run orig_cfg orig_sched (init orig_cfg [OWrite 195840; OClose]).

Lemma orig_stuck_state_eq : run orig_cfg orig_sched (init orig_cfg [OWrite 195840; OClose]) = orig_stuck_state.
Proof. vm_compute. reflexivity. Qed.

Lemma writer_orig_stuck_gen :
  exists wc k sc sched,
    let c := {| ncomp := ncomp_of_wc wc; wk := k; vr := orig_variant |} in
    let s := run c sched (init c sc) in
    api_done s = false /\ forall t, step c s t = None.
Proof.
  exists 1, 0, [OWrite 195840; OClose], orig_sched.
  cbv zeta. fold orig_cfg. rewrite orig_stuck_state_eq. split.
  - vm_compute. reflexivity.
  - intros t. destruct t as [| | c0].
    + vm_compute. reflexivity.
    + vm_compute. reflexivity.
    + unfold step, step_comp, orig_stuck_state. simpl. rewrite !andb_false_r. reflexivity.
Qed.
