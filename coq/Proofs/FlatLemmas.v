(** Facts about files, the flat data and the translation of offsets. *)
From Coq Require Import ZArith List Bool Lia.
From Hts Require Import Base.Prim Model.Flat.
Import ListNotations.
Open Scope Z_scope.

Ltac Zify.zify_post_hook ::= Z.div_mod_to_equations.

(** ---- zlen / ztake / zdrop *)

Lemma zlen_nonneg {A} (l : list A) : 0 <= zlen l.
Proof. unfold zlen. lia. Qed.

Lemma zlen_nil {A} : zlen (@nil A) = 0.
Proof. reflexivity. Qed.

Lemma zlen_cons {A} (x : A) l : zlen (x :: l) = 1 + zlen l.
Proof. unfold zlen. simpl length. lia. Qed.

Lemma zlen_app {A} (a b : list A) : zlen (a ++ b) = zlen a + zlen b.
Proof. unfold zlen. rewrite app_length. lia. Qed.

Lemma zlen_zero_nil {A} (l : list A) : zlen l = 0 -> l = [].
Proof. destruct l; [reflexivity|]. rewrite zlen_cons. pose proof (zlen_nonneg l). lia. Qed.

Lemma ztake_zlen {A} (k : Z) (l : list A) : 0 <= k <= zlen l -> zlen (ztake k l) = k.
Proof.
  intros H. unfold ztake, zlen in *. rewrite firstn_length. lia.
Qed.

Lemma ztake_all {A} (k : Z) (l : list A) : zlen l <= k -> ztake k l = l.
Proof. intros H. unfold ztake, zlen in *. apply firstn_all2. lia. Qed.

Lemma ztake_0 {A} (l : list A) : ztake 0 l = [].
Proof. reflexivity. Qed.

Lemma ztake_neg {A} (k : Z) (l : list A) : k <= 0 -> ztake k l = [].
Proof. intros. unfold ztake. replace (Z.to_nat k) with O by lia. reflexivity. Qed.

Lemma zdrop_0 {A} (l : list A) : zdrop 0 l = l.
Proof. reflexivity. Qed.

Lemma zdrop_all {A} (k : Z) (l : list A) : zlen l <= k -> zdrop k l = [].
Proof. intros H. unfold zdrop, zlen in *. apply skipn_all2. lia. Qed.

Lemma zlen_zdrop {A} (k : Z) (l : list A) : 0 <= k <= zlen l -> zlen (zdrop k l) = zlen l - k.
Proof. intros H. unfold zdrop, zlen in *. rewrite skipn_length. lia. Qed.

Lemma zdrop_app_le {A} (k : Z) (a b : list A) : 0 <= k <= zlen a -> zdrop k (a ++ b) = zdrop k a ++ b.
Proof.
  intros H. unfold zdrop, zlen in *. rewrite skipn_app.
  replace (Z.to_nat k - length a)%nat with O by lia. reflexivity.
Qed.

Lemma zdrop_app_ge {A} (k : Z) (a b : list A) : zlen a <= k -> zdrop k (a ++ b) = zdrop (k - zlen a) b.
Proof.
  intros H. unfold zdrop, zlen in *. rewrite skipn_app.
  rewrite skipn_all2 by lia. simpl. f_equal. lia.
Qed.

Lemma ztake_app_le {A} (k : Z) (a b : list A) : k <= zlen a -> ztake k (a ++ b) = ztake k a.
Proof.
  intros H. unfold ztake, zlen in *. rewrite firstn_app.
  replace (Z.to_nat k - length a)%nat with O by lia. simpl. apply app_nil_r.
Qed.

Lemma ztake_app_ge {A} (k : Z) (a b : list A) : zlen a <= k -> ztake k (a ++ b) = a ++ ztake (k - zlen a) b.
Proof.
  intros H. unfold ztake, zlen in *. rewrite firstn_app.
  rewrite firstn_all2 by lia. f_equal. f_equal. lia.
Qed.

Lemma skipn_skipn' {A} (x y : nat) (l : list A) : skipn x (skipn y l) = skipn (x + y) l.
Proof.
  revert l. induction y as [|y IH]; intros l.
  - rewrite Nat.add_0_r. reflexivity.
  - destruct l; simpl.
    + rewrite !skipn_nil. reflexivity.
    + rewrite IH. replace (x + S y)%nat with (S (x + y)) by lia. reflexivity.
Qed.

Lemma ztake_zdrop_split {A} (p k : Z) (l : list A) :
  0 <= p -> 0 <= k -> ztake k (zdrop p l) ++ zdrop (p + k) l = zdrop p l.
Proof.
  intros Hp Hk. unfold ztake, zdrop.
  replace (Z.to_nat (p + k)) with (Z.to_nat k + Z.to_nat p)%nat by lia.
  rewrite <- skipn_skipn'. apply firstn_skipn.
Qed.

Lemma zdrop_zdrop {A} (p k : Z) (l : list A) : 0 <= p -> 0 <= k -> zdrop k (zdrop p l) = zdrop (p + k) l.
Proof.
  intros. unfold zdrop. rewrite skipn_skipn'. f_equal. lia.
Qed.

Lemma ztake_ztake_app {A} (a b : Z) (l : list A) :
  0 <= a -> 0 <= b -> ztake a l ++ ztake b (zdrop a l) = ztake (a + b) l.
Proof.
  intros Ha Hb. unfold ztake, zdrop.
  replace (Z.to_nat (a + b)) with (Z.to_nat a + Z.to_nat b)%nat by lia.
  revert l. induction (Z.to_nat a) as [|n IH]; intros l; simpl; [reflexivity|].
  destruct l; simpl; [rewrite firstn_nil; reflexivity|]. f_equal. apply IH.
Qed.

(** ---- files *)

Lemma flat_data_app (a b : file) : flat_data (a ++ b) = flat_data a ++ flat_data b.
Proof. unfold flat_data. rewrite map_app, concat_app. reflexivity. Qed.

Lemma flat_data_cons (m : member) (F : file) : flat_data (m :: F) = m_data m ++ flat_data F.
Proof. reflexivity. Qed.

Lemma total_app (a b : file) : total (a ++ b) = total a + total b.
Proof. unfold total. rewrite flat_data_app, zlen_app. reflexivity. Qed.

Lemma total_cons (m : member) (F : file) : total (m :: F) = m_len m + total F.
Proof. unfold total, m_len. rewrite flat_data_cons, zlen_app. reflexivity. Qed.

Lemma total_nil : total [] = 0.
Proof. reflexivity. Qed.

Lemma total_nonneg (F : file) : 0 <= total F.
Proof. apply zlen_nonneg. Qed.

Lemma m_len_nonneg (m : member) : 0 <= m_len m.
Proof. apply zlen_nonneg. Qed.

Lemma fsize_from_app (b : Z) (a c : file) : fsize_from b (a ++ c) = fsize_from (fsize_from b a) c.
Proof. revert b. induction a as [|m a IH]; intros b; simpl; [reflexivity|apply IH]. Qed.

Lemma fsize_from_ge (b : Z) (F : file) : wf_from b F = true -> b <= fsize_from b F.
Proof.
  revert b. induction F as [|m F IH]; intros b H; simpl in *; [lia|].
  repeat rewrite andb_true_iff in H. destruct H as [[[H1 H2] H3] H4].
  apply IH in H4. lia.
Qed.

(** Decomposition of a well-formed file around one member. *)
Lemma wf_from_app (b : Z) (a c : file) :
  wf_from b (a ++ c) = true <-> wf_from b a = true /\ wf_from (fsize_from b a) c = true.
Proof.
  revert b. induction a as [|m a IH]; intros b; simpl.
  - tauto.
  - repeat rewrite andb_true_iff. rewrite IH. tauto.
Qed.

Lemma wf_from_bases_ge (b : Z) (F : file) :
  wf_from b F = true -> Forall (fun m => b <= m_base m) F.
Proof.
  revert b. induction F as [|m F IH]; intros b H; [constructor|].
  simpl in H. repeat rewrite andb_true_iff in H. destruct H as [[[H1 H2] H3] H4].
  constructor; [lia|].
  apply IH in H4. eapply Forall_impl; [|exact H4]. simpl. intros; lia.
Qed.

Lemma wf_from_bases_lt (b : Z) (F : file) :
  wf_from b F = true -> Forall (fun m => m_base m < fsize_from b F) F.
Proof.
  revert b. induction F as [|m F IH]; intros b H; [constructor|].
  simpl in H. repeat rewrite andb_true_iff in H. destruct H as [[[H1 H2] H3] H4].
  simpl. constructor.
  - apply fsize_from_ge in H4. lia.
  - apply IH. exact H4.
Qed.

(** [before] on the two sides of a member. *)
Lemma before_all (F : file) (f : Z) : Forall (fun m => m_base m < f) F -> before F f = total F.
Proof.
  induction 1 as [|m F Hm _ IH]; [reflexivity|].
  simpl. rewrite total_cons. destruct (Z.ltb_spec (m_base m) f); lia.
Qed.

Lemma before_none (F : file) (f : Z) : Forall (fun m => f <= m_base m) F -> before F f = 0.
Proof.
  induction 1 as [|m F Hm _ IH]; [reflexivity|].
  simpl. destruct (Z.ltb_spec (m_base m) f); lia.
Qed.

Lemma before_app (a c : file) (f : Z) : before (a ++ c) f = before a f + before c f.
Proof. induction a as [|m a IH]; simpl; [reflexivity|]. rewrite IH. lia. Qed.

(** The situation every proof works in: the file split around a member. *)
Record split_at (F pre : file) (m : member) (post : file) : Prop := {
  sp_eq : F = pre ++ m :: post;
  sp_wf : wf_file F = true }.

Lemma split_base {F pre m post} : split_at F pre m post -> m_base m = fsize_from 0 pre.
Proof.
  intros [-> H]. unfold wf_file in H. apply wf_from_app in H. destruct H as [_ H].
  simpl in H. repeat rewrite andb_true_iff in H. destruct H as [[[H1 _] _] _]. lia.
Qed.

Lemma split_wf_post {F pre m post} : split_at F pre m post -> wf_from (m_base m + m_size m) post = true.
Proof.
  intros [-> H]. unfold wf_file in H. apply wf_from_app in H. destruct H as [_ H].
  simpl in H. repeat rewrite andb_true_iff in H. destruct H as [[[H1 _] _] H4].
  replace (m_base m) with (fsize_from 0 pre) by lia. exact H4.
Qed.

Lemma split_size_pos {F pre m post} : split_at F pre m post -> 0 < m_size m.
Proof.
  intros [-> H]. unfold wf_file in H. apply wf_from_app in H. destruct H as [_ H].
  simpl in H. repeat rewrite andb_true_iff in H. destruct H as [[[_ H2] _] _]. lia.
Qed.

Lemma split_len_le {F pre m post} : split_at F pre m post -> m_len m <= 65536.
Proof.
  intros [-> H]. unfold wf_file in H. apply wf_from_app in H. destruct H as [_ H].
  simpl in H. repeat rewrite andb_true_iff in H. destruct H as [[[_ _] H3] _]. lia.
Qed.

Lemma split_base_nonneg {F pre m post} : split_at F pre m post -> 0 <= m_base m.
Proof.
  intros S. rewrite (split_base S). destruct S as [-> H].
  unfold wf_file in H. apply wf_from_app in H. destruct H as [H _].
  apply fsize_from_ge in H. exact H.
Qed.

Lemma split_pre_lt {F pre m post} : split_at F pre m post -> Forall (fun x => m_base x < m_base m) pre.
Proof.
  intros S. rewrite (split_base S). destruct S as [-> H].
  unfold wf_file in H. apply wf_from_app in H. destruct H as [H _].
  apply wf_from_bases_lt. exact H.
Qed.

Lemma split_post_gt {F pre m post} : split_at F pre m post -> Forall (fun x => m_base m + m_size m <= m_base x) post.
Proof. intros S. apply wf_from_bases_ge. apply (split_wf_post S). Qed.

Lemma split_before {F pre m post} : split_at F pre m post -> before F (m_base m) = total pre.
Proof.
  intros S. pose proof (split_pre_lt S) as Hp. pose proof (split_post_gt S) as Hq.
  pose proof (split_size_pos S) as Hs.
  destruct S as [-> _]. rewrite before_app. rewrite (before_all _ _ Hp).
  rewrite before_none; [lia|].
  constructor; [lia|]. eapply Forall_impl; [|exact Hq]. simpl; intros; lia.
Qed.

Lemma split_fsize {F pre m post} : split_at F pre m post -> fsize F = fsize_from (m_base m + m_size m) post.
Proof.
  intros S. pose proof (split_base S) as Hb. destruct S as [-> _].
  unfold fsize. rewrite fsize_from_app. simpl. rewrite Hb. reflexivity.
Qed.

Lemma before_fsize (F : file) : wf_file F = true -> before F (fsize F) = total F.
Proof. intros H. apply before_all. apply wf_from_bases_lt. exact H. Qed.

Lemma before_ge_fsize (F : file) (f : Z) : wf_file F = true -> fsize F <= f -> before F f = total F.
Proof.
  intros H Hf. apply before_all. apply wf_from_bases_lt in H.
  eapply Forall_impl; [|exact H]. simpl. unfold fsize in Hf. intros; lia.
Qed.

(** Moving the split one member to the right. *)
Lemma split_next {F pre m m' post} :
  split_at F pre m (m' :: post) -> split_at F (pre ++ [m]) m' post.
Proof.
  intros [E W]. split; [|exact W]. rewrite <- app_assoc. exact E.
Qed.

Lemma split_next_base {F pre m m' post} :
  split_at F pre m (m' :: post) -> m_base m' = m_base m + m_size m.
Proof.
  intros S. pose proof (split_wf_post S) as H. simpl in H.
  repeat rewrite andb_true_iff in H. destruct H as [[[H1 _] _] _]. lia.
Qed.

(** Uniqueness of bases. *)
Lemma split_unique {F pre m post pre' m' post'} :
  split_at F pre m post -> split_at F pre' m' post' -> m_base m = m_base m' ->
  pre = pre' /\ m = m' /\ post = post'.
Proof.
  intros S S' Hb.
  pose proof (split_pre_lt S) as P1. pose proof (split_post_gt S) as Q1. pose proof (split_size_pos S) as Z1.
  pose proof (split_pre_lt S') as P2. pose proof (split_post_gt S') as Q2. pose proof (split_size_pos S') as Z2.
  destruct S as [E _]. destruct S' as [E' _]. rewrite E in E'. clear E.
  revert pre' E' P2. induction pre as [|x pre IH]; intros pre' E' P2.
  - destruct pre' as [|y pre'].
    + simpl in E'. inversion E'. auto.
    + simpl in E'. inversion E'; subst. inversion P2; subst. lia.
  - destruct pre' as [|y pre'].
    + simpl in E'. inversion E'; subst. inversion P1; subst. lia.
    + simpl in E'. inversion E'; subst. inversion P1; subst. inversion P2; subst.
      destruct (IH H3 pre' H1 H5) as [-> [-> ->]]. auto.
Qed.

(** End of the block holding a position inside member [m]. *)
Lemma block_end_split (pre : file) (m : member) (post : file) (start p : Z) :
  0 <= p < m_len m ->
  block_end (pre ++ m :: post) start (start + total pre + p) = start + total pre + m_len m.
Proof.
  revert start. induction pre as [|x pre IH]; intros start Hp.
  - simpl. unfold total, flat_data. simpl. rewrite zlen_nil.
    destruct (Z.ltb_spec (start + 0 + p) (start + m_len m)); lia.
  - simpl. rewrite total_cons. pose proof (m_len_nonneg x). pose proof (total_nonneg pre).
    destruct (Z.ltb_spec (start + (m_len x + total pre) + p) (start + m_len x)); [lia|].
    replace (start + (m_len x + total pre) + p) with ((start + m_len x) + total pre + p) by lia.
    rewrite IH by lia. lia.
Qed.

(** The flat data from a cursor inside member [m]. *)
Lemma zdrop_flat_split (pre : file) (m : member) (post : file) (p : Z) :
  0 <= p <= m_len m ->
  zdrop (total pre + p) (flat_data (pre ++ m :: post)) = zdrop p (m_data m) ++ flat_data post.
Proof.
  intros Hp. rewrite flat_data_app, flat_data_cons.
  rewrite zdrop_app_ge by (unfold total; lia).
  replace (total pre + p - zlen (flat_data pre)) with p by (unfold total; lia).
  apply zdrop_app_le. unfold m_len in Hp. lia.
Qed.

(** valid seek targets name a member. *)
Lemma valid_off_split (F : file) (f b : Z) :
  wf_file F = true -> valid_off F f b = true ->
  exists pre m post, split_at F pre m post /\ m_base m = f /\ 0 <= b <= m_len m /\ b <= 65535.
Proof.
  intros W H. unfold valid_off in H. apply existsb_exists in H. destruct H as [m [Hin H]].
  repeat rewrite andb_true_iff in H. destruct H as [[[H1 H2] H3] H4].
  apply in_split in Hin. destruct Hin as [pre [post E]].
  exists pre, m, post. split; [split; assumption|]. lia.
Qed.

Lemma u16_small (x : Z) : 0 <= x <= 65535 -> u16 x = x.
Proof. intros. unfold u16, wrapu. change (2 ^ 16) with 65536. apply Z.mod_small. lia. Qed.

Lemma u16_add_u16 (a k : Z) : u16 (u16 a + u16 k) = u16 (a + k).
Proof.
  unfold u16, wrapu. change (2 ^ 16) with 65536.
  rewrite <- Z.add_mod by lia. reflexivity.
Qed.
