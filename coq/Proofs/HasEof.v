(** bgzf.HasEOF reports exactly whether the stream ends with the marker, for
    every kind of reader it distinguishes and every cursor position.  The size
    expressions are the ones gen/ reads off the Go source. *)
From Coq Require Import ZArith Lia List Bool.
From Hts Require Import Base.Prim Base.WrList Generated Model.Bgzf Model.HasEof.
Import ListNotations.
Open Scope Z_scope.

Lemma haseof_size_is_length r k atoms :
  he_lookup k bgzf_haseof_size = Some atoms ->
  0 <= he_pos r <= zlen (he_data r) ->
  he_size r atoms = zlen (he_data r).
Proof.
  intros Hl Hp. unfold bgzf_haseof_size in Hl.
  destruct k; cbn [he_lookup he_kind_eqb] in Hl; injection Hl as <-;
    unfold he_size; cbn [fold_left he_atom_val]; lia.
Qed.

Lemma haseof_all_kinds k : exists atoms, he_lookup k bgzf_haseof_size = Some atoms.
Proof. destruct k; eexists; reflexivity. Qed.

Lemma haseof_iff_marker_gen r k :
  he_methods r = Some k ->
  0 <= he_pos r <= zlen (he_data r) ->
  bgzf_haseof_reads_at_size_minus_marker = true
  /\ haseof_go r = if zlen bgzf_magicBlock <=? zlen (he_data r)
                   then Ok (ends_with_marker (he_data r)) else Err 2.
Proof.
  intros Hm Hp. split; [reflexivity|].
  unfold haseof_go, haseof_impl. rewrite Hm.
  destruct (haseof_all_kinds k) as [atoms Ha]. rewrite Ha.
  rewrite (haseof_size_is_length r k atoms Ha Hp).
  set (d := he_data r). set (n := zlen bgzf_magicBlock).
  assert (Hn : n = 28) by reflexivity.
  unfold he_read_at, ends_with_marker. fold n.
  destruct (n <=? zlen d) eqn:E.
  - apply Z.leb_le in E.
    replace ((zlen d - n <? 0) || (zlen d <? zlen d - n + n)) with false
      by (symmetry; apply orb_false_intro; apply Z.ltb_ge; lia).
    cbn [andb]. f_equal. f_equal.
    apply firstn_all2. unfold zlen in *. rewrite skipn_length. lia.
  - apply Z.leb_gt in E.
    replace (zlen d - n <? 0) with true by (symmetry; apply Z.ltb_lt; lia). reflexivity.
Qed.

Lemma haseof_no_methods r : he_methods r = None -> haseof_go r = Err 3.
Proof. intros H. unfold haseof_go, haseof_impl. rewrite H. reflexivity. Qed.

Lemma ends_with_marker_has_eof d : ends_with_marker d = has_eof d.
Proof.
  unfold ends_with_marker, has_eof. destruct (zlen bgzf_magicBlock <=? zlen d) eqn:E; [|reflexivity].
  cbn [andb]. apply Z.leb_le in E. f_equal. f_equal. unfold zlen in *. lia.
Qed.
