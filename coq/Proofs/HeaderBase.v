(** C07 — basic lemmas: strings, maps, slices. *)
From Coq Require Import ZArith List Bool Lia.
From Hts Require Import Base.Prim Model.Header.
Import ListNotations.
Open Scope Z_scope.

Lemma str_eqb_eq : forall a b, str_eqb a b = true <-> a = b.
Proof.
  induction a as [|x a IH]; destruct b as [|y b]; simpl; split; intro H; try congruence; try reflexivity.
  - apply andb_true_iff in H. destruct H as [H1 H2]. apply Z.eqb_eq in H1. apply IH in H2. congruence.
  - inversion H; subst. rewrite Z.eqb_refl. simpl. apply IH. reflexivity.
Qed.
Lemma str_eqb_refl : forall a, str_eqb a a = true.
Proof. intro a. apply str_eqb_eq. reflexivity. Qed.
Lemma str_eqb_neq : forall a b, str_eqb a b = false <-> a <> b.
Proof.
  intros a b. destruct (str_eqb a b) eqn:E; split; intro H; try congruence.
  - apply str_eqb_eq in E. contradiction.
  - intro H'. apply str_eqb_eq in H'. congruence.
Qed.
Lemma str_eq_dec : forall a b : str, {a = b} + {a <> b}.
Proof. intros a b. destruct (str_eqb a b) eqn:E; [left; apply str_eqb_eq | right; apply str_eqb_neq]; assumption. Qed.

Lemma mget_mdel_eq : forall k m, mget k (mdel k m) = None.
Proof.
  induction m as [|[k' v] m IH]; simpl; auto.
  destruct (str_eqb k k') eqn:E; simpl; auto. rewrite E. exact IH.
Qed.
Lemma mget_mdel_ne : forall k k' m, k <> k' -> mget k (mdel k' m) = mget k m.
Proof.
  induction m as [|[k2 v] m IH]; simpl; intro H; auto.
  destruct (str_eqb k' k2) eqn:E.
  - apply str_eqb_eq in E; subst k2. rewrite IH by assumption.
    destruct (str_eqb k k') eqn:E2; auto. apply str_eqb_eq in E2. contradiction.
  - simpl. rewrite IH by assumption. reflexivity.
Qed.
Lemma mget_mset_eq : forall k v m, mget k (mset k v m) = Some v.
Proof. intros. unfold mset. simpl. rewrite str_eqb_refl. reflexivity. Qed.
Lemma mget_mset_ne : forall k k' v m, k <> k' -> mget k (mset k' v m) = mget k m.
Proof.
  intros. unfold mset. simpl. destruct (str_eqb k k') eqn:E.
  - apply str_eqb_eq in E. contradiction.
  - apply mget_mdel_ne. assumption.
Qed.

Lemma upd_length : forall {A} (l : list A) i x, length (upd l i x) = length l.
Proof. induction l; destruct i; simpl; auto. Qed.
Lemma nth_error_upd_eq : forall {A} (l : list A) i x, (i < length l)%nat -> nth_error (upd l i x) i = Some x.
Proof. induction l; destruct i; simpl; intros; try lia; auto. apply IHl. lia. Qed.
Lemma nth_error_upd_ne : forall {A} (l : list A) i j x, i <> j -> nth_error (upd l i x) j = nth_error l j.
Proof. induction l; destruct i, j; simpl; intros; try congruence; auto. Qed.
Lemma nth_error_upd : forall {A} (l : list A) i j x o, nth_error (upd l i x) j = Some o ->
  (i = j /\ o = x) \/ (i <> j /\ nth_error l j = Some o).
Proof.
  intros. destruct (Nat.eq_dec i j).
  - subst. left. split; auto. assert (j < length l)%nat.
    { rewrite <- (upd_length l j x). apply nth_error_Some. congruence. }
    rewrite nth_error_upd_eq in H by assumption. congruence.
  - right. rewrite nth_error_upd_ne in H by assumption. auto.
Qed.
Lemma map_upd : forall {A B} (f : A -> B) (l : list A) i x, map f (upd l i x) = upd (map f l) i (f x).
Proof. induction l; destruct i; simpl; intros; auto. f_equal. apply IHl. Qed.
Lemma upd_same : forall {A} (l : list A) i x, nth_error l i = Some x -> upd l i x = l.
Proof. induction l; destruct i; simpl; intros; try congruence. f_equal. apply IHl. assumption. Qed.

Lemma nth_error_app_last : forall {A} (l : list A) x, nth_error (l ++ [x]) (length l) = Some x.
Proof. intros. rewrite nth_error_app2 by lia. rewrite Nat.sub_diag. reflexivity. Qed.
Lemma nth_error_app_inv : forall {A} (l : list A) x i o, nth_error (l ++ [x]) i = Some o ->
  (i < length l /\ nth_error l i = Some o)%nat \/ (i = length l /\ o = x).
Proof.
  intros. destruct (Nat.lt_ge_cases i (length l)).
  - left. rewrite nth_error_app1 in H by assumption. auto.
  - right. rewrite nth_error_app2 in H by assumption.
    destruct (i - length l)%nat eqn:E; simpl in H.
    + split; [lia | congruence].
    + destruct n; discriminate.
Qed.
Lemma upd_app_last : forall {A} (l : list A) x y, upd (l ++ [x]) (length l) y = l ++ [y].
Proof. induction l; simpl; intros; auto. f_equal. apply IHl. Qed.
Lemma upd_app_lt : forall {A} (l : list A) x i y, (i < length l)%nat -> upd (l ++ [x]) i y = upd l i y ++ [x].
Proof. induction l; destruct i; simpl; intros; try lia; auto. f_equal. apply IHl. lia. Qed.

Lemma idx_Some : forall {A} (l : list A) i x, idx l i = Some x -> 0 <= i /\ nth_error l (Z.to_nat i) = Some x.
Proof. unfold idx. intros. destruct (i <? 0) eqn:E; try discriminate. apply Z.ltb_ge in E. auto. Qed.
Lemma idx_of_nat : forall {A} (l : list A) i, idx l (Z.of_nat i) = nth_error l i.
Proof. unfold idx. intros. destruct (Z.of_nat i <? 0) eqn:E. apply Z.ltb_lt in E; lia. rewrite Nat2Z.id. reflexivity. Qed.
