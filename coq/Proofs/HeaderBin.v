(** C07 — binary round trip: DecodeBinary (EncodeBinary h) rebuilds a header
    with the same exposed values. *)
From Coq Require Import ZArith List Bool Lia.
From Hts Require Import Base.Prim Model.Header Proofs.HeaderBase Proofs.HeaderInv Proofs.HeaderInv2 Proofs.HeaderWorld
     Proofs.HeaderParse Proofs.HeaderText Proofs.HeaderNum Proofs.HeaderLoop Proofs.HeaderFields Proofs.HeaderRT.
Import ListNotations.
Open Scope Z_scope.
Ltac Zify.zify_post_hook ::= Z.div_mod_to_equations.
Arguments mset : simpl never.
Arguments mget : simpl never.

Lemma rd32_le32 : forall x s, - 2 ^ 31 <= x < 2 ^ 31 -> rd32 (le32 x ++ s) = Some (x, s).
Proof.
  intros x s H. unfold le32, rd32. cbn [app].
  change (2 ^ 32) with 4294967296. change (2 ^ 31) with 2147483648 in *.
  set (u := x mod 4294967296).
  assert (Hu : 0 <= u < 4294967296) by (unfold u; lia).
  assert (E : u mod 256 + 256 * ((u / 256) mod 256) + 65536 * ((u / 65536) mod 256) + 16777216 * ((u / 16777216) mod 256) = u) by lia.
  rewrite E. destruct (u <? 2147483648) eqn:L; [apply Z.ltb_lt in L|apply Z.ltb_ge in L]; f_equal; f_equal; unfold u in *; lia.
Qed.

Lemma rd_n_app : forall (a b : str), a ++ b <> [] -> rd_n (zlen a) (a ++ b) = Some (a, b).
Proof.
  intros a b NE. unfold rd_n. destruct (a ++ b) as [|c t] eqn:E; [contradiction|]. rewrite <- E.
  replace (zlen (a ++ b) <? zlen a) with false by (symmetry; apply Z.ltb_ge; unfold zlen; rewrite app_length; lia).
  unfold zlen. rewrite Nat2Z.id. f_equal. f_equal.
  - clear. induction a; simpl; [destruct b; reflexivity|f_equal; assumption].
  - clear. induction a; simpl; auto.
Qed.

Definition rec_of (o : obj refpay) : str := le32 (zlen (o_name o) + 1) ++ o_name o ++ [0] ++ le32 (rp_len (o_pay o)).
Fixpoint bares (i : Z) (rs : list (obj refpay)) : list (obj refpay) :=
  match rs with [] => [] | o :: r => bare_ref i (o_name o) (rp_len (o_pay o)) :: bares (i + 1) r end.
Definition rec_ok (o : obj refpay) : Prop := zlen (o_name o) + 1 < 2 ^ 31 /\ - 2 ^ 31 <= rp_len (o_pay o) < 2 ^ 31.

Lemma read_ref_records_enc : forall rs fuel i acc, Forall rec_ok rs ->
  (length (concat (map rec_of rs)) < fuel)%nat ->
  read_ref_records fuel i (i + zlen rs) (concat (map rec_of rs)) acc = Ok (rev acc ++ bares i rs).
Proof.
  induction rs as [|o rs IH]; intros fuel i acc F L.
  - destruct fuel; [simpl in L; lia|]. cbn [read_ref_records]. unfold zlen; simpl. rewrite Z.add_0_r, Z.leb_refl, app_nil_r. reflexivity.
  - destruct fuel; [simpl in L; lia|]. inversion F as [|? ? (R1 & R2) F']; subst. cbn [read_ref_records map concat].
    replace (i + zlen (o :: rs)) with (i + 1 + zlen rs) by (unfold zlen; simpl length; lia).
    replace (i + 1 + zlen rs <=? i) with false by (symmetry; apply Z.leb_gt; unfold zlen; lia).
    unfold rec_of at 1. rewrite <- !app_assoc. rewrite rd32_le32 by (unfold zlen in *; lia).
    replace (zlen (o_name o) + 1 <? 1) with false by (symmetry; apply Z.ltb_ge; unfold zlen; lia).
    replace (zlen (o_name o) + 1) with (zlen (o_name o ++ [0])) by (unfold zlen; rewrite app_length; simpl; lia).
    rewrite (app_assoc (o_name o) [0]). rewrite rd_n_app by (destruct (o_name o); discriminate).
    rewrite last_last, Z.eqb_refl. cbn [negb]. rewrite rd32_le32 by exact R2. rewrite removelast_last.
    rewrite (IH fuel (i + 1) (bare_ref i (o_name o) (rp_len (o_pay o)) :: acc) F').
    + cbn [rev bares]. rewrite <- app_assoc. reflexivity.
    + cbn [map concat] in L. rewrite app_length in L. assert (1 <= length (rec_of o))%nat by (unfold rec_of, le32; simpl; lia). lia.
Qed.

Lemma objs_frame : forall {P} (st st' : list (obj P)) items,
  (forall x, In x items -> nth_error st' x = nth_error st x) -> objs st' items = objs st items.
Proof.
  intros P st st'. induction items as [|x l IH]; intro H; simpl; auto.
  rewrite (H x (or_introl eq_refl)). rewrite IH by (intros y Hy; apply H; right; exact Hy). reflexivity.
Qed.

Lemma objs_valid : forall {P} (st : list (obj P)) items os, objs st items = Some os -> forall x, In x items -> (x < length st)%nat.
Proof.
  intros P st. induction items as [|r l IH]; intros os H x Hx; simpl in *; [destruct Hx|].
  destruct (nth_error st r) as [o|] eqn:Hr; [|discriminate]. destruct (objs st l) as [os'|] eqn:Ho; [|discriminate].
  destruct Hx as [<-|Hx]; [apply nth_error_Some; congruence|eapply IH; eauto].
Qed.

Lemma objs_app_st : forall {P} (st : list (obj P)) items os x, objs st items = Some os -> objs (st ++ [x]) items = Some os.
Proof.
  intros P st items os x H. rewrite <- H. apply objs_frame. intros y Hy.
  apply nth_error_app1. eapply objs_valid; eauto.
Qed.

Lemma objs_install : forall {P} (items : list nat) (st : list (obj P)) os i erh r new er',
  objs st items = Some os -> nth_error items i = Some erh -> ~ In r items -> (r < length st)%nat -> NoDup items ->
  objs (upd (upd st r new) erh er') (upd items i r) = Some (upd os i new).
Proof.
  intros P. induction items as [|x l IH]; intros st os i erh r new er' H Hi Hr Lr ND; [destruct i; discriminate|].
  simpl in H. destruct (nth_error st x) as [ox|] eqn:Hx; [|discriminate]. destruct (objs st l) as [os'|] eqn:Ho; [|discriminate].
  inversion H; subst os; clear H. inversion ND as [|? ? Nx ND']; subst.
  assert (Lx : (x < length st)%nat) by (apply nth_error_Some; congruence).
  destruct i; simpl in Hi.
  - inversion Hi; subst x. simpl.
    assert (NE : r <> erh) by (intro; subst; apply Hr; left; reflexivity).
    rewrite nth_error_upd_ne by (intro; subst; apply NE; reflexivity). rewrite nth_error_upd_eq by assumption.
    rewrite (objs_frame st) , Ho; [reflexivity|].
    intros y Hy. rewrite nth_error_upd_ne by (intro E; subst y; apply Nx; exact Hy).
    rewrite nth_error_upd_ne by (intro E; subst y; apply Hr; right; exact Hy). reflexivity.
  - simpl.
    assert (x <> erh) by (intro; subst; apply Nx; eapply nth_error_In; eauto).
    assert (x <> r) by (intro; subst; apply Hr; left; reflexivity).
    rewrite !nth_error_upd_ne by auto. rewrite Hx.
    rewrite (IH st os' i erh r new er' Ho Hi); auto. intro Hin; apply Hr; right; exact Hin.
Qed.

Lemma nv_inherit_bare : forall i (er : obj refpay) h d,
  nv (with_ident (inherit (bare_ref i (o_name er) (rp_len (o_pay er))) er) h d) = nv er.
Proof. intros i [ow id nm [len md5 as_ sp uri other]] h d. unfold nv, inherit, bare_ref; simpl. destruct uri; reflexivity. Qed.

Lemma equal_bare_bare : forall i n l, equal_refs (bare_ref i n l) (bare_ref (-1) n l) = true.
Proof.
  intros. unfold equal_refs, bare_ref. cbn [o_id o_name o_pay rp_len rp_md5 rp_as rp_sp rp_uri rp_other].
  rewrite str_eqb_refl, !Z.eqb_refl. destruct (i =? -1); reflexivity.
Qed.

(** adding the binary record of a listed reference changes no exposed value *)
Lemma add_bare_view : forall w h hd os i er,
  WInv w -> nth_error (w_h w) h = Some hd -> objs (w_r w) (t_items (h_R hd)) = Some os -> nth_error os i = Some er ->
  exists w' hd' os',
    add_reference (set_r w (w_r w ++ [bare_ref (Z.of_nat i) (o_name er) (rp_len (o_pay er))])) h (length (w_r w)) = Ok (w', 0) /\
    WInv w' /\ nth_error (w_h w') h = Some hd' /\ objs (w_r w') (t_items (h_R hd')) = Some os' /\ map nv os' = map nv os /\
    same_but_R hd hd' /\ w_g w' = w_g w /\ w_p w' = w_p w.
Proof.
  intros w h hd os i er I Hh Ho Hi.
  destruct (objs_nth_inv _ _ _ _ _ Ho Hi) as (erh & Hit & Her).
  assert (TI : TInv h (w_r w) (h_R hd)) by (apply (proj1 (proj1 I)); rewrite nth_error_map, Hh; reflexivity).
  assert (Lh : (h < length (w_h w))%nat) by (apply nth_error_Some; congruence).
  assert (Le : (erh < length (w_r w))%nat) by (apply nth_error_Some; congruence).
  assert (Hm : mget (o_name er) (t_seen (h_R hd)) = Some (Z.of_nat i)) by (apply (ti_seen _ _ _ TI); eauto 8).
  set (b := bare_ref (Z.of_nat i) (o_name er) (rp_len (o_pay er))).
  destruct (alloc_ref_good w b I eq_refl) as (Ia & Xa).
  destruct (add_reference_good (set_r w (w_r w ++ [b])) h (length (w_r w)) Ia) as (w2 & e2 & R2 & I2 & X2).
  { exact Lh. } { simpl. rewrite app_length; simpl; lia. }
  assert (R2o := R2). unfold add_reference in R2. cbn [set_r w_h w_r] in R2. rewrite Hh, nth_error_app_last in R2.
  change (o_name b) with (o_name er) in R2. rewrite Hm, idx_of_nat, Hit in R2. rewrite nth_error_app1 in R2 by exact Le. rewrite Her in R2.
  assert (EB : equal_refs b (bare_ref (-1) (o_name er) (rp_len (o_pay er))) = true) by apply equal_bare_bare.
  destruct (equal_refs er b) eqn:EQ.
  - inversion R2; subst w2 e2. exists (set_r w (w_r w ++ [b])), hd, os.
    split; [exact R2o|]. split; [exact I2|]. split; [exact Hh|]. split; [apply objs_app_st; exact Ho|].
    split; [reflexivity|]. split; [unfold same_but_R; repeat split; reflexivity|]. split; reflexivity.
  - rewrite EB in R2. cbn [negb] in R2. change (owned b) with false in R2. cbn iota in R2.
    unfold install_over in R2. rewrite Nat2Z.id in R2. inversion R2; subst w2 e2; clear R2.
    eexists _, _, _. split; [exact R2o|]. split; [exact I2|].
    split; [simpl; apply nth_error_upd_eq; exact Lh|].
    split.
    + cbn [put_hdr set_r set_h w_r set_R h_R t_items].
      apply objs_install.
      * apply objs_app_st. exact Ho.
      * exact Hit.
      * intro Hin. apply (objs_valid _ _ _ Ho) in Hin. lia.
      * rewrite app_length; simpl; lia.
      * eapply TInv_NoDup; eauto.
    + split.
      * rewrite map_upd. apply upd_same. rewrite nth_error_map, Hi. simpl. f_equal. symmetry. apply nv_inherit_bare.
      * split; [unfold same_but_R; simpl; repeat split; reflexivity|]. split; reflexivity.
Qed.

Lemma same_but_R_trans : forall a b c, same_but_R a b -> same_but_R b c -> same_but_R a c.
Proof. unfold same_but_R. intros a b c (a1&a2&a3&a4&a5&a6&a7) (b1&b2&b3&b4&b5&b6&b7). repeat split; congruence. Qed.

Lemma skipn_S_tl : forall {A} (l : list A) k x t, skipn k l = x :: t -> skipn (S k) l = t.
Proof. induction l; destruct k; simpl; intros x t H; try discriminate. inversion H; reflexivity. destruct l; [destruct k; discriminate|]. apply (IHl k x t H). Qed.

Lemma add_all_view : forall (rs : list (obj refpay)) suffix k w h hd os,
  WInv w -> nth_error (w_h w) h = Some hd -> objs (w_r w) (t_items (h_R hd)) = Some os -> map nv os = map nv rs ->
  skipn k rs = suffix ->
  exists w' hd' os', add_all w h (bares (Z.of_nat k) suffix) = Ok (w', 0) /\ WInv w' /\ nth_error (w_h w') h = Some hd' /\
    objs (w_r w') (t_items (h_R hd')) = Some os' /\ map nv os' = map nv rs /\ same_but_R hd hd' /\ w_g w' = w_g w /\ w_p w' = w_p w.
Proof.
  intros rs. induction suffix as [|o suffix IH]; intros k w h hd os I Hh Ho Hv Hs.
  - exists w, hd, os. simpl. split; [reflexivity|]. split; [exact I|]. split; [exact Hh|]. split; [exact Ho|]. split; [exact Hv|].
    split; [unfold same_but_R; repeat split; reflexivity|]. split; reflexivity.
  - assert (Hk : nth_error rs k = Some o).
    { rewrite <- (firstn_skipn k rs), Hs. assert (Lk : (k <= length rs)%nat).
      { destruct (Nat.le_gt_cases k (length rs)); auto. rewrite skipn_all2 in Hs by lia. discriminate. }
      rewrite nth_error_app2 by (rewrite firstn_length; lia). rewrite firstn_length. replace (k - Nat.min k (length rs))%nat with 0%nat by lia. reflexivity. }
    assert (Her : exists er, nth_error os k = Some er /\ nv er = nv o).
    { assert (E : nth_error (map nv os) k = nth_error (map nv rs) k) by (rewrite Hv; reflexivity).
      rewrite !nth_error_map, Hk in E. destruct (nth_error os k) as [er|]; [|discriminate]. simpl in E. exists er. split; [reflexivity|congruence]. }
    destruct Her as (er & Hek & Hnv). unfold nv in Hnv. inversion Hnv as [[Hn Hp]].
    destruct (add_bare_view w h hd os k er I Hh Ho Hek) as (w1 & hd1 & os1 & R1 & I1 & Hh1 & Ho1 & Hv1 & SB1 & G1 & P1).
    cbn [bares add_all]. rewrite <- Hn, <- Hp. rewrite R1. cbn [Z.eqb].
    destruct (IH (S k) w1 h hd1 os1 I1 Hh1 Ho1) as (w' & hd' & os' & R' & I' & Hh' & Ho' & Hv' & SB' & G' & P').
    { rewrite Hv1. exact Hv. }
    { eapply skipn_S_tl; eauto. }
    replace (Z.of_nat k + 1) with (Z.of_nat (S k)) by lia.
    exists w', hd', os'. split; [exact R'|]. split; [exact I'|]. split; [exact Hh'|]. split; [exact Ho'|]. split; [exact Hv'|].
    split; [eapply same_but_R_trans; eauto|]. split; congruence.
Qed.

Section BIN.
  Variable pt : str -> option str.
  Variable pu : str -> option str.

  (** sizes fit the int32 fields of the BAM header block *)
  Definition fits_int32 (text : str) (rs : list (obj refpay)) : Prop :=
    zlen text < 2 ^ 31 /\ zlen rs < 2 ^ 31 /\ Forall (fun o => zlen (o_name o) + 1 < 2 ^ 31) rs.

  Theorem binary_roundtrip : forall w h hd text rs b, WInv w -> nth_error (w_h w) h = Some hd -> WFH pt pu w hd ->
    marshal_text w hd = Ok text -> objs (w_r w) (t_items (h_R hd)) = Some rs -> fits_int32 text rs ->
    encode_binary w hd = Ok b ->
    exists w' hd', decode_binary pt pu w b = Ok (w', 0) /\ WInv w' /\
      nth_error (w_h w') (length (w_h w)) = Some hd' /\ view w' hd' = view w hd /\
      marshal_text w' hd' = Ok text /\ encode_binary w' hd' = Ok b.
  Proof.
    intros w h hd text rs b I Hh WF MT Hr (Ft & Fn & Fnames) EB.
    destruct (text_roundtrip pt pu w h hd text I Hh WF MT) as (w1 & hd1 & NH & I1 & Hn1 & V1 & M1 & E1).
    set (n := length (w_h w)) in *.
    assert (RO : Forall rec_ok rs).
    { destruct WF as (_ & rs' & gs & ps & Hr' & _ & _ & Fr & _). rewrite Hr in Hr'. inversion Hr'; subst rs'.
      rewrite Forall_forall in *. intros o Ho. split; [apply Fnames; exact Ho|].
      destruct (Fr o Ho) as (_ & Vl & _). unfold valid_len in Vl. apply andb_true_iff in Vl. destruct Vl as (V1' & V2'). apply Z.leb_le in V1'. apply Z.leb_le in V2'. lia. }
    assert (Bf : b = bam_magic ++ le32 (zlen text) ++ text ++ le32 (zlen rs) ++ concat (map rec_of rs)).
    { unfold encode_binary in EB. rewrite MT, Hr in EB. inversion EB. reflexivity. }
    unfold decode_binary. fold n. rewrite Bf.
    change 4 with (zlen bam_magic). rewrite rd_n_app by discriminate. rewrite str_eqb_refl. cbn [negb].
    rewrite rd32_le32 by (unfold zlen in *; lia).
    replace (zlen text <? 0) with false by (symmetry; apply Z.ltb_ge; unfold zlen; lia).
    rewrite rd_n_app by (unfold le32; destruct text; discriminate).
    (* the text part is NewHeader's UnmarshalText *)
    assert (UT : unmarshal_text pt pu (set_h w (w_h w ++ [hdr0])) n text = Ok (w1, 0)) by exact NH.
    rewrite UT. cbn [Z.eqb negb].
    rewrite rd32_le32 by (unfold zlen in *; lia).
    replace (zlen rs <? 0) with false by (symmetry; apply Z.ltb_ge; unfold zlen; lia).
    assert (RR := read_ref_records_enc rs (S (length (concat (map rec_of rs)))) 0 [] RO ltac:(lia)).
    rewrite Z.add_0_l in RR. rewrite RR. cbn [rev app].
    (* the reference records *)
    assert (V1' := V1). unfold view in V1'. inversion V1' as [[Hvn Hso Hgo Hot Hco HR HG HP]].
    rewrite Hr in HR. destruct (objs (w_r w1) (t_items (h_R hd1))) as [os1|] eqn:Ho1; [|discriminate]. simpl in HR. inversion HR as [HR'].
    destruct (add_all_view rs rs 0 w1 n hd1 os1 I1 Hn1 Ho1 HR' eq_refl) as (w2 & hd2 & os2 & R2 & I2 & Hn2 & Ho2 & Hv2 & SB2 & G2 & P2).
    change (Z.of_nat 0) with 0 in R2. rewrite R2.
    exists w2, hd2. split; [reflexivity|]. split; [exact I2|]. split; [exact Hn2|].
    assert (VW : view w2 hd2 = view w hd).
    { rewrite <- V1. unfold view. destruct SB2 as (a1 & a2 & a3 & a4 & a5 & a6 & a7).
      rewrite a1, a2, a3, a4, a5, a6, a7, G2, P2, Ho2, Ho1. simpl. rewrite Hv2, HR'. reflexivity. }
    split; [exact VW|]. destruct (view_marshal _ _ _ _ VW) as (MM & EE). split; [rewrite MM; exact MT|rewrite EE, <- Bf; exact EB].
  Qed.
End BIN.
