(** C07 — the three field loops rebuild name and payload of an item from the
    fields printed by its String method (semantic half of the text round trip). *)
From Coq Require Import ZArith List Bool Lia.
From Hts Require Import Base.Prim Model.Header Proofs.HeaderBase Proofs.HeaderText Proofs.HeaderNum Proofs.HeaderLoop.
Import ListNotations.
Open Scope Z_scope.
Arguments mset : simpl never.
Arguments mget : simpl never.
Arguments atoi : simpl never.
Arguments dec : simpl never.
Arguments hex_of : simpl never.
Arguments hex_decode : simpl never.

Definition tclean (t : tag) : Prop := clean [fst t; snd t].
(** other tags of an item: not among the standard tags [K], pairwise distinct, clean *)
Definition others_ok (K : list tag) (l : list tagpair) : Prop :=
  (forall tp, In tp l -> mem_tag (fst tp) K = false /\ tclean (fst tp) /\ clean (snd tp)) /\ tdist l.

Definition KR := [tSN; tLN; tAS; tM5; tSP; tUR].
Definition KG := [tID; tCN; tDS; tDT; tFO; tKS; tLB; tPG; tPI; tPL; tPU; tSM].
Definition KP := [tID; tPN; tCL; tPP; tVN].

Lemma mem_tag_false_cons : forall t a K, mem_tag t (a :: K) = false -> tag_eqb t a = false /\ mem_tag t K = false.
Proof. unfold mem_tag. simpl. intros t a K H. apply orb_false_iff in H. exact H. Qed.

Section SQ.
  Variable pu : str -> option str.

  Definition sq_step (o : obj refpay) (fl : bool * bool) (t : tag) (v : str) : outcome (obj refpay * (bool * bool)) :=
    let p := o_pay o in
    let nok := fst fl in let lok := snd fl in
    if tag_eqb t tSN then Ok (with_name o v, (true, lok))
    else if tag_eqb t tLN then
      match atoi v with
      | None => Err eBadHeader
      | Some n => if valid_len n
                  then Ok (mkObj (o_owner o) (o_id o) (o_name o) (mkRef n (rp_md5 p) (rp_as p) (rp_sp p) (rp_uri p) (rp_other p)), (nok, true))
                  else Err eBadLen
      end
    else if tag_eqb t tAS then
      Ok (mkObj (o_owner o) (o_id o) (o_name o) (mkRef (rp_len p) (rp_md5 p) v (rp_sp p) (rp_uri p) (rp_other p)), (nok, lok))
    else if tag_eqb t tM5 then
      if 32 <? zlen v then Err eBadHeader
      else match hex_decode 0 v [] with
           | Ok b => if Nat.eqb (length b) 16
                     then Ok (mkObj (o_owner o) (o_id o) (o_name o) (mkRef (rp_len p) b (rp_as p) (rp_sp p) (rp_uri p) (rp_other p)), (nok, lok))
                     else Err eBadHeader
           | Err e => Err e | Panic n => Panic n | Stuck => Stuck
           end
    else if tag_eqb t tSP then
      Ok (mkObj (o_owner o) (o_id o) (o_name o) (mkRef (rp_len p) (rp_md5 p) (rp_as p) v (rp_uri p) (rp_other p)), (nok, lok))
    else if tag_eqb t tUR then
      match pu v with
      | None => Err eOther
      | Some u => Ok (mkObj (o_owner o) (o_id o) (o_name o) (mkRef (rp_len p) (rp_md5 p) (rp_as p) (rp_sp p) (Some u) (rp_other p)), (nok, lok))
      end
    else Ok (mkObj (o_owner o) (o_id o) (o_name o) (mkRef (rp_len p) (rp_md5 p) (rp_as p) (rp_sp p) (rp_uri p) (rp_other p ++ [(t, v)])), (nok, lok)).

  Definition Fsq (o : obj refpay) (seen : list tag) (fl : bool * bool) (fs : list str) := sq_fields pu o seen (fst fl) (snd fl) fs.
  Definition FINsq (o : obj refpay) (fl : bool * bool) : outcome (obj refpay * bool * bool) := Ok (o, fst fl, snd fl).
  Definition ADDsq (o : obj refpay) (tp : tagpair) : obj refpay :=
    let p := o_pay o in mkObj (o_owner o) (o_id o) (o_name o) (mkRef (rp_len p) (rp_md5 p) (rp_as p) (rp_sp p) (rp_uri p) (rp_other p ++ [tp])).

  Lemma Fsq_nil : forall o seen fl, Fsq o seen fl [] = FINsq o fl.
  Proof. reflexivity. Qed.
  Lemma Fsq_cons : forall o seen fl f l, Fsq o seen fl (f :: l) =
    match split_field f with
    | None => Err eBadHeader
    | Some (t, v) =>
      if mem_tag t seen then Err eDupTag
      else match sq_step o fl t v with
           | Ok (o', fl') => Fsq o' (t :: seen) fl' l
           | Err e => Err e | Panic n => Panic n | Stuck => Stuck
           end
    end.
  Proof.
    intros o seen [nok lok] f l. unfold Fsq. cbn [fst snd sq_fields].
    destruct (split_field f) as [[t v]|]; [|reflexivity]. destruct (mem_tag t seen); [reflexivity|].
    unfold sq_step. cbn [fst snd].
    destruct (tag_eqb t tSN); [reflexivity|].
    destruct (tag_eqb t tLN). { destruct (atoi v); [|reflexivity]. destruct (valid_len z); reflexivity. }
    destruct (tag_eqb t tAS); [reflexivity|].
    destruct (tag_eqb t tM5). { destruct (32 <? zlen v); [reflexivity|]. destruct (hex_decode 0 v []); try reflexivity. destruct (Nat.eqb (length a) 16); reflexivity. }
    destruct (tag_eqb t tSP); [reflexivity|].
    destruct (tag_eqb t tUR). { destruct (pu v); reflexivity. }
    reflexivity.
  Qed.

  Lemma sq_step_other : forall o fl t v, mem_tag t KR = false -> sq_step o fl t v = Ok (ADDsq o (t, v), fl).
  Proof.
    intros o [nok lok] t v H. unfold KR in H.
    repeat (apply mem_tag_false_cons in H; destruct H as [? H]).
    unfold sq_step. rewrite H0, H1, H2, H3, H4, H5. reflexivity.
  Qed.

  Lemma fold_ADDsq : forall l o, fold_left ADDsq l o =
    mkObj (o_owner o) (o_id o) (o_name o) (mkRef (rp_len (o_pay o)) (rp_md5 (o_pay o)) (rp_as (o_pay o)) (rp_sp (o_pay o)) (rp_uri (o_pay o)) (rp_other (o_pay o) ++ l)).
  Proof.
    induction l as [|tp l IH]; intro o; simpl.
    - rewrite app_nil_r. destruct o as [ow id nm [a b c d e f]]; reflexivity.
    - rewrite IH. unfold ADDsq; simpl. rewrite <- app_assoc. reflexivity.
  Qed.

  (** what a reference must satisfy to be printable and re-readable *)
  Definition WFref (o : obj refpay) : Prop :=
    let p := o_pay o in
    clean (o_name o) /\ valid_len (rp_len p) = true /\
    (rp_md5 p = [] \/ (length (rp_md5 p) = 16%nat /\ bytes (rp_md5 p))) /\
    clean (rp_as p) /\ clean (rp_sp p) /\
    (forall u, rp_uri p = Some u -> pu u = Some u /\ clean u) /\
    others_ok KR (rp_other p).

  Lemma sq_rebuild : forall o, WFref o ->
    sq_fields pu (mkObj None 0 [] (mkRef 0 [] [] [] None [])) [] false false (ref_fields o)
    = Ok (mkObj None 0 (o_name o) (o_pay o), true, true).
  Proof.
    intros [ow id name [len md5 as_ sp uri other]] (Cn & Vl & Hm & Ca & Cs & Hu & (Ho & Hd)). cbn [o_name o_pay rp_len rp_md5 rp_as rp_sp rp_uri rp_other] in *.
    change (Fsq (mkObj None 0 [] (mkRef 0 [] [] [] None [])) [] (false, false)
                (ref_fields (mkObj ow id name (mkRef len md5 as_ sp uri other))) = FINsq (mkObj None 0 name (mkRef len md5 as_ sp uri other)) (true, true)).
    unfold ref_fields. cbn [o_name o_pay rp_len rp_md5 rp_as rp_sp rp_uri rp_other app].
    (* SN *)
    rewrite (loop_one _ _ _ Fsq sq_step Fsq_cons _ _ _ tSN name _ (mkObj None 0 name (mkRef 0 [] [] [] None [])) (true, false)); [|reflexivity|reflexivity].
    (* LN *)
    rewrite (loop_one _ _ _ Fsq sq_step Fsq_cons _ _ _ tLN (dec len) _ (mkObj None 0 name (mkRef len [] [] [] None [])) (true, true)); [|reflexivity|].
    2:{ unfold sq_step. cbn [tag_eqb tLN tSN T fst snd Z.eqb Pos.eqb andb]. rewrite atoi_dec.
        - rewrite Vl. reflexivity.
        - unfold valid_len in Vl. apply andb_true_iff in Vl. destruct Vl as (V1 & V2). apply Z.leb_le in V1. apply Z.leb_le in V2. lia. }
    assert (W0 : Within [tLN; tSN] [tLN; tSN]) by (intros x H; exact H).
    (* M5 *)
    replace (if is_empty md5 then [] else [body tM5 (hex_of md5)]) with (optf tM5 (hex_of md5)).
    2:{ unfold optf. destruct md5; reflexivity. }
    destruct (loop_opt _ _ _ Fsq sq_step Fsq_cons (mkObj None 0 name (mkRef len [] [] [] None [])) [tLN; tSN] [tLN; tSN] (true, true) tM5 (hex_of md5)
                (optf tAS as_ ++ optf tSP sp ++ match uri with Some u => [body tUR u] | None => [] end ++ other_fields other)
                (mkObj None 0 name (mkRef len md5 [] [] None [])) (true, true) W0 eq_refl) as (s1 & E1 & W1).
    { intro NE. destruct Hm as [->|(L16 & By)]; [discriminate|].
      unfold sq_step. cbn [tag_eqb tM5 tLN tSN tAS T fst snd Z.eqb Pos.eqb andb o_pay rp_len rp_md5 rp_as rp_sp rp_uri rp_other o_owner o_id o_name].
      replace (32 <? zlen (hex_of md5)) with false by (symmetry; apply Z.ltb_ge; unfold zlen; rewrite hex_of_length, L16; simpl; lia).
      rewrite hex_decode_hex_of by (auto; rewrite L16; lia). cbn [rev app]. rewrite L16. reflexivity. }
    { intro E. destruct md5; [split; reflexivity|discriminate]. }
    rewrite E1. clear E1.
    (* AS *)
    destruct (loop_opt _ _ _ Fsq sq_step Fsq_cons (mkObj None 0 name (mkRef len md5 [] [] None [])) s1 _ (true, true) tAS as_
                (optf tSP sp ++ match uri with Some u => [body tUR u] | None => [] end ++ other_fields other)
                (mkObj None 0 name (mkRef len md5 as_ [] None [])) (true, true) W1 eq_refl) as (s2 & E2 & W2).
    { intros _. reflexivity. } { intro E. destruct as_; [split; reflexivity|discriminate]. }
    rewrite E2. clear E2.
    (* SP *)
    destruct (loop_opt _ _ _ Fsq sq_step Fsq_cons (mkObj None 0 name (mkRef len md5 as_ [] None [])) s2 _ (true, true) tSP sp
                (match uri with Some u => [body tUR u] | None => [] end ++ other_fields other)
                (mkObj None 0 name (mkRef len md5 as_ sp None [])) (true, true) W2 eq_refl) as (s3 & E3 & W3).
    { intros _. reflexivity. } { intro E. destruct sp; [split; reflexivity|discriminate]. }
    rewrite E3. clear E3.
    (* UR and the other tags *)
    assert (FO : forall s o0, Within s [tUR; tSP; tAS; tM5; tLN; tSN] -> o_pay o0 = mkRef len md5 as_ sp uri [] -> o_owner o0 = None -> o_id o0 = 0 -> o_name o0 = name ->
                 Fsq o0 s (true, true) (other_fields other) = FINsq (mkObj None 0 name (mkRef len md5 as_ sp uri other)) (true, true)).
    { intros s o0 Ws Hp Hw Hi Hn0.
      rewrite (loop_others _ _ _ Fsq sq_step FINsq Fsq_nil Fsq_cons ADDsq KR sq_step_other).
      - rewrite fold_ADDsq, Hp, Hw, Hi, Hn0. reflexivity.
      - intros tp Hin. apply (Ho tp Hin).
      - exact Hd.
      - intros tp Hin. eapply Within_fresh; [exact Ws|]. destruct (Ho tp Hin) as (HK & _). unfold KR in HK.
        repeat (apply mem_tag_false_cons in HK; destruct HK as [? HK]).
        unfold mem_tag. simpl. rewrite H, H0, H1, H2, H3, H4. reflexivity. }
    destruct uri as [u|].
    - destruct (Hu u eq_refl) as (Pu & Cu). cbn [app].
      rewrite (loop_one _ _ _ Fsq sq_step Fsq_cons _ _ _ tUR u _ (mkObj None 0 name (mkRef len md5 as_ sp (Some u) [])) (true, true)).
      + apply FO; auto. apply Within_cons. exact W3.
      + eapply Within_fresh; [exact W3|reflexivity].
      + unfold sq_step. cbn [tag_eqb tUR tSP tM5 tLN tSN tAS T fst snd Z.eqb Pos.eqb andb o_pay rp_len rp_md5 rp_as rp_sp rp_uri rp_other o_owner o_id o_name]. rewrite Pu. reflexivity.
    - cbn [app]. apply FO; auto. apply Within_weaken. exact W3.
  Qed.
End SQ.

Section RG.
  Variable pt : str -> option str.
  Variable names : smap.

  Definition ADDrg (o : obj rgpay) (tp : tagpair) : obj rgpay :=
    let p := o_pay o in
    mkObj (o_owner o) (o_id o) (o_name o)
          (mkRG (g_cn p) (g_ds p) (g_dt p) (g_fo p) (g_ks p) (g_lb p) (g_pg p) (g_pi p) (g_pl p) (g_pu p) (g_sm p) (g_other p ++ [tp])).

  Definition rg_step (o : obj rgpay) (idok : bool) (t : tag) (v : str) : outcome (obj rgpay * bool) :=
    let p := o_pay o in
    if tag_eqb t tID then
      match mget v names with Some _ => Err eDupRG | None => Ok (with_name o v, true) end
    else if tag_eqb t tDT then
      match pt v with
      | None => Err eOther
      | Some d => Ok (mkObj (o_owner o) (o_id o) (o_name o)
                        (mkRG (g_cn p) (g_ds p) (Some d) (g_fo p) (g_ks p) (g_lb p) (g_pg p) (g_pi p) (g_pl p) (g_pu p) (g_sm p) (g_other p)), idok)
      end
    else if tag_eqb t tPI then
      match atoi v with
      | None => Err eOther
      | Some n => if valid_int32 n
                  then Ok (mkObj (o_owner o) (o_id o) (o_name o)
                             (mkRG (g_cn p) (g_ds p) (g_dt p) (g_fo p) (g_ks p) (g_lb p) (g_pg p) n (g_pl p) (g_pu p) (g_sm p) (g_other p)), idok)
                  else Err eBadLen
      end
    else if rg_plain t then Ok (mkObj (o_owner o) (o_id o) (o_name o) (rg_set o t v), idok)
    else Ok (ADDrg o (t, v), idok).

  Definition Frg (o : obj rgpay) (seen : list tag) (idok : bool) (fs : list str) := rg_fields pt names o seen idok fs.
  Definition FINrg (o : obj rgpay) (idok : bool) : outcome (obj rgpay * bool) := Ok (o, idok).

  Lemma Frg_nil : forall o seen fl, Frg o seen fl [] = FINrg o fl.
  Proof. reflexivity. Qed.
  Lemma Frg_cons : forall o seen fl f l, Frg o seen fl (f :: l) =
    match split_field f with
    | None => Err eBadHeader
    | Some (t, v) =>
      if mem_tag t seen then Err eDupTag
      else match rg_step o fl t v with
           | Ok (o', fl') => Frg o' (t :: seen) fl' l
           | Err e => Err e | Panic n => Panic n | Stuck => Stuck
           end
    end.
  Proof.
    intros o seen idok f l. unfold Frg. cbn [rg_fields].
    destruct (split_field f) as [[t v]|]; [|reflexivity]. destruct (mem_tag t seen); [reflexivity|].
    unfold rg_step.
    destruct (tag_eqb t tID). { destruct (mget v names); reflexivity. }
    destruct (tag_eqb t tDT). { destruct (pt v); reflexivity. }
    destruct (tag_eqb t tPI). { destruct (atoi v); [|reflexivity]. destruct (valid_int32 z); reflexivity. }
    destruct (rg_plain t); reflexivity.
  Qed.

  Lemma rg_step_other : forall o fl t v, mem_tag t KG = false -> rg_step o fl t v = Ok (ADDrg o (t, v), fl).
  Proof.
    intros o fl t v H. unfold KG in H.
    repeat (apply mem_tag_false_cons in H; destruct H as [? H]).
    unfold rg_step, rg_plain. rewrite H0, H1, H2, H3, H4, H5, H6, H7, H8, H9, H10, H11. reflexivity.
  Qed.

  Lemma fold_ADDrg : forall l o, fold_left ADDrg l o =
    let p := o_pay o in
    mkObj (o_owner o) (o_id o) (o_name o)
          (mkRG (g_cn p) (g_ds p) (g_dt p) (g_fo p) (g_ks p) (g_lb p) (g_pg p) (g_pi p) (g_pl p) (g_pu p) (g_sm p) (g_other p ++ l)).
  Proof.
    induction l as [|tp l IH]; intro o; simpl.
    - rewrite app_nil_r. destruct o as [ow id nm [a b c d e f g h i j k m]]; reflexivity.
    - rewrite IH. unfold ADDrg; simpl. rewrite <- app_assoc. reflexivity.
  Qed.

  Definition WFrg (o : obj rgpay) : Prop :=
    let p := o_pay o in
    clean (o_name o) /\ clean (g_cn p) /\ clean (g_ds p) /\
    (forall d, g_dt p = Some d -> pt d = Some d /\ clean d) /\
    clean (g_fo p) /\ clean (g_ks p) /\ clean (g_lb p) /\ clean (g_pg p) /\
    valid_int32 (g_pi p) = true /\
    clean (g_pl p) /\ clean (g_pu p) /\ clean (g_sm p) /\ others_ok KG (g_other p).

  Ltac plain_step W o t v o' rest s E W' :=
    destruct (loop_opt _ _ _ Frg rg_step Frg_cons o _ _ true t v rest o' true W eq_refl) as (s & E & W');
    [intros _; reflexivity | (intro EE; destruct v; [split; reflexivity|discriminate]) | rewrite E; clear E].

  Lemma rg_rebuild : forall o, WFrg o -> mget (o_name o) names = None ->
    rg_fields pt names (mkObj None 0 [] (mkRG [] [] None [] [] [] [] 0 [] [] [] [])) [] false (rg_fields_of o)
    = Ok (mkObj None 0 (o_name o) (o_pay o), true).
  Proof.
    intros [ow id name [cn ds dt fo ks lb pg pi pl pu sm other]] WF Hn.
    destruct WF as (_ & _ & _ & Hdt & _ & _ & _ & _ & Vpi & _ & _ & _ & (Ho & Hd)).
    cbn [o_name o_pay g_cn g_ds g_dt g_fo g_ks g_lb g_pg g_pi g_pl g_pu g_sm g_other] in *.
    change (Frg (mkObj None 0 [] (mkRG [] [] None [] [] [] [] 0 [] [] [] [])) [] false
                (rg_fields_of (mkObj ow id name (mkRG cn ds dt fo ks lb pg pi pl pu sm other)))
            = FINrg (mkObj None 0 name (mkRG cn ds dt fo ks lb pg pi pl pu sm other)) true).
    unfold rg_fields_of. cbn [o_name o_pay g_cn g_ds g_dt g_fo g_ks g_lb g_pg g_pi g_pl g_pu g_sm g_other app].
    (* the tail: PL PU SM and the other tags *)
    assert (T3 : forall s, Within s [tPI; tPG; tLB; tKS; tFO; tDT; tDS; tCN; tID] ->
              Frg (mkObj None 0 name (mkRG cn ds dt fo ks lb pg pi [] [] [] [])) s true
                  (optf tPL pl ++ optf tPU pu ++ optf tSM sm ++ other_fields other)
              = FINrg (mkObj None 0 name (mkRG cn ds dt fo ks lb pg pi pl pu sm other)) true).
    { intros s W.
      plain_step W (mkObj None 0 name (mkRG cn ds dt fo ks lb pg pi [] [] [] [])) tPL pl (mkObj None 0 name (mkRG cn ds dt fo ks lb pg pi pl [] [] [])) (optf tPU pu ++ optf tSM sm ++ other_fields other) s1 E1 W1.
      plain_step W1 (mkObj None 0 name (mkRG cn ds dt fo ks lb pg pi pl [] [] [])) tPU pu (mkObj None 0 name (mkRG cn ds dt fo ks lb pg pi pl pu [] [])) (optf tSM sm ++ other_fields other) s2 E2 W2.
      plain_step W2 (mkObj None 0 name (mkRG cn ds dt fo ks lb pg pi pl pu [] [])) tSM sm (mkObj None 0 name (mkRG cn ds dt fo ks lb pg pi pl pu sm [])) (other_fields other) s3 E3 W3.
      rewrite (loop_others _ _ _ Frg rg_step FINrg Frg_nil Frg_cons ADDrg KG rg_step_other).
      - rewrite fold_ADDrg. reflexivity.
      - intros tp Hin. apply (Ho tp Hin).
      - exact Hd.
      - intros tp Hin. eapply Within_fresh; [exact W3|]. destruct (Ho tp Hin) as (HK & _). unfold KG in HK.
        repeat (apply mem_tag_false_cons in HK; destruct HK as [? HK]).
        unfold mem_tag. simpl. rewrite H, H0, H1, H2, H3, H4, H5, H6, H7, H8, H9, H10. reflexivity. }
    (* PI *)
    assert (T2 : forall s, Within s [tPG; tLB; tKS; tFO; tDT; tDS; tCN; tID] ->
              Frg (mkObj None 0 name (mkRG cn ds dt fo ks lb pg 0 [] [] [] [])) s true
                  ((if pi =? 0 then [] else [body tPI (dec pi)]) ++ optf tPL pl ++ optf tPU pu ++ optf tSM sm ++ other_fields other)
              = FINrg (mkObj None 0 name (mkRG cn ds dt fo ks lb pg pi pl pu sm other)) true).
    { intros s W. destruct (pi =? 0) eqn:Ep.
      - apply Z.eqb_eq in Ep. subst pi. cbn [app]. apply T3. apply Within_weaken. exact W.
      - cbn [app].
        rewrite (loop_one _ _ _ Frg rg_step Frg_cons _ _ _ tPI (dec pi) _ (mkObj None 0 name (mkRG cn ds dt fo ks lb pg pi [] [] [] [])) true).
        + apply T3. apply Within_cons. exact W.
        + eapply Within_fresh; [exact W|reflexivity].
        + unfold rg_step. cbn [tag_eqb tPI tID tDT T fst snd Z.eqb Pos.eqb andb]. rewrite atoi_dec.
          * rewrite Vpi. reflexivity.
          * unfold valid_int32 in Vpi. apply andb_true_iff in Vpi. destruct Vpi as (V1 & V2). apply Z.leb_le in V1. apply Z.leb_le in V2. lia. }
    (* FO KS LB PG *)
    assert (T1 : forall s, Within s [tDT; tDS; tCN; tID] ->
              Frg (mkObj None 0 name (mkRG cn ds dt [] [] [] [] 0 [] [] [] [])) s true
                  (optf tFO fo ++ optf tKS ks ++ optf tLB lb ++ optf tPG pg ++
                   (if pi =? 0 then [] else [body tPI (dec pi)]) ++ optf tPL pl ++ optf tPU pu ++ optf tSM sm ++ other_fields other)
              = FINrg (mkObj None 0 name (mkRG cn ds dt fo ks lb pg pi pl pu sm other)) true).
    { intros s W.
      plain_step W (mkObj None 0 name (mkRG cn ds dt [] [] [] [] 0 [] [] [] [])) tFO fo (mkObj None 0 name (mkRG cn ds dt fo [] [] [] 0 [] [] [] []))
                 (optf tKS ks ++ optf tLB lb ++ optf tPG pg ++ (if pi =? 0 then [] else [body tPI (dec pi)]) ++ optf tPL pl ++ optf tPU pu ++ optf tSM sm ++ other_fields other) s1 E1 W1.
      plain_step W1 (mkObj None 0 name (mkRG cn ds dt fo [] [] [] 0 [] [] [] [])) tKS ks (mkObj None 0 name (mkRG cn ds dt fo ks [] [] 0 [] [] [] []))
                 (optf tLB lb ++ optf tPG pg ++ (if pi =? 0 then [] else [body tPI (dec pi)]) ++ optf tPL pl ++ optf tPU pu ++ optf tSM sm ++ other_fields other) s2 E2 W2.
      plain_step W2 (mkObj None 0 name (mkRG cn ds dt fo ks [] [] 0 [] [] [] [])) tLB lb (mkObj None 0 name (mkRG cn ds dt fo ks lb [] 0 [] [] [] []))
                 (optf tPG pg ++ (if pi =? 0 then [] else [body tPI (dec pi)]) ++ optf tPL pl ++ optf tPU pu ++ optf tSM sm ++ other_fields other) s3 E3 W3.
      plain_step W3 (mkObj None 0 name (mkRG cn ds dt fo ks lb [] 0 [] [] [] [])) tPG pg (mkObj None 0 name (mkRG cn ds dt fo ks lb pg 0 [] [] [] []))
                 ((if pi =? 0 then [] else [body tPI (dec pi)]) ++ optf tPL pl ++ optf tPU pu ++ optf tSM sm ++ other_fields other) s4 E4 W4.
      apply T2. exact W4. }
    (* ID CN DS, then DT *)
    rewrite (loop_one _ _ _ Frg rg_step Frg_cons _ _ _ tID name _ (mkObj None 0 name (mkRG [] [] None [] [] [] [] 0 [] [] [] [])) true); [|reflexivity|].
    2:{ unfold rg_step. cbn [tag_eqb tID T fst snd Z.eqb Pos.eqb andb]. rewrite Hn. reflexivity. }
    assert (W0 : Within [tID] [tID]) by (intros x H; exact H).
    plain_step W0 (mkObj None 0 name (mkRG [] [] None [] [] [] [] 0 [] [] [] [])) tCN cn (mkObj None 0 name (mkRG cn [] None [] [] [] [] 0 [] [] [] []))
               (optf tDS ds ++ match dt with Some d => [body tDT d] | None => [] end ++ optf tFO fo ++ optf tKS ks ++ optf tLB lb ++ optf tPG pg ++
                (if pi =? 0 then [] else [body tPI (dec pi)]) ++ optf tPL pl ++ optf tPU pu ++ optf tSM sm ++ other_fields other) s1 E1 W1.
    plain_step W1 (mkObj None 0 name (mkRG cn [] None [] [] [] [] 0 [] [] [] [])) tDS ds (mkObj None 0 name (mkRG cn ds None [] [] [] [] 0 [] [] [] []))
               (match dt with Some d => [body tDT d] | None => [] end ++ optf tFO fo ++ optf tKS ks ++ optf tLB lb ++ optf tPG pg ++
                (if pi =? 0 then [] else [body tPI (dec pi)]) ++ optf tPL pl ++ optf tPU pu ++ optf tSM sm ++ other_fields other) s2 E2 W2.
    destruct dt as [d|].
    - destruct (Hdt d eq_refl) as (Pd & _). cbn [app].
      rewrite (loop_one _ _ _ Frg rg_step Frg_cons _ _ _ tDT d _ (mkObj None 0 name (mkRG cn ds (Some d) [] [] [] [] 0 [] [] [] [])) true).
      + apply T1. apply Within_cons. exact W2.
      + eapply Within_fresh; [exact W2|reflexivity].
      + unfold rg_step. cbn [tag_eqb tDT tID T fst snd Z.eqb Pos.eqb andb]. rewrite Pd. reflexivity.
    - cbn [app]. apply T1. apply Within_weaken. exact W2.
  Qed.
End RG.

Section PG.
  Variable names : smap.

  Definition ADDpg (o : obj pgpay) (tp : tagpair) : obj pgpay :=
    let p := o_pay o in mkObj (o_owner o) (o_id o) (o_name o) (mkPG (p_pp p) (p_pn p) (p_cl p) (p_vn p) (p_other p ++ [tp])).

  Definition pg_step (o : obj pgpay) (idok : bool) (t : tag) (v : str) : outcome (obj pgpay * bool) :=
    let p := o_pay o in
    if tag_eqb t tID then
      match mget v names with Some _ => Err eDupPG | None => Ok (with_name o v, true) end
    else if tag_eqb t tPN then Ok (mkObj (o_owner o) (o_id o) (o_name o) (mkPG (p_pp p) v (p_cl p) (p_vn p) (p_other p)), idok)
    else if tag_eqb t tCL then Ok (mkObj (o_owner o) (o_id o) (o_name o) (mkPG (p_pp p) (p_pn p) v (p_vn p) (p_other p)), idok)
    else if tag_eqb t tPP then Ok (mkObj (o_owner o) (o_id o) (o_name o) (mkPG v (p_pn p) (p_cl p) (p_vn p) (p_other p)), idok)
    else if tag_eqb t tVN then Ok (mkObj (o_owner o) (o_id o) (o_name o) (mkPG (p_pp p) (p_pn p) (p_cl p) v (p_other p)), idok)
    else Ok (ADDpg o (t, v), idok).

  Definition Fpg (o : obj pgpay) (seen : list tag) (idok : bool) (fs : list str) := pg_fields names o seen idok fs.
  Definition FINpg (o : obj pgpay) (idok : bool) : outcome (obj pgpay * bool) := Ok (o, idok).

  Lemma Fpg_nil : forall o seen fl, Fpg o seen fl [] = FINpg o fl.
  Proof. reflexivity. Qed.
  Lemma Fpg_cons : forall o seen fl f l, Fpg o seen fl (f :: l) =
    match split_field f with
    | None => Err eBadHeader
    | Some (t, v) =>
      if mem_tag t seen then Err eDupTag
      else match pg_step o fl t v with
           | Ok (o', fl') => Fpg o' (t :: seen) fl' l
           | Err e => Err e | Panic n => Panic n | Stuck => Stuck
           end
    end.
  Proof.
    intros o seen idok f l. unfold Fpg. cbn [pg_fields].
    destruct (split_field f) as [[t v]|]; [|reflexivity]. destruct (mem_tag t seen); [reflexivity|].
    unfold pg_step.
    destruct (tag_eqb t tID). { destruct (mget v names); reflexivity. }
    destruct (tag_eqb t tPN); [reflexivity|]. destruct (tag_eqb t tCL); [reflexivity|].
    destruct (tag_eqb t tPP); [reflexivity|]. destruct (tag_eqb t tVN); reflexivity.
  Qed.

  Lemma pg_step_other : forall o fl t v, mem_tag t KP = false -> pg_step o fl t v = Ok (ADDpg o (t, v), fl).
  Proof.
    intros o fl t v H. unfold KP in H.
    repeat (apply mem_tag_false_cons in H; destruct H as [? H]).
    unfold pg_step. rewrite H0, H1, H2, H3, H4. reflexivity.
  Qed.

  Lemma fold_ADDpg : forall l o, fold_left ADDpg l o =
    let p := o_pay o in mkObj (o_owner o) (o_id o) (o_name o) (mkPG (p_pp p) (p_pn p) (p_cl p) (p_vn p) (p_other p ++ l)).
  Proof.
    induction l as [|tp l IH]; intro o; simpl.
    - rewrite app_nil_r. destruct o as [ow id nm [a b c d e]]; reflexivity.
    - rewrite IH. unfold ADDpg; simpl. rewrite <- app_assoc. reflexivity.
  Qed.

  Definition WFpg (o : obj pgpay) : Prop :=
    let p := o_pay o in
    clean (o_name o) /\ clean (p_pn p) /\ clean (p_cl p) /\ clean (p_pp p) /\ clean (p_vn p) /\ others_ok KP (p_other p).

  Ltac pstep W o t v o' rest s E W' :=
    destruct (loop_opt _ _ _ Fpg pg_step Fpg_cons o _ _ true t v rest o' true W eq_refl) as (s & E & W');
    [intros _; reflexivity | (intro EE; destruct v; [split; reflexivity|discriminate]) | rewrite E; clear E].

  Lemma pg_rebuild : forall o, WFpg o -> mget (o_name o) names = None ->
    pg_fields names (mkObj None 0 [] (mkPG [] [] [] [] [])) [] false (pg_fields_of o) = Ok (mkObj None 0 (o_name o) (o_pay o), true).
  Proof.
    intros [ow id name [pp pn cl vn other]] WF Hn.
    destruct WF as (_ & _ & _ & _ & _ & (Ho & Hd)).
    cbn [o_name o_pay p_pp p_pn p_cl p_vn p_other] in *.
    change (Fpg (mkObj None 0 [] (mkPG [] [] [] [] [])) [] false (pg_fields_of (mkObj ow id name (mkPG pp pn cl vn other)))
            = FINpg (mkObj None 0 name (mkPG pp pn cl vn other)) true).
    unfold pg_fields_of. cbn [o_name o_pay p_pp p_pn p_cl p_vn p_other app].
    rewrite (loop_one _ _ _ Fpg pg_step Fpg_cons _ _ _ tID name _ (mkObj None 0 name (mkPG [] [] [] [] [])) true); [|reflexivity|].
    2:{ unfold pg_step. cbn [tag_eqb tID T fst snd Z.eqb Pos.eqb andb]. rewrite Hn. reflexivity. }
    assert (W0 : Within [tID] [tID]) by (intros x H; exact H).
    pstep W0 (mkObj None 0 name (mkPG [] [] [] [] [])) tPN pn (mkObj None 0 name (mkPG [] pn [] [] [])) (optf tCL cl ++ optf tPP pp ++ optf tVN vn ++ other_fields other) s1 E1 W1.
    pstep W1 (mkObj None 0 name (mkPG [] pn [] [] [])) tCL cl (mkObj None 0 name (mkPG [] pn cl [] [])) (optf tPP pp ++ optf tVN vn ++ other_fields other) s2 E2 W2.
    pstep W2 (mkObj None 0 name (mkPG [] pn cl [] [])) tPP pp (mkObj None 0 name (mkPG pp pn cl [] [])) (optf tVN vn ++ other_fields other) s3 E3 W3.
    pstep W3 (mkObj None 0 name (mkPG pp pn cl [] [])) tVN vn (mkObj None 0 name (mkPG pp pn cl vn [])) (other_fields other) s4 E4 W4.
    rewrite (loop_others _ _ _ Fpg pg_step FINpg Fpg_nil Fpg_cons ADDpg KP pg_step_other).
    - rewrite fold_ADDpg. reflexivity.
    - intros tp Hin. apply (Ho tp Hin).
    - exact Hd.
    - intros tp Hin. eapply Within_fresh; [exact W4|]. destruct (Ho tp Hin) as (HK & _). unfold KP in HK.
      repeat (apply mem_tag_false_cons in HK; destruct HK as [? HK]).
      unfold mem_tag. simpl. rewrite H, H0, H1, H2, H3. reflexivity.
  Qed.
End PG.
