(** C07 — MergeHeaders, the step function of the harness protocol, and
    histories: HInv holds in every reachable state. *)
From Coq Require Import ZArith List Bool Lia.
From Hts Require Import Base.Prim Model.Header Model.HeaderRun
     Proofs.HeaderBase Proofs.HeaderInv Proofs.HeaderInv2 Proofs.HeaderWorld Proofs.HeaderParse.
Import ListNotations.
Open Scope Z_scope.
Arguments mset : simpl never.
Arguments mget : simpl never.

Definition valid_refs (w : world) (l : list nat) : Prop := forall x, In x l -> (x < length (w_r w))%nat.

Lemma valid_refs_ext : forall w w' l, Ext w w' -> valid_refs w l -> valid_refs w' l.
Proof. intros w w' l (_ & X & _) V x Hx. specialize (V x Hx). lia. Qed.

Lemma items_valid_R : forall w h hd, WInv w -> nth_error (w_h w) h = Some hd -> valid_refs w (t_items (h_R hd)).
Proof.
  intros w h hd I Hh x Hx. apply In_nth_error in Hx. destruct Hx as (i & Hi).
  assert (T : TInv h (w_r w) (h_R hd)) by (apply (proj1 (proj1 I)); rewrite nth_error_map, Hh; reflexivity).
  destruct (ti_obj _ _ _ T _ _ Hi) as (o & Ho & _). apply nth_error_Some. congruence.
Qed.
Lemma items_valid_G : forall w h hd, WInv w -> nth_error (w_h w) h = Some hd -> forall x, In x (t_items (h_G hd)) -> (x < length (w_g w))%nat.
Proof.
  intros w h hd I Hh x Hx. apply In_nth_error in Hx. destruct Hx as (i & Hi).
  assert (T : TInv h (w_g w) (h_G hd)) by (apply (proj1 (proj1 (proj2 I))); rewrite nth_error_map, Hh; reflexivity).
  destruct (ti_obj _ _ _ T _ _ Hi) as (o & Ho & _). apply nth_error_Some. congruence.
Qed.
Lemma items_valid_P : forall w h hd, WInv w -> nth_error (w_h w) h = Some hd -> forall x, In x (t_items (h_P hd)) -> (x < length (w_p w))%nat.
Proof.
  intros w h hd I Hh x Hx. apply In_nth_error in Hx. destruct Hx as (i & Hi).
  assert (T : TInv h (w_p w) (h_P hd)) by (apply (proj2 (proj2 I)); rewrite nth_error_map, Hh; reflexivity).
  destruct (ti_obj _ _ _ T _ _ Hi) as (o & Ho & _). apply nth_error_Some. congruence.
Qed.

Lemma find_equal_ok : forall items w o, valid_refs w items ->
  exists r, find_equal w o items = Ok r /\ (forall x, r = Some x -> In x items).
Proof.
  induction items as [|x l IH]; intros w o V; simpl.
  - exists None. split; auto. discriminate.
  - destruct (nth_error_lt _ _ (V x (or_introl eq_refl))) as (hr & Hr). rewrite Hr.
    destruct (equal_refs o hr).
    + exists (Some x). split; [reflexivity|]. intros y E. inversion E; subst. left; reflexivity.
    + destruct (IH w o) as (r & R & Hin). { intros y Hy; apply V; right; assumption. }
      exists r. split; [exact R|]. intros y E. right. apply Hin. exact E.
Qed.

Lemma merge_refs_good : forall srcrefs w hm, WInv w -> (hm < length (w_h w))%nat -> valid_refs w srcrefs ->
  exists w' e ls, merge_refs w hm srcrefs = Ok (w', e, ls) /\ WInv w' /\ Ext w w' /\ valid_refs w' ls.
Proof.
  induction srcrefs as [|r l IH]; intros w hm I Lh V; simpl.
  - exists w, 0, []. split; [reflexivity|]. split; [exact I|]. split; [apply Ext_refl|]. intros x Hx; destruct Hx.
  - unfold clone_ref. destruct (nth_error_lt _ _ (V r (or_introl eq_refl))) as (o & Ho). rewrite Ho.
    destruct (new_ref_good w (o_name o) (o_pay o) I) as (I1 & X1).
    destruct (add_reference_good (new_ref w (o_name o) (o_pay o)) hm (length (w_r w)) I1) as (w2 & e & R & I2 & X2).
    { simpl. exact Lh. } { simpl. rewrite app_length; simpl; lia. }
    rewrite R. destruct (negb (e =? 0)).
    { exists w2, e, []. split; [reflexivity|]. split; [exact I2|]. split; [eapply Ext_trans; eauto|]. intros x Hx; destruct Hx. }
    assert (X02 : Ext w w2) by (eapply Ext_trans; eauto).
    assert (Lc : (length (w_r w) < length (w_r w2))%nat).
    { destruct X2 as (_ & X2 & _). simpl in X2. rewrite app_length in X2; simpl in X2. lia. }
    assert (Lh2 : (hm < length (w_h w2))%nat) by (destruct X02; lia).
    assert (LK : exists x, (if owner_is (w_r w2) (length (w_r w)) hm then Ok (length (w_r w))
                 else match nth_error (w_r w2) (length (w_r w)), nth_error (w_h w2) hm with
                      | Some o, Some hd => match find_equal w2 o (t_items (h_R hd)) with
                                           | Ok (Some x) => Ok x | Ok None => Ok (length (w_r w))
                                           | Err e' => Err e' | Panic n => Panic n | Stuck => Stuck end
                      | _, _ => Panic pNil end) = Ok x /\ (x < length (w_r w2))%nat).
    { destruct (owner_is _ _ _). { eexists; split; [reflexivity|assumption]. }
      destruct (nth_error_lt _ _ Lc) as (oc & Hc). destruct (nth_error_lt _ _ Lh2) as (hd2 & Hh2). rewrite Hc, Hh2.
      destruct (find_equal_ok (t_items (h_R hd2)) w2 oc (items_valid_R _ _ _ I2 Hh2)) as (fr & FR & Fin). rewrite FR.
      destruct fr as [x|]; eexists; split; try reflexivity; auto. apply (items_valid_R _ _ _ I2 Hh2). apply Fin. reflexivity. }
    destruct LK as (x & LK & Lx). rewrite LK.
    destruct (IH w2 hm I2 Lh2) as (w3 & e3 & ls & R3 & I3 & X3 & V3). { eapply valid_refs_ext; eauto. intros y Hy; apply V; right; assumption. }
    rewrite R3. exists w3, e3, (x :: ls). split; auto. split; auto. split; [eapply Ext_trans; eauto|].
    intros y [E|Hy]; [subst; destruct X3 as (_ & X3 & _); lia|auto].
Qed.

Lemma merge_srcs_good : forall srcs w hm, WInv w -> (hm < length (w_h w))%nat -> (forall s, In s srcs -> (s < length (w_h w))%nat) ->
  exists w' e ls, merge_srcs w hm srcs = Ok (w', e, ls) /\ WInv w' /\ Ext w w' /\ Forall (valid_refs w') ls.
Proof.
  induction srcs as [|s l IH]; intros w hm I Lh V; simpl.
  - exists w, 0, []. split; [reflexivity|]. split; [exact I|]. split; [apply Ext_refl|constructor].
  - destruct (nth_error_lt _ _ (V s (or_introl eq_refl))) as (hs & Hs). rewrite Hs.
    destruct (merge_refs_good (t_items (h_R hs)) w hm I Lh (items_valid_R _ _ _ I Hs)) as (w1 & e & links & R & I1 & X1 & V1). rewrite R.
    destruct (negb (e =? 0)). { exists w1, e, []. split; [reflexivity|]. split; [exact I1|]. split; [exact X1|constructor]. }
    destruct (IH w1 hm I1) as (w2 & e2 & ls & R2 & I2 & X2 & V2). { destruct X1; lia. } { intros y Hy. specialize (V y (or_intror Hy)). destruct X1; lia. }
    rewrite R2. exists w2, e2, (links :: ls). split; auto. split; auto. split; [eapply Ext_trans; eauto|].
    constructor; auto. eapply valid_refs_ext; eauto.
Qed.

(** MergeHeaders keeps the invariant; the only step that is not shown here to
    be panic-free is the final link resolution (see merge_links in Proofs/HeaderMerge.v) *)
Lemma merge_headers_inv : forall w s0 srcs, WInv w -> (s0 < length (w_h w))%nat -> (forall s, In s srcs -> (s < length (w_h w))%nat) ->
  match merge_headers w s0 srcs with
  | Ok (w', e, ls) => WInv w' /\ Ext w w' /\ (length (w_h w) < length (w_h w'))%nat
  | Panic n => n = pIndex \/ n = pNil
  | _ => False
  end.
Proof.
  intros w s0 srcs I L0 V. unfold merge_headers.
  destruct (clone_header_good w s0 I L0) as (w1 & R1 & I1 & X1 & L1). rewrite R1.
  assert (Lh1 : (length (w_h w) < length (w_h w1))%nat) by lia.
  destruct (nth_error_lt _ _ Lh1) as (hd & Hh). rewrite Hh.
  set (w2 := put_hdr w1 (length (w_h w)) (set_hd hd (h_vn hd) 0 0 (h_other hd))).
  assert (I2 : WInv w2) by (eapply WInv_put_same; eauto).
  assert (X2 : Ext w1 w2) by apply Ext_put.
  destruct (merge_srcs_good srcs w2 (length (w_h w)) I2) as (w3 & e & ls & R3 & I3 & X3 & V3).
  { destruct X2; lia. } { intros s Hs. specialize (V s Hs). destruct X1, X2; lia. }
  rewrite R3.
  assert (X03 : Ext w w3) by (eapply Ext_trans; [exact X1|]; eapply Ext_trans; eauto).
  assert (L3 : (length (w_h w) < length (w_h w3))%nat) by (destruct X2, X3; lia).
  destruct (negb (e =? 0)); [auto|].
  destruct (omap _ _) as [ls'| e' | n |] eqn:OM.
  - auto.
  - exfalso. clear - OM. revert e' OM. generalize (t_items (h_R hd) :: ls). intros L.
    assert (forall l e', omap (resolve_link w3 (length (w_h w))) l <> Err e').
    { induction l as [|x l IH]; simpl; intros e'; [discriminate|]. unfold resolve_link at 1.
      destruct (owner_is _ _ _). { destruct (omap _ l) eqn:E; try discriminate. exfalso; eapply IH; eauto. }
      destruct (nth_error (w_r w3) x); [|discriminate]. destruct (nth_error (w_h w3) (length (w_h w))); [|discriminate].
      destruct (idx _ _); [|discriminate]. destruct (omap _ l) eqn:E; try discriminate. exfalso; eapply IH; eauto. }
    induction L as [|l L IH]; simpl; intros; [discriminate|].
    destruct (omap (resolve_link w3 (length (w_h w))) l) eqn:E1; try discriminate.
    + destruct (omap (omap _) L) eqn:E2; try discriminate. eapply IH; eauto.
    + eapply H; eauto.
  - clear - OM. revert n OM. generalize (t_items (h_R hd) :: ls). intros L.
    assert (forall l n, omap (resolve_link w3 (length (w_h w))) l = Panic n -> n = pIndex \/ n = pNil).
    { induction l as [|x l IH]; simpl; intros n; [discriminate|]. unfold resolve_link at 1.
      destruct (owner_is _ _ _). { destruct (omap _ l) eqn:E; try discriminate. intro H; inversion H; subst; eapply IH; eauto. }
      destruct (nth_error (w_r w3) x); [|intro H; inversion H; auto]. destruct (nth_error (w_h w3) (length (w_h w))); [|intro H; inversion H; auto].
      destruct (idx _ _); [|intro H; inversion H; auto]. destruct (omap _ l) eqn:E; try discriminate. intro H; inversion H; subst; eapply IH; eauto. }
    induction L as [|l L IH]; simpl; intros n; [discriminate|].
    destruct (omap (resolve_link w3 (length (w_h w))) l) eqn:E1; try discriminate.
    + destruct (omap (omap _) L) eqn:E2; try discriminate. intro HH; inversion HH; subst. eapply IH; eauto.
    + intro HH; inversion HH; subst. eapply H; eauto.
  - exfalso. clear - OM. revert OM. generalize (t_items (h_R hd) :: ls). intros L.
    assert (forall l, omap (resolve_link w3 (length (w_h w))) l <> Stuck).
    { induction l as [|x l IH]; simpl; [discriminate|]. unfold resolve_link at 1.
      destruct (owner_is _ _ _). { destruct (omap _ l) eqn:E; try discriminate. exfalso; eapply IH; eauto. }
      destruct (nth_error (w_r w3) x); [|discriminate]. destruct (nth_error (w_h w3) (length (w_h w))); [|discriminate].
      destruct (idx _ _); [|discriminate]. destruct (omap _ l) eqn:E; try discriminate. exfalso; eapply IH; eauto. }
    induction L as [|l L IH]; simpl; [discriminate|].
    destruct (omap (resolve_link w3 (length (w_h w))) l) eqn:E1; try discriminate.
    + destruct (omap (omap _) L) eqn:E2; try discriminate. intros _. eapply IH; eauto.
    + intros _. eapply H; eauto.
Qed.

(** *** the step function of the harness protocol *)
Definition EnvOK (w : world) (e : env) : Prop :=
  (forall x, In x (e_h e) -> (x < length (w_h w))%nat) /\ (forall x, In x (e_r e) -> (x < length (w_r w))%nat) /\
  (forall x, In x (e_g e) -> (x < length (w_g w))%nat) /\ (forall x, In x (e_p e) -> (x < length (w_p w))%nat).

Lemma EnvOK_ext : forall w w' e, Ext w w' -> EnvOK w e -> EnvOK w' e.
Proof.
  intros w w' e (X1 & X2 & X3 & X4) (E1 & E2 & E3 & E4).
  repeat split; intros x Hx; [specialize (E1 x Hx)|specialize (E2 x Hx)|specialize (E3 x Hx)|specialize (E4 x Hx)]; lia.
Qed.

Lemma norm_In : forall i l x, norm i l = Some x -> In x l.
Proof. unfold norm. intros i l x. destruct l; [discriminate|]. apply nth_error_In. Qed.
Lemma norm_all_In : forall is_ l xs, norm_all is_ l = Some xs -> forall x, In x xs -> In x l.
Proof.
  induction is_ as [|i t IH]; simpl; intros l xs H x Hx.
  - inversion H; subst. destruct Hx.
  - destruct (norm i l) eqn:N; [|discriminate]. destruct (norm_all t l) eqn:NA; [|discriminate]. inversion H; subst.
    destruct Hx as [E|Hx]; [subst; eapply norm_In; eauto|eapply IH; eauto].
Qed.

Lemma add_new_In : forall items known x, In x (add_new known items) -> In x known \/ In x items.
Proof.
  induction items as [|r l IH]; simpl; intros known x H; auto.
  destruct (existsb (Nat.eqb r) known).
  - destruct (IH _ _ H); auto.
  - destruct (IH _ _ H) as [H1|H1]; auto. apply in_app_or in H1. destruct H1 as [H1|[H1|[]]]; auto.
Qed.

Lemma expose_ok : forall w e h, WInv w -> EnvOK w e -> EnvOK w (expose w e h).
Proof.
  intros w e h I (E1 & E2 & E3 & E4). unfold expose. destruct (nth_error (w_h w) h) as [hd|] eqn:Hh; [|repeat split; auto].
  repeat split; simpl; auto; intros x Hx; apply add_new_In in Hx; destruct Hx as [Hx|Hx]; auto.
  - eapply items_valid_R; eauto.
  - eapply items_valid_G; eauto.
  - eapply items_valid_P; eauto.
Qed.
Lemma expose_hdr_ok : forall w e h, WInv w -> EnvOK w e -> (h < length (w_h w))%nat -> EnvOK w (expose_hdr w e h).
Proof.
  intros w e h I (E1 & E2 & E3 & E4) L. unfold expose_hdr. apply expose_ok; auto.
  repeat split; simpl; auto. intros x Hx. apply in_app_or in Hx. destruct Hx as [Hx|[Hx|[]]]; auto. subst; auto.
Qed.

Definition is_merge (op : c07op) : bool := match op with OMerge _ => true | _ => false end.

Section Step.
  Variable parse_time : str -> option str.
  Variable parse_uri : str -> option str.

  Ltac fin I' X' EO := simpl; split; [exact I'|eapply EnvOK_ext; eauto].
  Ltac skp I EO := simpl; split; [exact I|exact EO].

  Lemma c07_step_inv : forall w e op, WInv w -> EnvOK w e ->
    match c07_step parse_time parse_uri w e op with
    | Ok (w', e', _, _) => WInv w' /\ EnvOK w' e'
    | Panic _ => is_merge op = true
    | _ => False
    end.
  Proof.
    intros w e op I EO. assert (EO' := EO). destruct EO' as (E1 & E2 & E3 & E4).
    destruct op; cbn [c07_step].
    - (* ONewRef *)
      destruct (_ && _); [|skp I EO]. destruct (new_ref_good w name (mkRef len md5 as_ sp (if is_empty uri then None else Some uri) []) I) as (I' & X').
      simpl. split; [exact I'|]. destruct (EnvOK_ext _ _ _ X' EO) as (F1 & F2 & F3 & F4). repeat split; simpl; auto.
      intros x Hx. apply in_app_or in Hx. destruct Hx as [Hx|[Hx|[]]]; auto. subst. rewrite app_length; simpl; lia.
    - (* ONewRG *)
      destruct (valid_int32 pi); [|skp I EO]. destruct (new_rg_good w name (mkRG cn ds (if is_empty dt then None else Some dt) fo ks lb pg pi pl pu sm []) I) as (I' & X').
      simpl. split; [exact I'|]. destruct (EnvOK_ext _ _ _ X' EO) as (F1 & F2 & F3 & F4). repeat split; simpl; auto.
      intros x Hx. apply in_app_or in Hx. destruct Hx as [Hx|[Hx|[]]]; auto. subst. rewrite app_length; simpl; lia.
    - (* ONewPG *)
      destruct (new_pg_good w uid (mkPG pp pn cl vn []) I) as (I' & X').
      simpl. split; [exact I'|]. destruct (EnvOK_ext _ _ _ X' EO) as (F1 & F2 & F3 & F4). repeat split; simpl; auto.
      intros x Hx. apply in_app_or in Hx. destruct Hx as [Hx|[Hx|[]]]; auto. subst. rewrite app_length; simpl; lia.
    - (* OCloneRef *)
      destruct (norm r (e_r e)) as [x|] eqn:N; [|skp I EO]. unfold clone_ref.
      destruct (nth_error_lt _ _ (E2 _ (norm_In _ _ _ N))) as (o & Ho). rewrite Ho.
      destruct (new_ref_good w (o_name o) (o_pay o) I) as (I' & X').
      simpl. split; [exact I'|]. destruct (EnvOK_ext _ _ _ X' EO) as (F1 & F2 & F3 & F4). repeat split; simpl; auto.
      intros y Hy. apply in_app_or in Hy. destruct Hy as [Hy|[Hy|[]]]; auto. subst. rewrite app_length; simpl; lia.
    - (* OCloneRG *)
      destruct (norm r (e_g e)) as [x|] eqn:N; [|skp I EO]. unfold clone_rg.
      destruct (nth_error_lt _ _ (E3 _ (norm_In _ _ _ N))) as (o & Ho). rewrite Ho.
      destruct (new_rg_good w (o_name o) (o_pay o) I) as (I' & X').
      simpl. split; [exact I'|]. destruct (EnvOK_ext _ _ _ X' EO) as (F1 & F2 & F3 & F4). repeat split; simpl; auto.
      intros y Hy. apply in_app_or in Hy. destruct Hy as [Hy|[Hy|[]]]; auto. subst. rewrite app_length; simpl; lia.
    - (* OClonePG *)
      destruct (norm r (e_p e)) as [x|] eqn:N; [|skp I EO]. unfold clone_pg.
      destruct (nth_error_lt _ _ (E4 _ (norm_In _ _ _ N))) as (o & Ho). rewrite Ho.
      destruct (new_pg_good w (o_name o) (o_pay o) I) as (I' & X').
      simpl. split; [exact I'|]. destruct (EnvOK_ext _ _ _ X' EO) as (F1 & F2 & F3 & F4). repeat split; simpl; auto.
      intros y Hy. apply in_app_or in Hy. destruct Hy as [Hy|[Hy|[]]]; auto. subst. rewrite app_length; simpl; lia.
    - (* ONewHdr *)
      match goal with |- context [match ?X with Some _ => _ | None => skip w e end] => destruct X as [rs'|] eqn:N end; [|skp I EO].
      assert (V : forall r, In r rs' -> (r < length (w_r w))%nat).
      { destruct rs as [|r0 rs0]. { inversion N; subst. intros r []. } intros r Hr. apply E2. eapply norm_all_In; eauto. }
      destruct (new_header_good parse_time parse_uri w text rs' I V) as (w' & c & R & I' & X' & L'). rewrite R.
      destruct (c =? 0) eqn:C0.
      + apply Z.eqb_eq in C0. simpl. split; [exact I'|]. apply expose_hdr_ok; auto. eapply EnvOK_ext; eauto.
      + fin I' X' EO.
    - (* OSetHD *)
      destruct (norm h (e_h e)) as [x|] eqn:N; [|skp I EO].
      destruct (nth_error_lt _ _ (E1 _ (norm_In _ _ _ N))) as (hd & Hh). rewrite Hh.
      simpl. split; [eapply WInv_put_same; eauto|eapply EnvOK_ext; [apply Ext_put|exact EO]].
    - (* OAddCo *)
      destruct (norm h (e_h e)) as [x|] eqn:N; [|skp I EO].
      destruct (nth_error_lt _ _ (E1 _ (norm_In _ _ _ N))) as (hd & Hh). rewrite Hh.
      simpl. split; [eapply WInv_put_same; eauto|eapply EnvOK_ext; [apply Ext_put|exact EO]].
    - destruct (norm h (e_h e)) as [x|] eqn:N; [|skp I EO]. destruct (norm r (e_r e)) as [y|] eqn:N2; [|skp I EO].
      destruct (add_reference_good w x y I (E1 _ (norm_In _ _ _ N)) (E2 _ (norm_In _ _ _ N2))) as (w' & c & R & I' & X'). rewrite R. fin I' X' EO.
    - destruct (norm h (e_h e)) as [x|] eqn:N; [|skp I EO]. destruct (norm r (e_r e)) as [y|] eqn:N2; [|skp I EO].
      destruct (remove_reference_good w x y I (E1 _ (norm_In _ _ _ N)) (E2 _ (norm_In _ _ _ N2))) as (w' & c & R & I' & X'). rewrite R. fin I' X' EO.
    - destruct (norm h (e_h e)) as [x|] eqn:N; [|skp I EO]. destruct (norm r (e_g e)) as [y|] eqn:N2; [|skp I EO].
      destruct (add_read_group_good w x y I (E1 _ (norm_In _ _ _ N)) (E3 _ (norm_In _ _ _ N2))) as (w' & c & R & I' & X'). rewrite R. fin I' X' EO.
    - destruct (norm h (e_h e)) as [x|] eqn:N; [|skp I EO]. destruct (norm r (e_g e)) as [y|] eqn:N2; [|skp I EO].
      destruct (remove_read_group_good w x y I (E1 _ (norm_In _ _ _ N)) (E3 _ (norm_In _ _ _ N2))) as (w' & c & R & I' & X'). rewrite R. fin I' X' EO.
    - destruct (norm h (e_h e)) as [x|] eqn:N; [|skp I EO]. destruct (norm r (e_p e)) as [y|] eqn:N2; [|skp I EO].
      destruct (add_program_good w x y I (E1 _ (norm_In _ _ _ N)) (E4 _ (norm_In _ _ _ N2))) as (w' & c & R & I' & X'). rewrite R. fin I' X' EO.
    - destruct (norm h (e_h e)) as [x|] eqn:N; [|skp I EO]. destruct (norm r (e_p e)) as [y|] eqn:N2; [|skp I EO].
      destruct (remove_program_good w x y I (E1 _ (norm_In _ _ _ N)) (E4 _ (norm_In _ _ _ N2))) as (w' & c & R & I' & X'). rewrite R. fin I' X' EO.
    - destruct (norm r (e_r e)) as [y|] eqn:N2; [|skp I EO].
      destruct (set_ref_name_good w y n I (E2 _ (norm_In _ _ _ N2))) as (w' & c & R & I' & X'). rewrite R. fin I' X' EO.
    - destruct (norm r (e_g e)) as [y|] eqn:N2; [|skp I EO].
      destruct (set_rg_name_good w y n I (E3 _ (norm_In _ _ _ N2))) as (w' & c & R & I' & X'). rewrite R. fin I' X' EO.
    - destruct (norm r (e_p e)) as [y|] eqn:N2; [|skp I EO].
      destruct (set_pg_uid_good w y n I (E4 _ (norm_In _ _ _ N2))) as (w' & c & R & I' & X'). rewrite R. fin I' X' EO.
    - (* OClone *)
      destruct (norm h (e_h e)) as [x|] eqn:N; [|skp I EO].
      destruct (clone_header_good w x I (E1 _ (norm_In _ _ _ N))) as (w' & R & I' & X' & L'). rewrite R.
      simpl. split; [exact I'|]. apply expose_hdr_ok; auto. eapply EnvOK_ext; eauto. lia.
    - (* ODecode *)
      destruct (norm h (e_h e)) as [x|] eqn:N; [|skp I EO].
      destruct (nth_error_lt _ _ (E1 _ (norm_In _ _ _ N))) as (hd & Hh). rewrite Hh.
      assert (EB : exists b, encode_binary w hd = Ok b).
      { unfold encode_binary, marshal_text.
        assert (OR : exists rs, objs (w_r w) (t_items (h_R hd)) = Some rs).
        { assert (V := items_valid_R _ _ _ I Hh). revert V. generalize (t_items (h_R hd)). induction l as [|a l IH]; intro V; simpl; eauto.
          destruct (nth_error_lt _ _ (V a (or_introl eq_refl))) as (o & Ho). rewrite Ho. destruct IH as (rs & ->); eauto. intros y Hy; apply V; right; auto. }
        assert (OG : exists rs, objs (w_g w) (t_items (h_G hd)) = Some rs).
        { assert (V := items_valid_G _ _ _ I Hh). revert V. generalize (t_items (h_G hd)). induction l as [|a l IH]; intro V; simpl; eauto.
          destruct (nth_error_lt _ _ (V a (or_introl eq_refl))) as (o & Ho). rewrite Ho. destruct IH as (rs & ->); eauto. intros y Hy; apply V; right; auto. }
        assert (OP : exists rs, objs (w_p w) (t_items (h_P hd)) = Some rs).
        { assert (V := items_valid_P _ _ _ I Hh). revert V. generalize (t_items (h_P hd)). induction l as [|a l IH]; intro V; simpl; eauto.
          destruct (nth_error_lt _ _ (V a (or_introl eq_refl))) as (o & Ho). rewrite Ho. destruct IH as (rs & ->); eauto. intros y Hy; apply V; right; auto. }
        destruct OR as (rs & ->). destruct OG as (gs & ->). destruct OP as (ps & ->). eauto. }
      destruct EB as (b & ->).
      destruct (decode_binary_good parse_time parse_uri w b I) as (w' & c & R & I' & X' & L'). rewrite R.
      destruct (c =? 0).
      + simpl. split; [exact I'|]. apply expose_hdr_ok; auto. eapply EnvOK_ext; eauto.
      + fin I' X' EO.
    - (* OUnmarshal *)
      destruct (norm h (e_h e)) as [x|] eqn:N; [|skp I EO].
      destruct (unmarshal_text_good parse_time parse_uri w x t I (E1 _ (norm_In _ _ _ N))) as (w' & c & R & I' & X'). rewrite R.
      simpl. split; [exact I'|]. apply expose_ok; auto. eapply EnvOK_ext; eauto.
    - (* OMerge *)
      destruct (norm_all hs (e_h e)) as [[|x [|y rest]]|] eqn:N; try (skp I EO).
      + simpl. split; [exact I|]. repeat split; simpl; auto. intros z Hz. apply in_app_or in Hz. destruct Hz as [Hz|[Hz|[]]]; auto.
        subst. apply E1. eapply norm_all_In; eauto. left; reflexivity.
      + assert (M := merge_headers_inv w x (y :: rest) I).
        assert (Lx : (x < length (w_h w))%nat) by (apply E1; eapply norm_all_In; eauto; left; reflexivity).
        assert (Lr : forall s, In s (y :: rest) -> (s < length (w_h w))%nat) by (intros s Hs; apply E1; eapply norm_all_In; eauto; right; exact Hs).
        specialize (M Lx Lr). destruct (merge_headers w x (y :: rest)) as [[[w' c] links]|c|n|]; try contradiction; [|reflexivity].
        destruct M as (I' & X' & L'). destruct (c =? 0).
        * simpl. split; [exact I'|]. apply expose_hdr_ok; auto. eapply EnvOK_ext; eauto.
        * fin I' X' EO.
  Qed.

  (** a history: the operations are applied one after the other (error results included) *)
  Fixpoint c07_exec (w : world) (e : env) (ops : list c07op) : outcome (world * env) :=
    match ops with
    | [] => Ok (w, e)
    | op :: t =>
      match c07_step parse_time parse_uri w e op with
      | Ok (w', e', _, _) => c07_exec w' e' t
      | Err c => Err c | Panic n => Panic n | Stuck => Stuck
      end
    end.

  Lemma c07_exec_inv : forall ops w e, WInv w -> EnvOK w e ->
    match c07_exec w e ops with
    | Ok (w', e') => WInv w' /\ EnvOK w' e'
    | Panic _ => exists op, In op ops /\ is_merge op = true
    | _ => False
    end.
  Proof.
    induction ops as [|op t IH]; intros w e I EO; simpl; [auto|].
    assert (S := c07_step_inv w e op I EO).
    destruct (c07_step parse_time parse_uri w e op) as [[[[w' e'] c] l]|c|n|]; try contradiction.
    - destruct S as (I' & EO'). specialize (IH w' e' I' EO').
      destruct (c07_exec w' e' t) as [[w2 e2]|c2|n2|]; auto. destruct IH as (op' & Hin & Hm). exists op'. split; [right|]; auto.
    - exists op. split; [left|]; auto.
  Qed.
End Step.

Lemma WInv_world0 : WInv world0.
Proof.
  assert (K : forall P, @KInv P [] []).
  { intro P. split. intros h0 t0 H0; destruct h0; discriminate. intros r0 o0 h0 H0; destruct r0; discriminate. }
  unfold WInv, world0; simpl. auto.
Qed.
Lemma EnvOK_0 : EnvOK world0 env0.
Proof. repeat split; intros x []. Qed.

(** every history from the empty world *)
Lemma header_inv_all_histories : forall parse_time parse_uri ops,
  match c07_exec parse_time parse_uri world0 env0 ops with
  | Ok (w, e) => WInv w
  | Panic _ => exists op, In op ops /\ is_merge op = true
  | _ => False
  end.
Proof.
  intros pt pu ops. assert (H := c07_exec_inv pt pu ops world0 env0 WInv_world0 EnvOK_0).
  destruct (c07_exec pt pu world0 env0 ops) as [[w e]|c|n|]; auto. destruct H; auto.
Qed.

(** what WInv says, spelled out for one kind of item *)
Definition HInvK {P} (h : nat) (st : list (obj P)) (t : tbl) : Prop :=
  (forall i r, nth_error (t_items t) i = Some r ->
     exists o, nth_error st r = Some o /\ o_owner o = Some h /\ o_id o = Z.of_nat i) /\
  (forall i j r r' o o', nth_error (t_items t) i = Some r -> nth_error (t_items t) j = Some r' ->
     nth_error st r = Some o -> nth_error st r' = Some o' -> o_name o = o_name o' -> i = j) /\
  (forall k v, mget k (t_seen t) = Some v <->
     exists i r o, nth_error (t_items t) i = Some r /\ nth_error st r = Some o /\ o_name o = k /\ v = Z.of_nat i).

Lemma TInv_HInvK : forall {P} h (st : list (obj P)) t, TInv h st t -> HInvK h st t.
Proof.
  intros P h st t I. split; [apply (ti_obj _ _ _ I)|]. split; [|apply (ti_seen _ _ _ I)].
  intros i j r r' o o' Hi Hj Ho Ho' E. eapply TInv_uniq; eauto.
Qed.

Lemma WInv_meaning : forall w, WInv w ->
  (forall h hd, nth_error (w_h w) h = Some hd ->
     HInvK h (w_r w) (h_R hd) /\ HInvK h (w_g w) (h_G hd) /\ HInvK h (w_p w) (h_P hd)) /\
  (forall r o h, nth_error (w_r w) r = Some o -> o_owner o = Some h ->
     exists hd, nth_error (w_h w) h = Some hd /\ nth_error (t_items (h_R hd)) (Z.to_nat (o_id o)) = Some r) /\
  (forall r o h, nth_error (w_g w) r = Some o -> o_owner o = Some h ->
     exists hd, nth_error (w_h w) h = Some hd /\ nth_error (t_items (h_G hd)) (Z.to_nat (o_id o)) = Some r) /\
  (forall r o h, nth_error (w_p w) r = Some o -> o_owner o = Some h ->
     exists hd, nth_error (w_h w) h = Some hd /\ nth_error (t_items (h_P hd)) (Z.to_nat (o_id o)) = Some r).
Proof.
  intros w (KR & KG & KP). split; [|split; [|split]].
  - intros h hd Hh. split; [|split]; apply TInv_HInvK.
    + apply (proj1 KR). rewrite nth_error_map, Hh; reflexivity.
    + apply (proj1 KG). rewrite nth_error_map, Hh; reflexivity.
    + apply (proj1 KP). rewrite nth_error_map, Hh; reflexivity.
  - intros r o h Ho Hw. destruct (proj2 KR _ _ _ Ho Hw) as (t & Ht & Hl & _). rewrite nth_error_map in Ht.
    destruct (nth_error (w_h w) h) as [hd|]; [|discriminate]. inversion Ht; subst. eauto.
  - intros r o h Ho Hw. destruct (proj2 KG _ _ _ Ho Hw) as (t & Ht & Hl & _). rewrite nth_error_map in Ht.
    destruct (nth_error (w_h w) h) as [hd|]; [|discriminate]. inversion Ht; subst. eauto.
  - intros r o h Ho Hw. destruct (proj2 KP _ _ _ Ho Hw) as (t & Ht & Hl & _). rewrite nth_error_map in Ht.
    destruct (nth_error (w_h w) h) as [hd|]; [|discriminate]. inversion Ht; subst. eauto.
Qed.
