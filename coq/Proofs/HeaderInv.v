(** C07 — the identity invariant for one kind of item (references, read
    groups or programs) and its preservation by the generic operations. *)
From Coq Require Import ZArith List Bool Lia.
From Hts Require Import Base.Prim Model.Header Proofs.HeaderBase.
Import ListNotations.
Open Scope Z_scope.
Arguments mset : simpl never.
Arguments mget : simpl never.

Section GenInv.
  Context {P : Type}.
  Notation store := (list (obj P)).

  (** the table [t] of header [h]: every listed handle names an object owned by
      [h] whose id is its index, and the name table maps exactly the names of
      the listed objects to their indices (so names are pairwise distinct) *)
  Record TInv (h : nat) (st : store) (t : tbl) : Prop := mkTInv {
    ti_obj : forall i r, nth_error (t_items t) i = Some r ->
             exists o, nth_error st r = Some o /\ o_owner o = Some h /\ o_id o = Z.of_nat i;
    ti_seen : forall k v, mget k (t_seen t) = Some v <->
             exists i r o, nth_error (t_items t) i = Some r /\ nth_error st r = Some o /\ o_name o = k /\ v = Z.of_nat i }.

  (** every object that has an owner is listed by that owner at its id *)
  Definition OInv (tbls : list tbl) (st : store) : Prop :=
    forall r o h, nth_error st r = Some o -> o_owner o = Some h ->
      exists t, nth_error tbls h = Some t /\ nth_error (t_items t) (Z.to_nat (o_id o)) = Some r /\ 0 <= o_id o.

  Definition KInv (tbls : list tbl) (st : store) : Prop :=
    (forall h t, nth_error tbls h = Some t -> TInv h st t) /\ OInv tbls st.

  Lemma TInv_uniq : forall h st t a b x y ox oy,
    TInv h st t -> nth_error (t_items t) a = Some x -> nth_error (t_items t) b = Some y ->
    nth_error st x = Some ox -> nth_error st y = Some oy -> o_name ox = o_name oy -> a = b.
  Proof.
    intros h st t a b x y ox oy I Ha Hb Hx Hy E.
    assert (A : mget (o_name ox) (t_seen t) = Some (Z.of_nat a)) by (apply (ti_seen _ _ _ I); eauto 8).
    assert (B : mget (o_name ox) (t_seen t) = Some (Z.of_nat b)) by (apply (ti_seen _ _ _ I); exists b, y, oy; auto).
    rewrite A in B. inversion B. lia.
  Qed.

  Lemma TInv_inj : forall h st t a b x, TInv h st t ->
    nth_error (t_items t) a = Some x -> nth_error (t_items t) b = Some x -> a = b.
  Proof.
    intros h st t a b x I Ha Hb.
    destruct (ti_obj _ _ _ I _ _ Ha) as (o & Ho & _ & Ia).
    destruct (ti_obj _ _ _ I _ _ Hb) as (o' & Ho' & _ & Ib).
    rewrite Ho in Ho'. inversion Ho'; subst. lia.
  Qed.

  Lemma TInv_NoDup : forall h st t, TInv h st t -> NoDup (t_items t).
  Proof.
    intros. apply NoDup_nth_error. intros i j Hi E.
    destruct (nth_error (t_items t) i) eqn:Ei.
    - symmetry in E. eapply TInv_inj; eauto.
    - apply nth_error_None in Ei. lia.
  Qed.

  (** frame: a table only depends on the objects its header owns *)
  Lemma TInv_frame : forall h st st' t, TInv h st t ->
    (forall r o, nth_error st r = Some o -> o_owner o = Some h -> nth_error st' r = Some o) ->
    TInv h st' t.
  Proof.
    intros h st st' t I F. split.
    - intros i r Hi. destruct (ti_obj _ _ _ I _ _ Hi) as (o & Ho & Hw & Hid). exists o. auto.
    - intros k v. rewrite (ti_seen _ _ _ I). split; intros (i & r & o & Hi & Ho & Hn & Hv).
      + exists i, r, o. destruct (ti_obj _ _ _ I _ _ Hi) as (o' & Ho' & Hw & _).
        rewrite Ho in Ho'. inversion Ho'; subst o'. auto.
      + destruct (ti_obj _ _ _ I _ _ Hi) as (o' & Ho' & Hw & _).
        rewrite (F _ _ Ho' Hw) in Ho. inversion Ho; subst o'. exists i, r, o. auto.
  Qed.

  (** the workhorse: header [h] gets table [t'], only objects that were
      unowned or owned by [h] change *)
  Lemma KInv_update : forall tbls st st' h t t',
    KInv tbls st -> nth_error tbls h = Some t ->
    TInv h st' t' ->
    (forall r o h', nth_error st r = Some o -> o_owner o = Some h' -> h' <> h -> nth_error st' r = Some o) ->
    (forall r o' h0, nth_error st' r = Some o' -> o_owner o' = Some h0 ->
       (h0 = h /\ nth_error (t_items t') (Z.to_nat (o_id o')) = Some r /\ 0 <= o_id o') \/ (h0 <> h /\ nth_error st r = Some o')) ->
    KInv (upd tbls h t') st'.
  Proof.
    intros tbls st st' h t t' [KT KO] Ht I' F N. split.
    - intros h' t'' H'. apply nth_error_upd in H'. destruct H' as [[E1 E2]|[NE H']].
      + subst. exact I'.
      + eapply TInv_frame. apply KT; eassumption. intros r o Ho Hw. eapply F; eauto.
    - intros r o' h0 Ho Hw. destruct (N _ _ _ Ho Hw) as [(E & Hl & Hp)|(NE & Hold)].
      + subst h0. exists t'. split; auto. apply nth_error_upd_eq. apply nth_error_Some. congruence.
      + destruct (KO _ _ _ Hold Hw) as (t0 & Ht0 & Hl & Hp). exists t0. split; auto.
        rewrite nth_error_upd_ne by auto. exact Ht0.
  Qed.

  (** a new header with table [t'] is appended *)
  Lemma KInv_app_tbl : forall tbls st st' t',
    KInv tbls st ->
    TInv (length tbls) st' t' ->
    (forall r o h', nth_error st r = Some o -> o_owner o = Some h' -> nth_error st' r = Some o) ->
    (forall r o' h0, nth_error st' r = Some o' -> o_owner o' = Some h0 ->
       (h0 = length tbls /\ nth_error (t_items t') (Z.to_nat (o_id o')) = Some r /\ 0 <= o_id o') \/ (nth_error st r = Some o')) ->
    KInv (tbls ++ [t']) st'.
  Proof.
    intros tbls st st' t' [KT KO] I' F N. split.
    - intros h t H. apply nth_error_app_inv in H. destruct H as [[L H]|[E1 E2]].
      + eapply TInv_frame. apply KT; eassumption. intros; eapply F; eauto.
      + subst. exact I'.
    - intros r o' h0 Ho Hw. destruct (N _ _ _ Ho Hw) as [(E & Hl & Hp)|Hold].
      + subst h0. exists t'. split; auto. apply nth_error_app_last.
      + destruct (KO _ _ _ Hold Hw) as (t0 & Ht0 & Hl & Hp). exists t0. split; auto.
        rewrite nth_error_app1; auto. apply nth_error_Some. congruence.
  Qed.

  (** allocation of an unowned object *)
  Lemma KInv_alloc : forall tbls st o, KInv tbls st -> o_owner o = None -> KInv tbls (st ++ [o]).
  Proof.
    intros tbls st o [KT KO] Hn. split.
    - intros h t H. eapply TInv_frame. apply KT; eassumption.
      intros r o' Ho _. rewrite nth_error_app1; auto. apply nth_error_Some. congruence.
    - intros r o' h0 Ho Hw. apply nth_error_app_inv in Ho. destruct Ho as [[L Ho]|[E1 E2]].
      + eapply KO; eauto.
      + subst. congruence.
  Qed.

  (** an unowned object changes (name, payload, id) *)
  Lemma KInv_unowned_upd : forall tbls st r o o', KInv tbls st ->
    nth_error st r = Some o -> o_owner o = None -> o_owner o' = None -> KInv tbls (upd st r o').
  Proof.
    intros tbls st r o o' [KT KO] Hr Hn Hn'. split.
    - intros h t H. eapply TInv_frame. apply KT; eassumption.
      intros r0 o0 Ho Hw. rewrite nth_error_upd_ne; auto. intro; subst. congruence.
    - intros r0 o0 h0 Ho Hw. apply nth_error_upd in Ho. destruct Ho as [[E1 E2]|[NE Ho]].
      + subst. congruence.
      + eapply KO; eauto.
  Qed.

  (** *** add_fresh *)
  Lemma TInv_add_fresh : forall h st t r o,
    TInv h st t -> nth_error st r = Some o -> o_owner o = None ->
    mget (o_name o) (t_seen t) = None ->
    TInv h (upd st r (with_ident o (Some h) (zlen (t_items t))))
         (mkTbl (t_items t ++ [r]) (mset (o_name o) (zlen (t_items t)) (t_seen t))).
  Proof.
    intros h st t r o I Hr Hn Hs.
    assert (Lr : (r < length st)%nat) by (apply nth_error_Some; congruence).
    assert (NL : forall i x, nth_error (t_items t) i = Some x -> x <> r).
    { intros i x Hi E. subst x. destruct (ti_obj _ _ _ I _ _ Hi) as (o' & Ho' & Hw & _). congruence. }
    split; simpl.
    - intros i x Hi. apply nth_error_app_inv in Hi. destruct Hi as [[L Hi]|[E1 E2]].
      + destruct (ti_obj _ _ _ I _ _ Hi) as (o' & Ho' & Hw & Hid). exists o'.
        rewrite nth_error_upd_ne by (intro; subst; eapply NL; eauto). auto.
      + subst. rewrite nth_error_upd_eq by assumption. eexists; split; [reflexivity|]. simpl. unfold zlen. auto.
    - intros k v. destruct (str_eq_dec k (o_name o)) as [E|NE].
      + subst k. rewrite mget_mset_eq. split.
        * intro H; inversion H; subst v. exists (length (t_items t)), r, (with_ident o (Some h) (zlen (t_items t))).
          rewrite nth_error_app_last, nth_error_upd_eq by assumption. auto.
        * intros (i & x & ox & Hi & Hx & Hnm & Hv). apply nth_error_app_inv in Hi. destruct Hi as [[L Hi]|[E1 E2]].
          -- exfalso. rewrite nth_error_upd_ne in Hx by (intro; subst; eapply NL; eauto).
             assert (mget (o_name o) (t_seen t) = Some (Z.of_nat i)) by (apply (ti_seen _ _ _ I); eauto 8). congruence.
          -- subst. reflexivity.
      + rewrite mget_mset_ne by assumption. rewrite (ti_seen _ _ _ I). split; intros (i & x & ox & Hi & Hx & Hnm & Hv).
        * exists i, x, ox. rewrite nth_error_app1 by (apply nth_error_Some; congruence).
          rewrite nth_error_upd_ne by (intro; subst; eapply NL; eauto). auto.
        * apply nth_error_app_inv in Hi. destruct Hi as [[L Hi]|[E1 E2]].
          -- rewrite nth_error_upd_ne in Hx by (intro; subst; eapply NL; eauto). eauto 8.
          -- subst i x. rewrite nth_error_upd_eq in Hx by assumption. inversion Hx; subst ox. simpl in Hnm. congruence.
  Qed.

  Lemma KInv_add_fresh : forall eused tbls st h t r o st' t' e,
    KInv tbls st -> nth_error tbls h = Some t -> nth_error st r = Some o ->
    mget (o_name o) (t_seen t) = None ->
    add_fresh eused h st t r o = (st', t', e) ->
    KInv (upd tbls h t') st'.
  Proof.
    intros eused tbls st h t r o st' t' e K Ht Hr Hs A. unfold add_fresh in A.
    destruct (owned o || (0 <=? o_id o)) eqn:G.
    - inversion A; subst. rewrite upd_same by assumption. exact K.
    - inversion A; subst; clear A. apply orb_false_iff in G. destruct G as [G1 G2].
      assert (Hn : o_owner o = None) by (unfold owned in G1; destruct (o_owner o); congruence).
      assert (Lr : (r < length st)%nat) by (apply nth_error_Some; congruence).
      eapply KInv_update; eauto.
      + apply TInv_add_fresh; auto. apply (proj1 K); assumption.
      + intros r0 o0 h' Ho Hw NE. rewrite nth_error_upd_ne; auto. intro; subst. congruence.
      + intros r0 o0 h0 Ho Hw. apply nth_error_upd in Ho. destruct Ho as [[E1 E2]|[NE Ho]].
        * subst. simpl in Hw. inversion Hw; subst. left. simpl. unfold zlen. rewrite Nat2Z.id.
          rewrite nth_error_app_last. repeat split; auto. lia.
        * destruct (Nat.eq_dec h0 h) as [E|NE2]; [|right; auto].
          subst h0. left. destruct (proj2 K _ _ _ Ho Hw) as (t0 & Ht0 & Hl & Hp).
          rewrite Ht in Ht0. inversion Ht0; subst t0. simpl. repeat split; auto.
          rewrite nth_error_app1; auto. apply nth_error_Some. congruence.
  Qed.

  (** *** SetName on an owned object *)
  Lemma KInv_setname : forall tbls st h t r o n t',
    KInv tbls st -> nth_error tbls h = Some t -> nth_error st r = Some o -> o_owner o = Some h ->
    mget n (t_seen t) = None ->
    t' = mkTbl (t_items t) (mset n (o_id o) (mdel (o_name o) (t_seen t))) ->
    KInv (upd tbls h t') (upd st r (with_name o n)).
  Proof.
    intros tbls st h t r o n t' K Ht Hr Hw Hs ->.
    assert (I := proj1 K _ _ Ht).
    destruct (proj2 K _ _ _ Hr Hw) as (t0 & Ht0 & Hl & Hp). rewrite Ht in Ht0. inversion Ht0; subst t0; clear Ht0.
    assert (Lr : (r < length st)%nat) by (apply nth_error_Some; congruence).
    set (ir := Z.to_nat (o_id o)) in *.
    assert (Hid : o_id o = Z.of_nat ir) by (unfold ir; lia).
    eapply KInv_update; eauto.
    - split; simpl.
      + intros i x Hi. destruct (ti_obj _ _ _ I _ _ Hi) as (ox & Hx & Hwx & Hix).
        destruct (Nat.eq_dec x r).
        * subst x. rewrite Hr in Hx. inversion Hx; subst ox. rewrite nth_error_upd_eq by assumption.
          eexists; split; [reflexivity|]. simpl. auto.
        * exists ox. rewrite nth_error_upd_ne by auto. auto.
      + intros k v. destruct (str_eq_dec k n) as [E|NE].
        * subst k. rewrite mget_mset_eq. split.
          -- intro H; inversion H; subst v. exists ir, r, (with_name o n). rewrite nth_error_upd_eq by assumption. auto.
          -- intros (i & x & ox & Hi & Hx & Hnm & Hv). apply nth_error_upd in Hx. destruct Hx as [[E1 E2]|[NE Hx]].
             ++ subst x. assert (i = ir) by (eapply TInv_inj; eauto). subst. congruence.
             ++ exfalso. assert (mget n (t_seen t) = Some (Z.of_nat i)) by (apply (ti_seen _ _ _ I); eauto 8). congruence.
        * rewrite mget_mset_ne by assumption.
          destruct (str_eq_dec k (o_name o)) as [E2|NE2].
          -- subst k. rewrite mget_mdel_eq. split; [discriminate|].
             intros (i & x & ox & Hi & Hx & Hnm & Hv). exfalso. apply nth_error_upd in Hx. destruct Hx as [[E1 E3]|[NE3 Hx]].
             ++ subst. simpl in Hnm. congruence.
             ++ assert (i = ir) by (eapply (TInv_uniq h st t i ir x r ox o); eauto). subst i.
                rewrite Hl in Hi. inversion Hi. congruence.
          -- rewrite mget_mdel_ne by assumption. rewrite (ti_seen _ _ _ I). split; intros (i & x & ox & Hi & Hx & Hnm & Hv).
             ++ exists i, x, ox. rewrite nth_error_upd_ne; auto. intro; subst x. rewrite Hr in Hx. inversion Hx; subst. congruence.
             ++ apply nth_error_upd in Hx. destruct Hx as [[E1 E3]|[NE3 Hx]].
                ** subst x ox. simpl in Hnm. congruence.
                ** eauto 8.
    - intros r0 o0 h' Ho Hw0 NE. rewrite nth_error_upd_ne; auto. intro; subst. rewrite Hr in Ho. inversion Ho; subst. congruence.
    - intros r0 o0 h0 Ho Hw0. apply nth_error_upd in Ho. destruct Ho as [[E1 E2]|[NE Ho]].
      + subst. simpl in Hw0. left. simpl. rewrite Hw in Hw0. inversion Hw0. auto.
      + destruct (Nat.eq_dec h0 h) as [E|NE2]; [|right; auto].
        subst h0. left. destruct (proj2 K _ _ _ Ho Hw0) as (t0 & Ht0 & Hl0 & Hp0).
        rewrite Ht in Ht0. inversion Ht0; subst t0. simpl. auto.
  Qed.

  (** *** replacement of a listed object by an unowned one of the same name *)
  Lemma KInv_install_over : forall tbls st h t d r o erh er st' t',
    KInv tbls st -> nth_error tbls h = Some t ->
    nth_error st r = Some o -> o_owner o = None ->
    nth_error (t_items t) d = Some erh -> nth_error st erh = Some er ->
    forall o1, o_name o1 = o_name er ->
    (upd (upd st r (with_ident o1 (Some h) (Z.of_nat d))) erh (with_ident er None (-1)),
     mkTbl (upd (t_items t) d r) (t_seen t)) = (st', t') ->
    KInv (upd tbls h t') st'.
  Proof.
    intros tbls st h t d r o erh er st' t' K Ht Hr Hn Hi He o1 Hnm E.
    inversion E; subst st' t'; clear E.
    assert (I := proj1 K _ _ Ht).
    destruct (ti_obj _ _ _ I _ _ Hi) as (er' & He' & Hwe & Hide). rewrite He in He'. inversion He'; subst er'; clear He'.
    assert (NE : r <> erh) by (intro; subst; congruence).
    assert (Lr : (r < length st)%nat) by (apply nth_error_Some; congruence).
    assert (Le : (erh < length st)%nat) by (apply nth_error_Some; congruence).
    assert (Ld : (d < length (t_items t))%nat) by (apply nth_error_Some; congruence).
    assert (NL : forall i x, nth_error (t_items t) i = Some x -> x <> r).
    { intros i x Hx E. subst x. destruct (ti_obj _ _ _ I _ _ Hx) as (o' & Ho' & Hw & _). congruence. }
    eapply KInv_update; eauto.
    - split; simpl.
      + intros i x Hx. apply nth_error_upd in Hx. destruct Hx as [[E1 E2]|[NE1 Hx]].
        * subst. rewrite nth_error_upd_ne by auto. rewrite nth_error_upd_eq by assumption.
          eexists; split; [reflexivity|]. simpl. auto.
        * destruct (ti_obj _ _ _ I _ _ Hx) as (ox & Hox & Hwx & Hix). exists ox.
          rewrite nth_error_upd_ne by (intro; subst; apply NE1; eapply TInv_inj; eauto).
          rewrite nth_error_upd_ne by (intro; subst; eapply NL; eauto). auto.
      + intros k v. rewrite (ti_seen _ _ _ I). split; intros (i & x & ox & Hx & Hox & Hk & Hv).
        * destruct (Nat.eq_dec i d).
          -- subst i. rewrite Hi in Hx. inversion Hx; subst x. rewrite He in Hox. inversion Hox; subst ox.
             exists d, r, (with_ident o1 (Some h) (Z.of_nat d)). rewrite nth_error_upd_eq by assumption.
             rewrite nth_error_upd_ne by auto. rewrite nth_error_upd_eq by assumption. simpl. repeat split; auto. congruence.
          -- exists i, x, ox. rewrite nth_error_upd_ne by auto.
             rewrite nth_error_upd_ne by (intro; subst; apply n; eapply TInv_inj; eauto).
             rewrite nth_error_upd_ne by (intro; subst; eapply NL; eauto). auto.
        * apply nth_error_upd in Hx. destruct Hx as [[E1 E2]|[NE1 Hx]].
          -- subst i x. rewrite nth_error_upd_ne in Hox by auto. rewrite nth_error_upd_eq in Hox by assumption.
             inversion Hox; subst ox. simpl in Hk. exists d, erh, er. repeat split; auto. congruence.
          -- rewrite nth_error_upd_ne in Hox by (intro; subst; apply NE1; eapply TInv_inj; eauto).
             rewrite nth_error_upd_ne in Hox by (intro; subst; eapply NL; eauto). eauto 8.
    - intros r0 o0 h' Ho Hw NE0.
      rewrite nth_error_upd_ne by (intro; subst; rewrite He in Ho; inversion Ho; subst; congruence).
      rewrite nth_error_upd_ne by (intro; subst; congruence). assumption.
    - intros r0 o0 h0 Ho Hw. apply nth_error_upd in Ho. destruct Ho as [[E1 E2]|[NE1 Ho]].
      + subst. simpl in Hw. discriminate.
      + apply nth_error_upd in Ho. destruct Ho as [[E1 E2]|[NE2 Ho]].
        * subst. simpl in Hw. inversion Hw; subst h0. left. simpl. rewrite Nat2Z.id. rewrite nth_error_upd_eq by assumption. repeat split; auto. lia.
        * destruct (Nat.eq_dec h0 h) as [E|NE3]; [|right; auto].
          subst h0. left. destruct (proj2 K _ _ _ Ho Hw) as (t0 & Ht0 & Hl0 & Hp0).
          rewrite Ht in Ht0. inversion Ht0; subst t0. simpl. split; auto. split; auto.
          rewrite nth_error_upd_ne; auto. intro E. rewrite <- E in Hl0. rewrite Hi in Hl0. congruence.
  Qed.
End GenInv.
