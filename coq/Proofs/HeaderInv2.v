(** C07 — identity invariant, continued: Remove*, Header.Clone, NewHeader. *)
From Coq Require Import ZArith List Bool Lia.
From Hts Require Import Base.Prim Model.Header Proofs.HeaderBase Proofs.HeaderInv.
Import ListNotations.
Open Scope Z_scope.
Arguments mset : simpl never.
Arguments mget : simpl never.

Lemma nth_error_skipn : forall {A} (l : list A) n k, nth_error (skipn n l) k = nth_error l (n + k).
Proof. induction l; destruct n; simpl; intros; auto. destruct k; reflexivity. Qed.

Lemma nth_error_firstn_lt : forall {A} (l : list A) i j, (j < i)%nat -> nth_error (firstn i l) j = nth_error l j.
Proof. induction l; destruct i, j; simpl; intros; try lia; auto. apply IHl. lia. Qed.

Lemma nth_error_cut : forall {A} (l : list A) i j,
  nth_error (firstn i l ++ skipn (S i) l) j = if (j <? i)%nat then nth_error l j else nth_error l (S j).
Proof.
  intros A l i j. destruct (j <? i)%nat eqn:E.
  - apply Nat.ltb_lt in E. destruct (Nat.lt_ge_cases i (length l)).
    + rewrite nth_error_app1 by (rewrite firstn_length; lia). apply nth_error_firstn_lt; lia.
    + rewrite firstn_all2 by lia. rewrite skipn_all2 by lia. rewrite app_nil_r. reflexivity.
  - apply Nat.ltb_ge in E. destruct (Nat.lt_ge_cases i (length l)).
    + rewrite nth_error_app2 by (rewrite firstn_length; lia). rewrite firstn_length.
      rewrite nth_error_skipn. f_equal. lia.
    + rewrite firstn_all2 by lia. rewrite skipn_all2 by lia. rewrite app_nil_r.
      transitivity (@None A); [|symmetry]; apply nth_error_None; lia.
Qed.

Lemma skipn_cut : forall {A} (l : list A) i, (i <= length l)%nat ->
  skipn i (firstn i l ++ skipn (S i) l) = skipn (S i) l.
Proof.
  intros. rewrite skipn_app. rewrite firstn_length. replace (i - Nat.min i (length l))%nat with 0%nat by lia.
  rewrite skipn_all2 by (rewrite firstn_length; lia). reflexivity.
Qed.

Section GenInv2.
  Context {P : Type}.
  Notation store := (list (obj P)).

  Lemma shift_ids_spec : forall (l : list nat) (st : store) (seen : smap),
    NoDup l ->
    (forall x, In x l -> exists o, nth_error st x = Some o) ->
    (forall x y ox oy, In x l -> In y l -> nth_error st x = Some ox -> nth_error st y = Some oy -> o_name ox = o_name oy -> x = y) ->
    exists st2 seen2, shift_ids st seen l = Ok (st2, seen2) /\
      length st2 = length st /\
      (forall x, ~ In x l -> nth_error st2 x = nth_error st x) /\
      (forall x o, In x l -> nth_error st x = Some o -> nth_error st2 x = Some (with_ident o (o_owner o) (o_id o - 1))) /\
      (forall k, (forall x o, In x l -> nth_error st x = Some o -> o_name o <> k) -> mget k seen2 = mget k seen) /\
      (forall x o, In x l -> nth_error st x = Some o -> mget (o_name o) seen2 = Some (o_id o - 1)).
  Proof.
    induction l as [|r l IH]; intros st seen ND EX UN.
    - exists st, seen. simpl. repeat split; auto; intros; contradiction.
    - simpl. destruct (EX r (or_introl eq_refl)) as (o & Ho). rewrite Ho.
      inversion ND as [|? ? Hnin ND']; subst.
      set (st1 := upd st r (with_ident o (o_owner o) (o_id o - 1))).
      assert (S1 : forall x, x <> r -> nth_error st1 x = nth_error st x) by (intros; unfold st1; apply nth_error_upd_ne; auto).
      assert (Lr : (r < length st)%nat) by (apply nth_error_Some; congruence).
      destruct (IH st1 (mset (o_name o) (o_id o - 1) seen) ND') as (st2 & seen2 & R & L2 & U2 & M2 & K2 & N2).
      { intros x Hx. rewrite S1 by (intro; subst; contradiction). apply EX. right; assumption. }
      { intros x y ox oy Hx Hy. rewrite !S1 by (intro; subst; contradiction). apply UN; right; assumption. }
      exists st2, seen2. split; [exact R|]. split; [unfold st1 in L2; rewrite upd_length in L2; exact L2|].
      split; [|split; [|split]].
      + intros x Hx. rewrite U2 by (intro; apply Hx; right; assumption). apply S1. intro; subst. apply Hx. left; reflexivity.
      + intros x ox [E|Hx] Hox.
        * subst x. rewrite Ho in Hox. inversion Hox; subst ox. rewrite U2 by assumption. unfold st1. apply nth_error_upd_eq. assumption.
        * apply M2; auto. rewrite S1; auto. intro; subst; contradiction.
      + intros k Hk. rewrite K2.
        * apply mget_mset_ne. intro E. eapply Hk; [left; reflexivity|exact Ho|]. auto.
        * intros x ox Hx Hox. rewrite S1 in Hox by (intro; subst; contradiction). apply (Hk x ox); [right; assumption | assumption].
      + intros x ox [E|Hx] Hox.
        * subst x. rewrite Ho in Hox. inversion Hox; subst ox. rewrite K2. apply mget_mset_eq.
          intros y oy Hy Hoy E. rewrite S1 in Hoy by (intro; subst; contradiction).
          assert (y = r) by (apply (UN y r oy o); auto; [right; assumption|left; reflexivity]). subst. contradiction.
        * apply (N2 x ox); auto. rewrite S1; auto. intro; subst; contradiction.
  Qed.

  Lemma KInv_remove : forall einv tbls (st : store) h t r,
    KInv tbls st -> nth_error tbls h = Some t -> (r < length st)%nat ->
    exists st' t' e, remove_gen einv st t r = Ok (st', t', e) /\ KInv (upd tbls h t') st'.
  Proof.
    intros einv tbls st h t r K Ht Lr. unfold remove_gen.
    destruct (nth_error st r) as [o|] eqn:Hr; [|apply nth_error_None in Hr; lia].
    destruct (listed_at (t_items t) (o_id o) r) eqn:LA; cbn [negb].
    2:{ exists st, t, einv. split; auto. rewrite upd_same by assumption. exact K. }
    unfold listed_at in LA. destruct (idx (t_items t) (o_id o)) as [r'|] eqn:Hidx; [|discriminate].
    apply Nat.eqb_eq in LA. subst r'. apply idx_Some in Hidx. destruct Hidx as [Hp Hi].
    assert (I := proj1 K _ _ Ht).
    remember (Z.to_nat (o_id o)) as i eqn:Ei.
    destruct (ti_obj _ _ _ I _ _ Hi) as (o' & Ho' & Hw & Hid). rewrite Hr in Ho'. inversion Ho'; subst o'; clear Ho'.
    assert (Li : (i < length (t_items t))%nat) by (apply nth_error_Some; congruence).
    clear Ei.
    rewrite skipn_cut by lia.
    set (post := skipn (S i) (t_items t)).
    assert (InPost : forall x, In x post <-> exists j, (i < j)%nat /\ nth_error (t_items t) j = Some x).
    { intro x. split.
      - intro H. apply In_nth_error in H. destruct H as (k & Hk). unfold post in Hk. rewrite nth_error_skipn in Hk.
        exists (S i + k)%nat. split; [lia|exact Hk].
      - intros (j & Lj & Hj). apply nth_error_In with (n := (j - S i)%nat). unfold post. rewrite nth_error_skipn.
        replace (S i + (j - S i))%nat with j by lia. exact Hj. }
    assert (NDp : NoDup post).
    { apply NoDup_nth_error. intros a b La E. unfold post in *. rewrite !nth_error_skipn in E.
      destruct (nth_error (t_items t) (S i + a)) eqn:Ea.
      - symmetry in E. assert (S i + a = S i + b)%nat by (eapply TInv_inj; eauto). lia.
      - exfalso. apply nth_error_None in Ea. rewrite skipn_length in La. lia. }
    assert (Rnp : ~ In r post).
    { intro H. apply InPost in H. destruct H as (j & Lj & Hj). assert (j = i) by (eapply TInv_inj; eauto). lia. }
    destruct (shift_ids_spec post st (mdel (o_name o) (t_seen t)) NDp) as (st2 & seen2 & R & L2 & U2 & M2 & K2 & N2).
    { intros x Hx. apply InPost in Hx. destruct Hx as (j & _ & Hj). destruct (ti_obj _ _ _ I _ _ Hj) as (ox & Hox & _). eauto. }
    { intros x y ox oy Hx Hy Hox Hoy E. apply InPost in Hx. apply InPost in Hy. destruct Hx as (a & _ & Ha). destruct Hy as (b & _ & Hb).
      assert (a = b) by (eapply TInv_uniq; eauto). subst. congruence. }
    rewrite R. rewrite U2 by assumption. rewrite Hr.
    eexists _, _, 0. split; [reflexivity|].
    assert (Lr2 : (r < length st2)%nat) by lia.
    (* the objects after the removal *)
    assert (Pre : forall j x, (j < i)%nat -> nth_error (t_items t) j = Some x ->
              exists ox, nth_error st x = Some ox /\ nth_error (upd st2 r (with_ident o None (-1))) x = Some ox /\ o_owner ox = Some h /\ o_id ox = Z.of_nat j).
    { intros j x Lj Hj. destruct (ti_obj _ _ _ I _ _ Hj) as (ox & Hox & Hwx & Hix). exists ox. repeat split; auto.
      rewrite nth_error_upd_ne by (intro; subst; assert (j = i) by (eapply TInv_inj; eauto); lia).
      rewrite U2; auto. intro H. apply InPost in H. destruct H as (j' & Lj' & Hj'). assert (j = j') by (eapply TInv_inj; eauto). lia. }
    assert (Post : forall j x, (i < j)%nat -> nth_error (t_items t) j = Some x ->
              exists ox, nth_error st x = Some ox /\ nth_error (upd st2 r (with_ident o None (-1))) x = Some (with_ident ox (Some h) (Z.of_nat j - 1))
                         /\ o_owner ox = Some h /\ o_id ox = Z.of_nat j).
    { intros j x Lj Hj. destruct (ti_obj _ _ _ I _ _ Hj) as (ox & Hox & Hwx & Hix). exists ox. repeat split; auto.
      rewrite nth_error_upd_ne by (intro; subst; assert (j = i) by (eapply TInv_inj; eauto); lia).
      rewrite (M2 x ox); auto. rewrite Hwx, Hix. reflexivity. apply InPost. eauto. }
    assert (Cut : forall j, nth_error (firstn i (t_items t) ++ post) j = if (j <? i)%nat then nth_error (t_items t) j else nth_error (t_items t) (S j))
      by (intro; apply nth_error_cut).
    eapply KInv_update; eauto.
    - split; cbn [t_items t_seen].
      + intros j x Hj. rewrite Cut in Hj. destruct (j <? i)%nat eqn:E.
        * apply Nat.ltb_lt in E. destruct (Pre _ _ E Hj) as (ox & _ & H2 & H3 & H4). eauto.
        * apply Nat.ltb_ge in E. destruct (Post (S j) x ltac:(lia) Hj) as (ox & _ & H2 & H3 & H4).
          eexists; split; [exact H2|]. cbn [with_ident o_owner o_id]. split; auto. lia.
      + intros k v. split.
        * intro Hm.
          destruct (existsb (fun x => match nth_error st x with Some ox => str_eqb (o_name ox) k | None => false end) post) eqn:EX.
          -- apply existsb_exists in EX. destruct EX as (x & Hx & Hn). destruct (nth_error st x) as [ox|] eqn:Hox; [|discriminate].
             apply str_eqb_eq in Hn. subst k. rewrite (N2 _ _ Hx Hox) in Hm. inversion Hm; subst v.
             apply InPost in Hx. destruct Hx as (j & Lj & Hj). destruct (Post _ _ Lj Hj) as (ox' & H1 & H2 & H3 & H4).
             rewrite Hox in H1. inversion H1; subst ox'.
             exists (j - 1)%nat, x, (with_ident ox (Some h) (Z.of_nat j - 1)). rewrite Cut.
             replace (j - 1 <? i)%nat with false by (symmetry; apply Nat.ltb_ge; lia).
             replace (S (j - 1)) with j by lia. repeat split; auto. lia.
          -- rewrite K2 in Hm.
             2:{ intros x ox Hx Hox E.
                 assert (existsb (fun x => match nth_error st x with Some ox => str_eqb (o_name ox) k | None => false end) post = true); [|congruence].
                 apply existsb_exists. exists x. split; auto. rewrite Hox. apply str_eqb_eq. exact E. }
             destruct (str_eq_dec k (o_name o)) as [E|NE]; [subst k; rewrite mget_mdel_eq in Hm; discriminate|].
             rewrite mget_mdel_ne in Hm by assumption. apply (ti_seen _ _ _ I) in Hm. destruct Hm as (j & x & ox & Hj & Hox & Hk & Hv).
             assert (Lj : (j < i)%nat).
             { destruct (Nat.lt_total j i) as [L|[L|L]]; auto.
               - subst j. rewrite Hi in Hj. inversion Hj; subst x. rewrite Hr in Hox. inversion Hox; subst. congruence.
               - exfalso. assert (In x post) by (apply InPost; eauto).
                 assert (existsb (fun x => match nth_error st x with Some ox => str_eqb (o_name ox) k | None => false end) post = true); [|congruence].
                 apply existsb_exists. exists x. split; auto. rewrite Hox. apply str_eqb_eq. assumption. }
             destruct (Pre _ _ Lj Hj) as (ox' & H1 & H2 & H3 & H4). rewrite Hox in H1. inversion H1; subst ox'.
             exists j, x, ox. rewrite Cut. replace (j <? i)%nat with true by (symmetry; apply Nat.ltb_lt; lia). auto.
        * intros (j & x & ox' & Hj & Hox' & Hk & Hv). rewrite Cut in Hj. destruct (j <? i)%nat eqn:E.
          -- apply Nat.ltb_lt in E. destruct (Pre _ _ E Hj) as (ox & H1 & H2 & H3 & H4). rewrite H2 in Hox'. inversion Hox'; subst ox'.
             assert (Hm : mget k (t_seen t) = Some v) by (apply (ti_seen _ _ _ I); eauto 8).
             assert (NEk : k <> o_name o).
             { intro Ek. assert (j = i) by (eapply (TInv_uniq h st t j i x r ox o); eauto; congruence). lia. }
             rewrite K2. rewrite mget_mdel_ne by assumption. exact Hm.
             intros y oy Hy Hoy Ey. apply InPost in Hy. destruct Hy as (j' & Lj' & Hj').
             assert (j = j') by (eapply (TInv_uniq h st t j j' x y ox oy); eauto; congruence). lia.
          -- apply Nat.ltb_ge in E. destruct (Post (S j) x ltac:(lia) Hj) as (ox & H1 & H2 & H3 & H4). rewrite H2 in Hox'. inversion Hox'; subst ox'.
             simpl in Hk. subst k. rewrite (N2 x ox); auto. f_equal. lia. apply InPost. exists (S j). split; auto. lia.
    - intros r0 o0 h' Ho Hw0 NE.
      rewrite nth_error_upd_ne by (intro; subst; rewrite Hr in Ho; inversion Ho; subst; congruence).
      rewrite U2; auto. intro H. apply InPost in H. destruct H as (j & Lj & Hj). destruct (ti_obj _ _ _ I _ _ Hj) as (ox & Hox & Hwx & _).
      rewrite Ho in Hox. inversion Hox; subst. congruence.
    - intros r0 o0 h0 Ho Hw0. apply nth_error_upd in Ho. destruct Ho as [[E1 E2]|[NE Ho]].
      + subst. simpl in Hw0. discriminate.
      + destruct (in_dec Nat.eq_dec r0 post) as [Hin|Hnin].
        * left. apply InPost in Hin. destruct Hin as (j & Lj & Hj). destruct (Post _ _ Lj Hj) as (ox & H1 & H2 & H3 & H4).
          rewrite nth_error_upd_ne in H2 by auto. rewrite H2 in Ho. inversion Ho; subst o0. cbn [with_ident o_owner o_id t_items] in *. inversion Hw0; subst h0.
          split; auto. split; [|lia]. rewrite Cut. replace (Z.to_nat (Z.of_nat j - 1)) with (j - 1)%nat by lia.
          replace (j - 1 <? i)%nat with false by (symmetry; apply Nat.ltb_ge; lia). replace (S (j - 1)) with j by lia. exact Hj.
        * rewrite U2 in Ho by assumption. destruct (Nat.eq_dec h0 h) as [E|NE2]; [|right; auto].
          subst h0. left. destruct (proj2 K _ _ _ Ho Hw0) as (t0 & Ht0 & Hl0 & Hp0). rewrite Ht in Ht0. inversion Ht0; subst t0.
          split; auto. split; auto. cbn [t_items]. rewrite Cut.
          assert (Lj : (Z.to_nat (o_id o0) < i)%nat).
          { destruct (Nat.lt_total (Z.to_nat (o_id o0)) i) as [L|[L|L]]; auto.
            - exfalso. rewrite L in Hl0. rewrite Hi in Hl0. inversion Hl0. congruence.
            - exfalso. apply Hnin. apply InPost. eauto. }
          replace (Z.to_nat (o_id o0) <? i)%nat with true by (symmetry; apply Nat.ltb_lt; lia). exact Hl0.
  Qed.
End GenInv2.

Section GenInv3.
  Context {P : Type}.
  Notation store := (list (obj P)).

  Definition copy_of (hn : nat) (o : obj P) : obj P := mkObj (Some hn) (o_id o) (o_name o) (o_pay o).

  Lemma clone_items_spec : forall (items : list nat) (hn : nat) (st : store),
    (forall x, In x items -> exists o, nth_error st x = Some o) ->
    exists st' items', clone_items hn st items = Ok (st', items') /\
      length st' = (length st + length items)%nat /\
      (forall x o, nth_error st x = Some o -> nth_error st' x = Some o) /\
      items' = seq (length st) (length items) /\
      (forall i x o, nth_error items i = Some x -> nth_error st x = Some o ->
                     nth_error st' (length st + i) = Some (copy_of hn o)).
  Proof.
    induction items as [|r l IH]; intros hn st EX.
    - exists st, []. simpl. repeat split; auto; try lia. intros i x o H. destruct i; discriminate.
    - simpl. destruct (EX r (or_introl eq_refl)) as (o & Ho). rewrite Ho.
      destruct (IH hn (st ++ [mkObj (Some hn) (o_id o) (o_name o) (o_pay o)])) as (st' & items' & R & L & F & Sq & C).
      { intros x Hx. destruct (EX x (or_intror Hx)) as (ox & Hox). exists ox. rewrite nth_error_app1; auto. apply nth_error_Some. congruence. }
      rewrite R. exists st', (length st :: items'). split; [reflexivity|].
      rewrite app_length in *. simpl in *. split; [lia|]. split; [|split].
      + intros x ox Hx. apply F. rewrite nth_error_app1; auto. apply nth_error_Some. congruence.
      + rewrite Sq. f_equal. f_equal. lia.
      + intros i x ox Hi Hx. destruct i; simpl in Hi.
        * inversion Hi; subst x. rewrite Ho in Hx. inversion Hx; subst ox. rewrite Nat.add_0_r. apply F. apply nth_error_app_last.
        * replace (length st + S i)%nat with (length st + 1 + i)%nat by lia. eapply C; eauto.
          rewrite nth_error_app1; auto. apply nth_error_Some. congruence.
  Qed.

  (** Header.Clone for one kind: the copy of table [t] of header [h], appended as header [length tbls] *)
  Lemma KInv_clone : forall tbls (st : store) h t,
    KInv tbls st -> nth_error tbls h = Some t ->
    exists st' items', clone_items (length tbls) st (t_items t) = Ok (st', items') /\
      KInv (tbls ++ [mkTbl items' (t_seen t)]) st' /\ (length st <= length st')%nat.
  Proof.
    intros tbls st h t K Ht. assert (I := proj1 K _ _ Ht).
    destruct (clone_items_spec (t_items t) (length tbls) st) as (st' & items' & R & L & F & Sq & C).
    { intros x Hx. apply In_nth_error in Hx. destruct Hx as (i & Hi). destruct (ti_obj _ _ _ I _ _ Hi) as (o & Ho & _). eauto. }
    exists st', items'. split; [exact R|]. split; [|lia].
    assert (NI : forall i, nth_error items' i = if (i <? length (t_items t))%nat then Some (length st + i)%nat else None).
    { intro i. subst items'. destruct (i <? length (t_items t))%nat eqn:E.
      - apply Nat.ltb_lt in E. rewrite (nth_error_nth' _ 0%nat) by (rewrite seq_length; lia). rewrite seq_nth by lia. reflexivity.
      - apply Nat.ltb_ge in E. apply nth_error_None. rewrite seq_length. lia. }
    apply KInv_app_tbl with (st := st); auto.
    - split; cbn [t_items t_seen].
      + intros i x Hi. rewrite NI in Hi. destruct (i <? length (t_items t))%nat eqn:E; [|discriminate]. inversion Hi; subst x.
        apply Nat.ltb_lt in E. destruct (nth_error (t_items t) i) as [y|] eqn:Hy; [|apply nth_error_None in Hy; lia].
        destruct (ti_obj _ _ _ I _ _ Hy) as (o & Ho & Hw & Hid). exists (copy_of (length tbls) o). split; [eapply C; eauto|]. simpl. auto.
      + intros k v. rewrite (ti_seen _ _ _ I). split; intros (i & x & o & Hi & Ho & Hk & Hv).
        * exists i, (length st + i)%nat, (copy_of (length tbls) o). rewrite NI.
          replace (i <? length (t_items t))%nat with true by (symmetry; apply Nat.ltb_lt; apply nth_error_Some; congruence).
          split; auto. split; [eapply C; eauto|]. simpl. auto.
        * rewrite NI in Hi. destruct (i <? length (t_items t))%nat eqn:E; [|discriminate]. inversion Hi; subst x.
          apply Nat.ltb_lt in E. destruct (nth_error (t_items t) i) as [y|] eqn:Hy; [|apply nth_error_None in Hy; lia].
          destruct (ti_obj _ _ _ I _ _ Hy) as (oy & Hoy & Hw & Hid). rewrite (C _ _ _ Hy Hoy) in Ho. inversion Ho; subst o. simpl in Hk.
          exists i, y, oy. auto.
    - intros r o' h0 Ho Hw. destruct (Nat.lt_ge_cases r (length st)) as [Lr|Lr].
      + right. destruct (nth_error st r) as [o|] eqn:Hr; [|apply nth_error_None in Hr; lia]. rewrite (F _ _ Hr) in Ho. congruence.
      + left. assert (Lr' : (r < length st')%nat) by (apply nth_error_Some; congruence).
        set (i := (r - length st)%nat). assert (Li : (i < length (t_items t))%nat) by (unfold i; lia).
        destruct (nth_error (t_items t) i) as [y|] eqn:Hy; [|apply nth_error_None in Hy; lia].
        destruct (ti_obj _ _ _ I _ _ Hy) as (oy & Hoy & Hwy & Hid). assert (Hc := C _ _ _ Hy Hoy).
        replace (length st + i)%nat with r in Hc by (unfold i; lia). rewrite Hc in Ho. inversion Ho; subst o'. simpl in *.
        inversion Hw; subst h0. split; auto. rewrite Hid, Nat2Z.id, NI.
        replace (i <? length (t_items t))%nat with true by (symmetry; apply Nat.ltb_lt; lia). split; [f_equal; unfold i; lia|lia].
  Qed.

  (** a new header with the empty table *)
  Lemma KInv_empty_tbl : forall tbls (st : store), KInv tbls st -> KInv (tbls ++ [tbl0]) st.
  Proof.
    intros tbls st K. apply KInv_app_tbl with (st := st); auto.
    - split; simpl.
      + intros i r H. destruct i; discriminate.
      + intros k v. unfold mget. split; [discriminate|]. intros (i & r & o & H & _). destruct i; discriminate.
  Qed.
End GenInv3.
