(** C07 — the field loops of the line parsers rebuild an item from the
    fields its String method prints. *)
From Coq Require Import ZArith List Bool Lia.
From Hts Require Import Base.Prim Model.Header Proofs.HeaderBase Proofs.HeaderText Proofs.HeaderNum.
Import ListNotations.
Open Scope Z_scope.
Arguments mset : simpl never.
Arguments mget : simpl never.

Lemma tag_eqb_eq : forall a b, tag_eqb a b = true <-> a = b.
Proof.
  intros [a1 a2] [b1 b2]. unfold tag_eqb; simpl. rewrite andb_true_iff, !Z.eqb_eq. split; [intros []; subst; auto|intro H; inversion H; auto].
Qed.
Lemma tag_eqb_refl : forall a, tag_eqb a a = true.
Proof. intro; apply tag_eqb_eq; reflexivity. Qed.
Lemma tag_eqb_sym : forall a b, tag_eqb a b = tag_eqb b a.
Proof. intros [a1 a2] [b1 b2]. unfold tag_eqb; simpl. rewrite (Z.eqb_sym a1), (Z.eqb_sym a2). reflexivity. Qed.

Definition Within (seen K : list tag) : Prop := forall x, mem_tag x seen = true -> mem_tag x K = true.
Lemma Within_nil : forall K, Within [] K.
Proof. intros K x H. discriminate. Qed.
Lemma Within_cons : forall seen K t, Within seen K -> Within (t :: seen) (t :: K).
Proof. intros seen K t W x. unfold mem_tag in *. simpl. destruct (tag_eqb x t); simpl; auto. apply W. Qed.
Lemma Within_weaken : forall seen K t, Within seen K -> Within seen (t :: K).
Proof. intros seen K t W x H. specialize (W x H). unfold mem_tag in *. simpl. rewrite W. apply orb_true_r. Qed.
Lemma Within_fresh : forall seen K t, Within seen K -> mem_tag t K = false -> mem_tag t seen = false.
Proof. intros seen K t W H. destruct (mem_tag t seen) eqn:E; auto. rewrite (W t E) in H. discriminate. Qed.

Fixpoint tdist (l : list tagpair) : Prop :=
  match l with [] => True | tp :: r => mem_tag (fst tp) (map fst r) = false /\ tdist r end.

Section Loop.
  Variables (O FL R : Type).
  Variable F : O -> list tag -> FL -> list str -> outcome R.
  Variable STEP : O -> FL -> tag -> str -> outcome (O * FL).
  Variable FIN : O -> FL -> outcome R.
  Hypothesis F_nil : forall o seen fl, F o seen fl [] = FIN o fl.
  Hypothesis F_cons : forall o seen fl f l, F o seen fl (f :: l) =
    match split_field f with
    | None => Err eBadHeader
    | Some (t, v) =>
      if mem_tag t seen then Err eDupTag
      else match STEP o fl t v with
           | Ok (o', fl') => F o' (t :: seen) fl' l
           | Err e => Err e | Panic n => Panic n | Stuck => Stuck
           end
    end.

  Lemma loop_one : forall o seen fl t v rest o' fl', mem_tag t seen = false -> STEP o fl t v = Ok (o', fl') ->
    F o seen fl (body t v :: rest) = F o' (t :: seen) fl' rest.
  Proof. intros. rewrite F_cons, split_field_body, H, H0. reflexivity. Qed.

  Lemma loop_opt : forall o seen K fl t v rest o' fl', Within seen K -> mem_tag t K = false ->
    (is_empty v = false -> STEP o fl t v = Ok (o', fl')) -> (is_empty v = true -> o = o' /\ fl = fl') ->
    exists seen', F o seen fl (optf t v ++ rest) = F o' seen' fl' rest /\ Within seen' (t :: K).
  Proof.
    intros o seen K fl t v rest o' fl' W HK HS HE. unfold optf. destruct (is_empty v).
    - destruct (HE eq_refl) as (-> & ->). exists seen. split; auto. apply Within_weaken; auto.
    - exists (t :: seen). split; [|apply Within_cons; auto]. simpl. apply loop_one; auto. eapply Within_fresh; eauto.
  Qed.

  Variable ADD : O -> tagpair -> O.
  Variable K0 : list tag.
  Hypothesis STEP_other : forall o fl t v, mem_tag t K0 = false -> STEP o fl t v = Ok (ADD o (t, v), fl).

  Lemma loop_others : forall l o seen fl,
    (forall tp, In tp l -> mem_tag (fst tp) K0 = false) -> tdist l -> (forall tp, In tp l -> mem_tag (fst tp) seen = false) ->
    F o seen fl (other_fields l) = FIN (fold_left ADD l o) fl.
  Proof.
    induction l as [|[t v] l IH]; intros o seen fl HK HD HS; simpl.
    - apply F_nil.
    - rewrite (loop_one o seen fl t v _ (ADD o (t, v)) fl).
      + apply IH.
        * intros tp Hin. apply HK. right; assumption.
        * apply HD.
        * intros tp Hin. assert (E0 := HS tp (or_intror Hin)). destruct HD as (HD & _). simpl in HD.
          unfold mem_tag in *. simpl. rewrite E0, orb_false_r.
          destruct (tag_eqb (fst tp) t) eqn:E; auto. apply tag_eqb_eq in E. subst t. exfalso.
          assert (existsb (tag_eqb (fst tp)) (map fst l) = true); [|congruence].
          apply existsb_exists. exists (fst tp). split; [apply in_map; assumption|apply tag_eqb_refl].
      + apply (HS (t, v)). left; reflexivity.
      + apply STEP_other. apply (HK (t, v)). left; reflexivity.
  Qed.
End Loop.
