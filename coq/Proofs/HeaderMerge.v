(** C07 — MergeHeaders: every source reference is linked to a reference the
    merged header owns and lists, with the same name and length; the link
    resolution cannot panic. *)
From Coq Require Import ZArith List Bool Lia.
From Hts Require Import Base.Prim Model.Header Model.HeaderRun
     Proofs.HeaderBase Proofs.HeaderInv Proofs.HeaderInv2 Proofs.HeaderWorld Proofs.HeaderParse Proofs.HeaderHist.
Import ListNotations.
Open Scope Z_scope.
Arguments mset : simpl never.
Arguments mget : simpl never.

(** header [hm] lists a reference named [n] of length [l] *)
Definition Listed (w : world) (hm : nat) (n : str) (l : Z) : Prop :=
  exists hd i x o, nth_error (w_h w) hm = Some hd /\ mget n (t_seen (h_R hd)) = Some (Z.of_nat i) /\
    nth_error (t_items (h_R hd)) i = Some x /\ nth_error (w_r w) x = Some o /\ o_name o = n /\ rp_len (o_pay o) = l.

Definition SameNL (w w' : world) : Prop := forall x o, nth_error (w_r w) x = Some o ->
  exists o', nth_error (w_r w') x = Some o' /\ o_name o' = o_name o /\ rp_len (o_pay o') = rp_len (o_pay o).

(** what the steps of a merge keep: names and lengths of reference objects,
    the (name, length) pairs the merged header lists, all other headers *)
Definition Mono (hm : nat) (w w' : world) : Prop :=
  SameNL w w' /\ (forall n l, Listed w hm n l -> Listed w' hm n l) /\
  (forall s, s <> hm -> nth_error (w_h w') s = nth_error (w_h w) s).

Lemma Mono_refl : forall hm w, Mono hm w w.
Proof. intros. split; [|split]; auto. intros x o H; eauto. Qed.
Lemma Mono_trans : forall hm a b c, Mono hm a b -> Mono hm b c -> Mono hm a c.
Proof.
  intros hm a b c (S1 & L1 & H1) (S2 & L2 & H2). split; [|split]; auto.
  - intros x o Ho. destruct (S1 _ _ Ho) as (o1 & Ho1 & N1 & Le1). destruct (S2 _ _ Ho1) as (o2 & Ho2 & N2 & Le2).
    exists o2. split; auto. split; congruence.
  - intros s Hs. rewrite H2, H1; auto.
Qed.

Lemma Mono_new_ref : forall hm w n p, Mono hm w (new_ref w n p).
Proof.
  intros. split; [|split]; auto.
  - intros x o Ho. exists o. split; auto. simpl. rewrite nth_error_app1; auto. apply nth_error_Some; congruence.
  - intros n0 l (hd & i & x & o & Hh & M & Hi & Ho & Hn & Hl). exists hd, i, x, o. repeat split; auto.
    simpl. rewrite nth_error_app1; auto. apply nth_error_Some; congruence.
Qed.

Lemma add_reference_mono : forall w hm r w' e, WInv w -> add_reference w hm r = Ok (w', e) ->
  Mono hm w w' /\ (e = 0 -> forall o, nth_error (w_r w) r = Some o -> Listed w' hm (o_name o) (rp_len (o_pay o))).
Proof.
  intros w hm r w' e I. unfold add_reference.
  destruct (nth_error (w_h w) hm) as [hd|] eqn:Hh; [|discriminate].
  destruct (nth_error (w_r w) r) as [o|] eqn:Ho; [|discriminate].
  assert (KR := proj1 I). assert (Ht : nth_error (map h_R (w_h w)) hm = Some (h_R hd)) by (rewrite nth_error_map, Hh; reflexivity).
  assert (TI := proj1 KR _ _ Ht).
  assert (Lh : (hm < length (w_h w))%nat) by (apply nth_error_Some; congruence).
  assert (Lr : (r < length (w_r w))%nat) by (apply nth_error_Some; congruence).
  destruct (mget (o_name o) (t_seen (h_R hd))) as [dupID|] eqn:M.
  - assert (M' := M). apply (ti_seen _ _ _ TI) in M'. destruct M' as (d & erh & er & Hd & Her & Hn & Hv). subst dupID.
    rewrite idx_of_nat, Hd, Her.
    destruct (equal_refs er o) eqn:EQ.
    { intro H; inversion H; subst. split; [apply Mono_refl|]. intros _ o' Ho'. inversion Ho'; subst o'.
      apply equal_refs_name in EQ. destruct EQ as (EN & EL). exists hd, d, erh, er. repeat split; auto. }
    destruct (equal_refs o (bare_ref (-1) (o_name er) (rp_len (o_pay er)))) eqn:EB; simpl.
    2:{ intro H; inversion H; subst. split; [apply Mono_refl|]. discriminate. }
    destruct (owned o) eqn:OW. { intro H; inversion H; subst. split; [apply Mono_refl|]. discriminate. }
    unfold install_over. rewrite Nat2Z.id. intro H; inversion H; subst w' e; clear H.
    apply equal_refs_name in EB. simpl in EB. destruct EB as (EN & EL).
    assert (HnO : o_owner o = None) by (unfold owned in OW; destruct (o_owner o); congruence).
    assert (NE : r <> erh). { intro; subst. destruct (ti_obj _ _ _ TI _ _ Hd) as (o' & Ho' & Hw' & _). congruence. }
    assert (Le : (erh < length (w_r w))%nat) by (apply nth_error_Some; congruence).
    assert (NL : forall i x, nth_error (t_items (h_R hd)) i = Some x -> x <> r).
    { intros i x Hx E. subst x. destruct (ti_obj _ _ _ TI _ _ Hx) as (o' & Ho' & Hw' & _). congruence. }
    assert (HH : nth_error (w_h (put_hdr (set_r w (upd (upd (w_r w) r (with_ident (inherit o er) (Some hm) (Z.of_nat d))) erh (with_ident er None (-1)))) hm
                                   (set_R hd (mkTbl (upd (t_items (h_R hd)) d r) (t_seen (h_R hd)))))) hm
                 = Some (set_R hd (mkTbl (upd (t_items (h_R hd)) d r) (t_seen (h_R hd))))) by (simpl; apply nth_error_upd_eq; assumption).
    assert (Ld : (d < length (t_items (h_R hd)))%nat) by (apply nth_error_Some; congruence).
    assert (LD : Listed (put_hdr (set_r w (upd (upd (w_r w) r (with_ident (inherit o er) (Some hm) (Z.of_nat d))) erh (with_ident er None (-1)))) hm
                                   (set_R hd (mkTbl (upd (t_items (h_R hd)) d r) (t_seen (h_R hd))))) hm (o_name o) (rp_len (o_pay o))).
    { eexists _, d, r, _. split; [exact HH|]. simpl. split; [exact M|]. split; [apply nth_error_upd_eq; assumption|].
      split; [rewrite nth_error_upd_ne by auto; apply nth_error_upd_eq; assumption|]. split; reflexivity. }
    split; [|intros _ o' Ho'; inversion Ho'; subst o'; exact LD].
    split; [|split].
    + intros x ox Hx. simpl. destruct (Nat.eq_dec x erh) as [E|NE1].
      * subst x. rewrite Her in Hx. inversion Hx; subst ox. rewrite nth_error_upd_eq by (rewrite upd_length; assumption). eexists; split; [reflexivity|]. simpl; auto.
      * rewrite nth_error_upd_ne by auto. destruct (Nat.eq_dec x r) as [E|NE2].
        -- subst x. rewrite Ho in Hx. inversion Hx; subst ox. rewrite nth_error_upd_eq by assumption. eexists; split; [reflexivity|]. simpl; auto.
        -- rewrite nth_error_upd_ne by auto. eauto.
    + intros n l (hd0 & i & x & ox & Hh0 & M0 & Hi0 & Hox & Hn0 & Hl0). rewrite Hh in Hh0. inversion Hh0; subst hd0.
      destruct (Nat.eq_dec i d) as [E|NEi].
      * subst i. rewrite Hd in Hi0. inversion Hi0; subst x. rewrite Her in Hox. inversion Hox; subst ox.
        subst n l. rewrite <- EN, <- EL. exact LD.
      * eexists _, i, x, ox. split; [exact HH|]. simpl. split; [exact M0|]. split; [rewrite nth_error_upd_ne by auto; exact Hi0|].
        split; [|auto]. rewrite nth_error_upd_ne by (intro; subst; apply NEi; eapply TInv_inj; eauto).
        rewrite nth_error_upd_ne by (intro; subst; eapply NL; eauto). exact Hox.
    + intros s Hs. simpl. apply nth_error_upd_ne. auto.
  - destruct (add_fresh eUsedRef hm (w_r w) (h_R hd) r o) as [[st' t'] e'] eqn:A.
    intro H; inversion H; subst w' e'; clear H. unfold add_fresh in A.
    destruct (owned o || (0 <=? o_id o)) eqn:G.
    + inversion A; subst st' t' e. split; [|discriminate].
      split; [|split].
      * intros x ox Hx. exists ox. simpl. auto.
      * intros n l (hd0 & i & x & ox & Hh0 & M0 & Hi0 & Hox & Hn0 & Hl0). rewrite Hh in Hh0. inversion Hh0; subst hd0.
        eexists _, i, x, ox. split; [simpl; apply nth_error_upd_eq; assumption|]. simpl. auto.
      * intros s Hs. simpl. apply nth_error_upd_ne. auto.
    + inversion A; subst st' t' e; clear A. apply orb_false_iff in G. destruct G as (G1 & G2).
      assert (HnO : o_owner o = None) by (unfold owned in G1; destruct (o_owner o); congruence).
      assert (NL : forall i x, nth_error (t_items (h_R hd)) i = Some x -> x <> r).
      { intros i x Hx E. subst x. destruct (ti_obj _ _ _ TI _ _ Hx) as (o' & Ho' & Hw' & _). congruence. }
      split.
      * split; [|split].
        -- intros x ox Hx. simpl. destruct (Nat.eq_dec x r) as [E|NE].
           ++ subst x. rewrite Ho in Hx. inversion Hx; subst ox. rewrite nth_error_upd_eq by assumption. eexists; split; [reflexivity|]. simpl; auto.
           ++ rewrite nth_error_upd_ne by auto. eauto.
        -- intros n l (hd0 & i & x & ox & Hh0 & M0 & Hi0 & Hox & Hn0 & Hl0). rewrite Hh in Hh0. inversion Hh0; subst hd0.
           eexists _, i, x, ox. split; [simpl; apply nth_error_upd_eq; assumption|]. simpl.
           split; [rewrite mget_mset_ne; [exact M0|intro; subst; congruence]|].
           split; [rewrite nth_error_app1; [exact Hi0|apply nth_error_Some; congruence]|].
           split; [|auto]. rewrite nth_error_upd_ne by (intro; subst; eapply NL; eauto). exact Hox.
        -- intros s Hs. simpl. apply nth_error_upd_ne. auto.
      * intros _ o' Ho'. inversion Ho'; subst o'.
        eexists _, (length (t_items (h_R hd))), r, _. split; [simpl; apply nth_error_upd_eq; assumption|]. simpl.
        split; [unfold zlen; apply mget_mset_eq|]. split; [apply nth_error_app_last|].
        split; [apply nth_error_upd_eq; assumption|]. split; reflexivity.
Qed.

(** a link: a valid reference handle whose object has the wanted name and
    length, which the merged header lists *)
Definition LinkOK (w : world) (hm : nat) (n : str) (l : Z) (x : nat) : Prop :=
  (exists ox, nth_error (w_r w) x = Some ox /\ o_name ox = n /\ rp_len (o_pay ox) = l) /\ Listed w hm n l.

Lemma LinkOK_mono : forall hm w w' n l x, Mono hm w w' -> LinkOK w hm n l x -> LinkOK w' hm n l x.
Proof.
  intros hm w w' n l x (S & L & _) ((ox & Hx & Hn & Hl) & Li). split; [|auto].
  destruct (S _ _ Hx) as (o' & Ho' & N' & L'). exists o'. split; auto. split; congruence.
Qed.

Lemma find_equal_sound : forall items w o x, find_equal w o items = Ok (Some x) ->
  exists hr, nth_error (w_r w) x = Some hr /\ equal_refs o hr = true.
Proof.
  induction items as [|y l IH]; simpl; intros w o x H; [discriminate|].
  destruct (nth_error (w_r w) y) as [hr|] eqn:Hy; [|discriminate].
  destruct (equal_refs o hr) eqn:E.
  - inversion H; subst. eauto.
  - eapply IH; eauto.
Qed.

Definition src_ok (w w' : world) (hm : nat) (r x : nat) : Prop :=
  exists o, nth_error (w_r w) r = Some o /\ LinkOK w' hm (o_name o) (rp_len (o_pay o)) x.

Lemma src_ok_back : forall hm w w2 w' l ls, Mono hm w w2 -> valid_refs w l ->
  Forall2 (src_ok w2 w' hm) l ls -> Forall2 (src_ok w w' hm) l ls.
Proof.
  intros hm w w2 w' l ls (SN & _) V F. induction F as [|r x l ls H F IH]; constructor.
  - destruct H as (o2 & Ho2 & LK). destruct (nth_error_lt _ _ (V r (or_introl eq_refl))) as (o & Ho).
    destruct (SN _ _ Ho) as (o2' & Ho2' & N & L). rewrite Ho2 in Ho2'. inversion Ho2'; subst o2'.
    exists o. split; auto. rewrite <- N, <- L. exact LK.
  - apply IH. intros y Hy. apply V. right. exact Hy.
Qed.

Lemma merge_refs_spec : forall srcrefs w hm w' e ls, WInv w -> (hm < length (w_h w))%nat -> valid_refs w srcrefs ->
  merge_refs w hm srcrefs = Ok (w', e, ls) ->
  Mono hm w w' /\ (e = 0 -> Forall2 (src_ok w w' hm) srcrefs ls).
Proof.
  induction srcrefs as [|r l IH]; intros w hm w' e ls I Lh V; simpl.
  - intro H; inversion H; subst. split; [apply Mono_refl|]. intros _. constructor.
  - unfold clone_ref. destruct (nth_error_lt _ _ (V r (or_introl eq_refl))) as (o & Ho). rewrite Ho.
    destruct (new_ref_good w (o_name o) (o_pay o) I) as (I1 & X1).
    destruct (add_reference_good (new_ref w (o_name o) (o_pay o)) hm (length (w_r w)) I1) as (w2 & e2 & R & I2 & X2).
    { simpl. exact Lh. } { simpl. rewrite app_length; simpl; lia. }
    rewrite R.
    destruct (add_reference_mono _ _ _ _ _ I1 R) as (M12 & LI).
    assert (M02 : Mono hm w w2) by (eapply Mono_trans; [apply Mono_new_ref|exact M12]).
    destruct (negb (e2 =? 0)) eqn:E2.
    { intro H; inversion H; subst. split; auto. intro; subst; discriminate. }
    apply negb_false_iff in E2. apply Z.eqb_eq in E2.
    assert (Hc1 : nth_error (w_r (new_ref w (o_name o) (o_pay o))) (length (w_r w)) = Some (mkObj None (-1) (o_name o) (o_pay o))) by (simpl; apply nth_error_app_last).
    specialize (LI E2 _ Hc1). simpl in LI.
    destruct (proj1 M12 _ _ Hc1) as (oc2 & Hc2 & Nc2 & Lc2). simpl in Nc2, Lc2.
    assert (LKc : LinkOK w2 hm (o_name o) (rp_len (o_pay o)) (length (w_r w))) by (split; [exists oc2; auto|exact LI]).
    assert (Lh2 : (hm < length (w_h w2))%nat) by (destruct X1 as (X1 & _), X2 as (X2 & _); simpl in *; lia).
    match goal with |- match ?LNK with _ => _ end = _ -> _ =>
      assert (LK : forall y, LNK = Ok y -> LinkOK w2 hm (o_name o) (rp_len (o_pay o)) y); [|destruct LNK as [x| | |]; try discriminate] end.
    { destruct (owner_is _ _ _). { intros y H; inversion H; subst; exact LKc. }
      rewrite Hc2. destruct (nth_error (w_h w2) hm) as [hd2|]; [|discriminate].
      destruct (find_equal w2 oc2 (t_items (h_R hd2))) as [[x|]| | |] eqn:FE; try discriminate.
      - intros y H; inversion H; subst y. apply find_equal_sound in FE. destruct FE as (hr & Hx & EQ).
        apply equal_refs_name in EQ. destruct EQ as (EN & EL). split; [|exact LI]. exists hr. split; auto. split; congruence.
      - intros y H; inversion H; subst; exact LKc. }
    specialize (LK x eq_refl).
    destruct (merge_refs w2 hm l) as [[[w3 e3] ls3]| | |] eqn:R3; try discriminate.
    intro H; inversion H; subst w3 e3 ls; clear H.
    assert (V2 : valid_refs w2 l). { apply (valid_refs_ext w w2 l (Ext_trans _ _ _ X1 X2)). intros y Hy; apply V; right; exact Hy. }
    destruct (IH w2 hm w' e ls3 I2 Lh2 V2 R3) as (M23 & F3).
    split; [eapply Mono_trans; eauto|]. intro E0. constructor.
    + exists o. split; auto. eapply LinkOK_mono; eauto.
    + eapply src_ok_back; eauto. intros y Hy; apply V; right; exact Hy.
Qed.

Definition srcs_ok (w w' : world) (hm : nat) (s : nat) (ls : list nat) : Prop :=
  exists hs, nth_error (w_h w) s = Some hs /\ Forall2 (src_ok w w' hm) (t_items (h_R hs)) ls.

Lemma src_ok_fwd : forall hm w w1 w' l ls, Mono hm w1 w' -> Forall2 (src_ok w w1 hm) l ls -> Forall2 (src_ok w w' hm) l ls.
Proof.
  intros hm w w1 w' l ls M F. induction F as [|r x l ls H F IH]; constructor; auto.
  destruct H as (o & Ho & LK). exists o. split; auto. eapply LinkOK_mono; eauto.
Qed.

Lemma merge_srcs_spec : forall srcs w hm w' e lss, WInv w -> (hm < length (w_h w))%nat ->
  (forall s, In s srcs -> (s < length (w_h w))%nat /\ s <> hm) ->
  merge_srcs w hm srcs = Ok (w', e, lss) ->
  Mono hm w w' /\ (e = 0 -> Forall2 (srcs_ok w w' hm) srcs lss).
Proof.
  induction srcs as [|s l IH]; intros w hm w' e lss I Lh V; simpl.
  - intro H; inversion H; subst. split; [apply Mono_refl|]. intros _. constructor.
  - destruct (V s (or_introl eq_refl)) as (Ls & NEs). destruct (nth_error_lt _ _ Ls) as (hs & Hs). rewrite Hs.
    destruct (merge_refs_good (t_items (h_R hs)) w hm I Lh (items_valid_R _ _ _ I Hs)) as (w1 & e1 & links & R & I1 & X1 & V1). rewrite R.
    destruct (merge_refs_spec _ _ _ _ _ _ I Lh (items_valid_R _ _ _ I Hs) R) as (M01 & F1).
    destruct (negb (e1 =? 0)) eqn:E1.
    { intro H; inversion H; subst. split; auto. intro; subst; discriminate. }
    apply negb_false_iff in E1. apply Z.eqb_eq in E1. specialize (F1 E1).
    destruct (merge_srcs w1 hm l) as [[[w2 e2] ls2]| | |] eqn:R2; try discriminate.
    intro H; inversion H; subst w2 e2 lss; clear H.
    destruct (IH w1 hm w' e ls2 I1) as (M12 & F2); auto. { destruct X1; lia. }
    { intros y Hy. destruct (V y (or_intror Hy)). split; auto. destruct X1; lia. }
    split; [eapply Mono_trans; eauto|]. intro E0. constructor.
    + exists hs. split; auto. eapply src_ok_fwd; eauto.
    + specialize (F2 E0). clear - F2 M01 V I. induction F2 as [|s' ls' l lss H F IH]; constructor.
      * destruct H as (hs' & Hs' & FF). destruct (V s' (or_intror (or_introl eq_refl))) as (Ls' & NE').
        rewrite (proj2 (proj2 M01)) in Hs' by assumption. exists hs'. split; auto.
        eapply src_ok_back; eauto. eapply items_valid_R; eauto.
      * apply IH. intros y Hy. apply V. destruct Hy as [E|Hy]; [left; exact E|right; right; exact Hy].
Qed.

(** a resolved link: owned and listed by the merged header, same name and length as the source *)
Definition link_good (w w' : world) (hm : nat) (r y : nat) : Prop :=
  exists o oy hd, nth_error (w_r w) r = Some o /\ nth_error (w_r w') y = Some oy /\
    o_owner oy = Some hm /\ nth_error (w_h w') hm = Some hd /\ 0 <= o_id oy /\
    nth_error (t_items (h_R hd)) (Z.to_nat (o_id oy)) = Some y /\
    o_name oy = o_name o /\ rp_len (o_pay oy) = rp_len (o_pay o).

Lemma resolve_link_spec : forall w w' hm r x, WInv w' -> src_ok w w' hm r x ->
  exists y, resolve_link w' hm x = Ok y /\ link_good w w' hm r y.
Proof.
  intros w w' hm r x I (o & Ho & ((ox & Hx & Hn & Hl) & (hd & i & z & oz & Hh & M & Hi & Hz & Hnz & Hlz))).
  unfold resolve_link, owner_is. rewrite Hx.
  assert (KR := proj1 I). assert (Ht : nth_error (map h_R (w_h w')) hm = Some (h_R hd)) by (rewrite nth_error_map, Hh; reflexivity).
  assert (TI := proj1 KR _ _ Ht).
  destruct (o_owner ox) as [h'|] eqn:Hw.
  - destruct (Nat.eqb h' hm) eqn:E.
    + apply Nat.eqb_eq in E. subst h'. exists x. split; auto.
      destruct (proj2 KR _ _ _ Hx Hw) as (t & Ht' & Hl' & Hp'). rewrite Ht in Ht'. inversion Ht'; subst t.
      exists o, ox, hd. repeat split; auto.
    + rewrite Hh, Hn, M, idx_of_nat, Hi. exists z. split; auto.
      destruct (ti_obj _ _ _ TI _ _ Hi) as (oz' & Hz' & Hwz & Hidz). rewrite Hz in Hz'. inversion Hz'; subst oz'.
      exists o, oz, hd. rewrite Hidz, Nat2Z.id. repeat split; auto; try lia; congruence.
  - rewrite Hh, Hn, M, idx_of_nat, Hi. exists z. split; auto.
    destruct (ti_obj _ _ _ TI _ _ Hi) as (oz' & Hz' & Hwz & Hidz). rewrite Hz in Hz'. inversion Hz'; subst oz'.
    exists o, oz, hd. rewrite Hidz, Nat2Z.id. repeat split; auto; try lia; congruence.
Qed.

Lemma omap_resolve : forall w w' hm l ls, WInv w' -> Forall2 (src_ok w w' hm) l ls ->
  exists ys, omap (resolve_link w' hm) ls = Ok ys /\ Forall2 (link_good w w' hm) l ys.
Proof.
  intros w w' hm l ls I F. induction F as [|r x l ls H F IH]; simpl.
  - exists []. split; auto.
  - destruct (resolve_link_spec _ _ _ _ _ I H) as (y & R & G). rewrite R. destruct IH as (ys & -> & FF).
    exists (y :: ys). split; auto.
Qed.

Definition links_good (w w' : world) (hm : nat) (s : nat) (ys : list nat) : Prop :=
  exists hs, nth_error (w_h w) s = Some hs /\ Forall2 (link_good w w' hm) (t_items (h_R hs)) ys.

Lemma omap_resolve_all : forall w w' hm srcs lss, WInv w' -> Forall2 (srcs_ok w w' hm) srcs lss ->
  exists yss, omap (omap (resolve_link w' hm)) lss = Ok yss /\ Forall2 (links_good w w' hm) srcs yss.
Proof.
  intros w w' hm srcs lss I F. induction F as [|s ls srcs lss H F IH]; simpl.
  - exists []. split; auto.
  - destruct H as (hs & Hs & FF). destruct (omap_resolve _ _ _ _ _ I FF) as (ys & -> & G). destruct IH as (yss & -> & GG).
    exists (ys :: yss). split; auto. constructor; auto. exists hs. auto.
Qed.

Lemma clone_header_prefix : forall w h w1, WInv w -> clone_header w h = Ok w1 ->
  (forall s, (s < length (w_h w))%nat -> nth_error (w_h w1) s = nth_error (w_h w) s) /\
  (forall r o, nth_error (w_r w) r = Some o -> nth_error (w_r w1) r = Some o).
Proof.
  intros w h w1 I. unfold clone_header. destruct (nth_error (w_h w) h) as [hd0|] eqn:Hh0; [|discriminate].
  destruct (clone_items_spec (t_items (h_R hd0)) (length (w_h w)) (w_r w)) as (sr & ir & CR & LR & FR & SR & CC).
  { intros x Hx. apply (items_valid_R _ _ _ I Hh0) in Hx. apply nth_error_lt. exact Hx. }
  rewrite CR. destruct (clone_items _ (w_g w) _) as [[sg ig]| | |]; try discriminate.
  destruct (clone_items _ (w_p w) _) as [[sp ip]| | |]; try discriminate.
  intro H; inversion H; subst w1; clear H. simpl. split; [|exact FR].
  intros s Ls. apply nth_error_app1. exact Ls.
Qed.

(** MergeHeaders (two or more sources): it returns; the invariant holds; on
    success every reference of every source is linked to a reference that the
    merged header owns and lists at its id, with the same name and length *)
Lemma merge_headers_spec : forall w s0 srcs, WInv w -> (s0 < length (w_h w))%nat -> (forall s, In s srcs -> (s < length (w_h w))%nat) ->
  exists w' e links, merge_headers w s0 srcs = Ok (w', e, links) /\ WInv w' /\ Ext w w' /\ (length (w_h w) < length (w_h w'))%nat /\
    (e = 0 -> Forall2 (links_good w w' (length (w_h w))) (s0 :: srcs) links).
Proof.
  intros w s0 srcs I L0 V. unfold merge_headers.
  destruct (clone_header_good w s0 I L0) as (w1 & R1 & I1 & X1 & L1). rewrite R1.
  set (hm := length (w_h w)) in *.
  assert (Lh1 : (hm < length (w_h w1))%nat) by lia.
  destruct (nth_error_lt _ _ Lh1) as (hd & Hh). rewrite Hh.
  set (w2 := put_hdr w1 hm (set_hd hd (h_vn hd) 0 0 (h_other hd))).
  assert (I2 : WInv w2) by (eapply WInv_put_same; eauto).
  assert (X2 : Ext w1 w2) by apply Ext_put.
  assert (Lh2 : (hm < length (w_h w2))%nat) by (destruct X2; lia).
  assert (V2 : forall s, In s srcs -> (s < length (w_h w2))%nat /\ s <> hm).
  { intros s Hs. specialize (V s Hs). split; [destruct X1, X2; lia|unfold hm; lia]. }
  destruct (merge_srcs_good srcs w2 hm I2 Lh2 (fun s Hs => proj1 (V2 s Hs))) as (w3 & e & ls & R3 & I3 & X3 & V3). rewrite R3.
  destruct (merge_srcs_spec _ _ _ _ _ _ I2 Lh2 V2 R3) as (M23 & F3).
  assert (X03 : Ext w w3) by (eapply Ext_trans; [exact X1|]; eapply Ext_trans; eauto).
  assert (L3 : (hm < length (w_h w3))%nat) by (destruct X3; lia).
  destruct (negb (e =? 0)) eqn:E0.
  { exists w3, e, []. split; auto. split; auto. split; auto. split; auto. intro; subst; discriminate. }
  apply negb_false_iff in E0. apply Z.eqb_eq in E0. specialize (F3 E0).
  (* the first source: its references were copied by Clone *)
  assert (F0 : srcs_ok w w3 hm s0 (t_items (h_R hd))).
  { revert R1. unfold clone_header. destruct (nth_error_lt _ _ L0) as (hd0 & Hh0). rewrite Hh0. fold hm.
    destruct (clone_items_spec (t_items (h_R hd0)) hm (w_r w)) as (sr & ir & CR & LR & FR & SR & CC).
    { intros x Hx. apply (items_valid_R _ _ _ I Hh0) in Hx. apply nth_error_lt. exact Hx. }
    rewrite CR. destruct (clone_items hm (w_g w) _) as [[sg ig]| | |]; try discriminate.
    destruct (clone_items hm (w_p w) _) as [[sp ip]| | |]; try discriminate.
    intro H; inversion H; subst w1; clear H. simpl in Hh. unfold hm in Hh. rewrite nth_error_app_last in Hh. inversion Hh; subst hd; clear Hh.
    exists hd0. split; auto. cbn [h_R t_items]. subst ir.
    assert (TI2 : TInv hm (w_r w2) (h_R (set_hd {| h_vn := h_vn hd0; h_so := h_so hd0; h_go := h_go hd0; h_other := h_other hd0;
                     h_R := {| t_items := seq (length (w_r w)) (length (t_items (h_R hd0))); t_seen := t_seen (h_R hd0) |};
                     h_G := {| t_items := ig; t_seen := t_seen (h_G hd0) |}; h_P := {| t_items := ip; t_seen := t_seen (h_P hd0) |}; h_co := h_co hd0 |}
                     (h_vn hd0) 0 0 (h_other hd0)))).
    { apply (proj1 (proj1 I2)). rewrite nth_error_map. unfold w2; simpl. rewrite nth_error_upd_eq by (rewrite app_length; simpl; lia). reflexivity. }
    cbn [h_R set_hd] in TI2.
    assert (GEN : forall k items, (forall j y, nth_error items j = Some y -> nth_error (t_items (h_R hd0)) (k + j) = Some y) ->
              Forall2 (src_ok w w3 hm) items (seq (length (w_r w) + k) (length items))).
    { intros k items. revert k. induction items as [|y items IHi]; intros k HK; simpl; constructor.
      - assert (Hy := HK 0%nat y eq_refl). rewrite Nat.add_0_r in Hy.
        destruct (nth_error_lt _ _ (items_valid_R _ _ _ I Hh0 y (nth_error_In _ _ Hy))) as (oy & Hoy).
        exists oy. split; auto. eapply LinkOK_mono; [exact M23|].
        assert (Hc := CC _ _ _ Hy Hoy). split.
        + exists (copy_of hm oy). split; [exact Hc|]. simpl; auto.
        + eexists _, k, (length (w_r w) + k)%nat, (copy_of hm oy). split; [unfold w2; simpl; apply nth_error_upd_eq; rewrite app_length; simpl; lia|].
          cbn [h_R set_hd t_items t_seen]. split.
          * apply (ti_seen _ _ _ TI2). exists k, (length (w_r w) + k)%nat, (copy_of hm oy). cbn [t_items]. split.
            { rewrite (nth_error_nth' _ 0%nat) by (rewrite seq_length; apply nth_error_Some; congruence). rewrite seq_nth by (apply nth_error_Some; congruence). reflexivity. }
            split; [exact Hc|]. split; reflexivity.
          * split. { rewrite (nth_error_nth' _ 0%nat) by (rewrite seq_length; apply nth_error_Some; congruence). rewrite seq_nth by (apply nth_error_Some; congruence). reflexivity. }
            split; [exact Hc|]. split; reflexivity.
      - replace (S (length (w_r w) + k)) with (length (w_r w) + S k)%nat by lia. apply IHi.
        intros j z Hj. replace (S k + j)%nat with (k + S j)%nat by lia. apply HK. exact Hj. }
    specialize (GEN 0%nat (t_items (h_R hd0)) (fun j y H => H)). rewrite Nat.add_0_r in GEN. exact GEN. }
  destruct (clone_header_prefix w s0 w1 I R1) as (PH & PR).
  assert (F3' : Forall2 (srcs_ok w w3 hm) srcs ls).
  { revert V V2. clear F0 R3 V3. induction F3 as [|s ls' srcs lss H F IH]; intros V V2; constructor.
    - destruct H as (hs & Hs & FF). assert (Ls := V s (or_introl eq_refl)).
      assert (Hs0 : nth_error (w_h w) s = Some hs).
      { rewrite <- PH by exact Ls. unfold w2 in Hs. simpl in Hs. rewrite nth_error_upd_ne in Hs by (unfold hm; lia). exact Hs. }
      exists hs. split; auto.
      assert (VR := items_valid_R _ _ _ I Hs0). remember (t_items (h_R hs)) as l0 eqn:El0. clear El0 Hs Hs0.
      induction FF as [|r x l1 ls1 H F1 IH1]; constructor.
      + destruct H as (o2 & Ho2 & LK). destruct (nth_error_lt _ _ (VR r (or_introl eq_refl))) as (o & Ho).
        assert (E := PR _ _ Ho). unfold w2 in Ho2; simpl in Ho2. rewrite E in Ho2. inversion Ho2; subst o2. exists o. auto.
      + apply IH1. intros y Hy; apply VR; right; exact Hy.
    - apply IH; intros y Hy; [apply V|apply V2]; right; exact Hy. }
  destruct (omap_resolve_all w w3 hm (s0 :: srcs) (t_items (h_R hd) :: ls) I3) as (yss & OM & GG).
  { constructor; auto. }
  rewrite OM. exists w3, 0, yss. subst e. split; [reflexivity|]. split; [exact I3|]. split; [exact X03|]. split; [exact L3|]. intros _. exact GG.
Qed.

(** *** every step returns, every history runs to the end *)
Section Total.
  Variable parse_time : str -> option str.
  Variable parse_uri : str -> option str.

  Lemma c07_step_total : forall w e op, WInv w -> EnvOK w e ->
    exists w' e' c l, c07_step parse_time parse_uri w e op = Ok (w', e', c, l) /\ WInv w' /\ EnvOK w' e'.
  Proof.
    intros w e op I EO. assert (S := c07_step_inv parse_time parse_uri w e op I EO).
    destruct (c07_step parse_time parse_uri w e op) as [[[[w' e'] c] l]|c|n|] eqn:R; try contradiction.
    - eexists _, _, _, _. split; [reflexivity|]. exact S.
    - destruct op; try discriminate. exfalso. revert R. cbn [c07_step].
      destruct (norm_all hs (e_h e)) as [[|x [|y rest]]|] eqn:N; try discriminate.
      destruct EO as (E1 & _).
      destruct (merge_headers_spec w x (y :: rest) I) as (w' & c & links & RM & _).
      { apply E1. eapply norm_all_In; eauto. left; reflexivity. }
      { intros s Hs. apply E1. eapply norm_all_In; eauto. right; exact Hs. }
      rewrite RM. destruct (c =? 0); discriminate.
  Qed.

  Lemma c07_exec_total : forall ops w e, WInv w -> EnvOK w e ->
    exists w' e', c07_exec parse_time parse_uri w e ops = Ok (w', e') /\ WInv w' /\ EnvOK w' e'.
  Proof.
    induction ops as [|op t IH]; intros w e I EO; simpl.
    - eauto.
    - destruct (c07_step_total w e op I EO) as (w1 & e1 & c & l & R & I1 & EO1). rewrite R. apply IH; assumption.
  Qed.

  Lemma header_inv_every_history : forall ops,
    exists w e, c07_exec parse_time parse_uri world0 env0 ops = Ok (w, e) /\ WInv w.
  Proof.
    intro ops. destruct (c07_exec_total ops world0 env0 WInv_world0 EnvOK_0) as (w & e & R & I & _). eauto.
  Qed.
End Total.
