(** C07 — decimal and hexadecimal codecs of the header text are inverses. *)
From Coq Require Import ZArith List Bool Lia.
From Hts Require Import Base.Prim Model.Header Proofs.HeaderBase.
Import ListNotations.
Open Scope Z_scope.
Ltac Zify.zify_post_hook ::= Z.div_mod_to_equations.

Definition digitish (c : Z) : Prop := 45 <= c <= 57 \/ 97 <= c <= 102.

Lemma dec_pos_digits : forall fuel n acc, 0 <= n -> Forall digitish acc -> Forall digitish (dec_pos fuel n acc).
Proof.
  induction fuel; intros n acc Hn Ha; simpl; auto.
  assert (Forall digitish ((48 + n mod 10) :: acc)) by (constructor; auto; left; lia).
  destruct (n <? 10); auto. apply IHfuel; auto. lia.
Qed.
Lemma dec_digits : forall n, Forall digitish (dec n).
Proof.
  intro n. unfold dec. destruct (n <? 0) eqn:E.
  - constructor. left; lia. apply dec_pos_digits; auto. apply Z.ltb_lt in E. lia.
  - apply dec_pos_digits; auto. apply Z.ltb_ge in E. lia.
Qed.

Lemma dec_pos_head : forall fuel n acc, 0 <= n -> exists c t, dec_pos (S fuel) n acc = c :: t /\ 48 <= c <= 57.
Proof.
  induction fuel; intros n acc Hn; simpl.
  - destruct (n <? 10); exists (48 + n mod 10), acc; split; auto; lia.
  - destruct (n <? 10) eqn:E. { exists (48 + n mod 10), acc; split; auto; lia. }
    destruct (IHfuel (n / 10) ((48 + n mod 10) :: acc)) as (c & t & H & R). lia. exists c, t. split; auto.
Qed.

Lemma digits_val_dec_pos : forall fuel n acc, 0 <= n < 10 ^ Z.of_nat (S fuel) ->
  exists k, 0 <= k /\ forall a, digits_val a (dec_pos (S fuel) n acc) = digits_val (a * 10 ^ k + n) acc.
Proof.
  induction fuel; intros n acc Hn.
  - cbn [dec_pos]. change (10 ^ Z.of_nat 1) with 10 in Hn. replace (n <? 10) with true by (symmetry; apply Z.ltb_lt; lia).
    exists 1. split; [lia|]. intro a. cbn [digits_val]. unfold is_digit.
    replace ((48 <=? 48 + n mod 10) && (48 + n mod 10 <=? 57)) with true by (symmetry; apply andb_true_iff; split; apply Z.leb_le; lia).
    change (10 ^ 1) with 10. f_equal. lia.
  - cbn [dec_pos]. destruct (n <? 10) eqn:E.
    + apply Z.ltb_lt in E. exists 1. split; [lia|]. intro a. cbn [digits_val]. unfold is_digit.
      replace ((48 <=? 48 + n mod 10) && (48 + n mod 10 <=? 57)) with true by (symmetry; apply andb_true_iff; split; apply Z.leb_le; lia).
      change (10 ^ 1) with 10. f_equal. lia.
    + apply Z.ltb_ge in E.
      assert (P : 10 ^ Z.of_nat (S (S fuel)) = 10 * 10 ^ Z.of_nat (S fuel)).
      { rewrite (Nat2Z.inj_succ (S fuel)). rewrite Z.pow_succ_r by lia. reflexivity. }
      destruct (IHfuel (n / 10) ((48 + n mod 10) :: acc)) as (k & Hk & H). { split; [lia|]. apply Z.div_lt_upper_bound; lia. }
      exists (k + 1). split; [lia|]. intro a. rewrite H. cbn [digits_val]. unfold is_digit.
      replace ((48 <=? 48 + n mod 10) && (48 + n mod 10 <=? 57)) with true by (symmetry; apply andb_true_iff; split; apply Z.leb_le; lia).
      f_equal. rewrite Z.pow_add_r by lia. change (10 ^ 1) with 10. lia.
Qed.

Lemma atoi_dec : forall n, - 2 ^ 63 <= n <= 2 ^ 63 - 1 -> atoi (dec n) = Some n.
Proof.
  intros n Hn. unfold dec. destruct (n <? 0) eqn:E.
  - apply Z.ltb_lt in E. unfold atoi.
    destruct (dec_pos_head 19 (- n) []) as (c & t & Hd & Hc). lia.
    destruct (digits_val_dec_pos 19 (- n) []) as (k & Hk & H). { split; [lia|]. change (10 ^ Z.of_nat 20) with 100000000000000000000. lia. }
    change (dec_pos 20) with (dec_pos (S 19)). rewrite Hd in *. rewrite (H 0). simpl.
    replace (0 * 10 ^ k + - n) with (- n) by lia.
    match goal with |- (if ?b then _ else _) = _ => destruct b eqn:R end;
      [f_equal; lia | exfalso; apply andb_false_iff in R; destruct R as [R|R]; apply Z.leb_gt in R; lia].
  - apply Z.ltb_ge in E. unfold atoi.
    destruct (dec_pos_head 19 n []) as (c & t & Hd & Hc). lia.
    destruct (digits_val_dec_pos 19 n []) as (k & Hk & H). { split; [lia|]. change (10 ^ Z.of_nat 20) with 100000000000000000000. lia. }
    change (dec_pos 20) with (dec_pos (S 19)). rewrite Hd in *.
    assert (C : c = 48 \/ c = 49 \/ c = 50 \/ c = 51 \/ c = 52 \/ c = 53 \/ c = 54 \/ c = 55 \/ c = 56 \/ c = 57) by lia.
    repeat (destruct C as [C|C]); subst c; cbv beta iota zeta; rewrite (H 0); cbn [digits_val];
      replace (0 * 10 ^ k + n) with n by lia;
      (match goal with |- (if ?b then _ else _) = _ => destruct b eqn:R end;
       [reflexivity | exfalso; apply andb_false_iff in R; destruct R as [R|R]; apply Z.leb_gt in R; lia]).
Qed.

Definition bytes (s : str) : Prop := Forall (fun b => 0 <= b < 256) s.

Lemma unhex_hexdig : forall d, 0 <= d < 16 -> unhex (hexdig d) = Some d.
Proof.
  intros d Hd. assert (d = 0 \/ d = 1 \/ d = 2 \/ d = 3 \/ d = 4 \/ d = 5 \/ d = 6 \/ d = 7 \/ d = 8 \/ d = 9 \/ d = 10 \/ d = 11 \/ d = 12 \/ d = 13 \/ d = 14 \/ d = 15) by lia.
  repeat (destruct H as [H|H]; [subst; reflexivity|]). subst; reflexivity.
Qed.
Lemma hexdig_digitish : forall d, 0 <= d < 16 -> digitish (hexdig d).
Proof. intros d Hd. unfold hexdig, digitish. destruct (d <? 10) eqn:E; [apply Z.ltb_lt in E|apply Z.ltb_ge in E]; lia. Qed.

Lemma hex_of_digits : forall s, bytes s -> Forall digitish (hex_of s).
Proof.
  induction s; intro H; simpl; auto. inversion H; subst.
  constructor; [apply hexdig_digitish; lia|]. constructor; [apply hexdig_digitish; lia|]. auto.
Qed.
Lemma hex_of_length : forall s, length (hex_of s) = (2 * length s)%nat.
Proof. induction s; simpl; auto. rewrite IHs. lia. Qed.

Lemma hex_decode_hex_of : forall s n acc, bytes s -> (n + length s <= 16)%nat ->
  hex_decode n (hex_of s) acc = Ok (rev acc ++ s).
Proof.
  induction s as [|b s IH]; intros n acc Hb Hn; cbn [hex_of hex_decode].
  - rewrite app_nil_r. reflexivity.
  - inversion Hb; subst. rewrite !unhex_hexdig by lia.
    destruct (Nat.leb 16 n) eqn:E. { apply Nat.leb_le in E. simpl in Hn. lia. }
    rewrite IH; auto. 2:{ simpl in Hn. lia. } cbn [rev]. rewrite <- app_assoc. cbn [app].
    replace (b / 16 * 16 + b mod 16) with b by lia. reflexivity.
Qed.

Lemma digitish_clean : forall s, Forall digitish s -> ~ In TAB s /\ ~ In LF s /\ ~ In CR s.
Proof.
  intros s H. rewrite Forall_forall in H. unfold TAB, LF, CR, digitish in *.
  repeat split; intro Hi; apply H in Hi; lia.
Qed.

Lemma number_codecs :
  (forall n, - 2 ^ 63 <= n <= 2 ^ 63 - 1 -> atoi (dec n) = Some n) /\
  (forall s, bytes s -> (length s <= 16)%nat -> hex_decode 0 (hex_of s) [] = Ok s).
Proof. split; [exact atoi_dec|]. intros s B L. exact (hex_decode_hex_of s 0 [] B L). Qed.

Lemma unhex_range : forall c d, unhex c = Some d -> 0 <= d < 16.
Proof.
  intros c d. unfold unhex.
  destruct ((48 <=? c) && (c <=? 57)) eqn:A. { apply andb_true_iff in A. destruct A as (A1 & A2). apply Z.leb_le in A1. apply Z.leb_le in A2. intro H; inversion H; lia. }
  destruct ((97 <=? c) && (c <=? 102)) eqn:B. { apply andb_true_iff in B. destruct B as (B1 & B2). apply Z.leb_le in B1. apply Z.leb_le in B2. intro H; inversion H; lia. }
  destruct ((65 <=? c) && (c <=? 70)) eqn:C; [|discriminate]. apply andb_true_iff in C. destruct C as (C1 & C2). apply Z.leb_le in C1. apply Z.leb_le in C2. intro H; inversion H; lia.
Qed.
Lemma hex_decode_bytes : forall k s n acc b, (length s <= k)%nat -> bytes acc -> hex_decode n s acc = Ok b -> bytes b.
Proof.
  induction k; intros s n acc b L A H.
  - destruct s; [|simpl in L; lia]. cbn [hex_decode] in H. inversion H; subst. apply Forall_rev. exact A.
  - destruct s as [|p [|q t]]; cbn [hex_decode] in H.
    + inversion H; subst. apply Forall_rev. exact A.
    + destruct (unhex p); discriminate.
    + destruct (unhex p) as [a|] eqn:Hp; [|discriminate]. destruct (unhex q) as [c|] eqn:Hq; [|discriminate].
      destruct (Nat.leb 16 n); [discriminate|]. eapply IHk; [| |exact H]. { simpl in L. lia. }
      constructor; auto. apply unhex_range in Hp. apply unhex_range in Hq. lia.
Qed.
