(** C07 — the invariant is preserved by UnmarshalText, NewHeader and
    DecodeBinary; none of them panics. *)
From Coq Require Import ZArith List Bool Lia.
From Hts Require Import Base.Prim Model.Header Proofs.HeaderBase Proofs.HeaderInv Proofs.HeaderInv2 Proofs.HeaderWorld.
Import ListNotations.
Open Scope Z_scope.
Arguments mset : simpl never.
Arguments mget : simpl never.

Definition benign {A} (x : outcome A) : Prop := match x with Ok _ | Err _ => True | _ => False end.

Lemma hex_decode_benign : forall k s n acc, (length s <= k)%nat -> (2 * n + length s <= 32)%nat -> benign (hex_decode n s acc).
Proof.
  induction k; intros s n acc L B.
  - destruct s; [exact Logic.I|simpl in L; lia].
  - destruct s as [|p [|q t]]; cbn [hex_decode benign]; try exact Logic.I.
    + destruct (unhex p); exact Logic.I.
    + destruct (unhex p); [|exact Logic.I]. destruct (unhex q); [|exact Logic.I].
      destruct (Nat.leb 16 n) eqn:E. { apply Nat.leb_le in E. simpl in B. lia. }
      apply IHk; simpl in *; lia.
Qed.

Section Parse.
  Variable parse_time : str -> option str.
  Variable parse_uri : str -> option str.

  Lemma sq_fields_benign : forall fs o seen nok lok, benign (sq_fields parse_uri o seen nok lok fs).
  Proof.
    induction fs as [|f l IH]; intros; simpl; [exact Logic.I|].
    destruct (split_field f) as [[t v]|]; [|exact Logic.I].
    destruct (mem_tag t seen); [exact Logic.I|].
    destruct (tag_eqb t tSN); [apply IH|].
    destruct (tag_eqb t tLN). { destruct (atoi v); [|exact Logic.I]. destruct (valid_len z); [apply IH|exact Logic.I]. }
    destruct (tag_eqb t tAS); [apply IH|].
    destruct (tag_eqb t tM5).
    { destruct (32 <? zlen v) eqn:E; [exact Logic.I|]. apply Z.ltb_ge in E. unfold zlen in E.
      assert (B := hex_decode_benign (length v) v 0 [] (le_n _) ltac:(lia)).
      destruct (hex_decode 0 v []); try contradiction; try exact Logic.I.
      destruct (Nat.eqb (length a) 16); [apply IH|exact Logic.I]. }
    destruct (tag_eqb t tSP); [apply IH|].
    destruct (tag_eqb t tUR). { destruct (parse_uri v); [apply IH|exact Logic.I]. }
    apply IH.
  Qed.

  Lemma rg_fields_spec : forall fs names o seen idok,
    (idok = true -> mget (o_name o) names = None) ->
    match rg_fields parse_time names o seen idok fs with
    | Ok (o', idok') => idok' = true -> mget (o_name o') names = None
    | Err _ => True
    | _ => False
    end.
  Proof.
    induction fs as [|f l IH]; intros names o seen idok H; simpl; [exact H|].
    destruct (split_field f) as [[t v]|]; [|exact Logic.I].
    destruct (mem_tag t seen); [exact Logic.I|].
    destruct (tag_eqb t tID). { destruct (mget v names) eqn:M; [exact Logic.I|]. apply IH. intros _. exact M. }
    destruct (tag_eqb t tDT). { destruct (parse_time v); [|exact Logic.I]. apply IH. exact H. }
    destruct (tag_eqb t tPI). { destruct (atoi v); [|exact Logic.I]. destruct (valid_int32 z); [|exact Logic.I]. apply IH. exact H. }
    destruct (rg_plain t); apply IH; exact H.
  Qed.

  Lemma pg_fields_spec : forall fs names o seen idok,
    (idok = true -> mget (o_name o) names = None) ->
    match pg_fields names o seen idok fs with
    | Ok (o', idok') => idok' = true -> mget (o_name o') names = None
    | Err _ => True
    | _ => False
    end.
  Proof.
    induction fs as [|f l IH]; intros names o seen idok H; simpl; [exact H|].
    destruct (split_field f) as [[t v]|]; [|exact Logic.I].
    destruct (mem_tag t seen); [exact Logic.I|].
    destruct (tag_eqb t tID). { destruct (mget v names) eqn:M; [exact Logic.I|]. apply IH. intros _. exact M. }
    destruct (tag_eqb t tPN); [apply IH; exact H|].
    destruct (tag_eqb t tCL); [apply IH; exact H|].
    destruct (tag_eqb t tPP); [apply IH; exact H|].
    destruct (tag_eqb t tVN); apply IH; exact H.
  Qed.

  Lemma hd_fields_tbls : forall fs hd, let hd' := fst (hd_fields hd fs) in
    h_R hd' = h_R hd /\ h_G hd' = h_G hd /\ h_P hd' = h_P hd.
  Proof.
    induction fs as [|f l IH]; intros hd; simpl; [auto|].
    destruct (split_field f) as [[t v]|]; simpl; [|auto].
    destruct (tag_eqb t tVN). { destruct (negb (is_empty (h_vn hd))); simpl; [auto|]. apply (IH (set_hd hd v (h_so hd) (h_go hd) (h_other hd))). }
    destruct (tag_eqb t tSO). { destruct (negb (h_so hd =? 0)); simpl; [auto|]. apply (IH (set_hd hd (h_vn hd) (so_parse v) (h_go hd) (h_other hd))). }
    destruct (tag_eqb t tGO). { destruct (negb (h_go hd =? 0)); simpl; [auto|]. apply (IH (set_hd hd (h_vn hd) (h_so hd) (go_parse v) (h_other hd))). }
    apply (IH (set_hd hd (h_vn hd) (h_so hd) (h_go hd) (h_other hd ++ [(t, v)]))).
  Qed.

  Lemma install_new_K : forall {P} tbls (st : list (obj P)) h t o st' t',
    KInv tbls st -> nth_error tbls h = Some t -> mget (o_name o) (t_seen t) = None ->
    install_new h st t o = (st', t') -> KInv (upd tbls h t') st' /\ (length st <= length st')%nat.
  Proof.
    intros P tbls st h t o st' t' K Ht M E. unfold install_new in E.
    destruct (add_fresh 0 h (st ++ [with_ident o None (-1)]) t (length st) (with_ident o None (-1))) as [[st1 t1] e] eqn:A.
    inversion E; subst st1 t1. split.
    - eapply KInv_add_fresh; [exact (KInv_alloc tbls st (with_ident o None (-1)) K eq_refl) | exact Ht | apply nth_error_app_last | exact M | exact A].
    - unfold add_fresh in A. destruct (owned _ || _); inversion A; subst; rewrite ?upd_length, app_length; simpl; lia.
  Qed.

  Lemma reference_line_good : forall w h l, WInv w -> (h < length (w_h w))%nat -> Good w (reference_line parse_uri w h l).
  Proof.
    intros w h l I Lh. unfold reference_line. destruct (nth_error_lt _ _ Lh) as (hd & Hh). rewrite Hh.
    assert (GW : Good w (Ok (w, eBadHeader))) by (eexists _, _; split; [reflexivity|]; split; [assumption|apply Ext_refl]).
    destruct (split TAB l) as [|f0 [|f1 [|f2 fs]]]; try exact GW.
    assert (B := sq_fields_benign (f1 :: f2 :: fs) (mkObj None 0 [] (mkRef 0 [] [] [] None [])) [] false false).
    destruct (sq_fields parse_uri _ _ _ _ _) as [[[rf nok] lok]|e| |]; try contradiction.
    2:{ eexists _, _; split; [reflexivity|]; split; [assumption|apply Ext_refl]. }
    destruct (negb nok || negb lok); [exact GW|].
    assert (KR := proj1 I). assert (Ht : nth_error (map h_R (w_h w)) h = Some (h_R hd)) by (rewrite nth_error_map, Hh; reflexivity).
    assert (TI := proj1 KR _ _ Ht).
    destruct (mget (o_name rf) (t_seen (h_R hd))) as [dupID|] eqn:M.
    - apply (ti_seen _ _ _ TI) in M. destruct M as (d & erh & er & Hd & Her & Hn & Hv). subst dupID.
      rewrite idx_of_nat, Hd, Her.
      destruct (equal_refs er (with_ident rf None (Z.of_nat d))). { eexists _, _; split; [reflexivity|]; split; [assumption|apply Ext_refl]. }
      destruct (negb (equal_refs er _)). { eexists _, _; split; [reflexivity|]; split; [assumption|apply Ext_refl]. }
      unfold install_over. rewrite Nat2Z.id.
      eexists _, _. split; [reflexivity|]. split; [|ext_tac].
      apply WInv_R; auto.
      assert (Le : (erh < length (w_r w))%nat) by (apply nth_error_Some; congruence).
      refine (KInv_install_over (map h_R (w_h w)) (w_r w ++ [with_ident rf None (Z.of_nat d)]) h (h_R hd) d (length (w_r w))
                (with_ident rf None (Z.of_nat d)) erh er _ _ _ Ht _ eq_refl Hd _ (with_ident rf None (Z.of_nat d)) _ eq_refl).
      + apply KInv_alloc; auto.
      + apply nth_error_app_last.
      + rewrite nth_error_app1; auto.
      + simpl. congruence.
    - destruct (add_fresh eUsedRef h (w_r w ++ [with_ident rf None (-1)]) (h_R hd) (length (w_r w)) (with_ident rf None (-1))) as [[st1 t1] e] eqn:A.
      eexists _, _. split; [reflexivity|]. split.
      + apply WInv_R; auto. eapply KInv_add_fresh; [exact (KInv_alloc _ _ (with_ident rf None (-1)) KR eq_refl) | exact Ht | apply nth_error_app_last | exact M | exact A].
      + unfold add_fresh in A. destruct (owned _ || _); inversion A; subst; ext_tac.
  Qed.

  Lemma read_group_line_good : forall w h l, WInv w -> (h < length (w_h w))%nat -> Good w (read_group_line parse_time w h l).
  Proof.
    intros w h l I Lh. unfold read_group_line. destruct (nth_error_lt _ _ Lh) as (hd & Hh). rewrite Hh.
    assert (GW : forall e, Good w (Ok (w, e))) by (intro; eexists _, _; split; [reflexivity|]; split; [assumption|apply Ext_refl]).
    destruct (split TAB l) as [|f0 [|f1 fs]]; try apply GW.
    assert (B := rg_fields_spec (f1 :: fs) (t_seen (h_G hd)) (mkObj None 0 [] (mkRG [] [] None [] [] [] [] 0 [] [] [] [])) [] false ltac:(discriminate)).
    destruct (rg_fields parse_time _ _ _ _ _) as [[g idok]|e| |]; try contradiction; [|apply GW].
    destruct idok; cbn [negb]; [|apply GW].
    destruct (install_new h (w_g w) (h_G hd) g) as [st' t'] eqn:E.
    destruct (install_new_K (map h_G (w_h w)) (w_g w) h (h_G hd) g st' t') as (K & L); auto.
    { apply I. } { rewrite nth_error_map, Hh; reflexivity. }
    eexists _, _. split; [reflexivity|]. split; [apply WInv_G; auto|ext_tac].
  Qed.

  Lemma program_line_good : forall w h l, WInv w -> (h < length (w_h w))%nat -> Good w (program_line w h l).
  Proof.
    intros w h l I Lh. unfold program_line. destruct (nth_error_lt _ _ Lh) as (hd & Hh). rewrite Hh.
    assert (GW : forall e, Good w (Ok (w, e))) by (intro; eexists _, _; split; [reflexivity|]; split; [assumption|apply Ext_refl]).
    destruct (split TAB l) as [|f0 [|f1 fs]]; try apply GW.
    assert (B := pg_fields_spec (f1 :: fs) (t_seen (h_P hd)) (mkObj None 0 [] (mkPG [] [] [] [] [])) [] false ltac:(discriminate)).
    destruct (pg_fields _ _ _ _ _) as [[g idok]|e| |]; try contradiction; [|apply GW].
    destruct idok; cbn [negb]; [|apply GW].
    destruct (install_new h (w_p w) (h_P hd) g) as [st' t'] eqn:E.
    destruct (install_new_K (map h_P (w_h w)) (w_p w) h (h_P hd) g st' t') as (K & L); auto.
    { apply I. } { rewrite nth_error_map, Hh; reflexivity. }
    eexists _, _. split; [reflexivity|]. split; [apply WInv_P; auto|ext_tac].
  Qed.

  Lemma text_line_good : forall w h l, WInv w -> (h < length (w_h w))%nat -> Good w (text_line parse_time parse_uri w h l).
  Proof.
    intros w h l I Lh. unfold text_line.
    assert (GW : forall e, Good w (Ok (w, e))) by (intro; eexists _, _; split; [reflexivity|]; split; [assumption|apply Ext_refl]).
    destruct (strip_cr l) as [|c0 [|c1 [|c2 rest]]]; try apply GW.
    destruct (negb (c0 =? AT)); [apply GW|].
    destruct (tag_eqb (c1, c2) tHD).
    { destruct (nth_error_lt _ _ Lh) as (hd & Hh). rewrite Hh. unfold header_line.
      destruct (split TAB _) as [|f0 [|f1 fs]].
      - eexists _, _. split; [reflexivity|]. split; [eapply WInv_put_same; eauto|apply Ext_put].
      - eexists _, _. split; [reflexivity|]. split; [eapply WInv_put_same; eauto|apply Ext_put].
      - destruct (hd_fields hd (f1 :: fs)) as [hd' e] eqn:E. assert (T := hd_fields_tbls (f1 :: fs) hd). rewrite E in T. simpl in T.
        destruct T as (T1 & T2 & T3). destruct (e =? 0); eexists _, _; (split; [reflexivity|]); (split; [eapply WInv_put_same; eauto|apply Ext_put]). }
    destruct (tag_eqb (c1, c2) tSQ); [apply reference_line_good; auto|].
    destruct (tag_eqb (c1, c2) tRG); [apply read_group_line_good; auto|].
    destruct (tag_eqb (c1, c2) tPG); [apply program_line_good; auto|].
    destruct (tag_eqb (c1, c2) tCO); [|apply GW].
    unfold comment_line. destruct (nth_error_lt _ _ Lh) as (hd & Hh). rewrite Hh.
    destruct (split2 TAB _) as [|a [|b [|c d]]]; try apply GW.
    eexists _, _. split; [reflexivity|]. split; [eapply WInv_put_same; eauto|apply Ext_put].
  Qed.

  Lemma text_lines_good : forall ls w h, WInv w -> (h < length (w_h w))%nat -> Good w (text_lines parse_time parse_uri w h ls).
  Proof.
    induction ls as [|l ls IH]; intros w h I Lh; simpl.
    - eexists _, _. split; [reflexivity|]. split; [assumption|apply Ext_refl].
    - destruct (text_line_good w h l I Lh) as (w' & e & R & I' & X). rewrite R.
      destruct (e =? 0).
      + destruct (IH w' h I') as (w'' & e'' & R' & I'' & X'). { destruct X; lia. }
        eexists _, _. split; [exact R'|]. split; [assumption|eapply Ext_trans; eauto].
      + eexists _, _. split; [reflexivity|]. split; assumption.
  Qed.

  Lemma unmarshal_text_good : forall w h t, WInv w -> (h < length (w_h w))%nat -> Good w (unmarshal_text parse_time parse_uri w h t).
  Proof. intros. apply text_lines_good; assumption. Qed.

  (** *** NewHeader *)
  Lemma nh_validate_spec : forall rs (st : list (obj refpay)) seen0 i0,
    (forall r, In r rs -> (r < length st)%nat) ->
    exists seenF e, nh_validate st seen0 i0 rs = Ok (seenF, e) /\
    (e = 0 ->
      (forall j r, nth_error rs j = Some r -> exists o, nth_error st r = Some o /\ o_owner o = None /\
                   mget (o_name o) seen0 = None /\ mget (o_name o) seenF = Some (i0 + Z.of_nat j)) /\
      (forall k, (forall j r o, nth_error rs j = Some r -> nth_error st r = Some o -> o_name o <> k) -> mget k seenF = mget k seen0)).
  Proof.
    induction rs as [|r l IH]; intros st seen0 i0 V; simpl.
    - exists seen0, 0. split; auto. intros _. split; [intros j r H; destruct j; discriminate|auto].
    - destruct (nth_error_lt st r (V r (or_introl eq_refl))) as (o & Ho). rewrite Ho.
      destruct (owned o || (0 <=? o_id o)) eqn:G. { eexists _, _. split; [reflexivity|]. discriminate. }
      destruct (mget (o_name o) seen0) eqn:M. { eexists _, _. split; [reflexivity|]. discriminate. }
      destruct (IH st (mset (o_name o) i0 seen0) (i0 + 1)) as (seenF & e & R & SS). { intros; apply V; right; assumption. }
      exists seenF, e. split; [exact R|]. intro E0. destruct (SS E0) as (S1 & S2).
      apply orb_false_iff in G. destruct G as (G1 & G2).
      assert (NN : forall j x ox, nth_error l j = Some x -> nth_error st x = Some ox -> o_name ox <> o_name o).
      { intros j x ox Hj Hx E. destruct (S1 _ _ Hj) as (ox' & Hox' & _ & Mx & _). rewrite Hx in Hox'. inversion Hox'; subst ox'.
        rewrite E, mget_mset_eq in Mx. discriminate. }
      split.
      + intros j x Hj. destruct j; simpl in Hj.
        * inversion Hj; subst x. exists o. split; auto. split; [unfold owned in G1; destruct (o_owner o); congruence|]. split; auto.
          rewrite S2. rewrite mget_mset_eq. f_equal. lia. intros; eapply NN; eauto.
        * destruct (S1 _ _ Hj) as (ox & Hox & Hw & Mx & MF). exists ox. split; auto. split; auto. split.
          -- rewrite mget_mset_ne in Mx; auto. eapply NN; eauto.
          -- rewrite MF. f_equal. lia.
      + intros k Hk. rewrite S2.
        * apply mget_mset_ne. intro E. eapply (Hk 0%nat r o); auto.
        * intros j x ox Hj Hx. eapply (Hk (S j)); eauto.
  Qed.

  Lemma nh_claim_spec : forall rs h (st : list (obj refpay)) i0,
    NoDup rs -> (forall r, In r rs -> (r < length st)%nat) ->
    let st' := nh_claim h st i0 rs in
    length st' = length st /\
    (forall x, ~ In x rs -> nth_error st' x = nth_error st x) /\
    (forall j r o, nth_error rs j = Some r -> nth_error st r = Some o -> nth_error st' r = Some (with_ident o (Some h) (i0 + Z.of_nat j))).
  Proof.
    induction rs as [|r l IH]; intros h st i0 ND V; simpl.
    - repeat split; auto. intros j r o H; destruct j; discriminate.
    - destruct (nth_error_lt st r (V r (or_introl eq_refl))) as (o & Ho). rewrite Ho.
      inversion ND as [|? ? Hnin ND']; subst.
      destruct (IH h (upd st r (with_ident o (Some h) i0)) (i0 + 1) ND') as (L & U & C).
      { intros x Hx. rewrite upd_length. apply V. right; assumption. }
      rewrite upd_length in L. split; [exact L|]. split.
      + intros x Hx. rewrite U by (intro; apply Hx; right; assumption). apply nth_error_upd_ne. intro; subst. apply Hx. left; reflexivity.
      + intros j x ox Hj Hx. destruct j; simpl in Hj.
        * inversion Hj; subst x. rewrite Ho in Hx. inversion Hx; subst ox. rewrite U by assumption.
          rewrite nth_error_upd_eq by (apply V; left; reflexivity). f_equal. f_equal. lia.
        * assert (x <> r) by (intro; subst; apply Hnin; eapply nth_error_In; eauto).
          rewrite (C j x ox); auto. f_equal. f_equal. lia. rewrite nth_error_upd_ne; auto.
  Qed.

  Lemma new_header_good : forall w text rs, WInv w -> (forall r, In r rs -> (r < length (w_r w))%nat) ->
    exists w' e, new_header parse_time parse_uri w text rs = Ok (w', e) /\ WInv w' /\ Ext w w' /\
                 (e = 0 -> (length (w_h w) < length (w_h w'))%nat).
  Proof.
    intros w text rs I V. unfold new_header.
    destruct (nh_validate_spec rs (w_r w) [] 0 V) as (seenF & e & R & SS). rewrite R.
    destruct (e =? 0) eqn:E0; simpl.
    2:{ eexists _, _. split; [reflexivity|]. split; [assumption|]. split; [apply Ext_refl|]. intro; subst; discriminate. }
    apply Z.eqb_eq in E0. destruct (SS E0) as (S1 & S2). clear SS.
    assert (ND : NoDup rs).
    { apply NoDup_nth_error. intros a b La E. destruct (nth_error rs a) as [x|] eqn:Ha; [|apply nth_error_None in Ha; lia].
      symmetry in E. destruct (S1 _ _ Ha) as (o & Ho & _ & _ & Ma). destruct (S1 _ _ E) as (o' & Ho' & _ & _ & Mb).
      rewrite Ho in Ho'. inversion Ho'; subst o'. rewrite Ma in Mb. inversion Mb. lia. }
    destruct (nh_claim_spec rs (length (w_h w)) (w_r w) 0 ND V) as (L & U & C).
    set (w1 := mkW (w_h w ++ [mkHdr [] 0 0 [] (mkTbl rs seenF) tbl0 tbl0 []]) (nh_claim (length (w_h w)) (w_r w) 0 rs) (w_g w) (w_p w)).
    assert (I1 : WInv w1).
    { destruct I as (KR & KG & KP). unfold WInv, w1; simpl. rewrite !map_app; simpl. split; [|split; apply KInv_empty_tbl; assumption].
      assert (KA := KInv_app_tbl (map h_R (w_h w)) (w_r w) (nh_claim (length (w_h w)) (w_r w) 0 rs) (mkTbl rs seenF) KR).
      rewrite map_length in KA. apply KA; clear KA.
      - split; cbn [t_items t_seen].
        + intros j r Hj. destruct (S1 _ _ Hj) as (o & Ho & Hw & _ & _). eexists. split; [eapply C; eauto|]. simpl. split; auto.
        + intros k v. split.
          * intro Hm.
            destruct (existsb (fun j => match nth_error rs j with Some r => match nth_error (w_r w) r with Some o => str_eqb (o_name o) k | None => false end | None => false end) (seq 0 (length rs))) eqn:EX.
            -- apply existsb_exists in EX. destruct EX as (j & _ & Hj). destruct (nth_error rs j) as [r|] eqn:Hr; [|discriminate].
               destruct (nth_error (w_r w) r) as [o|] eqn:Ho; [|discriminate]. apply str_eqb_eq in Hj. subst k.
               destruct (S1 _ _ Hr) as (o' & Ho' & _ & _ & MF). rewrite Ho in Ho'. inversion Ho'; subst o'. rewrite MF in Hm. inversion Hm; subst v.
               exists j, r, (with_ident o (Some (length (w_h w))) (0 + Z.of_nat j)). split; [exact Hr|]. split; [exact (C _ _ _ Hr Ho)|]. split; reflexivity.
            -- rewrite S2 in Hm. discriminate. intros j r o Hj Ho E. subst k.
               assert (existsb (fun j => match nth_error rs j with Some r => match nth_error (w_r w) r with Some o0 => str_eqb (o_name o0) (o_name o) | None => false end | None => false end) (seq 0 (length rs)) = true); [|congruence].
               apply existsb_exists. exists j. split. apply in_seq. split; [lia|]. simpl. apply nth_error_Some. congruence.
               rewrite Hj, Ho. apply str_eqb_refl.
          * intros (j & r & o' & Hj & Ho' & Hk & Hv). destruct (S1 _ _ Hj) as (o & Ho & _ & _ & MF).
            rewrite (C _ _ _ Hj Ho) in Ho'. inversion Ho'; subst o'. simpl in Hk. subst k v. rewrite MF. f_equal.
      - intros r o h' Ho Hw. rewrite U; auto. intro Hin. apply In_nth_error in Hin. destruct Hin as (j & Hj).
        destruct (S1 _ _ Hj) as (o' & Ho' & Hw' & _). congruence.
      - intros r o' h0 Ho Hw. destruct (in_dec Nat.eq_dec r rs) as [Hin|Hnin].
        + left. apply In_nth_error in Hin. destruct Hin as (j & Hj). destruct (S1 _ _ Hj) as (o & Hor & _).
          rewrite (C _ _ _ Hj Hor) in Ho. inversion Ho; subst o'. simpl in *. inversion Hw; subst h0.
          split; auto. rewrite Nat2Z.id. split; auto. lia.
        + right. rewrite U in Ho; auto. }
    assert (X1 : Ext w w1) by (unfold Ext, w1; simpl; rewrite app_length; simpl; lia).
    destruct text as [t|].
    - destruct (unmarshal_text_good w1 (length (w_h w)) t I1) as (w' & e' & R' & I' & X'). { unfold w1; simpl. rewrite app_length; simpl; lia. }
      eexists _, _. split; [exact R'|]. split; auto. split; [eapply Ext_trans; eauto|]. intros _. destruct X' as (X' & _). unfold w1 in X'; simpl in X'. rewrite app_length in X'; simpl in X'. lia.
    - eexists _, _. split; [reflexivity|]. split; auto. split; auto. intros _. unfold w1; simpl. rewrite app_length; simpl; lia.
  Qed.

  (** *** DecodeBinary *)
  Lemma read_ref_records_spec : forall fuel i n s acc,
    (length s < fuel)%nat -> (forall o, In o acc -> o_owner o = None) ->
    match read_ref_records fuel i n s acc with
    | Ok rs => forall o, In o rs -> o_owner o = None
    | Err _ => True
    | _ => False
    end.
  Proof.
    induction fuel; intros i n s acc L A; [lia|]. simpl.
    destruct (n <=? i). { intros o Ho. apply in_rev in Ho. auto. }
    unfold rd32. destruct s as [|a [|b [|c [|d s1]]]]; try exact Logic.I.
    destruct (_ <? 1); [exact Logic.I|].
    match goal with |- context [rd_n ?x s1] => destruct (rd_n x s1) as [[nm s2]|] eqn:RN end; [|exact Logic.I].
    destruct (negb (last nm 1 =? 0)); [exact Logic.I|].
    destruct s2 as [|a2 [|b2 [|c2 [|d2 s3]]]]; try exact Logic.I.
    apply IHfuel.
    - unfold rd_n in RN. destruct s1; [discriminate|]. destruct (_ <? _); [discriminate|]. inversion RN.
      assert (length (a2 :: b2 :: c2 :: d2 :: s3) <= length (z :: s1))%nat by (rewrite <- H1; rewrite skipn_length; lia).
      simpl in *. lia.
    - intros o [E|Ho]; [subst; reflexivity|auto].
  Qed.

  Lemma add_all_good : forall rs w h, WInv w -> (h < length (w_h w))%nat -> (forall o, In o rs -> o_owner o = None) ->
    Good w (add_all w h rs).
  Proof.
    induction rs as [|o l IH]; intros w h I Lh U; simpl.
    - eexists _, _. split; [reflexivity|]. split; [assumption|apply Ext_refl].
    - destruct (alloc_ref_good w o I (U o (or_introl eq_refl))) as (I1 & X1).
      destruct (add_reference_good (set_r w (w_r w ++ [o])) h (length (w_r w)) I1) as (w' & e & R & I' & X'); simpl; auto.
      { rewrite app_length; simpl; lia. }
      rewrite R. destruct (e =? 0).
      + destruct (IH w' h I') as (w'' & e'' & R'' & I'' & X''). { destruct X' as (X' & _). simpl in X'. lia. } { intros; apply U; right; assumption. }
        eexists _, _. split; [exact R''|]. split; auto. eapply Ext_trans; [exact X1|]. eapply Ext_trans; eauto.
      + eexists _, _. split; [reflexivity|]. split; auto. eapply Ext_trans; eauto.
  Qed.

  Lemma decode_binary_good : forall w b,
    WInv w -> exists w' e, decode_binary parse_time parse_uri w b = Ok (w', e) /\ WInv w' /\ Ext w w' /\ (length (w_h w) < length (w_h w'))%nat.
  Proof.
    intros w b I. unfold decode_binary.
    set (w0 := set_h w (w_h w ++ [hdr0])).
    assert (I0 : WInv w0).
    { destruct I as (KR & KG & KP). unfold WInv, w0; simpl. rewrite !map_app; simpl. split; [|split]; apply KInv_empty_tbl; assumption. }
    assert (X0 : Ext w w0) by (unfold Ext, w0; simpl; rewrite app_length; simpl; lia).
    assert (L0 : (length (w_h w) < length (w_h w0))%nat) by (unfold w0; simpl; rewrite app_length; simpl; lia).
    assert (G0 : forall e : Z, exists (w' : world) (e' : Z), Ok (w0, e) = Ok (w', e') /\ WInv w' /\ Ext w w' /\ (length (w_h w) < length (w_h w'))%nat) by (intro; eexists _, _; split; [reflexivity|]; auto).
    destruct (rd_n 4 b) as [[m s0]|]; [|apply G0].
    destruct (negb (str_eqb m bam_magic)); [apply G0|].
    destruct (rd32 s0) as [[ltext s1]|]; [|apply G0].
    destruct (ltext <? 0); [apply G0|].
    destruct (rd_n ltext s1) as [[text s2]|]; [|apply G0].
    destruct (unmarshal_text_good w0 (length (w_h w)) text I0 L0) as (w1 & e & R & I1 & X1). rewrite R.
    assert (L1 : (length (w_h w) < length (w_h w1))%nat) by (destruct X1; lia).
    assert (G1 : forall e : Z, exists (w' : world) (e' : Z), Ok (w1, e) = Ok (w', e') /\ WInv w' /\ Ext w w' /\ (length (w_h w) < length (w_h w'))%nat).
    { intro; eexists _, _; split; [reflexivity|]. split; auto. split; auto. eapply Ext_trans; eauto. }
    destruct (negb (e =? 0)); [apply G1|].
    destruct (rd32 s2) as [[nref s3]|]; [|apply G1].
    destruct (nref <? 0); [apply G1|].
    assert (RR := read_ref_records_spec (S (length s3)) 0 nref s3 [] ltac:(lia) ltac:(intros o H; destruct H)).
    destruct (read_ref_records _ _ _ _ _) as [rs|e'| |]; try contradiction; [|apply G1].
    destruct (add_all_good rs w1 (length (w_h w)) I1 L1 RR) as (w2 & e2 & R2 & I2 & X2).
    eexists _, _. split; [exact R2|]. split; auto. split; [eapply Ext_trans; eauto; eapply Ext_trans; eauto|]. destruct X2; lia.
  Qed.
End Parse.
