(** C07 — text round trip: parsing the text a header marshals to rebuilds a
    header with the same exposed values, hence the same text and binary. *)
From Coq Require Import ZArith List Bool Lia.
From Hts Require Import Base.Prim Model.Header Proofs.HeaderBase Proofs.HeaderInv Proofs.HeaderInv2 Proofs.HeaderWorld
     Proofs.HeaderParse Proofs.HeaderText Proofs.HeaderNum Proofs.HeaderLoop Proofs.HeaderFields.
Import ListNotations.
Open Scope Z_scope.
Arguments mset : simpl never.
Arguments mget : simpl never.
Arguments atoi : simpl never.
Arguments dec : simpl never.
Arguments hex_of : simpl never.
Arguments hex_decode : simpl never.

(** *** cleanliness of printed fields and lines *)
Lemma clean_cons : forall c s, c <> TAB -> c <> LF -> c <> CR -> clean s -> clean (c :: s).
Proof. intros c s H1 H2 H3 (A & B & C). repeat split; intros [E|E]; auto; congruence. Qed.
Lemma clean_nil : clean [].
Proof. repeat split; intros []. Qed.
Lemma clean_body : forall t v, tclean t -> clean v -> clean (body t v).
Proof.
  intros [a b] v (A & B & C) Cv. unfold body. simpl in *.
  assert (a <> TAB /\ a <> LF /\ a <> CR /\ b <> TAB /\ b <> LF /\ b <> CR) as (a1 & a2 & a3 & b1 & b2 & b3).
  { repeat split; intro; subst; first [apply A; simpl; tauto | apply B; simpl; tauto | apply C; simpl; tauto]. }
  apply clean_cons; auto. apply clean_cons; auto. apply clean_cons; try discriminate. exact Cv.
Qed.
Lemma tclean_const : forall a b, a <> TAB -> a <> LF -> a <> CR -> b <> TAB -> b <> LF -> b <> CR -> tclean (a, b).
Proof. intros. unfold tclean. simpl. apply clean_cons; auto. apply clean_cons; auto. apply clean_nil. Qed.
Ltac tcl := apply tclean_const; discriminate.

Lemma clean_optf : forall t v f, tclean t -> clean v -> In f (optf t v) -> clean f.
Proof. intros t v f Ht Hv H. unfold optf in H. destruct (is_empty v); [destruct H|]. destruct H as [<-|[]]. apply clean_body; auto. Qed.
Lemma clean_others : forall K l f, others_ok K l -> In f (other_fields l) -> clean f.
Proof.
  intros K l f (H & _) Hin. unfold other_fields in Hin. apply in_map_iff in Hin. destruct Hin as (tp & <- & Hin).
  destruct (H tp Hin) as (_ & Ht & Hv). apply clean_body; auto.
Qed.
Lemma clean_digits : forall s, Forall digitish s -> clean s.
Proof. intros s H. apply digitish_clean. exact H. Qed.

(** a line: no LF, no CR (TAB allowed) *)
Definition lclean (l : str) : Prop := ~ In LF l /\ ~ In CR l.
Lemma lclean_render : forall h fs, clean h -> (forall f, In f fs -> clean f) -> lclean (render_line (h, fs)).
Proof.
  intros h fs (_ & HL & HC) Hf. unfold render_line, cf; simpl. split; intro Hi; apply in_app_or in Hi; destruct Hi as [Hi|Hi]; auto;
    apply in_concat_cons in Hi; (destruct Hi as [E|(f & Hin & Hx)]; [unfold LF, CR, TAB in E; discriminate|]); destruct (Hf f Hin) as (_ & A & B); auto.
Qed.

Section RT.
  Variable pt : str -> option str.
  Variable pu : str -> option str.

  Lemma ref_fields_clean : forall o f, WFref pu o -> In f (ref_fields o) -> clean f.
  Proof.
    intros [ow id name [len md5 as_ sp uri other]] f (Cn & Vl & Hm & Ca & Cs & Hu & Ho) Hin.
    unfold ref_fields in Hin. cbn [o_name o_pay rp_len rp_md5 rp_as rp_sp rp_uri rp_other] in *.
    repeat (apply in_app_or in Hin; destruct Hin as [Hin|Hin]).
    - destruct Hin as [<-|[<-|[]]]; apply clean_body; auto; try tcl. apply clean_digits. apply dec_digits.
    - destruct (is_empty md5) eqn:E; [destruct Hin|]. destruct Hin as [<-|[]]. apply clean_body; [tcl|].
      apply clean_digits. apply hex_of_digits. destruct Hm as [->|(_ & B)]; [discriminate|exact B].
    - apply (clean_optf tAS as_ f); [tcl|exact Ca|exact Hin].
    - apply (clean_optf tSP sp f); [tcl|exact Cs|exact Hin].
    - destruct uri as [u|]; [|destruct Hin]. destruct Hin as [<-|[]]. apply clean_body; [tcl|]. apply (Hu u eq_refl).
    - eapply clean_others; eauto.
  Qed.
  Lemma rg_fields_clean : forall o f, WFrg pt o -> In f (rg_fields_of o) -> clean f.
  Proof.
    intros [ow id name [cn ds dt fo ks lb pg pi pl pu' sm other]] f (C0 & C1 & C2 & Hd & C3 & C4 & C5 & C6 & Vp & C7 & C8 & C9 & Ho) Hin.
    unfold rg_fields_of in Hin. cbn [o_name o_pay g_cn g_ds g_dt g_fo g_ks g_lb g_pg g_pi g_pl g_pu g_sm g_other] in *.
    repeat (apply in_app_or in Hin; destruct Hin as [Hin|Hin]);
      try (eapply clean_optf; [| |exact Hin]; [tcl|assumption]).
    - destruct Hin as [<-|[]]. apply clean_body; auto. tcl.
    - destruct dt as [d|]; [|destruct Hin]. destruct Hin as [<-|[]]. apply clean_body; [tcl|]. apply (Hd d eq_refl).
    - destruct (pi =? 0); [destruct Hin|]. destruct Hin as [<-|[]]. apply clean_body; [tcl|]. apply clean_digits. apply dec_digits.
    - eapply clean_others; eauto.
  Qed.
  Lemma pg_fields_clean : forall o f, WFpg o -> In f (pg_fields_of o) -> clean f.
  Proof.
    intros [ow id name [pp pn cl vn other]] f (C0 & C1 & C2 & C3 & C4 & Ho) Hin.
    unfold pg_fields_of in Hin. cbn [o_name o_pay p_pp p_pn p_cl p_vn p_other] in *.
    repeat (apply in_app_or in Hin; destruct Hin as [Hin|Hin]);
      try (eapply clean_optf; [| |exact Hin]; [tcl|assumption]).
    - destruct Hin as [<-|[]]. apply clean_body; auto. tcl.
    - eapply clean_others; eauto.
  Qed.

  Lemma head_clean : forall a b, a <> TAB -> a <> LF -> a <> CR -> b <> TAB -> b <> LF -> b <> CR -> clean [AT; a; b].
  Proof. intros. apply clean_cons; try discriminate. apply clean_cons; auto. apply clean_cons; auto. apply clean_nil. Qed.

  (** *** one line of each kind, parsed into a header where the name is new *)
  Lemma objs_app : forall {P} (st : list (obj P)) items pre x,
    objs st items = Some pre -> objs (st ++ [x]) (items ++ [length st]) = Some (pre ++ [x]).
  Proof.
    intros P st. induction items as [|r l IH]; intros pre x H; simpl in *.
    - inversion H; subst. rewrite nth_error_app_last. reflexivity.
    - destruct (nth_error st r) as [o|] eqn:Hr; [|discriminate]. destruct (objs st l) as [os|] eqn:Ho; [|discriminate].
      inversion H; subst. rewrite nth_error_app1 by (apply nth_error_Some; congruence). rewrite Hr.
      rewrite (IH os x eq_refl). reflexivity.
  Qed.
  Lemma objs_nth : forall {P} (st : list (obj P)) items pre i r x,
    objs st items = Some pre -> nth_error items i = Some r -> nth_error st r = Some x -> nth_error pre i = Some x.
  Proof.
    intros P st. induction items as [|r0 l IH]; intros pre i r x H Hi Hx; simpl in *.
    - destruct i; discriminate.
    - destruct (nth_error st r0) as [o|] eqn:Hr; [|discriminate]. destruct (objs st l) as [os|] eqn:Ho; [|discriminate].
      inversion H; subst. destruct i; simpl in *.
      + inversion Hi; subst. congruence.
      + eapply IH; eauto.
  Qed.

  Lemma fresh_name : forall {P} h (st : list (obj P)) t pre n, TInv h st t -> objs st (t_items t) = Some pre ->
    ~ In n (map o_name pre) -> mget n (t_seen t) = None.
  Proof.
    intros P h st t pre n I Ho Hn. destruct (mget n (t_seen t)) eqn:M; auto. exfalso.
    apply (ti_seen _ _ _ I) in M. destruct M as (i & r & o & Hi & Hr & Hname & _).
    apply Hn. apply in_map_iff. exists o. split; auto. eapply nth_error_In. eapply objs_nth; eauto.
  Qed.

  Lemma strip_cr_lclean : forall l, lclean l -> strip_cr l = l.
  Proof. intros l (_ & H). apply strip_cr_clean. exact H. Qed.

  Definition same_but_R (hd hd' : hdr) : Prop :=
    h_vn hd' = h_vn hd /\ h_so hd' = h_so hd /\ h_go hd' = h_go hd /\ h_other hd' = h_other hd /\
    h_G hd' = h_G hd /\ h_P hd' = h_P hd /\ h_co hd' = h_co hd.

  Lemma ref_line_step : forall w h hd o,
    nth_error (w_h w) h = Some hd -> WFref pu o -> mget (o_name o) (t_seen (h_R hd)) = None ->
    text_line pt pu w h (ref_string o) =
    Ok (put_hdr (set_r w (w_r w ++ [mkObj (Some h) (zlen (t_items (h_R hd))) (o_name o) (o_pay o)])) h
                (set_R hd (mkTbl (t_items (h_R hd) ++ [length (w_r w)]) (mset (o_name o) (zlen (t_items (h_R hd))) (t_seen (h_R hd))))), 0).
  Proof.
    intros w h hd o Hh WF Hm.
    assert (FC := fun f => ref_fields_clean o f WF).
    assert (HC : clean [AT; 83; 81]) by (apply head_clean; discriminate).
    assert (LC := lclean_render _ _ HC FC). rewrite <- ref_string_render in LC.
    unfold text_line. rewrite strip_cr_lclean by exact LC.
    rewrite ref_string_render. unfold render_line. cbn [fst snd app].
    change (negb (AT =? AT)) with false. cbn [negb]. change (tag_eqb (83, 81) tHD) with false. change (tag_eqb (83, 81) tSQ) with true. cbn iota.
    unfold reference_line. rewrite Hh.
    change (AT :: 83 :: 81 :: cf (ref_fields o)) with ([AT; 83; 81] ++ cf (ref_fields o)).
    unfold cf. rewrite split_preceded; [|apply HC|intros f Hf; apply (FC f Hf)].
    assert (SR := sq_rebuild pu o WF).
    destruct (ref_fields o) as [|f1 [|f2 fs]] eqn:EF; try (unfold ref_fields in EF; discriminate).
    rewrite SR. cbn [negb orb o_name]. rewrite Hm.
    unfold add_fresh. cbn [owned with_ident o_owner o_id orb]. change (0 <=? -1) with false. cbn iota.
    rewrite upd_app_last. reflexivity.
  Qed.

  Lemma rg_line_step : forall w h hd o,
    nth_error (w_h w) h = Some hd -> WFrg pt o -> mget (o_name o) (t_seen (h_G hd)) = None ->
    text_line pt pu w h (rg_string o) =
    Ok (put_hdr (set_g w (w_g w ++ [mkObj (Some h) (zlen (t_items (h_G hd))) (o_name o) (o_pay o)])) h
                (set_G hd (mkTbl (t_items (h_G hd) ++ [length (w_g w)]) (mset (o_name o) (zlen (t_items (h_G hd))) (t_seen (h_G hd))))), 0).
  Proof.
    intros w h hd o Hh WF Hm.
    assert (FC := fun f => rg_fields_clean o f WF).
    assert (HC : clean [AT; 82; 71]) by (apply head_clean; discriminate).
    assert (LC := lclean_render _ _ HC FC). rewrite <- rg_string_render in LC.
    unfold text_line. rewrite strip_cr_lclean by exact LC.
    rewrite rg_string_render. unfold render_line. cbn [fst snd app].
    change (negb (AT =? AT)) with false. cbn [negb]. change (tag_eqb (82, 71) tHD) with false. change (tag_eqb (82, 71) tSQ) with false.
    change (tag_eqb (82, 71) tRG) with true. cbn iota.
    unfold read_group_line. rewrite Hh.
    change (AT :: 82 :: 71 :: cf (rg_fields_of o)) with ([AT; 82; 71] ++ cf (rg_fields_of o)).
    unfold cf. rewrite split_preceded; [|apply HC|intros f Hf; apply (FC f Hf)].
    assert (SR := rg_rebuild pt (t_seen (h_G hd)) o WF Hm).
    destruct (rg_fields_of o) as [|f1 fs] eqn:EF; try (unfold rg_fields_of in EF; discriminate).
    rewrite SR. cbn [negb]. unfold install_new, add_fresh. cbn [owned with_ident o_owner o_id o_name orb]. change (0 <=? -1) with false. cbn iota.
    rewrite upd_app_last. reflexivity.
  Qed.

  Lemma pg_line_step : forall w h hd o,
    nth_error (w_h w) h = Some hd -> WFpg o -> mget (o_name o) (t_seen (h_P hd)) = None ->
    text_line pt pu w h (pg_string o) =
    Ok (put_hdr (set_p w (w_p w ++ [mkObj (Some h) (zlen (t_items (h_P hd))) (o_name o) (o_pay o)])) h
                (set_P hd (mkTbl (t_items (h_P hd) ++ [length (w_p w)]) (mset (o_name o) (zlen (t_items (h_P hd))) (t_seen (h_P hd))))), 0).
  Proof.
    intros w h hd o Hh WF Hm.
    assert (FC := fun f => pg_fields_clean o f WF).
    assert (HC : clean [AT; 80; 71]) by (apply head_clean; discriminate).
    assert (LC := lclean_render _ _ HC FC). rewrite <- pg_string_render in LC.
    unfold text_line. rewrite strip_cr_lclean by exact LC.
    rewrite pg_string_render. unfold render_line. cbn [fst snd app].
    change (negb (AT =? AT)) with false. cbn [negb]. change (tag_eqb (80, 71) tHD) with false. change (tag_eqb (80, 71) tSQ) with false.
    change (tag_eqb (80, 71) tRG) with false. change (tag_eqb (80, 71) tPG) with true. cbn iota.
    unfold program_line. rewrite Hh.
    change (AT :: 80 :: 71 :: cf (pg_fields_of o)) with ([AT; 80; 71] ++ cf (pg_fields_of o)).
    unfold cf. rewrite split_preceded; [|apply HC|intros f Hf; apply (FC f Hf)].
    assert (SR := pg_rebuild (t_seen (h_P hd)) o WF Hm).
    destruct (pg_fields_of o) as [|f1 fs] eqn:EF; try (unfold pg_fields_of in EF; discriminate).
    rewrite SR. cbn [negb]. unfold install_new, add_fresh. cbn [owned with_ident o_owner o_id o_name orb]. change (0 <=? -1) with false. cbn iota.
    rewrite upd_app_last. reflexivity.
  Qed.

  Lemma co_line_step : forall w h hd c,
    nth_error (w_h w) h = Some hd -> lclean c ->
    text_line pt pu w h ([AT; 67; 79; TAB] ++ c) = Ok (put_hdr w h (set_co hd (h_co hd ++ [c])), 0).
  Proof.
    intros w h hd c Hh (L1 & L2). unfold text_line. rewrite strip_cr_clean.
    2:{ intro Hi. apply in_app_or in Hi. destruct Hi as [Hi|Hi]; auto. simpl in Hi. repeat (destruct Hi as [Hi|Hi]; [discriminate|]). exact Hi. }
    cbn [app]. change (negb (AT =? AT)) with false. cbn [negb]. change (tag_eqb (67, 79) tHD) with false. change (tag_eqb (67, 79) tSQ) with false.
    change (tag_eqb (67, 79) tRG) with false. change (tag_eqb (67, 79) tPG) with false. change (tag_eqb (67, 79) tCO) with true. cbn iota.
    unfold comment_line. rewrite Hh. reflexivity.
  Qed.

  Definition nv {P} (o : obj P) : str * P := (o_name o, o_pay o).
  Definition same_but_G (hd hd' : hdr) : Prop :=
    h_vn hd' = h_vn hd /\ h_so hd' = h_so hd /\ h_go hd' = h_go hd /\ h_other hd' = h_other hd /\
    h_R hd' = h_R hd /\ h_P hd' = h_P hd /\ h_co hd' = h_co hd.
  Definition same_but_P (hd hd' : hdr) : Prop :=
    h_vn hd' = h_vn hd /\ h_so hd' = h_so hd /\ h_go hd' = h_go hd /\ h_other hd' = h_other hd /\
    h_R hd' = h_R hd /\ h_G hd' = h_G hd /\ h_co hd' = h_co hd.

  Lemma refs_phase : forall os w h hd pre rest,
    WInv w -> nth_error (w_h w) h = Some hd -> objs (w_r w) (t_items (h_R hd)) = Some pre ->
    Forall (WFref pu) os -> NoDup (map o_name pre ++ map o_name os) ->
    exists w' hd' post, text_lines pt pu w h (map ref_string os ++ rest) = text_lines pt pu w' h rest /\
      WInv w' /\ nth_error (w_h w') h = Some hd' /\ objs (w_r w') (t_items (h_R hd')) = Some post /\
      map nv post = map nv pre ++ map nv os /\ same_but_R hd hd' /\ w_g w' = w_g w /\ w_p w' = w_p w /\
      length (w_h w') = length (w_h w).
  Proof.
    induction os as [|o os IH]; intros w h hd pre rest I Hh Hpre WF ND.
    - exists w, hd, pre. simpl. rewrite app_nil_r. split; [reflexivity|]. split; [exact I|]. split; [exact Hh|]. split; [exact Hpre|].
      split; [reflexivity|]. split; [unfold same_but_R; repeat split; reflexivity|]. auto.
    - inversion WF as [|? ? WFo WFos]; subst.
      assert (Lh : (h < length (w_h w))%nat) by (apply nth_error_Some; congruence).
      assert (TI : TInv h (w_r w) (h_R hd)) by (apply (proj1 (proj1 I)); rewrite nth_error_map, Hh; reflexivity).
      assert (Hm : mget (o_name o) (t_seen (h_R hd)) = None).
      { eapply fresh_name; eauto. simpl in ND. apply NoDup_remove_2 in ND. intro Hin. apply ND. apply in_or_app. left; exact Hin. }
      assert (ST := ref_line_step w h hd o Hh WFo Hm).
      destruct (text_line_good pt pu w h (ref_string o) I Lh) as (w1 & e1 & R1 & I1 & X1). rewrite ST in R1. inversion R1; subst w1 e1; clear R1.
      cbn [map app text_lines]. rewrite ST. cbn [Z.eqb].
      match goal with |- context [text_lines pt pu ?W h _] => set (w1 := W) in * end.
      set (hd1 := set_R hd (mkTbl (t_items (h_R hd) ++ [length (w_r w)]) (mset (o_name o) (zlen (t_items (h_R hd))) (t_seen (h_R hd))))) in *.
      assert (Hh1 : nth_error (w_h w1) h = Some hd1) by (unfold w1; simpl; apply nth_error_upd_eq; exact Lh).
      assert (Hp1 : objs (w_r w1) (t_items (h_R hd1)) = Some (pre ++ [mkObj (Some h) (zlen (t_items (h_R hd))) (o_name o) (o_pay o)])).
      { unfold w1, hd1; simpl. apply objs_app. exact Hpre. }
      destruct (IH w1 h hd1 _ rest I1 Hh1 Hp1 WFos) as (w' & hd' & post & E & I' & Hh' & Hp' & Hv & SB & G1 & P1 & L1).
      { rewrite map_app. simpl. rewrite <- app_assoc. exact ND. }
      exists w', hd', post. split; [exact E|]. split; [exact I'|]. split; [exact Hh'|]. split; [exact Hp'|].
      split. { rewrite Hv, map_app. simpl. rewrite <- app_assoc. reflexivity. }
      split. { destruct SB as (a & b & c & d & e & f & g). unfold hd1 in *; simpl in *. repeat split; congruence. }
      split; [rewrite G1; reflexivity|]. split; [rewrite P1; reflexivity|].
      rewrite L1. unfold w1; simpl. apply upd_length.
  Qed.

  Lemma rgs_phase : forall os w h hd pre rest,
    WInv w -> nth_error (w_h w) h = Some hd -> objs (w_g w) (t_items (h_G hd)) = Some pre ->
    Forall (WFrg pt) os -> NoDup (map o_name pre ++ map o_name os) ->
    exists w' hd' post, text_lines pt pu w h (map rg_string os ++ rest) = text_lines pt pu w' h rest /\
      WInv w' /\ nth_error (w_h w') h = Some hd' /\ objs (w_g w') (t_items (h_G hd')) = Some post /\
      map nv post = map nv pre ++ map nv os /\ same_but_G hd hd' /\ w_r w' = w_r w /\ w_p w' = w_p w /\
      length (w_h w') = length (w_h w).
  Proof.
    induction os as [|o os IH]; intros w h hd pre rest I Hh Hpre WF ND.
    - exists w, hd, pre. simpl. rewrite app_nil_r. split; [reflexivity|]. split; [exact I|]. split; [exact Hh|]. split; [exact Hpre|].
      split; [reflexivity|]. split; [unfold same_but_G; repeat split; reflexivity|]. auto.
    - inversion WF as [|? ? WFo WFos]; subst.
      assert (Lh : (h < length (w_h w))%nat) by (apply nth_error_Some; congruence).
      assert (TI : TInv h (w_g w) (h_G hd)) by (apply (proj1 (proj1 (proj2 I))); rewrite nth_error_map, Hh; reflexivity).
      assert (Hm : mget (o_name o) (t_seen (h_G hd)) = None).
      { eapply fresh_name; eauto. simpl in ND. apply NoDup_remove_2 in ND. intro Hin. apply ND. apply in_or_app. left; exact Hin. }
      assert (ST := rg_line_step w h hd o Hh WFo Hm).
      destruct (text_line_good pt pu w h (rg_string o) I Lh) as (w1 & e1 & R1 & I1 & X1). rewrite ST in R1. inversion R1; subst w1 e1; clear R1.
      cbn [map app text_lines]. rewrite ST. cbn [Z.eqb].
      match goal with |- context [text_lines pt pu ?W h _] => set (w1 := W) in * end.
      set (hd1 := set_G hd (mkTbl (t_items (h_G hd) ++ [length (w_g w)]) (mset (o_name o) (zlen (t_items (h_G hd))) (t_seen (h_G hd))))) in *.
      assert (Hh1 : nth_error (w_h w1) h = Some hd1) by (unfold w1; simpl; apply nth_error_upd_eq; exact Lh).
      assert (Hp1 : objs (w_g w1) (t_items (h_G hd1)) = Some (pre ++ [mkObj (Some h) (zlen (t_items (h_G hd))) (o_name o) (o_pay o)])).
      { unfold w1, hd1; simpl. apply objs_app. exact Hpre. }
      destruct (IH w1 h hd1 _ rest I1 Hh1 Hp1 WFos) as (w' & hd' & post & E & I' & Hh' & Hp' & Hv & SB & G1 & P1 & L1).
      { rewrite map_app. simpl. rewrite <- app_assoc. exact ND. }
      exists w', hd', post. split; [exact E|]. split; [exact I'|]. split; [exact Hh'|]. split; [exact Hp'|].
      split. { rewrite Hv, map_app. simpl. rewrite <- app_assoc. reflexivity. }
      split. { destruct SB as (a & b & c & d & e & f & g). unfold hd1 in *; simpl in *. repeat split; congruence. }
      split; [rewrite G1; reflexivity|]. split; [rewrite P1; reflexivity|].
      rewrite L1. unfold w1; simpl. apply upd_length.
  Qed.

  Lemma pgs_phase : forall os w h hd pre rest,
    WInv w -> nth_error (w_h w) h = Some hd -> objs (w_p w) (t_items (h_P hd)) = Some pre ->
    Forall (WFpg) os -> NoDup (map o_name pre ++ map o_name os) ->
    exists w' hd' post, text_lines pt pu w h (map pg_string os ++ rest) = text_lines pt pu w' h rest /\
      WInv w' /\ nth_error (w_h w') h = Some hd' /\ objs (w_p w') (t_items (h_P hd')) = Some post /\
      map nv post = map nv pre ++ map nv os /\ same_but_P hd hd' /\ w_g w' = w_g w /\ w_r w' = w_r w /\
      length (w_h w') = length (w_h w).
  Proof.
    induction os as [|o os IH]; intros w h hd pre rest I Hh Hpre WF ND.
    - exists w, hd, pre. simpl. rewrite app_nil_r. split; [reflexivity|]. split; [exact I|]. split; [exact Hh|]. split; [exact Hpre|].
      split; [reflexivity|]. split; [unfold same_but_P; repeat split; reflexivity|]. auto.
    - inversion WF as [|? ? WFo WFos]; subst.
      assert (Lh : (h < length (w_h w))%nat) by (apply nth_error_Some; congruence).
      assert (TI : TInv h (w_p w) (h_P hd)) by (apply (proj1 (proj2 (proj2 I))); rewrite nth_error_map, Hh; reflexivity).
      assert (Hm : mget (o_name o) (t_seen (h_P hd)) = None).
      { eapply fresh_name; eauto. simpl in ND. apply NoDup_remove_2 in ND. intro Hin. apply ND. apply in_or_app. left; exact Hin. }
      assert (ST := pg_line_step w h hd o Hh WFo Hm).
      destruct (text_line_good pt pu w h (pg_string o) I Lh) as (w1 & e1 & R1 & I1 & X1). rewrite ST in R1. inversion R1; subst w1 e1; clear R1.
      cbn [map app text_lines]. rewrite ST. cbn [Z.eqb].
      match goal with |- context [text_lines pt pu ?W h _] => set (w1 := W) in * end.
      set (hd1 := set_P hd (mkTbl (t_items (h_P hd) ++ [length (w_p w)]) (mset (o_name o) (zlen (t_items (h_P hd))) (t_seen (h_P hd))))) in *.
      assert (Hh1 : nth_error (w_h w1) h = Some hd1) by (unfold w1; simpl; apply nth_error_upd_eq; exact Lh).
      assert (Hp1 : objs (w_p w1) (t_items (h_P hd1)) = Some (pre ++ [mkObj (Some h) (zlen (t_items (h_P hd))) (o_name o) (o_pay o)])).
      { unfold w1, hd1; simpl. apply objs_app. exact Hpre. }
      destruct (IH w1 h hd1 _ rest I1 Hh1 Hp1 WFos) as (w' & hd' & post & E & I' & Hh' & Hp' & Hv & SB & G1 & P1 & L1).
      { rewrite map_app. simpl. rewrite <- app_assoc. exact ND. }
      exists w', hd', post. split; [exact E|]. split; [exact I'|]. split; [exact Hh'|]. split; [exact Hp'|].
      split. { rewrite Hv, map_app. simpl. rewrite <- app_assoc. reflexivity. }
      split. { destruct SB as (a & b & c & d & e & f & g). unfold hd1 in *; simpl in *. repeat split; congruence. }
      split; [rewrite G1; reflexivity|]. split; [rewrite P1; reflexivity|].
      rewrite L1. unfold w1; simpl. apply upd_length.
  Qed.

End RT.

Lemma upd_upd : forall {A} (l : list A) i a b, upd (upd l i a) i b = upd l i b.
Proof. induction l; destruct i; simpl; intros; auto. f_equal. apply IHl. Qed.

Section RT2.
  Variable pt : str -> option str.
  Variable pu : str -> option str.

  (** the @HD part and the comments of a header that can be printed and read back *)
  Definition WFhd (hd : hdr) : Prop :=
    (h_vn hd = [] -> h_so hd = 0 /\ h_go hd = 0 /\ h_other hd = []) /\ clean (h_vn hd) /\
    0 <= h_so hd <= 3 /\ 0 <= h_go hd <= 3 /\
    (forall tp, In tp (h_other hd) -> mem_tag (fst tp) [tVN; tSO; tGO] = false /\ tclean (fst tp) /\ clean (snd tp)) /\
    (forall c, In c (h_co hd) -> lclean c).

  Lemma put_hdr_same : forall w h hd, nth_error (w_h w) h = Some hd -> put_hdr w h hd = w.
  Proof. intros [hs a b c] h hd H. unfold put_hdr, set_h; simpl in *. rewrite upd_same by assumption. reflexivity. Qed.

  Lemma cos_phase : forall cs w h hd rest, nth_error (w_h w) h = Some hd -> Forall lclean cs ->
    text_lines pt pu w h (map (fun c => [AT; 67; 79; TAB] ++ c) cs ++ rest)
    = text_lines pt pu (put_hdr w h (set_co hd (h_co hd ++ cs))) h rest.
  Proof.
    induction cs as [|c cs IH]; intros w h hd rest Hh F.
    - simpl. rewrite app_nil_r. replace (set_co hd (h_co hd)) with hd by (destruct hd; reflexivity). rewrite put_hdr_same; auto.
    - inversion F; subst. cbn [map]. rewrite <- app_comm_cons. cbn [text_lines]. rewrite (co_line_step pt pu w h hd c Hh) by assumption. cbn [Z.eqb].
      assert (Lh : (h < length (w_h w))%nat) by (apply nth_error_Some; congruence).
      rewrite (IH (put_hdr w h (set_co hd (h_co hd ++ [c]))) h (set_co hd (h_co hd ++ [c])) rest); auto.
      + f_equal. unfold put_hdr, set_h; simpl. rewrite upd_upd. rewrite <- app_assoc. reflexivity.
      + simpl. apply nth_error_upd_eq. exact Lh.
  Qed.

  Lemma hd_others : forall l hd, (forall tp, In tp l -> mem_tag (fst tp) [tVN; tSO; tGO] = false) ->
    hd_fields hd (other_fields l)
    = (set_hd hd (h_vn hd) (h_so hd) (h_go hd) (h_other hd ++ l), if is_empty (h_vn hd) then eBadHeader else 0).
  Proof.
    induction l as [|[t v] l IH]; intros hd H.
    - simpl. rewrite app_nil_r. destruct hd; reflexivity.
    - cbn [other_fields map hd_fields fst snd]. rewrite split_field_body.
      assert (M := H (t, v) (or_introl eq_refl)). cbn [fst] in M.
      repeat (apply mem_tag_false_cons in M; destruct M as [? M]). rewrite H0, H1, H2.
      change (map (fun tp => body (fst tp) (snd tp)) l) with (other_fields l).
      rewrite IH by (intros tp Hin; apply H; right; exact Hin). cbn [set_hd h_vn h_so h_go h_other]. rewrite <- app_assoc. reflexivity.
  Qed.

  Lemma so_rt : forall so, 0 <= so <= 3 -> so_parse (so_string so) = so.
  Proof. intros so H. assert (so = 0 \/ so = 1 \/ so = 2 \/ so = 3) as [->|[->|[->| ->]]] by lia; reflexivity. Qed.
  Lemma go_rt : forall g, 1 <= g <= 3 -> go_parse (go_string g) = g.
  Proof. intros g H. assert (g = 1 \/ g = 2 \/ g = 3) as [->|[->| ->]] by lia; reflexivity. Qed.
  Lemma so_string_clean : forall so, clean (so_string so).
  Proof.
    intro so. unfold so_string. repeat match goal with |- context [if ?b then _ else _] => destruct b end;
      repeat split; intro H; simpl in H; repeat (destruct H as [H|H]; [discriminate|]); exact H.
  Qed.
  Lemma go_string_clean : forall g, clean (go_string g).
  Proof.
    intro g. unfold go_string. repeat match goal with |- context [if ?b then _ else _] => destruct b end;
      repeat split; intro H; simpl in H; repeat (destruct H as [H|H]; [discriminate|]); exact H.
  Qed.

  Lemma hd_fields_clean : forall hd f, WFhd hd -> In f (hd_fields_of hd) -> clean f.
  Proof.
    intros hd f (_ & Cv & _ & _ & Ho & _) Hin. unfold hd_fields_of in Hin.
    repeat (apply in_app_or in Hin; destruct Hin as [Hin|Hin]).
    - destruct Hin as [<-|[<-|[]]]; apply clean_body; auto; try tcl. apply so_string_clean.
    - destruct (h_go hd =? 0); [destruct Hin|]. destruct Hin as [<-|[]]. apply clean_body; [tcl|apply go_string_clean].
    - unfold other_fields in Hin. apply in_map_iff in Hin. destruct Hin as (tp & <- & Hin).
      destruct (Ho tp Hin) as (_ & Ht & Hv). apply clean_body; auto.
  Qed.

  Lemma hd_line_step : forall w h hd0 hd, nth_error (w_h w) h = Some hd0 ->
    h_vn hd0 = [] -> h_so hd0 = 0 -> h_go hd0 = 0 -> h_other hd0 = [] ->
    WFhd hd -> is_empty (h_vn hd) = false ->
    text_line pt pu w h ([AT; 72; 68] ++ cf (hd_fields_of hd))
    = Ok (put_hdr w h (set_hd hd0 (h_vn hd) (h_so hd) (h_go hd) (h_other hd)), 0).
  Proof.
    intros w h hd0 hd Hh V0 S0 G0 O0 WF NE.
    assert (FC := fun f => hd_fields_clean hd f WF).
    assert (HC : clean [AT; 72; 68]) by (apply head_clean; discriminate).
    assert (LC := lclean_render _ _ HC FC). unfold render_line in LC. cbn [fst snd] in LC.
    unfold text_line. rewrite strip_cr_lclean by exact LC. cbn [app].
    change (negb (AT =? AT)) with false. cbn [negb]. change (tag_eqb (72, 68) tHD) with true. cbn iota.
    rewrite Hh. unfold header_line.
    change (AT :: 72 :: 68 :: cf (hd_fields_of hd)) with ([AT; 72; 68] ++ cf (hd_fields_of hd)).
    unfold cf. rewrite split_preceded; [|apply HC|intros f Hf; apply (FC f Hf)].
    destruct WF as (_ & _ & Rs & Rg & Ho & _).
    unfold hd_fields_of. cbn [app hd_fields]. rewrite !split_field_body.
    change (tag_eqb tVN tVN) with true. change (tag_eqb tSO tVN) with false. change (tag_eqb tSO tSO) with true. cbn iota.
    rewrite V0. cbn [is_empty negb set_hd h_so h_vn h_go h_other]. rewrite S0. cbn [Z.eqb negb].
    rewrite so_rt by exact Rs.
    destruct (h_go hd =? 0) eqn:EG.
    - apply Z.eqb_eq in EG. cbn [app]. rewrite hd_others by (intros tp Hin; apply (Ho tp Hin)).
      cbn [set_hd h_so h_vn h_go h_other]. rewrite NE, G0, O0, EG. reflexivity.
    - apply Z.eqb_neq in EG. cbn [app hd_fields]. rewrite split_field_body.
      change (tag_eqb tGO tVN) with false. change (tag_eqb tGO tSO) with false. change (tag_eqb tGO tGO) with true. cbn iota.
      cbn [set_hd h_so h_vn h_go h_other]. rewrite G0. cbn [Z.eqb negb]. rewrite go_rt by lia.
      rewrite hd_others by (intros tp Hin; apply (Ho tp Hin)).
      cbn [set_hd h_so h_vn h_go h_other]. rewrite NE, O0. reflexivity.
  Qed.
End RT2.

(** *** exposed values of a header, and the round trip *)
Definition view (w : world) (hd : hdr) :=
  (h_vn hd, h_so hd, h_go hd, h_other hd, h_co hd,
   option_map (map nv) (objs (w_r w) (t_items (h_R hd))),
   option_map (map nv) (objs (w_g w) (t_items (h_G hd))),
   option_map (map nv) (objs (w_p w) (t_items (h_P hd)))).

Lemma map_nv_eq : forall {P} (f : obj P -> str) (a b : list (obj P)),
  (forall x y, nv x = nv y -> f x = f y) -> map nv a = map nv b -> map f a = map f b.
Proof.
  intros P f. induction a as [|x a IH]; destruct b as [|y b]; simpl; intros Hf H; try discriminate; auto.
  assert (H1 : nv x = nv y) by congruence. assert (H2 : map nv a = map nv b) by congruence. rewrite (Hf x y H1), (IH b Hf H2). reflexivity.
Qed.
Lemma ref_string_nv : forall x y : obj refpay, nv x = nv y -> ref_string x = ref_string y.
Proof. intros [a b c d] [a' b' c' d'] H. unfold nv in H; simpl in H. inversion H; subst. reflexivity. Qed.
Lemma rg_string_nv : forall x y : obj rgpay, nv x = nv y -> rg_string x = rg_string y.
Proof. intros [a b c d] [a' b' c' d'] H. unfold nv in H; simpl in H. inversion H; subst. reflexivity. Qed.
Lemma pg_string_nv : forall x y : obj pgpay, nv x = nv y -> pg_string x = pg_string y.
Proof. intros [a b c d] [a' b' c' d'] H. unfold nv in H; simpl in H. inversion H; subst. reflexivity. Qed.

Lemma view_marshal : forall w hd w' hd', view w' hd' = view w hd ->
  marshal_text w' hd' = marshal_text w hd /\ encode_binary w' hd' = encode_binary w hd.
Proof.
  intros w hd w' hd' V. unfold view in V. inversion V as [[Hvn Hso Hgo Hot Hco HR HG HP]]. clear V.
  assert (M : marshal_text w' hd' = marshal_text w hd).
  { unfold marshal_text, hd_string, lines. rewrite Hvn, Hso, Hgo, Hot, Hco.
    destruct (objs (w_r w') (t_items (h_R hd'))) as [rs'|], (objs (w_r w) (t_items (h_R hd))) as [rs|]; try discriminate;
    destruct (objs (w_g w') (t_items (h_G hd'))) as [gs'|], (objs (w_g w) (t_items (h_G hd))) as [gs|]; try discriminate;
    destruct (objs (w_p w') (t_items (h_P hd'))) as [ps'|], (objs (w_p w) (t_items (h_P hd))) as [ps|]; try discriminate; try reflexivity.
    simpl in HR, HG, HP. inversion HR; inversion HG; inversion HP.
    assert (E1 : map (fun x => ref_string x ++ [LF]) rs' = map (fun x => ref_string x ++ [LF]) rs)
      by (apply map_nv_eq; [intros x y E; rewrite (ref_string_nv x y E); reflexivity|assumption]).
    assert (E2 : map (fun x => rg_string x ++ [LF]) gs' = map (fun x => rg_string x ++ [LF]) gs)
      by (apply map_nv_eq; [intros x y E; rewrite (rg_string_nv x y E); reflexivity|assumption]).
    assert (E3 : map (fun x => pg_string x ++ [LF]) ps' = map (fun x => pg_string x ++ [LF]) ps)
      by (apply map_nv_eq; [intros x y E; rewrite (pg_string_nv x y E); reflexivity|assumption]).
    rewrite E1, E2, E3. reflexivity. }
  split; [exact M|]. unfold encode_binary. rewrite M.
  destruct (objs (w_r w') (t_items (h_R hd'))) as [rs'|], (objs (w_r w) (t_items (h_R hd))) as [rs|]; try discriminate; try reflexivity.
  simpl in HR. inversion HR as [HR'].
  assert (E1 : map (fun o : obj refpay => le32 (zlen (o_name o) + 1) ++ o_name o ++ [0] ++ le32 (rp_len (o_pay o))) rs'
               = map (fun o => le32 (zlen (o_name o) + 1) ++ o_name o ++ [0] ++ le32 (rp_len (o_pay o))) rs).
  { apply map_nv_eq; [|assumption]. intros [a b c d] [a' b' c' d'] E. unfold nv in E; simpl in E. inversion E; subst. reflexivity. }
  assert (length rs' = length rs) by (rewrite <- (map_length nv rs'), HR', map_length; reflexivity).
  rewrite E1. unfold zlen. rewrite H. reflexivity.
Qed.

Lemma objs_nth_inv : forall {P} (st : list (obj P)) items os i x,
  objs st items = Some os -> nth_error os i = Some x -> exists r, nth_error items i = Some r /\ nth_error st r = Some x.
Proof.
  intros P st. induction items as [|r l IH]; intros os i x H Hi; simpl in *.
  - inversion H; subst. destruct i; discriminate.
  - destruct (nth_error st r) as [o|] eqn:Hr; [|discriminate]. destruct (objs st l) as [os'|] eqn:Ho; [|discriminate].
    inversion H; subst. destruct i; simpl in *.
    + inversion Hi; subst. eauto.
    + eapply IH; eauto.
Qed.

Lemma names_nodup : forall {P} h (st : list (obj P)) t os, TInv h st t -> objs st (t_items t) = Some os -> NoDup (map o_name os).
Proof.
  intros P h st t os I Ho. apply NoDup_nth_error. intros i j Li E. rewrite map_length in Li.
  rewrite !nth_error_map in E.
  destruct (nth_error os i) as [x|] eqn:Hi; [|apply nth_error_None in Hi; lia].
  destruct (nth_error os j) as [y|] eqn:Hj; [|discriminate]. simpl in E. inversion E as [En].
  destruct (objs_nth_inv _ _ _ _ _ Ho Hi) as (r & Hr & Hx). destruct (objs_nth_inv _ _ _ _ _ Ho Hj) as (r' & Hr' & Hy).
  eapply TInv_uniq; eauto.
Qed.

Section RT3.
  Variable pt : str -> option str.
  Variable pu : str -> option str.

  (** a header whose values can be printed and read back: SAM forbids TAB, LF
      and CR in values; lengths and insert sizes are in range; checksums have
      16 bytes; dates and URIs are canonical ([pt d = Some d], [pu u = Some u]);
      non-standard tags are distinct and not standard ones; an @HD field is
      only set when there is a version *)
  Definition WFH (w : world) (hd : hdr) : Prop :=
    WFhd hd /\ exists rs gs ps,
      objs (w_r w) (t_items (h_R hd)) = Some rs /\ objs (w_g w) (t_items (h_G hd)) = Some gs /\
      objs (w_p w) (t_items (h_P hd)) = Some ps /\
      Forall (WFref pu) rs /\ Forall (WFrg pt) gs /\ Forall WFpg ps.

  Theorem text_roundtrip : forall w h hd text, WInv w -> nth_error (w_h w) h = Some hd -> WFH w hd ->
    marshal_text w hd = Ok text ->
    exists w' hd', new_header pt pu w (Some text) [] = Ok (w', 0) /\ WInv w' /\
      nth_error (w_h w') (length (w_h w)) = Some hd' /\ view w' hd' = view w hd /\
      marshal_text w' hd' = Ok text /\ encode_binary w' hd' = encode_binary w hd.
  Proof.
    intros w h hd text I Hh (WFh & rs & gs & ps & Hr & Hg & Hp & Fr & Fg & Fp) MT.
    set (n := length (w_h w)).
    (* the lines of the text *)
    set (hdl := [AT; 72; 68] ++ cf (hd_fields_of hd)).
    set (body_lines := map ref_string rs ++ map rg_string gs ++ map pg_string ps ++ map (fun c => [AT; 67; 79; TAB] ++ c) (h_co hd)).
    set (all_lines := (if is_empty (h_vn hd) then [] else [hdl]) ++ body_lines).
    assert (TX : text = concat (map (fun l => l ++ [LF]) all_lines)).
    { unfold marshal_text in MT. rewrite Hr, Hg, Hp in MT. inversion MT; subst text. unfold all_lines, body_lines, lines.
      rewrite !map_app, !concat_app, !map_map. f_equal. rewrite hd_string_render. destruct (is_empty (h_vn hd)); [reflexivity|].
      simpl. rewrite app_nil_r. reflexivity. }
    assert (KR : TInv h (w_r w) (h_R hd)) by (apply (proj1 (proj1 I)); rewrite nth_error_map, Hh; reflexivity).
    assert (KG : TInv h (w_g w) (h_G hd)) by (apply (proj1 (proj1 (proj2 I))); rewrite nth_error_map, Hh; reflexivity).
    assert (KP : TInv h (w_p w) (h_P hd)) by (apply (proj1 (proj2 (proj2 I))); rewrite nth_error_map, Hh; reflexivity).
    assert (WFh' := WFh). destruct WFh' as (Hrep & Cvn & Rso & Rgo & Hoth & Hcos).
    (* every line is free of LF *)
    assert (LF_free : forall l, In l all_lines -> ~ In LF l).
    { intros l Hl. unfold all_lines, body_lines in Hl. repeat (apply in_app_or in Hl; destruct Hl as [Hl|Hl]).
      - destruct (is_empty (h_vn hd)); [destruct Hl|]. destruct Hl as [<-|[]].
        apply (lclean_render [AT; 72; 68] (hd_fields_of hd)). apply head_clean; discriminate. intros f Hf. eapply hd_fields_clean; eauto.
      - apply in_map_iff in Hl. destruct Hl as (o & <- & Ho). rewrite ref_string_render.
        apply lclean_render. apply head_clean; discriminate. intros f Hf. eapply ref_fields_clean; eauto. rewrite Forall_forall in Fr. auto.
      - apply in_map_iff in Hl. destruct Hl as (o & <- & Ho). rewrite rg_string_render.
        apply lclean_render. apply head_clean; discriminate. intros f Hf. eapply rg_fields_clean; eauto. rewrite Forall_forall in Fg. auto.
      - apply in_map_iff in Hl. destruct Hl as (o & <- & Ho). rewrite pg_string_render.
        apply lclean_render. apply head_clean; discriminate. intros f Hf. eapply pg_fields_clean; eauto. rewrite Forall_forall in Fp. auto.
      - apply in_map_iff in Hl. destruct Hl as (c & <- & Hc). destruct (Hcos c Hc) as (L1 & _).
        intro Hi. apply in_app_or in Hi. destruct Hi as [Hi|Hi]; auto. simpl in Hi. repeat (destruct Hi as [Hi|Hi]; [discriminate|]). exact Hi. }
    (* NewHeader allocates the empty header, then UnmarshalText *)
    unfold new_header. cbn [nh_validate nh_claim Z.eqb negb]. unfold unmarshal_text. fold n.
    set (w1 := mkW (w_h w ++ [mkHdr [] 0 0 [] (mkTbl [] []) tbl0 tbl0 []]) (w_r w) (w_g w) (w_p w)).
    assert (I1 : WInv w1).
    { destruct I as (A & B & C). unfold WInv, w1; simpl. rewrite !map_app; simpl. split; [|split]; apply KInv_empty_tbl; assumption. }
    assert (Hn1 : nth_error (w_h w1) n = Some (mkHdr [] 0 0 [] (mkTbl [] []) tbl0 tbl0 [])) by (unfold w1, n; simpl; apply nth_error_app_last).
    rewrite TX, (split_terminated LF all_lines LF_free).
    (* @HD *)
    assert (HD : exists w2 hd2, text_lines pt pu w1 n (all_lines ++ [[]]) = text_lines pt pu w2 n (body_lines ++ [[]]) /\ WInv w2 /\
                 nth_error (w_h w2) n = Some hd2 /\ h_vn hd2 = h_vn hd /\ h_so hd2 = h_so hd /\ h_go hd2 = h_go hd /\ h_other hd2 = h_other hd /\
                 h_R hd2 = tbl0 /\ h_G hd2 = tbl0 /\ h_P hd2 = tbl0 /\ h_co hd2 = [] /\ w_r w2 = w_r w /\ w_g w2 = w_g w /\ w_p w2 = w_p w /\
                 length (w_h w2) = S n).
    { unfold all_lines. destruct (is_empty (h_vn hd)) eqn:EV.
      - assert (h_vn hd = []) as V0 by (destruct (h_vn hd); [reflexivity|discriminate]). destruct (Hrep V0) as (S0 & G0 & O0).
        exists w1, (mkHdr [] 0 0 [] (mkTbl [] []) tbl0 tbl0 []). simpl. rewrite V0, S0, G0, O0.
        split; [reflexivity|]. split; [exact I1|]. split; [exact Hn1|].
        repeat split; auto; try (unfold w1, n; simpl; rewrite app_length; simpl; lia).
      - exists (put_hdr w1 n (set_hd (mkHdr [] 0 0 [] (mkTbl [] []) tbl0 tbl0 []) (h_vn hd) (h_so hd) (h_go hd) (h_other hd))),
               (set_hd (mkHdr [] 0 0 [] (mkTbl [] []) tbl0 tbl0 []) (h_vn hd) (h_so hd) (h_go hd) (h_other hd)).
        cbn [app text_lines]. fold hdl. unfold hdl.
        rewrite (hd_line_step pt pu w1 n _ hd Hn1 eq_refl eq_refl eq_refl eq_refl WFh EV). cbn [Z.eqb].
        split; [reflexivity|]. split; [eapply WInv_put_same; eauto|].
        split; [unfold w1; simpl; apply nth_error_upd_eq; rewrite app_length; simpl; unfold n; lia|].
        unfold w1, n; simpl. repeat split; auto. rewrite upd_length, app_length; simpl; lia. }
    destruct HD as (w2 & hd2 & E2 & I2 & Hn2 & V2 & S2 & G2 & O2 & R2 & GG2 & P2 & C2 & WR2 & WG2 & WP2 & L2).
    (* @SQ *)
    destruct (refs_phase pt pu rs w2 n hd2 [] (map rg_string gs ++ map pg_string ps ++ map (fun c => [AT; 67; 79; TAB] ++ c) (h_co hd) ++ [[]]) I2 Hn2) as
      (w3 & hd3 & post3 & E3 & I3 & Hn3 & Hp3 & Hv3 & SB3 & WG3 & WP3 & L3).
    { rewrite R2. reflexivity. } { exact Fr. } { simpl. eapply names_nodup; eauto. }
    destruct SB3 as (a1 & a2 & a3 & a4 & a5 & a6 & a7).
    (* @RG *)
    destruct (rgs_phase pt pu gs w3 n hd3 [] (map pg_string ps ++ map (fun c => [AT; 67; 79; TAB] ++ c) (h_co hd) ++ [[]]) I3 Hn3) as
      (w4 & hd4 & post4 & E4 & I4 & Hn4 & Hp4 & Hv4 & SB4 & WR4 & WP4 & L4).
    { rewrite a5, GG2. reflexivity. } { exact Fg. } { simpl. eapply names_nodup; eauto. }
    destruct SB4 as (b1 & b2 & b3 & b4 & b5 & b6 & b7).
    (* @PG *)
    destruct (pgs_phase pt pu ps w4 n hd4 [] (map (fun c => [AT; 67; 79; TAB] ++ c) (h_co hd) ++ [[]]) I4 Hn4) as
      (w5 & hd5 & post5 & E5 & I5 & Hn5 & Hp5 & Hv5 & SB5 & WR5 & WG5 & L5).
    { rewrite b6, a6, P2. reflexivity. } { exact Fp. } { simpl. eapply names_nodup; eauto. }
    destruct SB5 as (c1 & c2 & c3 & c4 & c5 & c6 & c7).
    (* @CO and the empty last line *)
    assert (Ln5 : (n < length (w_h w5))%nat) by (apply nth_error_Some; congruence).
    assert (FIN : text_lines pt pu w1 n (all_lines ++ [[]]) = Ok (put_hdr w5 n (set_co hd5 (h_co hd)), 0)).
    { rewrite E2. unfold body_lines. rewrite <- !app_assoc. etransitivity; [exact E3|]. etransitivity; [exact E4|]. etransitivity; [exact E5|].
      rewrite (cos_phase pt pu (h_co hd) w5 n hd5 [[]] Hn5) by (apply Forall_forall; exact Hcos).
      cbn [text_lines text_line strip_cr rev Z.eqb]. rewrite c7, b7, a7, C2. reflexivity. }
    eexists _, _. split; [exact FIN|].
    assert (HN : nth_error (w_h (put_hdr w5 n (set_co hd5 (h_co hd)))) n = Some (set_co hd5 (h_co hd))) by (simpl; apply nth_error_upd_eq; exact Ln5).
    assert (VW : view (put_hdr w5 n (set_co hd5 (h_co hd))) (set_co hd5 (h_co hd)) = view w hd).
    { unfold view. cbn [set_co put_hdr set_h w_r w_g w_p h_vn h_so h_go h_other h_co h_R h_G h_P].
      rewrite c1, b1, a1, V2, c2, b2, a2, S2, c3, b3, a3, G2, c4, b4, a4, O2.
      rewrite c5, WG5, b5, WR4, Hp3. rewrite c6, WR5, Hp4. rewrite Hp5, Hr, Hg, Hp. simpl. rewrite Hv3, Hv4, Hv5. reflexivity. }
    split; [eapply WInv_put_same; eauto|]. split; [exact HN|]. split; [exact VW|].
    destruct (view_marshal _ _ _ _ VW) as (M1 & M2). split; [rewrite M1, <- TX; exact MT|exact M2].
  Qed.
End RT3.
