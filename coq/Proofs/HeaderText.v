(** C07 — the lexical half of the text round trip: a printed header splits
    back into exactly the lines and TAB-separated fields that were printed. *)
From Coq Require Import ZArith List Bool Lia.
From Hts Require Import Base.Prim Model.Header Proofs.HeaderBase.
Import ListNotations.
Open Scope Z_scope.

Lemma split_go_chunk : forall sep l rest cur, ~ In sep l ->
  split_go sep (l ++ sep :: rest) cur = (rev cur ++ l) :: split_go sep rest [].
Proof.
  induction l as [|c l IH]; intros rest cur H; simpl.
  - rewrite Z.eqb_refl, app_nil_r. reflexivity.
  - destruct (c =? sep) eqn:E. { apply Z.eqb_eq in E. subst. exfalso. apply H. left; reflexivity. }
    rewrite IH by (intro; apply H; right; assumption). simpl. rewrite <- app_assoc. reflexivity.
Qed.

Lemma split_go_last : forall sep l cur, ~ In sep l -> split_go sep l cur = [rev cur ++ l].
Proof.
  induction l as [|c l IH]; intros cur H; simpl.
  - rewrite app_nil_r. reflexivity.
  - destruct (c =? sep) eqn:E. { apply Z.eqb_eq in E. subst. exfalso. apply H. left; reflexivity. }
    rewrite IH by (intro; apply H; right; assumption). simpl. rewrite <- app_assoc. reflexivity.
Qed.

(** lines: every line is followed by the separator *)
Lemma split_terminated : forall sep (ls : list str), (forall l, In l ls -> ~ In sep l) ->
  split sep (concat (map (fun l => l ++ [sep]) ls)) = ls ++ [[]].
Proof.
  unfold split. induction ls as [|l ls IH]; intros H; simpl; [reflexivity|].
  rewrite <- app_assoc. simpl. rewrite split_go_chunk by (apply H; left; reflexivity). simpl.
  rewrite IH by (intros; apply H; right; assumption). reflexivity.
Qed.

(** fields: every field is preceded by the separator *)
Lemma split_preceded : forall sep (fs : list str) h, ~ In sep h -> (forall f, In f fs -> ~ In sep f) ->
  split sep (h ++ concat (map (cons sep) fs)) = h :: fs.
Proof.
  unfold split. intros sep fs. induction fs as [|f fs IH]; intros h Hh H; simpl.
  - rewrite app_nil_r. rewrite split_go_last by assumption. reflexivity.
  - rewrite split_go_chunk by assumption. simpl. f_equal. apply IH; [apply H; left; reflexivity|intros; apply H; right; assumption].
Qed.

Lemma strip_cr_clean : forall l, ~ In CR l -> strip_cr l = l.
Proof.
  intros l H. unfold strip_cr. destruct (rev l) as [|c t] eqn:E; [reflexivity|].
  destruct (c =? CR) eqn:EC; [|reflexivity]. apply Z.eqb_eq in EC. subst c. exfalso. apply H.
  apply in_rev. rewrite E. left; reflexivity.
Qed.

(** a printed document: lines, each a head and TAB-preceded fields, each ended by LF *)
Definition cf (fs : list str) : str := concat (map (cons TAB) fs).
Definition render_line (hf : str * list str) : str := fst hf ++ cf (snd hf).
Definition render (doc : list (str * list str)) : str := concat (map (fun hf => render_line hf ++ [LF]) doc).
Definition clean (s : str) : Prop := ~ In TAB s /\ ~ In LF s /\ ~ In CR s.

Lemma in_concat_cons : forall sep (fs : list str) x, In x (concat (map (cons sep) fs)) -> x = sep \/ exists f, In f fs /\ In x f.
Proof.
  induction fs as [|f fs IH]; simpl; intros x H; [contradiction|].
  destruct H as [H|H]; [left; auto|]. apply in_app_or in H. destruct H as [H|H].
  - right. exists f. auto.
  - destruct (IH _ H) as [E|(g & Hg & Hx)]; [left; auto|right; exists g; auto].
Qed.

Theorem lex_roundtrip : forall doc,
  (forall h fs, In (h, fs) doc -> clean h /\ forall f, In f fs -> clean f) ->
  map (fun l => split TAB (strip_cr l)) (split LF (render doc)) = map (fun hf => fst hf :: snd hf) doc ++ [[[]]].
Proof.
  intros doc H. unfold render.
  replace (map (fun hf => render_line hf ++ [LF]) doc) with (map (fun l => l ++ [LF]) (map render_line doc)) by (rewrite map_map; reflexivity).
  rewrite (split_terminated LF (map render_line doc)).
  - rewrite map_app, map_map. simpl. f_equal.
    apply map_ext_in. intros [h fs] Hin. destruct (H h fs Hin) as ((T1 & L1 & C1) & HF). simpl.
    rewrite strip_cr_clean.
    + unfold render_line, cf; simpl. apply split_preceded; auto. intros f Hf. exact (proj1 (HF f Hf)).
    + unfold render_line, cf; simpl. intro Hc. apply in_app_or in Hc. destruct Hc as [Hc|Hc]; [auto|].
      apply in_concat_cons in Hc. destruct Hc as [E|(f & Hf & Hx)]; [discriminate|]. exact (proj2 (proj2 (HF f Hf)) Hx).
  - intros l Hl. apply in_map_iff in Hl. destruct Hl as ([h fs] & E & Hin). subst l.
    destruct (H h fs Hin) as ((T1 & L1 & C1) & HF). unfold render_line, cf; simpl. intro Hc. apply in_app_or in Hc. destruct Hc as [Hc|Hc]; [auto|].
    apply in_concat_cons in Hc. destruct Hc as [E|(f & Hf & Hx)]; [discriminate|]. exact (proj1 (proj2 (HF f Hf)) Hx).
Qed.

(** *** the printer of the model produces such a document *)
Definition body (t : tag) (v : str) : str := fst t :: snd t :: COLON :: v.
Definition optf (t : tag) (v : str) : list str := if is_empty v then [] else [body t v].
Definition other_fields (l : list tagpair) : list str := map (fun tp => body (fst tp) (snd tp)) l.

Definition ref_fields (o : obj refpay) : list str :=
  let p := o_pay o in
  [body tSN (o_name o); body tLN (dec (rp_len p))]
  ++ (if is_empty (rp_md5 p) then [] else [body tM5 (hex_of (rp_md5 p))])
  ++ optf tAS (rp_as p) ++ optf tSP (rp_sp p)
  ++ (match rp_uri p with Some u => [body tUR u] | None => [] end)
  ++ other_fields (rp_other p).
Definition rg_fields_of (o : obj rgpay) : list str :=
  let p := o_pay o in
  [body tID (o_name o)] ++ optf tCN (g_cn p) ++ optf tDS (g_ds p)
  ++ (match g_dt p with Some d => [body tDT d] | None => [] end)
  ++ optf tFO (g_fo p) ++ optf tKS (g_ks p) ++ optf tLB (g_lb p) ++ optf tPG (g_pg p)
  ++ (if g_pi p =? 0 then [] else [body tPI (dec (g_pi p))])
  ++ optf tPL (g_pl p) ++ optf tPU (g_pu p) ++ optf tSM (g_sm p) ++ other_fields (g_other p).
Definition pg_fields_of (o : obj pgpay) : list str :=
  let p := o_pay o in
  [body tID (o_name o)] ++ optf tPN (p_pn p) ++ optf tCL (p_cl p) ++ optf tPP (p_pp p) ++ optf tVN (p_vn p)
  ++ other_fields (p_other p).
Definition hd_fields_of (h : hdr) : list str :=
  [body tVN (h_vn h); body tSO (so_string (h_so h))]
  ++ (if h_go h =? 0 then [] else [body tGO (go_string (h_go h))]) ++ other_fields (h_other h).

Lemma cf_app : forall a b, cf (a ++ b) = cf a ++ cf b.
Proof. intros. unfold cf. rewrite map_app, concat_app. reflexivity. Qed.
Lemma cf_one : forall x, cf [x] = TAB :: x.
Proof. intros. unfold cf. simpl. rewrite app_nil_r. reflexivity. Qed.
Lemma field_cf : forall t v, field t v = cf [body t v].
Proof. intros. rewrite cf_one. reflexivity. Qed.
Lemma opt_field_cf : forall t v, opt_field t v = cf (optf t v).
Proof. intros. unfold opt_field, optf. destruct (is_empty v); [reflexivity|apply field_cf]. Qed.
Lemma others_cf : forall l, others l = cf (other_fields l).
Proof.
  induction l as [|tp l IH]; [reflexivity|]. unfold others, cf, other_fields in *. simpl. rewrite IH. reflexivity.
Qed.

Ltac cf_fin := unfold cf; cbn [map concat app]; rewrite ?app_nil_r; rewrite <- ?app_assoc; cbn [app]; rewrite ?app_nil_r; reflexivity.

Lemma ref_string_render : forall o, ref_string o = render_line ([AT; 83; 81], ref_fields o).
Proof.
  intro o. unfold ref_string, render_line, ref_fields. cbn [fst snd].
  rewrite !cf_app, !opt_field_cf, others_cf, !field_cf. rewrite <- ?app_assoc.
  destruct (is_empty (rp_md5 (o_pay o))); destruct (rp_uri (o_pay o)); rewrite ?field_cf; cf_fin.
Qed.
Lemma rg_string_render : forall o, rg_string o = render_line ([AT; 82; 71], rg_fields_of o).
Proof.
  intro o. unfold rg_string, render_line, rg_fields_of. cbn [fst snd].
  rewrite !cf_app, !opt_field_cf, others_cf, !field_cf. rewrite <- ?app_assoc.
  destruct (g_dt (o_pay o)); destruct (g_pi (o_pay o) =? 0); rewrite ?field_cf; cf_fin.
Qed.
Lemma pg_string_render : forall o, pg_string o = render_line ([AT; 80; 71], pg_fields_of o).
Proof.
  intro o. unfold pg_string, render_line, pg_fields_of. cbn [fst snd].
  rewrite !cf_app, !opt_field_cf, others_cf, !field_cf. rewrite <- ?app_assoc. cf_fin.
Qed.

Lemma hd_string_render : forall h, hd_string h = if is_empty (h_vn h) then [] else render_line ([AT; 72; 68], hd_fields_of h) ++ [LF].
Proof.
  intro h. unfold hd_string. destruct (is_empty (h_vn h)); [reflexivity|].
  unfold render_line, hd_fields_of. cbn [fst snd].
  rewrite !cf_app, others_cf, !field_cf. rewrite <- ?app_assoc.
  destruct (h_go h =? 0); rewrite ?field_cf; cf_fin.
Qed.

(** the document a header prints *)
Definition doc_of (h : hdr) (rs : list (obj refpay)) (gs : list (obj rgpay)) (ps : list (obj pgpay)) : list (str * list str) :=
  (if is_empty (h_vn h) then [] else [([AT; 72; 68], hd_fields_of h)])
  ++ map (fun o => ([AT; 83; 81], ref_fields o)) rs
  ++ map (fun o => ([AT; 82; 71], rg_fields_of o)) gs
  ++ map (fun o => ([AT; 80; 71], pg_fields_of o)) ps
  ++ map (fun c => ([AT; 67; 79], [c])) (h_co h).

Lemma render_app : forall a b, render (a ++ b) = render a ++ render b.
Proof. intros. unfold render. rewrite map_app, concat_app. reflexivity. Qed.
Lemma lines_render : forall {A} (f : A -> str) (g : A -> str * list str) l,
  (forall x, f x = render_line (g x)) -> lines f l = render (map g l).
Proof.
  intros A f g l H. unfold lines, render. rewrite map_map. f_equal. apply map_ext. intro x. rewrite H. reflexivity.
Qed.

Lemma marshal_text_render : forall w h rs gs ps,
  objs (w_r w) (t_items (h_R h)) = Some rs -> objs (w_g w) (t_items (h_G h)) = Some gs -> objs (w_p w) (t_items (h_P h)) = Some ps ->
  marshal_text w h = Ok (render (doc_of h rs gs ps)).
Proof.
  intros w h rs gs ps Hr Hg Hp. unfold marshal_text. rewrite Hr, Hg, Hp. f_equal.
  unfold doc_of. rewrite !render_app.
  rewrite (lines_render ref_string (fun o => ([AT; 83; 81], ref_fields o))) by apply ref_string_render.
  rewrite (lines_render rg_string (fun o => ([AT; 82; 71], rg_fields_of o))) by apply rg_string_render.
  rewrite (lines_render pg_string (fun o => ([AT; 80; 71], pg_fields_of o))) by apply pg_string_render.
  rewrite (lines_render (fun c => [AT; 67; 79; TAB] ++ c) (fun c => ([AT; 67; 79], [c]))).
  2:{ intro c. unfold render_line. cbn [fst snd]. rewrite cf_one. reflexivity. }
  f_equal. rewrite hd_string_render. destruct (is_empty (h_vn h)); [reflexivity|].
  unfold render. cbn [map concat]. rewrite app_nil_r. reflexivity.
Qed.

(** the lexical half of the text round trip: the marshalled text of a header
    splits (the way UnmarshalText splits it) into exactly the record heads
    and "XX:value" fields that were printed, provided they are free of
    TAB, LF and CR; [split_field] then recovers tag and value of each field *)
Theorem marshal_text_lex : forall w h rs gs ps,
  objs (w_r w) (t_items (h_R h)) = Some rs -> objs (w_g w) (t_items (h_G h)) = Some gs -> objs (w_p w) (t_items (h_P h)) = Some ps ->
  (forall hd fs, In (hd, fs) (doc_of h rs gs ps) -> clean hd /\ forall f, In f fs -> clean f) ->
  exists text, marshal_text w h = Ok text /\
    map (fun l => split TAB (strip_cr l)) (split LF text) = map (fun hf => fst hf :: snd hf) (doc_of h rs gs ps) ++ [[[]]].
Proof.
  intros w h rs gs ps Hr Hg Hp C. exists (render (doc_of h rs gs ps)). split; [apply marshal_text_render; assumption|].
  apply lex_roundtrip. exact C.
Qed.

Lemma split_field_body : forall t v, split_field (body t v) = Some (t, v).
Proof. intros [a b] v. unfold split_field, body. simpl. reflexivity. Qed.
