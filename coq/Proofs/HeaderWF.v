(** C07 — printable values are preserved: every operation with clean
    arguments keeps all items and all headers of the world well formed. *)
From Coq Require Import ZArith List Bool Lia.
From Hts Require Import Base.Prim Model.Header Model.HeaderRun Proofs.HeaderBase Proofs.HeaderInv Proofs.HeaderInv2 Proofs.HeaderWorld
     Proofs.HeaderParse Proofs.HeaderHist Proofs.HeaderMerge Proofs.HeaderText Proofs.HeaderNum Proofs.HeaderLoop Proofs.HeaderFields Proofs.HeaderRT Proofs.HeaderBin.
Import ListNotations.
Open Scope Z_scope.
Arguments mset : simpl never.
Arguments mget : simpl never.
Arguments atoi : simpl never.
Arguments dec : simpl never.
Arguments hex_of : simpl never.
Arguments hex_decode : simpl never.

Lemma Forall_upd : forall {A} (Q : A -> Prop) (l : list A) i x, Forall Q l -> Q x -> Forall Q (upd l i x).
Proof. induction l; destruct i; simpl; intros x F H; auto; inversion F; subst; constructor; auto. Qed.
Lemma Forall_snoc : forall {A} (Q : A -> Prop) (l : list A) x, Forall Q l -> Q x -> Forall Q (l ++ [x]).
Proof. intros. apply Forall_app. split; auto. Qed.
Lemma Forall_nth : forall {A} (Q : A -> Prop) (l : list A) i x, Forall Q l -> nth_error l i = Some x -> Q x.
Proof. intros A Q l i x F H. rewrite Forall_forall in F. apply F. eapply nth_error_In; eauto. Qed.

(** *** the generic identity operations keep a predicate that only looks at name and payload *)
Section GenQ.
  Context {P : Type}.
  Variable Q : obj P -> Prop.
  Hypothesis Q_nv : forall a b : obj P, o_name a = o_name b -> o_pay a = o_pay b -> Q a -> Q b.

  Lemma Q_ident : forall o a b, Q o -> Q (with_ident o a b).
  Proof. intros o a b H. eapply Q_nv; [| |exact H]; reflexivity. Qed.

  Lemma add_fresh_Q : forall eused h st t r o st' t' e, Forall Q st -> Q o ->
    add_fresh eused h st t r o = (st', t', e) -> Forall Q st'.
  Proof.
    intros eused h st t r o st' t' e F Ho A. unfold add_fresh in A. destruct (owned o || (0 <=? o_id o)); inversion A; subst; auto.
    apply Forall_upd; auto. apply Q_ident; auto.
  Qed.

  Lemma add_gen_Q : forall edup eused h st t r st' t' e, Forall Q st ->
    add_gen edup eused h st t r = Ok (st', t', e) -> Forall Q st'.
  Proof.
    intros edup eused h st t r st' t' e F A. unfold add_gen in A. destruct (nth_error st r) as [o|] eqn:Hr; [|discriminate].
    destruct (mget (o_name o) (t_seen t)). { inversion A; subst; auto. }
    inversion A as [A']. eapply add_fresh_Q; eauto. eapply Forall_nth; eauto.
  Qed.

  Lemma shift_ids_Q : forall l st seen st' seen', Forall Q st -> shift_ids st seen l = Ok (st', seen') -> Forall Q st'.
  Proof.
    induction l as [|r l IH]; intros st seen st' seen' F S; simpl in S.
    - inversion S; subst; auto.
    - destruct (nth_error st r) as [o|] eqn:Hr; [|discriminate]. eapply IH; [|exact S].
      apply Forall_upd; auto. apply Q_ident. eapply Forall_nth; eauto.
  Qed.

  Lemma remove_gen_Q : forall einv st t r st' t' e, Forall Q st -> remove_gen einv st t r = Ok (st', t', e) -> Forall Q st'.
  Proof.
    intros einv st t r st' t' e F R. unfold remove_gen in R. destruct (nth_error st r) as [o|] eqn:Hr; [|discriminate].
    destruct (negb (listed_at (t_items t) (o_id o) r)). { inversion R; subst; auto. }
    match type of R with context [shift_ids ?a ?b ?c] => destruct (shift_ids a b c) as [[st2 seen2]| | |] eqn:S end; try discriminate.
    assert (F2 := shift_ids_Q _ _ _ _ _ F S).
    destruct (nth_error st2 r) as [o2|] eqn:Hr2; [|discriminate]. inversion R; subst.
    apply Forall_upd; auto. apply Q_ident. eapply Forall_nth; eauto.
  Qed.

  Lemma clone_items_Q : forall items hn st st' items', Forall Q st -> clone_items hn st items = Ok (st', items') -> Forall Q st'.
  Proof.
    induction items as [|r l IH]; intros hn st st' items' F C; simpl in C.
    - inversion C; subst; auto.
    - destruct (nth_error st r) as [o|] eqn:Hr; [|discriminate].
      destruct (clone_items hn (st ++ [mkObj (Some hn) (o_id o) (o_name o) (o_pay o)]) l) as [[st2 l2]| | |] eqn:C2; try discriminate.
      inversion C; subst. eapply IH; [|exact C2]. apply Forall_snoc; auto.
      eapply Q_nv; [| |eapply Forall_nth; eauto]; reflexivity.
  Qed.
End GenQ.

(** *** field loops: an invariant over clean fields *)
Lemma clean_inv : forall c s, clean (c :: s) -> c <> TAB /\ c <> LF /\ c <> CR /\ clean s.
Proof.
  intros c s (A & B & C). split; [|split; [|split; [|split; [|split]]]].
  - intro; subst; apply A; left; reflexivity.
  - intro; subst; apply B; left; reflexivity.
  - intro; subst; apply C; left; reflexivity.
  - intro H; apply A; right; exact H.
  - intro H; apply B; right; exact H.
  - intro H; apply C; right; exact H.
Qed.
Lemma split_field_clean : forall f t v, split_field f = Some (t, v) -> clean f -> tclean t /\ clean v.
Proof.
  intros f t v H C. unfold split_field in H. destruct f as [|a [|b [|c r]]]; try discriminate.
  destruct (c =? COLON); [|discriminate]. inversion H; subst.
  apply clean_inv in C. destruct C as (a1 & a2 & a3 & C). apply clean_inv in C. destruct C as (b1 & b2 & b3 & C).
  apply clean_inv in C. destruct C as (_ & _ & _ & C). split; [apply tclean_const; auto|exact C].
Qed.

Section LoopInv.
  Variables (O FL R : Type).
  Variable F : O -> list tag -> FL -> list str -> outcome R.
  Variable STEP : O -> FL -> tag -> str -> outcome (O * FL).
  Variable FIN : O -> FL -> outcome R.
  Hypothesis F_nil : forall o seen fl, F o seen fl [] = FIN o fl.
  Hypothesis F_cons : forall o seen fl f l, F o seen fl (f :: l) =
    match split_field f with
    | None => Err eBadHeader
    | Some (t, v) =>
      if mem_tag t seen then Err eDupTag
      else match STEP o fl t v with
           | Ok (o', fl') => F o' (t :: seen) fl' l
           | Err e => Err e | Panic n => Panic n | Stuck => Stuck
           end
    end.
  Variable J : O -> list tag -> FL -> Prop.
  Hypothesis J_step : forall o seen fl t v o' fl', J o seen fl -> mem_tag t seen = false -> tclean t -> clean v ->
    STEP o fl t v = Ok (o', fl') -> J o' (t :: seen) fl'.

  Lemma loop_inv : forall fs o seen fl r, Forall clean fs -> J o seen fl -> F o seen fl fs = Ok r ->
    exists o' seen' fl', FIN o' fl' = Ok r /\ J o' seen' fl'.
  Proof.
    induction fs as [|f l IH]; intros o seen fl r C HJ HF.
    - rewrite F_nil in HF. eauto.
    - rewrite F_cons in HF. inversion C as [|? ? Cf Cl]; subst.
      destruct (split_field f) as [[t v]|] eqn:SF; [|discriminate].
      destruct (mem_tag t seen) eqn:M; [discriminate|].
      destruct (STEP o fl t v) as [[o' fl']| | |] eqn:S; try discriminate.
      destruct (split_field_clean f t v SF Cf) as (Ct & Cv).
      apply (IH o' (t :: seen) fl' r Cl); [exact (J_step o seen fl t v o' fl' HJ M Ct Cv S)|exact HF].
  Qed.
End LoopInv.

Lemma tdist_snoc : forall l t v, tdist l -> (forall tp, In tp l -> tag_eqb (fst tp) t = false) -> tdist (l ++ [(t, v)]).
Proof.
  induction l as [|x l IH]; intros t v D H; simpl.
  - split; auto.
  - destruct D as (D1 & D2). split.
    + unfold mem_tag in *. rewrite map_app, existsb_app. apply orb_false_iff. split; [exact D1|]. simpl. rewrite (H x (or_introl eq_refl)). reflexivity.
    + apply IH; auto. intros tp Hin. apply H. right; exact Hin.
Qed.

(** other tags collected so far: not standard, clean, all in [seen], pairwise distinct *)
Definition oth_inv (K seen : list tag) (l : list tagpair) : Prop :=
  (forall tp, In tp l -> mem_tag (fst tp) K = false /\ tclean (fst tp) /\ clean (snd tp) /\ mem_tag (fst tp) seen = true) /\ tdist l.
Lemma oth_inv_nil : forall K seen, oth_inv K seen [].
Proof. intros. split; [intros tp []|exact Logic.I]. Qed.
Lemma oth_inv_seen : forall K seen t l, oth_inv K seen l -> oth_inv K (t :: seen) l.
Proof.
  intros K seen t l (H & D). split; auto. intros tp Hin. destruct (H tp Hin) as (a & b & c & d). split; [exact a|]. split; [exact b|]. split; [exact c|].
  unfold mem_tag in *. cbn [existsb]. rewrite d. apply orb_true_r.
Qed.
Lemma oth_inv_add : forall K seen t v l, oth_inv K seen l -> mem_tag t K = false -> mem_tag t seen = false -> tclean t -> clean v ->
  oth_inv K (t :: seen) (l ++ [(t, v)]).
Proof.
  intros K seen t v l (H & D) HK HS Ct Cv. split.
  - intros tp Hin. apply in_app_or in Hin. destruct Hin as [Hin|[<-|[]]].
    + destruct (H tp Hin) as (a & b & c & d). split; [exact a|]. split; [exact b|]. split; [exact c|]. unfold mem_tag in *. cbn [existsb]. rewrite d. apply orb_true_r.
    + cbn [fst snd]. split; [exact HK|]. split; [exact Ct|]. split; [exact Cv|]. unfold mem_tag. cbn [existsb]. rewrite tag_eqb_refl. reflexivity.
  - apply tdist_snoc; auto. intros tp Hin. destruct (H tp Hin) as (_ & _ & _ & d).
    destruct (tag_eqb (fst tp) t) eqn:E; auto. apply tag_eqb_eq in E. rewrite E in d. congruence.
Qed.
Lemma oth_inv_ok : forall K seen l, oth_inv K seen l -> others_ok K l.
Proof. intros K seen l (H & D). split; auto. intros tp Hin. destruct (H tp Hin) as (a & b & c & _). split; [exact a|]. split; [exact b|exact c]. Qed.


Lemma mem_tag_false_intro : forall t K, forallb (fun k => negb (tag_eqb t k)) K = true -> mem_tag t K = false.
Proof.
  intros t K H. unfold mem_tag. induction K as [|k K IH]; simpl in *; auto.
  apply andb_true_iff in H. destruct H as (H1 & H2). apply negb_true_iff in H1. rewrite H1. simpl. auto.
Qed.

Section ParseWF.
  Variable pt : str -> option str.
  Variable pu : str -> option str.
  Hypothesis pt_law : forall v d, pt v = Some d -> pt d = Some d /\ clean d.
  Hypothesis pu_law : forall v u, pu v = Some u -> pu u = Some u /\ clean u.

  (** **** @SQ *)
  Definition Jsq (o : obj refpay) (seen : list tag) (fl : bool * bool) : Prop :=
    let p := o_pay o in
    clean (o_name o) /\ (snd fl = true -> valid_len (rp_len p) = true) /\
    (rp_md5 p = [] \/ (length (rp_md5 p) = 16%nat /\ bytes (rp_md5 p))) /\
    clean (rp_as p) /\ clean (rp_sp p) /\
    (forall u, rp_uri p = Some u -> pu u = Some u /\ clean u) /\ oth_inv KR seen (rp_other p).

  Lemma Jsq_step : forall o seen fl t v o' fl', Jsq o seen fl -> mem_tag t seen = false -> tclean t -> clean v ->
    sq_step pu o fl t v = Ok (o', fl') -> Jsq o' (t :: seen) fl'.
  Proof.
    intros [ow id nm [len md5 as_ sp uri other]] seen [nok lok] t v o' fl' (J1 & J2 & J3 & J4 & J5 & J6 & J7) M Ct Cv S.
    unfold sq_step in S. cbn [o_pay o_name o_owner o_id rp_len rp_md5 rp_as rp_sp rp_uri rp_other fst snd with_name] in *.
    assert (J7' := oth_inv_seen KR seen t other J7).
    Ltac fin_sq := unfold Jsq; cbn [o_pay o_name o_owner o_id rp_len rp_md5 rp_as rp_sp rp_uri rp_other fst snd with_name].
    destruct (tag_eqb t tSN) eqn:E1. { inversion S; subst. fin_sq. exact (conj Cv (conj J2 (conj J3 (conj J4 (conj J5 (conj J6 J7')))))). }
    destruct (tag_eqb t tLN) eqn:E2.
    { destruct (atoi v) as [n|]; [|discriminate]. destruct (valid_len n) eqn:V; [|discriminate]. inversion S; subst. fin_sq.
      exact (conj J1 (conj (fun _ => V) (conj J3 (conj J4 (conj J5 (conj J6 J7')))))). }
    destruct (tag_eqb t tAS) eqn:E3. { inversion S; subst. fin_sq. exact (conj J1 (conj J2 (conj J3 (conj Cv (conj J5 (conj J6 J7')))))). }
    destruct (tag_eqb t tM5) eqn:E4.
    { destruct (32 <? zlen v); [discriminate|]. destruct (hex_decode 0 v []) as [b| | |] eqn:HD; try discriminate.
      destruct (Nat.eqb (length b) 16) eqn:L16; [|discriminate]. inversion S; subst. apply Nat.eqb_eq in L16.
      assert (Bb : bytes b) by (eapply (hex_decode_bytes (length v)); eauto; constructor).
      fin_sq. exact (conj J1 (conj J2 (conj (or_intror (conj L16 Bb)) (conj J4 (conj J5 (conj J6 J7')))))). }
    destruct (tag_eqb t tSP) eqn:E5. { inversion S; subst. fin_sq. exact (conj J1 (conj J2 (conj J3 (conj J4 (conj Cv (conj J6 J7')))))). }
    destruct (tag_eqb t tUR) eqn:E6.
    { destruct (pu v) as [u|] eqn:PU; [|discriminate]. inversion S; subst.
      assert (U6 : forall u0, Some u = Some u0 -> pu u0 = Some u0 /\ clean u0) by (intros u0 H; inversion H; subst; exact (pu_law v u0 PU)).
      fin_sq. exact (conj J1 (conj J2 (conj J3 (conj J4 (conj J5 (conj U6 J7')))))). }
    inversion S; subst.
    assert (MK : mem_tag t KR = false) by (apply mem_tag_false_intro; simpl; rewrite E1, E2, E3, E4, E5, E6; reflexivity).
    fin_sq. exact (conj J1 (conj J2 (conj J3 (conj J4 (conj J5 (conj J6 (oth_inv_add KR seen t v other J7 MK M Ct Cv))))))).
  Qed.

  Lemma sq_result : forall fs rf nok, Forall clean fs ->
    sq_fields pu (mkObj None 0 [] (mkRef 0 [] [] [] None [])) [] false false fs = Ok (rf, nok, true) -> WFref pu rf.
  Proof.
    intros fs rf nok C H.
    destruct (loop_inv _ _ _ (Fsq pu) (sq_step pu) FINsq (Fsq_nil pu) (Fsq_cons pu) Jsq Jsq_step fs
                (mkObj None 0 [] (mkRef 0 [] [] [] None [])) [] (false, false) (rf, nok, true) C) as (o' & seen' & fl' & HF & HJ).
    - unfold Jsq; cbn [o_pay o_name rp_len rp_md5 rp_as rp_sp rp_uri rp_other fst snd].
      refine (conj clean_nil (conj _ (conj (or_introl eq_refl) (conj clean_nil (conj clean_nil (conj _ (oth_inv_nil _ _))))))); [discriminate|intros u Hu; discriminate].
    - exact H.
    - unfold FINsq in HF. inversion HF; subst. destruct fl' as [a b]; cbn in *. subst.
      destruct HJ as (J1 & J2 & J3 & J4 & J5 & J6 & J7). unfold WFref.
      exact (conj J1 (conj (J2 eq_refl) (conj J3 (conj J4 (conj J5 (conj J6 (oth_inv_ok _ _ _ J7))))))).
  Qed.

  (** **** @RG *)
  Definition Jrg (o : obj rgpay) (seen : list tag) (idok : bool) : Prop :=
    let p := o_pay o in
    clean (o_name o) /\ clean (g_cn p) /\ clean (g_ds p) /\
    (forall d, g_dt p = Some d -> pt d = Some d /\ clean d) /\
    clean (g_fo p) /\ clean (g_ks p) /\ clean (g_lb p) /\ clean (g_pg p) /\
    valid_int32 (g_pi p) = true /\
    clean (g_pl p) /\ clean (g_pu p) /\ clean (g_sm p) /\ oth_inv KG seen (g_other p).

  Lemma Jrg_step : forall names o seen fl t v o' fl', Jrg o seen fl -> mem_tag t seen = false -> tclean t -> clean v ->
    rg_step pt names o fl t v = Ok (o', fl') -> Jrg o' (t :: seen) fl'.
  Proof.
    intros names [ow id nm [cn ds dt fo ks lb pg pi pl pu' sm other]] seen idok t v o' fl'
           (J0 & J1 & J2 & J3 & J4 & J5 & J6 & J7 & J8 & J9 & J10 & J11 & J12) M Ct Cv S.
    unfold rg_step in S. cbn [o_pay o_name o_owner o_id g_cn g_ds g_dt g_fo g_ks g_lb g_pg g_pi g_pl g_pu g_sm g_other with_name] in *.
    assert (J12' := oth_inv_seen KG seen t other J12).
    Ltac fin_rg := unfold Jrg; cbn [o_pay o_name o_owner o_id g_cn g_ds g_dt g_fo g_ks g_lb g_pg g_pi g_pl g_pu g_sm g_other with_name rg_set].
    destruct (tag_eqb t tID) eqn:E1.
    { destruct (mget v names); [discriminate|]. inversion S; subst. fin_rg.
      exact (conj Cv (conj J1 (conj J2 (conj J3 (conj J4 (conj J5 (conj J6 (conj J7 (conj J8 (conj J9 (conj J10 (conj J11 J12')))))))))))). }
    destruct (tag_eqb t tDT) eqn:E2.
    { destruct (pt v) as [d|] eqn:PT; [|discriminate]. inversion S; subst.
      assert (U : forall d0, Some d = Some d0 -> pt d0 = Some d0 /\ clean d0) by (intros d0 H; inversion H; subst; exact (pt_law v d0 PT)).
      fin_rg. exact (conj J0 (conj J1 (conj J2 (conj U (conj J4 (conj J5 (conj J6 (conj J7 (conj J8 (conj J9 (conj J10 (conj J11 J12')))))))))))). }
    destruct (tag_eqb t tPI) eqn:E3.
    { destruct (atoi v) as [n|]; [|discriminate]. destruct (valid_int32 n) eqn:V; [|discriminate]. inversion S; subst. fin_rg.
      exact (conj J0 (conj J1 (conj J2 (conj J3 (conj J4 (conj J5 (conj J6 (conj J7 (conj V (conj J9 (conj J10 (conj J11 J12')))))))))))). }
    destruct (rg_plain t) eqn:E4.
    { inversion S; subst. fin_rg.
      assert (IF : forall (b : bool) x, clean x -> clean (if b then v else x)) by (intros b x Hx; destruct b; assumption).
      exact (conj J0 (conj (IF _ _ J1) (conj (IF _ _ J2) (conj J3 (conj (IF _ _ J4) (conj (IF _ _ J5) (conj (IF _ _ J6) (conj (IF _ _ J7)
              (conj J8 (conj (IF _ _ J9) (conj (IF _ _ J10) (conj (IF _ _ J11) J12')))))))))))). }
    inversion S; subst.
    assert (MK : mem_tag t KG = false).
    { unfold rg_plain in E4. repeat (apply orb_false_iff in E4; destruct E4 as [E4 ?]).
      apply mem_tag_false_intro. simpl. rewrite E1, E2, E3, E4, H, H0, H1, H2, H3, H4, H5, H6. reflexivity. }
    fin_rg. unfold ADDrg. cbn [o_pay o_name o_owner o_id g_cn g_ds g_dt g_fo g_ks g_lb g_pg g_pi g_pl g_pu g_sm g_other].
    exact (conj J0 (conj J1 (conj J2 (conj J3 (conj J4 (conj J5 (conj J6 (conj J7 (conj J8 (conj J9 (conj J10 (conj J11
            (oth_inv_add KG seen t v other J12 MK M Ct Cv))))))))))))).
  Qed.

  Lemma rg_result : forall names fs g, Forall clean fs ->
    rg_fields pt names (mkObj None 0 [] (mkRG [] [] None [] [] [] [] 0 [] [] [] [])) [] false fs = Ok (g, true) -> WFrg pt g.
  Proof.
    intros names fs g C H.
    destruct (loop_inv _ _ _ (Frg pt names) (rg_step pt names) FINrg (Frg_nil pt names) (Frg_cons pt names) Jrg (Jrg_step names) fs
                (mkObj None 0 [] (mkRG [] [] None [] [] [] [] 0 [] [] [] [])) [] false (g, true) C) as (o' & seen' & fl' & HF & HJ).
    - unfold Jrg; cbn [o_pay o_name g_cn g_ds g_dt g_fo g_ks g_lb g_pg g_pi g_pl g_pu g_sm g_other].
      refine (conj clean_nil (conj clean_nil (conj clean_nil (conj _ (conj clean_nil (conj clean_nil (conj clean_nil (conj clean_nil
               (conj eq_refl (conj clean_nil (conj clean_nil (conj clean_nil (oth_inv_nil _ _))))))))))))). intros d Hd; discriminate.
    - exact H.
    - unfold FINrg in HF. inversion HF; subst.
      destruct HJ as (J0 & J1 & J2 & J3 & J4 & J5 & J6 & J7 & J8 & J9 & J10 & J11 & J12). unfold WFrg.
      exact (conj J0 (conj J1 (conj J2 (conj J3 (conj J4 (conj J5 (conj J6 (conj J7 (conj J8 (conj J9 (conj J10 (conj J11 (oth_inv_ok _ _ _ J12))))))))))))).
  Qed.

  (** **** @PG *)
  Definition Jpg (o : obj pgpay) (seen : list tag) (idok : bool) : Prop :=
    let p := o_pay o in
    clean (o_name o) /\ clean (p_pn p) /\ clean (p_cl p) /\ clean (p_pp p) /\ clean (p_vn p) /\ oth_inv KP seen (p_other p).

  Lemma Jpg_step : forall names o seen fl t v o' fl', Jpg o seen fl -> mem_tag t seen = false -> tclean t -> clean v ->
    pg_step names o fl t v = Ok (o', fl') -> Jpg o' (t :: seen) fl'.
  Proof.
    intros names [ow id nm [pp pn cl vn other]] seen idok t v o' fl' (J0 & J1 & J2 & J3 & J4 & J5) M Ct Cv S.
    unfold pg_step in S. cbn [o_pay o_name o_owner o_id p_pp p_pn p_cl p_vn p_other with_name] in *.
    assert (J5' := oth_inv_seen KP seen t other J5).
    Ltac fin_pg := unfold Jpg; cbn [o_pay o_name o_owner o_id p_pp p_pn p_cl p_vn p_other with_name].
    destruct (tag_eqb t tID) eqn:E1.
    { destruct (mget v names); [discriminate|]. inversion S; subst. fin_pg. exact (conj Cv (conj J1 (conj J2 (conj J3 (conj J4 J5'))))). }
    destruct (tag_eqb t tPN) eqn:E2. { inversion S; subst. fin_pg. exact (conj J0 (conj Cv (conj J2 (conj J3 (conj J4 J5'))))). }
    destruct (tag_eqb t tCL) eqn:E3. { inversion S; subst. fin_pg. exact (conj J0 (conj J1 (conj Cv (conj J3 (conj J4 J5'))))). }
    destruct (tag_eqb t tPP) eqn:E4. { inversion S; subst. fin_pg. exact (conj J0 (conj J1 (conj J2 (conj Cv (conj J4 J5'))))). }
    destruct (tag_eqb t tVN) eqn:E5. { inversion S; subst. fin_pg. exact (conj J0 (conj J1 (conj J2 (conj J3 (conj Cv J5'))))). }
    inversion S; subst.
    assert (MK : mem_tag t KP = false) by (apply mem_tag_false_intro; simpl; rewrite E1, E2, E3, E4, E5; reflexivity).
    fin_pg. unfold ADDpg. cbn [o_pay o_name o_owner o_id p_pp p_pn p_cl p_vn p_other].
    exact (conj J0 (conj J1 (conj J2 (conj J3 (conj J4 (oth_inv_add KP seen t v other J5 MK M Ct Cv)))))).
  Qed.

  Lemma pg_result : forall names fs g, Forall clean fs ->
    pg_fields names (mkObj None 0 [] (mkPG [] [] [] [] [])) [] false fs = Ok (g, true) -> WFpg g.
  Proof.
    intros names fs g C H.
    destruct (loop_inv _ _ _ (Fpg names) (pg_step names) FINpg (Fpg_nil names) (Fpg_cons names) Jpg (Jpg_step names) fs
                (mkObj None 0 [] (mkPG [] [] [] [] [])) [] false (g, true) C) as (o' & seen' & fl' & HF & HJ).
    - unfold Jpg; cbn [o_pay o_name p_pp p_pn p_cl p_vn p_other].
      exact (conj clean_nil (conj clean_nil (conj clean_nil (conj clean_nil (conj clean_nil (oth_inv_nil _ _)))))).
    - exact H.
    - unfold FINpg in HF. inversion HF; subst.
      destruct HJ as (J0 & J1 & J2 & J3 & J4 & J5). unfold WFpg.
      exact (conj J0 (conj J1 (conj J2 (conj J3 (conj J4 (oth_inv_ok _ _ _ J5)))))).
  Qed.
End ParseWF.

Lemma split_go_pieces : forall sep s cur x c, (forall d, In d cur -> d <> sep) ->
  In x (split_go sep s cur) -> In c x -> (In c s \/ In c cur) /\ c <> sep.
Proof.
  induction s as [|a s IH]; intros cur x c Hc Hx Hin; simpl in Hx.
  - destruct Hx as [<-|[]]. apply in_rev in Hin. split; auto.
  - destruct (a =? sep) eqn:E.
    + destruct Hx as [<-|Hx].
      * apply in_rev in Hin. split; auto.
      * destruct (IH [] x c (fun d H => match H with end) Hx Hin) as ([H|[]] & N). split; auto. left; right; auto.
    + apply Z.eqb_neq in E. destruct (IH (a :: cur) x c) as ([H|[H|H]] & N); auto.
      * intros d [<-|Hd]; auto.
      * split; auto. left; right; auto.
      * subst. split; auto. left; left; auto.
Qed.
Lemma split_clean : forall l, ~ In LF l -> ~ In CR l -> Forall clean (split TAB l).
Proof.
  intros l HL HC. apply Forall_forall. intros x Hx. unfold split in Hx.
  repeat split; intro Hin; destruct (split_go_pieces TAB l [] x _ (fun d H => match H with end) Hx Hin) as ([H|[]] & N); auto.
Qed.
Lemma split2_go_suffix : forall sep s cur a c, split2_go sep s cur = [a; c] -> forall d, In d c -> In d s.
Proof.
  induction s as [|x s IH]; intros cur a c H d Hd; simpl in H; [discriminate|].
  destruct (x =? sep). { inversion H; subst. right; auto. } right. eapply IH; eauto.
Qed.

Section AllWF.
  Variable pt : str -> option str.
  Variable pu : str -> option str.
  Hypothesis pt_law : forall v d, pt v = Some d -> pt d = Some d /\ clean d.
  Hypothesis pu_law : forall v u, pu v = Some u -> pu u = Some u /\ clean u.

  (** every header and every item of the world (listed or not) has printable values *)
  Definition AllWF (w : world) : Prop :=
    Forall WFhd (w_h w) /\ Forall (WFref pu) (w_r w) /\ Forall (WFrg pt) (w_g w) /\ Forall WFpg (w_p w).

  Lemma WFref_nv : forall a b : obj refpay, o_name a = o_name b -> o_pay a = o_pay b -> WFref pu a -> WFref pu b.
  Proof. intros a b Hn Hp H. unfold WFref in *. rewrite <- Hn, <- Hp. exact H. Qed.
  Lemma WFrg_nv : forall a b : obj rgpay, o_name a = o_name b -> o_pay a = o_pay b -> WFrg pt a -> WFrg pt b.
  Proof. intros a b Hn Hp H. unfold WFrg in *. rewrite <- Hn, <- Hp. exact H. Qed.
  Lemma WFpg_nv : forall a b : obj pgpay, o_name a = o_name b -> o_pay a = o_pay b -> WFpg a -> WFpg b.
  Proof. intros a b Hn Hp H. unfold WFpg in *. rewrite <- Hn, <- Hp. exact H. Qed.

  Lemma WFhd_eq : forall a b, h_vn b = h_vn a -> h_so b = h_so a -> h_go b = h_go a -> h_other b = h_other a -> h_co b = h_co a ->
    WFhd a -> WFhd b.
  Proof. intros a b e1 e2 e3 e4 e5 H. unfold WFhd in *. rewrite e1, e2, e3, e4, e5. exact H. Qed.

  Lemma AllWF_hdr : forall w h hd', AllWF w -> WFhd hd' -> AllWF (put_hdr w h hd').
  Proof. intros w h hd' (A & B & C & D) H. split; [|auto]. simpl. apply Forall_upd; auto. Qed.
  Lemma AllWF_R : forall w h hd st' t', AllWF w -> nth_error (w_h w) h = Some hd -> Forall (WFref pu) st' ->
    AllWF (put_hdr (set_r w st') h (set_R hd t')).
  Proof.
    intros w h hd st' t' (A & B & C & D) Hh F. split; [|split; auto]. simpl. apply Forall_upd; auto.
    eapply WFhd_eq; [| | | | |eapply Forall_nth; eauto]; reflexivity.
  Qed.
  Lemma AllWF_G : forall w h hd st' t', AllWF w -> nth_error (w_h w) h = Some hd -> Forall (WFrg pt) st' ->
    AllWF (put_hdr (set_g w st') h (set_G hd t')).
  Proof.
    intros w h hd st' t' (A & B & C & D) Hh F. split; [|split; [|split]; auto]. simpl. apply Forall_upd; auto.
    eapply WFhd_eq; [| | | | |eapply Forall_nth; eauto]; reflexivity.
  Qed.
  Lemma AllWF_P : forall w h hd st' t', AllWF w -> nth_error (w_h w) h = Some hd -> Forall WFpg st' ->
    AllWF (put_hdr (set_p w st') h (set_P hd t')).
  Proof.
    intros w h hd st' t' (A & B & C & D) Hh F. split; [|split; [|split]; auto]. simpl. apply Forall_upd; auto.
    eapply WFhd_eq; [| | | | |eapply Forall_nth; eauto]; reflexivity.
  Qed.

  Lemma lift3_G_wf : forall w h hd x w' e, AllWF w -> nth_error (w_h w) h = Some hd ->
    (forall st' t' e', x = Ok (st', t', e') -> Forall (WFrg pt) st') -> lift3 w h hd set_g set_G x = Ok (w', e) -> AllWF w'.
  Proof. intros w h hd x w' e A Hh HF L. unfold lift3 in L. destruct x as [[[st' t'] e']| | |]; try discriminate. inversion L; subst. apply AllWF_G; auto. eapply HF; eauto. Qed.
  Lemma lift3_P_wf : forall w h hd x w' e, AllWF w -> nth_error (w_h w) h = Some hd ->
    (forall st' t' e', x = Ok (st', t', e') -> Forall WFpg st') -> lift3 w h hd set_p set_P x = Ok (w', e) -> AllWF w'.
  Proof. intros w h hd x w' e A Hh HF L. unfold lift3 in L. destruct x as [[[st' t'] e']| | |]; try discriminate. inversion L; subst. apply AllWF_P; auto. eapply HF; eauto. Qed.
  Lemma lift3_R_wf : forall w h hd x w' e, AllWF w -> nth_error (w_h w) h = Some hd ->
    (forall st' t' e', x = Ok (st', t', e') -> Forall (WFref pu) st') -> lift3 w h hd set_r set_R x = Ok (w', e) -> AllWF w'.
  Proof. intros w h hd x w' e A Hh HF L. unfold lift3 in L. destruct x as [[[st' t'] e']| | |]; try discriminate. inversion L; subst. apply AllWF_R; auto. eapply HF; eauto. Qed.

  Lemma add_read_group_wf : forall w h r w' e, AllWF w -> add_read_group w h r = Ok (w', e) -> AllWF w'.
  Proof.
    intros w h r w' e A H. unfold add_read_group in H. destruct (nth_error (w_h w) h) as [hd|] eqn:Hh; [|discriminate].
    eapply lift3_G_wf; eauto. intros st' t' e' E. eapply (add_gen_Q (WFrg pt) WFrg_nv); [apply A|exact E].
  Qed.
  Lemma remove_read_group_wf : forall w h r w' e, AllWF w -> remove_read_group w h r = Ok (w', e) -> AllWF w'.
  Proof.
    intros w h r w' e A H. unfold remove_read_group in H. destruct (nth_error (w_h w) h) as [hd|] eqn:Hh; [|discriminate].
    eapply lift3_G_wf; eauto. intros st' t' e' E. eapply (remove_gen_Q (WFrg pt) WFrg_nv); [apply A|exact E].
  Qed.
  Lemma add_program_wf : forall w h r w' e, AllWF w -> add_program w h r = Ok (w', e) -> AllWF w'.
  Proof.
    intros w h r w' e A H. unfold add_program in H. destruct (nth_error (w_h w) h) as [hd|] eqn:Hh; [|discriminate].
    eapply lift3_P_wf; eauto. intros st' t' e' E. eapply (add_gen_Q WFpg WFpg_nv); [apply A|exact E].
  Qed.
  Lemma remove_program_wf : forall w h r w' e, AllWF w -> remove_program w h r = Ok (w', e) -> AllWF w'.
  Proof.
    intros w h r w' e A H. unfold remove_program in H. destruct (nth_error (w_h w) h) as [hd|] eqn:Hh; [|discriminate].
    eapply lift3_P_wf; eauto. intros st' t' e' E. eapply (remove_gen_Q WFpg WFpg_nv); [apply A|exact E].
  Qed.
  Lemma remove_reference_wf : forall w h r w' e, AllWF w -> remove_reference w h r = Ok (w', e) -> AllWF w'.
  Proof.
    intros w h r w' e A H. unfold remove_reference in H. destruct (nth_error (w_h w) h) as [hd|] eqn:Hh; [|discriminate].
    eapply lift3_R_wf; eauto. intros st' t' e' E. eapply (remove_gen_Q (WFref pu) WFref_nv); [apply A|exact E].
  Qed.

  Lemma WFref_inherit : forall o er, WFref pu o -> WFref pu er -> WFref pu (inherit o er).
  Proof.
    intros [ow id nm [len md5 as_ sp uri other]] [ow' id' nm' [len' md5' as' sp' uri' other']]
           (A1 & A2 & A3 & A4 & A5 & A6 & A7) (B1 & B2 & B3 & B4 & B5 & B6 & B7).
    unfold WFref, inherit; cbn [o_name o_pay rp_len rp_md5 rp_as rp_sp rp_uri rp_other] in *.
    refine (conj A1 (conj A2 (conj _ (conj _ (conj _ (conj _ _)))))).
    - destruct (is_empty md5); assumption.
    - destruct (is_empty as_); assumption.
    - destruct (is_empty sp); assumption.
    - destruct uri; assumption.
    - destruct (is_empty other); assumption.
  Qed.

  Lemma add_reference_wf : forall w h r w' e, AllWF w -> add_reference w h r = Ok (w', e) -> AllWF w'.
  Proof.
    intros w h r w' e A H. unfold add_reference in H.
    destruct (nth_error (w_h w) h) as [hd|] eqn:Hh; [|discriminate]. destruct (nth_error (w_r w) r) as [o|] eqn:Hr; [|discriminate].
    assert (Wo : WFref pu o) by (eapply Forall_nth; [apply A|eauto]).
    destruct (mget (o_name o) (t_seen (h_R hd))) as [dupID|].
    - destruct (idx (t_items (h_R hd)) dupID) as [erh|]; [|discriminate]. destruct (nth_error (w_r w) erh) as [er|] eqn:He; [|discriminate].
      assert (We : WFref pu er) by (eapply Forall_nth; [apply A|eauto]).
      destruct (equal_refs er o). { inversion H; subst; auto. }
      destruct (negb (equal_refs o _)). { inversion H; subst; auto. }
      destruct (owned o). { inversion H; subst; auto. }
      unfold install_over in H. inversion H; subst. apply AllWF_R; auto.
      apply Forall_upd; [apply Forall_upd; [apply A|]|].
      + apply (Q_ident (WFref pu) WFref_nv). apply WFref_inherit; auto.
      + apply (Q_ident (WFref pu) WFref_nv). exact We.
    - destruct (add_fresh eUsedRef h (w_r w) (h_R hd) r o) as [[st' t'] e'] eqn:AF. inversion H; subst.
      apply AllWF_R; auto. eapply (add_fresh_Q (WFref pu) WFref_nv); [apply A|exact Wo|exact AF].
  Qed.

  Lemma alloc_ref_wf : forall w o, AllWF w -> WFref pu o -> AllWF (set_r w (w_r w ++ [o])).
  Proof. intros w o (A & B & C & D) H. split; [|split; [|split]]; auto. simpl. apply Forall_snoc; auto. Qed.
  Lemma alloc_rg_wf : forall w o, AllWF w -> WFrg pt o -> AllWF (set_g w (w_g w ++ [o])).
  Proof. intros w o (A & B & C & D) H. split; [|split; [|split]]; auto. simpl. apply Forall_snoc; auto. Qed.
  Lemma alloc_pg_wf : forall w o, AllWF w -> WFpg o -> AllWF (set_p w (w_p w ++ [o])).
  Proof. intros w o (A & B & C & D) H. split; [|split; [|split]]; auto. simpl. apply Forall_snoc; auto. Qed.
End AllWF.

Section AllWF2.
  Variable pt : str -> option str.
  Variable pu : str -> option str.
  Hypothesis pt_law : forall v d, pt v = Some d -> pt d = Some d /\ clean d.
  Hypothesis pu_law : forall v u, pu v = Some u -> pu u = Some u /\ clean u.
  Notation AllWF := (AllWF pt pu).

  Lemma WFref_name : forall o n, clean n -> WFref pu o -> WFref pu (with_name o n).
  Proof. intros [a b c d] n Cn (_ & H). split; [exact Cn|exact H]. Qed.
  Lemma WFrg_name : forall o n, clean n -> WFrg pt o -> WFrg pt (with_name o n).
  Proof. intros [a b c d] n Cn (_ & H). split; [exact Cn|exact H]. Qed.
  Lemma WFpg_name : forall o n, clean n -> WFpg o -> WFpg (with_name o n).
  Proof. intros [a b c d] n Cn (_ & H). split; [exact Cn|exact H]. Qed.

  Lemma set_ref_name_wf : forall w r n w' e, AllWF w -> clean n -> set_ref_name w r n = Ok (w', e) -> AllWF w'.
  Proof.
    intros w r n w' e A Cn H. unfold set_ref_name, setname_any in H. destruct (nth_error (w_r w) r) as [o|] eqn:Hr; [|discriminate].
    assert (F : Forall (WFref pu) (upd (w_r w) r (with_name o n))).
    { apply Forall_upd; [apply A|]. apply WFref_name; auto. eapply Forall_nth; [apply A|eauto]. }
    destruct (o_owner o) as [h|].
    - destruct (nth_error (w_h w) h) as [hd|] eqn:Hh; [|discriminate]. destruct (setname_owned (h_R hd) o n) as [[t'|] e'].
      + inversion H; subst. apply AllWF_R; auto.
      + inversion H; subst; auto.
    - inversion H; subst. destruct A as (A1 & A2 & A3 & A4). split; [|split; [|split]]; auto.
  Qed.
  Lemma set_rg_name_wf : forall w r n w' e, AllWF w -> clean n -> set_rg_name w r n = Ok (w', e) -> AllWF w'.
  Proof.
    intros w r n w' e A Cn H. unfold set_rg_name, setname_any in H. destruct (nth_error (w_g w) r) as [o|] eqn:Hr; [|discriminate].
    assert (F : Forall (WFrg pt) (upd (w_g w) r (with_name o n))).
    { apply Forall_upd; [apply A|]. apply WFrg_name; auto. eapply Forall_nth; [apply A|eauto]. }
    destruct (o_owner o) as [h|].
    - destruct (nth_error (w_h w) h) as [hd|] eqn:Hh; [|discriminate]. destruct (setname_owned (h_G hd) o n) as [[t'|] e'].
      + inversion H; subst. apply AllWF_G; auto.
      + inversion H; subst; auto.
    - inversion H; subst. destruct A as (A1 & A2 & A3 & A4). split; [|split; [|split]]; auto.
  Qed.
  Lemma set_pg_uid_wf : forall w r n w' e, AllWF w -> clean n -> set_pg_uid w r n = Ok (w', e) -> AllWF w'.
  Proof.
    intros w r n w' e A Cn H. unfold set_pg_uid, setname_any in H. destruct (nth_error (w_p w) r) as [o|] eqn:Hr; [|discriminate].
    assert (F : Forall WFpg (upd (w_p w) r (with_name o n))).
    { apply Forall_upd; [apply A|]. apply WFpg_name; auto. eapply Forall_nth; [apply A|eauto]. }
    destruct (o_owner o) as [h|].
    - destruct (nth_error (w_h w) h) as [hd|] eqn:Hh; [|discriminate]. destruct (setname_owned (h_P hd) o n) as [[t'|] e'].
      + inversion H; subst. apply AllWF_P; auto.
      + inversion H; subst; auto.
    - inversion H; subst. destruct A as (A1 & A2 & A3 & A4). split; [|split; [|split]]; auto.
  Qed.

  Lemma clone_header_wf : forall w h w', AllWF w -> clone_header w h = Ok w' -> AllWF w'.
  Proof.
    intros w h w' (A1 & A2 & A3 & A4) H. unfold clone_header in H. destruct (nth_error (w_h w) h) as [hd|] eqn:Hh; [|discriminate].
    destruct (clone_items _ (w_r w) _) as [[sr ir]| | |] eqn:CR; try discriminate.
    destruct (clone_items _ (w_g w) _) as [[sg ig]| | |] eqn:CG; try discriminate.
    destruct (clone_items _ (w_p w) _) as [[sp ip]| | |] eqn:CP; try discriminate.
    inversion H; subst. split; [|split; [|split]]; simpl.
    - apply Forall_snoc; auto. eapply WFhd_eq; [| | | | |eapply Forall_nth; eauto]; reflexivity.
    - eapply (clone_items_Q (WFref pu) (WFref_nv pu)); eauto.
    - eapply (clone_items_Q (WFrg pt) (WFrg_nv pt)); eauto.
    - eapply (clone_items_Q WFpg WFpg_nv); eauto.
  Qed.

  (** **** text lines: the line is free of LF and, after the optional final CR, of CR *)
  Definition line_ok (l : str) : Prop := ~ In LF l /\ ~ In CR (strip_cr l).

  Lemma strip_cr_sub : forall l c, In c (strip_cr l) -> In c l.
  Proof.
    intros l c. unfold strip_cr. destruct (rev l) as [|x t] eqn:E; auto. destruct (x =? CR); auto.
    intro H. apply in_rev in H. apply in_rev. rewrite E. right; exact H.
  Qed.

  Definition Jhd (hd : hdr) : Prop :=
    clean (h_vn hd) /\ 0 <= h_so hd <= 3 /\ 0 <= h_go hd <= 3 /\
    (forall tp, In tp (h_other hd) -> mem_tag (fst tp) [tVN; tSO; tGO] = false /\ tclean (fst tp) /\ clean (snd tp)) /\
    (forall c, In c (h_co hd) -> lclean c).
  Lemma WFhd_Jhd : forall hd, WFhd hd -> Jhd hd.
  Proof. intros hd (_ & H). exact H. Qed.
  Lemma Jhd_WFhd : forall hd, Jhd hd -> is_empty (h_vn hd) = false -> WFhd hd.
  Proof. intros hd H E. split; [|exact H]. intro V. rewrite V in E. discriminate. Qed.

  Lemma so_parse_range : forall v, 0 <= so_parse v <= 3.
  Proof. intro v. unfold so_parse. repeat match goal with |- context [if ?b then _ else _] => destruct b end; lia. Qed.
  Lemma go_parse_range : forall v, 0 <= go_parse v <= 3.
  Proof. intro v. unfold go_parse. repeat match goal with |- context [if ?b then _ else _] => destruct b end; lia. Qed.

  Lemma hd_fields_J : forall fs hd, Forall clean fs -> Jhd hd ->
    Jhd (fst (hd_fields hd fs)) /\ (snd (hd_fields hd fs) = 0 -> is_empty (h_vn (fst (hd_fields hd fs))) = false).
  Proof.
    induction fs as [|f l IH]; intros hd C J; cbn [hd_fields].
    - split; [exact J|]. simpl. destruct (is_empty (h_vn hd)); [discriminate|reflexivity].
    - inversion C as [|? ? Cf Cl]; subst. destruct (split_field f) as [[t v]|] eqn:SF; [|split; [exact J|discriminate]].
      destruct (split_field_clean f t v SF Cf) as (Ct & Cv). destruct J as (J1 & J2 & J3 & J4 & J5).
      destruct (tag_eqb t tVN) eqn:E1.
      { destruct (negb (is_empty (h_vn hd))); [split; [exact (conj J1 (conj J2 (conj J3 (conj J4 J5))))|discriminate]|].
        apply IH; auto. exact (conj Cv (conj J2 (conj J3 (conj J4 J5)))). }
      destruct (tag_eqb t tSO) eqn:E2.
      { destruct (negb (h_so hd =? 0)); [split; [exact (conj J1 (conj J2 (conj J3 (conj J4 J5))))|discriminate]|].
        apply IH; auto. exact (conj J1 (conj (so_parse_range v) (conj J3 (conj J4 J5)))). }
      destruct (tag_eqb t tGO) eqn:E3.
      { destruct (negb (h_go hd =? 0)); [split; [exact (conj J1 (conj J2 (conj J3 (conj J4 J5))))|discriminate]|].
        apply IH; auto. exact (conj J1 (conj J2 (conj (go_parse_range v) (conj J4 J5)))). }
      apply IH; auto. refine (conj J1 (conj J2 (conj J3 (conj _ J5)))). cbn [set_hd h_other].
      intros tp Hin. apply in_app_or in Hin. destruct Hin as [Hin|[<-|[]]]; [apply J4; exact Hin|].
      cbn [fst snd]. split; [|split; assumption]. apply mem_tag_false_intro. simpl. rewrite E1, E2, E3. reflexivity.
  Qed.

  Lemma text_line_wf : forall w h l w' e, AllWF w -> line_ok l -> text_line pt pu w h l = Ok (w', e) -> AllWF w'.
  Proof.
    intros w h l0 w' e A (HL & HC) H. unfold text_line in H.
    assert (HL' : ~ In LF (strip_cr l0)) by (intro Hi; apply HL; apply strip_cr_sub; exact Hi).
    set (l := strip_cr l0) in *. clearbody l.
    assert (FC := split_clean l HL' HC).
    destruct l as [|c0 [|c1 [|c2 rest]]]; try (inversion H; subst; exact A).
    destruct (negb (c0 =? AT)); [inversion H; subst; exact A|].
    destruct (tag_eqb (c1, c2) tHD).
    { destruct (nth_error (w_h w) h) as [hd|] eqn:Hh; [|discriminate]. unfold header_line in H.
      destruct (split TAB (c0 :: c1 :: c2 :: rest)) as [|f0 [|f1 fs]] eqn:SP.
      - inversion H; subst. apply AllWF_hdr; auto. eapply Forall_nth; [apply A|eauto].
      - inversion H; subst. apply AllWF_hdr; auto. eapply Forall_nth; [apply A|eauto].
      - inversion FC as [|? ? _ FC']; subst.
        assert (Whd : WFhd hd) by (eapply Forall_nth; [apply A|eauto]).
        destruct (hd_fields_J (f1 :: fs) hd FC' (WFhd_Jhd hd Whd)) as (JJ & JE).
        destruct (hd_fields hd (f1 :: fs)) as [hd' e'] eqn:HF. cbn [fst snd] in *.
        destruct (e' =? 0) eqn:E0; inversion H; subst; apply AllWF_hdr; auto.
        apply Jhd_WFhd; auto. apply JE. apply Z.eqb_eq. exact E0. }
    destruct (tag_eqb (c1, c2) tSQ).
    { unfold reference_line in H. destruct (nth_error (w_h w) h) as [hd|] eqn:Hh; [|discriminate].
      destruct (split TAB (c0 :: c1 :: c2 :: rest)) as [|f0 [|f1 [|f2 fs]]] eqn:SP; try (inversion H; subst; exact A).
      inversion FC as [|? ? _ FC']; subst.
      destruct (sq_fields pu _ [] false false (f1 :: f2 :: fs)) as [[[rf nok] lok]|e'| |] eqn:SQ; try discriminate; [|inversion H; subst; exact A].
      destruct nok, lok; cbn [negb orb] in H; try (inversion H; subst; exact A).
      assert (Wrf := sq_result pu pu_law (f1 :: f2 :: fs) rf true FC' SQ).
      destruct (mget (o_name rf) (t_seen (h_R hd))) as [dupID|].
      - destruct (idx (t_items (h_R hd)) dupID) as [erh|]; [|discriminate]. destruct (nth_error (w_r w) erh) as [er|] eqn:He; [|discriminate].
        destruct (equal_refs er _); [inversion H; subst; exact A|]. destruct (negb (equal_refs er _)); [inversion H; subst; exact A|].
        unfold install_over in H. inversion H; subst. apply AllWF_R; auto.
        assert (We : WFref pu er) by (eapply Forall_nth; [apply A|eauto]).
        apply Forall_upd; [apply Forall_upd; [apply Forall_snoc; [apply A|]|]|].
        + apply (Q_ident (WFref pu) (WFref_nv pu)). exact Wrf.
        + apply (Q_ident (WFref pu) (WFref_nv pu)). apply (Q_ident (WFref pu) (WFref_nv pu)). exact Wrf.
        + apply (Q_ident (WFref pu) (WFref_nv pu)). exact We.
      - destruct (add_fresh eUsedRef h (w_r w ++ [with_ident rf None (-1)]) (h_R hd) (length (w_r w)) (with_ident rf None (-1))) as [[st1 t1] e1] eqn:AF.
        inversion H; subst. apply AllWF_R; auto.
        eapply (add_fresh_Q (WFref pu) (WFref_nv pu)); [|apply (Q_ident (WFref pu) (WFref_nv pu)); exact Wrf|exact AF].
        apply Forall_snoc; [apply A|]. apply (Q_ident (WFref pu) (WFref_nv pu)). exact Wrf. }
    destruct (tag_eqb (c1, c2) tRG).
    { unfold read_group_line in H. destruct (nth_error (w_h w) h) as [hd|] eqn:Hh; [|discriminate].
      destruct (split TAB (c0 :: c1 :: c2 :: rest)) as [|f0 [|f1 fs]] eqn:SP; try (inversion H; subst; exact A).
      inversion FC as [|? ? _ FC']; subst.
      destruct (rg_fields pt _ _ [] false (f1 :: fs)) as [[g idok]|e'| |] eqn:RG; try discriminate; [|inversion H; subst; exact A].
      destruct idok; cbn [negb] in H; [|inversion H; subst; exact A].
      assert (Wg := rg_result pt pt_law _ (f1 :: fs) g FC' RG).
      unfold install_new in H.
      destruct (add_fresh 0 h (w_g w ++ [with_ident g None (-1)]) (h_G hd) (length (w_g w)) (with_ident g None (-1))) as [[st1 t1] e1] eqn:AF.
      inversion H; subst. apply AllWF_G; auto.
      eapply (add_fresh_Q (WFrg pt) (WFrg_nv pt)); [|apply (Q_ident (WFrg pt) (WFrg_nv pt)); exact Wg|exact AF].
      apply Forall_snoc; [apply A|]. apply (Q_ident (WFrg pt) (WFrg_nv pt)). exact Wg. }
    destruct (tag_eqb (c1, c2) tPG).
    { unfold program_line in H. destruct (nth_error (w_h w) h) as [hd|] eqn:Hh; [|discriminate].
      destruct (split TAB (c0 :: c1 :: c2 :: rest)) as [|f0 [|f1 fs]] eqn:SP; try (inversion H; subst; exact A).
      inversion FC as [|? ? _ FC']; subst.
      destruct (pg_fields _ _ [] false (f1 :: fs)) as [[g idok]|e'| |] eqn:PG; try discriminate; [|inversion H; subst; exact A].
      destruct idok; cbn [negb] in H; [|inversion H; subst; exact A].
      assert (Wg := pg_result _ (f1 :: fs) g FC' PG).
      unfold install_new in H.
      destruct (add_fresh 0 h (w_p w ++ [with_ident g None (-1)]) (h_P hd) (length (w_p w)) (with_ident g None (-1))) as [[st1 t1] e1] eqn:AF.
      inversion H; subst. apply AllWF_P; auto.
      eapply (add_fresh_Q WFpg WFpg_nv); [|apply (Q_ident WFpg WFpg_nv); exact Wg|exact AF].
      apply Forall_snoc; [apply A|]. apply (Q_ident WFpg WFpg_nv). exact Wg. }
    destruct (tag_eqb (c1, c2) tCO); [|inversion H; subst; exact A].
    unfold comment_line in H. destruct (nth_error (w_h w) h) as [hd|] eqn:Hh; [|discriminate].
    destruct (split2 TAB (c0 :: c1 :: c2 :: rest)) as [|a [|c [|x y]]] eqn:S2; try (inversion H; subst; exact A).
    inversion H; subst. apply AllWF_hdr; auto.
    assert (Whd : WFhd hd) by (eapply Forall_nth; [apply A|eauto]). destruct Whd as (W0 & W1 & W2 & W3 & W4 & W5).
    split; [exact W0|]. refine (conj W1 (conj W2 (conj W3 (conj W4 _)))). cbn [set_co h_co].
    intros c' Hin. apply in_app_or in Hin. destruct Hin as [Hin|[<-|[]]]; [apply W5; exact Hin|].
    unfold split2 in S2. split; intro Hi; apply (split2_go_suffix _ _ _ _ _ S2) in Hi; auto.
  Qed.

  Definition text_ok (t : str) : Prop := forall l, In l (split LF t) -> ~ In CR (strip_cr l).

  Lemma split_LF_free : forall t l, In l (split LF t) -> ~ In LF l.
  Proof. intros t l H Hi. unfold split in H. destruct (split_go_pieces LF t [] l LF (fun d H => match H with end) H Hi) as (_ & N). congruence. Qed.

  Lemma text_lines_wf : forall ls w h w' e, AllWF w -> Forall line_ok ls -> text_lines pt pu w h ls = Ok (w', e) -> AllWF w'.
  Proof.
    induction ls as [|l ls IH]; intros w h w' e A F H; simpl in H.
    - inversion H; subst; exact A.
    - inversion F; subst. destruct (text_line pt pu w h l) as [[w1 e1]| | |] eqn:TL; try discriminate.
      assert (A1 := text_line_wf w h l w1 e1 A H2 TL).
      destruct (e1 =? 0); [eapply IH; eauto|inversion H; subst; exact A1].
  Qed.

  Lemma unmarshal_text_wf : forall w h t w' e, AllWF w -> text_ok t -> unmarshal_text pt pu w h t = Ok (w', e) -> AllWF w'.
  Proof.
    intros w h t w' e A T H. unfold unmarshal_text in H. apply (text_lines_wf (split LF t) w h w' e A); [|exact H].
    apply Forall_forall. intros l Hl. split; [eapply split_LF_free; eauto|apply T; exact Hl].
  Qed.
End AllWF2.

Section AllWF3.
  Variable pt : str -> option str.
  Variable pu : str -> option str.
  Hypothesis pt_law : forall v d, pt v = Some d -> pt d = Some d /\ clean d.
  Hypothesis pu_law : forall v u, pu v = Some u -> pu u = Some u /\ clean u.
  Notation AllWF := (AllWF pt pu).

  Lemma nh_claim_Q : forall rs h (st : list (obj refpay)) i, Forall (WFref pu) st -> Forall (WFref pu) (nh_claim h st i rs).
  Proof.
    induction rs as [|r l IH]; intros h st i F; simpl; auto.
    destruct (nth_error st r) as [o|] eqn:Hr; auto. apply IH. apply Forall_upd; auto.
    apply (Q_ident (WFref pu) (WFref_nv pu)). eapply Forall_nth; eauto.
  Qed.

  Lemma WFhd_empty : forall a b c, WFhd (mkHdr [] 0 0 [] a b c []).
  Proof.
    intros. unfold WFhd; cbn. split; [auto|]. split; [apply clean_nil|]. split; [lia|]. split; [lia|]. split; intros x [].
  Qed.

  Lemma new_header_wf : forall w text rs w' e, AllWF w -> (forall t, text = Some t -> text_ok t) ->
    new_header pt pu w text rs = Ok (w', e) -> AllWF w'.
  Proof.
    intros w text rs w' e A T H. unfold new_header in H.
    destruct (nh_validate (w_r w) [] 0 rs) as [[seen e0]| | |]; try discriminate.
    destruct (negb (e0 =? 0)); [inversion H; subst; exact A|].
    match type of H with context [match text with Some _ => _ | None => Ok (?W, 0) end] => assert (A1 : AllWF W) end.
    { destruct A as (A1 & A2 & A3 & A4). split; [|split; [|split]]; simpl; auto.
      - apply Forall_snoc; auto. apply WFhd_empty.
      - apply nh_claim_Q; auto. }
    destruct text as [t|]; [|inversion H; subst; exact A1].
    eapply (unmarshal_text_wf pt pu pt_law pu_law); [exact A1|apply T; reflexivity|exact H].
  Qed.

  Lemma add_all_wf : forall rs w h w' e, AllWF w -> Forall (WFref pu) rs -> add_all w h rs = Ok (w', e) -> AllWF w'.
  Proof.
    induction rs as [|o l IH]; intros w h w' e A F H; simpl in H.
    - inversion H; subst; exact A.
    - inversion F; subst.
      destruct (add_reference (set_r w (w_r w ++ [o])) h (length (w_r w))) as [[w1 e1]| | |] eqn:AR; try discriminate.
      assert (A1 : AllWF w1) by (eapply (add_reference_wf pt pu); [|exact AR]; apply alloc_ref_wf; auto).
      destruct (e1 =? 0); [eapply IH; eauto|inversion H; subst; exact A1].
  Qed.

  Lemma merge_refs_wf : forall l w hm w' e ls, AllWF w -> merge_refs w hm l = Ok (w', e, ls) -> AllWF w'.
  Proof.
    induction l as [|r l IH]; intros w hm w' e ls A H; simpl in H.
    - inversion H; subst; exact A.
    - unfold clone_ref in H. destruct (nth_error (w_r w) r) as [o|] eqn:Hr; [|discriminate].
      destruct (add_reference (new_ref w (o_name o) (o_pay o)) hm (length (w_r w))) as [[w2 e2]| | |] eqn:AR; try discriminate.
      assert (A2 : AllWF w2).
      { eapply (add_reference_wf pt pu); [|exact AR]. unfold new_ref. apply alloc_ref_wf; auto.
        eapply (WFref_nv pu); [| |eapply Forall_nth; [apply A|exact Hr]]; reflexivity. }
      destruct (negb (e2 =? 0)); [inversion H; subst; exact A2|].
      match type of H with match ?LNK with _ => _ end = _ => destruct LNK as [x| | |] end; try discriminate.
      destruct (merge_refs w2 hm l) as [[[w3 e3] ls3]| | |] eqn:MR; try discriminate.
      inversion H; subst. eapply IH; eauto.
  Qed.

  Lemma merge_srcs_wf : forall l w hm w' e ls, AllWF w -> merge_srcs w hm l = Ok (w', e, ls) -> AllWF w'.
  Proof.
    induction l as [|s l IH]; intros w hm w' e ls A H; simpl in H.
    - inversion H; subst; exact A.
    - destruct (nth_error (w_h w) s) as [hs|]; [|discriminate].
      destruct (merge_refs w hm (t_items (h_R hs))) as [[[w1 e1] links]| | |] eqn:MR; try discriminate.
      assert (A1 := merge_refs_wf _ _ _ _ _ _ A MR).
      destruct (negb (e1 =? 0)); [inversion H; subst; exact A1|].
      destruct (merge_srcs w1 hm l) as [[[w2 e2] ls2]| | |] eqn:MS; try discriminate.
      inversion H; subst. eapply IH; eauto.
  Qed.

  Lemma merge_headers_wf : forall w s0 srcs w' e ls, AllWF w -> merge_headers w s0 srcs = Ok (w', e, ls) -> AllWF w'.
  Proof.
    intros w s0 srcs w' e ls A H. unfold merge_headers in H.
    destruct (clone_header w s0) as [w1| | |] eqn:CH; try discriminate.
    assert (A1 := clone_header_wf pt pu w s0 w1 A CH).
    destruct (nth_error (w_h w1) (length (w_h w))) as [hd|] eqn:Hh; [|discriminate].
    match type of H with context [merge_srcs ?W _ _] => assert (A2 : AllWF W) end.
    { apply AllWF_hdr; auto. assert (Whd : WFhd hd) by (eapply Forall_nth; [apply A1|eauto]).
      destruct Whd as (W0 & W1 & W2 & W3 & W4 & W5). unfold WFhd; cbn [set_hd h_vn h_so h_go h_other h_co].
      split; [intro V; destruct (W0 V) as (_ & _ & O); auto|]. split; [exact W1|]. split; [lia|]. split; [lia|]. split; assumption. }
    destruct (merge_srcs _ _ srcs) as [[[w3 e3] ls3]| | |] eqn:MS; try discriminate.
    assert (A3 := merge_srcs_wf _ _ _ _ _ _ A2 MS).
    destruct (negb (e3 =? 0)); [inversion H; subst; exact A3|].
    destruct (omap _ _); try discriminate. inversion H; subst; exact A3.
  Qed.

  (** AllWF and HInv give WFH for every header *)
  Lemma objs_forall : forall {P} (Q : obj P -> Prop) st items os, Forall Q st -> objs st items = Some os -> Forall Q os.
  Proof.
    intros P Q st. induction items as [|r l IH]; intros os F H; simpl in H.
    - inversion H; constructor.
    - destruct (nth_error st r) as [o|] eqn:Hr; [|discriminate]. destruct (objs st l) as [os'|] eqn:Ho; [|discriminate].
      inversion H; subst. constructor; [eapply Forall_nth; eauto|eapply IH; eauto].
  Qed.
  Lemma objs_exists : forall {P} (st : list (obj P)) items, (forall x, In x items -> (x < length st)%nat) -> exists os, objs st items = Some os.
  Proof.
    intros P st. induction items as [|r l IH]; intro V; simpl; eauto.
    destruct (nth_error_lt st r (V r (or_introl eq_refl))) as (o & ->). destruct IH as (os & ->); eauto. intros y Hy; apply V; right; auto.
  Qed.

  Lemma AllWF_WFH : forall w h hd, WInv w -> AllWF w -> nth_error (w_h w) h = Some hd -> WFH pt pu w hd.
  Proof.
    intros w h hd I (A1 & A2 & A3 & A4) Hh. split; [eapply Forall_nth; eauto|].
    destruct (objs_exists (w_r w) (t_items (h_R hd)) (items_valid_R w h hd I Hh)) as (rs & Hr).
    destruct (objs_exists (w_g w) (t_items (h_G hd)) (items_valid_G w h hd I Hh)) as (gs & Hg).
    destruct (objs_exists (w_p w) (t_items (h_P hd)) (items_valid_P w h hd I Hh)) as (ps & Hp).
    exists rs, gs, ps. repeat split; auto; eapply objs_forall; eauto.
  Qed.
End AllWF3.

Section CleanHist.
  Variable pt : str -> option str.
  Variable pu : str -> option str.
  Hypothesis pt_law : forall v d, pt v = Some d -> pt d = Some d /\ clean d.
  Hypothesis pu_law : forall v u, pu v = Some u -> pu u = Some u /\ clean u.
  Notation AllWF := (AllWF pt pu).

  (** the arguments of an operation are values the text format can carry *)
  Definition clean_op (op : c07op) : Prop :=
    match op with
    | ONewRef name len md5 as_ sp uri =>
      clean name /\ (md5 = [] \/ (length md5 = 16%nat /\ bytes md5)) /\ clean as_ /\ clean sp /\
      (is_empty uri = false -> pu uri = Some uri /\ clean uri)
    | ONewRG name cn ds lb pg pl pu' sm fo ks dt pi =>
      clean name /\ clean cn /\ clean ds /\ clean lb /\ clean pg /\ clean pl /\ clean pu' /\ clean sm /\ clean fo /\ clean ks /\
      (is_empty dt = false -> pt dt = Some dt /\ clean dt)
    | ONewPG uid pn cl pp vn => clean uid /\ clean pn /\ clean cl /\ clean pp /\ clean vn
    | ONewHdr text rs => forall t, text = Some t -> text_ok t
    | OSetHD h vn so go => clean vn /\ is_empty vn = false /\ 0 <= so <= 3 /\ 0 <= go <= 3
    | OAddCo h t => lclean t
    | OSetName _ n | OSetRGName _ n | OSetUID _ n => clean n
    | OUnmarshal h t => text_ok t
    | ODecode _ => False   (* binary decoding as a step of a history is not covered, see design/C07.md *)
    | _ => True
    end.

  Lemma c07_step_wf : forall w e op w' e' c l, AllWF w -> clean_op op ->
    c07_step pt pu w e op = Ok (w', e', c, l) -> AllWF w'.
  Proof.
    intros w e op w' e' c l A CO H. destruct op; cbn [c07_step clean_op] in *.
    - destruct CO as (C1 & C2 & C3 & C4 & C5). destruct (valid_len len && negb (is_empty name) && _) eqn:G; [|inversion H; subst; exact A].
      inversion H; subst. unfold new_ref. apply alloc_ref_wf; auto.
      apply andb_true_iff in G. destruct G as (G & _). apply andb_true_iff in G. destruct G as (G & _).
      unfold WFref; cbn. refine (conj C1 (conj G (conj C2 (conj C3 (conj C4 (conj _ _)))))).
      + intros u Hu. destruct (is_empty uri) eqn:E; [discriminate|]. inversion Hu; subst. apply C5. reflexivity.
      + split; [intros tp []|exact Logic.I].
    - destruct CO as (C0 & C1 & C2 & C3 & C4 & C5 & C6 & C7 & C8 & C9 & C10). destruct (valid_int32 pi) eqn:G; [|inversion H; subst; exact A].
      inversion H; subst. unfold new_rg. apply alloc_rg_wf; auto.
      unfold WFrg; cbn. refine (conj C0 (conj C1 (conj C2 (conj _ (conj C8 (conj C9 (conj C3 (conj C4 (conj G (conj C5 (conj C6 (conj C7 _)))))))))))).
      + intros d Hd. destruct (is_empty dt) eqn:E; [discriminate|]. inversion Hd; subst. apply C10. reflexivity.
      + split; [intros tp []|exact Logic.I].
    - destruct CO as (C0 & C1 & C2 & C3 & C4). inversion H; subst. unfold new_pg. apply alloc_pg_wf; auto.
      unfold WFpg; cbn. refine (conj C0 (conj C1 (conj C2 (conj C3 (conj C4 _))))). split; [intros tp []|exact Logic.I].
    - destruct (norm r (e_r e)) as [x|]; [|inversion H; subst; exact A]. unfold clone_ref in H.
      destruct (nth_error (w_r w) x) as [o|] eqn:Hx; [|discriminate]. inversion H; subst. unfold new_ref. apply alloc_ref_wf; auto.
      eapply (WFref_nv pu); [| |eapply Forall_nth; [apply A|exact Hx]]; reflexivity.
    - destruct (norm r (e_g e)) as [x|]; [|inversion H; subst; exact A]. unfold clone_rg in H.
      destruct (nth_error (w_g w) x) as [o|] eqn:Hx; [|discriminate]. inversion H; subst. unfold new_rg. apply alloc_rg_wf; auto.
      eapply (WFrg_nv pt); [| |eapply Forall_nth; [apply A|exact Hx]]; reflexivity.
    - destruct (norm r (e_p e)) as [x|]; [|inversion H; subst; exact A]. unfold clone_pg in H.
      destruct (nth_error (w_p w) x) as [o|] eqn:Hx; [|discriminate]. inversion H; subst. unfold new_pg. apply alloc_pg_wf; auto.
      eapply WFpg_nv; [| |eapply Forall_nth; [apply A|exact Hx]]; reflexivity.
    - match type of H with context [match ?X with Some _ => _ | None => skip w e end] => destruct X as [rs'|] end; [|inversion H; subst; exact A].
      destruct (new_header pt pu w text rs') as [[w1 c1]| | |] eqn:NH; try discriminate.
      assert (A1 := new_header_wf pt pu pt_law pu_law w text rs' w1 c1 A CO NH).
      destruct (c1 =? 0); inversion H; subst; exact A1.
    - destruct (norm h (e_h e)) as [x|]; [|inversion H; subst; exact A]. destruct (nth_error (w_h w) x) as [hd|] eqn:Hh; [|discriminate].
      inversion H; subst. apply AllWF_hdr; auto. assert (Whd : WFhd hd) by (eapply Forall_nth; [apply A|eauto]).
      destruct Whd as (W0 & W1 & W2 & W3 & W4 & W5). destruct CO as (C1 & C2 & C3 & C4). unfold WFhd; cbn [set_hd h_vn h_so h_go h_other h_co].
      split; [intro V; rewrite V in C2; discriminate|]. exact (conj C1 (conj C3 (conj C4 (conj W4 W5)))).
    - destruct (norm h (e_h e)) as [x|]; [|inversion H; subst; exact A]. destruct (nth_error (w_h w) x) as [hd|] eqn:Hh; [|discriminate].
      inversion H; subst. apply AllWF_hdr; auto. assert (Whd : WFhd hd) by (eapply Forall_nth; [apply A|eauto]).
      destruct Whd as (W0 & W1 & W2 & W3 & W4 & W5). unfold WFhd; cbn [set_co h_vn h_so h_go h_other h_co].
      refine (conj W0 (conj W1 (conj W2 (conj W3 (conj W4 _))))). intros c0 Hin. apply in_app_or in Hin. destruct Hin as [Hin|[<-|[]]]; auto.
    - destruct (norm h (e_h e)) as [x|]; [|inversion H; subst; exact A]. destruct (norm r (e_r e)) as [y|]; [|inversion H; subst; exact A].
      unfold done in H. destruct (add_reference w x y) as [[w1 c1]| | |] eqn:R; try discriminate. inversion H; subst. eapply (add_reference_wf pt pu); eauto.
    - destruct (norm h (e_h e)) as [x|]; [|inversion H; subst; exact A]. destruct (norm r (e_r e)) as [y|]; [|inversion H; subst; exact A].
      unfold done in H. destruct (remove_reference w x y) as [[w1 c1]| | |] eqn:R; try discriminate. inversion H; subst. eapply (remove_reference_wf pt pu); eauto.
    - destruct (norm h (e_h e)) as [x|]; [|inversion H; subst; exact A]. destruct (norm r (e_g e)) as [y|]; [|inversion H; subst; exact A].
      unfold done in H. destruct (add_read_group w x y) as [[w1 c1]| | |] eqn:R; try discriminate. inversion H; subst. eapply (add_read_group_wf pt pu); eauto.
    - destruct (norm h (e_h e)) as [x|]; [|inversion H; subst; exact A]. destruct (norm r (e_g e)) as [y|]; [|inversion H; subst; exact A].
      unfold done in H. destruct (remove_read_group w x y) as [[w1 c1]| | |] eqn:R; try discriminate. inversion H; subst. eapply (remove_read_group_wf pt pu); eauto.
    - destruct (norm h (e_h e)) as [x|]; [|inversion H; subst; exact A]. destruct (norm r (e_p e)) as [y|]; [|inversion H; subst; exact A].
      unfold done in H. destruct (add_program w x y) as [[w1 c1]| | |] eqn:R; try discriminate. inversion H; subst. eapply (add_program_wf pt pu); eauto.
    - destruct (norm h (e_h e)) as [x|]; [|inversion H; subst; exact A]. destruct (norm r (e_p e)) as [y|]; [|inversion H; subst; exact A].
      unfold done in H. destruct (remove_program w x y) as [[w1 c1]| | |] eqn:R; try discriminate. inversion H; subst. eapply (remove_program_wf pt pu); eauto.
    - destruct (norm r (e_r e)) as [y|]; [|inversion H; subst; exact A].
      unfold done in H. destruct (set_ref_name w y n) as [[w1 c1]| | |] eqn:R; try discriminate. inversion H; subst. eapply (set_ref_name_wf pt pu); eauto.
    - destruct (norm r (e_g e)) as [y|]; [|inversion H; subst; exact A].
      unfold done in H. destruct (set_rg_name w y n) as [[w1 c1]| | |] eqn:R; try discriminate. inversion H; subst. eapply (set_rg_name_wf pt pu); eauto.
    - destruct (norm r (e_p e)) as [y|]; [|inversion H; subst; exact A].
      unfold done in H. destruct (set_pg_uid w y n) as [[w1 c1]| | |] eqn:R; try discriminate. inversion H; subst. eapply (set_pg_uid_wf pt pu); eauto.
    - destruct (norm h (e_h e)) as [x|]; [|inversion H; subst; exact A].
      destruct (clone_header w x) as [w1| | |] eqn:R; try discriminate. inversion H; subst. eapply (clone_header_wf pt pu); eauto.
    - contradiction.
    - destruct (norm h (e_h e)) as [x|]; [|inversion H; subst; exact A].
      destruct (unmarshal_text pt pu w x t) as [[w1 c1]| | |] eqn:R; try discriminate. inversion H; subst.
      eapply (unmarshal_text_wf pt pu pt_law pu_law); eauto.
    - destruct (norm_all hs (e_h e)) as [[|x [|y rest]]|]; try (inversion H; subst; exact A).
      destruct (merge_headers w x (y :: rest)) as [[[w1 c1] links]| | |] eqn:R; try discriminate.
      assert (A1 := merge_headers_wf pt pu w x (y :: rest) w1 c1 links A R).
      destruct (c1 =? 0); inversion H; subst; exact A1.
  Qed.

  Lemma AllWF_world0 : AllWF world0.
  Proof. repeat split; constructor. Qed.

  (** every history whose operations all have clean arguments *)
  Lemma c07_exec_wf : forall ops w e w' e', AllWF w -> Forall clean_op ops -> c07_exec pt pu w e ops = Ok (w', e') -> AllWF w'.
  Proof.
    induction ops as [|op t IH]; intros w e w' e' A F H; simpl in H.
    - inversion H; subst; exact A.
    - inversion F; subst. destruct (c07_step pt pu w e op) as [[[[w1 e1] c1] l1]| | |] eqn:S; try discriminate.
      eapply IH; [|eauto|exact H]. eapply c07_step_wf; eauto.
  Qed.

  Theorem wfh_preserved_lemma : forall ops, Forall clean_op ops ->
    exists w e, c07_exec pt pu world0 env0 ops = Ok (w, e) /\ WInv w /\
      forall h hd, nth_error (w_h w) h = Some hd -> WFH pt pu w hd.
  Proof.
    intros ops F. destruct (header_inv_every_history pt pu ops) as (w & e & R & I).
    exists w, e. split; [exact R|]. split; [exact I|]. intros h hd Hh.
    eapply AllWF_WFH; eauto. eapply c07_exec_wf; [apply AllWF_world0|exact F|exact R].
  Qed.

  Theorem text_roundtrip_api : forall ops, Forall clean_op ops ->
    exists w e, c07_exec pt pu world0 env0 ops = Ok (w, e) /\
      forall h hd text, nth_error (w_h w) h = Some hd -> marshal_text w hd = Ok text ->
        exists w' hd', new_header pt pu w (Some text) [] = Ok (w', 0) /\ WInv w' /\
          nth_error (w_h w') (length (w_h w)) = Some hd' /\ view w' hd' = view w hd /\
          marshal_text w' hd' = Ok text /\ encode_binary w' hd' = encode_binary w hd.
  Proof.
    intros ops F. destruct (wfh_preserved_lemma ops F) as (w & e & R & I & W). exists w, e. split; [exact R|].
    intros h hd text Hh MT. eapply text_roundtrip; eauto.
  Qed.

  Theorem binary_roundtrip_api : forall ops, Forall clean_op ops ->
    exists w e, c07_exec pt pu world0 env0 ops = Ok (w, e) /\
      forall h hd text rs b, nth_error (w_h w) h = Some hd -> marshal_text w hd = Ok text ->
        objs (w_r w) (t_items (h_R hd)) = Some rs -> fits_int32 text rs -> encode_binary w hd = Ok b ->
        exists w' hd', decode_binary pt pu w b = Ok (w', 0) /\ WInv w' /\
          nth_error (w_h w') (length (w_h w)) = Some hd' /\ view w' hd' = view w hd /\
          marshal_text w' hd' = Ok text /\ encode_binary w' hd' = Ok b.
  Proof.
    intros ops F. destruct (wfh_preserved_lemma ops F) as (w & e & R & I & W). exists w, e. split; [exact R|].
    intros h hd text rs b Hh MT Hr FI EB. eapply binary_roundtrip; eauto.
  Qed.
End CleanHist.
