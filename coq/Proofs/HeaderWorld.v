(** C07 — the invariant HInv on whole worlds and its preservation by the API
    operations of the model. *)
From Coq Require Import ZArith List Bool Lia.
From Hts Require Import Base.Prim Model.Header Proofs.HeaderBase Proofs.HeaderInv Proofs.HeaderInv2.
Import ListNotations.
Open Scope Z_scope.
Arguments mset : simpl never.
Arguments mget : simpl never.

(** HInv for every header of the world, for the three kinds of items *)
Definition WInv (w : world) : Prop :=
  KInv (map h_R (w_h w)) (w_r w) /\ KInv (map h_G (w_h w)) (w_g w) /\ KInv (map h_P (w_h w)) (w_p w).

Definition Ext (w w' : world) : Prop :=
  (length (w_h w) <= length (w_h w'))%nat /\ (length (w_r w) <= length (w_r w'))%nat /\
  (length (w_g w) <= length (w_g w'))%nat /\ (length (w_p w) <= length (w_p w'))%nat.

Lemma Ext_refl : forall w, Ext w w.
Proof. intro; unfold Ext; lia. Qed.
Lemma Ext_trans : forall a b c, Ext a b -> Ext b c -> Ext a c.
Proof. unfold Ext; intros; lia. Qed.

(** an operation returned (with or without an error value), the invariant holds, nothing disappeared *)
Definition Good (w : world) (x : res) : Prop := exists w' e, x = Ok (w', e) /\ WInv w' /\ Ext w w'.
Definition GoodW (w : world) (x : outcome world) : Prop := exists w', x = Ok w' /\ WInv w' /\ Ext w w'.

Lemma nth_error_lt : forall {A} (l : list A) i, (i < length l)%nat -> exists x, nth_error l i = Some x.
Proof. intros. destruct (nth_error l i) eqn:E; eauto. apply nth_error_None in E. lia. Qed.

Lemma map_upd_same : forall {A B} (f : A -> B) (l : list A) i x y,
  nth_error l i = Some x -> f y = f x -> map f (upd l i y) = map f l.
Proof. intros. rewrite map_upd. apply upd_same. rewrite nth_error_map, H. simpl. congruence. Qed.

Lemma WInv_R : forall w h hd st' t', WInv w -> nth_error (w_h w) h = Some hd ->
  KInv (upd (map h_R (w_h w)) h t') st' -> WInv (put_hdr (set_r w st') h (set_R hd t')).
Proof.
  intros w h hd st' t' (KR & KG & KP) Hh K. unfold WInv, put_hdr, set_h, set_r; simpl.
  rewrite map_upd. simpl. split; [exact K|].
  rewrite !(map_upd_same _ _ _ hd) by auto. auto.
Qed.
Lemma WInv_G : forall w h hd st' t', WInv w -> nth_error (w_h w) h = Some hd ->
  KInv (upd (map h_G (w_h w)) h t') st' -> WInv (put_hdr (set_g w st') h (set_G hd t')).
Proof.
  intros w h hd st' t' (KR & KG & KP) Hh K. unfold WInv, put_hdr, set_h, set_g; simpl.
  rewrite (map_upd h_G). simpl. split; [|split; [exact K|]].
  all: rewrite (map_upd_same _ _ _ hd) by auto; auto.
Qed.
Lemma WInv_P : forall w h hd st' t', WInv w -> nth_error (w_h w) h = Some hd ->
  KInv (upd (map h_P (w_h w)) h t') st' -> WInv (put_hdr (set_p w st') h (set_P hd t')).
Proof.
  intros w h hd st' t' (KR & KG & KP) Hh K. unfold WInv, put_hdr, set_h, set_p; simpl.
  rewrite (map_upd h_P). simpl. split; [|split; [|exact K]].
  all: rewrite (map_upd_same _ _ _ hd) by auto; auto.
Qed.

(** a header field edit that keeps the three tables *)
Lemma WInv_put_same : forall w h hd hd', WInv w -> nth_error (w_h w) h = Some hd ->
  h_R hd' = h_R hd -> h_G hd' = h_G hd -> h_P hd' = h_P hd -> WInv (put_hdr w h hd').
Proof.
  intros w h hd hd' (KR & KG & KP) Hh ER EG EP. unfold WInv, put_hdr, set_h; simpl.
  rewrite !(map_upd_same _ _ _ hd) by auto. auto.
Qed.

Lemma Ext_put : forall w h hd, Ext w (put_hdr w h hd).
Proof. intros. unfold Ext, put_hdr, set_h; simpl. rewrite upd_length. lia. Qed.

Ltac ext_tac := unfold Ext, put_hdr, set_h, set_r, set_g, set_p; simpl; rewrite ?upd_length, ?app_length; simpl; lia.

(** *** Add / Remove for read groups and programs, Remove for references *)
Lemma add_gen_K : forall {P} edup eused tbls (st : list (obj P)) h t r,
  KInv tbls st -> nth_error tbls h = Some t -> (r < length st)%nat ->
  exists st' t' e, add_gen edup eused h st t r = Ok (st', t', e) /\ KInv (upd tbls h t') st' /\ length st' = length st.
Proof.
  intros P edup eused tbls st h t r K Ht Lr. unfold add_gen.
  destruct (nth_error_lt st r Lr) as (o & Ho). rewrite Ho.
  destruct (mget (o_name o) (t_seen t)) eqn:M.
  - exists st, t, edup. split; [reflexivity|]. split; [|reflexivity]. rewrite upd_same by assumption. exact K.
  - destruct (add_fresh eused h st t r o) as [[st' t'] e] eqn:A. exists st', t', e. split; auto. split.
    + eapply KInv_add_fresh; eauto.
    + unfold add_fresh in A. destruct (owned o || (0 <=? o_id o)); inversion A; subst; auto. apply upd_length.
Qed.

Lemma remove_gen_len : forall {P} einv (st : list (obj P)) t r st' t' e,
  remove_gen einv st t r = Ok (st', t', e) -> length st' = length st.
Proof.
  intros P einv st t r st' t' e. unfold remove_gen.
  destruct (nth_error st r) as [o|]; [|discriminate].
  destruct (negb (listed_at (t_items t) (o_id o) r)). { intro H; inversion H; subst; auto. }
  match goal with |- context [shift_ids ?a ?b ?c] => destruct (shift_ids a b c) as [[st2 seen2]| | |] eqn:S end; try discriminate.
  destruct (nth_error st2 r); [|discriminate]. intro H; inversion H; subst. rewrite upd_length.
  clear - S. revert S. generalize (mdel (o_name o) (t_seen t)).
  match goal with |- context [shift_ids st _ ?l] => generalize l end.
  intros l. revert st. induction l as [|x l IH]; intros st sn; simpl.
  - intro H; inversion H; subst; auto.
  - destruct (nth_error st x); [|discriminate]. intro H. apply IH in H. rewrite upd_length in H. exact H.
Qed.

Lemma add_read_group_good : forall w h r, WInv w -> (h < length (w_h w))%nat -> (r < length (w_g w))%nat ->
  Good w (add_read_group w h r).
Proof.
  intros w h r I Lh Lr. unfold add_read_group. destruct (nth_error_lt _ _ Lh) as (hd & Hh). rewrite Hh.
  destruct (add_gen_K eDupRG eUsedRG (map h_G (w_h w)) (w_g w) h (h_G hd) r) as (st' & t' & e & A & K & L); auto.
  { apply I. } { rewrite nth_error_map, Hh. reflexivity. }
  rewrite A. simpl. eexists _, _. split; [reflexivity|]. split; [apply WInv_G; auto|ext_tac].
Qed.
Lemma add_program_good : forall w h r, WInv w -> (h < length (w_h w))%nat -> (r < length (w_p w))%nat ->
  Good w (add_program w h r).
Proof.
  intros w h r I Lh Lr. unfold add_program. destruct (nth_error_lt _ _ Lh) as (hd & Hh). rewrite Hh.
  destruct (add_gen_K eDupPG eUsedPG (map h_P (w_h w)) (w_p w) h (h_P hd) r) as (st' & t' & e & A & K & L); auto.
  { apply I. } { rewrite nth_error_map, Hh. reflexivity. }
  rewrite A. simpl. eexists _, _. split; [reflexivity|]. split; [apply WInv_P; auto|ext_tac].
Qed.

Lemma remove_reference_good : forall w h r, WInv w -> (h < length (w_h w))%nat -> (r < length (w_r w))%nat ->
  Good w (remove_reference w h r).
Proof.
  intros w h r I Lh Lr. unfold remove_reference. destruct (nth_error_lt _ _ Lh) as (hd & Hh). rewrite Hh.
  destruct (KInv_remove eInvRef (map h_R (w_h w)) (w_r w) h (h_R hd) r) as (st' & t' & e & A & K); auto.
  { apply I. } { rewrite nth_error_map, Hh. reflexivity. }
  rewrite A. simpl. apply remove_gen_len in A. eexists _, _. split; [reflexivity|]. split; [apply WInv_R; auto|ext_tac].
Qed.
Lemma remove_read_group_good : forall w h r, WInv w -> (h < length (w_h w))%nat -> (r < length (w_g w))%nat ->
  Good w (remove_read_group w h r).
Proof.
  intros w h r I Lh Lr. unfold remove_read_group. destruct (nth_error_lt _ _ Lh) as (hd & Hh). rewrite Hh.
  destruct (KInv_remove eInvRG (map h_G (w_h w)) (w_g w) h (h_G hd) r) as (st' & t' & e & A & K); auto.
  { apply I. } { rewrite nth_error_map, Hh. reflexivity. }
  rewrite A. simpl. apply remove_gen_len in A. eexists _, _. split; [reflexivity|]. split; [apply WInv_G; auto|ext_tac].
Qed.
Lemma remove_program_good : forall w h r, WInv w -> (h < length (w_h w))%nat -> (r < length (w_p w))%nat ->
  Good w (remove_program w h r).
Proof.
  intros w h r I Lh Lr. unfold remove_program. destruct (nth_error_lt _ _ Lh) as (hd & Hh). rewrite Hh.
  destruct (KInv_remove eInvPG (map h_P (w_h w)) (w_p w) h (h_P hd) r) as (st' & t' & e & A & K); auto.
  { apply I. } { rewrite nth_error_map, Hh. reflexivity. }
  rewrite A. simpl. apply remove_gen_len in A. eexists _, _. split; [reflexivity|]. split; [apply WInv_P; auto|ext_tac].
Qed.

(** *** SetName / SetUID *)
Lemma setname_K : forall {P} tbls (st : list (obj P)) r o n,
  KInv tbls st -> nth_error st r = Some o ->
  match o_owner o with
  | None => KInv tbls (upd st r (with_name o n))
  | Some h => exists t, nth_error tbls h = Some t /\
              match setname_owned t o n with
              | (None, _) => True
              | (Some t', _) => KInv (upd tbls h t') (upd st r (with_name o n))
              end
  end.
Proof.
  intros P tbls st r o n K Hr. destruct (o_owner o) as [h|] eqn:Hw.
  - destruct (proj2 K _ _ _ Hr Hw) as (t & Ht & Hl & Hp). exists t. split; auto.
    unfold setname_owned. destruct (mget n (t_seen t)) eqn:M.
    + destruct (z =? o_id o); exact Logic.I.
    + eapply KInv_setname; eauto.
  - eapply KInv_unowned_upd; eauto.
Qed.

Lemma set_ref_name_good : forall w r n, WInv w -> (r < length (w_r w))%nat -> Good w (set_ref_name w r n).
Proof.
  intros w r n I Lr. unfold set_ref_name, setname_any. destruct (nth_error_lt _ _ Lr) as (o & Ho). rewrite Ho.
  assert (S := setname_K (map h_R (w_h w)) (w_r w) r o n (proj1 I) Ho).
  destruct (o_owner o) as [h|].
  - destruct S as (t & Ht & S). rewrite nth_error_map in Ht. destruct (nth_error (w_h w) h) as [hd|] eqn:Hh; [|discriminate].
    simpl in Ht. inversion Ht; subst t. destruct (setname_owned (h_R hd) o n) as [[t'|] e].
    + eexists _, _. split; [reflexivity|]. split; [apply WInv_R; auto|ext_tac].
    + eexists _, _. split; [reflexivity|]. split; [assumption|apply Ext_refl].
  - eexists _, _. split; [reflexivity|]. split; [|ext_tac].
    destruct I as (KR & KG & KP). unfold WInv; simpl. auto.
Qed.
Lemma set_rg_name_good : forall w r n, WInv w -> (r < length (w_g w))%nat -> Good w (set_rg_name w r n).
Proof.
  intros w r n I Lr. unfold set_rg_name, setname_any. destruct (nth_error_lt _ _ Lr) as (o & Ho). rewrite Ho.
  assert (S := setname_K (map h_G (w_h w)) (w_g w) r o n (proj1 (proj2 I)) Ho).
  destruct (o_owner o) as [h|].
  - destruct S as (t & Ht & S). rewrite nth_error_map in Ht. destruct (nth_error (w_h w) h) as [hd|] eqn:Hh; [|discriminate].
    simpl in Ht. inversion Ht; subst t. destruct (setname_owned (h_G hd) o n) as [[t'|] e].
    + eexists _, _. split; [reflexivity|]. split; [apply WInv_G; auto|ext_tac].
    + eexists _, _. split; [reflexivity|]. split; [assumption|apply Ext_refl].
  - eexists _, _. split; [reflexivity|]. split; [|ext_tac].
    destruct I as (KR & KG & KP). unfold WInv; simpl. auto.
Qed.
Lemma set_pg_uid_good : forall w r n, WInv w -> (r < length (w_p w))%nat -> Good w (set_pg_uid w r n).
Proof.
  intros w r n I Lr. unfold set_pg_uid, setname_any. destruct (nth_error_lt _ _ Lr) as (o & Ho). rewrite Ho.
  assert (S := setname_K (map h_P (w_h w)) (w_p w) r o n (proj2 (proj2 I)) Ho).
  destruct (o_owner o) as [h|].
  - destruct S as (t & Ht & S). rewrite nth_error_map in Ht. destruct (nth_error (w_h w) h) as [hd|] eqn:Hh; [|discriminate].
    simpl in Ht. inversion Ht; subst t. destruct (setname_owned (h_P hd) o n) as [[t'|] e].
    + eexists _, _. split; [reflexivity|]. split; [apply WInv_P; auto|ext_tac].
    + eexists _, _. split; [reflexivity|]. split; [assumption|apply Ext_refl].
  - eexists _, _. split; [reflexivity|]. split; [|ext_tac].
    destruct I as (KR & KG & KP). unfold WInv; simpl. auto.
Qed.

(** *** AddReference *)
Lemma equal_refs_name : forall a b, equal_refs a b = true -> o_name a = o_name b /\ rp_len (o_pay a) = rp_len (o_pay b).
Proof.
  intros a b. unfold equal_refs.
  destruct (str_eqb (o_name a) (o_name b)) eqn:E1; [|rewrite !orb_true_r; simpl; rewrite ?orb_true_r; discriminate].
  destruct (rp_len (o_pay a) =? rp_len (o_pay b)) eqn:E2; [|simpl; rewrite !orb_true_r; simpl; discriminate].
  intros _. split; [apply str_eqb_eq; assumption|apply Z.eqb_eq; assumption].
Qed.

Lemma add_reference_good : forall w h r, WInv w -> (h < length (w_h w))%nat -> (r < length (w_r w))%nat ->
  Good w (add_reference w h r).
Proof.
  intros w h r I Lh Lr. unfold add_reference.
  destruct (nth_error_lt _ _ Lh) as (hd & Hh). destruct (nth_error_lt _ _ Lr) as (o & Ho). rewrite Hh, Ho.
  assert (KR := proj1 I). assert (Ht : nth_error (map h_R (w_h w)) h = Some (h_R hd)) by (rewrite nth_error_map, Hh; reflexivity).
  assert (TI := proj1 KR _ _ Ht).
  destruct (mget (o_name o) (t_seen (h_R hd))) as [dupID|] eqn:M.
  - apply (ti_seen _ _ _ TI) in M. destruct M as (d & erh & er & Hd & Her & Hn & Hv). subst dupID.
    rewrite idx_of_nat, Hd, Her.
    destruct (equal_refs er o). { eexists _, _. split; [reflexivity|]. split; [assumption|apply Ext_refl]. }
    destruct (equal_refs o (bare_ref (-1) (o_name er) (rp_len (o_pay er)))) eqn:EB; simpl.
    2:{ eexists _, _. split; [reflexivity|]. split; [assumption|apply Ext_refl]. }
    destruct (owned o) eqn:OW. { eexists _, _. split; [reflexivity|]. split; [assumption|apply Ext_refl]. }
    unfold install_over. rewrite Nat2Z.id.
    eexists _, _. split; [reflexivity|]. split; [|ext_tac].
    apply WInv_R; auto.
    assert (HnO : o_owner o = None) by (unfold owned in OW; destruct (o_owner o); congruence).
    assert (Hnm : o_name (inherit o er) = o_name er) by (apply equal_refs_name in EB; simpl in EB; unfold inherit; simpl; apply EB).
    exact (KInv_install_over (map h_R (w_h w)) (w_r w) h (h_R hd) d r o erh er _ _ KR Ht Ho HnO Hd Her (inherit o er) Hnm eq_refl).
  - destruct (add_fresh eUsedRef h (w_r w) (h_R hd) r o) as [[st' t'] e] eqn:A.
    eexists _, _. split; [reflexivity|]. split.
    + apply WInv_R; auto. eapply KInv_add_fresh; eauto.
    + unfold add_fresh in A. destruct (owned o || (0 <=? o_id o)); inversion A; subst; ext_tac.
Qed.

(** *** allocation *)
Lemma new_ref_good : forall w n p, WInv w -> WInv (new_ref w n p) /\ Ext w (new_ref w n p).
Proof.
  intros w n p (KR & KG & KP). split; [|ext_tac]. unfold WInv, new_ref; simpl. split; auto. apply KInv_alloc; auto.
Qed.
Lemma new_rg_good : forall w n p, WInv w -> WInv (new_rg w n p) /\ Ext w (new_rg w n p).
Proof.
  intros w n p (KR & KG & KP). split; [|ext_tac]. unfold WInv, new_rg; simpl. split; auto. split; auto. apply KInv_alloc; auto.
Qed.
Lemma new_pg_good : forall w n p, WInv w -> WInv (new_pg w n p) /\ Ext w (new_pg w n p).
Proof.
  intros w n p (KR & KG & KP). split; [|ext_tac]. unfold WInv, new_pg; simpl. split; auto. split; auto. apply KInv_alloc; auto.
Qed.
Lemma alloc_ref_good : forall w o, WInv w -> o_owner o = None -> WInv (set_r w (w_r w ++ [o])) /\ Ext w (set_r w (w_r w ++ [o])).
Proof.
  intros w o (KR & KG & KP) Hn. split; [|ext_tac]. unfold WInv; simpl. split; auto. apply KInv_alloc; auto.
Qed.

(** *** Header.Clone *)
Lemma clone_header_good : forall w h, WInv w -> (h < length (w_h w))%nat ->
  exists w', clone_header w h = Ok w' /\ WInv w' /\ Ext w w' /\ length (w_h w') = S (length (w_h w)).
Proof.
  intros w h (KR & KG & KP) Lh. unfold clone_header. destruct (nth_error_lt _ _ Lh) as (hd & Hh). rewrite Hh.
  destruct (KInv_clone (map h_R (w_h w)) (w_r w) h (h_R hd) KR) as (sr & ir & CR & KR' & LR). { rewrite nth_error_map, Hh; reflexivity. }
  destruct (KInv_clone (map h_G (w_h w)) (w_g w) h (h_G hd) KG) as (sg & ig & CG & KG' & LG). { rewrite nth_error_map, Hh; reflexivity. }
  destruct (KInv_clone (map h_P (w_h w)) (w_p w) h (h_P hd) KP) as (sp & ip & CP & KP' & LP). { rewrite nth_error_map, Hh; reflexivity. }
  rewrite map_length in *. rewrite CR, CG, CP. eexists. split; [reflexivity|]. split; [|split].
  - unfold WInv; simpl. rewrite !map_app. simpl. auto.
  - unfold Ext; simpl. rewrite app_length; simpl. lia.
  - simpl. rewrite app_length. simpl. lia.
Qed.
