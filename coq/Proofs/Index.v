(** C04 for the BAI/tabix core: Add never fails on a well-formed list and
    Chunks is complete.  The invariant carried through the fold is LinInv +
    BinInv of DESIGN.md (in the one-sided form completeness needs). *)
From Coq Require Import ZArith Lia List Bool Permutation Sorted.
From Hts Require Import Base.Prim Base.Bits Generated Model.Index Model.IndexSpec Proofs.IndexSort.
Open Scope Z_scope.
Ltac Zify.zify_post_hook ::= Z.div_mod_to_equations.

Definition etile (r : irec) : Z := (q_end r - 1) / 16384.

(** ** the pieces of Add *)

Lemma ix_upd_chunks_append cs c :
  (forall ch, In ch cs -> snd ch <= fst c) -> ix_upd_chunks cs c = cs ++ [c].
Proof.
  induction cs as [|h t IH]; simpl; intros H; [reflexivity|].
  destruct (snd h >? fst c) eqn:E.
  - apply Z.gtb_lt in E. specialize (H h (or_introl eq_refl)). lia.
  - rewrite IH; [reflexivity|]. intros ch Hc. apply H. right; exact Hc.
Qed.

Lemma ix_upd_bins_none bs b c : ix_upd_bins bs b c = None -> ~ In b (map bnum bs).
Proof.
  induction bs as [|x t IH]; simpl; intros H; [tauto|].
  destruct (bnum x =? b) eqn:E; [discriminate|]. apply Z.eqb_neq in E.
  destruct (ix_upd_bins t b c) eqn:E2; [discriminate|]. intros [Hx|Hx]; [lia|]. exact (IH eq_refl Hx).
Qed.

Definition filed (bs : list ibin) (b : Z) (c : chunk) : list ibin :=
  match ix_upd_bins bs b c with Some bs' => bs' | None => bs ++ [mkBin b [c]] end.

Lemma filed_spec bs b c lend :
  (forall x ch, In x bs -> In ch (bchunks x) -> snd ch <= lend) -> lend <= fst c ->
  NoDup (map bnum bs) ->
  NoDup (map bnum (filed bs b c)) /\
  (exists x, In x (filed bs b c) /\ bnum x = b /\ In c (bchunks x)) /\
  (forall x ch, In x bs -> In ch (bchunks x) ->
     exists x', In x' (filed bs b c) /\ bnum x' = bnum x /\ In ch (bchunks x')) /\
  (forall x' ch, In x' (filed bs b c) -> In ch (bchunks x') ->
     ch = c \/ exists x, In x bs /\ In ch (bchunks x)).
Proof.
  unfold filed. induction bs as [|x t IH]; intros Hb Hl Hnd.
  - simpl. repeat split.
    + constructor; [tauto|constructor].
    + exists (mkBin b [c]). simpl. auto.
    + intros ? ? [].
    + intros x' ch [<-|[]] Hc. simpl in Hc. destruct Hc as [<-|[]]. left; reflexivity.
  - simpl. destruct (bnum x =? b) eqn:E.
    + apply Z.eqb_eq in E.
      rewrite ix_upd_chunks_append.
      2:{ intros ch Hc. specialize (Hb x ch (or_introl eq_refl) Hc). lia. }
      repeat split.
      * exact Hnd.
      * eexists. split; [left; reflexivity|]. simpl. split; [exact E|]. apply in_or_app. right. left. reflexivity.
      * intros y ch [<-|Hy] Hc.
        -- eexists. split; [left; reflexivity|]. simpl. split; [reflexivity|]. apply in_or_app. left. exact Hc.
        -- exists y. split; [right; exact Hy|]. split; [reflexivity|exact Hc].
      * intros x' ch [<-|Hx'] Hc.
        -- simpl in Hc. apply in_app_or in Hc. destruct Hc as [Hc|[<-|[]]]; [right|left; reflexivity].
           exists x. split; [left; reflexivity|exact Hc].
        -- right. exists x'. split; [right; exact Hx'|exact Hc].
    + apply Z.eqb_neq in E. simpl in Hnd. inversion Hnd as [|? ? Hni Hnd']; subst.
      assert (Hb' : forall y ch, In y t -> In ch (bchunks y) -> snd ch <= lend)
        by (intros y ch Hy; apply Hb; right; exact Hy).
      destruct (IH Hb' Hl Hnd') as (I1 & (x0 & I2a & I2b & I2c) & I3 & I4).
      destruct (ix_upd_bins t b c) as [t'|] eqn:Et.
      * repeat split.
        -- simpl. constructor; [|exact I1].
           intro Hin. apply in_map_iff in Hin. destruct Hin as (y & Hy1 & Hy2).
           (* the numbers of t' are the numbers of t *)
           assert (Hnum : forall z, In z t' -> In (bnum z) (map bnum t)).
           { clear - Et. revert t' Et. induction t as [|h r IHr]; simpl; intros t' Et z Hz; [discriminate|].
             destruct (bnum h =? b).
             - inversion Et; subst. destruct Hz as [<-|Hz]; simpl; auto. right. apply in_map. exact Hz.
             - destruct (ix_upd_bins r b c) eqn:Er; [|discriminate]. inversion Et; subst.
               destruct Hz as [<-|Hz]; [left; reflexivity|]. right. eapply IHr; [reflexivity|exact Hz]. }
           apply Hni. rewrite <- Hy1. apply Hnum. exact Hy2.
        -- exists x0. split; [right; exact I2a|]. split; assumption.
        -- intros y ch [<-|Hy] Hc.
           ++ exists x. split; [left; reflexivity|]. split; [reflexivity|exact Hc].
           ++ destruct (I3 y ch Hy Hc) as (y' & Hy' & Hn & Hc'). exists y'. split; [right; exact Hy'|]. split; assumption.
        -- intros x' ch [<-|Hx'] Hc.
           ++ right. exists x. split; [left; reflexivity|exact Hc].
           ++ destruct (I4 x' ch Hx' Hc) as [->|(y & Hy & Hyc)]; [left; reflexivity|].
              right. exists y. split; [right; exact Hy|exact Hyc].
      * repeat split.
        -- simpl. constructor; [|exact I1].
           rewrite map_app, in_app_iff. simpl. intros [H|[H|[]]]; [exact (Hni H)|lia].
        -- exists x0. split; [right; exact I2a|]. split; assumption.
        -- intros y ch [<-|Hy] Hc.
           ++ exists x. split; [left; reflexivity|]. split; [reflexivity|exact Hc].
           ++ destruct (I3 y ch Hy Hc) as (y' & Hy' & Hn & Hc'). exists y'. split; [right; exact Hy'|]. split; assumption.
        -- intros x' ch [<-|Hx'] Hc.
           ++ right. exists x. split; [left; reflexivity|exact Hc].
           ++ destruct (I4 x' ch Hx' Hc) as [->|(y & Hy & Hyc)]; [left; reflexivity|].
              right. exists y. split; [right; exact Hy|exact Hyc].
Qed.

Lemma ix_fill_repeat m k v :
  (k <= m)%nat -> ix_fill (repeat 0 m) k v = Ok (repeat 0 k ++ repeat v (m - k)).
Proof.
  revert k. induction m as [|m IH]; intros [|k] Hk; simpl; try lia; try reflexivity.
  - rewrite (IH O) by lia. simpl. rewrite Nat.sub_0_r. reflexivity.
  - rewrite (IH k) by lia. reflexivity.
Qed.

Lemma skipn_repeat_app {A} (x : A) n k l :
  (n <= k)%nat -> skipn n (repeat x k ++ l) = repeat x (k - n) ++ l.
Proof.
  revert k. induction n as [|n IH]; intros k Hk; simpl.
  - rewrite Nat.sub_0_r. reflexivity.
  - destruct k as [|k]; [lia|]. simpl. apply IH. lia.
Qed.

Lemma ix_linear_ok intv start end_ cb :
  0 <= start < end_ ->
  exists tail, ix_linear intv start end_ cb = Ok (intv ++ tail) /\
               (forall x, In x tail -> x = 0 \/ x = cb) /\
               (end_ - 1) / 16384 < zlen (intv ++ tail).
Proof.
  intros Hr. unfold ix_linear. change ix_TW with 16384.
  rewrite !Z.quot_div_nonneg by lia.
  set (biv := start / 16384). set (eiv := (end_ - 1) / 16384).
  assert (Hbe : biv <= eiv) by (apply Z.div_le_mono; lia).
  assert (Hb0 : 0 <= biv) by (apply Z.div_pos; lia).
  destruct (eiv <? biv) eqn:E1; [apply Z.ltb_lt in E1; lia|].
  pose proof (zlen_nonneg intv) as Hn.
  destruct (eiv >=? zlen intv) eqn:E2.
  - assert (E2' : zlen intv <= eiv) by lia.
    set (b' := if zlen intv >? biv then zlen intv else biv).
    assert (Hb' : zlen intv <= b' <= eiv /\ 0 <= b').
    { unfold b'. destruct (zlen intv >? biv) eqn:E3; lia. }
    replace ((0 <=? b') && (b' <=? eiv + 1)) with true
      by (symmetry; apply andb_true_intro; split; [apply Z.leb_le|apply Z.leb_le]; lia).
    unfold chk. rewrite ix_fill_repeat by lia. simpl.
    unfold ix_copy. rewrite firstn_all2.
    2:{ rewrite app_length, !repeat_length. unfold zlen in *. lia. }
    replace (length intv) with (Z.to_nat (zlen intv)) by (unfold zlen; lia).
    rewrite skipn_repeat_app by lia.
    eexists. split; [reflexivity|]. split.
    + intros x Hx. apply in_app_or in Hx. destruct Hx as [Hx|Hx]; apply repeat_spec in Hx; auto.
    + rewrite !zlen_app, !zlen_repeat. lia.
  - exists []. rewrite app_nil_r. split; [reflexivity|]. split; [intros ? []|]. lia.
Qed.

(** ** the invariant *)

Definition rec_in_ref (ref : iref) (R : irec) : Prop :=
  (exists b c, In b (rbins ref) /\ bnum b = q_bin R /\ In c (bchunks b) /\ fst c <= q_cb R /\ q_ce R <= snd c)
  /\ etile R < zlen (rintv ref)
  /\ prefix_le (q_cb R) (Z.to_nat (etile R + 1)) (rintv ref).

Definition ref_bounded (lend : Z) (ref : iref) : Prop :=
  (forall b c, In b (rbins ref) -> In c (bchunks b) -> fst c <= lend /\ snd c <= lend) /\
  (forall x, In x (rintv ref) -> 0 <= x <= lend) /\
  NoDup (map bnum (rbins ref)).

(** The order [Index.sort] leaves a reference in. *)
Definition ref_sorted (ref : iref) : Prop :=
  key_sorted bnum (rbins ref) /\ Forall (fun b => key_sorted fst (bchunks b)) (rbins ref) /\
  key_sorted (fun x => x) (rintv ref).

Definition rec_shape (R : irec) : Prop :=
  q_placed R = true /\ 0 <= q_start R < q_end R /\ q_end R <= ix_bai_limit + 1 /\ q_cb R < q_ce R.

Record Inv (ix : index) (seen : list irec) (lrid lstart lend : Z) : Prop := mkInv {
  inv_len : zlen (irefs ix) = lrid + 1;
  inv_lrid : -1 <= lrid;
  inv_lend : 0 <= lend;
  inv_last : ilast ix <= lstart;
  inv_sorted : isorted ix = true -> Forall ref_sorted (irefs ix);
  inv_refs : Forall (ref_bounded lend) (irefs ix);
  inv_seen : forall R, In R seen ->
      0 <= q_rid R <= lrid /\ rec_shape R /\
      rec_in_ref (nth (Z.to_nat (q_rid R)) (irefs ix) ix_empty_ref) R
}.

Lemma ref_bounded_empty lend : ref_bounded lend ix_empty_ref.
Proof. unfold ref_bounded; simpl. split; [intros ? ? []|]. split; [intros ? []|constructor]. Qed.

Lemma ref_bounded_mono l1 l2 ref : l1 <= l2 -> ref_bounded l1 ref -> ref_bounded l2 ref.
Proof.
  intros H (A & B & C). split; [|split; [|exact C]].
  - intros b c Hb Hc. specialize (A b c Hb Hc). lia.
  - intros x Hx. specialize (B x Hx). lia.
Qed.

Lemma ref_sorted_empty : ref_sorted ix_empty_ref.
Proof. repeat split; constructor. Qed.

Lemma key_sorted_snoc (cs : list chunk) c :
  key_sorted fst cs -> (forall ch, In ch cs -> fst ch <= fst c) -> key_sorted fst (cs ++ [c]).
Proof.
  unfold key_sorted. induction cs as [|h t IH]; intros Hs Hb; simpl; [constructor; constructor|].
  inversion Hs as [|? ? Hst Hall]; subst. constructor.
  - apply IH; [exact Hst|]. intros ch Hc. apply Hb. right; exact Hc.
  - apply Forall_app. split; [exact Hall|]. constructor; [|constructor]. apply Hb. left; reflexivity.
Qed.

Lemma upd_bins_chunks_sorted lend bs b c bs' :
  (forall x ch, In x bs -> In ch (bchunks x) -> fst ch <= lend /\ snd ch <= lend) -> lend <= fst c ->
  Forall (fun b => key_sorted fst (bchunks b)) bs -> ix_upd_bins bs b c = Some bs' ->
  Forall (fun b => key_sorted fst (bchunks b)) bs'.
Proof.
  revert bs'. induction bs as [|x t IH]; intros bs' Hb Hl Hs H; simpl in H; [discriminate|].
  inversion Hs as [|? ? Hx Ht]; subst. destruct (bnum x =? b).
  - inversion H; subst. constructor; [|exact Ht]. simpl.
    rewrite ix_upd_chunks_append.
    + apply key_sorted_snoc; [exact Hx|]. intros ch Hc. destruct (Hb x ch (or_introl eq_refl) Hc). lia.
    + intros ch Hc. destruct (Hb x ch (or_introl eq_refl) Hc). lia.
  - destruct (ix_upd_bins t b c) eqn:E; [|discriminate]. inversion H; subst. constructor; [exact Hx|].
    apply (IH l); auto. intros y ch Hy. apply Hb. right; exact Hy.
Qed.

Lemma Inv_init : Inv ix_empty [] (-1) 0 0.
Proof. constructor; simpl; try lia; try reflexivity; try (intros ? []); try discriminate; constructor. Qed.

Lemma Forall_upd_nat {A} (P : A -> Prop) l i x : Forall P l -> P x -> Forall P (upd_nat l i x).
Proof.
  revert i; induction l as [|h t IH]; intros i Hl Hx; simpl; [constructor|].
  inversion Hl; subst. destruct i; constructor; auto.
Qed.

Lemma valid_pos_iff x : ix_valid_pos x = true <-> -1 <= x <= ix_bai_limit.
Proof.
  unfold ix_valid_pos, internal_IsValidIndexPos, ix_bai_limit. change (2 ^ internal_indexWordBits - 2) with 536870910.
  rewrite andb_true_iff, Z.leb_le, Z.leb_le. tauto.
Qed.

Lemma nth_grow (rs : list iref) k i :
  nth i (rs ++ repeat ix_empty_ref k) ix_empty_ref = nth i rs ix_empty_ref.
Proof.
  destruct (Nat.lt_ge_cases i (length rs)) as [H|H].
  - apply app_nth1; exact H.
  - rewrite app_nth2 by exact H. rewrite (nth_overflow rs) by exact H.
    destruct (Nat.lt_ge_cases (i - length rs) k) as [H2|H2].
    + apply nth_repeat.
    + apply nth_overflow. rewrite repeat_length. exact H2.
Qed.

Lemma ix_upd_bins_nums bs b c bs' : ix_upd_bins bs b c = Some bs' -> map bnum bs' = map bnum bs.
Proof.
  revert bs'. induction bs as [|x t IH]; intros bs' H; simpl in H; [discriminate|].
  destruct (bnum x =? b); [inversion H; reflexivity|].
  destruct (ix_upd_bins t b c) eqn:E; [|discriminate]. inversion H; subst. simpl. f_equal. apply IH. reflexivity.
Qed.

Lemma key_sorted_nums (a b : list ibin) : map bnum a = map bnum b -> key_sorted bnum a -> key_sorted bnum b.
Proof.
  unfold key_sorted. revert b. induction a as [|x t IH]; intros [|y u] E H; simpl in E; try discriminate; [constructor|].
  inversion E. inversion H as [|? ? Hs Hall]; subst. constructor; [apply IH; assumption|].
  apply Forall_forall. intros z Hz. rewrite Forall_forall in Hall.
  assert (In (bnum z) (map bnum t)) by (rewrite H2; apply in_map; exact Hz).
  apply in_map_iff in H0. destruct H0 as (z0 & Hz0 & Hin). specialize (Hall z0 Hin). lia.
Qed.

Lemma add_placed_inv ix seen lrid lstart lend r :
  Inv ix seen lrid lstart lend -> q_placed r = true ->
  0 <= q_rid r -> lrid <= q_rid r -> (q_rid r = lrid -> lstart <= q_start r) ->
  0 <= q_start r < q_end r -> q_end r <= ix_bai_limit + 1 -> lend <= q_cb r < q_ce r ->
  exists ix', ix_add ix r = Ok ix' /\ Inv ix' (r :: seen) (q_rid r) (q_start r) (q_ce r).
Proof.
  intros I Hp Hrid0 Hrid Hst Hse Hlim Hc.
  destruct I as [Ilen Ilrid Ilend Ilast Isrt Irefs Iseen].
  unfold ix_add.
  assert (V1 : ix_valid_pos (q_start r) = true) by (apply valid_pos_iff; lia).
  assert (V2 : ix_valid_pos (q_end r - 1) = true) by (apply valid_pos_iff; lia).
  rewrite V1, V2, Hp. simpl negb. change (false || false) with false. cbv iota.
  set (rid := q_rid r) in *.
  destruct (rid <? 0) eqn:E0; [apply Z.ltb_lt in E0; lia|].
  destruct (rid <? zlen (irefs ix) - 1) eqn:E1; [apply Z.ltb_lt in E1; lia|].
  set (refs := if rid >=? zlen (irefs ix) then ix_grow_refs (irefs ix) rid else irefs ix).
  set (last := if rid >=? zlen (irefs ix) then 0 else ilast ix).
  assert (Hrefs_len : zlen refs = rid + 1).
  { unfold refs. destruct (rid >=? zlen (irefs ix)) eqn:E; [|lia].
    unfold ix_grow_refs. rewrite zlen_app, zlen_repeat. lia. }
  assert (Hnth : forall i, nth i refs ix_empty_ref = nth i (irefs ix) ix_empty_ref).
  { intros i. unfold refs. destruct (rid >=? zlen (irefs ix)); [apply nth_grow|reflexivity]. }
  assert (Hrefs_b : Forall (ref_bounded lend) refs).
  { unfold refs. destruct (rid >=? zlen (irefs ix)); [|exact Irefs].
    unfold ix_grow_refs. apply Forall_app. split; [exact Irefs|].
    apply Forall_forall. intros x Hx. apply repeat_spec in Hx. subst. apply ref_bounded_empty. }
  assert (Hinb : inb refs rid = true).
  { unfold inb. apply andb_true_intro. split; [apply Z.leb_le|apply Z.ltb_lt]; lia. }
  rewrite Hinb. unfold chk.
  set (ref := nth (Z.to_nat rid) refs ix_empty_ref).
  assert (Hrefb : ref_bounded lend ref).
  { unfold ref. rewrite Forall_forall in Hrefs_b. apply Hrefs_b. apply nth_In. unfold zlen in Hrefs_len. lia. }
  destruct Hrefb as (RB1 & RB2 & RB3).
  set (c := (q_cb r, q_ce r)).
  pose proof (filed_spec (rbins ref) (q_bin r) c lend (fun x ch a b => proj2 (RB1 x ch a b)) (proj1 Hc) RB3) as (F1 & F2 & F3 & F4).
  assert (Hlast : (q_start r <? last) = false).
  { apply Z.ltb_ge. unfold last. destruct (rid >=? zlen (irefs ix)) eqn:E; [lia|].
    assert (rid = lrid) by lia. specialize (Hst H). lia. }
  destruct (ix_linear_ok (rintv ref) (q_start r) (q_end r) (q_cb r) Hse) as (tail & L1 & L2 & L3).
  assert (Hgoal : forall bins sorted, bins = filed (rbins ref) (q_bin r) c ->
     (sorted = true -> isorted ix = true /\ ix_upd_bins (rbins ref) (q_bin r) c = Some bins) ->
     exists ix', (if q_start r <? last then Err 3 else
        obind (ix_linear (rintv ref) (q_start r) (q_end r) (q_cb r)) (fun intv =>
          let sorted := if zlen intv >? zlen (rintv ref) then false else sorted in
          Ok (mkIdx (upd_nat refs (Z.to_nat rid) (mkRef bins (Some (ix_upd_stats (rstats ref) c (q_mapped r))) intv))
                    (Some match iunm ix with Some u => u | None => 0 end) sorted (q_start r)))) = Ok ix'
     /\ Inv ix' (r :: seen) rid (q_start r) (q_ce r)).
  { intros bins sorted -> Hsorted. rewrite Hlast, L1. cbn [obind]. cbv zeta. eexists. split; [reflexivity|].
    set (ref' := mkRef (filed (rbins ref) (q_bin r) c) (Some (ix_upd_stats (rstats ref) c (q_mapped r))) (rintv ref ++ tail)).
    assert (Hb' : ref_bounded (q_ce r) ref').
    { split; [|split]; simpl.
      - intros b0 ch Hb0 Hch. destruct (F4 b0 ch Hb0 Hch) as [->|(x & Hx & Hxc)]; [simpl; lia|].
        specialize (RB1 x ch Hx Hxc). lia.
      - intros x Hx. apply in_app_or in Hx. destruct Hx as [Hx|Hx]; [specialize (RB2 x Hx); lia|]. destruct (L2 x Hx); lia.
      - exact F1. }
    constructor; simpl.
    - unfold zlen. rewrite length_upd_nat. exact Hrefs_len.
    - lia.
    - lia.
    - lia.
    - intros Et. destruct (zlen (rintv ref ++ tail) >? zlen (rintv ref)) eqn:Eg; [discriminate|].
      assert (Etail : tail = []).
      { rewrite Z.gtb_ltb in Eg. apply Z.ltb_ge in Eg.
        destruct tail; [reflexivity|]. rewrite zlen_app in Eg. unfold zlen in Eg. simpl length in Eg. lia. }
      destruct (Hsorted Et) as (Eix & Eupd). specialize (Isrt Eix).
      assert (Hrs : Forall ref_sorted refs).
      { unfold refs. destruct (rid >=? zlen (irefs ix)); [|exact Isrt].
        unfold ix_grow_refs. apply Forall_app. split; [exact Isrt|].
        apply Forall_forall. intros x Hx. apply repeat_spec in Hx. subst. apply ref_sorted_empty. }
      apply Forall_upd_nat; [exact Hrs|].
      assert (Href : ref_sorted ref).
      { rewrite Forall_forall in Hrs. apply Hrs. apply nth_In. unfold zlen in Hrefs_len. lia. }
      destruct Href as (S1 & S2 & S3). unfold ref'. split; [|split]; simpl.
      + apply (key_sorted_nums (rbins ref)); [symmetry; apply (ix_upd_bins_nums _ _ _ _ Eupd)|exact S1].
      + apply (upd_bins_chunks_sorted lend (rbins ref) (q_bin r) c _ RB1); try assumption. exact (proj1 Hc).
      + rewrite Etail, app_nil_r. exact S3.
    - apply Forall_upd_nat; [|exact Hb'].
      eapply Forall_impl; [|exact Hrefs_b]. intros a Ha. eapply ref_bounded_mono; [|exact Ha]. lia.
    - intros R [<-|HR].
      + split; [fold rid; lia|]. split; [repeat split; try assumption; lia|].
        fold rid. rewrite nth_upd_nat_same by (unfold zlen in Hrefs_len; lia).
        split; [|split]; simpl.
        * destruct F2 as (x & Hx & Hxn & Hxc). exists x, c. simpl. repeat split; try assumption; lia.
        * exact L3.
        * intros i Hi. destruct (Nat.lt_ge_cases i (length (rintv ref))) as [Hlt|Hge].
          -- rewrite app_nth1 by exact Hlt. specialize (RB2 _ (nth_In _ 0 Hlt)). lia.
          -- rewrite app_nth2 by exact Hge.
             destruct (Nat.lt_ge_cases (i - length (rintv ref)) (length tail)) as [H2|H2].
             ++ destruct (L2 _ (nth_In _ 0 H2)) as [->| ->]; lia.
             ++ rewrite nth_overflow by exact H2. lia.
      + destruct (Iseen R HR) as (A & B & C). split; [lia|]. split; [exact B|].
        destruct (Z.eq_dec (q_rid R) rid) as [Heq|Hne].
        * rewrite Heq. rewrite nth_upd_nat_same by (unfold zlen in Hrefs_len; lia).
          assert (C' : rec_in_ref ref R).
          { unfold ref. rewrite Hnth, <- Heq. exact C. }
          destruct C' as ((b & ch & Hb & Hbn & Hch & Hcov) & C2 & C3).
          split; [|split]; simpl.
          -- destruct (F3 b ch Hb Hch) as (b' & Hbb' & Hn' & Hc'). exists b', ch. repeat split; try assumption; try lia.

          -- rewrite zlen_app. pose proof (zlen_nonneg tail). lia.
          -- intros i Hi. rewrite app_nth1; [apply C3; exact Hi|]. unfold zlen in C2. lia.
        * rewrite nth_upd_nat_other by lia. rewrite Hnth. exact C. }
  destruct (ix_upd_bins (rbins ref) (q_bin r) c) as [bs|] eqn:Eb; cbv beta iota zeta.
  - refine (Hgoal bs (isorted ix) _ _); [unfold filed; rewrite Eb; reflexivity|].
    intros Et. split; [exact Et|reflexivity].
  - refine (Hgoal _ false _ _); [unfold filed; rewrite Eb; reflexivity|discriminate].
Qed.

Lemma add_unplaced_inv ix seen lrid lstart lend r :
  Inv ix seen lrid lstart lend -> q_placed r = false ->
  -1 <= q_start r <= ix_bai_limit -> 0 <= q_end r <= ix_bai_limit + 1 ->
  exists ix', ix_add ix r = Ok ix' /\ Inv ix' seen lrid lstart lend.
Proof.
  intros I Hp H1 H2. unfold ix_add.
  assert (H2' : -1 <= q_end r - 1 <= ix_bai_limit) by lia.
  rewrite (proj2 (valid_pos_iff _) H1), (proj2 (valid_pos_iff _) H2'), Hp. simpl.
  eexists. split; [reflexivity|]. destruct I. constructor; simpl; assumption.
Qed.

Lemma fold_add_inv rs : forall ix seen lrid lstart lend,
  Inv ix seen lrid lstart lend -> ix_wf_from ix_bai_limit lrid lstart lend rs ->
  exists ix' seen' lrid' lstart' lend',
    ix_fold_add ix rs = Ok ix' /\ Inv ix' seen' lrid' lstart' lend' /\
    (forall R, In R seen \/ (In R rs /\ q_placed R = true) -> In R seen').
Proof.
  induction rs as [|r t IH]; intros ix seen lrid lstart lend I W.
  - exists ix, seen, lrid, lstart, lend. simpl. split; [reflexivity|]. split; [exact I|].
    intros R [H|[[] _]]; exact H.
  - simpl in W. destruct (q_placed r) eqn:Hp.
    + destruct W as (W1 & W2 & W3 & W4 & W5 & W6 & W7).
      destruct (add_placed_inv _ _ _ _ _ r I Hp W1 W2 W3 W4 W5 W6) as (ix1 & A1 & I1).
      destruct (IH _ _ _ _ _ I1 W7) as (ix' & seen' & a & b & c & F & I' & S).
      exists ix', seen', a, b, c. simpl. rewrite A1. simpl. split; [exact F|]. split; [exact I'|].
      intros R [H|[[<-|H] HpR]]; apply S; [left; right; exact H|left; left; reflexivity|right; split; assumption].
    + destruct W as (W1 & W2 & W3).
      destruct (add_unplaced_inv _ _ _ _ _ r I Hp W1 W2) as (ix1 & A1 & I1).
      destruct (IH _ _ _ _ _ I1 W3) as (ix' & seen' & a & b & c & F & I' & S).
      exists ix', seen', a, b, c. simpl. rewrite A1. simpl. split; [exact F|]. split; [exact I'|].
      intros R [H|[[<-|H] HpR]]; [apply S; left; exact H|congruence|apply S; right; split; assumption].
Qed.

(** ** what a query needs: preserved by sort and by a covering merge strategy *)

Record QInv (ix : index) (seen : list irec) : Prop := mkQInv {
  q_sorted : isorted ix = true -> Forall (fun ref => key_sorted bnum (rbins ref)) (irefs ix);
  q_nodup : Forall (fun ref => NoDup (map bnum (rbins ref))) (irefs ix);
  q_seen : forall R, In R seen ->
      0 <= q_rid R < zlen (irefs ix) /\ rec_shape R /\
      rec_in_ref (nth (Z.to_nat (q_rid R)) (irefs ix) ix_empty_ref) R
}.

Lemma Inv_QInv ix seen a b c : Inv ix seen a b c -> QInv ix seen.
Proof.
  intros I. destruct I. constructor.
  - intros E. eapply Forall_impl; [|exact (inv_sorted0 E)]. intros r (H & _). exact H.
  - eapply Forall_impl; [|exact inv_refs0]. intros r (_ & _ & H). exact H.
  - intros R HR. destruct (inv_seen0 R HR) as (A & B & C). split; [lia|]. split; assumption.
Qed.

Lemma nth_map_ref (f : iref -> iref) (l : list iref) i :
  f ix_empty_ref = ix_empty_ref -> nth i (map f l) ix_empty_ref = f (nth i l ix_empty_ref).
Proof. intros H. rewrite <- H at 1. apply map_nth. Qed.

Lemma rec_in_ref_sort ref R : rec_in_ref ref R -> rec_in_ref (ix_sort_ref ref) R.
Proof.
  intros ((b & c & Hb & Hn & Hc & Hcov) & H2 & H3). unfold ix_sort_ref. split; [|split]; simpl.
  - exists (ix_sort_bin b), c. split.
    + apply ix_isort_in. apply in_map. exact Hb.
    + split; [exact Hn|]. split; [simpl; apply ix_isort_in; exact Hc|exact Hcov].
  - rewrite ix_sort_intv_eq. unfold zlen in *. rewrite ix_isort_length. exact H2.
  - rewrite ix_sort_intv_eq. apply ix_isort_prefix; [|exact H3].
    unfold zlen in H2. unfold etile in *. lia.
Qed.

Lemma map_bnum_sort_bin l : map bnum (map ix_sort_bin l) = map bnum l.
Proof. rewrite map_map. reflexivity. Qed.

Lemma QInv_sort ix seen : QInv ix seen -> QInv (ix_sort ix) seen /\ isorted (ix_sort ix) = true.
Proof.
  intros Q. unfold ix_sort. destruct (isorted ix) eqn:E; [split; [exact Q|exact E]|].
  split; [|reflexivity]. destruct Q as [Q1 Q2 Q3]. constructor; simpl.
  - intros _. apply Forall_forall. intros r Hr. apply in_map_iff in Hr. destruct Hr as (r0 & <- & _).
    simpl. apply ix_isort_sorted.
  - apply Forall_forall. intros r Hr. apply in_map_iff in Hr. destruct Hr as (r0 & <- & Hr0).
    simpl. rewrite Forall_forall in Q2. specialize (Q2 r0 Hr0).
    eapply Permutation_NoDup; [|rewrite <- map_bnum_sort_bin in Q2; exact Q2].
    apply Permutation_map. apply ix_isort_perm.
  - intros R HR. destruct (Q3 R HR) as (A & B & C). unfold zlen. rewrite map_length. split; [exact A|].
    split; [exact B|]. rewrite nth_map_ref by reflexivity. apply rec_in_ref_sort. exact C.
Qed.

Lemma key_sorted_begin cs : key_sorted fst cs -> ix_sorted_begin cs.
Proof.
  induction cs as [|c t IH]; intros H; simpl; [exact I|]. inversion H as [|? ? Hs Hall]; subst.
  split; [|apply IH; exact Hs]. intros d Hd. rewrite Forall_forall in Hall. apply Hall. exact Hd.
Qed.

Lemma QInv_merge s ix seen : ix_strategy_covers s -> QInv ix seen -> QInv (ix_merge s ix) seen.
Proof.
  intros Hs [Q1 Q2 Q3]. constructor; simpl.
  - intros E. specialize (Q1 E). apply Forall_forall. intros r Hr. apply in_map_iff in Hr.
    destruct Hr as (r0 & <- & Hr0). rewrite Forall_forall in Q1. specialize (Q1 r0 Hr0). simpl.
    clear - Q1. induction (rbins r0) as [|b t IH]; simpl; [constructor|].
    inversion Q1 as [|? ? Hst Hall]; subst. constructor; [apply IH; exact Hst|].
    apply Forall_forall. intros z Hz. apply in_map_iff in Hz. destruct Hz as (z0 & <- & Hz0). simpl.
    rewrite Forall_forall in Hall. apply Hall. exact Hz0.
  - apply Forall_forall. intros r Hr. apply in_map_iff in Hr. destruct Hr as (r0 & <- & Hr0).
    rewrite Forall_forall in Q2. specialize (Q2 r0 Hr0). simpl. rewrite map_map. simpl. exact Q2.
  - intros R HR. destruct (Q3 R HR) as (A & B & C). unfold zlen. rewrite map_length. split; [exact A|].
    split; [exact B|]. rewrite nth_map_ref by reflexivity.
    destruct C as ((b & c & Hb & Hn & Hc & Hcov) & C2 & C3). split; [|split; assumption].
    destruct (Hs (ix_isort fst (bchunks b)) c) as (c' & Hc' & Hl & Hr').
    + apply key_sorted_begin, ix_isort_sorted.
    + apply ix_isort_in. exact Hc.
    + exists (mkBin (bnum b) (s (ix_isort fst (bchunks b)))), c'. simpl. split.
      * apply in_map_iff. exists b. split; [reflexivity|exact Hb].
      * split; [exact Hn|]. split; [exact Hc'|lia].
Qed.

(** ** the query *)

Section Query.
  (** C16: the bin of an interval is among the bins enumerated for any overlapping interval. *)
  Hypothesis bin_containment :
    forall b1 e1 b2 e2 bn,
      0 <= b1 < e1 -> e1 <= 2 ^ 29 -> 0 <= b2 < e2 -> e2 <= 2 ^ 29 -> b1 < e2 -> b2 < e1 ->
      internal_BinFor b1 e1 = Ok bn -> In bn (ix_overlapping_bins b2 e2).

  Lemma tile_loop_first tiles iv beg end_ cend :
    0 <= beg < end_ -> iv = beg / 16384 -> tiles <> [] -> hd 0 tiles < cend ->
    ix_tile_loop tiles 0 false iv beg end_ cend = true.
  Proof.
    intros Hq Hiv Hne Hhd. destruct tiles as [|tile rest]; [congruence|]. simpl in Hhd. simpl.
    change ix_TW with 16384.
    replace (iv * 16384 + 16384 >=? beg) with true by (symmetry; apply Z.geb_le; lia).
    replace (iv * 16384 <=? end_) with true by (symmetry; apply Z.leb_le; lia).
    replace (cend >? tile) with true by (symmetry; apply Z.gtb_lt; lia). reflexivity.
  Qed.

  Lemma query_sorted ix seen R rid beg end_ :
    QInv ix seen -> isorted ix = true -> In R seen ->
    internal_BinFor (q_start R) (q_end R) = Ok (q_bin R) ->
    ix_overlaps R rid beg end_ -> 0 <= beg < end_ -> end_ <= 2 ^ 29 ->
    exists cs, ix_chunks_of ix rid beg end_ = Ok cs /\ ix_covers cs R.
  Proof.
    intros [Q1 Q2 Q3] Es HR Hbin (Op & Orid & O1 & O2) Hq Hq2.
    destruct (Q3 R HR) as (A & (S1 & S2 & S3 & S4) & ((b & c & Hb & Hn & Hc & Hcov) & C2 & C3)).
    subst rid. unfold ix_chunks_of. set (ref := nth (Z.to_nat (q_rid R)) (irefs ix) ix_empty_ref) in *.
    change ix_TW with 16384. rewrite Z.quot_div_nonneg by lia.
    set (iv := beg / 16384).
    assert (Hiv : 0 <= iv <= etile R) by (unfold iv, etile; split; [apply Z.div_pos; lia|apply Z.div_le_mono; lia]).
    destruct (iv >=? zlen (rintv ref)) eqn:E; [lia|].
    replace (0 <=? iv) with true by (symmetry; apply Z.leb_le; lia). unfold chk.
    eexists. split; [reflexivity|]. exists c. split; [|exact Hcov].
    apply ix_isort_in. unfold ix_candidates. apply in_flat_map. exists (q_bin R). split.
    - apply (bin_containment (q_start R) (q_end R) beg end_); try lia; try assumption.
      unfold ix_bai_limit in S3. change (2 ^ internal_indexWordBits) with (2 ^ 29) in S3. lia.
    - assert (Href : In ref (irefs ix)) by (apply nth_In; unfold zlen in A; lia).
      rewrite Forall_forall in Q2. specialize (Q2 ref Href).
      specialize (Q1 Es). rewrite Forall_forall in Q1. specialize (Q1 ref Href).
      rewrite <- Hn. rewrite (ix_search_found _ b Q1 Q2 Hb).
      apply filter_In. split; [exact Hc|].
      apply tile_loop_first; try assumption; try reflexivity.
      + intro Hnil. apply (f_equal (@length Z)) in Hnil. rewrite skipn_length in Hnil. simpl in Hnil.
        unfold zlen in E. lia.
      + assert (Hhd : hd 0 (skipn (Z.to_nat iv) (rintv ref)) = nth (Z.to_nat iv) (rintv ref) 0).
        { clear. generalize (Z.to_nat iv). intros n. revert n. induction (rintv ref) as [|h t IH]; intros [|n]; simpl; auto. }
        rewrite Hhd. specialize (C3 (Z.to_nat iv)). assert (nth (Z.to_nat iv) (rintv ref) 0 <= q_cb R) by (apply C3; lia).
        lia.
  Qed.

  Lemma query_complete ix seen R rid beg end_ :
    QInv ix seen -> In R seen ->
    internal_BinFor (q_start R) (q_end R) = Ok (q_bin R) ->
    ix_overlaps R rid beg end_ -> 0 <= beg < end_ -> end_ <= 2 ^ 29 ->
    exists cs, fst (ix_chunks ix rid beg end_) = Ok cs /\ ix_covers cs R.
  Proof.
    intros Q HR Hbin Ho Hq Hq2. unfold ix_chunks.
    destruct (q_seen _ _ Q R HR) as (A & _ & _). destruct Ho as (Op & Orid & O12). subst rid.
    destruct (q_rid R <? 0) eqn:E1; [apply Z.ltb_lt in E1; lia|].
    destruct (q_rid R >=? zlen (irefs ix)) eqn:E2; [lia|]. cbn [orb].
    destruct (beg <? 0) eqn:E3; [lia|]. destruct (end_ <? beg) eqn:E4; [lia|]. cbn [orb fst].
    assert (Ec : ix_clip_end end_ = end_).
    { unfold ix_clip_end. change (2 ^ internal_indexWordBits) with (2 ^ 29). destruct (end_ >? 2 ^ 29) eqn:E5; [lia|reflexivity]. }
    rewrite Ec.
    destruct (QInv_sort _ _ Q) as (Q' & Es).
    eapply query_sorted; eauto. repeat split; tauto.
  Qed.

  (** The theorem, for an index reached from the empty one. *)
  Theorem bai_complete_gen rs :
    ix_wf rs -> ix_bins_ok rs ->
    exists ix, ix_fold_add ix_empty rs = Ok ix /\
      forall rid beg end_, 0 <= beg < end_ -> end_ <= 2 ^ 29 ->
        (forall r, In r rs -> ix_overlaps r rid beg end_ ->
           exists cs, fst (ix_chunks ix rid beg end_) = Ok cs /\ ix_covers cs r) /\
        (fst (ix_chunks ix rid beg end_) = Ok [] \/ (exists e, fst (ix_chunks ix rid beg end_) = Err e) ->
           forall r, In r rs -> ~ ix_overlaps r rid beg end_).
  Proof.
    intros W B. destruct (fold_add_inv rs _ _ _ _ _ Inv_init W) as (ix & seen & a & b & c & F & I & S).
    exists ix. split; [exact F|]. intros rid beg end_ Hq Hq2.
    assert (Main : forall r, In r rs -> ix_overlaps r rid beg end_ ->
               exists cs, fst (ix_chunks ix rid beg end_) = Ok cs /\ ix_covers cs r).
    { intros r Hr Ho.
      apply (query_complete ix seen r rid beg end_ (Inv_QInv _ _ _ _ _ I)); try assumption.
      - apply S. right. split; [exact Hr|]. destruct Ho; assumption.
      - unfold ix_bins_ok in B. rewrite Forall_forall in B. apply B; [exact Hr|]. destruct Ho; assumption. }
    split; [exact Main|].
    intros H r Hr Ho. destruct (Main r Hr Ho) as (cs' & E & (c0 & Hc0 & _)).
    destruct H as [H|(e & H)]; rewrite H in E; [|discriminate]. inversion E; subst. destruct Hc0.
  Qed.

  (** Every later state reached by sorting (Chunks, WriteIndex) or by a
      covering merge strategy still answers completely. *)
  Inductive reach (rs : list irec) : index -> Prop :=
  | reach_built ix : ix_fold_add ix_empty rs = Ok ix -> reach rs ix
  | reach_sort ix : reach rs ix -> reach rs (ix_sort ix)
  | reach_query ix rid beg end_ : reach rs ix -> reach rs (snd (ix_chunks ix rid beg end_))
  | reach_merge ix s : ix_strategy_covers s -> reach rs ix -> reach rs (ix_merge s ix).

  Lemma reach_QInv rs ix :
    ix_wf rs -> reach rs ix -> exists seen, QInv ix seen /\ (forall R, In R rs -> q_placed R = true -> In R seen).
  Proof.
    intros W Hre. induction Hre as [ix F|ix _ IH|ix rid beg end_ _ IH|ix s Hs _ IH].
    - destruct (fold_add_inv rs _ _ _ _ _ Inv_init W) as (ix' & seen & a & b & c & F' & I & S).
      rewrite F in F'. inversion F'; subst. exists seen. split; [eapply Inv_QInv; exact I|].
      intros R HR Hp. apply S. right. split; assumption.
    - destruct IH as (seen & Q & S). exists seen. split; [apply QInv_sort; exact Q|exact S].
    - destruct IH as (seen & Q & S). exists seen. split; [|exact S]. unfold ix_chunks.
      destruct ((rid <? 0) || (rid >=? zlen (irefs ix))); simpl; [exact Q|].
      destruct ((beg <? 0) || (end_ <? beg)); simpl; [exact Q|apply QInv_sort; exact Q].
    - destruct IH as (seen & Q & S). exists seen. split; [apply QInv_merge; assumption|exact S].
  Qed.

  Theorem bai_complete_reach rs ix :
    ix_wf rs -> ix_bins_ok rs -> reach rs ix ->
    forall rid beg end_ r, 0 <= beg < end_ -> end_ <= 2 ^ 29 ->
      In r rs -> ix_overlaps r rid beg end_ ->
      exists cs, fst (ix_chunks ix rid beg end_) = Ok cs /\ ix_covers cs r.
  Proof.
    intros W B Hre rid beg end_ r Hq Hq2 Hr Ho.
    destruct (reach_QInv rs ix W Hre) as (seen & Q & S).
    apply (query_complete ix seen r rid beg end_ Q); try assumption.
    - apply S; [exact Hr|]. destruct Ho; assumption.
    - unfold ix_bins_ok in B. rewrite Forall_forall in B. apply B; [exact Hr|]. destruct Ho; assumption.
  Qed.
End Query.
